import PoxModel.Model.MatchV
import PoxModel.Proofs.MatchSelf
set_option linter.unusedSimpArgs false
/-! Theorems about the code variants of `Model/MatchV.lean` (proposed repairs D26 / D37 / D38), obtained from the theorems about
`/repo` HEAD by input normalisation: a variant that reads prerequisites only from non-wildcarded fields behaves on `r` like HEAD
on `pre r` (`r` with its wildcarded dl_type / nw_proto zeroed), and neither the code nor the standard looks at the value of a
wildcarded field.  Core only. -/
namespace Pox.OF
open OfMatch

namespace Variant
variable (v : Variant)

/-! ### `Variant.head` is `Model/Match.lean` -/

theorem head_ofWire (r : OfMatch) : Variant.head.ofWire r = OfMatch.ofWire r := rfl
theorem head_isWildcarded (m : OfMatch) : Variant.head.isWildcarded m = m.isWildcarded := rfl
theorem head_effectivePriority {α : Type} (e : Entry α) : Variant.head.effectivePriority e = e.effectivePriority := rfl
theorem head_extract (p : PHdr) (ip : Option Nat) : Variant.head.extract true p ip = OF.extract p ip := rfl
theorem head_fromPacket (p : PHdr) (port : Nat) : Variant.head.fromPacket p port = OF.fromPacket p port := rfl
theorem head_entryForPacket {α : Type} (tbl : Table α) (p : PHdr) (port : Nat) :
    Variant.head.entryForPacket tbl p port = OF.entryForPacket tbl p port := rfl

/-! ### normalising the transmitted match -/

/-- `r` as `_unwire_wildcards` of variant `v` sees it -/
def pre (r : OfMatch) : OfMatch :=
  { r with dlType := v.effDlType r.dlType r.wildcards, nwProto := v.effNwProto r.nwProto r.wildcards }

theorem pre_wildcards (r : OfMatch) : (v.pre r).wildcards = r.wildcards := rfl
theorem pre_wild (r : OfMatch) (f : Fld) : (v.pre r).wild f = r.wild f := rfl

theorem pre_get (r : OfMatch) (f : Fld) (h : r.wild f = false) : (v.pre r).get f = r.get f := by
  cases f <;> first | rfl | skip
  · show v.effDlType r.dlType r.wildcards = r.dlType
    have : r.wildcards.testBit Fld.dlType.bit = false := h
    simp [effDlType, this]
  · show v.effNwProto r.nwProto r.wildcards = r.nwProto
    have : r.wildcards.testBit Fld.nwProto.bit = false := h
    simp [effNwProto, this]

theorem pre_of_raw (h : v.prereqExact = false) (r : OfMatch) : v.pre r = r := by
  simp [pre, effDlType, effNwProto, h]

/-- the normalised match satisfies `PrereqExact`: by construction when the variant has repair D38, by hypothesis otherwise -/
theorem prereq_pre (r : OfMatch) (hp : v.prereqExact = false → PrereqExact r) : PrereqExact (v.pre r) := by
  cases hv : v.prereqExact
  · rw [pre_of_raw v hv]; exact hp hv
  · constructor
    · intro hw
      have : r.wildcards.testBit Fld.dlType.bit = true := hw
      show v.effDlType r.dlType r.wildcards ≠ 0x0800 ∧ v.effDlType r.dlType r.wildcards ≠ 0x0806
      simp [effDlType, hv, this]
    · intro hw _
      have : r.wildcards.testBit Fld.nwProto.bit = true := hw
      show isL4Proto (v.effNwProto r.nwProto r.wildcards) = false
      simp [effNwProto, hv, this, isL4Proto]

theorem ofWire_eq (r : OfMatch) :
    v.ofWire r = { OfMatch.ofWire (v.pre r) with dlType := r.dlType, nwProto := r.nwProto } := rfl

/-! ### neither test looks at the value of a wildcarded field -/

theorem matchesWith_congr_left (c : Bool) (a a' b : OfMatch) (hw : a.wildcards = a'.wildcards)
    (hg : ∀ f, a.wild f = false → a.get f = a'.get f) (hs : a.nwSrc = a'.nwSrc) (hd : a.nwDst = a'.nwDst) :
    matchesWith c a b = matchesWith c a' b := by
  have hwild : ∀ f, a'.wild f = a.wild f := fun f => by simp [wild, hw]
  have hff : ∀ f, fieldFail a b f = fieldFail a' b f := by
    intro f
    unfold fieldFail
    rw [hwild]
    cases hq : a.wild f
    · rw [hg f hq]
    · simp
  have hsv : a.srcView = a'.srcView := by simp [srcView, hw, hs]
  have hdv : a.dstView = a'.dstView := by simp [dstView, hw, hd]
  have hfe := funext hff
  cases c
  · rw [matchesWith_false, matchesWith_false, hsv, hdv, hfe]
  · rw [matchesWith_true, matchesWith_true, hsv, hdv, hw, hfe]

theorem matchesWith_congr_right (c : Bool) (a b b' : OfMatch) (hw : b.wildcards = b'.wildcards)
    (hg : ∀ f, b.wild f = false → b.get f = b'.get f) (hs : b.nwSrc = b'.nwSrc) (hd : b.nwDst = b'.nwDst) :
    matchesWith c a b = matchesWith c a b' := by
  have hwild : ∀ f, b'.wild f = b.wild f := fun f => by simp [wild, hw]
  have hff : ∀ f, fieldFail a b f = fieldFail a b' f := by
    intro f
    unfold fieldFail
    rw [hwild]
    cases hq : b.wild f
    · rw [hg f hq]
    · simp
  have hsv : b.srcView = b'.srcView := by simp [srcView, hw, hs]
  have hdv : b.dstView = b'.dstView := by simp [dstView, hw, hd]
  have hfe := funext hff
  cases c
  · rw [matchesWith_false, matchesWith_false, hsv, hdv, hfe]
  · rw [matchesWith_true, matchesWith_true, hsv, hdv, hw, hfe]

/-- on the left of a match test, the variant's `unpack` of `r` is HEAD's `unpack` of the normalised `r` -/
theorem ofWire_left (c : Bool) (r b : OfMatch) : matchesWith c (v.ofWire r) b = matchesWith c (OfMatch.ofWire (v.pre r)) b := by
  apply matchesWith_congr_left
  · rfl
  · intro f hf
    have hf' : r.wild f = false := by
      have := ofWire_wild (v.pre r) f
      have e : (v.ofWire r).wild f = (OfMatch.ofWire (v.pre r)).wild f := rfl
      rw [e, this, pre_wild] at hf
      simpa using (Bool.or_eq_false_iff.mp hf).1
    rw [ofWire_get]
    show r.get f = (v.pre r).get f
    exact (pre_get v r f hf').symm
  · rfl
  · rfl

theorem ofWire_right (c : Bool) (a r : OfMatch) : matchesWith c a (v.ofWire r) = matchesWith c a (OfMatch.ofWire (v.pre r)) := by
  apply matchesWith_congr_right
  · rfl
  · intro f hf
    have hf' : r.wild f = false := by
      have := ofWire_wild (v.pre r) f
      have e : (v.ofWire r).wild f = (OfMatch.ofWire (v.pre r)).wild f := rfl
      rw [e, this, pre_wild] at hf
      simpa using (Bool.or_eq_false_iff.mp hf).1
    rw [ofWire_get]
    show r.get f = (v.pre r).get f
    exact (pre_get v r f hf').symm
  · rfl
  · rfl

/-- the standard does not look at the value of a wildcarded dl_type / nw_proto either -/
theorem matchHdr_pre (r : OfMatch) (h : Spec.Headers) : Spec.matchHdr (v.pre r) h = Spec.matchHdr r h := by
  have e4 : r.wild .dlType = false → (v.pre r).dlType = r.dlType := pre_get v r .dlType
  have e5 : r.wild .nwProto = false → (v.pre r).nwProto = r.nwProto := pre_get v r .nwProto
  have w4 : Spec.wild r Spec.W_DL_TYPE = r.wild .dlType := rfl
  have w5 : Spec.wild r Spec.W_NW_PROTO = r.wild .nwProto := rfl
  have hw : ∀ bit, Spec.wild (v.pre r) bit = Spec.wild r bit := fun _ => rfl
  simp only [Spec.matchHdr, Spec.ipSpecified, Spec.nwSpecified, Spec.tpSpecified, Spec.dlTypeIs, Spec.srcIgnored, Spec.dstIgnored, hw,
    pre_wildcards, w4, w5]
  have f1 : (v.pre r).inPort = r.inPort := rfl
  have f2 : (v.pre r).dlSrc = r.dlSrc := rfl
  have f3 : (v.pre r).dlDst = r.dlDst := rfl
  have f4 : (v.pre r).dlVlan = r.dlVlan := rfl
  have f5 : (v.pre r).dlVlanPcp = r.dlVlanPcp := rfl
  have f6 : (v.pre r).nwTos = r.nwTos := rfl
  have f7 : (v.pre r).nwSrc = r.nwSrc := rfl
  have f8 : (v.pre r).nwDst = r.nwDst := rfl
  have f9 : (v.pre r).tpSrc = r.tpSrc := rfl
  have f10 : (v.pre r).tpDst = r.tpDst := rfl
  rw [f1, f2, f3, f4, f5, f6, f7, f8, f9, f10]
  cases h4 : r.wild .dlType <;> cases h5 : r.wild .nwProto <;> simp [h4, h5, e4, e5]

/-! ### matching against the standard, for every variant -/

/-- complete frame, for the variant's `from_packet` (with repair D37 the ARP opcode may be anything) -/
def regular (p : PHdr) : Bool := regularG (!v.arpLow8) p

theorem head_regular (p : PHdr) : Variant.head.regular p = OF.regular p := rfl

/-- `matches_iff` for every variant: the hypothesis about wildcarded prerequisite fields is only needed without repair D38, the
    bound on the ARP opcode (inside `regular`) only without repair D37 -/
theorem wire_accepts_packet (r : OfMatch) (p : PHdr) (port : Nat) (hp : v.prereqExact = false → PrereqExact r)
    (ht : r.nwTos % 4 = 0) (hr : v.regular p = true) (hpt : pktTos p % 4 = 0) :
    matchesWith false (v.ofWire r) (v.fromPacket p port) = Spec.matchHdr r (Spec.headers p port) := by
  rw [ofWire_left, ← matchHdr_pre v r]
  exact wire_accepts (v.pre r) _ _ (prereq_pre v r hp) ht (extract_agreeG (!v.arpLow8) p port hr hpt)

theorem extract_ok (p : PHdr) (port : Nat) (hr : v.regular p = true) :
    ExtractOk p (v.extract true p (some port)) (Spec.headers p port) := extract_ok_auxG (!v.arpLow8) p port hr

/-- a flow built from a packet's own match matches that packet — in every variant -/
theorem selfflow_accepts_o (o : OHeaders) :
    matchesWith false (v.ofWire (packFlowMod (fromHeaders o))) (fromHeaders o) = true := by
  rw [ofWire_left]
  -- the packed record has dl_type / nw_proto zero wherever they are wildcarded, so normalising changes nothing
  have hpre : v.pre (packFlowMod (fromHeaders o)) = packFlowMod (fromHeaders o) := by
    have hd := pack_dlType o
    have hn := pack_nwProto o
    have hw4 := packFlowMod_wild o .dlType
    have hw5 := packFlowMod_wild o .nwProto
    have e1 : v.effDlType (packFlowMod (fromHeaders o)).dlType (packFlowMod (fromHeaders o)).wildcards = (packFlowMod (fromHeaders o)).dlType := by
      unfold effDlType
      split
      · rename_i h
        simp only [Bool.and_eq_true] at h
        have hw : (packFlowMod (fromHeaders o)).wild .dlType = true := h.2
        rw [hw4] at hw
        simp only [Bool.and_eq_true, Option.isNone_iff_eq_none] at hw
        have : o.dlType = none := hw.1
        rw [hd, this]; rfl
      · rfl
    have e2 : v.effNwProto (packFlowMod (fromHeaders o)).nwProto (packFlowMod (fromHeaders o)).wildcards = (packFlowMod (fromHeaders o)).nwProto := by
      unfold effNwProto
      split
      · rename_i h
        simp only [Bool.and_eq_true] at h
        have hw : (packFlowMod (fromHeaders o)).wild .nwProto = true := h.2
        rw [hw5] at hw
        simp only [Bool.and_eq_true, Option.isNone_iff_eq_none] at hw
        have : o.nwProto = none := hw.1
        rw [hn, this]; simp
      · rfl
    show ({ packFlowMod (fromHeaders o) with dlType := _, nwProto := _ } : OfMatch) = _
    rw [e1, e2]
  rw [hpre]
  exact OF.selfflow_accepts _

theorem selfflow_accepts (sf : Bool) (p : PHdr) (ip : Option Nat) :
    matchesWith false (v.ofWire (packFlowMod (fromHeaders (v.extract sf p ip)))) (fromHeaders (v.extract sf p ip)) = true :=
  v.selfflow_accepts_o _

/-! ### exactness and rank -/

theorem unwire_zero (t p : Nat) : v.unwire t p 0 = unwireMask t p := by
  simp [Variant.unwire, effDlType, effNwProto, unwire_eq]

theorem ign_eq_prereq (r : OfMatch) (h4 : r.wild .dlType = false) (h5 : r.wild .nwProto = false ∨ nwIgnored r = true) (f : Fld) :
    ignoredFlag r f = !Spec.prereqOk r f.bit := by
  have w4 : r.wildcards.testBit 4 = false := h4
  rcases h5 with h5 | h5
  · have w5 : r.wildcards.testBit 5 = false := h5
    cases f <;>
      simp [ignoredFlag, Spec.prereqOk, Fld.bit, Spec.W_NW_TOS, Spec.W_NW_PROTO, Spec.W_TP_SRC, Spec.W_TP_DST, Spec.ipSpecified,
        Spec.nwSpecified, Spec.tpSpecified, Spec.dlTypeIs, Spec.W_DL_TYPE, Spec.wild, nwIgnored, tosIgnored, tpIgnored, isL4Proto, w4, w5,
        Bool.and_comm, Bool.or_assoc]
  · simp only [nwIgnored, Bool.not_eq_true', Bool.or_eq_false_iff, beq_eq_false_iff_ne] at h5
    have e1 : (r.dlType == 2048) = false := by simpa using h5.1
    have e2 : (r.dlType == 2054) = false := by simpa using h5.2
    cases f <;>
      simp [ignoredFlag, Spec.prereqOk, Fld.bit, Spec.W_NW_TOS, Spec.W_NW_PROTO, Spec.W_TP_SRC, Spec.W_TP_DST, Spec.ipSpecified,
        Spec.nwSpecified, Spec.tpSpecified, Spec.dlTypeIs, Spec.W_DL_TYPE, Spec.wild, nwIgnored, tosIgnored, tpIgnored, w4, e1, e2]

theorem exactSig_iff (r : OfMatch) :
    Spec.exactSig r = true ↔ (∀ f : Fld, r.wild f = true → Spec.prereqOk r f.bit = false) ∧
      (Spec.nwSpecified r = true → Spec.srcIgnored r = 0 ∧ Spec.dstIgnored r = 0) := by
  have hw : ∀ f : Fld, Spec.wild r f.bit = r.wild f := fun _ => rfl
  simp only [Spec.exactSig, Spec.flagBitsAll, List.all_cons, List.all_nil, Bool.and_true, Bool.and_eq_true, Bool.or_eq_true,
    Bool.not_eq_true', beq_iff_eq]
  constructor
  · rintro ⟨⟨h1, h2, h3, h4, h5, h6, h7, h8, h9, h10⟩, hn⟩
    refine ⟨fun f hf => ?_, fun hs => ?_⟩
    · cases f
      · rcases h1 with h | h; · rw [show Spec.W_IN_PORT = Fld.inPort.bit from rfl, hw] at h; rw [hf] at h; cases h
        exact h
      · rcases h2 with h | h; · rw [show Spec.W_DL_VLAN = Fld.dlVlan.bit from rfl, hw] at h; rw [hf] at h; cases h
        exact h
      · rcases h3 with h | h; · rw [show Spec.W_DL_SRC = Fld.dlSrc.bit from rfl, hw] at h; rw [hf] at h; cases h
        exact h
      · rcases h4 with h | h; · rw [show Spec.W_DL_DST = Fld.dlDst.bit from rfl, hw] at h; rw [hf] at h; cases h
        exact h
      · rcases h5 with h | h; · rw [show Spec.W_DL_TYPE = Fld.dlType.bit from rfl, hw] at h; rw [hf] at h; cases h
        exact h
      · rcases h6 with h | h; · rw [show Spec.W_NW_PROTO = Fld.nwProto.bit from rfl, hw] at h; rw [hf] at h; cases h
        exact h
      · rcases h7 with h | h; · rw [show Spec.W_TP_SRC = Fld.tpSrc.bit from rfl, hw] at h; rw [hf] at h; cases h
        exact h
      · rcases h8 with h | h; · rw [show Spec.W_TP_DST = Fld.tpDst.bit from rfl, hw] at h; rw [hf] at h; cases h
        exact h
      · rcases h9 with h | h; · rw [show Spec.W_DL_VLAN_PCP = Fld.dlVlanPcp.bit from rfl, hw] at h; rw [hf] at h; cases h
        exact h
      · rcases h10 with h | h; · rw [show Spec.W_NW_TOS = Fld.nwTos.bit from rfl, hw] at h; rw [hf] at h; cases h
        exact h
    · rcases hn with h | h
      · rw [hs] at h; cases h
      · exact h
  · rintro ⟨hf, hn⟩
    have key : ∀ f : Fld, Spec.wild r f.bit = false ∨ Spec.prereqOk r f.bit = false := by
      intro f
      rw [hw]
      cases hq : r.wild f
      · exact .inl rfl
      · exact .inr (hf f hq)
    refine ⟨⟨key .inPort, key .dlVlan, key .dlSrc, key .dlDst, key .dlType, key .nwProto, key .tpSrc, key .tpDst, key .dlVlanPcp, key .nwTos⟩, ?_⟩
    cases hs : Spec.nwSpecified r
    · exact .inl rfl
    · exact .inr (hn hs)

theorem and_all_ne_zero (x : Nat) : (x &&& FW_ALL != 0) = !(x % 2 ^ 22 == 0) := by
  have := Nat.and_two_pow_sub_one_eq_mod x 22
  simp only [FW_ALL, show (0x3fffff : Nat) = 2 ^ 22 - 1 from rfl, this]
  simp [bne]

/-- **Repair D26**: with `is_wildcarded` discounting ignored fields, a received flow is exact for the switch exactly when it is
    exact under the prerequisite rule — no hypothesis on the transmitted match. -/
theorem isWildcarded_sig (r : OfMatch) (hv : v.exactSig = true) : v.isWildcarded (v.ofWire r) = !Spec.exactSig r := by
  have hX : v.isWildcarded (v.ofWire r) =
      (clearBits (OfMatch.ofWire (v.pre r)).wildcards (unwireMask r.dlType r.nwProto) &&& FW_ALL != 0) := by
    simp only [Variant.isWildcarded, hv, if_true]
    rw [show (v.ofWire r).dlType = r.dlType from rfl, show (v.ofWire r).nwProto = r.nwProto from rfl, unwire_zero]
    rfl
  rw [hX, and_all_ne_zero]
  congr 1
  rw [Bool.eq_iff_iff, beq_iff_eq, mod22_flags, exactSig_iff]
  -- bits and counters of the word
  have hbit : ∀ f : Fld, (clearBits (OfMatch.ofWire (v.pre r)).wildcards (unwireMask r.dlType r.nwProto)).testBit f.bit =
      ((r.wild f || ignoredFlag (v.pre r) f) && !ignoredFlag r f) := by
    intro f
    rw [testBit_clearBits, unwireMask_testBit]
    have := ofWire_wild (v.pre r) f
    rw [pre_wild] at this
    rw [← this]; rfl
  have hc8 : cnt 8 (clearBits (OfMatch.ofWire (v.pre r)).wildcards (unwireMask r.dlType r.nwProto)) =
      clearBits (if nwIgnored (v.pre r) then 32 else min 32 (srcCnt r.wildcards)) (if nwIgnored r then 63 else 0) := by
    rw [cnt_clearBits, ← srcCnt_eq, ofWire_srcCnt, (unwireMask_cnt r).1]; rfl
  have hc14 : cnt 14 (clearBits (OfMatch.ofWire (v.pre r)).wildcards (unwireMask r.dlType r.nwProto)) =
      clearBits (if nwIgnored (v.pre r) then 32 else min 32 (dstCnt r.wildcards)) (if nwIgnored r then 63 else 0) := by
    rw [cnt_clearBits, ← dstCnt_eq, ofWire_dstCnt, (unwireMask_cnt r).2]; rfl
  simp only [hbit, hc8, hc14]
  have hsi : Spec.srcIgnored r = min 32 (srcCnt r.wildcards) := by rw [Spec.srcIgnored, srcCnt_div]
  have hdi : Spec.dstIgnored r = min 32 (dstCnt r.wildcards) := by rw [Spec.dstIgnored, dstCnt_div]
  cases h4 : r.wild .dlType
  · -- dl_type not wildcarded: the variant reads the same dl_type as HEAD
    have q4 : (v.pre r).dlType = r.dlType := pre_get v r .dlType h4
    have hns : Spec.nwSpecified r = !nwIgnored r := by
      have w4 : r.wildcards.testBit 4 = false := h4
      simp [Spec.nwSpecified, Spec.dlTypeIs, Spec.wild, Spec.W_DL_TYPE, nwIgnored, w4]
    have hnq : nwIgnored (v.pre r) = nwIgnored r := by simp [nwIgnored, q4]
    cases h5 : r.wild .nwProto
    · have q5 : (v.pre r).nwProto = r.nwProto := pre_get v r .nwProto h5
      have hq : ∀ f, ignoredFlag (v.pre r) f = ignoredFlag r f := by
        intro f; cases f <;> simp [ignoredFlag, nwIgnored, tosIgnored, tpIgnored, q4, q5]
      have hi := ign_eq_prereq r h4 (.inl h5)
      simp only [hq, hi, hnq, hns, hsi, hdi]
      constructor
      · rintro ⟨h1, h2, h3⟩
        refine ⟨fun f hf => ?_, fun hn => ?_⟩
        · have := h1 f; rw [hf] at this; simpa using this
        · simp only [Bool.not_eq_true'] at hn
          simp only [hn, Bool.false_eq_true, if_false, clearBits_zero] at h2 h3
          exact ⟨h2, h3⟩
      · rintro ⟨h1, h2⟩
        refine ⟨fun f => ?_, ?_, ?_⟩
        · cases hw : r.wild f
          · simp
          · simp [h1 f hw]
        · cases hn : nwIgnored r
          · simp only [Bool.false_eq_true, if_false, clearBits_zero]; exact (h2 (by simp [hn])).1
          · simp only [if_true]; exact clearBits_63 32 (by decide)
        · cases hn : nwIgnored r
          · simp only [Bool.false_eq_true, if_false, clearBits_zero]; exact (h2 (by simp [hn])).2
          · simp only [if_true]; exact clearBits_63 32 (by decide)
    · cases hn : nwIgnored r
      · -- nw_proto wildcarded although IPv4/ARP is specified: not exact, on either side
        constructor
        · rintro ⟨h1, _, _⟩
          have := h1 .nwProto
          simp [h5, ignoredFlag, hn] at this
        · rintro ⟨h1, _⟩
          have := h1 .nwProto h5
          simp [Spec.prereqOk, Fld.bit, Spec.W_NW_TOS, Spec.W_NW_PROTO, hns, hn] at this
      · have hq : ∀ f, ignoredFlag (v.pre r) f = ignoredFlag r f := by
          have hn' := hn
          simp only [nwIgnored, Bool.not_eq_true', Bool.or_eq_false_iff, beq_eq_false_iff_ne] at hn'
          have e1 : (r.dlType == 2048) = false := by simpa using hn'.1
          have e2 : (r.dlType == 2054) = false := by simpa using hn'.2
          intro f; cases f <;> simp [ignoredFlag, nwIgnored, tosIgnored, tpIgnored, q4, e1, e2]
        have hi := ign_eq_prereq r h4 (.inr hn)
        simp only [hq, hi, hnq, hns, hn]
        constructor
        · rintro ⟨h1, _, _⟩
          refine ⟨fun f hf => ?_, fun h => by simp at h⟩
          have := h1 f; rw [hf] at this; simpa using this
        · rintro ⟨h1, _⟩
          refine ⟨fun f => ?_, clearBits_63 32 (by decide), clearBits_63 32 (by decide)⟩
          cases hw : r.wild f
          · simp
          · simp [h1 f hw]
  · -- dl_type wildcarded: not exact, on either side
    constructor
    · rintro ⟨h1, _, _⟩
      have := h1 .dlType
      simp [h4, ignoredFlag] at this
    · rintro ⟨h1, _⟩
      have := h1 .dlType h4
      simp [Spec.prereqOk, Fld.bit, Spec.W_NW_TOS, Spec.W_NW_PROTO, Spec.W_TP_SRC, Spec.W_TP_DST] at this

theorem no_wild_of_exact (r : OfMatch) (h : Spec.exact r = true) :
    (∀ f : Fld, r.wild f = false) ∧ srcCnt r.wildcards = 0 ∧ dstCnt r.wildcards = 0 := by
  simp only [Spec.exact, beq_iff_eq] at h
  obtain ⟨h1, h2, h3⟩ := (mod22_flags r.wildcards).mp h
  exact ⟨h1, by rw [srcCnt_eq]; exact h2, by rw [dstCnt_eq]; exact h3⟩

theorem exactSig_of_exact (r : OfMatch) (h : Spec.exact r = true) : Spec.exactSig r = true := by
  obtain ⟨h1, h2, h3⟩ := no_wild_of_exact r h
  rw [exactSig_iff]
  refine ⟨fun f hf => (by rw [h1 f] at hf; cases hf), fun _ => ?_⟩
  rw [Spec.srcIgnored, Spec.dstIgnored, ← srcCnt_div, ← dstCnt_div, h2, h3]; exact ⟨rfl, rfl⟩

/-- what a flow must satisfy for the code (variant `v`) to rank it as the standard does -/
structure FlowOk (f : Spec.Flow) : Prop where
  prio : f.priority ≤ 0xffff
  /-- without repair D38: wildcarded dl_type / nw_proto fields do not look like prerequisites -/
  prereq : v.prereqExact = false → PrereqExact f.mtch
  /-- without repair D36: no ECN bits in the flow's nw_tos -/
  tos : v.tosDscp = false → f.mtch.nwTos % 4 = 0
  /-- without repair D26: a flow that is exact under the prerequisite rule has no wildcard bit at all and is IPv4 TCP/UDP/ICMP -/
  exactL4 : v.exactSig = false → Spec.exactSig f.mtch = true →
    Spec.exact f.mtch = true ∧ f.mtch.dlType = 0x0800 ∧ isL4Proto f.mtch.nwProto = true

/-- the code's exactness test on a received flow is the standard's (prerequisite-rule reading) -/
theorem exact_agree (r : OfMatch)
    (hx : v.exactSig = false → Spec.exactSig r = true → Spec.exact r = true ∧ r.dlType = 0x0800 ∧ isL4Proto r.nwProto = true) :
    v.isWildcarded (v.ofWire r) = !Spec.exactSig r := by
  cases hv : v.exactSig
  · have hiw : v.isWildcarded (v.ofWire r) = (OfMatch.ofWire (v.pre r)).isWildcarded := by
      simp only [Variant.isWildcarded, hv]; rfl
    rw [hiw]
    have hiff := ofWire_exact_iff (v.pre r)
    cases hq : (OfMatch.ofWire (v.pre r)).isWildcarded
    · obtain ⟨a, b, c⟩ := hiff.mp hq
      have a' : Spec.exact r = true := a
      obtain ⟨hw, _, _⟩ := no_wild_of_exact r a'
      rw [exactSig_of_exact r a']; rfl
    · cases hs : Spec.exactSig r
      · rfl
      · obtain ⟨a, b, c⟩ := hx hv hs
        obtain ⟨hw, _, _⟩ := no_wild_of_exact r a
        have : (OfMatch.ofWire (v.pre r)).isWildcarded = false := by
          apply hiff.mpr
          refine ⟨a, ?_, ?_⟩
          · rw [show (v.pre r).dlType = (v.pre r).get .dlType from rfl, pre_get v r .dlType (hw _)]; exact b
          · rw [show (v.pre r).nwProto = (v.pre r).get .nwProto from rfl, pre_get v r .nwProto (hw _)]; exact c
        rw [this] at hq; cases hq
  · exact isWildcarded_sig v r hv

/-- the `TableEntry` a flow-mod creates under variant `v` -/
def toEntry (f : Spec.Flow) : Entry Spec.Flow := { priority := f.priority, mtch := v.ofWire f.mtch, data := f }

theorem head_toEntry (f : Spec.Flow) : Variant.head.toEntry f = OF.toEntry f := rfl

theorem eff_toEntry (f : Spec.Flow) (hf : v.FlowOk f) :
    v.effectivePriority (v.toEntry f) = if Spec.exactSig f.mtch then EXACT_PRIORITY else f.priority := by
  simp only [Variant.effectivePriority, toEntry, exact_agree v f.mtch hf.exactL4]
  cases Spec.exactSig f.mtch <;> simp

theorem rank_le (f g : Spec.Flow) (hf : v.FlowOk f) (hg : v.FlowOk g)
    (h : v.effectivePriority (v.toEntry g) ≤ v.effectivePriority (v.toEntry f)) : Spec.rankSig g ≤ Spec.rankSig f := by
  rw [eff_toEntry v f hf, eff_toEntry v g hg] at h
  have := hf.prio; have := hg.prio
  simp only [Spec.rankSig, EXACT_PRIORITY] at h ⊢
  split at h <;> split at h <;> simp_all <;> omega

/-! ### subsumption -/

theorem dlTypeIs_pre (r : OfMatch) (t : Nat) : Spec.dlTypeIs (v.pre r) t = Spec.dlTypeIs r t := by
  have e4 : r.wild .dlType = false → (v.pre r).dlType = r.dlType := pre_get v r .dlType
  have w4 : Spec.wild r Spec.W_DL_TYPE = r.wild .dlType := rfl
  have w4' : Spec.wild (v.pre r) Spec.W_DL_TYPE = r.wild .dlType := rfl
  simp only [Spec.dlTypeIs, w4, w4']
  cases h4 : r.wild .dlType <;> simp [e4 , h4]

theorem tpSpecified_pre (r : OfMatch) : Spec.tpSpecified (v.pre r) = Spec.tpSpecified r := by
  have e5 : r.wild .nwProto = false → (v.pre r).nwProto = r.nwProto := pre_get v r .nwProto
  have w5 : Spec.wild r Spec.W_NW_PROTO = r.wild .nwProto := rfl
  have w5' : Spec.wild (v.pre r) Spec.W_NW_PROTO = r.wild .nwProto := rfl
  simp only [Spec.tpSpecified, dlTypeIs_pre, w5, w5']
  cases h5 : r.wild .nwProto <;> simp [e5, h5]

theorem significant_pre (r : OfMatch) (bit : Nat) : Spec.significant (v.pre r) bit = Spec.significant r bit := by
  have hw : Spec.wild (v.pre r) bit = Spec.wild r bit := rfl
  simp only [Spec.significant, Spec.ipSpecified, Spec.nwSpecified, dlTypeIs_pre, tpSpecified_pre, hw]

theorem FSub_congr {sa sb : Bool} {x x' y y' : Nat} (hx : sa = true → x = x') (hy : sb = true → y = y') :
    Spec.FSub sa sb x y = Spec.FSub sa sb x' y' := by
  cases sa <;> cases sb <;> simp_all [Spec.FSub]

theorem subsumes_pre (a b : OfMatch) : Spec.subsumes (v.pre a) (v.pre b) = Spec.subsumes a b := by
  rw [Spec.subsumes_eq, Spec.subsumes_eq]
  have hsrc : ∀ r, Spec.srcIgn (v.pre r) = Spec.srcIgn r := fun r => by
    simp only [Spec.srcIgn, Spec.nwSpecified, dlTypeIs_pre]; rfl
  have hdst : ∀ r, Spec.dstIgn (v.pre r) = Spec.dstIgn r := fun r => by
    simp only [Spec.dstIgn, Spec.nwSpecified, dlTypeIs_pre]; rfl
  simp only [significant_pre, hsrc, hdst]
  have sgw : ∀ (r : OfMatch) (f : Fld), Spec.significant r f.bit = true → r.wild f = false := by
    intro r f h
    have : Spec.wild r f.bit = r.wild f := rfl
    simp only [Spec.significant, Bool.and_eq_true, Bool.not_eq_true'] at h
    rw [← this]; exact h.1
  have d : Spec.FSub (Spec.significant a Spec.W_DL_TYPE) (Spec.significant b Spec.W_DL_TYPE) (v.pre a).dlType (v.pre b).dlType =
      Spec.FSub (Spec.significant a Spec.W_DL_TYPE) (Spec.significant b Spec.W_DL_TYPE) a.dlType b.dlType :=
    FSub_congr (fun h => pre_get v a .dlType (sgw a .dlType h)) (fun h => pre_get v b .dlType (sgw b .dlType h))
  have n : Spec.FSub (Spec.significant a Spec.W_NW_PROTO) (Spec.significant b Spec.W_NW_PROTO) (v.pre a).nwProto (v.pre b).nwProto =
      Spec.FSub (Spec.significant a Spec.W_NW_PROTO) (Spec.significant b Spec.W_NW_PROTO) a.nwProto b.nwProto :=
    FSub_congr (fun h => pre_get v a .nwProto (sgw a .nwProto h)) (fun h => pre_get v b .nwProto (sgw b .nwProto h))
  rw [d, n]
  rfl

/-- `matches_with_wildcards(other)` (`consider_other_wildcards=True`) on two received flows is the standard's subsumption, in every
    variant -/
theorem code_subsumes (a b : OfMatch) (ha : v.prereqExact = false → PrereqExact a) (hb : v.prereqExact = false → PrereqExact b)
    (ta : a.nwTos % 4 = 0) (tb : b.nwTos % 4 = 0) (hbw : b.wildcards < 2 ^ 22) :
    matchesWith true (v.ofWire a) (v.ofWire b) = Spec.subsumes a b := by
  rw [ofWire_left, ofWire_right, ← subsumes_pre v a b]
  exact OF.code_subsumes (v.pre a) (v.pre b) (prereq_pre v a ha) (prereq_pre v b hb) ta tb hbw

/-! ### repair D36: ToS reduced to its DSCP bits -/

theorem dscpOf_mod (x : Nat) : dscpOf x % 4 = 0 := by unfold dscpOf; omega
theorem dscpOf_div (x : Nat) : dscpOf x / 4 = x / 4 := by unfold dscpOf; omega
theorem dscpOf_idem (x : Nat) : dscpOf (dscpOf x) = dscpOf x := by unfold dscpOf; omega
theorem dscpOf_of_mod (x : Nat) (h : x % 4 = 0) : dscpOf x = x := by unfold dscpOf; omega

/-- the frame with the ECN bits of its ToS byte cleared -/
def maskP : PHdr → PHdr
  | ⟨src, dst, typ, llc, vlan, .ipv4 s d pr tos f l4⟩ => ⟨src, dst, typ, llc, vlan, .ipv4 s d pr (dscpOf tos) f l4⟩
  | p => p

def maskO (o : OHeaders) : OHeaders := { o with nwTos := o.nwTos.map dscpOf }

theorem maskO_of_none (o : OHeaders) (h : o.nwTos = none) : maskO o = o := by
  cases o; simp only [maskO] at *; simp_all

theorem extractG_tos_arp (g sf : Bool) (src dst typ : Nat) (llc : Option Llc) (vlan : Option Vlan) (op s d : Nat) (ip : Option Nat) :
    (extractG g sf ⟨src, dst, typ, llc, vlan, .arp op s d⟩ ip).nwTos = none := by
  cases vlan <;> cases llc with
  | none => cases g <;> simp [extractG] <;> split <;> rfl
  | some l => by_cases hs : l.snapOui = some 0 <;> cases g <;> simp [extractG, hs] <;> (try split) <;> rfl

theorem extractG_tos_other (g sf : Bool) (src dst typ : Nat) (llc : Option Llc) (vlan : Option Vlan) (ip : Option Nat) :
    (extractG g sf ⟨src, dst, typ, llc, vlan, .other⟩ ip).nwTos = none := by
  cases vlan <;> cases llc with
  | none => simp [extractG]
  | some l => by_cases hs : l.snapOui = some 0 <;> simp [extractG, hs]

theorem extractG_maskP (g sf : Bool) (p : PHdr) (ip : Option Nat) : extractG g sf (maskP p) ip = maskO (extractG g sf p ip) := by
  obtain ⟨src, dst, typ, llc, vlan, l3⟩ := p
  cases l3 with
  | ipv4 s d pr tos frag l4 =>
    cases vlan <;> cases llc with
    | none => cases frag <;> cases sf <;> cases l4 <;> simp [extractG, maskP, maskO] <;> (try rfl)
    | some l => by_cases hs : l.snapOui = some 0 <;> cases frag <;> cases sf <;> cases l4 <;> simp [extractG, maskP, maskO, hs] <;> (try rfl)
  | arp op s d =>
    rw [maskO_of_none _ (extractG_tos_arp g sf src dst typ llc vlan op s d ip)]; rfl
  | other =>
    rw [maskO_of_none _ (extractG_tos_other g sf src dst typ llc vlan ip)]; rfl

theorem regularG_maskP (g : Bool) (p : PHdr) : regularG g (maskP p) = regularG g p := by
  obtain ⟨src, dst, typ, llc, vlan, l3⟩ := p
  cases l3 <;> rfl

theorem headers_maskP (p : PHdr) (port : Nat) : Spec.headers (maskP p) port = Spec.headers p port := by
  obtain ⟨src, dst, typ, llc, vlan, l3⟩ := p
  cases l3 with
  | ipv4 s d pr tos frag l4 =>
    have e : dscpOf tos / 4 * 4 = tos / 4 * 4 := by unfold dscpOf; omega
    cases vlan <;> cases llc <;> simp [maskP, Spec.headers, Spec.dlTypeOf, Spec.etherType, Spec.zeroL3, e] <;> (try rfl)
  | arp op s d => rfl
  | other => rfl

theorem pktTos_maskP (p : PHdr) : pktTos (maskP p) % 4 = 0 := by
  obtain ⟨src, dst, typ, llc, vlan, l3⟩ := p
  cases l3 <;> simp [maskP, pktTos, dscpOf_mod]

/-- `r` with nw_tos reduced to its DSCP bits -/
def dscpR (r : OfMatch) : OfMatch := { r with nwTos := dscpOf r.nwTos }

theorem matchHdr_dscpR (r : OfMatch) (h : Spec.Headers) : Spec.matchHdr (dscpR r) h = Spec.matchHdr r h := by
  have e : (dscpR r).nwTos / 4 = r.nwTos / 4 := dscpOf_div r.nwTos
  simp only [Spec.matchHdr, e]
  rfl

theorem subsumes_dscpR (a b : OfMatch) : Spec.subsumes (dscpR a) (dscpR b) = Spec.subsumes a b := by
  have ea : (dscpR a).nwTos / 4 = a.nwTos / 4 := dscpOf_div a.nwTos
  have eb : (dscpR b).nwTos / 4 = b.nwTos / 4 := dscpOf_div b.nwTos
  simp only [Spec.subsumes, ea, eb]
  rfl

theorem prereq_dscpR (r : OfMatch) (h : PrereqExact r) : PrereqExact (dscpR r) := h

theorem dscpM_ofWire (hv : v.tosDscp = true) (r : OfMatch) : v.dscpM (v.ofWire r) = v.ofWire (dscpR r) := by
  simp [dscpM, hv, dscpR, Variant.ofWire]

theorem dscpM_fromHeaders_maskO (o : OHeaders) : v.dscpM (fromHeaders (maskO o)) = fromHeaders (maskO o) := by
  unfold dscpM
  split
  · have : (fromHeaders (maskO o)).nwTos = dscpOf ((fromHeaders (maskO o)).nwTos) := by
      show (Option.map dscpOf o.nwTos).getD 0 = dscpOf ((Option.map dscpOf o.nwTos).getD 0)
      cases o.nwTos with
      | none => rfl
      | some t => simp [dscpOf_idem]
    cases hq : fromHeaders (maskO o)
    rw [hq] at this
    simp only at this
    simp [← this]
  · rfl

/-! ### repair C03-K7: the ARP branch only behind dl_type 0x0806

Transfer by input normalisation again: the guarded extraction of `p` is the unguarded extraction of `guardP p` (an `arp` object behind
another dl_type is not looked at — as if nothing the code recognises followed), and `guardP` leaves every regular frame alone. -/

/-- the frame as the guarded ARP branch sees it -/
def guardP (p : PHdr) : PHdr :=
  if v.arpTypeGuard && arpReached p && (v.extract true p none).dlType != some 0x0806 then { p with l3 := .other } else p

theorem guardP_off (h : v.arpTypeGuard = false) (p : PHdr) : v.guardP p = p := by simp [guardP, h]

/-- the dl_type `from_packet` assigns does not depend on the L3 object, on `spec_frags`, on the in_port or on the opcode guard -/
theorem extractG_dlType (g g' sf sf' : Bool) (src dst typ : Nat) (llc : Option Llc) (vlan : Option Vlan) (x y : L3) (ip ip' : Option Nat) :
    (extractG g sf ⟨src, dst, typ, llc, vlan, x⟩ ip).dlType = (extractG g' sf' ⟨src, dst, typ, llc, vlan, y⟩ ip').dlType := by
  have key : ∀ (g sf : Bool) (x : L3) (ip : Option Nat), (extractG g sf ⟨src, dst, typ, llc, vlan, x⟩ ip).dlType =
      (extractG true true ⟨src, dst, typ, llc, vlan, .other⟩ none).dlType := by
    intro g sf x ip
    cases x with
    | other =>
      cases vlan <;> cases llc with
      | none => simp [extractG]
      | some l => by_cases hs : l.snapOui = some 0 <;> simp [extractG, hs]
    | arp op s d =>
      cases vlan <;> cases llc with
      | none => cases g <;> simp [extractG] <;> (try split) <;> rfl
      | some l => by_cases hs : l.snapOui = some 0 <;> cases g <;> simp [extractG, hs] <;> (try split) <;> rfl
    | ipv4 s d pr tos frag l4 =>
      cases vlan <;> cases llc with
      | none => cases frag <;> cases sf <;> cases l4 <;> simp [extractG]
      | some l => by_cases hs : l.snapOui = some 0 <;> cases frag <;> cases sf <;> cases l4 <;> simp [extractG, hs]
  rw [key g sf x ip, key g' sf' y ip']

/-- the ARP branch not taken = nothing recognised behind the headers -/
theorem clearArp_extractG (g sf : Bool) (p : PHdr) (ip : Option Nat) (h : arpReached p = true) :
    clearArp (extractG g sf p ip) = extractG g sf { p with l3 := .other } ip := by
  obtain ⟨src, dst, typ, llc, vlan, l3⟩ := p
  cases l3 with
  | ipv4 s d pr tos frag l4 => simp [arpReached] at h
  | other => simp [arpReached] at h
  | arp op s d =>
    cases vlan <;> cases llc with
    | none => cases g <;> simp [extractG, clearArp] <;> (try split) <;> simp
    | some l =>
      have hs : l.snapOui = some 0 := by simpa [arpReached] using h
      cases g <;> simp [extractG, clearArp, hs] <;> (try split) <;> simp

/-- guarded extraction of `p` = unguarded extraction of `guardP p` (before the ToS step) -/
theorem guard_extract (sf : Bool) (p : PHdr) (ip : Option Nat) :
    (if v.arpTypeGuard && arpReached p && (v.extract sf p ip).dlType != some 0x0806 then clearArp (v.extract sf p ip) else v.extract sf p ip)
      = v.extract sf (v.guardP p) ip := by
  have hd : (v.extract sf p ip).dlType = (v.extract true p none).dlType := by
    obtain ⟨src, dst, typ, llc, vlan, l3⟩ := p
    exact extractG_dlType _ _ _ _ _ _ _ _ _ _ _ _ _
  unfold guardP
  rw [hd]
  split
  · rename_i hc
    have ha : arpReached p = true := by
      simp only [Bool.and_eq_true] at hc; exact hc.1.2
    exact clearArp_extractG _ _ _ _ ha
  · rfl

theorem pktHeaders_eq (hv : v.tosDscp = true) (sf : Bool) (p : PHdr) (ip : Option Nat) :
    v.pktHeaders sf p ip = maskO (v.extract sf (v.guardP p) ip) := by
  rw [← guard_extract]
  simp [pktHeaders, hv, maskO]

theorem pktHeaders_raw (hv : v.tosDscp = false) (sf : Bool) (p : PHdr) (ip : Option Nat) :
    v.pktHeaders sf p ip = v.extract sf (v.guardP p) ip := by
  rw [← guard_extract]
  simp [pktHeaders, hv]

/-- a regular frame has its `arp` object behind dl_type 0x0806 only: the guard changes nothing -/
theorem guardP_regular (g : Bool) (p : PHdr) (hr : regularG g p = true) : v.guardP p = p := by
  unfold guardP
  split
  · rename_i hc
    exfalso
    simp only [Bool.and_eq_true] at hc
    obtain ⟨⟨_, ha⟩, hd⟩ := hc
    obtain ⟨src, dst, typ, llc, vlan, l3⟩ := p
    cases l3 with
    | ipv4 s d pr tos frag l4 => simp [arpReached] at ha
    | other => simp [arpReached] at ha
    | arp op s d =>
      unfold Variant.extract at hd
      rw [extractG_dlType _ true _ true src dst typ llc vlan _ .other none none] at hd
      revert hd
      cases vlan <;> cases llc with
      | none =>
        simp [regularG, Spec.dlTypeOf, Spec.etherType] at hr ⊢
        simp [extractG]
        first | exact hr.1 | (split <;> simp_all)
      | some l =>
        have hs : l.snapOui = some 0 := by simpa [arpReached] using ha
        simp [regularG, Spec.dlTypeOf, Spec.etherType, hs] at hr ⊢
        simp [extractG, hs]
        first | exact hr.2.1 | (have h2 := hr.2.1; rw [if_pos hr.1] at h2; exact h2)
  · rfl

theorem mww_raw (hv : v.tosDscp = false) (c : Bool) (a b : OfMatch) : v.mww c a b = OfMatch.matchesWith c a b := by
  simp [mww, dscpM, hv]

/-- **`matches_iff` for every variant, D36 included**: with the ToS repair no hypothesis about ECN bits is left -/
theorem accepts_packet (r : OfMatch) (p : PHdr) (port : Nat) (hp : v.prereqExact = false → PrereqExact r)
    (ht : v.tosDscp = false → r.nwTos % 4 = 0 ∧ pktTos p % 4 = 0) (hr : v.regular p = true) :
    v.mww false (v.ofWire r) (v.pktMatch p port) = Spec.matchHdr r (Spec.headers p port) := by
  have hg : v.guardP p = p := v.guardP_regular _ p hr
  cases hv : v.tosDscp
  · rw [mww_raw v hv, pktMatch, pktHeaders_raw v hv, hg]
    exact wire_accepts_packet v r p port hp (ht hv).1 hr (ht hv).2
  · unfold mww
    rw [dscpM_ofWire v hv, pktMatch, pktHeaders_eq v hv, hg, dscpM_fromHeaders_maskO]
    have he : maskO (v.extract true p (some port)) = v.extract true (maskP p) (some port) := (extractG_maskP _ _ _ _).symm
    rw [he, ← matchHdr_dscpR r, ← headers_maskP p port]
    have hr' : v.regular (maskP p) = true := by unfold Variant.regular; rw [regularG_maskP]; exact hr
    exact wire_accepts_packet v (dscpR r) (maskP p) port (fun h => prereq_dscpR r (hp h)) (dscpOf_mod _) hr' (pktTos_maskP p)

/-- subsumption for every variant, D36 included -/
theorem subsumes_code (a b : OfMatch) (ha : v.prereqExact = false → PrereqExact a) (hb : v.prereqExact = false → PrereqExact b)
    (ht : v.tosDscp = false → a.nwTos % 4 = 0 ∧ b.nwTos % 4 = 0) (hbw : b.wildcards < 2 ^ 22) :
    v.mww true (v.ofWire a) (v.ofWire b) = Spec.subsumes a b := by
  cases hv : v.tosDscp
  · rw [mww_raw v hv]; exact code_subsumes v a b ha hb (ht hv).1 (ht hv).2 hbw
  · unfold mww
    rw [dscpM_ofWire v hv, dscpM_ofWire v hv, ← subsumes_dscpR a b]
    exact code_subsumes v (dscpR a) (dscpR b) (fun h => prereq_dscpR a (ha h)) (fun h => prereq_dscpR b (hb h))
      (dscpOf_mod _) (dscpOf_mod _) hbw

/-- a flow built from a packet's own match matches that packet — every variant, D36 included -/
theorem selfflow_mww (sf : Bool) (p : PHdr) (ip : Option Nat) :
    v.mww false (v.ofWire (packFlowMod (fromHeaders (v.pktHeaders sf p ip)))) (fromHeaders (v.pktHeaders sf p ip)) = true := by
  cases hv : v.tosDscp
  · rw [mww_raw v hv, pktHeaders_raw v hv]; exact v.selfflow_accepts sf (v.guardP p) ip
  · unfold mww
    rw [pktHeaders_eq v hv, dscpM_ofWire v hv, dscpM_fromHeaders_maskO]
    generalize v.extract sf (v.guardP p) ip = o
    have hW : dscpR (packFlowMod (fromHeaders (maskO o))) = packFlowMod (fromHeaders (maskO o)) := by
      have hv' : (fromHeaders (maskO o)).view .nwTos = (maskO o).nwTos := fromHeaders_view (maskO o) .nwTos
      have : (packFlowMod (fromHeaders (maskO o))).nwTos % 4 = 0 := by
        simp only [packFlowMod, hv']
        split
        · show ((Option.map dscpOf o.nwTos).getD 0) % 4 = 0
          cases o.nwTos with
          | none => rfl
          | some t => simp [dscpOf_mod]
        · rfl
      unfold dscpR
      rw [dscpOf_of_mod _ this]
    rw [hW]
    exact v.selfflow_accepts_o _

/-- Lookup in any table that is sorted by the variant's effective priority and whose entries stem from transmitted flows answers as
    the standard prescribes for the flows the table holds. -/
theorem lookup_isBest (tbl : Table Spec.Flow) (hs : SortedBy v.effectivePriority tbl)
    (hw : ∀ e ∈ tbl, e = v.toEntry e.data ∧ v.FlowOk e.data)
    (p : PHdr) (port : Nat) (hr : v.regular p = true) (hpt : v.tosDscp = false → pktTos p % 4 = 0) :
    Spec.IsBestSig (tbl.map (·.data)) (Spec.headers p port) ((v.entryForPacket tbl p port).map (·.data)) := by
  have hacc : ∀ e ∈ tbl, v.accepts (v.pktMatch p port) e = Spec.matchHdr e.data.mtch (Spec.headers p port) := by
    intro e he
    obtain ⟨h1, h2⟩ := hw e he
    rw [h1]
    exact accepts_packet v e.data.mtch p port h2.prereq (fun h => ⟨h2.tos h, hpt h⟩) hr
  obtain ⟨hfound, hmiss⟩ := first_match_max v.effectivePriority (v.accepts (v.pktMatch p port)) tbl hs
  cases hq : v.entryForPacket tbl p port with
  | none =>
    have := hmiss.mp hq
    simp only [Option.map_none, Spec.IsBestSig]
    intro g hg
    obtain ⟨e, he, rfl⟩ := List.mem_map.mp hg
    rw [← hacc e he]; exact this e he
  | some e =>
    obtain ⟨h1, h2, h3⟩ := hfound e hq
    simp only [Option.map_some, Spec.IsBestSig]
    refine ⟨List.mem_map.mpr ⟨e, h2, rfl⟩, by rw [← hacc e h2]; exact h1, ?_⟩
    intro g hg hm
    obtain ⟨e', he', rfl⟩ := List.mem_map.mp hg
    have hle := h3 e' he' (by rw [hacc e' he']; exact hm)
    have a := (hw e h2).1
    have b := (hw e' he').1
    rw [a, b] at hle
    exact rank_le v e.data e'.data (hw e h2).2 (hw e' he').2 hle

end Variant

/-! ### flows built from complete frames are exact -/

theorem pack_srcCnt (o : OHeaders) (hc : o.dlType = some 0x0800 ∨ o.dlType = some 0x0806) :
    srcCnt (packFlowMod (fromHeaders o)).wildcards = if o.nwSrc.isSome then 0 else 32 := by
  have hv : (fromHeaders o).view .dlType = o.dlType := fromHeaders_view o .dlType
  show srcCnt (fromHeaders o).wireWildcards = _
  rw [wireWildcards_eq, srcCnt_eq, cnt_clearBits, hv, fromHeaders_view o .nwProto]
  show clearBits _ (cnt 8 (wireMask o.dlType o.nwProto)) = _
  rw [(wireMask_cnt_of_ipArp o hc).1, clearBits_zero, ← srcCnt_eq, fromHeaders_srcCnt]

theorem pack_dstCnt (o : OHeaders) (hc : o.dlType = some 0x0800 ∨ o.dlType = some 0x0806) :
    dstCnt (packFlowMod (fromHeaders o)).wildcards = if o.nwDst.isSome then 0 else 32 := by
  have hv : (fromHeaders o).view .dlType = o.dlType := fromHeaders_view o .dlType
  show dstCnt (fromHeaders o).wireWildcards = _
  rw [wireWildcards_eq, dstCnt_eq, cnt_clearBits, hv, fromHeaders_view o .nwProto]
  show clearBits _ (cnt 14 (wireMask o.dlType o.nwProto)) = _
  rw [(wireMask_cnt_of_ipArp o hc).2, clearBits_zero, ← dstCnt_eq, fromHeaders_dstCnt]

/-- the flow built from a complete frame arriving on a port is exact under the prerequisite rule: `from_packet` assigns every field
    whose protocol is present, `_wire_wildcards` clears the wildcard bits of the others -/
theorem selfflow_exactSig (g : Bool) (p : PHdr) (port : Nat) (hr : regularG g p = true) :
    Spec.exactSig (packFlowMod (fromHeaders (extractG g true p (some port)))) = true := by
  have e := extract_ok_auxG g p port hr
  generalize extractG g true p (some port) = o at e
  generalize Spec.headers p port = h at e
  have hd := pack_dlType o
  have hn := pack_nwProto o
  have ht : o.dlType = some h.dlType := e.dlType
  rw [ht] at hd hn
  simp only [Option.getD_some, Option.some.injEq] at hd hn
  have w4 : (packFlowMod (fromHeaders o)).wild .dlType = false := by rw [packFlowMod_wild]; simp [OHeaders.get, ht]
  have hdl : ∀ t, Spec.dlTypeIs (packFlowMod (fromHeaders o)) t = (h.dlType == t) := by
    intro t
    have : Spec.wild (packFlowMod (fromHeaders o)) Spec.W_DL_TYPE = false := w4
    simp [Spec.dlTypeIs, this, hd]
  rw [Variant.exactSig_iff]
  constructor
  · intro f hf
    rw [packFlowMod_wild] at hf
    simp only [Bool.and_eq_true, Option.isNone_iff_eq_none, Bool.not_eq_true'] at hf
    obtain ⟨hnone, _⟩ := hf
    cases f
    case inPort => simp [OHeaders.get, e.inPort] at hnone
    case dlVlan => simp [OHeaders.get, e.dlVlan] at hnone
    case dlSrc => simp [OHeaders.get, e.dlSrc] at hnone
    case dlDst => simp [OHeaders.get, e.dlDst] at hnone
    case dlType => simp [OHeaders.get, ht] at hnone
    case dlVlanPcp => simp [OHeaders.get, e.dlVlanPcp] at hnone
    case nwTos =>
      have hn' : o.nwTos = none := hnone
      by_cases h8 : h.dlType = 0x0800
      · rw [e.tosHere h8] at hn'; cases hn'
      · simp [Spec.prereqOk, Fld.bit, Spec.W_NW_TOS, Spec.ipSpecified, hdl, h8]
    case nwProto =>
      have hn' : o.nwProto = none := hnone
      by_cases h8 : h.dlType = 0x0800 ∨ h.dlType = 0x0806
      · have := (e.nwHere h8).2.2; rw [hn'] at this; cases this
      · have a : ¬ h.dlType = 0x0800 := fun x => h8 (.inl x)
        have b : ¬ h.dlType = 0x0806 := fun x => h8 (.inr x)
        simp [Spec.prereqOk, Fld.bit, Spec.W_NW_TOS, Spec.W_NW_PROTO, Spec.nwSpecified, hdl, a, b]
    case tpSrc =>
      have hn' : o.tpSrc = none := hnone
      by_cases h8 : h.dlType = 0x0800
      · obtain ⟨_, _, c⟩ := e.nwHere (.inl h8)
        have hp := e.nwProto.of_isSome c
        by_cases hl : isL4Proto h.nwProto = true
        · have := (e.tpHere h8 hl).1; rw [hn'] at this; cases this
        · have hnp : (packFlowMod (fromHeaders o)).nwProto = h.nwProto := by rw [hn, if_pos (.inl h8), hp]; rfl
          have hl' : (h.nwProto == 1 || h.nwProto == 6 || h.nwProto == 17) = false := by simpa [isL4Proto] using hl
          simp [Spec.prereqOk, Fld.bit, Spec.W_NW_TOS, Spec.W_NW_PROTO, Spec.W_TP_SRC, Spec.tpSpecified, hdl, hnp, hl']
      · simp [Spec.prereqOk, Fld.bit, Spec.W_NW_TOS, Spec.W_NW_PROTO, Spec.W_TP_SRC, Spec.tpSpecified, hdl, h8]
    case tpDst =>
      have hn' : o.tpDst = none := hnone
      by_cases h8 : h.dlType = 0x0800
      · obtain ⟨_, _, c⟩ := e.nwHere (.inl h8)
        have hp := e.nwProto.of_isSome c
        by_cases hl : isL4Proto h.nwProto = true
        · have := (e.tpHere h8 hl).2; rw [hn'] at this; cases this
        · have hnp : (packFlowMod (fromHeaders o)).nwProto = h.nwProto := by rw [hn, if_pos (.inl h8), hp]; rfl
          have hl' : (h.nwProto == 1 || h.nwProto == 6 || h.nwProto == 17) = false := by simpa [isL4Proto] using hl
          simp [Spec.prereqOk, Fld.bit, Spec.W_NW_TOS, Spec.W_NW_PROTO, Spec.W_TP_SRC, Spec.W_TP_DST, Spec.tpSpecified, hdl, hnp, hl']
      · simp [Spec.prereqOk, Fld.bit, Spec.W_NW_TOS, Spec.W_NW_PROTO, Spec.W_TP_SRC, Spec.W_TP_DST, Spec.tpSpecified, hdl, h8]
  · intro hs
    have hc : h.dlType = 0x0800 ∨ h.dlType = 0x0806 := by
      simpa [Spec.nwSpecified, hdl] using hs
    have hc' : o.dlType = some 0x0800 ∨ o.dlType = some 0x0806 := by rcases hc with x | x <;> simp [ht, x]
    obtain ⟨a, b, _⟩ := e.nwHere hc
    rw [Spec.srcIgnored, Spec.dstIgnored, ← srcCnt_div, ← dstCnt_div, pack_srcCnt o hc', pack_dstCnt o hc', a, b]
    exact ⟨rfl, rfl⟩


/-- with repair D26, the flow built from any complete frame arriving on a port is exact-match for the switch -/
theorem Variant.selfflow_exact (v : Variant) (hv : v.exactSig = true) (p : PHdr) (port : Nat) (hr : v.regular p = true) :
    v.isWildcarded (v.ofWire (packFlowMod (v.fromPacket p port))) = false := by
  rw [Variant.isWildcarded_sig v _ hv]
  have := selfflow_exactSig (!v.arpLow8) p port hr
  simp only [Variant.fromPacket, Variant.extract]
  rw [this]; rfl


/-- … for the match the variant's `from_packet` really builds (ToS reduced to DSCP with repair D36) -/
theorem Variant.selfflow_exact_pkt (v : Variant) (hv : v.exactSig = true) (p : PHdr) (port : Nat) (hr : v.regular p = true) :
    v.isWildcarded (v.ofWire (packFlowMod (v.pktMatch p port))) = false := by
  have hg : v.guardP p = p := v.guardP_regular _ p hr
  cases ht : v.tosDscp
  · have e : v.pktMatch p port = v.fromPacket p port := by
      unfold Variant.pktMatch Variant.fromPacket; rw [Variant.pktHeaders_raw v ht, hg]
    rw [e]; exact v.selfflow_exact hv p port hr
  · have e : v.pktMatch p port = v.fromPacket (Variant.maskP p) port := by
      unfold Variant.pktMatch Variant.fromPacket
      rw [Variant.pktHeaders_eq v ht, hg]
      exact congrArg fromHeaders (Variant.extractG_maskP _ _ _ _).symm
    rw [e]
    exact v.selfflow_exact hv (Variant.maskP p) port (by unfold Variant.regular; rw [Variant.regularG_maskP]; exact hr)

/-! ### a table built from a list of flow-mods -/

/-- the table after the flow-mods `fs` (ADDs, in order) under variant `v` -/
def Variant.install (v : Variant) (fs : List Spec.Flow) : Table Spec.Flow :=
  TableOps.run v.effectivePriority v.mww true (fs.map fun f => TableOps.Op.add (v.toEntry f))

theorem Variant.mem_install (v : Variant) (fs : List Spec.Flow) (e : Entry Spec.Flow) :
    e ∈ v.install fs ↔ ∃ f ∈ fs, e = v.toEntry f := by
  have h := TableOps.mem_runFrom_adds v.effectivePriority v.mww true (fs.map v.toEntry) [] e
  simp only [List.map_map, List.not_mem_nil, false_or, List.mem_map] at h
  unfold Variant.install TableOps.run
  have e1 : (fs.map fun f => TableOps.Op.add (v.toEntry f)) = fs.map (TableOps.Op.add ∘ v.toEntry) := rfl
  rw [e1, h]
  constructor
  · rintro ⟨f, hf, rfl⟩; exact ⟨f, hf, rfl⟩
  · rintro ⟨f, hf, rfl⟩; exact ⟨f, hf, rfl⟩

theorem Variant.install_sorted (v : Variant) (fs : List Spec.Flow) : SortedBy v.effectivePriority (v.install fs) :=
  TableOps.run_sorted _ _ _ _

/-- lookup in a table built from flow-mods, against the standard (prerequisite-rule reading of "exact") -/
theorem Variant.install_isBest (v : Variant) (fs : List Spec.Flow) (hfs : ∀ f ∈ fs, v.FlowOk f)
    (p : PHdr) (port : Nat) (hr : v.regular p = true) (hpt : v.tosDscp = false → pktTos p % 4 = 0) :
    Spec.IsBestSig fs (Spec.headers p port) ((v.entryForPacket (v.install fs) p port).map (·.data)) := by
  have hmem : ∀ e ∈ v.install fs, e = v.toEntry e.data ∧ v.FlowOk e.data := by
    intro e he
    obtain ⟨f, hf, rfl⟩ := (v.mem_install fs e).mp he
    exact ⟨rfl, hfs f hf⟩
  have h := v.lookup_isBest (v.install fs) (v.install_sorted fs) hmem p port hr hpt
  have hset : ∀ g, g ∈ (v.install fs).map (·.data) ↔ g ∈ fs := by
    intro g
    constructor
    · intro hg
      obtain ⟨e, he, rfl⟩ := List.mem_map.mp hg
      obtain ⟨f, hf, rfl⟩ := (v.mem_install fs e).mp he
      exact hf
    · intro hg
      exact List.mem_map.mpr ⟨v.toEntry g, (v.mem_install fs _).mpr ⟨g, hg, rfl⟩, rfl⟩
  cases hq : (v.entryForPacket (v.install fs) p port).map (·.data) with
  | none =>
    rw [hq] at h
    intro g hg; exact h g ((hset g).mpr hg)
  | some f =>
    rw [hq] at h
    exact ⟨(hset f).mp h.1, h.2.1, fun g hg hm => h.2.2 g ((hset g).mpr hg) hm⟩

/-- the two readings of "exact match" give the same lookup verdict on flows that wildcard no ignored field -/
theorem isBest_of_isBestSig (fs : List Spec.Flow) (h : Spec.Headers) (o : Option Spec.Flow)
    (hx : ∀ f ∈ fs, Spec.exactSig f.mtch = Spec.exact f.mtch) (hb : Spec.IsBestSig fs h o) : Spec.IsBest fs h o := by
  have hr : ∀ f ∈ fs, Spec.rankSig f = Spec.rank f := fun f hf => by simp [Spec.rankSig, Spec.rank, hx f hf]
  cases o with
  | none => exact hb
  | some f =>
    obtain ⟨h1, h2, h3⟩ := hb
    refine ⟨h1, h2, fun g hg hm => ?_⟩
    rw [← hr g hg, ← hr f h1]; exact h3 g hg hm

end Pox.OF
