import PoxModel.Proofs.PackedMatch
import PoxModel.Proofs.FlowMod
set_option linter.unusedSimpArgs false
/-! Refinement of the flow-mod state machine (`Model/FlowMod.lean`) to the OpenFlow 1.0 flow table (`Spec/OF10Table.lean`):
the abstraction, the invariant, the hypotheses on transmitted messages, and the per-operation lemmas.  Core only. -/
namespace Pox.FlowMod
open Pox.OF Pox.OF.OfMatch Pox.Spec

/-! ## abstraction -/

/-- the specification's view of a table entry: the flow is identified by the match as transmitted (ghost field `wire`) -/
def absEntry (e : FEntry) : SFlow :=
  { mtch := e.data.wire, priority := e.priority, actions := e.data.actions, cookie := e.data.cookie, flags := e.data.flags,
    idle := e.data.idle, hard := e.data.hard, installed := e.data.created, lastUsed := e.data.touched,
    packets := e.data.packets, bytes := e.data.bytes }

def abs (s : State) : STable := { flows := s.table.map absEntry, now := s.now, capacity := s.maxEntries, buffers := s.pool }

def absStat (f : FlowStat) : SFlowStat :=
  { mtch := f.wire, durSec := f.durSec, durNsec := f.durNsec, priority := f.priority, idle := f.idle, hard := f.hard,
    cookie := f.cookie, packets := f.packets, bytes := f.bytes, actions := f.actions }

/-- the specification's view of a message: the match it carries is identified by the flow's transmitted match -/
def absOut : Out → SOut
  | .flowRemoved m =>
    .flowRemoved
      { mtch := m.wire, cookie := m.cookie, priority := m.priority, reason := m.reason,
        durSec := m.durSec, durNsec := m.durNsec, idle := m.idle, packets := m.packets, bytes := m.bytes }
  | .error t c => .error t c
  | .packetIn p b r => .packetIn p b r
  | .release id f a => .release id f a
  | .flowStats l => .flowStats (l.map absStat)
  | .aggStats p b n => .aggStats p b n

/-! ## hypotheses on transmitted matches, by code variant -/

/-- hypotheses on a transmitted match under which the code — in the variant `cfg` — treats it as the standard says.  Each clause
    is needed only by the variant that lacks the corresponding repair (D38, D26, D36 of C03; C04-2, C04-1).  With every repair
    nothing is left. -/
structure WireOk (cfg : Cfg) (r : OfMatch) : Prop where
  /-- without D38: wildcarded dl_type / nw_proto fields do not look like prerequisites -/
  prereq : cfg.mv.prereqExact = false → PrereqExact r
  /-- without D36 (or with `==` as strict test, without C04-1): a ToS value that is compared carries no ECN bits -/
  tos : cfg.tosDscp = false ∨ cfg.strictMutual = false → Spec.significant r Spec.W_NW_TOS = true → r.nwTos % 4 = 0
  /-- without D26: a flow that is exact under the prerequisite rule has no wildcard bit at all and is IPv4 TCP/UDP/ICMP -/
  exactL4 : cfg.mv.exactSig = false → Spec.exactSig r = true →
    Spec.exact r = true ∧ r.dlType = 0x0800 ∧ isL4Proto r.nwProto = true
  /-- without C04-2: none of the undefined bits 22..31 of the wildcard word -/
  width : cfg.maskUndefined = false → r.wildcards < 2 ^ 22
  /-- without C04-1: no address bits below the prefix length -/
  hostSrc : cfg.strictMutual = false → Spec.srcIgn r < 32 → r.nwSrc % 2 ^ Spec.srcIgn r = 0
  hostDst : cfg.strictMutual = false → Spec.dstIgn r < 32 → r.nwDst % 2 ^ Spec.dstIgn r = 0

/-- the transmitted record with wildcarded prerequisite fields read as absent (D38) and undefined wildcard bits dropped (C04-2) -/
def eff0 (cfg : Cfg) (r : OfMatch) : OfMatch := if cfg.maskUndefined then maskUndef (cfg.mv.pre r) else cfg.mv.pre r

/-- … and the ToS byte as the comparison reads it (`d`: DSCP bits only, repair D36) -/
def effD (d : Bool) (cfg : Cfg) (r : OfMatch) : OfMatch := tosNorm d (eff0 cfg r)


theorem dscp_eq (cfg : Cfg) (m : OfMatch) : dscp cfg m = if cfg.tosDscp then dscpA m else m := by
  unfold dscp dscpA dscpOf; rfl

/-- the variant's `unpack(flow_mod=True)` is, for every test, HEAD's of the record with wildcarded prerequisite fields cleared -/
theorem vofWire_same (v : Variant) (r : OfMatch) : SameViews (v.ofWire r) (ofWire (v.pre r)) := by
  refine ⟨rfl, ?_, rfl, rfl⟩
  intro f hf
  have hf' : r.wild f = false := by
    have e : (v.ofWire r).wild f = (ofWire (v.pre r)).wild f := rfl
    rw [e, ofWire_wild, Variant.pre_wild] at hf
    simpa using (Bool.or_eq_false_iff.mp hf).1
  have hget : (v.ofWire r).get f = r.get f := by cases f <;> rfl
  rw [hget, ofWire_get]
  exact (Variant.pre_get v r f hf').symm

/-- the match object of a flow-mod is, for every test, HEAD's `unpack(flow_mod=True)` of `eff0` -/
theorem rx_same (cfg : Cfg) (r : OfMatch) : SameViews (rxMatch cfg r) (ofWire (eff0 cfg r)) := by
  have hb := vofWire_same cfg.mv r
  unfold rxMatch eff0
  cases hm : cfg.maskUndefined
  · simp only [Bool.false_eq_true, if_false]; exact hb
  · simp only [if_true]
    have hw : (cfg.mv.ofWire r).wildcards &&& FW_ALL = (ofWire (maskUndef (cfg.mv.pre r))).wildcards :=
      congrArg OfMatch.wildcards (ofWire_masked (cfg.mv.pre r))
    refine ⟨hw, ?_, hb.s, hb.d⟩
    intro f hf
    have hf' : (cfg.mv.ofWire r).wild f = false := by
      have hbit : f.bit < 22 := by cases f <;> decide
      have e : FW_ALL = 2 ^ 22 - 1 := by decide
      have : ((cfg.mv.ofWire r).wildcards &&& FW_ALL).testBit f.bit = false := hf
      rw [Nat.testBit_and, e, Nat.testBit_two_pow_sub_one] at this
      have h2 : (cfg.mv.ofWire r).wildcards.testBit f.bit = false := by simpa [hbit] using this
      exact h2
    have := hb.g f hf'
    rw [ofWire_get] at this ⊢
    exact this

theorem sig_tos_eff0 (cfg : Cfg) (r : OfMatch) :
    Spec.significant (eff0 cfg r) Spec.W_NW_TOS = Spec.significant r Spec.W_NW_TOS ∧ (eff0 cfg r).nwTos = r.nwTos := by
  unfold eff0
  cases cfg.maskUndefined
  · exact ⟨Variant.significant_pre cfg.mv r _, rfl⟩
  · simp only [if_true]
    exact ⟨by rw [significant_mask _ _ (by decide), Variant.significant_pre], rfl⟩

theorem prereq_eff0 {cfg : Cfg} {r : OfMatch} (h : cfg.mv.prereqExact = false → PrereqExact r) : PrereqExact (eff0 cfg r) := by
  have hp := Variant.prereq_pre cfg.mv r h
  unfold eff0
  cases cfg.maskUndefined
  · exact hp
  · exact prereq_mask _ hp

/-- the match object as the variant's comparisons read it (`d`) is, for every test, `ofWire (effD d …)` -/
theorem rx_sameD (d : Bool) (cfg : Cfg) (r : OfMatch) (h : cfg.mv.prereqExact = false → PrereqExact r) :
    SameViews (if d then dscpA (rxMatch cfg r) else rxMatch cfg r) (ofWire (effD d cfg r)) := by
  have h1 : SameViews (if d then dscpA (rxMatch cfg r) else rxMatch cfg r)
      (if d then dscpA (ofWire (eff0 cfg r)) else ofWire (eff0 cfg r)) := by
    cases d
    · exact rx_same cfg r
    · exact (rx_same cfg r).dscpA
  exact h1.trans (tos_same d _ (prereq_eff0 h))

theorem core_effD (d : Bool) {cfg : Cfg} {r : OfMatch} (h : WireOk cfg r)
    (hd : d = false → Spec.significant r Spec.W_NW_TOS = true → r.nwTos % 4 = 0) : MatchCore (effD d cfg r) := by
  obtain ⟨hs, ht⟩ := sig_tos_eff0 cfg r
  refine ⟨prereq_tosNorm d _ (prereq_eff0 h.prereq), tosNorm_tos4 d _ (by rw [hs, ht]; exact hd), ?_⟩
  show (tosNorm d (eff0 cfg r)).wildcards < 2 ^ 22
  rw [(tosNorm_fields d _).1]
  unfold eff0
  cases hm : cfg.maskUndefined
  · exact h.width hm
  · exact maskUndef_width _

theorem core_eff {cfg : Cfg} {r : OfMatch} (h : WireOk cfg r) : MatchCore (effD cfg.tosDscp cfg r) :=
  core_effD cfg.tosDscp h (fun hd => h.tos (.inl hd))

theorem matchHdr_eff0 (cfg : Cfg) (r : OfMatch) (h : Headers) : matchHdr (eff0 cfg r) h = matchHdr r h := by
  unfold eff0; cases cfg.maskUndefined <;> simp [matchHdr_mask, Variant.matchHdr_pre]
theorem matchHdr_effD (d : Bool) (cfg : Cfg) (r : OfMatch) (h : Headers) : matchHdr (effD d cfg r) h = matchHdr r h := by
  unfold effD; rw [matchHdr_tosNorm, matchHdr_eff0]
theorem subsumes_effD (d : Bool) (cfg : Cfg) (a b : OfMatch) : subsumes (effD d cfg a) (effD d cfg b) = subsumes a b := by
  rw [Bool.eq_iff_iff, subsumes_forall, subsumes_forall]; simp only [matchHdr_effD]
theorem subsumes_effD_right (d : Bool) (cfg : Cfg) (a b : OfMatch) : subsumes a (effD d cfg b) = subsumes a b := by
  rw [Bool.eq_iff_iff, subsumes_forall, subsumes_forall]; simp only [matchHdr_effD]
theorem identical_effD (d : Bool) (cfg : Cfg) (a b : OfMatch) : identical (effD d cfg a) (effD d cfg b) = identical a b := by
  simp only [identical, subsumes_effD]
theorem overlaps_effD (d : Bool) (cfg : Cfg) (a b : OfMatch) : overlaps (effD d cfg a) (effD d cfg b) = overlaps a b := by
  rw [Bool.eq_iff_iff, overlaps_iff_exists, overlaps_iff_exists]; simp only [matchHdr_effD]

theorem srcIgn_eff0 (cfg : Cfg) (r : OfMatch) :
    Spec.srcIgn (eff0 cfg r) = Spec.srcIgn r ∧ (eff0 cfg r).nwSrc = r.nwSrc ∧ Spec.dstIgn (eff0 cfg r) = Spec.dstIgn r ∧
    (eff0 cfg r).nwDst = r.nwDst := by
  unfold eff0
  cases cfg.maskUndefined
  · exact ⟨Variant.srcIgn_pre _ _, rfl, Variant.dstIgn_pre _ _, rfl⟩
  · simp only [if_true]
    exact ⟨by rw [srcIgn_mask, Variant.srcIgn_pre], rfl, by rw [dstIgn_mask, Variant.dstIgn_pre], rfl⟩

theorem ok_effD_false {cfg : Cfg} {r : OfMatch} (h : WireOk cfg r) (hs : cfg.strictMutual = false) : MatchOk (effD false cfg r) := by
  obtain ⟨s1, s2, s3, s4⟩ := srcIgn_eff0 cfg r
  obtain ⟨t1, t2⟩ := srcIgn_tosNorm false (eff0 cfg r)
  obtain ⟨_, _, _, sa, da⟩ := tosNorm_fields false (eff0 cfg r)
  refine { toMatchCore := core_effD false h (fun _ => h.tos (.inr hs)), hostSrc := ?_, hostDst := ?_ }
  · show Spec.srcIgn (tosNorm false (eff0 cfg r)) < 32 → (tosNorm false (eff0 cfg r)).nwSrc % 2 ^ Spec.srcIgn (tosNorm false (eff0 cfg r)) = 0
    rw [t1, sa, s1, s2]; exact h.hostSrc hs
  · show Spec.dstIgn (tosNorm false (eff0 cfg r)) < 32 → (tosNorm false (eff0 cfg r)).nwDst % 2 ^ Spec.dstIgn (tosNorm false (eff0 cfg r)) = 0
    rw [t2, da, s3, s4]; exact h.hostDst hs

/-- non-strict MODIFY / DELETE: the code's test is the standard's subsumption -/
theorem rx_subsumes (cfg : Cfg) (a b : OfMatch) (ha : WireOk cfg a) (hb : WireOk cfg b) :
    matchW cfg true (rxMatch cfg a) (rxMatch cfg b) = subsumes a b := by
  unfold matchW
  rw [dscp_eq, dscp_eq, (rx_sameD cfg.tosDscp cfg a ha.prereq).matchesWith_left, (rx_sameD cfg.tosDscp cfg b hb.prereq).matchesWith_right,
    subsumes_code _ _ (core_eff ha) (core_eff hb), subsumes_effD]

/-- strict commands and ADD's replacement: the code's test is the standard's "identical header fields" -/
theorem rx_strict (cfg : Cfg) (e m : OfMatch) (he : WireOk cfg e) (hm : WireOk cfg m) :
    strictMatch cfg (rxMatch cfg e) (rxMatch cfg m) = identical e m := by
  unfold strictMatch
  cases hs : cfg.strictMutual
  · simp only [Bool.false_eq_true, if_false]
    have se := rx_sameD false cfg e he.prereq
    have sm := rx_sameD false cfg m hm.prereq
    simp only [Bool.false_eq_true, if_false] at se sm
    rw [se.eqMatch_left, sm.eqMatch_right, strict_iff _ _ (ok_effD_false he hs) (ok_effD_false hm hs), identical_effD]
  · simp only [if_true]
    rw [rx_subsumes cfg m e hm he, rx_subsumes cfg e m he hm, identical, Bool.and_comm]

/-- CHECK_OVERLAP -/
theorem rx_overlaps (cfg : Cfg) (a b : OfMatch) (ha : WireOk cfg a) (hb : WireOk cfg b) :
    overlapsWith (dscp cfg (rxMatch cfg a)) (dscp cfg (rxMatch cfg b)) = overlaps a b := by
  rw [dscp_eq, dscp_eq, (rx_sameD cfg.tosDscp cfg a ha.prereq).overlapsWith_left, (rx_sameD cfg.tosDscp cfg b hb.prereq).overlapsWith_right,
    overlaps_code _ _ (core_eff ha) (core_eff hb), overlaps_effD]

/-- lookup: the entry accepts the frame iff the standard's matching does.  The ECN bits of the frame's ToS byte matter only
    without repair D36 and only to a flow that compares the ToS byte. -/
theorem rx_accepts (cfg : Cfg) (r : OfMatch) (hr : WireOk cfg r) (p : PHdr) (port : Nat) (hp : cfg.mv.regular p = true)
    (hpt : cfg.tosDscp = true ∨ pktTos p % 4 = 0 ∨ Spec.significant r Spec.W_NW_TOS = false) :
    matchW cfg false (rxMatch cfg r) (pktMatch cfg p port) = matchHdr r (headers p port) := by
  have hcore := core_eff hr
  have hL := rx_sameD cfg.tosDscp cfg r hr.prereq
  have hfp : cfg.mv.fromPacket p port = fromHeaders (extractG (!cfg.mv.arpLow8) true p (some port)) := rfl
  unfold matchW pktMatch
  rw [hfp]
  simp only [dscp_eq]
  rw [hL.matchesWith_left, ← matchHdr_effD cfg.tosDscp cfg r]
  cases hd : cfg.tosDscp
  · simp only [Bool.false_eq_true, if_false]
    rw [hd] at hcore
    rcases hpt with h | h | h
    · rw [hd] at h; cases h
    · exact wire_accepts _ _ _ hcore.prereq hcore.tos (extract_agreeG _ p port hp h)
    · -- the flow does not compare the ToS byte
      have hw : (ofWire (effD false cfg r)).wild .nwTos = true := by
        have hs : Spec.significant (effD false cfg r) Spec.W_NW_TOS = false := by
          have h1 : Spec.significant (tosNorm false (eff0 cfg r)) Spec.W_NW_TOS = Spec.significant (eff0 cfg r) Spec.W_NW_TOS := by
            obtain ⟨w, t, pr, _, _⟩ := tosNorm_fields false (eff0 cfg r)
            simp only [Spec.significant, Spec.ipSpecified, Spec.nwSpecified, Spec.tpSpecified, Spec.dlTypeIs, Spec.wild, w, t, pr]
          unfold effD; rw [h1, (sig_tos_eff0 cfg r).1]; exact h
        have hcore' := core_effD false hr (fun _ hs' => by rw [h] at hs'; cases hs')
        have := sig_agree (effD false cfg r) hcore'.prereq .nwTos
        rw [show Fld.nwTos.bit = Spec.W_NW_TOS from rfl, hs] at this
        simpa using this
      have hcore' := core_effD false hr (fun _ hs' => by rw [h] at hs'; cases hs')
      rw [accepts_tos_irrelevant _ _ hw]
      exact wire_accepts _ _ _ hcore'.prereq hcore'.tos (agree_mapTos _ p port hp)
  · simp only [if_true]
    have idem : ∀ m : OfMatch, dscpA (dscpA m) = dscpA m := by
      intro m; unfold dscpA
      have : m.nwTos / 4 * 4 / 4 * 4 = m.nwTos / 4 * 4 := by omega
      simp [this]
    rw [idem, ← fromHeaders_mapTos]
    rw [hd] at hcore
    exact wire_accepts _ _ _ hcore.prereq hcore.tos (agree_mapTos _ p port hp)

/-- hypotheses on the match of a statistics request -/
structure StatsOk (cfg : Cfg) (m : OfMatch) : Prop where
  prereq : cfg.mv.prereqExact = false → PrereqExact m
  tos : cfg.tosDscp = false → Spec.significant m Spec.W_NW_TOS = true → m.nwTos % 4 = 0
  /-- unrepaired C04-3 only: the fields the standard ignores are wildcarded already -/
  canon : cfg.statsUnwire = false → ofWirePlain m = cfg.mv.ofWire m

theorem pre_ofWirePlain (v : Variant) (m : OfMatch) : v.pre (ofWirePlain m) = ofWirePlain (v.pre m) := by
  have h4 : (normalize m.wildcards).testBit Fld.dlType.bit = m.wildcards.testBit Fld.dlType.bit :=
    normalize_testBit _ _ (Fld.bit_range _)
  have h5 : (normalize m.wildcards).testBit Fld.nwProto.bit = m.wildcards.testBit Fld.nwProto.bit :=
    normalize_testBit _ _ (Fld.bit_range _)
  simp only [Variant.pre, ofWirePlain, Variant.effDlType, Variant.effNwProto, h4, h5]

/-- the match object of a statistics request is, for every test, `ofWire` of the request with wildcarded prerequisites cleared -/
theorem stats_sameV (cfg : Cfg) (m : OfMatch) (h : StatsOk cfg m) : SameViews (statsMatch cfg m) (ofWire (cfg.mv.pre m)) := by
  unfold statsMatch
  cases hs : cfg.statsUnwire
  · simp only [Bool.false_eq_true, if_false]
    rw [h.canon hs]; exact vofWire_same cfg.mv m
  · simp only [if_true]
    have := vofWire_same cfg.mv (ofWirePlain m)
    rw [pre_ofWirePlain, ofWire_ofWirePlain] at this
    exact this

theorem stats_subsumes (cfg : Cfg) (m b : OfMatch) (hm : StatsOk cfg m) (hb : WireOk cfg b) :
    matchW cfg true (statsMatch cfg m) (rxMatch cfg b) = subsumes m b := by
  have hpm := Variant.prereq_pre cfg.mv m hm.prereq
  have hsig : Spec.significant (cfg.mv.pre m) Spec.W_NW_TOS = Spec.significant m Spec.W_NW_TOS := Variant.significant_pre cfg.mv m _
  have hL : SameViews (if cfg.tosDscp then dscpA (statsMatch cfg m) else statsMatch cfg m)
      (ofWire (tosNorm cfg.tosDscp (cfg.mv.pre m))) := by
    have h1 : SameViews (if cfg.tosDscp then dscpA (statsMatch cfg m) else statsMatch cfg m)
        (if cfg.tosDscp then dscpA (ofWire (cfg.mv.pre m)) else ofWire (cfg.mv.pre m)) := by
      cases cfg.tosDscp
      · exact stats_sameV cfg m hm
      · exact (stats_sameV cfg m hm).dscpA
    exact h1.trans (tos_same _ _ hpm)
  have hcore := core_eff hb
  unfold matchW
  rw [dscp_eq, dscp_eq, hL.matchesWith_left, (rx_sameD cfg.tosDscp cfg b hb.prereq).matchesWith_right,
    code_subsumes _ _ (prereq_tosNorm _ _ hpm) hcore.prereq
      (tosNorm_tos4 _ _ (by rw [hsig]; exact hm.tos)) hcore.tos hcore.width]
  rw [Bool.eq_iff_iff, subsumes_forall, subsumes_forall]
  simp only [matchHdr_tosNorm, Variant.matchHdr_pre, matchHdr_effD]

/-! ## invariant and hypotheses -/

/-- the actions the model follows: no `output:TABLE` (the datapath would look the packet up again: not modelled), and where an
    action sends the packet to the controller the list consists of outputs only (so the stored packet is the one that came in) -/
def actsOk (actions : List Action) : Bool :=
  !actions.any (outputsTo OFPP_TABLE) &&
  (!actions.any (outputsTo OFPP_CONTROLLER) || actions.all (fun a => match a with | .output _ _ => true | .other _ _ => false))

structure EntryOk (cfg : Cfg) (e : FEntry) : Prop where
  /-- the stored match object is what the flow-mod path made of the transmitted match -/
  wf : e.mtch = rxMatch cfg e.data.wire
  mok : WireOk cfg e.data.wire
  prio : e.priority ≤ 0xffff
  noEmerg : e.data.flags.testBit FF_EMERG = false

structure Inv (s : State) : Prop where
  sorted : SortedC s.cfg s.table
  ok : ∀ e ∈ s.table, EntryOk s.cfg e
  bounded : s.table.length ≤ s.maxEntries

/-- a flow-mod as a controller sends it: regular match, 16-bit priority, actions the model follows -/
structure MsgOk (cfg : Cfg) (fm : FlowModMsg) : Prop where
  mok : WireOk cfg fm.mtch
  prio : fm.priority ≤ 0xffff
  acts : actsOk fm.actions = true

/-- hypotheses on one event of a history, in the state it is applied to: a frame's ECN bits matter only without repair D36 and only
    when some installed flow compares the ToS byte -/
def OpOk (s : State) : Op → Prop
  | .flowMod fm => MsgOk s.cfg fm
  | .packet p _ _ => s.cfg.mv.regular p = true ∧
      (s.cfg.tosDscp = true ∨ pktTos p % 4 = 0 ∨ ∀ e ∈ s.table, Spec.significant e.data.wire Spec.W_NW_TOS = false)
  | .flowStats m _ => StatsOk s.cfg m
  | .aggStats m _ => StatsOk s.cfg m
  | .advance _ => True
  | .sweep => True

theorem init_inv (cfg : Cfg) (now mx mb : Nat) : Inv (init cfg now mx mb) :=
  ⟨List.Pairwise.nil, fun _ h => by simp [init] at h, Nat.zero_le _⟩

theorem mkEntry_ok (cfg : Cfg) (now : Nat) (fm : FlowModMsg) (h : MsgOk cfg fm) (he : fm.flags.testBit FF_EMERG = false) :
    EntryOk cfg (mkEntry cfg now fm) :=
  ⟨rfl, h.mok, h.prio, he⟩

/-! ## rank -/

/-- the code's exactness test on the match object of a flow-mod is the standard's (prerequisite-rule reading) -/
theorem rx_isWildcarded (cfg : Cfg) (r : OfMatch) (h : WireOk cfg r) : cfg.mv.isWildcarded (rxMatch cfg r) = !Spec.exactSig r := by
  have := Variant.exact_agree cfg.mv r h.exactL4
  unfold rxMatch
  cases cfg.maskUndefined
  · exact this
  · simp only [if_true]
    rw [Variant.isWildcarded_masked]; exact this

theorem eff_of_ok {cfg : Cfg} (e : FEntry) (h : EntryOk cfg e) :
    cfg.key e = if Spec.exactSig e.data.wire = true then EXACT_PRIORITY else e.priority := by
  unfold Cfg.key Variant.effectivePriority
  rw [h.wf, rx_isWildcarded cfg _ h.mok]
  cases Spec.exactSig e.data.wire <;> simp

theorem rank_abs (e : FEntry) : (absEntry e).rank = if Spec.exactSig e.data.wire = true then 0x10000 else e.priority := rfl

theorem eff_gt_iff {cfg : Cfg} (e e' : FEntry) (h : EntryOk cfg e) (h' : EntryOk cfg e') :
    cfg.key e > cfg.key e' ↔ (absEntry e).rank > (absEntry e').rank := by
  rw [eff_of_ok e h, eff_of_ok e' h', rank_abs, rank_abs]
  have := h.prio; have := h'.prio
  simp only [EXACT_PRIORITY]
  split <;> split <;> omega

theorem eff_eq_iff {cfg : Cfg} (e e' : FEntry) (h : EntryOk cfg e) (h' : EntryOk cfg e') :
    cfg.key e = cfg.key e' ↔ (absEntry e).rank = (absEntry e').rank := by
  rw [eff_of_ok e h, eff_of_ok e' h', rank_abs, rank_abs]
  have := h.prio; have := h'.prio
  simp only [EXACT_PRIORITY]
  split <;> split <;> omega

/-! ## which entries a command selects -/

theorem hasOutput_abs (e : FEntry) (p : Nat) : hasOutput (absEntry e) p = e.data.actions.any (outputsTo p) := by
  unfold hasOutput absEntry
  simp only
  congr 1

/-- MODIFY / MODIFY_STRICT / the replacement of ADD: no port filter -/
theorem selected_abs {cfg : Cfg} (e : FEntry) (he : EntryOk cfg e) (m : OfMatch) (hm : WireOk cfg m) (prio : Nat) (strict : Bool) :
    isMatchedBy cfg e (rxMatch cfg m) prio strict none = selected m prio strict (absEntry e) := by
  unfold isMatchedBy selected sameFlow
  cases strict
  · simp only [Bool.false_eq_true, if_false, Bool.true_and]
    rw [he.wf, rx_subsumes cfg m e.data.wire hm he.mok]
    rfl
  · simp only [if_true, Bool.true_and]
    rw [he.wf, rx_strict cfg e.data.wire m he.mok hm]
    rfl

/-- the `out_port` filter on top of a test already related to the standard -/
theorem port_filter_abs (e : FEntry) (outPort : Nat) (x : Bool) :
    ((match (if outPort = OFPP_NONE then none else some outPort : Option Nat) with
      | none => true
      | some p => e.data.actions.any (outputsTo p)) && x) = (x && portOk outPort (absEntry e)) := by
  unfold portOk
  by_cases hp : outPort = OFPP_NONE
  · simp [hp]
  · have : (outPort == OFPP_NONE) = false := by simpa using hp
    simp only [hp, if_false, this, Bool.false_or, hasOutput_abs]
    exact Bool.and_comm _ _

/-- DELETE / DELETE_STRICT: with the `out_port` filter -/
theorem selected_port_abs {cfg : Cfg} (e : FEntry) (he : EntryOk cfg e) (m : OfMatch) (hm : WireOk cfg m) (prio : Nat) (strict : Bool)
    (outPort : Nat) :
    isMatchedBy cfg e (rxMatch cfg m) prio strict (if outPort = OFPP_NONE then none else some outPort) =
      (selected m prio strict (absEntry e) && portOk outPort (absEntry e)) := by
  rw [← selected_abs e he m hm prio strict]
  unfold isMatchedBy
  cases strict
  · simp only [Bool.false_eq_true, if_false, Bool.true_and]
    exact port_filter_abs e outPort _
  · simp only [if_true, Bool.true_and]
    rw [Bool.and_assoc]
    exact port_filter_abs e outPort _

/-- statistics requests: subsumption by the request's match, with the `out_port` filter -/
theorem stats_selected_abs {cfg : Cfg} (e : FEntry) (he : EntryOk cfg e) (m : OfMatch) (hm : StatsOk cfg m) (outPort : Nat) :
    isMatchedBy cfg e (statsMatch cfg m) 0 false (if outPort = OFPP_NONE then none else some outPort) =
      (subsumes m (absEntry e).mtch && portOk outPort (absEntry e)) := by
  unfold isMatchedBy
  simp only [Bool.false_eq_true, if_false]
  rw [he.wf, stats_subsumes cfg m e.data.wire hm he.mok]
  exact port_filter_abs e outPort _

/-! ## list plumbing -/

theorem filter_map_abs (t : Table EData) (p : FEntry → Bool) (q : SFlow → Bool) (h : ∀ e ∈ t, p e = q (absEntry e)) :
    (t.filter p).map absEntry = (t.map absEntry).filter q := by
  induction t with
  | nil => rfl
  | cons e r ih =>
    have h1 := h e (by simp)
    have h2 := ih (fun x hx => h x (by simp [hx]))
    simp only [List.filter_cons, List.map_cons, ← h1]
    split
    · simp [h2]
    · exact h2

theorem any_map_abs (t : Table EData) (p : FEntry → Bool) (q : SFlow → Bool) (h : ∀ e ∈ t, p e = q (absEntry e)) :
    t.any p = (t.map absEntry).any q := by
  induction t with
  | nil => rfl
  | cons e r ih =>
    simp only [List.any_cons, List.map_cons, h e (by simp), ih (fun x hx => h x (by simp [hx]))]

theorem takeWhile_index {α : Type} (P : α → Bool) (l : List α) (k : Nat) (hk : k ≤ l.length)
    (h1 : ∀ i (h : i < l.length), i < k → P l[i] = true) (h2 : ∀ i (h : i < l.length), k ≤ i → P l[i] = false) :
    l.takeWhile P = l.take k ∧ l.dropWhile P = l.drop k := by
  induction l generalizing k with
  | nil => simp
  | cons x r ih =>
    cases k with
    | zero =>
      have := h2 0 (by simp) (Nat.le_refl _)
      simp only [List.getElem_cons_zero] at this
      simp [List.takeWhile_cons, List.dropWhile_cons, this]
    | succ k =>
      have hx := h1 0 (by simp) (by omega)
      simp only [List.getElem_cons_zero] at hx
      have := ih k (by simpa using hk)
        (fun i h hi => by have := h1 (i + 1) (by simpa using h) (by omega); simpa using this)
        (fun i h hi => by have := h2 (i + 1) (by simpa using h) (by omega); simpa using this)
      simp [List.takeWhile_cons, List.dropWhile_cons, hx, this.1, this.2]

theorem takeWhile_map_abs (t : Table EData) (p : FEntry → Bool) (q : SFlow → Bool) (h : ∀ e ∈ t, p e = q (absEntry e)) :
    (t.takeWhile p).map absEntry = (t.map absEntry).takeWhile q ∧ (t.dropWhile p).map absEntry = (t.map absEntry).dropWhile q := by
  induction t with
  | nil => simp
  | cons e r ih =>
    have h1 := h e (by simp)
    have h2 := ih (fun x hx => h x (by simp [hx]))
    simp only [List.takeWhile_cons, List.dropWhile_cons, List.map_cons, ← h1]
    split
    · simp [h2.1, h2.2]
    · simp

/-- `add_entry` puts the entry where the specification's ordered insertion puts the flow -/
theorem addEntry_abs {cfg : Cfg} (new : FEntry) (t : Table EData) (hs : SortedC cfg t) (hok : ∀ e ∈ t, EntryOk cfg e)
    (hn : EntryOk cfg new) :
    (addEntryBy cfg.key new t).map absEntry = insertFlow (absEntry new) (t.map absEntry) := by
  obtain ⟨k, hle, heq, hpos⟩ := addEntryBy_eq cfg.key new t
  obtain ⟨k', hk', hk'le, hlo, hup⟩ := insertPos?_spec (cfg.key new) (t.map cfg.key) ((sortedBy_iff_desc cfg.key t).mp hs)
  rw [hpos] at hk'
  cases hk'
  have htw := takeWhile_index (fun e : FEntry => decide (cfg.key e > cfg.key new)) t k hle
    (fun i h hi => by
      have := hlo i (by simpa using h) hi
      simp only [List.getElem_map] at this
      simpa using this)
    (fun i h hi => by
      have := hup i (by simpa using h) hi
      simp only [List.getElem_map] at this
      simp only [decide_eq_false_iff_not]; omega)
  have hmap := takeWhile_map_abs t (fun e : FEntry => decide (cfg.key e > cfg.key new))
    (fun g => decide (g.rank > (absEntry new).rank))
    (fun e he => by
      have := eff_gt_iff e new (hok e he) hn
      simp only [decide_eq_decide]; exact this)
  rw [heq, insertAt, insertFlow, List.map_append, List.map_cons, ← htw.1, ← htw.2, hmap.1, hmap.2]

/-! ## messages -/

theorem wants_abs {cfg : Cfg} (e : FEntry) (he : EntryOk cfg e) : wantsRemoved e = wantsNotify (absEntry e) := by
  simp [wantsRemoved, wantsNotify, absEntry, he.noEmerg]

theorem removed_abs (now reason : Nat) (e : FEntry) :
    absOut (.flowRemoved (removedMsg now reason e)) = .flowRemoved (removedOf now reason (absEntry e)) := rfl

theorem notify_abs {cfg : Cfg} (now reason : Nat) (es : List FEntry) (hok : ∀ e ∈ es, EntryOk cfg e) :
    (notify now reason es).map absOut = notifications now reason (es.map absEntry) := by
  unfold notify notifications
  rw [← filter_map_abs es wantsRemoved wantsNotify (fun e he => wants_abs e (hok e he)), List.map_map, List.map_map]
  apply List.map_congr_left
  intro e _
  exact removed_abs now reason e

/-! ## ADD -/

theorem selected_strict (m : OfMatch) (prio : Nat) (f : SFlow) : selected m prio true f = sameFlow m prio f := by simp [selected]
theorem selected_loose (m : OfMatch) (prio : Nat) (f : SFlow) : selected m prio false f = subsumes m f.mtch := by simp [selected]

/-- a flow the description does not select is not the flow with identical match and priority -/
theorem not_same_of_not_selected (m : OfMatch) (prio : Nat) (strict : Bool) (f : SFlow) (h : selected m prio strict f = false) :
    sameFlow m prio f = false := by
  cases strict
  · rw [selected_loose] at h
    simp only [sameFlow, identical, h, Bool.and_false, Bool.false_and]
  · rw [selected_strict] at h; exact h

/-- ADD proper: removing the strictly matching entries is the specification's removal of the identical flow -/
theorem addBase_abs_add (s : State) (fm : FlowModMsg) (hi : Inv s) (hm : MsgOk s.cfg fm) (hc : fm.cmd = .add) :
    (addBase s fm).map absEntry = withoutSame (abs s) fm := by
  unfold addBase withoutSame
  simp only [hc]
  apply filter_map_abs
  intro e he
  rw [selected_abs e (hi.ok e he) fm.mtch hm.mok fm.priority true, selected_strict]

/-- MODIFY acting as ADD: nothing was selected, so there is no identical flow to replace -/
theorem addBase_abs_modify (s : State) (fm : FlowModMsg) (strict : Bool) (hc : fm.cmd ≠ .add)
    (hnone : (abs s).flows.any (selected fm.mtch fm.priority strict) = false) :
    (addBase s fm).map absEntry = withoutSame (abs s) fm := by
  have hb : addBase s fm = s.table := by
    unfold addBase
    split
    · exact absurd ‹fm.cmd = Cmd.add› hc
    · rfl
  rw [hb]
  unfold withoutSame
  symm
  apply List.filter_eq_self.mpr
  intro f hf
  rw [List.any_eq_false] at hnone
  have := hnone f hf
  simp [not_same_of_not_selected fm.mtch fm.priority strict f (by simpa using this)]

theorem overlap_abs (s : State) (fm : FlowModMsg) (hi : Inv s) (hm : MsgOk s.cfg fm) (he : fm.flags.testBit FF_EMERG = false) :
    overlapScan s.cfg (s.cfg.key (mkEntry s.cfg s.now fm)) (rxMatch s.cfg fm.mtch) s.table =
      (abs s).flows.any (fun g => g.rank == (newFlow s.now fm).rank && overlaps g.mtch fm.mtch) := by
  rw [overlapScan_sorted _ _ _ _ hi.sorted]
  apply any_map_abs
  intro e hmem
  have hok := hi.ok e hmem
  have hnew := mkEntry_ok s.cfg s.now fm hm he
  have hrank : (s.cfg.key e == s.cfg.key (mkEntry s.cfg s.now fm)) = ((absEntry e).rank == (newFlow s.now fm).rank) := by
    have := eff_eq_iff e (mkEntry s.cfg s.now fm) hok hnew
    rw [Bool.eq_iff_iff]; simp only [beq_iff_eq]; exact this
  rw [hrank, hok.wf, rx_overlaps s.cfg e.data.wire fm.mtch hok.mok hm.mok]
  rfl

theorem flowModAdd_refines (s : State) (fm : FlowModMsg) (hi : Inv s) (hm : MsgOk s.cfg fm)
    (hbase : (addBase s fm).map absEntry = withoutSame (abs s) fm) :
    abs (flowModAdd s fm).1 = (Spec.add (abs s) fm).1 ∧ (flowModAdd s fm).2.map absOut = (Spec.add (abs s) fm).2 := by
  unfold flowModAdd Spec.add
  by_cases hE : fm.flags.testBit FF_EMERG = true
  · rw [if_pos hE, if_pos hE]
    exact ⟨rfl, rfl⟩
  · have hE' : fm.flags.testBit FF_EMERG = false := by simpa using hE
    rw [if_neg hE, if_neg hE]
    have hov : (fm.flags.testBit FF_CHECK_OVERLAP &&
        overlapScan s.cfg (s.cfg.key (mkEntry s.cfg s.now fm)) (rxMatch s.cfg fm.mtch) s.table) =
        (fm.flags.testBit FF_CHECK_OVERLAP &&
          (abs s).flows.any (fun g => g.rank == (newFlow (abs s).now fm).rank && overlaps g.mtch fm.mtch)) := by
      cases hC : fm.flags.testBit FF_CHECK_OVERLAP
      · rfl
      · simp only [Bool.true_and]
        exact overlap_abs s fm hi hm hE'
    rw [hov]
    by_cases hO : (fm.flags.testBit FF_CHECK_OVERLAP &&
        (abs s).flows.any (fun g => g.rank == (newFlow (abs s).now fm).rank && overlaps g.mtch fm.mtch)) = true
    · rw [if_pos hO, if_pos hO]
      exact ⟨rfl, rfl⟩
    · rw [if_neg hO, if_neg hO]
      have hlen : (withoutSame (abs s) fm).length = (addBase s fm).length := by rw [← hbase, List.length_map]
      rw [hlen]
      have hcap : (abs s).capacity = s.maxEntries := rfl
      rw [hcap]
      by_cases hfull : (addBase s fm).length ≥ s.maxEntries
      · -- table full: nothing had been removed
        have hsub := addBase_sublist s fm
        have heq : addBase s fm = s.table := hsub.eq_of_length_le (by have := hi.bounded; omega)
        rw [if_pos hfull, if_pos hfull, heq]
        exact ⟨rfl, rfl⟩
      · have hsorted := addBase_sorted s fm hi.sorted
        have hok : ∀ e ∈ addBase s fm, EntryOk s.cfg e := fun e he => hi.ok e ((addBase_sublist s fm).subset he)
        rw [if_neg hfull, if_neg hfull]
        refine ⟨?_, rfl⟩
        simp only [abs]
        rw [addEntry_abs _ _ hsorted hok (mkEntry_ok s.cfg s.now fm hm hE'), hbase]
        rfl

/-! ## MODIFY -/

theorem flowModModify_refines (s : State) (fm : FlowModMsg) (strict : Bool) (hi : Inv s) (hm : MsgOk s.cfg fm) (hc : fm.cmd ≠ .add) :
    abs (flowModModify s fm strict).1 = (Spec.modify (abs s) fm strict).1 ∧
    (flowModModify s fm strict).2.map absOut = (Spec.modify (abs s) fm strict).2 := by
  unfold flowModModify Spec.modify
  have hsel : ∀ e ∈ s.table, isMatchedBy s.cfg e (rxMatch s.cfg fm.mtch) fm.priority strict none =
      selected fm.mtch fm.priority strict (absEntry e) :=
    fun e he => selected_abs e (hi.ok e he) fm.mtch hm.mok fm.priority strict
  have hany := any_map_abs s.table _ _ hsel
  simp only [hany]
  have hflows : (abs s).flows = s.table.map absEntry := rfl
  rw [hflows]
  split
  · refine ⟨?_, rfl⟩
    simp only [abs, List.map_map]
    congr 1
    apply List.map_congr_left
    intro e he
    simp only [Function.comp, hsel e he]
    split <;> rfl
  · exact flowModAdd_refines s fm hi hm
      (addBase_abs_modify s fm strict hc (by simpa [hflows] using ‹¬ (List.map absEntry s.table).any _ = true›))

/-! ## DELETE -/

theorem flowModDelete_refines (s : State) (fm : FlowModMsg) (strict : Bool) (hi : Inv s) (hm : MsgOk s.cfg fm) :
    abs (flowModDelete s fm strict).1 = (Spec.delete (abs s) fm strict).1 ∧
    (flowModDelete s fm strict).2.map absOut = (Spec.delete (abs s) fm strict).2 := by
  unfold flowModDelete Spec.delete
  have hsel : ∀ e ∈ s.table, isMatchedBy s.cfg e (rxMatch s.cfg fm.mtch) fm.priority strict
      (if fm.outPort = OFPP_NONE then none else some fm.outPort) =
      (selected fm.mtch fm.priority strict (absEntry e) && portOk fm.outPort (absEntry e)) :=
    fun e he => selected_port_abs e (hi.ok e he) fm.mtch hm.mok fm.priority strict fm.outPort
  constructor
  · simp only [abs]
    congr 1
    exact filter_map_abs _ _ _ (fun e he => by rw [hsel e he])
  · simp only
    rw [notify_abs _ _ _ (fun e he => hi.ok e (List.mem_filter.mp he).1)]
    congr 1
    exact filter_map_abs _ _ _ hsel

/-! ## traffic -/

theorem account_abs (t : Table EData) (acc : FEntry → Bool) (hit : SFlow → Bool) (h : ∀ e ∈ t, acc e = hit (absEntry e))
    (len now : Nat) : (modifyFirst acc (touch len now) t).map absEntry = account hit len now (t.map absEntry) := by
  induction t with
  | nil => rfl
  | cons e r ih =>
    have h1 := h e (by simp)
    have h2 := ih (fun x hx => h x (by simp [hx]))
    simp only [modifyFirst, List.map_cons, account, ← h1]
    split
    · rfl
    · simp [h2]

theorem accepts_abs {cfg : Cfg} (e : FEntry) (he : EntryOk cfg e) (p : PHdr) (port : Nat) (hr : cfg.mv.regular p = true)
    (hpt : cfg.tosDscp = true ∨ pktTos p % 4 = 0 ∨ Spec.significant e.data.wire Spec.W_NW_TOS = false) :
    accepts cfg (pktMatch cfg p port) e = matchHdr (absEntry e).mtch (headers p port) := by
  unfold accepts
  rw [he.wf]
  exact rx_accepts cfg e.data.wire he.mok p port hr hpt

theorem ctlCount_eq (a : List Action) : ctlCount a = toController a := by
  unfold ctlCount toController
  congr 2

theorem ctlSend_abs (pool : BufPool.Pool BFrame) (f : BFrame) (n : Nat) :
    (ctlSend pool f n).1 = (sendToController pool f n).1 ∧ (ctlSend pool f n).2.map absOut = (sendToController pool f n).2 := by
  induction n generalizing pool with
  | zero => exact ⟨rfl, rfl⟩
  | succ n ih =>
    obtain ⟨h1, h2⟩ := ih (BufPool.alloc pool f).1
    simp only [ctlSend, sendToController, List.map_cons, h1, h2]
    exact ⟨trivial, rfl⟩

theorem hitActions_abs (t : Table EData) (acc : FEntry → Bool) (hit : SFlow → Bool) (h : ∀ e ∈ t, acc e = hit (absEntry e)) :
    hitActions acc t = actionsOfHit hit (t.map absEntry) := by
  unfold hitActions actionsOfHit
  induction t with
  | nil => rfl
  | cons e r ih =>
    have h1 := h e (by simp)
    simp only [List.find?_cons, List.map_cons, ← h1]
    cases acc e
    · exact ih (fun x hx => h x (by simp [hx]))
    · rfl

theorem packetStep_refines (s : State) (p : PHdr) (port len : Nat) (hi : Inv s) (hr : s.cfg.mv.regular p = true)
    (hpt : s.cfg.tosDscp = true ∨ pktTos p % 4 = 0 ∨ ∀ e ∈ s.table, Spec.significant e.data.wire Spec.W_NW_TOS = false) :
    abs (packetStep s p port len).1 = (Spec.receive (abs s) p port len).1 ∧
    (packetStep s p port len).2.map absOut = (Spec.receive (abs s) p port len).2 := by
  unfold packetStep Spec.receive
  have hacc : ∀ e ∈ s.table, accepts s.cfg (pktMatch s.cfg p port) e = matchHdr (absEntry e).mtch (headers p port) :=
    fun e he => accepts_abs e (hi.ok e he) p port hr (hpt.imp id (fun h => h.imp id (fun h => h e he)))
  have hany := any_map_abs s.table _ (fun f : SFlow => matchHdr f.mtch (headers p port)) hacc
  have hflows : (abs s).flows = s.table.map absEntry := rfl
  have hbuf : (abs s).buffers = s.pool := rfl
  simp only [hany, hflows, hbuf]
  split
  · rw [hitActions_abs s.table _ (fun f : SFlow => matchHdr f.mtch (headers p port)) hacc, ctlCount_eq]
    obtain ⟨c1, c2⟩ := ctlSend_abs s.pool { hdr := p, len := len, inPort := port }
      (toController (actionsOfHit (fun f : SFlow => matchHdr f.mtch (headers p port)) (s.table.map absEntry)))
    refine ⟨?_, c2⟩
    simp only [abs, c1]
    congr 1
    exact account_abs _ _ _ hacc _ _
  · exact ⟨rfl, rfl⟩

/-! ## expiry -/

theorem idleOut_abs (now : Nat) (e : FEntry) : idleOut now e = idleExpired now (absEntry e) := by
  rw [Bool.eq_iff_iff]
  unfold idleOut idleExpired absEntry
  simp only [Bool.and_eq_true, decide_eq_true_eq]
  constructor <;> (rintro ⟨h1, h2⟩; exact ⟨by omega, by omega⟩)

theorem hardOut_abs (now : Nat) (e : FEntry) : hardOut now e = hardExpired now (absEntry e) := by
  rw [Bool.eq_iff_iff]
  unfold hardOut hardExpired absEntry
  simp only [Bool.and_eq_true, decide_eq_true_eq]
  constructor <;> (rintro ⟨h1, h2⟩; exact ⟨by omega, by omega⟩)

theorem sweep_refines (s : State) (hi : Inv s) :
    abs (sweep s).1 = (Spec.expire (abs s)).1 ∧ (sweep s).2.map absOut = (Spec.expire (abs s)).2 := by
  unfold sweep Spec.expire
  constructor
  · simp only [abs]
    congr 1
    apply filter_map_abs
    intro e _
    rw [idleOut_abs, hardOut_abs]
    cases idleExpired s.now (absEntry e) <;> cases hardExpired s.now (absEntry e) <;> rfl
  · simp only [List.map_append]
    rw [notify_abs _ _ _ (fun e he => hi.ok e (List.mem_filter.mp he).1),
      notify_abs _ _ _ (fun e he => hi.ok e (List.mem_filter.mp he).1)]
    have h1 : (s.table.filter (idleOut s.now)).map absEntry = (abs s).flows.filter (idleExpired (abs s).now) :=
      filter_map_abs _ _ _ (fun e _ => idleOut_abs s.now e)
    have h2 : (s.table.filter (fun e => !idleOut s.now e && hardOut s.now e)).map absEntry =
        (abs s).flows.filter (fun f => !idleExpired (abs s).now f && hardExpired (abs s).now f) :=
      filter_map_abs _ _ _ (fun e _ => by rw [idleOut_abs, hardOut_abs]; rfl)
    rw [h1, h2]
    rfl

/-! ## statistics -/

theorem statsEntries_abs (s : State) (m : OfMatch) (outPort : Nat) (hi : Inv s) (hm : StatsOk s.cfg m) :
    (statsEntries s m outPort).map absEntry = statFlows (abs s) m outPort := by
  unfold statsEntries statFlows portFilter
  apply filter_map_abs
  intro e he
  exact stats_selected_abs e (hi.ok e he) m hm outPort

theorem flowStat_abs (now : Nat) (e : FEntry) : absStat (flowStat now e) = statOf now (absEntry e) := rfl

/-! ## the buffer named by a flow-mod -/

theorem bufferUse_refines (s : State) (id : Nat) (a : List Action) :
    abs (bufferUse s id a).1 = (Spec.applyBuffer (abs s) id a).1 ∧
    (bufferUse s id a).2.map absOut = (Spec.applyBuffer (abs s) id a).2 := by
  unfold bufferUse Spec.applyBuffer Spec.stored
  have hb : (abs s).buffers = s.pool := rfl
  rw [hb]
  by_cases h0 : id = 0
  · simp [h0, abs, absOut]
  · by_cases hlen : id - 1 ≥ s.pool.slots.length
    · have hnone : s.pool.slots[id - 1]? = none := List.getElem?_eq_none (by omega)
      have hnlt : ¬ id - 1 < s.pool.slots.length := by omega
      simp [h0, hlen, hnone, hnlt, abs, absOut]
    · have hlt : id - 1 < s.pool.slots.length := by omega
      have hget : s.pool.slots[id - 1]? = some (s.pool.slots[id - 1]) := List.getElem?_eq_getElem hlt
      have hcond : id ≠ 0 ∧ id - 1 < s.pool.slots.length := ⟨h0, hlt⟩
      have hor : ¬ (id = 0 ∨ id - 1 ≥ s.pool.slots.length) := by omega
      rw [if_neg hor, List.getD_eq_getElem?_getD, hget]
      simp only [if_neg h0, Option.join, Option.getD_some]
      cases hs : s.pool.slots[id - 1] with
      | none => simp [hs, hcond, abs, absOut]
      | some f =>
        obtain ⟨c1, c2⟩ := ctlSend_abs s.pool f (toController a)
        simp [hs, abs, absOut, ctlCount_eq, c1, c2]

theorem flowModHandler_refines (s : State) (fm : FlowModMsg) (hi : Inv s) (hm : MsgOk s.cfg fm) :
    abs (flowModHandler s fm).1 = (Spec.command (abs s) fm).1 ∧
    (flowModHandler s fm).2.map absOut = (Spec.command (abs s) fm).2 := by
  cases hc : fm.cmd
  · simp only [flowModHandler, Spec.command, hc]
    exact flowModAdd_refines s fm hi hm (addBase_abs_add s fm hi hm hc)
  · simp only [flowModHandler, Spec.command, hc]
    exact flowModModify_refines s fm false hi hm (by rw [hc]; intro h; cases h)
  · simp only [flowModHandler, Spec.command, hc]
    exact flowModModify_refines s fm true hi hm (by rw [hc]; intro h; cases h)
  · simp only [flowModHandler, Spec.command, hc]
    exact flowModDelete_refines s fm false hi hm
  · simp only [flowModHandler, Spec.command, hc]
    exact flowModDelete_refines s fm true hi hm
  · simp only [flowModHandler, Spec.command, hc]
    exact ⟨rfl, rfl⟩

theorem flowModStep_refines (s : State) (fm : FlowModMsg) (hi : Inv s) (hm : MsgOk s.cfg fm) :
    abs (flowModStep s fm).1 = (Spec.flowMod (abs s) fm).1 ∧ (flowModStep s fm).2.map absOut = (Spec.flowMod (abs s) fm).2 := by
  obtain ⟨h1, h2⟩ := flowModHandler_refines s fm hi hm
  unfold flowModStep Spec.flowMod bufferTail
  cases hb : fm.bufferId with
  | none =>
    cases hc : fm.cmd <;> simp only [List.append_nil] <;> exact ⟨h1, h2⟩
  | some id =>
    obtain ⟨b1, b2⟩ := bufferUse_refines (flowModHandler s fm).1 id fm.actions
    cases hc : fm.cmd <;> simp only [List.append_nil, List.map_append] <;>
      first
        | exact ⟨h1, h2⟩
        | (rw [h1] at b1 b2; exact ⟨b1, by rw [h2, b2]⟩)

/-! ## one step, the invariant, histories -/

theorem step_refines (s : State) (op : Op) (hi : Inv s) (ho : OpOk s op) :
    abs (step s op).1 = (Spec.step (abs s) op).1 ∧ (step s op).2.map absOut = (Spec.step (abs s) op).2 := by
  cases op with
  | flowMod fm => exact flowModStep_refines s fm hi ho
  | packet p port len =>
    exact packetStep_refines s p port len hi ho.1 ho.2
  | advance dt => exact ⟨rfl, rfl⟩
  | sweep => exact sweep_refines s hi
  | flowStats m outPort =>
    have h : StatsOk s.cfg m := ho
    refine ⟨rfl, ?_⟩
    simp only [step, Spec.step, List.map_cons, List.map_nil, absOut, ← statsEntries_abs s m outPort hi h, List.map_map]
    congr 1
  | aggStats m outPort =>
    have h : StatsOk s.cfg m := ho
    refine ⟨rfl, ?_⟩
    simp only [step, Spec.step, List.map_cons, List.map_nil, absOut, ← statsEntries_abs s m outPort hi h, List.map_map,
      List.length_map]
    congr 1

theorem length_modifyFirst {α : Type} (p : α → Bool) (f : α → α) (l : List α) : (modifyFirst p f l).length = l.length := by
  induction l with
  | nil => rfl
  | cons x r ih => simp only [modifyFirst]; split <;> simp [ih]

theorem flowModAdd_bounded (s : State) (fm : FlowModMsg) (h : s.table.length ≤ s.maxEntries) :
    (flowModAdd s fm).1.table.length ≤ (flowModAdd s fm).1.maxEntries := by
  have hb : (addBase s fm).length ≤ s.table.length := (addBase_sublist s fm).length_le
  unfold flowModAdd flowModFailed
  split
  · exact h
  · split
    · exact h
    · split
      · exact Nat.le_trans hb h
      · have := (addEntryBy_perm s.cfg.key (mkEntry s.cfg s.now fm) (addBase s fm)).length_eq
        simp only [List.length_cons] at this
        simp only [this]
        omega

theorem flowModModify_bounded (s : State) (fm : FlowModMsg) (strict : Bool) (h : s.table.length ≤ s.maxEntries) :
    (flowModModify s fm strict).1.table.length ≤ (flowModModify s fm strict).1.maxEntries := by
  unfold flowModModify
  simp only
  split
  · simpa using h
  · exact flowModAdd_bounded s fm h

theorem flowModHandler_bounded (s : State) (fm : FlowModMsg) (h : s.table.length ≤ s.maxEntries) :
    (flowModHandler s fm).1.table.length ≤ (flowModHandler s fm).1.maxEntries := by
  unfold flowModHandler
  split
  · exact flowModAdd_bounded s fm h
  · exact flowModModify_bounded s fm false h
  · exact flowModModify_bounded s fm true h
  · exact Nat.le_trans (List.length_filter_le _ _) h
  · exact Nat.le_trans (List.length_filter_le _ _) h
  · exact h

theorem step_bounded (s : State) (op : Op) (h : s.table.length ≤ s.maxEntries) :
    (step s op).1.table.length ≤ (step s op).1.maxEntries := by
  cases op with
  | flowMod fm =>
    show (flowModStep s fm).1.table.length ≤ (flowModStep s fm).1.maxEntries
    rw [flowModStep_table, flowModStep_maxEntries]
    exact flowModHandler_bounded s fm h
  | packet p port len =>
    simp only [step, packetStep]
    split
    · simpa [length_modifyFirst] using h
    · exact h
  | advance dt => exact h
  | sweep => exact Nat.le_trans (List.length_filter_le _ _) h
  | flowStats m o => exact h
  | aggStats m o => exact h

theorem entryOk_of_kept (s : State) (e' : FEntry) (hk : Kept s e') (hok : ∀ e ∈ s.table, EntryOk s.cfg e) : EntryOk s.cfg e' := by
  obtain ⟨e, he, hm, hp, _, _, _, _, _, _, hf, _, hw⟩ := hk
  have := hok e he
  exact ⟨by rw [hm, hw]; exact this.wf, by rw [hw]; exact this.mok, by rw [hp]; exact this.prio, by rw [hf]; exact this.noEmerg⟩

theorem step_inv (s : State) (op : Op) (hi : Inv s) (ho : OpOk s op) : Inv (step s op).1 := by
  refine ⟨by rw [step_cfg]; exact step_sorted s op hi.sorted, ?_, step_bounded s op hi.bounded⟩
  rw [step_cfg]
  intro e' he'
  rcases step_clocks s op e' he' with hk | ⟨p, port, len, rfl, e, he, _, rfl⟩ | ⟨fm, rfl, rfl, hE⟩
  · exact entryOk_of_kept s e' hk hi.ok
  · have := hi.ok e he
    exact ⟨this.wf, this.mok, this.prio, this.noEmerg⟩
  · exact mkEntry_ok s.cfg s.now fm ho hE

/-- every event of the history satisfies its hypotheses in the state it is applied to -/
def HistOk (s : State) : List Op → Prop
  | [] => True
  | op :: ops => OpOk s op ∧ HistOk (step s op).1 ops

theorem run_refines (s : State) (ops : List Op) (hi : Inv s) (h : HistOk s ops) :
    abs (run s ops).1 = (Spec.run (abs s) ops).1 ∧
    (run s ops).2.map (fun os => os.map absOut) = (Spec.run (abs s) ops).2 ∧ Inv (run s ops).1 := by
  induction ops generalizing s with
  | nil => exact ⟨rfl, rfl, hi⟩
  | cons op ops ih =>
    obtain ⟨ho, hrest⟩ := h
    obtain ⟨r1, r2⟩ := step_refines s op hi ho
    obtain ⟨i1, i2, i3⟩ := ih (step s op).1 (step_inv s op hi ho) hrest
    simp only [run, Spec.run, List.map_cons]
    rw [← r1, ← r2]
    exact ⟨i1, by rw [i2], i3⟩

/-! ## the match a message carries -/

/-- the 40 bytes of match a flow-removed / flow-stats message carries (`match.pack()`) denote exactly the packets of the flow the
    message is about (the transmitted match the entry was created from) -/
def FaithfulOut : Out → Prop
  | .flowRemoved m => ∀ h : Headers, matchHdr m.packed h = matchHdr m.wire h
  | .flowStats l => ∀ f ∈ l, ∀ h : Headers, matchHdr f.packed h = matchHdr f.wire h
  | _ => True

/-- `pack()` of the match object of an installed flow is, for the standard, the transmitted match -/
theorem packed_faithful {cfg : Cfg} (e : FEntry) (he : EntryOk cfg e) (h : Headers) :
    matchHdr (packPlain e.mtch) h = matchHdr e.data.wire h := by
  rw [he.wf, (rx_same cfg e.data.wire).packPlain, packPlain_matchHdr _ (prereq_eff0 he.mok.prereq), matchHdr_eff0]

theorem step_outs_faithful (s : State) (op : Op) (hi : Inv s) : ∀ o ∈ (step s op).2, FaithfulOut o := by
  intro o ho
  have := step_outs_table s op o ho
  cases o with
  | flowRemoved m =>
    obtain ⟨e, he, r, rfl⟩ := this
    exact fun h => packed_faithful e (hi.ok e he) h
  | flowStats l =>
    intro f hf h
    obtain ⟨e, he, rfl⟩ := this f hf
    exact packed_faithful e (hi.ok e he) h
  | error t c => trivial
  | packetIn a b c => trivial
  | release a b c => trivial
  | aggStats a b c => trivial

theorem run_outs_faithful (s : State) (ops : List Op) (hi : Inv s) (h : HistOk s ops) :
    ∀ os ∈ (run s ops).2, ∀ o ∈ os, FaithfulOut o := by
  induction ops generalizing s with
  | nil => intro os hos; simp [run] at hos
  | cons op ops ih =>
    obtain ⟨ho, hrest⟩ := h
    intro os hos
    simp only [run, List.mem_cons] at hos
    rcases hos with rfl | hos
    · exact step_outs_faithful s op hi
    · exact ih _ (step_inv s op hi ho) hrest os hos

/-! ## at most one entry per (match, priority) -/

/-- the key the strict commands and ADD's replacement compare: `is_matched_by(strict=True)` without the port filter -/
def sameKey (cfg : Cfg) (a b : FEntry) : Bool := strictMatch cfg a.mtch b.mtch && a.priority == b.priority

/-- no two entries of the table are the same flow for the strict test (equal / mutually encompassing match, equal priority) -/
def Uniq (cfg : Cfg) (t : Table EData) : Prop := t.Pairwise (fun a b => sameKey cfg a b = false)

theorem strictMatch_comm (cfg : Cfg) (a b : OfMatch) : strictMatch cfg a b = strictMatch cfg b a := by
  unfold strictMatch
  cases cfg.strictMutual
  · simp only [Bool.false_eq_true, if_false]; exact eqMatch_comm a b
  · simp only [if_true]; exact Bool.and_comm _ _

theorem sameKey_symm {cfg : Cfg} {a b : FEntry} (h : sameKey cfg a b = false) : sameKey cfg b a = false := by
  unfold sameKey at *
  rw [strictMatch_comm, show (b.priority == a.priority) = (a.priority == b.priority) from by
    rw [Bool.eq_iff_iff]; simp only [beq_iff_eq]; exact eq_comm]
  exact h

theorem uniq_of_keys {cfg : Cfg} {t t' : Table EData}
    (h : t'.map (fun e => (e.mtch, e.priority)) = t.map (fun e => (e.mtch, e.priority))) (hu : Uniq cfg t) : Uniq cfg t' := by
  have key : ∀ l : Table EData, Uniq cfg l ↔ (l.map (fun e => (e.mtch, e.priority))).Pairwise
      (fun x y => (strictMatch cfg x.1 y.1 && x.2 == y.2) = false) := by
    intro l; unfold Uniq sameKey; rw [List.pairwise_map]
  rw [key] at hu ⊢
  rw [h]; exact hu

theorem keys_map (f : FEntry → FEntry) (hf : ∀ e, (f e).mtch = e.mtch ∧ (f e).priority = e.priority) (t : Table EData) :
    (t.map f).map (fun e => (e.mtch, e.priority)) = t.map (fun e => (e.mtch, e.priority)) := by
  rw [List.map_map]
  apply List.map_congr_left
  intro e _
  simp [Function.comp, (hf e).1, (hf e).2]

theorem keys_modifyFirst (p : FEntry → Bool) (f : FEntry → FEntry) (hf : ∀ e, (f e).mtch = e.mtch ∧ (f e).priority = e.priority)
    (t : Table EData) : (modifyFirst p f t).map (fun e => (e.mtch, e.priority)) = t.map (fun e => (e.mtch, e.priority)) := by
  induction t with
  | nil => rfl
  | cons x r ih =>
    simp only [modifyFirst]
    split
    · simp [(hf x).1, (hf x).2]
    · simp [ih]

theorem flowModAdd_uniq (s : State) (fm : FlowModMsg) (hu : Uniq s.cfg s.table)
    (hnew : ∀ e ∈ addBase s fm, sameKey s.cfg (mkEntry s.cfg s.now fm) e = false) : Uniq s.cfg (flowModAdd s fm).1.table := by
  have hb : Uniq s.cfg (addBase s fm) := hu.sublist (addBase_sublist s fm)
  unfold flowModAdd flowModFailed
  split
  · exact hu
  · split
    · exact hu
    · split
      · exact hb
      · show Uniq s.cfg (addEntryBy s.cfg.key (mkEntry s.cfg s.now fm) (addBase s fm))
        unfold Uniq
        rw [(addEntryBy_perm s.cfg.key (mkEntry s.cfg s.now fm) (addBase s fm)).pairwise_iff (fun h => sameKey_symm h)]
        exact List.pairwise_cons.mpr ⟨hnew, hb⟩

theorem addBase_fresh_add (s : State) (fm : FlowModMsg) (hc : fm.cmd = .add) :
    ∀ e ∈ addBase s fm, sameKey s.cfg (mkEntry s.cfg s.now fm) e = false := by
  intro e he
  unfold addBase at he
  simp only [hc, List.mem_filter, Bool.not_eq_true', isMatchedBy, if_true, Bool.true_and] at he
  apply sameKey_symm
  exact he.2

theorem eqMatch_dscp (cfg : Cfg) {a b : OfMatch} (h : eqMatch a b = true) : eqMatch (dscp cfg a) (dscp cfg b) = true := by
  rw [dscp_eq, dscp_eq]
  cases cfg.tosDscp
  · exact h
  · simp only [if_true]
    obtain ⟨hw, hv, hs, hd⟩ := eqMatch_parts h
    have hwild : ∀ f, a.wild f = b.wild f := fun f => by simp [OfMatch.wild, hw]
    apply eqMatch_of_parts (a := dscpA a) (b := dscpA b) hw
    · intro f
      have := hv f
      unfold OfMatch.view at this ⊢
      have e1 : (dscpA a).wild f = a.wild f := rfl
      have e2 : (dscpA b).wild f = b.wild f := rfl
      rw [e1, e2, ← hwild f] at *
      cases hq : a.wild f
      · simp only [hq, Bool.false_eq_true, if_false, Option.some.injEq] at this ⊢
        cases f <;> first | exact this | (show a.nwTos / 4 * 4 = b.nwTos / 4 * 4; rw [show a.nwTos = b.nwTos from this])
      · simp
    · exact hs
    · exact hd

/-- both tests of `strictMatch` hold only if the non-strict test holds -/
theorem matchesWith_of_strict (cfg : Cfg) (entry m : OfMatch) (h : strictMatch cfg entry m = true) : matchW cfg true m entry = true := by
  unfold strictMatch at h
  cases hs : cfg.strictMutual
  · simp only [hs, Bool.false_eq_true, if_false] at h
    exact matchesWith_of_eqMatch true (eqMatch_dscp cfg (eqMatch_symm h))
  · simp only [hs, if_true, Bool.and_eq_true] at h
    exact h.1

theorem flowModModify_uniq (s : State) (fm : FlowModMsg) (strict : Bool) (hc : fm.cmd ≠ .add) (hu : Uniq s.cfg s.table) :
    Uniq s.cfg (flowModModify s fm strict).1.table := by
  unfold flowModModify
  simp only
  split
  · apply uniq_of_keys _ hu
    apply keys_map
    intro e
    split <;> exact ⟨rfl, rfl⟩
  · rename_i hnone
    apply flowModAdd_uniq s fm hu
    have hb : addBase s fm = s.table := by
      unfold addBase
      split
      · exact absurd ‹fm.cmd = Cmd.add› hc
      · rfl
    rw [hb]
    intro e he
    have hn : isMatchedBy s.cfg e (rxMatch s.cfg fm.mtch) fm.priority strict none = false := by
      have := List.any_eq_false.mp (by simpa using hnone) e he
      simpa using this
    apply sameKey_symm
    unfold sameKey
    unfold isMatchedBy at hn
    cases strict
    · simp only [Bool.false_eq_true, if_false, Bool.true_and] at hn
      have : strictMatch s.cfg e.mtch (rxMatch s.cfg fm.mtch) = false := by
        cases hq : strictMatch s.cfg e.mtch (rxMatch s.cfg fm.mtch)
        · rfl
        · rw [matchesWith_of_strict _ _ _ hq] at hn; cases hn
      show (strictMatch s.cfg e.mtch (rxMatch s.cfg fm.mtch) && e.priority == fm.priority) = false
      simp [this]
    · simp only [if_true, Bool.true_and] at hn
      exact hn

theorem flowModHandler_uniq (s : State) (fm : FlowModMsg) (hu : Uniq s.cfg s.table) : Uniq s.cfg (flowModHandler s fm).1.table := by
  cases hc : fm.cmd
  · simp only [flowModHandler, hc]
    exact flowModAdd_uniq s fm hu (addBase_fresh_add s fm hc)
  · simp only [flowModHandler, hc]
    exact flowModModify_uniq s fm false (by rw [hc]; intro h; cases h) hu
  · simp only [flowModHandler, hc]
    exact flowModModify_uniq s fm true (by rw [hc]; intro h; cases h) hu
  · simp only [flowModHandler, hc]
    exact hu.sublist List.filter_sublist
  · simp only [flowModHandler, hc]
    exact hu.sublist List.filter_sublist
  · simp only [flowModHandler, hc]
    exact hu

theorem step_uniq (s : State) (op : Op) (hu : Uniq s.cfg s.table) : Uniq (step s op).1.cfg (step s op).1.table := by
  rw [step_cfg]
  cases op with
  | flowMod fm =>
    show Uniq s.cfg (flowModStep s fm).1.table
    rw [flowModStep_table]
    exact flowModHandler_uniq s fm hu
  | packet p port len =>
    simp only [step, packetStep]
    split
    · exact uniq_of_keys (keys_modifyFirst _ (touch len s.now) (fun e => ⟨rfl, rfl⟩) _) hu
    · exact hu
  | advance dt => exact hu
  | sweep => exact hu.sublist List.filter_sublist
  | flowStats m o => exact hu
  | aggStats m o => exact hu

theorem run_uniq (s : State) (ops : List Op) (hu : Uniq s.cfg s.table) : Uniq (run s ops).1.cfg (run s ops).1.table := by
  induction ops generalizing s with
  | nil => exact hu
  | cons op ops ih => exact ih _ (step_uniq s op hu)

/-! ## the hypotheses are decidable (used for the concrete witnesses and non-vacuity examples) -/

instance (r : OfMatch) : Decidable (PrereqExact r) := by unfold PrereqExact; exact inferInstance

theorem wireOk_iff (cfg : Cfg) (r : OfMatch) : WireOk cfg r ↔
    ((cfg.mv.prereqExact = false → PrereqExact r) ∧
     (cfg.tosDscp = false ∨ cfg.strictMutual = false → Spec.significant r Spec.W_NW_TOS = true → r.nwTos % 4 = 0) ∧
     (cfg.mv.exactSig = false → Spec.exactSig r = true → Spec.exact r = true ∧ r.dlType = 0x0800 ∧ isL4Proto r.nwProto = true) ∧
     (cfg.maskUndefined = false → r.wildcards < 2 ^ 22) ∧
     (cfg.strictMutual = false → Spec.srcIgn r < 32 → r.nwSrc % 2 ^ Spec.srcIgn r = 0) ∧
     (cfg.strictMutual = false → Spec.dstIgn r < 32 → r.nwDst % 2 ^ Spec.dstIgn r = 0)) :=
  ⟨fun h => ⟨h.prereq, h.tos, h.exactL4, h.width, h.hostSrc, h.hostDst⟩, fun ⟨a, b, c, d, e, f⟩ => ⟨a, b, c, d, e, f⟩⟩

instance (cfg : Cfg) (r : OfMatch) : Decidable (WireOk cfg r) := decidable_of_iff _ (wireOk_iff cfg r).symm

theorem statsOk_iff (cfg : Cfg) (m : OfMatch) : StatsOk cfg m ↔
    ((cfg.mv.prereqExact = false → PrereqExact m) ∧
     (cfg.tosDscp = false → Spec.significant m Spec.W_NW_TOS = true → m.nwTos % 4 = 0) ∧
     (cfg.statsUnwire = false → ofWirePlain m = cfg.mv.ofWire m)) :=
  ⟨fun h => ⟨h.prereq, h.tos, h.canon⟩, fun ⟨a, b, c⟩ => ⟨a, b, c⟩⟩

instance (cfg : Cfg) (m : OfMatch) : Decidable (StatsOk cfg m) := decidable_of_iff _ (statsOk_iff cfg m).symm

theorem msgOk_iff (cfg : Cfg) (fm : FlowModMsg) : MsgOk cfg fm ↔ (WireOk cfg fm.mtch ∧ fm.priority ≤ 0xffff ∧ actsOk fm.actions = true) :=
  ⟨fun h => ⟨h.mok, h.prio, h.acts⟩, fun ⟨a, b, c⟩ => ⟨a, b, c⟩⟩

instance (cfg : Cfg) (fm : FlowModMsg) : Decidable (MsgOk cfg fm) := decidable_of_iff _ (msgOk_iff cfg fm).symm

instance (s : State) : (op : Op) → Decidable (OpOk s op)
  | .flowMod fm => inferInstanceAs (Decidable (MsgOk s.cfg fm))
  | .packet p _ _ => inferInstanceAs (Decidable (s.cfg.mv.regular p = true ∧
      (s.cfg.tosDscp = true ∨ pktTos p % 4 = 0 ∨ ∀ e ∈ s.table, Spec.significant e.data.wire Spec.W_NW_TOS = false)))
  | .flowStats m _ => inferInstanceAs (Decidable (StatsOk s.cfg m))
  | .aggStats m _ => inferInstanceAs (Decidable (StatsOk s.cfg m))
  | .advance _ => isTrue trivial
  | .sweep => isTrue trivial

instance instDecidableHistOk : (s : State) → (ops : List Op) → Decidable (HistOk s ops)
  | _, [] => isTrue trivial
  | s, op :: ops =>
    have := instDecidableHistOk (step s op).1 ops
    inferInstanceAs (Decidable (OpOk s op ∧ HistOk (step s op).1 ops))

end Pox.FlowMod
