import PoxModel.Model.FlowMod
import PoxModel.Proofs.FlowTable
/-! Facts about the flow-mod state machine (`Model/FlowMod.lean`) that do not involve the specification: the table stays sorted,
what leaves the table and which messages that produces, what the clocks do.  Core only. -/
namespace Pox.FlowMod
open Pox.OF Pox.OF.OfMatch

/-! ## sortedness -/

/-- the table is sorted by descending effective priority of the code variant `cfg` -/
abbrev SortedC (cfg : Cfg) (t : Table EData) : Prop := SortedBy cfg.key t

theorem sorted_of_map_eq {cfg : Cfg} {t t' : Table EData} (h : t'.map cfg.key = t.map cfg.key)
    (hs : SortedC cfg t) : SortedC cfg t' := by
  unfold SortedC at *
  rw [sortedBy_iff_desc] at hs ⊢
  rw [h]; exact hs

theorem sorted_filter {cfg : Cfg} (p : FEntry → Bool) {t : Table EData} (hs : SortedC cfg t) : SortedC cfg (t.filter p) :=
  List.Pairwise.sublist List.filter_sublist hs

theorem map_eff_map (cfg : Cfg) (f : FEntry → FEntry) (hf : ∀ e, cfg.key (f e) = cfg.key e) (t : Table EData) :
    (t.map f).map cfg.key = t.map cfg.key := by
  rw [List.map_map]
  apply List.map_congr_left
  intro e _
  exact hf e

theorem map_eff_modifyFirst (cfg : Cfg) (p : FEntry → Bool) (f : FEntry → FEntry) (hf : ∀ e, cfg.key (f e) = cfg.key e)
    (t : Table EData) : (modifyFirst p f t).map cfg.key = t.map cfg.key := by
  induction t with
  | nil => rfl
  | cons x r ih =>
    simp only [modifyFirst]
    split
    · simp [hf x]
    · simp [ih]

theorem touch_eff (cfg : Cfg) (len now : Nat) (e : FEntry) : cfg.key (touch len now e) = cfg.key e := rfl

theorem setActions_eff (cfg : Cfg) (e : FEntry) (a : List Action) :
    cfg.key ({ e with data := { e.data with actions := a } } : FEntry) = cfg.key e := rfl

theorem addBase_sublist (s : State) (fm : FlowModMsg) : (addBase s fm).Sublist s.table := by
  unfold addBase
  split
  · exact List.filter_sublist
  · exact List.Sublist.refl _

theorem addBase_sorted (s : State) (fm : FlowModMsg) (hs : SortedC s.cfg s.table) : SortedC s.cfg (addBase s fm) :=
  List.Pairwise.sublist (addBase_sublist s fm) hs

theorem flowModAdd_sorted (s : State) (fm : FlowModMsg) (hs : SortedC s.cfg s.table) : SortedC s.cfg (flowModAdd s fm).1.table := by
  unfold flowModAdd flowModFailed
  split
  · exact hs
  · split
    · exact hs
    · split
      · exact addBase_sorted s fm hs
      · exact addEntryBy_sorted _ _ _ (addBase_sorted s fm hs)

theorem flowModModify_sorted (s : State) (fm : FlowModMsg) (strict : Bool) (hs : SortedC s.cfg s.table) :
    SortedC s.cfg (flowModModify s fm strict).1.table := by
  unfold flowModModify
  simp only
  split
  · apply sorted_of_map_eq _ hs
    apply map_eff_map s.cfg
    intro e
    split
    · rfl
    · rfl
  · exact flowModAdd_sorted s fm hs

theorem flowModDelete_sorted (s : State) (fm : FlowModMsg) (strict : Bool) (hs : SortedC s.cfg s.table) :
    SortedC s.cfg (flowModDelete s fm strict).1.table := sorted_filter _ hs

/-! ### the buffer tail of `_rx_flow_mod` touches only the pool -/

theorem bufferUse_frame (s : State) (id : Nat) (a : List Action) :
    (bufferUse s id a).1.table = s.table ∧ (bufferUse s id a).1.now = s.now ∧ (bufferUse s id a).1.maxEntries = s.maxEntries ∧
    (bufferUse s id a).1.cfg = s.cfg := by
  unfold bufferUse
  split
  · exact ⟨rfl, rfl, rfl, rfl⟩
  · split <;> exact ⟨rfl, rfl, rfl, rfl⟩

theorem bufferTail_frame (s : State) (fm : FlowModMsg) :
    (bufferTail s fm).1.table = s.table ∧ (bufferTail s fm).1.now = s.now ∧ (bufferTail s fm).1.maxEntries = s.maxEntries ∧
    (bufferTail s fm).1.cfg = s.cfg := by
  unfold bufferTail
  split
  · exact ⟨rfl, rfl, rfl, rfl⟩
  · exact ⟨rfl, rfl, rfl, rfl⟩
  · exact bufferUse_frame s _ _

theorem flowModStep_table (s : State) (fm : FlowModMsg) : (flowModStep s fm).1.table = (flowModHandler s fm).1.table :=
  (bufferTail_frame _ fm).1
theorem flowModStep_now (s : State) (fm : FlowModMsg) : (flowModStep s fm).1.now = (flowModHandler s fm).1.now :=
  (bufferTail_frame _ fm).2.1
theorem flowModStep_maxEntries (s : State) (fm : FlowModMsg) :
    (flowModStep s fm).1.maxEntries = (flowModHandler s fm).1.maxEntries := (bufferTail_frame _ fm).2.2.1
theorem flowModStep_cfg (s : State) (fm : FlowModMsg) : (flowModStep s fm).1.cfg = (flowModHandler s fm).1.cfg :=
  (bufferTail_frame _ fm).2.2.2

theorem flowModHandler_sorted (s : State) (fm : FlowModMsg) (hs : SortedC s.cfg s.table) :
    SortedC s.cfg (flowModHandler s fm).1.table := by
  unfold flowModHandler
  split
  · exact flowModAdd_sorted s fm hs
  · exact flowModModify_sorted s fm false hs
  · exact flowModModify_sorted s fm true hs
  · exact flowModDelete_sorted s fm false hs
  · exact flowModDelete_sorted s fm true hs
  · exact hs

theorem step_sorted (s : State) (op : Op) (hs : SortedC s.cfg s.table) : SortedC s.cfg (step s op).1.table := by
  cases op with
  | flowMod fm =>
    show SortedC s.cfg (flowModStep s fm).1.table
    rw [flowModStep_table]
    exact flowModHandler_sorted s fm hs
  | packet p inPort len =>
    simp only [step, packetStep]
    split
    · exact sorted_of_map_eq (map_eff_modifyFirst s.cfg _ _ (touch_eff s.cfg len s.now) _) hs
    · exact hs
  | advance dt => exact hs
  | sweep => exact sorted_filter _ hs
  | flowStats m o => exact hs
  | aggStats m o => exact hs

/-- the state after each prefix of a history -/
theorem run_append (s : State) (ops ops' : List Op) : (run s (ops ++ ops')).1 = (run (run s ops).1 ops').1 := by
  induction ops generalizing s with
  | nil => rfl
  | cons op ops ih => simp only [List.cons_append, run]; exact ih _

/-! ## the overlap scan on a sorted table -/

theorem overlapScan_sorted (cfg : Cfg) (prio : Nat) (m : OfMatch) (t : Table EData) (hs : SortedC cfg t) :
    overlapScan cfg prio m t =
      t.any (fun e => cfg.key e == prio && overlapsWith (dscp cfg e.mtch) (dscp cfg m)) := by
  induction t with
  | nil => rfl
  | cons e r ih =>
    have hs' := List.pairwise_cons.mp hs
    simp only [overlapScan, List.any_cons]
    by_cases h1 : cfg.key e < prio
    · have hne : (cfg.key e == prio) = false := by simp; omega
      simp only [h1, if_true, hne, Bool.false_and, Bool.false_or]
      symm
      rw [List.any_eq_false]
      intro x hx
      have := hs'.1 x hx
      have hne' : (cfg.key x == prio) = false := by simp; omega
      simp [hne']
    · by_cases h2 : cfg.key e > prio
      · have hne : (cfg.key e == prio) = false := by simp; omega
        simp only [h1, if_false, h2, if_true, hne, Bool.false_and, Bool.false_or]
        exact ih hs'.2
      · have heq : (cfg.key e == prio) = true := by simp; omega
        simp only [h1, if_false, h2, heq, Bool.true_and]
        cases hc : overlapsWith (dscp cfg e.mtch) (dscp cfg m)
        · simp [ih hs'.2]
        · simp

/-! ## messages -/

def isRemoved : Out → Bool
  | .flowRemoved _ => true
  | _ => false

theorem notify_all_removed (now reason : Nat) (es : List FEntry) : ∀ o ∈ notify now reason es, isRemoved o = true := by
  intro o ho
  simp only [notify, List.mem_map] at ho
  obtain ⟨e, _, rfl⟩ := ho
  rfl

theorem filter_isRemoved_notify (now reason : Nat) (es : List FEntry) :
    (notify now reason es).filter isRemoved = notify now reason es :=
  List.filter_eq_self.mpr (notify_all_removed now reason es)

theorem flowModAdd_no_removed (s : State) (fm : FlowModMsg) : (flowModAdd s fm).2.filter isRemoved = [] := by
  unfold flowModAdd flowModFailed
  split
  · rfl
  · split
    · rfl
    · split <;> rfl

theorem flowModModify_no_removed (s : State) (fm : FlowModMsg) (strict : Bool) :
    (flowModModify s fm strict).2.filter isRemoved = [] := by
  unfold flowModModify
  simp only
  split
  · rfl
  · exact flowModAdd_no_removed s fm

/-! ## partition of a table by a predicate -/

theorem filter_perm_split {α : Type} (p : α → Bool) (l : List α) :
    l.Perm (l.filter (fun x => !p x) ++ l.filter p) := by
  induction l with
  | nil => simp
  | cons x r ih =>
    cases hp : p x
    · simp only [List.filter_cons, hp, Bool.not_false, if_true, Bool.false_eq_true, if_false, List.cons_append]
      exact ih.cons x
    · simp only [List.filter_cons, hp, Bool.not_true, Bool.false_eq_true, if_false, if_true]
      exact (ih.cons x).trans List.perm_middle.symm

/-! ## clocks -/

/-- `created ≤ last_touched ≤ now` for every entry -/
def ClockOk (s : State) : Prop := ∀ e ∈ s.table, e.data.created ≤ e.data.touched ∧ e.data.touched ≤ s.now

theorem mem_modifyFirst {α : Type} (p : α → Bool) (f : α → α) (l : List α) (y : α) (hy : y ∈ modifyFirst p f l) :
    y ∈ l ∨ ∃ x ∈ l, p x = true ∧ y = f x := by
  induction l with
  | nil => simp [modifyFirst] at hy
  | cons x r ih =>
    simp only [modifyFirst] at hy
    split at hy
    · rcases List.mem_cons.mp hy with rfl | h
      · exact .inr ⟨x, by simp, by assumption, rfl⟩
      · exact .inl (by simp [h])
    · rcases List.mem_cons.mp hy with rfl | h
      · exact .inl (by simp)
      · rcases ih h with h' | ⟨z, hz, hp, rfl⟩
        · exact .inl (by simp [h'])
        · exact .inr ⟨z, by simp [hz], hp, rfl⟩

theorem flowModAdd_mem (s : State) (fm : FlowModMsg) (e : FEntry) (he : e ∈ (flowModAdd s fm).1.table) :
    e ∈ s.table ∨ (e = mkEntry s.cfg s.now fm ∧ fm.flags.testBit FF_EMERG = false) := by
  unfold flowModAdd flowModFailed at he
  split at he
  · exact .inl he
  · split at he
    · exact .inl he
    · split at he
      · exact .inl ((addBase_sublist s fm).subset he)
      · rcases (mem_addEntryBy _ _ _ _).mp he with rfl | h
        · exact .inr ⟨rfl, by simpa using ‹¬ fm.flags.testBit FF_EMERG = true›⟩
        · exact .inl ((addBase_sublist s fm).subset h)

/-- `e'` is an entry of `s.table` with the same match, priority, clocks, counters and timeouts (actions may differ) -/
def Kept (s : State) (e' : FEntry) : Prop :=
  ∃ e ∈ s.table, e'.mtch = e.mtch ∧ e'.priority = e.priority ∧ e'.data.created = e.data.created ∧
    e'.data.touched = e.data.touched ∧ e'.data.packets = e.data.packets ∧ e'.data.bytes = e.data.bytes ∧
    e'.data.idle = e.data.idle ∧ e'.data.hard = e.data.hard ∧ e'.data.flags = e.data.flags ∧ e'.data.cookie = e.data.cookie ∧
    e'.data.wire = e.data.wire

theorem kept_of_mem (s : State) (e : FEntry) (he : e ∈ s.table) : Kept s e :=
  ⟨e, he, rfl, rfl, rfl, rfl, rfl, rfl, rfl, rfl, rfl, rfl, rfl⟩

theorem flowModAdd_clocks (s : State) (fm : FlowModMsg) (e' : FEntry) (h : e' ∈ (flowModAdd s fm).1.table) :
    Kept s e' ∨ (e' = mkEntry s.cfg s.now fm ∧ fm.flags.testBit FF_EMERG = false) :=
  (flowModAdd_mem s fm e' h).elim (fun h => .inl (kept_of_mem s _ h)) .inr

theorem flowModModify_clocks (s : State) (fm : FlowModMsg) (strict : Bool) (e' : FEntry)
    (h : e' ∈ (flowModModify s fm strict).1.table) : Kept s e' ∨ (e' = mkEntry s.cfg s.now fm ∧ fm.flags.testBit FF_EMERG = false) := by
  unfold flowModModify at h
  simp only at h
  split at h
  · obtain ⟨e, he, rfl⟩ := List.mem_map.mp h
    left
    refine ⟨e, he, ?_⟩
    split <;> exact ⟨rfl, rfl, rfl, rfl, rfl, rfl, rfl, rfl, rfl, rfl, rfl⟩
  · exact flowModAdd_clocks s fm e' h

/-- what a step does to the clocks and counters of the entries it keeps: every entry of the new table is an entry of the old
    table with the same match, priority, `created`, `last_touched`, counters, timeouts, flags and cookie (MODIFY may have replaced
    its actions) — or, only for a packet arrival, the one entry that was hit, with `last_touched = now`, one more packet,
    `created` unchanged — or, only for a flow-mod, the entry just created (`created = last_touched = now`, counters zero). -/
theorem step_clocks (s : State) (op : Op) (e' : FEntry) (he' : e' ∈ (step s op).1.table) :
    Kept s e' ∨
    (∃ p inPort len, op = .packet p inPort len ∧ ∃ e ∈ s.table, accepts s.cfg (pktMatch s.cfg p inPort) e = true ∧ e' = touch len s.now e) ∨
    (∃ fm, op = .flowMod fm ∧ e' = mkEntry s.cfg s.now fm ∧ fm.flags.testBit FF_EMERG = false) := by
  cases op with
  | flowMod fm =>
    have fin : Kept s e' ∨ (e' = mkEntry s.cfg s.now fm ∧ fm.flags.testBit FF_EMERG = false) → (Kept s e' ∨
        (∃ p inPort len, Op.flowMod fm = .packet p inPort len ∧
          ∃ e ∈ s.table, accepts s.cfg (pktMatch s.cfg p inPort) e = true ∧ e' = touch len s.now e) ∨
        (∃ fm', Op.flowMod fm = .flowMod fm' ∧ e' = mkEntry s.cfg s.now fm' ∧ fm'.flags.testBit FF_EMERG = false)) :=
      fun h => h.elim Or.inl (fun h => Or.inr (Or.inr ⟨fm, rfl, h⟩))
    have he'' : e' ∈ (flowModHandler s fm).1.table := by rw [← flowModStep_table]; exact he'
    unfold flowModHandler at he''
    split at he''
    · exact fin (flowModAdd_clocks s fm e' he'')
    · exact fin (flowModModify_clocks s fm false e' he'')
    · exact fin (flowModModify_clocks s fm true e' he'')
    · exact .inl (kept_of_mem s _ (List.mem_filter.mp he'').1)
    · exact .inl (kept_of_mem s _ (List.mem_filter.mp he'').1)
    · exact .inl (kept_of_mem s _ he'')
  | packet p inPort len =>
    simp only [step, packetStep] at he'
    split at he'
    · rcases mem_modifyFirst _ _ _ _ he' with h | ⟨x, hx, hp, rfl⟩
      · exact .inl (kept_of_mem s _ h)
      · exact .inr (.inl ⟨p, inPort, len, rfl, x, hx, hp, rfl⟩)
    · exact .inl (kept_of_mem s _ he')
  | advance dt => exact .inl (kept_of_mem s _ he')
  | sweep => exact .inl (kept_of_mem s _ (List.mem_filter.mp he').1)
  | flowStats m o => exact .inl (kept_of_mem s _ he')
  | aggStats m o => exact .inl (kept_of_mem s _ he')

theorem flowModHandler_frame (s : State) (fm : FlowModMsg) :
    (flowModHandler s fm).1.now = s.now ∧ (flowModHandler s fm).1.maxEntries = s.maxEntries ∧ (flowModHandler s fm).1.cfg = s.cfg ∧
    (flowModHandler s fm).1.pool = s.pool := by
  have hadd : (flowModAdd s fm).1.now = s.now ∧ (flowModAdd s fm).1.maxEntries = s.maxEntries ∧ (flowModAdd s fm).1.cfg = s.cfg ∧
      (flowModAdd s fm).1.pool = s.pool := by
    unfold flowModAdd flowModFailed
    split
    · exact ⟨rfl, rfl, rfl, rfl⟩
    · split
      · exact ⟨rfl, rfl, rfl, rfl⟩
      · split <;> exact ⟨rfl, rfl, rfl, rfl⟩
  have hmod : ∀ strict, (flowModModify s fm strict).1.now = s.now ∧ (flowModModify s fm strict).1.maxEntries = s.maxEntries ∧
      (flowModModify s fm strict).1.cfg = s.cfg ∧ (flowModModify s fm strict).1.pool = s.pool := by
    intro strict
    unfold flowModModify
    simp only
    split
    · exact ⟨rfl, rfl, rfl, rfl⟩
    · exact hadd
  unfold flowModHandler
  split
  · exact hadd
  · exact hmod false
  · exact hmod true
  · exact ⟨rfl, rfl, rfl, rfl⟩
  · exact ⟨rfl, rfl, rfl, rfl⟩
  · exact ⟨rfl, rfl, rfl, rfl⟩

theorem step_cfg (s : State) (op : Op) : (step s op).1.cfg = s.cfg := by
  cases op with
  | flowMod fm =>
    show (flowModStep s fm).1.cfg = s.cfg
    rw [flowModStep_cfg]; exact (flowModHandler_frame s fm).2.2.1
  | packet p inPort len =>
    simp only [step, packetStep]
    split <;> rfl
  | advance dt => rfl
  | sweep => rfl
  | flowStats m o => rfl
  | aggStats m o => rfl

theorem run_cfg (s : State) (ops : List Op) : (run s ops).1.cfg = s.cfg := by
  induction ops generalizing s with
  | nil => rfl
  | cons op ops ih => simp only [run]; rw [ih, step_cfg]

theorem run_sorted (s : State) (ops : List Op) (hs : SortedC s.cfg s.table) : SortedC s.cfg (run s ops).1.table := by
  induction ops generalizing s with
  | nil => exact hs
  | cons op ops ih =>
    have := ih (step s op).1 (by rw [step_cfg]; exact step_sorted s op hs)
    rw [step_cfg] at this
    exact this

theorem step_now_le (s : State) (op : Op) : s.now ≤ (step s op).1.now := by
  cases op with
  | flowMod fm =>
    show s.now ≤ (flowModStep s fm).1.now
    rw [flowModStep_now, (flowModHandler_frame s fm).1]
    exact Nat.le_refl _
  | packet p inPort len =>
    simp only [step, packetStep]
    split <;> exact Nat.le_refl _
  | advance dt => exact Nat.le_add_right _ _
  | sweep => exact Nat.le_refl _
  | flowStats m o => exact Nat.le_refl _
  | aggStats m o => exact Nat.le_refl _

theorem step_clockOk (s : State) (op : Op) (h : ClockOk s) : ClockOk (step s op).1 := by
  intro e' he'
  have hn := step_now_le s op
  rcases step_clocks s op e' he' with ⟨e, he, _, _, hc, ht, _⟩ | ⟨p, inPort, len, rfl, e, he, _, rfl⟩ | ⟨fm, rfl, rfl, _⟩
  · have := h e he
    rw [hc, ht]
    exact ⟨this.1, Nat.le_trans this.2 hn⟩
  · have := h e he
    simp only [touch]
    exact ⟨Nat.le_trans this.1 this.2, hn⟩
  · simp only [mkEntry]
    exact ⟨Nat.le_refl _, hn⟩

/-! ## who leaves the table, and what is said about it -/

/-- the flow-removed messages among what a step writes -/
def removals (outs : List Out) : List RemovedMsg :=
  outs.filterMap fun o => match o with
    | .flowRemoved m => some m
    | _ => none

theorem removals_notify (now reason : Nat) (es : List FEntry) :
    removals (notify now reason es) = (es.filter wantsRemoved).map (removedMsg now reason) := by
  unfold removals notify
  rw [List.filterMap_map]
  generalize es.filter wantsRemoved = l
  induction l with
  | nil => rfl
  | cons x r ih => simp [ih]

theorem removals_append (a b : List Out) : removals (a ++ b) = removals a ++ removals b := by
  unfold removals; exact List.filterMap_append

theorem flowModAdd_removals (s : State) (fm : FlowModMsg) : removals (flowModAdd s fm).2 = [] := by
  unfold flowModAdd flowModFailed
  split
  · rfl
  · split
    · rfl
    · split <;> rfl

theorem flowModModify_removals (s : State) (fm : FlowModMsg) (strict : Bool) : removals (flowModModify s fm strict).2 = [] := by
  unfold flowModModify
  simp only
  split
  · rfl
  · exact flowModAdd_removals s fm

theorem ctlSend_removals (pool : BufPool.Pool BFrame) (f : BFrame) (n : Nat) : removals (ctlSend pool f n).2 = [] := by
  induction n generalizing pool with
  | zero => rfl
  | succ n ih => simp only [ctlSend, removals, List.filterMap_cons]; exact ih _

theorem bufferTail_removals (s : State) (fm : FlowModMsg) : removals (bufferTail s fm).2 = [] := by
  unfold bufferTail
  split
  · rfl
  · rfl
  · unfold bufferUse
    split
    · rfl
    · split
      · rfl
      · simp only [removals_append, ctlSend_removals]; rfl

/-- the entries a step removes *with a reason*: an expiry sweep removes the idle-expired entries (reason IDLE_TIMEOUT) and,
    among the others, the hard-expired ones (HARD_TIMEOUT); DELETE / DELETE_STRICT remove the selected entries (DELETE).
    No other step removes an entry for a reason (ADD may *replace* one). -/
def departures (s : State) : Op → List (FEntry × Nat)
  | .sweep =>
    (s.table.filter (idleOut s.now)).map (fun e => (e, OFPRR_IDLE_TIMEOUT)) ++
    (s.table.filter (fun e => !idleOut s.now e && hardOut s.now e)).map (fun e => (e, OFPRR_HARD_TIMEOUT))
  | .flowMod fm =>
    (match fm.cmd with
     | .delete => (s.table.filter (fun e => isMatchedBy s.cfg e (rxMatch s.cfg fm.mtch) fm.priority false (portFilter fm.outPort))).map
                    (fun e => (e, OFPRR_DELETE))
     | .deleteStrict => (s.table.filter (fun e => isMatchedBy s.cfg e (rxMatch s.cfg fm.mtch) fm.priority true (portFilter fm.outPort))).map
                    (fun e => (e, OFPRR_DELETE))
     | _ => [])
  | _ => []

theorem filter_map_pair (l : List FEntry) (r : Nat) :
    ((l.map (fun e => (e, r))).filter (fun d => wantsRemoved d.1)).map (fun d => removedMsg now d.2 d.1) =
      (l.filter wantsRemoved).map (removedMsg now r) := by
  induction l with
  | nil => rfl
  | cons x t ih =>
    simp only [List.map_cons, List.filter_cons]
    split
    · simp [ih]
    · exact ih

/-- every flow-removed message of a step announces one departure that asked for it, with its reason, duration and counters —
    in order, one message per such departure, and nothing else is announced -/
theorem step_removals (s : State) (op : Op) :
    removals (step s op).2 =
      ((departures s op).filter (fun d => wantsRemoved d.1)).map (fun d => removedMsg s.now d.2 d.1) := by
  cases op with
  | flowMod fm =>
    show removals (flowModStep s fm).2 = _
    simp only [flowModStep, removals_append, bufferTail_removals, List.append_nil]
    cases hc : fm.cmd
    · simp only [flowModHandler, departures, hc]
      exact flowModAdd_removals s fm
    · simp only [flowModHandler, departures, hc]
      exact flowModModify_removals s fm false
    · simp only [flowModHandler, departures, hc]
      exact flowModModify_removals s fm true
    · simp only [flowModHandler, departures, hc, flowModDelete, removals_notify, filter_map_pair, portFilter]
    · simp only [flowModHandler, departures, hc, flowModDelete, removals_notify, filter_map_pair, portFilter]
    · simp only [flowModHandler, departures, hc]
      rfl
  | packet p port len =>
    simp only [step, packetStep, departures]
    split
    · exact ctlSend_removals _ _ _
    · rfl
  | advance dt => rfl
  | sweep =>
    simp only [step, sweep, departures, removals_append, removals_notify, List.filter_append, List.map_append, filter_map_pair]
  | flowStats m o => rfl
  | aggStats m o => rfl

/-- the departures are exactly what the step takes out of the table: old table = new table + departed entries (as multisets),
    for the two kinds of step that remove entries for a reason -/
theorem sweep_perm (s : State) : s.table.Perm ((step s .sweep).1.table ++ (departures s .sweep).map (·.1)) := by
  simp only [step, sweep, departures, List.map_append, List.map_map]
  have e1 : ((fun d : FEntry × Nat => d.1) ∘ fun e => (e, OFPRR_IDLE_TIMEOUT)) = id := rfl
  have e2 : ((fun d : FEntry × Nat => d.1) ∘ fun e => (e, OFPRR_HARD_TIMEOUT)) = id := rfl
  rw [e1, e2, List.map_id, List.map_id]
  -- split by idle first, then the rest by hard
  have p1 := filter_perm_split (idleOut s.now) s.table
  have p2 := filter_perm_split (hardOut s.now) (s.table.filter (fun e => !idleOut s.now e))
  simp only [List.filter_filter] at p2
  have f1 : (fun e => !hardOut s.now e && !idleOut s.now e) = (fun e => !idleOut s.now e && !hardOut s.now e) := by
    funext e; exact Bool.and_comm _ _
  have f2 : (fun e => hardOut s.now e && !idleOut s.now e) = (fun e => !idleOut s.now e && hardOut s.now e) := by
    funext e; exact Bool.and_comm _ _
  rw [f1, f2] at p2
  refine p1.trans ?_
  refine ((p2.append_right _).trans ?_)
  -- (keep ++ hard) ++ idle  ~  keep ++ (idle ++ hard)
  rw [List.append_assoc]
  exact List.Perm.append_left _ List.perm_append_comm

theorem delete_perm (s : State) (fm : FlowModMsg) (h : fm.cmd = .delete ∨ fm.cmd = .deleteStrict) :
    s.table.Perm ((step s (.flowMod fm)).1.table ++ (departures s (.flowMod fm)).map (·.1)) := by
  have e1 : ((fun d : FEntry × Nat => d.1) ∘ fun e => (e, OFPRR_DELETE)) = id := rfl
  rcases h with h | h
  · show s.table.Perm ((flowModStep s fm).1.table ++ _)
    rw [flowModStep_table]
    simp only [flowModHandler, departures, h, flowModDelete, List.map_map, e1, List.map_id, portFilter]
    exact filter_perm_split _ _
  · show s.table.Perm ((flowModStep s fm).1.table ++ _)
    rw [flowModStep_table]
    simp only [flowModHandler, departures, h, flowModDelete, List.map_map, e1, List.map_id, portFilter]
    exact filter_perm_split _ _

/-- after a sweep no entry past a deadline remains -/
theorem sweep_clean (s : State) (e : FEntry) (he : e ∈ (step s .sweep).1.table) :
    idleOut s.now e = false ∧ hardOut s.now e = false := by
  simp only [step, sweep, List.mem_filter, Bool.and_eq_true, Bool.not_eq_true'] at he
  exact he.2

/-- the expiry comparison, in integers: `(now - last_touched) > idle_timeout` / `(now - created) > hard_timeout` -/
theorem idleOut_iff (now : Nat) (e : FEntry) :
    idleOut now e = true ↔ e.data.idle > 0 ∧ e.data.touched + e.data.idle * 1000 < now := by
  unfold idleOut
  simp only [Bool.and_eq_true, decide_eq_true_eq]
  constructor <;> (rintro ⟨h1, h2⟩; exact ⟨h1, by omega⟩)

theorem hardOut_iff (now : Nat) (e : FEntry) :
    hardOut now e = true ↔ e.data.hard > 0 ∧ e.data.created + e.data.hard * 1000 < now := by
  unfold hardOut
  simp only [Bool.and_eq_true, decide_eq_true_eq]
  constructor <;> (rintro ⟨h1, h2⟩; exact ⟨h1, by omega⟩)

/-! ## every flow-removed / flow-stats message is about an entry of the table -/

/-- a message that describes flows describes entries of the table `s.table`, as `to_flow_removed` / `flow_stats` render them at
    `s.now` -/
def TableOut (s : State) : Out → Prop
  | .flowRemoved m => ∃ e ∈ s.table, ∃ r, m = removedMsg s.now r e
  | .flowStats l => ∀ f ∈ l, ∃ e ∈ s.table, f = flowStat s.now e
  | _ => True

theorem notify_tableOut (s : State) (reason : Nat) (es : List FEntry) (h : ∀ e ∈ es, e ∈ s.table) :
    ∀ o ∈ notify s.now reason es, TableOut s o := by
  intro o ho
  simp only [notify, List.mem_map, List.mem_filter] at ho
  obtain ⟨e, ⟨he, _⟩, rfl⟩ := ho
  exact ⟨e, h e he, reason, rfl⟩

theorem flowModAdd_outs (s : State) (fm : FlowModMsg) : ∀ o ∈ (flowModAdd s fm).2, ∃ t c, o = .error t c := by
  unfold flowModAdd flowModFailed
  intro o ho
  split at ho
  · simp only [List.mem_singleton] at ho; exact ⟨_, _, ho⟩
  · split at ho
    · simp only [List.mem_singleton] at ho; exact ⟨_, _, ho⟩
    · split at ho
      · simp only [List.mem_singleton] at ho; exact ⟨_, _, ho⟩
      · simp at ho

theorem ctlSend_outs (pool : BufPool.Pool BFrame) (f : BFrame) (n : Nat) : ∀ o ∈ (ctlSend pool f n).2, ∃ a b c, o = .packetIn a b c := by
  induction n generalizing pool with
  | zero => intro o ho; simp [ctlSend] at ho
  | succ n ih =>
    intro o ho
    simp only [ctlSend, List.mem_cons] at ho
    rcases ho with rfl | ho
    · exact ⟨_, _, _, rfl⟩
    · exact ih _ o ho

theorem bufferTail_outs (s : State) (fm : FlowModMsg) (t : State) : ∀ o ∈ (bufferTail s fm).2, TableOut t o := by
  intro o ho
  unfold bufferTail at ho
  split at ho
  · simp at ho
  · simp at ho
  · unfold bufferUse at ho
    split at ho
    · simp only [List.mem_singleton] at ho; subst ho; trivial
    · split at ho
      · simp only [List.mem_singleton] at ho; subst ho; trivial
      · simp only [List.mem_append, List.mem_singleton] at ho
        rcases ho with ho | rfl
        · obtain ⟨a, b, c, rfl⟩ := ctlSend_outs _ _ _ o ho; trivial
        · trivial

/-- every flow-removed message a step writes renders an entry of the table before the step (with some reason, at the time of
    the step), and every flow-stats body renders entries of the table — no hypothesis -/
theorem step_outs_table (s : State) (op : Op) : ∀ o ∈ (step s op).2, TableOut s o := by
  have errs : ∀ o : Out, (∃ t c, o = .error t c) → TableOut s o := by rintro o ⟨t, c, rfl⟩; trivial
  cases op with
  | flowMod fm =>
    intro o ho
    simp only [step, flowModStep, List.mem_append] at ho
    rcases ho with ho | ho
    · have hmod : ∀ strict, o ∈ (flowModModify s fm strict).2 → TableOut s o := by
        intro strict h
        unfold flowModModify at h
        simp only at h
        split at h
        · simp at h
        · exact errs o (flowModAdd_outs s fm o h)
      unfold flowModHandler at ho
      split at ho
      · exact errs o (flowModAdd_outs s fm o ho)
      · exact hmod false ho
      · exact hmod true ho
      · exact notify_tableOut s _ _ (fun e he => (List.mem_filter.mp he).1) o ho
      · exact notify_tableOut s _ _ (fun e he => (List.mem_filter.mp he).1) o ho
      · simp only [flowModFailed, List.mem_singleton] at ho; subst ho; trivial
    · exact bufferTail_outs _ fm s o ho
  | packet p port len =>
    intro o ho
    simp only [step, packetStep] at ho
    split at ho
    · obtain ⟨a, b, c, rfl⟩ := ctlSend_outs _ _ _ o ho; trivial
    · simp only [List.mem_singleton] at ho; subst ho; trivial
  | advance dt => intro o ho; simp [step] at ho
  | sweep =>
    intro o ho
    simp only [step, sweep, List.mem_append] at ho
    rcases ho with ho | ho
    · exact notify_tableOut s _ _ (fun e he => (List.mem_filter.mp he).1) o ho
    · exact notify_tableOut s _ _ (fun e he => (List.mem_filter.mp he).1) o ho
  | flowStats m outPort =>
    intro o ho
    simp only [step, List.mem_singleton] at ho
    subst ho
    intro f hf
    obtain ⟨e, he, rfl⟩ := List.mem_map.mp hf
    exact ⟨e, (List.mem_filter.mp he).1, rfl⟩
  | aggStats m outPort =>
    intro o ho
    simp only [step, List.mem_singleton] at ho
    subst ho; trivial

/-! ## nothing else leaves the table -/

/-- what identifies an entry across steps (actions, `last_touched` and the counters may change) -/
def ident (e : FEntry) : OfMatch × Nat × OfMatch × Nat × Nat × Nat × Nat × Nat :=
  (e.mtch, e.priority, e.data.wire, e.data.cookie, e.data.flags, e.data.idle, e.data.hard, e.data.created)

/-- the entries a step may take out of the table: a sweep the expired ones, DELETE[_STRICT] the selected ones, ADD the ones it
    replaces (equal match for the strict test, equal priority) — and no other step any -/
def mayLeave (s : State) : Op → FEntry → Bool
  | .sweep, e => idleOut s.now e || hardOut s.now e
  | .flowMod fm, e =>
    (match fm.cmd with
     | .add => isMatchedBy s.cfg e (rxMatch s.cfg fm.mtch) fm.priority true none
     | .delete => isMatchedBy s.cfg e (rxMatch s.cfg fm.mtch) fm.priority false (portFilter fm.outPort)
     | .deleteStrict => isMatchedBy s.cfg e (rxMatch s.cfg fm.mtch) fm.priority true (portFilter fm.outPort)
     | _ => false)
  | _, _ => false

theorem map_ident_map (f : FEntry → FEntry) (hf : ∀ e, ident (f e) = ident e) (t : Table EData) :
    (t.map f).map ident = t.map ident := by
  rw [List.map_map]; exact List.map_congr_left (fun e _ => hf e)

theorem map_ident_modifyFirst (p : FEntry → Bool) (f : FEntry → FEntry) (hf : ∀ e, ident (f e) = ident e) (t : Table EData) :
    (modifyFirst p f t).map ident = t.map ident := by
  induction t with
  | nil => rfl
  | cons x r ih =>
    simp only [modifyFirst]
    split
    · simp [hf x]
    · simp [ih]

theorem sublist_addEntryBy (key : FEntry → Nat) (e : FEntry) (t : Table EData) : t.Sublist (addEntryBy key e t) := by
  obtain ⟨k, _, heq, _⟩ := addEntryBy_eq key e t
  rw [heq, insertAt]
  conv => lhs; rw [← List.take_append_drop k t]
  exact (List.Sublist.refl _).append (List.sublist_cons_self _ _)

theorem flowModAdd_keeps (s : State) (fm : FlowModMsg) : (addBase s fm).Sublist (flowModAdd s fm).1.table := by
  unfold flowModAdd flowModFailed
  split
  · exact addBase_sublist s fm
  · split
    · exact addBase_sublist s fm
    · split
      · exact List.Sublist.refl _
      · exact sublist_addEntryBy _ _ _

/-- **Nothing else leaves the table** (no hypothesis): every entry of the table before a step that the step may not take out
    (`mayLeave`) is in the table after it, in the same relative order, with the same match, priority, cookie, flags, timeouts
    and `created` (`ident`).  In particular MODIFY[_STRICT], a refused or modify-as ADD, an unknown command, the release of a
    buffer, packet arrivals, clock advances and statistics requests keep every entry. -/
theorem step_keeps (s : State) (op : Op) :
    ((s.table.filter (fun e => !mayLeave s op e)).map ident).Sublist ((step s op).1.table.map ident) := by
  have all : ∀ t : Table EData, t.filter (fun _ => !false) = t := fun t => by simp
  cases op with
  | flowMod fm =>
    show List.Sublist _ ((flowModStep s fm).1.table.map ident)
    rw [flowModStep_table]
    have hmod : ∀ strict, fm.cmd ≠ .add → (s.table.map ident).Sublist ((flowModModify s fm strict).1.table.map ident) := by
      intro strict hc
      unfold flowModModify
      simp only
      split
      · rw [map_ident_map]
        · exact List.Sublist.refl _
        · intro e; split <;> rfl
      · have hb : addBase s fm = s.table := by
          unfold addBase
          split
          · exact absurd ‹fm.cmd = Cmd.add› hc
          · rfl
        have := (flowModAdd_keeps s fm).map ident
        rw [hb] at this
        exact this
    cases hc : fm.cmd
    · simp only [mayLeave, flowModHandler, hc]
      have := (flowModAdd_keeps s fm).map ident
      simp only [addBase, hc] at this
      exact this
    · simp only [mayLeave, flowModHandler, hc, all]
      exact hmod false (by rw [hc]; intro h; cases h)
    · simp only [mayLeave, flowModHandler, hc, all]
      exact hmod true (by rw [hc]; intro h; cases h)
    · simp only [mayLeave, flowModHandler, hc, flowModDelete, portFilter]
      exact List.Sublist.refl _
    · simp only [mayLeave, flowModHandler, hc, flowModDelete, portFilter]
      exact List.Sublist.refl _
    · simp only [mayLeave, flowModHandler, hc, all, flowModFailed]
      exact List.Sublist.refl _
  | packet p port len =>
    simp only [mayLeave, all, step, packetStep]
    split
    · show List.Sublist _ ((modifyFirst _ (touch len s.now) s.table).map ident)
      rw [map_ident_modifyFirst _ (touch len s.now) (fun e => rfl)]
      exact List.Sublist.refl _
    · exact List.Sublist.refl _
  | advance dt => simp only [mayLeave, all]; exact List.Sublist.refl _
  | sweep =>
    have : (fun e => !mayLeave s Op.sweep e) = (fun e => !idleOut s.now e && !hardOut s.now e) := by
      funext e; simp [mayLeave]
    rw [this]
    exact List.Sublist.refl _
  | flowStats m o => simp only [mayLeave, all]; exact List.Sublist.refl _
  | aggStats m o => simp only [mayLeave, all]; exact List.Sublist.refl _

end Pox.FlowMod
