import PoxModel.Spec.ActionsSpec
/-!
# C12, part 3: outputs, port rules and counters — for **all** frames (no well-formedness needed): whenever the action
loop returns, the switch differs from the one it started with only in the transmit counters, which moved by exactly the
frames in the output log; every frame in the log left through a port that is up; FLOOD/ALL never use the ingress port.
Core only.
-/
namespace Pox.Actions
open Pox Pox.Packet Pox.Actions.Spec

def Sw.withStats (sw : Sw) (st : List Stat) : Sw := { sw with stats := st }

@[simp] theorem withStats_ports (sw : Sw) (st : List Stat) : (sw.withStats st).ports = sw.ports := rfl
@[simp] theorem withStats_table (sw : Sw) (st : List Stat) : (sw.withStats st).table = sw.table := rfl
@[simp] theorem withStats_missLen (sw : Sw) (st : List Stat) : (sw.withStats st).missLen = sw.missLen := rfl
@[simp] theorem withStats_flags (sw : Sw) (st : List Stat) : (sw.withStats st).flags = sw.flags := rfl
@[simp] theorem withStats_stats (sw : Sw) (st : List Stat) : (sw.withStats st).stats = st := rfl
@[simp] theorem withStats_withStats (sw : Sw) (a b : List Stat) : (sw.withStats a).withStats b = sw.withStats b := rfl
@[simp] theorem withStats_self (sw : Sw) : sw.withStats sw.stats = sw := rfl

/-! ## the tally -/

@[simp] theorem txCount_nil (no : Nat) : txCount [] no = 0 := rfl
@[simp] theorem txBytes_nil (no : Nat) : txBytes [] no = 0 := rfl

theorem txCount_append (a b : List Out) (no : Nat) : txCount (a ++ b) no = txCount a no + txCount b no := by
  simp [txCount, List.filter_append]

theorem txBytes_append (a b : List Out) (no : Nat) : txBytes (a ++ b) no = txBytes a no + txBytes b no := by
  induction a with
  | nil => simp
  | cons o r ih => cases o <;> simp [txBytes, ih]; omega

@[simp] theorem tally_nil (st : List Stat) : tally st [] = st := by
  simp [tally]

theorem tally_append (st : List Stat) (a b : List Out) : tally (tally st a) b = tally st (a ++ b) := by
  simp only [tally, List.map_map]
  apply List.map_congr_left
  intro s _
  simp [txCount_append, txBytes_append, Nat.add_assoc]

theorem tally_frame (st : List Stat) (no : Nat) (b : Bytes) :
    tally st [.frame no b] = st.map fun s => if s.no == no then { s with txP := s.txP + 1, txB := s.txB + b.length } else s := by
  simp only [tally]
  apply List.map_congr_left
  intro s _
  by_cases h : s.no = no
  · subst h; simp [txCount, txBytes]
  · have h' : ¬ no = s.no := fun e => h e.symm
    simp [txCount, txBytes, h, h']

theorem bumpTx_eq (sw : Sw) (no : Nat) (b : Bytes) : bumpTx sw no b.length = sw.withStats (tally sw.stats [.frame no b]) := by
  rw [tally_frame]; rfl

/-- no frame in the log -/
def noFrames (outs : List Out) : Prop := ∀ p b, Out.frame p b ∉ outs

theorem tally_noFrames (st : List Stat) (outs : List Out) (h : noFrames outs) : tally st outs = st := by
  have hc : ∀ no, txCount outs no = 0 := by
    intro no
    simp only [txCount, List.length_eq_zero_iff, List.filter_eq_nil_iff]
    intro o ho
    cases o with
    | frame p b => exact absurd ho (h p b)
    | _ => simp
  have hb : ∀ no, txBytes outs no = 0 := by
    intro no
    induction outs with
    | nil => rfl
    | cons o r ih =>
      have hr : noFrames r := fun p b hm => h p b (List.mem_cons_of_mem _ hm)
      cases o with
      | frame p b => exact absurd (List.mem_cons_self) (h p b)
      | _ => simp [txBytes, ih hr (fun no => by
          have := hc no; simp only [txCount, List.length_eq_zero_iff, List.filter_eq_nil_iff] at this ⊢
          intro o ho; exact this o (List.mem_cons_of_mem _ ho))]
  simp [tally, hc, hb]

/-! ## what a successful processing step guarantees -/

/-- a result `(sw', outs)` obtained from `sw`: only the transmit counters moved, by exactly the frames in `outs`; every
frame left through a port that exists, forwards, is administratively up and has its link up -/
structure Sound (sw sw' : Sw) (outs : List Out) : Prop where
  state : sw' = sw.withStats (tally sw.stats outs)
  guard : ∀ p b, Out.frame p b ∈ outs → up sw.ports p = true

theorem Sound.nil (sw : Sw) : Sound sw sw [] := ⟨by simp, by simp⟩

theorem Sound.of_noFrames (sw : Sw) (outs : List Out) (h : noFrames outs) : Sound sw sw outs :=
  ⟨by rw [tally_noFrames _ _ h]; rfl, fun p b hm => absurd hm (h p b)⟩

theorem Sound.append {sw sw1 sw2 : Sw} {o1 o2 : List Out} (h1 : Sound sw sw1 o1) (h2 : Sound sw1 sw2 o2) :
    Sound sw sw2 (o1 ++ o2) := by
  obtain ⟨s1, g1⟩ := h1
  obtain ⟨s2, g2⟩ := h2
  subst s1
  refine ⟨?_, ?_⟩
  · rw [s2]; simp [tally_append]
  · intro p b hm
    rcases List.mem_append.mp hm with hm | hm
    · exact g1 p b hm
    · simpa using g2 p b hm

theorem up_of_guards {ps : List Port} {no : Nat} {p : Port} (hf : findPort ps no = some p)
    (h1 : has p.config PC_NO_FWD = false) (h2 : has p.config PC_PORT_DOWN = false) (h3 : has p.state PS_LINK_DOWN = false) :
    up ps no = true := by
  simp [up, hf, h1, h2, h3]

/-- `real_send`: at most one frame, on `portNo`, only if the port is up and (unless IN_PORT was asked for) is not the
ingress port; the counters of `portNo` move by that frame -/
theorem realSend_sound (sw : Sw) (f : Frame) (no inPort : Nat) (allow : Bool) (sw' : Sw) (outs : List Out)
    (h : realSend sw f no inPort allow = .ok (sw', outs)) :
    Sound sw sw' outs ∧ (∀ o ∈ outs, ∃ b, o = Out.frame no b) ∧ (outs ≠ [] → (no ≠ inPort ∨ allow = true)) := by
  unfold realSend at h
  split at h
  · cases h; exact ⟨Sound.nil sw, by simp, by simp⟩
  · rename_i hin
    split at h
    · cases h; exact ⟨Sound.nil sw, by simp, by simp⟩
    · rename_i p hf
      split at h
      · cases h; exact ⟨Sound.nil sw, by simp, by simp⟩
      · rename_i h1
        split at h
        · cases h; exact ⟨Sound.nil sw, by simp, by simp⟩
        · rename_i h2
          split at h
          · cases h; exact ⟨Sound.nil sw, by simp, by simp⟩
          · rename_i h3
            cases hp : packFrame f with
            | error e => simp [hp, bind, Except.bind] at h
            | ok b =>
              simp only [hp, bind, Except.bind, pure, Except.pure, Except.ok.injEq, Prod.mk.injEq] at h
              obtain ⟨rfl, rfl⟩ := h
              refine ⟨⟨bumpTx_eq sw no b, ?_⟩, ?_, ?_⟩
              · intro p' b' hm
                simp only [List.mem_singleton, Out.frame.injEq] at hm
                obtain ⟨rfl, rfl⟩ := hm
                exact up_of_guards hf (by simpa using h1) (by simpa using h2) (by simpa using h3)
              · intro o ho; simp only [List.mem_singleton] at ho; exact ⟨b, ho⟩
              · intro _
                by_cases hne : no = inPort
                · right; subst hne; cases allow <;> simp_all
                · exact .inl hne

/-- the FLOOD / ALL loops: every frame is on a listed port other than the ingress port that is up -/
theorem sendMany_sound (f : Frame) (inPort : Nat) : ∀ (l : List Nat) (sw sw' : Sw) (outs : List Out),
    sendMany sw f inPort l = .ok (sw', outs) →
    Sound sw sw' outs ∧ ∀ o ∈ outs, ∃ no b, o = Out.frame no b ∧ no ∈ l ∧ no ≠ inPort := by
  intro l
  induction l with
  | nil => intro sw sw' outs h; cases h; exact ⟨Sound.nil sw, by simp⟩
  | cons no rest ih =>
    intro sw sw' outs h
    simp only [sendMany, bind, Except.bind] at h
    cases h1 : realSend sw f no inPort false with
    | error e => simp [h1] at h
    | ok r1 =>
      obtain ⟨sw1, o1⟩ := r1
      simp only [h1] at h
      cases h2 : sendMany sw1 f inPort rest with
      | error e => simp [h2] at h
      | ok r2 =>
        obtain ⟨sw2, o2⟩ := r2
        simp only [h2, pure, Except.pure, Except.ok.injEq, Prod.mk.injEq] at h
        obtain ⟨rfl, rfl⟩ := h
        obtain ⟨s1, f1, n1⟩ := realSend_sound sw f no inPort false sw1 o1 h1
        obtain ⟨s2, f2⟩ := ih sw1 sw2 o2 h2
        refine ⟨s1.append s2, ?_⟩
        intro o ho
        rcases List.mem_append.mp ho with ho | ho
        · obtain ⟨b, rfl⟩ := f1 o ho
          have hne : o1 ≠ [] := List.ne_nil_of_mem ho
          rcases n1 hne with hh | hh
          · exact ⟨no, b, rfl, List.mem_cons_self, hh⟩
          · cases hh
        · obtain ⟨no', b, rfl, hm, hn⟩ := f2 o ho
          exact ⟨no', b, rfl, List.mem_cons_of_mem _ hm, hn⟩

theorem mem_loopPorts {sw : Sw} {inPort : Nat} {flood : Bool} {no : Nat} (h : no ∈ loopPorts sw inPort flood) :
    ∃ p ∈ sw.ports, p.no = no ∧ no ≠ inPort ∧ (flood = true → has p.config PC_NO_FLOOD = false) := by
  simp only [loopPorts, List.mem_map, List.mem_filter] at h
  obtain ⟨p, ⟨hp, hc⟩, rfl⟩ := h
  refine ⟨p, hp, rfl, ?_, ?_⟩
  · intro e; simp [e] at hc
  · intro hf; subst hf; simp at hc; exact hc.2

theorem packetInOf_ne_frame' (a b : Nat) (d : Bytes) (n : Option Nat) (p : Nat) (x : Bytes) :
    packetInOf a b d n ≠ Out.frame p x := by
  cases n <;> simp [packetInOf]

/-- a table continuation keeps the contract -/
def TableSound (table : TableK) : Prop :=
  ∀ sw f inPort sw' f' outs, table sw f inPort = .ok (sw', f', outs) → Sound sw sw' outs

theorem keep_ok {f : Frame} {r : M (Sw × List Out)} {sw' : Sw} {f' : Frame} {outs : List Out}
    (h : keep f r = .ok (sw', f', outs)) : r = .ok (sw', outs) ∧ f' = f := by
  cases r with
  | error e => simp [keep] at h
  | ok v => obtain ⟨a, b⟩ := v; simp only [keep, Except.ok.injEq, Prod.mk.injEq] at h; obtain ⟨rfl, rfl, rfl⟩ := h; exact ⟨rfl, rfl⟩

theorem outputPacket_sound (table : TableK) (ht : TableSound table) (sw : Sw) (f : Frame) (port inPort : Nat)
    (ml : Option Nat) (sw' : Sw) (f' : Frame) (outs : List Out)
    (h : outputPacket table sw f port inPort ml = .ok (sw', f', outs)) : Sound sw sw' outs := by
  unfold outputPacket at h
  split at h
  · exact (realSend_sound _ _ _ _ _ _ _ (keep_ok h).1).1
  · split at h
    · exact (realSend_sound _ _ _ _ _ _ _ (keep_ok h).1).1
    · split at h
      · exact (sendMany_sound _ _ _ _ _ _ (keep_ok h).1).1
      · split at h
        · exact (sendMany_sound _ _ _ _ _ _ (keep_ok h).1).1
        · split at h
          · cases hp : packFrame f with
            | error e => simp [hp] at h
            | ok b =>
              simp only [hp, Except.ok.injEq, Prod.mk.injEq] at h
              obtain ⟨rfl, rfl, rfl⟩ := h
              exact Sound.of_noFrames _ _ (by
                intro p b' hm; simp only [List.mem_singleton] at hm; exact packetInOf_ne_frame' _ _ _ _ _ _ hm.symm)
          · split at h
            · exact ht _ _ _ _ _ _ h
            · cases h; exact Sound.nil sw

/-- **the action loop keeps the contract**, whatever the frame, the actions and the variant -/
theorem applyWith_sound (var : Variant) (table : TableK) (ht : TableSound table) :
    ∀ (acts : List Action) (sw : Sw) (f : Frame) (inPort : Nat) (sw' : Sw) (f' : Frame) (outs : List Out),
    applyWith var table sw acts f inPort = .ok (sw', f', outs) → Sound sw sw' outs := by
  intro acts
  induction acts with
  | nil => intro sw f inPort sw' f' outs h; cases h; exact Sound.nil sw
  | cons a rest ih =>
    intro sw f inPort sw' f' outs h
    cases a with
    | vendor v =>
      simp only [applyWith, Except.ok.injEq, Prod.mk.injEq] at h
      obtain ⟨rfl, rfl, rfl⟩ := h
      exact Sound.of_noFrames _ _ (by intro p b hm; simp at hm)
    | output port ml =>
      simp only [applyWith, bind, Except.bind] at h
      cases h1 : outputPacket table sw f port inPort (some ml) with
      | error e => simp [h1] at h
      | ok r1 =>
        obtain ⟨sw1, f1, o1⟩ := r1
        simp only [h1] at h
        cases h2 : applyWith var table sw1 rest f1 inPort with
        | error e => simp [h2] at h
        | ok r2 =>
          obtain ⟨sw2, f2, o2⟩ := r2
          simp only [h2, pure, Except.pure, Except.ok.injEq, Prod.mk.injEq] at h
          obtain ⟨rfl, rfl, rfl⟩ := h
          exact (outputPacket_sound table ht _ _ _ _ _ _ _ _ h1).append (ih _ _ _ _ _ _ h2)
    | enqueue port q =>
      simp only [applyWith] at h
      split at h
      · cases h
      · simp only [bind, Except.bind] at h
        cases h1 : outputPacket table sw f port inPort none with
        | error e => simp [h1] at h
        | ok r1 =>
          obtain ⟨sw1, f1, o1⟩ := r1
          simp only [h1] at h
          cases h2 : applyWith var table sw1 rest f1 inPort with
          | error e => simp [h2] at h
          | ok r2 =>
            obtain ⟨sw2, f2, o2⟩ := r2
            simp only [h2, pure, Except.pure, Except.ok.injEq, Prod.mk.injEq] at h
            obtain ⟨rfl, rfl, rfl⟩ := h
            exact (outputPacket_sound table ht _ _ _ _ _ _ _ _ h1).append (ih _ _ _ _ _ _ h2)
    | _ =>
      simp only [applyWith, bind, Except.bind] at h
      split at h
      · cases h
      · exact ih _ _ _ _ _ _ h

theorem packetInOf_ne_frame (a b : Nat) (d : Bytes) (n : Option Nat) (p : Nat) (x : Bytes) :
    packetInOf a b d n ≠ Out.frame p x := by
  cases n <;> simp [packetInOf]

theorem missOuts_noFrames {sw : Sw} {f : Frame} {inPort : Nat} {pd : Option Bytes} {o : List Out}
    (h : Actions.missOuts sw f inPort pd = .ok o) : noFrames o := by
  intro p b hmem
  simp only [Actions.missOuts] at h
  by_cases hn : noPin sw inPort = true
  · simp only [hn, if_true, Except.ok.injEq] at h; subst h; simp at hmem
  · simp only [hn, Bool.false_eq_true, if_false] at h
    cases pd with
    | some d =>
      simp only [Except.ok.injEq] at h
      subst h
      simp only [List.mem_singleton] at hmem
      exact packetInOf_ne_frame _ _ _ _ _ _ hmem.symm
    | none =>
      cases hp : packFrame f with
      | error e => simp [hp] at h
      | ok d =>
        simp only [hp, Except.ok.injEq] at h
        subst h
        simp only [List.mem_singleton] at hmem
        exact packetInOf_ne_frame _ _ _ _ _ _ hmem.symm

theorem lookupPacket_sound (apply : Sw → List Action → Frame → Nat → M (Sw × Frame × List Out))
    (ha : ∀ sw acts f inPort sw' f' outs, apply sw acts f inPort = .ok (sw', f', outs) → Sound sw sw' outs)
    (sw : Sw) (f : Frame) (inPort : Nat) (pd : Option Bytes) (sw' : Sw) (f' : Frame) (outs : List Out)
    (h : lookupPacket apply sw f inPort pd = .ok (sw', f', outs)) : Sound sw sw' outs := by
  unfold lookupPacket at h
  split at h
  · exact ha _ _ _ _ _ _ _ h
  · cases hm : Actions.missOuts sw f inPort pd with
    | error e => simp [hm] at h
    | ok o =>
      simp only [hm, Except.ok.injEq, Prod.mk.injEq] at h
      obtain ⟨rfl, rfl, rfl⟩ := h
      exact Sound.of_noFrames _ _ (missOuts_noFrames hm)

/-- the repaired action loop (`output:TABLE` → `_lookup_packet`) keeps the contract at every nesting depth -/
theorem run_sound (var : Variant) (hv : var.d8 = false) : ∀ (fuel : Nat) (sw : Sw) (acts : List Action) (f : Frame)
    (inPort : Nat) (sw' : Sw) (f' : Frame) (outs : List Out),
    run var fuel sw acts f inPort = .ok (sw', f', outs) → Sound sw sw' outs := by
  intro fuel
  induction fuel with
  | zero => intro sw acts f inPort sw' f' outs h; simp [run] at h
  | succ n ih =>
    intro sw acts f inPort sw' f' outs h
    simp only [run, hv] at h
    refine applyWith_sound var _ ?_ acts sw f inPort sw' f' outs h
    intro sw1 f1 p1 sw2 f2 o2 h2
    simp only [Bool.false_eq_true, if_false] at h2
    exact lookupPacket_sound (run var n) (fun sw acts f inPort => ih sw acts f inPort) _ _ _ _ _ _ _ h2

/-! ## settling the buffers does not touch frames -/

theorem settle_frames (p : Nat) (b : Bytes) : ∀ (o : List Out) (n : Nat), Out.frame p b ∈ (settle n o).2 ↔ Out.frame p b ∈ o := by
  intro o
  induction o with
  | nil => intro n; simp [settle]
  | cons x rest ih => intro n; cases x <;> simp [settle, ih]

theorem settle_txCount (no : Nat) : ∀ (o : List Out) (n : Nat), txCount (settle n o).2 no = txCount o no := by
  intro o
  induction o with
  | nil => intro n; rfl
  | cons x rest ih =>
    intro n
    have hc : ∀ (y : Out) (l : List Out), txCount (y :: l) no = txCount [y] no + txCount l no := fun y l => txCount_append [y] l no
    cases x <;> (simp only [settle]; rw [hc, ih, ← hc]) <;> rfl

theorem settle_txBytes (no : Nat) : ∀ (o : List Out) (n : Nat), txBytes (settle n o).2 no = txBytes o no := by
  intro o
  induction o with
  | nil => intro n; rfl
  | cons x rest ih => intro n; cases x <;> simp [settle, txBytes, ih]

theorem tally_settle (st : List Stat) (o : List Out) (n : Nat) : tally st (settle n o).2 = tally st o := by
  simp [tally, settle_txCount, settle_txBytes]

theorem finish_ok {n : Nat} {r : M (Sw × List Out)} {sw' : Sw} {outs : List Out} (h : finish n r = .ok (sw', outs)) :
    ∃ sw1 o1, r = .ok (sw1, o1) ∧ sw' = { sw1 with bufFree := (settle n o1).1 } ∧ outs = (settle n o1).2 := by
  cases r with
  | error e => simp [finish] at h
  | ok v =>
    obtain ⟨a, b⟩ := v
    simp only [finish, Except.ok.injEq, Prod.mk.injEq] at h
    exact ⟨a, b, rfl, h.1.symm, h.2.symm⟩

end Pox.Actions
