import PoxModel.Model.FlowTableQ
import PoxModel.Proofs.FlowTable
/-! Histories of mutating and reading calls (`Model/FlowTableQ.lean`): the reading calls can be struck out. -/
namespace Pox.OF.TableOps

variable {α : Type} (key : Entry α → Nat) (mw : Bool → OfMatch → OfMatch → Bool) (bothWays : Bool)

theorem runFromC_eq (calls : List (Call α)) (tbl : Table α) :
    runFromC key mw bothWays tbl calls = runFrom key mw bothWays tbl (mutations calls) := by
  induction calls generalizing tbl with
  | nil => rfl
  | cons c r ih =>
    cases c with
    | op o => simp only [runFromC, runFrom, mutations, List.foldl_cons, stepC] at ih ⊢; exact ih _
    | query q => simp only [runFromC, runFrom, mutations, List.foldl_cons, stepC] at ih ⊢; exact ih _

theorem runC_eq (calls : List (Call α)) : runC key mw bothWays calls = run key mw bothWays (mutations calls) :=
  runFromC_eq key mw bothWays calls []

theorem mutations_append (a b : List (Call α)) : mutations (a ++ b) = mutations a ++ mutations b := by
  induction a with
  | nil => rfl
  | cons c r ih => cases c <;> simp [mutations, ih]

theorem runFromC_append (a b : List (Call α)) (tbl : Table α) :
    runFromC key mw bothWays tbl (a ++ b) = runFromC key mw bothWays (runFromC key mw bothWays tbl a) b := by
  simp [runFromC, List.foldl_append]

theorem answer_sublist (tbl : Table α) (q : Query α) : (answer mw bothWays tbl q).Sublist tbl := by
  cases q with
  | select m portOk => exact List.filter_sublist
  | all => exact List.Sublist.refl _
  | other => exact List.nil_sublist _

theorem mem_answer_select (tbl : Table α) (m : OfMatch) (portOk : α → Bool) (e : Entry α) :
    e ∈ answer mw bothWays tbl (.select m portOk) ↔ e ∈ tbl ∧ portOk e.data = true ∧ mw true m e.mtch = true := by
  simp [answer, selectedBy]

end Pox.OF.TableOps
