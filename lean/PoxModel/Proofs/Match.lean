import PoxModel.Proofs.MatchBits
import PoxModel.Proofs.FlowTable
import PoxModel.Spec.OF10Match
set_option linter.unusedSimpArgs false
/-! Lemmas relating `matchesWith false (ofWire r) (fromPacket p port)` (the code's lookup test) to `Spec.matchHdr r
(Spec.headers p port)` (the standard's).  Core only. -/
namespace Pox.OF
open OfMatch

theorem Fld.mem_all (f : Fld) : f ∈ Fld.all := by cases f <;> simp [Fld.all]

theorem clearLow_eq_iff (k a b : Nat) : clearLow k a = clearLow k b ↔ a / 2 ^ k = b / 2 ^ k := by
  unfold clearLow
  constructor
  · intro h; exact Nat.eq_of_mul_eq_mul_right (Nat.pow_pos (by decide)) h
  · intro h; rw [h]

/-! ### the `self == other` shortcut never changes the answer -/

theorem eqMatch_parts {a b : OfMatch} (h : eqMatch a b = true) :
    a.wildcards = b.wildcards ∧ (∀ f, a.view f = b.view f) ∧
    a.srcView.map (·.1) = b.srcView.map (·.1) ∧ a.dstView.map (·.1) = b.dstView.map (·.1) := by
  simp only [eqMatch, Bool.and_eq_true, beq_iff_eq, List.all_eq_true] at h
  exact ⟨h.1.1.1, fun f => h.1.1.2 f (Fld.mem_all f), h.1.2, h.2⟩

theorem eqMatch_fieldFail {a b : OfMatch} (h : eqMatch a b = true) (f : Fld) : fieldFail a b f = false := by
  obtain ⟨hw, hv, _, _⟩ := eqMatch_parts h
  have := hv f
  unfold view at this
  have hwild : a.wild f = b.wild f := by simp [wild, hw]
  unfold fieldFail
  rw [← hwild]
  cases hq : a.wild f
  · rw [← hwild, hq] at this
    simp at this
    simp [this]
  · simp

theorem eqMatch_nwFail (ca cb aa ab : Nat) (hc : ca = cb)
    (h : (nwView ca aa).map (·.1) = (nwView cb ab).map (·.1)) : nwFail (nwView ca aa) (nwView cb ab) = false := by
  subst hc
  unfold nwView at *
  by_cases h32 : 32 ≤ ca
  · simp [h32, nwFail]
  · simp only [h32, if_false, Option.map_some, Option.some.injEq] at h
    simp [h32, nwFail, h]

theorem matchesWith_false (a b : OfMatch) :
    matchesWith false a b =
      (!(Fld.all.any (fieldFail a b)) && !nwFail a.srcView b.srcView && !nwFail a.dstView b.dstView) := by
  unfold matchesWith
  by_cases he : eqMatch a b = true
  · obtain ⟨hw, _, hs, hd⟩ := eqMatch_parts he
    have h1 : Fld.all.any (fieldFail a b) = false := by
      rw [List.any_eq_false]; intro f _; simp [eqMatch_fieldFail he f]
    have h2 : nwFail a.srcView b.srcView = false := eqMatch_nwFail _ _ _ _ (by rw [hw]) hs
    have h3 : nwFail a.dstView b.dstView = false := eqMatch_nwFail _ _ _ _ (by rw [hw]) hd
    simp [he, h1, h2, h3]
  · simp only [he, Bool.false_and, Bool.false_eq_true, if_false]
    cases Fld.all.any (fieldFail a b) <;> cases nwFail a.srcView b.srcView <;> cases nwFail a.dstView b.dstView <;> rfl

/-! ### against a packet's match -/

/-- field `f` of match `m` accepts what `from_packet` assigned -/
def fieldOk (m : OfMatch) (o : OHeaders) (f : Fld) : Bool := m.wild f || some (m.get f) == o.get f

/-- address test with wildcard counter `c` against the packet's address (absent = never equal) -/
def nwOk (c addr : Nat) (pk : Option Nat) : Bool :=
  decide (32 ≤ c) || (match pk with | none => false | some a => addr / 2 ^ c == a / 2 ^ c)

theorem fieldFail_fromHeaders (m : OfMatch) (o : OHeaders) (f : Fld) :
    fieldFail m (fromHeaders o) f = !fieldOk m o f := by
  simp only [fieldFail, fieldOk, fromHeaders_wild, fromHeaders_get]
  cases m.wild f <;> cases h : o.get f <;> simp [bne]

theorem nwFail_fromHeaders (c addr : Nat) (pk : Option Nat) :
    nwFail (nwView c addr) (nwView (if pk.isSome then 0 else 32) (pk.getD 0)) = !nwOk c addr pk := by
  by_cases h32 : 32 ≤ c
  · simp [nwView, nwOk, nwFail, h32]
  · have hv : nwView c addr = some (addr, 32 - c) := by simp [nwView, h32]
    cases pk with
    | none =>
      have ho : nwView (if (none : Option Nat).isSome then 0 else 32) ((none : Option Nat).getD 0) = none := rfl
      have : 32 - c > 0 := by omega
      rw [hv, ho]
      simp [nwFail, nwOk, h32, this]
    | some a =>
      have ho : nwView (if (some a).isSome then 0 else 32) ((some a).getD 0) = some (a, 32) := rfl
      have e : 32 - (32 - c) = c := by omega
      have hlt : ¬ (32 - c > 32) := by omega
      rw [hv, ho]
      simp only [nwFail, hlt, if_false, e, nwOk, h32, decide_false, Bool.false_or]
      by_cases hq : a / 2 ^ c = addr / 2 ^ c
      · simp [hq.symm, (clearLow_eq_iff c a addr).mpr hq]
      · have hne : clearLow c a ≠ clearLow c addr := fun h => hq ((clearLow_eq_iff c a addr).mp h)
        have e1 : (clearLow c a != clearLow c addr) = true := by simpa [bne_iff_ne] using hne
        have e2 : (addr / 2 ^ c == a / 2 ^ c) = false := by
          simp only [beq_eq_false_iff_ne, ne_eq]; exact fun h => hq h.symm
        simp only [e1, e2, Bool.not_false]

theorem accepts_fromHeaders (m : OfMatch) (o : OHeaders) :
    matchesWith false m (fromHeaders o) =
      (Fld.all.all (fieldOk m o) && nwOk (srcCnt m.wildcards) m.nwSrc o.nwSrc && nwOk (dstCnt m.wildcards) m.nwDst o.nwDst) := by
  have hs : (fromHeaders o).srcView = nwView (if o.nwSrc.isSome then 0 else 32) (o.nwSrc.getD 0) := by
    simp only [srcView, fromHeaders_srcCnt]; rfl
  have hd : (fromHeaders o).dstView = nwView (if o.nwDst.isSome then 0 else 32) (o.nwDst.getD 0) := by
    simp only [dstView, fromHeaders_dstCnt]; rfl
  rw [matchesWith_false, hs, hd]
  simp only [srcView, dstView, nwFail_fromHeaders, Bool.not_not, List.any_eq_not_all_not, fieldFail_fromHeaders]

end Pox.OF

namespace Pox.OF
open OfMatch

/-! ### hypotheses of `matches_iff` -/

/-- The prerequisites `_unwire_wildcards` reads are taken from fields that are *not* wildcarded: a wildcarded dl_type is
    not 0x0800/0x0806 on the wire, a wildcarded nw_proto of an IPv4 match is not 1/6/17 (e.g. both sent as zero, as the
    standard recommends for wildcarded fields).  Outside this, the code's answer depends on the value of a wildcarded field
    (`matches_prereq_defect`). -/
def PrereqExact (r : OfMatch) : Prop :=
  (r.wild .dlType = true → r.dlType ≠ 0x0800 ∧ r.dlType ≠ 0x0806) ∧
  (r.wild .nwProto = true → r.dlType = 0x0800 → isL4Proto r.nwProto = false)

/-- what `from_packet` assigned agrees with the standard's 12-tuple `h`, and every field whose protocol is present in the
    frame has been assigned -/
structure Agree (o : OHeaders) (h : Spec.Headers) : Prop where
  inPort : o.inPort = some h.inPort
  dlSrc : o.dlSrc = some h.dlSrc
  dlDst : o.dlDst = some h.dlDst
  dlVlan : o.dlVlan = some h.dlVlan
  dlVlanPcp : o.dlVlanPcp = some h.dlVlanPcp
  dlType : o.dlType = some h.dlType
  nw : h.dlType = 0x0800 ∨ h.dlType = 0x0806 → o.nwSrc = some h.nwSrc ∧ o.nwDst = some h.nwDst ∧ o.nwProto = some h.nwProto
  tos : h.dlType = 0x0800 → o.nwTos = some h.nwTos
  tos4 : h.nwTos % 4 = 0
  tp : h.dlType = 0x0800 → isL4Proto h.nwProto = true → o.tpSrc = some h.tpSrc ∧ o.tpDst = some h.tpDst

theorem srcCnt_div (w : Nat) : srcCnt w = w / 2 ^ 8 % 64 := by rw [srcCnt_eq, cnt_eq_div]
theorem dstCnt_div (w : Nat) : dstCnt w = w / 2 ^ 14 % 64 := by rw [dstCnt_eq, cnt_eq_div]

theorem tos_eq_iff (a b : Nat) (ha : a % 4 = 0) (hb : b % 4 = 0) : a = b ↔ a / 4 = b / 4 := by omega

macro "c03_unfold" : tactic => `(tactic|
  simp only [Spec.matchHdr, Spec.wild, Spec.W_IN_PORT, Spec.W_DL_SRC, Spec.W_DL_DST, Spec.W_DL_VLAN, Spec.W_DL_VLAN_PCP,
    Spec.W_DL_TYPE, Spec.W_NW_TOS, Spec.W_NW_PROTO, Spec.W_TP_SRC, Spec.W_TP_DST, Spec.ipSpecified, Spec.nwSpecified,
    Spec.tpSpecified, Spec.dlTypeIs, Spec.srcIgnored, Spec.dstIgnored, Spec.prefixEq, OfMatch.wild, Fld.bit,
    nwIgnored, tosIgnored, tpIgnored, nwOk, srcCnt_div, dstCnt_div] at *)

theorem wire_accepts (r : OfMatch) (o : OHeaders) (h : Spec.Headers) (hp : PrereqExact r) (ht : r.nwTos % 4 = 0)
    (ha : Agree o h) : matchesWith false (ofWire r) (fromHeaders o) = Spec.matchHdr r h := by
  rw [accepts_fromHeaders, ofWire_srcCnt, ofWire_dstCnt]
  simp only [Fld.all, List.all_cons, List.all_nil, fieldOk, ofWire_wild, ofWire_get, ignoredFlag, Bool.and_true, Bool.or_false]
  obtain ⟨h1, h2, h3, h4, h5, h6, h7, h8, h9, h10⟩ := ha
  obtain ⟨hp1, hp2⟩ := hp
  simp only [OfMatch.get, OHeaders.get, h1, h2, h3, h4, h5, h6]
  have hsrc : (ofWire r).nwSrc = r.nwSrc := rfl
  have hdst : (ofWire r).nwDst = r.nwDst := rfl
  rw [hsrc, hdst]
  c03_unfold
  by_cases hT : r.wildcards.testBit 4 = true
  · -- dl_type wildcarded: every L3/L4 field is ignored on both sides
    obtain ⟨n1, n2⟩ := hp1 hT
    have e1 : (r.dlType == 2048) = false := by simpa using n1
    have e2 : (r.dlType == 2054) = false := by simpa using n2
    simp [hT, e1, e2]
    ac_rfl
  · have hT' : r.wildcards.testBit 4 = false := by simpa using hT
    by_cases hd : r.dlType = h.dlType
    · have ed : (r.dlType == h.dlType) = true := by simpa using hd
      by_cases hip : r.dlType = 2048
      · have e1 : (r.dlType == 2048) = true := by simpa using hip
        have hh : h.dlType = 2048 := by omega
        obtain ⟨a1, a2, a3⟩ := h7 (.inl hh)
        have a4 := h8 hh
        have etos : (r.nwTos == h.nwTos) = (r.nwTos / 4 == h.nwTos / 4) := by
          rw [Bool.eq_iff_iff]; simp only [beq_iff_eq]; exact tos_eq_iff _ _ ht h9
        by_cases hP : r.wildcards.testBit 5 = true
        · have l4 := hp2 hP hip
          simp [hT', ed, e1, a1, a2, a3, a4, etos, hP, l4]
          ac_rfl
        · have hP' : r.wildcards.testBit 5 = false := by simpa using hP
          by_cases hpr : r.nwProto = h.nwProto
          · have epr : (r.nwProto == h.nwProto) = true := by simpa using hpr
            by_cases hl4 : isL4Proto r.nwProto = true
            · obtain ⟨b1, b2⟩ := h10 hh (hpr ▸ hl4)
              have hl4' := hl4
              simp only [isL4Proto, Bool.or_eq_true, beq_iff_eq] at hl4'
              have x : (r.nwProto == 1 || r.nwProto == 6 || r.nwProto == 17) = true := by
                simpa [isL4Proto] using hl4
              simp [hT', ed, e1, a1, a2, a3, a4, etos, hP', epr, hl4, b1, b2, x]
              ac_rfl
            · have hl4' : isL4Proto r.nwProto = false := by simpa using hl4
              have x : (r.nwProto == 1 || r.nwProto == 6 || r.nwProto == 17) = false := by
                simpa [isL4Proto] using hl4'
              simp [hT', ed, e1, a1, a2, a3, a4, etos, hP', epr, hl4', x]
              ac_rfl
          · have epr : (r.nwProto == h.nwProto) = false := by simpa using hpr
            simp [hT', ed, e1, a1, a2, a3, a4, hP', epr]
      · have e1 : (r.dlType == 2048) = false := by simpa using hip
        by_cases harp : r.dlType = 2054
        · have e2 : (r.dlType == 2054) = true := by simpa using harp
          have hh : h.dlType = 2054 := by omega
          obtain ⟨a1, a2, a3⟩ := h7 (.inr hh)
          simp [hT', ed, e1, e2, a1, a2, a3]
          ac_rfl
        · have e2 : (r.dlType == 2054) = false := by simpa using harp
          simp [hT', ed, e1, e2]
          ac_rfl
    · have ed : (r.dlType == h.dlType) = false := by simpa using hd
      simp [hT', ed]

/-! ### frames -/

def l4Regular (pr : Nat) (frag : Bool) : L4 → Bool
  | .ports _ _ => frag || pr == 6 || pr == 17
  | .icmp _ _ => frag || pr == 1
  | .none => frag || !isL4Proto pr

/-- The frame description is one the parser produces for a complete frame: an LLC header only behind a length field, nothing
    parsed behind an LLC header without the zero-OUI SNAP header, an IPv4 / ARP header exactly when the (encapsulated) Ethernet
    type says so, a transport header of the kind the IP protocol says (unless the packet is a fragment) — and, when `from_packet`
    guards its ARP branch (`arpGuard`), the ARP opcode fits in 8 bits (`extract_arp_defect` shows what happens otherwise). -/
def regularG (arpGuard : Bool) (p : PHdr) : Bool :=
  (match p.llc with
   | some l => decide (p.typ < 0x600) && (l.snapOui == some 0 || (p.vlan.isNone && p.l3 == L3.other))
   | none => true) &&
  (match p.l3 with
   | .ipv4 _ _ pr _ frag l4 => Spec.dlTypeOf p == 0x0800 && l4Regular pr frag l4
   | .arp op _ _ => Spec.dlTypeOf p == 0x0806 && (!arpGuard || decide (op ≤ 255))
   | .other => Spec.dlTypeOf p != 0x0800 && Spec.dlTypeOf p != 0x0806)

/-- `regularG` for the code at `/repo` HEAD (guarded ARP branch) -/
def regular (p : PHdr) : Bool := regularG true p

/-- the IP ToS byte of the frame (0 when there is no IPv4 header) -/
def pktTos (p : PHdr) : Nat := match p.l3 with
  | .ipv4 _ _ _ tos _ _ => tos
  | _ => 0

/-! ### extraction -/

/-- `v` is what the standard's header `x` says: assigned and equal, or not assigned where the standard has zero -/
def FieldAgrees (v : Option Nat) (x : Nat) : Prop := v = some x ∨ (v = none ∧ x = 0)

structure ExtractOk (p : PHdr) (o : OHeaders) (h : Spec.Headers) : Prop where
  inPort : o.inPort = some h.inPort
  dlSrc : o.dlSrc = some h.dlSrc
  dlDst : o.dlDst = some h.dlDst
  dlVlan : o.dlVlan = some h.dlVlan
  dlVlanPcp : o.dlVlanPcp = some h.dlVlanPcp
  dlType : o.dlType = some h.dlType
  nwSrc : FieldAgrees o.nwSrc h.nwSrc
  nwDst : FieldAgrees o.nwDst h.nwDst
  nwProto : FieldAgrees o.nwProto h.nwProto
  nwTos : FieldAgrees (o.nwTos.map (· / 4 * 4)) h.nwTos
  tpSrc : FieldAgrees o.tpSrc h.tpSrc
  tpDst : FieldAgrees o.tpDst h.tpDst
  nwHere : h.dlType = 0x0800 ∨ h.dlType = 0x0806 → o.nwSrc.isSome ∧ o.nwDst.isSome ∧ o.nwProto.isSome
  tosHere : h.dlType = 0x0800 → o.nwTos = some (pktTos p)
  tpHere : h.dlType = 0x0800 → isL4Proto h.nwProto = true → o.tpSrc.isSome ∧ o.tpDst.isSome

macro "c03_leaf" hr:ident : tactic => `(tactic|
  (simp [regularG, Spec.dlTypeOf, Spec.etherType, l4Regular, isL4Proto] at $hr:ident
   constructor <;>
     simp [extractG, Spec.headers, Spec.zeroL3, Spec.dlTypeOf, Spec.etherType, DL_TYPE_NOT_ETH, VLAN_NONE, FieldAgrees, pktTos, isL4Proto, $hr:ident] <;>
     (try split) <;> (try simp_all) <;> (try omega)))

macro "c03_leaf2" hr:ident hlt:ident : tactic => `(tactic|
  (simp [regularG, Spec.dlTypeOf, Spec.etherType, l4Regular, isL4Proto, $hlt:ident] at $hr:ident
   constructor <;>
     simp [extractG, Spec.headers, Spec.zeroL3, Spec.dlTypeOf, Spec.etherType, DL_TYPE_NOT_ETH, VLAN_NONE, FieldAgrees, pktTos, isL4Proto, $hr:ident, $hlt:ident] <;>
     (try split) <;> (try simp_all) <;> (try omega)))

theorem extract_ok_auxG (g : Bool) (p : PHdr) (port : Nat) (hr : regularG g p = true) :
    ExtractOk p (extractG g true p (some port)) (Spec.headers p port) := by
  obtain ⟨src, dst, typ, llc, vlan, l3⟩ := p
  cases llc with
  | none =>
    cases vlan with
    | none =>
      cases l3 with
      | other => c03_leaf hr
      | arp op s d => cases g <;> c03_leaf hr
      | ipv4 s d pr tos frag l4 =>
        cases frag <;> cases l4 <;> c03_leaf hr
    | some v =>
      cases l3 with
      | other => c03_leaf hr
      | arp op s d => cases g <;> c03_leaf hr
      | ipv4 s d pr tos frag l4 =>
        cases frag <;> cases l4 <;> c03_leaf hr
  | some l =>
    obtain ⟨oui, et⟩ := l
    by_cases hlt : typ < 1536
    · by_cases hs : oui = some 0
      · subst hs
        cases vlan with
        | none =>
          cases l3 with
          | other => c03_leaf2 hr hlt
          | arp op s d => cases g <;> c03_leaf2 hr hlt
          | ipv4 s d pr tos frag l4 =>
            cases frag <;> cases l4 <;> c03_leaf2 hr hlt
        | some v =>
          cases l3 with
          | other => c03_leaf2 hr hlt
          | arp op s d => cases g <;> c03_leaf2 hr hlt
          | ipv4 s d pr tos frag l4 =>
            cases frag <;> cases l4 <;> c03_leaf2 hr hlt
      · have hs' : (oui == some 0) = false := by simpa using hs
        simp [regularG, hs', hlt] at hr
        obtain ⟨⟨h2, h3⟩, h4⟩ := hr
        subst h3
        cases vlan with
        | some v => simp at h2
        | none =>
          constructor <;>
            simp [extractG, Spec.headers, Spec.zeroL3, Spec.dlTypeOf, Spec.etherType, DL_TYPE_NOT_ETH, VLAN_NONE, FieldAgrees, pktTos, isL4Proto, hlt, hs]
    · simp [regularG, hlt] at hr

theorem extract_ok_aux (p : PHdr) (port : Nat) (hr : regular p = true) :
    ExtractOk p (extract p (some port)) (Spec.headers p port) := extract_ok_auxG true p port hr

theorem FieldAgrees.of_isSome {v : Option Nat} {x : Nat} (h : FieldAgrees v x) (hs : v.isSome = true) : v = some x := by
  rcases h with h | ⟨h, _⟩
  · exact h
  · simp [h] at hs

theorem extract_agreeG (g : Bool) (p : PHdr) (port : Nat) (hr : regularG g p = true) (ht : pktTos p % 4 = 0) :
    Agree (extractG g true p (some port)) (Spec.headers p port) := by
  have e := extract_ok_auxG g p port hr
  refine ⟨e.inPort, e.dlSrc, e.dlDst, e.dlVlan, e.dlVlanPcp, e.dlType, ?_, ?_, ?_, ?_⟩
  · intro hd
    obtain ⟨a, b, c⟩ := e.nwHere hd
    exact ⟨e.nwSrc.of_isSome a, e.nwDst.of_isSome b, e.nwProto.of_isSome c⟩
  · intro hd
    have h1 := e.tosHere hd
    have h2 := e.nwTos
    rw [h1] at h2 ⊢
    rcases h2 with h2 | ⟨h2, _⟩
    · simp only [Option.map_some, Option.some.injEq] at h2
      congr 1; omega
    · simp at h2
  · rcases e.nwTos with h2 | ⟨_, h2⟩
    · cases hq : (extractG g true p (some port)).nwTos with
      | none => simp [hq] at h2
      | some t => simp [hq] at h2; omega
    · omega
  · intro hd hl
    obtain ⟨a, b⟩ := e.tpHere hd hl
    exact ⟨e.tpSrc.of_isSome a, e.tpDst.of_isSome b⟩

theorem extract_agree (p : PHdr) (port : Nat) (hr : regular p = true) (ht : pktTos p % 4 = 0) :
    Agree (extract p (some port)) (Spec.headers p port) := extract_agreeG true p port hr ht

/-- `matches_iff`, assembled: the lookup test of the code equals the standard's matching on the extracted 12-tuple -/
theorem wire_accepts_packet (r : OfMatch) (p : PHdr) (port : Nat) (hp : PrereqExact r) (ht : r.nwTos % 4 = 0)
    (hr : regular p = true) (hpt : pktTos p % 4 = 0) :
    matchesWith false (ofWire r) (fromPacket p port) = Spec.matchHdr r (Spec.headers p port) :=
  wire_accepts r _ _ hp ht (extract_agree p port hr hpt)

/-! ### exactness (effective priority) -/

/-- the `n`-bit field of `w` at bit offset `sh` -/
def bitsAt (sh n w : Nat) : Nat := (w >>> sh) % 2 ^ n

theorem bitsAt_or (sh n a b : Nat) : bitsAt sh n (a ||| b) = bitsAt sh n a ||| bitsAt sh n b := by
  simp only [bitsAt, Nat.shiftRight_or_distrib, Nat.or_mod_two_pow]

theorem bitsAt_clearBits (sh n a m : Nat) : bitsAt sh n (clearBits a m) = clearBits (bitsAt sh n a) (bitsAt sh n m) := by
  simp only [bitsAt, clearBits, Nat.shiftRight_xor_distrib, Nat.shiftRight_and_distrib, Nat.xor_mod_two_pow, Nat.and_mod_two_pow]

theorem normalize_bitsAt (sh n w : Nat) (h1 : bitsAt sh n NW_SRC_MASK = 0) (h2 : bitsAt sh n (32 <<< NW_SRC_SHIFT) = 0)
    (h3 : bitsAt sh n NW_DST_MASK = 0) (h4 : bitsAt sh n (32 <<< NW_DST_SHIFT) = 0) :
    bitsAt sh n (normalize w) = bitsAt sh n w := by
  unfold normalize
  simp only
  split <;> split <;> simp [bitsAt_or, bitsAt_clearBits, h1, h2, h3, h4, clearBits_zero]

theorem mod22_iff (x : Nat) : x % 2 ^ 22 = 0 ↔ bitsAt 0 8 x = 0 ∧ cnt 8 x = 0 ∧ cnt 14 x = 0 ∧ bitsAt 20 2 x = 0 := by
  simp only [bitsAt, cnt, Nat.shiftRight_eq_div_pow]
  omega


theorem isWildcarded_iff (m : OfMatch) : m.isWildcarded = false ↔ m.wildcards % 2 ^ 22 = 0 := by
  have := Nat.and_two_pow_sub_one_eq_mod m.wildcards 22
  simp only [isWildcarded, FW_ALL, show (0x3fffff : Nat) = 2 ^ 22 - 1 from rfl, this]
  simp

theorem unwireMask_zero_iff (t p : Nat) : unwireMask t p = 0 ↔ t = 0x0800 ∧ isL4Proto p = true := by
  unfold unwireMask
  by_cases h1 : t = 0x0800
  · by_cases h2 : isL4Proto p = true
    · simp [h1, h2]
    · have : TP_BITS ≠ 0 := by decide
      simp [h1, h2, this]
  · by_cases h3 : t = 0x0806
    · have : ARP_IGNORED ≠ 0 := by decide
      simp [if_neg h1, if_pos h3, h1, this]
    · have : NONIP_IGNORED ≠ 0 := by decide
      simp [if_neg h1, if_neg h3, h1, this]

/-- D26, characterised: the un-wired match is exact (gets the "infinite" priority) iff the transmitted match has no
    wildcard bit set *and* is an IPv4 TCP/UDP/ICMP match -/
theorem ofWire_exact_iff (r : OfMatch) :
    (ofWire r).isWildcarded = false ↔ Spec.exact r = true ∧ r.dlType = 0x0800 ∧ isL4Proto r.nwProto = true := by
  rw [isWildcarded_iff, ← unwireMask_zero_iff]
  simp only [Spec.exact, beq_iff_eq]
  show normalize (unwire r.dlType r.nwProto r.wildcards) % 2 ^ 22 = 0 ↔ _
  rw [unwire_eq, mod22_iff, mod22_iff]
  have a1 := normalize_bitsAt 0 8 (r.wildcards ||| unwireMask r.dlType r.nwProto) (by decide) (by decide) (by decide) (by decide)
  have a2 := normalize_bitsAt 20 2 (r.wildcards ||| unwireMask r.dlType r.nwProto) (by decide) (by decide) (by decide) (by decide)
  have a3 := normalize_srcCnt (r.wildcards ||| unwireMask r.dlType r.nwProto)
  have a4 := normalize_dstCnt (r.wildcards ||| unwireMask r.dlType r.nwProto)
  rw [srcCnt_eq, srcCnt_eq] at a3
  rw [dstCnt_eq, dstCnt_eq] at a4
  rw [a1, a2, a3, a4, bitsAt_or, bitsAt_or, cnt_or, cnt_or]
  generalize hK : unwireMask r.dlType r.nwProto = K
  have hK4 : K = 0 ↔ bitsAt 0 8 K = 0 ∧ cnt 8 K = 0 ∧ cnt 14 K = 0 ∧ bitsAt 20 2 K = 0 := by
    subst hK
    unfold unwireMask
    split
    · split
      · decide
      · decide
    · split <;> decide
  simp only [Nat.min_eq_zero_iff, Nat.or_eq_zero_iff, hK4]
  constructor
  · rintro ⟨⟨a, b⟩, h2, h3, ⟨c, d⟩⟩
    simp at h2 h3
    exact ⟨⟨a, h2.1, h3.1, c⟩, b, h2.2, h3.2, d⟩
  · rintro ⟨⟨a, b, c, d⟩, e, f, g, i⟩
    exact ⟨⟨a, e⟩, Or.inr ⟨b, f⟩, Or.inr ⟨c, g⟩, d, i⟩

/-! ### flow entries as transmitted -/

/-- the `TableEntry` a flow-mod creates: 16-bit priority, the match object `unpack(flow_mod=True)` yields; the payload remembers the
    flow as transmitted -/
def toEntry (f : Spec.Flow) : Entry Spec.Flow := { priority := f.priority, mtch := f.mtch.ofWire, data := f }

/-- the table after the flow-mods `fs` (in order); each entry remembers the flow it came from -/
def install (fs : List Spec.Flow) : Table Spec.Flow := build (fs.map toEntry)

/-- hypotheses on a transmitted flow entry under which the code treats it as the standard says -/
structure FlowOk (f : Spec.Flow) : Prop where
  prio : f.priority ≤ 0xffff
  prereq : PrereqExact f.mtch
  tos : f.mtch.nwTos % 4 = 0
  /-- an entry without any wildcard bit is an IPv4 TCP/UDP/ICMP entry (otherwise: D26, `exact_outranks_defect`) -/
  exactL4 : Spec.exact f.mtch = true → f.mtch.dlType = 0x0800 ∧ isL4Proto f.mtch.nwProto = true

theorem rank_le_iff (f g : Spec.Flow) (hf : FlowOk f) (hg : FlowOk g) :
    let ef : Entry Spec.Flow := { priority := f.priority, mtch := f.mtch.ofWire, data := f }
    let eg : Entry Spec.Flow := { priority := g.priority, mtch := g.mtch.ofWire, data := g }
    eg.effectivePriority ≤ ef.effectivePriority → Spec.rank g ≤ Spec.rank f := by
  intro ef eg
  have hfe := ofWire_exact_iff f.mtch
  have hge := ofWire_exact_iff g.mtch
  have pf := hf.prio
  have pg := hg.prio
  simp only [Entry.effectivePriority, Spec.rank, ef, eg, EXACT_PRIORITY]
  cases hfw : f.mtch.ofWire.isWildcarded <;> cases hgw : g.mtch.ofWire.isWildcarded <;>
    cases hfx : Spec.exact f.mtch <;> cases hgx : Spec.exact g.mtch <;> simp <;> (try omega)
  all_goals simp_all
  all_goals
    first
    | (have := hf.exactL4 hfx; simp_all)
    | (have := hg.exactL4 hgx; simp_all)


/-- Lookup in any table that is sorted and whose entries stem from regular transmitted flows answers as the standard prescribes
    for the flows the table holds. -/
theorem lookup_isBest (tbl : Table Spec.Flow) (hs : Sorted tbl) (hw : ∀ e ∈ tbl, e = toEntry e.data ∧ FlowOk e.data)
    (p : PHdr) (port : Nat) (hr : regular p = true) (hpt : pktTos p % 4 = 0) :
    Spec.IsBest (tbl.map (·.data)) (Spec.headers p port) ((entryForPacket tbl p port).map (·.data)) := by
  have hacc : ∀ e ∈ tbl, Entry.accepts (fromPacket p port) e = Spec.matchHdr e.data.mtch (Spec.headers p port) := by
    intro e he
    obtain ⟨h1, h2⟩ := hw e he
    rw [h1]
    exact wire_accepts_packet e.data.mtch p port h2.prereq h2.tos hr hpt
  obtain ⟨hfound, hmiss⟩ := first_match_max Entry.effectivePriority (Entry.accepts (fromPacket p port)) tbl hs
  cases hq : entryForPacket tbl p port with
  | none =>
    have := hmiss.mp hq
    simp only [Option.map_none, Spec.IsBest]
    intro g hg
    obtain ⟨e, he, rfl⟩ := List.mem_map.mp hg
    rw [← hacc e he]; exact this e he
  | some e =>
    obtain ⟨h1, h2, h3⟩ := hfound e hq
    simp only [Option.map_some, Spec.IsBest]
    refine ⟨List.mem_map.mpr ⟨e, h2, rfl⟩, by rw [← hacc e h2]; exact h1, ?_⟩
    intro g hg hm
    obtain ⟨e', he', rfl⟩ := List.mem_map.mp hg
    have hle := h3 e' he' (by rw [hacc e' he']; exact hm)
    have a := (hw e h2).1
    have b := (hw e' he').1
    rw [a, b] at hle
    exact rank_le_iff e.data e'.data (hw e h2).2 (hw e' he').2 hle

end Pox.OF
