import PoxModel.Proofs.ActionsRewrite
import PoxModel.Proofs.ActionsOutput
/-!
# C12, part 4: on well-formed frames the action loop *is* the declarative specification (`Spec.emitted`), byte for byte.
Core only.
-/
namespace Pox.Actions
open Pox Pox.Packet Pox.Actions.Spec

/-! ## the specification in recursive form -/

/-- `emittedWith` written as a recursion over the action list (the packet is threaded through) -/
def emittedRec (ps : List Port) (tk : Frame → Nat → List Out) (tr : Frame → Nat → Frame) (ingress : Nat) :
    List Action → Frame → List Out
  | [], _ => []
  | a :: rest, f =>
    if isVendor a then [.error 2 0]
    else actOuts ps tk a f ingress ++ emittedRec ps tk tr ingress rest (step1 tr ingress a f)

theorem effective_cons_of_not_vendor (a : Action) (rest : List Action) (h : isVendor a = false) :
    effective (a :: rest) = a :: effective rest := by
  simp [effective, h]

theorem effective_cons_of_vendor (a : Action) (rest : List Action) (h : isVendor a = true) :
    effective (a :: rest) = [] := by
  simp [effective, h]

theorem effective_length_le (acts : List Action) : (effective acts).length ≤ acts.length := by
  unfold effective
  exact (List.takeWhile_sublist _).length_le

/-- the index form of the specification (output `i` sees `rewrite (take i)`) and the recursive form agree -/
theorem emittedWith_eq_rec (ps : List Port) (tk : Frame → Nat → List Out) (tr : Frame → Nat → Frame) (ingress : Nat) :
    ∀ (acts : List Action) (f : Frame), emittedWith ps tk tr acts f ingress = emittedRec ps tk tr ingress acts f := by
  intro acts
  induction acts with
  | nil => intro f; simp [emittedWith, effective, emittedRec]
  | cons a rest ih =>
    intro f
    cases hv : isVendor a with
    | true => simp [emittedWith, effective_cons_of_vendor a rest hv, emittedRec, hv]
    | false =>
      have he := effective_cons_of_not_vendor a rest hv
      simp only [emittedRec, hv, Bool.false_eq_true, if_false]
      rw [← ih]
      unfold emittedWith
      rw [he]
      simp only [List.length_cons, List.range_succ_eq_map, List.flatMap_cons, List.getElem?_cons_zero, List.take_zero,
        rewrite, List.flatMap_map, List.getElem?_cons_succ, List.take_succ_cons, List.append_assoc,
        Nat.add_lt_add_iff_right]

/-! ## outputs on a well-formed frame -/

theorem tally_single_nonframe (st : List Stat) (o : Out) (h : ∀ p b, o ≠ Out.frame p b) : tally st [o] = st :=
  tally_noFrames st [o] (by intro p b hm; simp only [List.mem_singleton] at hm; exact h p b hm.symm)

theorem realSend_spec (sw : Sw) (st : List Stat) (f : Frame) (hw : f.WF) (no inPort : Nat) (allow : Bool) :
    realSend (sw.withStats st) f no inPort allow =
      .ok (sw.withStats (tally st (if (no != inPort || allow) && up sw.ports no then [Out.frame no (serF f)] else [])),
           if (no != inPort || allow) && up sw.ports no then [Out.frame no (serF f)] else []) := by
  unfold realSend
  by_cases h0 : (no == inPort && !allow) = true
  · have : (no != inPort || allow) = false := by
      cases allow <;> simp_all
    simp [h0, this]
  · have h0' : (no != inPort || allow) = true := by
      cases allow <;> simp_all
    simp only [h0, Bool.false_eq_true, if_false, withStats_ports, h0', Bool.true_and]
    cases hf : findPort sw.ports no with
    | none => simp [up, hf]
    | some p =>
      simp only [up, hf]
      by_cases h1 : has p.config PC_NO_FWD = true
      · simp [h1]
      · by_cases h2 : has p.config PC_PORT_DOWN = true
        · simp [h1, h2]
        · by_cases h3 : has p.state PS_LINK_DOWN = true
          · simp [h1, h2, h3]
          · simp only [h1, h2, h3, Bool.false_eq_true, if_false, packFrame_ser f hw, bind, Except.bind, pure, Except.pure,
              Bool.not_false, Bool.and_self, if_true]
            rw [bumpTx_eq]
            rfl

theorem sendMany_spec (sw : Sw) (f : Frame) (hw : f.WF) (inPort : Nat) : ∀ (l : List Nat) (st : List Stat),
    sendMany (sw.withStats st) f inPort l =
      .ok (sw.withStats (tally st ((l.filter fun no => no != inPort && up sw.ports no).map fun no => Out.frame no (serF f))),
           (l.filter fun no => no != inPort && up sw.ports no).map fun no => Out.frame no (serF f)) := by
  intro l
  induction l with
  | nil => intro st; simp [sendMany]
  | cons no rest ih =>
    intro st
    simp only [sendMany, realSend_spec sw st f hw no inPort false, bind, Except.bind, ih, pure, Except.pure, tally_append,
      Bool.or_false]
    by_cases hc : (no != inPort && up sw.ports no) = true
    · simp [List.filter_cons, hc]
    · simp [List.filter_cons, hc]

theorem loop_expand (sw : Sw) (inPort : Nat) (flood : Bool) :
    (loopPorts sw inPort flood).filter (fun no => no != inPort && up sw.ports no) =
      (sw.ports.filter fun p => p.no != inPort && !(flood && has p.config PC_NO_FLOOD) && up sw.ports p.no).map (·.no) := by
  simp only [loopPorts, List.filter_map, List.filter_filter]
  congr 1
  apply List.filter_congr
  intro p _
  simp only [Function.comp]
  cases h1 : (p.no == inPort) <;> cases h2 : (flood && has p.config PC_NO_FLOOD) <;> cases h3 : up sw.ports p.no <;>
    simp [bne, h1]

/-- what the table continuation does on well-formed frames: the log `tk`, the packet `tr`, counters by `tk` -/
def TableSpec (table : TableK) (sw : Sw) (inPort : Nat) (tk : Frame → Nat → List Out) (tr : Frame → Nat → Frame) : Prop :=
  ∀ st f, f.WF →
    table (sw.withStats st) f inPort = .ok (sw.withStats (tally st (tk f inPort)), tr f inPort, tk f inPort) ∧
    (tr f inPort).WF

theorem outputPacket_spec (table : TableK) (sw : Sw) (inPort : Nat) (tk : Frame → Nat → List Out)
    (tr : Frame → Nat → Frame) (hT : TableSpec table sw inPort tk tr) (st : List Stat) (f : Frame) (hw : f.WF)
    (port : Nat) (ml : Option Nat) :
    outputPacket table (sw.withStats st) f port inPort ml =
      .ok (sw.withStats (tally st (outOf sw.ports tk port ml f inPort)),
           (if port = P_TABLE then tr f inPort else f), outOf sw.ports tk port ml f inPort) := by
  unfold outputPacket outOf expand
  by_cases h1 : port < P_MAX
  · have hc : port ≠ P_CONTROLLER := by unfold P_MAX at h1; unfold P_CONTROLLER; omega
    have ht : port ≠ P_TABLE := by unfold P_MAX at h1; unfold P_TABLE; omega
    simp only [h1, if_true, hc, ht, if_false, realSend_spec sw st f hw, keep, Bool.or_false]
    by_cases hh : (port != inPort && up sw.ports port) = true <;> simp [hh]
  · simp only [h1, if_false]
    by_cases h2 : port = P_IN_PORT
    · subst h2
      simp only [if_true, realSend_spec sw st f hw, keep, Bool.or_true, Bool.true_and,
        show P_IN_PORT ≠ P_CONTROLLER by decide, show P_IN_PORT ≠ P_TABLE by decide, if_false]
      by_cases hh : up sw.ports inPort = true <;> simp [hh]
    · simp only [h2, if_false]
      by_cases h3 : port = P_FLOOD
      · subst h3
        simp only [if_true, sendMany_spec sw f hw, keep, withStats_ports, show P_FLOOD ≠ P_CONTROLLER by decide,
          show P_FLOOD ≠ P_TABLE by decide, if_false]
        have e : loopPorts (sw.withStats st) inPort true = loopPorts sw inPort true := rfl
        rw [e, loop_expand]
        simp [List.map_map, Bool.and_assoc]
      · simp only [h3, if_false]
        by_cases h4 : port = P_ALL
        · subst h4
          simp only [if_true, sendMany_spec sw f hw, keep, show P_ALL ≠ P_CONTROLLER by decide,
            show P_ALL ≠ P_TABLE by decide, if_false]
          have e : loopPorts (sw.withStats st) inPort false = loopPorts sw inPort false := rfl
          rw [e, loop_expand]
          simp [List.map_map]
        · simp only [h4, if_false]
          by_cases h5 : port = P_CONTROLLER
          · subst h5
            simp only [if_true, packFrame_ser f hw, show P_CONTROLLER ≠ P_TABLE by decide, if_false]
            rw [tally_single_nonframe _ _ (fun p b => packetInOf_ne_frame _ _ _ _ p b)]
          · simp only [h5, if_false]
            by_cases h6 : port = P_TABLE
            · subst h6
              simp only [if_true]
              exact (hT st f hw).1
            · simp [h6]

/-! ## the action loop -/

/-- actions that only rewrite the packet -/
def isRewrite : Action → Bool
  | .output _ _ => false
  | .enqueue _ _ => false
  | .vendor _ => false
  | _ => true

theorem applyWith_cons_rewrite (var : Variant) (table : TableK) (sw : Sw) (a : Action) (rest : List Action) (f : Frame)
    (inPort : Nat) (h : isRewrite a = true) :
    applyWith var table sw (a :: rest) f inPort =
      (match handle1 var a f with
       | .ok f' => applyWith var table sw rest f' inPort
       | .error e => .error e) := by
  cases a <;> simp [isRewrite] at h <;> (simp only [applyWith, bind, Except.bind]; split <;> simp_all)

theorem rewrite_facts (tr : Frame → Nat → Frame) (ps : List Port) (tk : Frame → Nat → List Out) (ingress : Nat) (a : Action)
    (f : Frame) (h : isRewrite a = true) :
    step1 tr ingress a f = rewrite1 a f ∧ actOuts ps tk a f ingress = [] ∧ isVendor a = false := by
  cases a <;> simp [isRewrite] at h <;> simp [step1, actOuts, isVendor]

/-- **the action loop refines the specification** (for a table continuation that does) -/
theorem applyWith_spec (table : TableK) (sw : Sw) (inPort : Nat) (tk : Frame → Nat → List Out) (tr : Frame → Nat → Frame)
    (hT : TableSpec table sw inPort tk tr) :
    ∀ (acts : List Action) (st : List Stat) (f : Frame), f.WF → (∀ a ∈ acts, ArgsOk a) →
      applyWith {} table (sw.withStats st) acts f inPort =
        .ok (sw.withStats (tally st (emittedRec sw.ports tk tr inPort acts f)), rewrite tr inPort (effective acts) f,
             emittedRec sw.ports tk tr inPort acts f) ∧
      (rewrite tr inPort (effective acts) f).WF := by
  intro acts
  induction acts with
  | nil => intro st f hw _; simp [applyWith, emittedRec, effective, rewrite, hw]
  | cons a rest ih =>
    intro st f hw hargs
    have hrest : ∀ a ∈ rest, ArgsOk a := fun a h => hargs a (List.mem_cons_of_mem _ h)
    cases hr : isRewrite a with
    | true =>
      obtain ⟨e1, e2, e3⟩ := rewrite_facts tr sw.ports tk inPort a f hr
      obtain ⟨h1, h2⟩ := handle1_ok a f hw (hargs a List.mem_cons_self)
      obtain ⟨i1, i2⟩ := ih st (rewrite1 a f) h2 hrest
      rw [applyWith_cons_rewrite _ _ _ _ _ _ _ hr, h1]
      simp only [emittedRec, e3, Bool.false_eq_true, if_false, e2, List.nil_append, e1,
        effective_cons_of_not_vendor a rest e3, rewrite]
      exact ⟨i1, i2⟩
    | false =>
      cases a with
      | vendor v =>
        simp only [applyWith, emittedRec, isVendor, if_true, effective_cons_of_vendor (.vendor v) rest rfl, rewrite]
        rw [tally_single_nonframe _ _ (by intro p b; simp)]
        exact ⟨rfl, hw⟩
      | output port ml =>
        have ho := outputPacket_spec table sw inPort tk tr hT st f hw port (some ml)
        have hw1 : (if port = P_TABLE then tr f inPort else f).WF := by
          split
          · exact (hT st f hw).2
          · exact hw
        obtain ⟨i1, i2⟩ := ih (tally st (outOf sw.ports tk port (some ml) f inPort)) _ hw1 hrest
        simp only [applyWith, ho, bind, Except.bind, i1, pure, Except.pure, tally_append, emittedRec, isVendor,
          Bool.false_eq_true, if_false, actOuts, step1, effective_cons_of_not_vendor (.output port ml) rest rfl, rewrite]
        exact ⟨trivial, i2⟩
      | enqueue port q =>
        have ho := outputPacket_spec table sw inPort tk tr hT st f hw port none
        have hw1 : (if port = P_TABLE then tr f inPort else f).WF := by
          split
          · exact (hT st f hw).2
          · exact hw
        obtain ⟨i1, i2⟩ := ih (tally st (outOf sw.ports tk port none f inPort)) _ hw1 hrest
        simp only [applyWith, Bool.false_eq_true, if_false, ho, bind, Except.bind, i1, pure, Except.pure, tally_append,
          emittedRec, isVendor, actOuts, step1, effective_cons_of_not_vendor (.enqueue port q) rest rfl, rewrite]
        exact ⟨trivial, i2⟩
      | _ => simp [isRewrite] at hr

/-! ## action lists that never output to TABLE do not depend on the table continuation -/

def noTableAct : Action → Prop
  | .output p _ => p ≠ P_TABLE
  | .enqueue p _ => p ≠ P_TABLE
  | _ => True

def noTable (acts : List Action) : Prop := ∀ a ∈ acts, noTableAct a

theorem outputPacket_congr (t1 t2 : TableK) (sw : Sw) (f : Frame) (port inPort : Nat) (ml : Option Nat) (h : port ≠ P_TABLE) :
    outputPacket t1 sw f port inPort ml = outputPacket t2 sw f port inPort ml := by
  simp [outputPacket, h]

theorem applyWith_congr (var : Variant) (t1 t2 : TableK) : ∀ (acts : List Action) (sw : Sw) (f : Frame) (p : Nat),
    noTable acts → applyWith var t1 sw acts f p = applyWith var t2 sw acts f p := by
  intro acts
  induction acts with
  | nil => intro sw f p _; rfl
  | cons a rest ih =>
    intro sw f p hn
    have hrest : noTable rest := fun a h => hn a (List.mem_cons_of_mem _ h)
    have ih' := fun sw f p => ih sw f p hrest
    cases hr : isRewrite a with
    | true =>
      rw [applyWith_cons_rewrite _ _ _ _ _ _ _ hr, applyWith_cons_rewrite _ _ _ _ _ _ _ hr]
      split
      · exact ih' _ _ _
      · rfl
    | false =>
      cases a with
      | vendor v => rfl
      | output port ml =>
        have hp : port ≠ P_TABLE := hn _ List.mem_cons_self
        simp only [applyWith, outputPacket_congr t1 t2 _ _ _ _ _ hp, ih']
      | enqueue port q =>
        have hp : port ≠ P_TABLE := hn _ List.mem_cons_self
        simp only [applyWith, outputPacket_congr t1 t2 _ _ _ _ _ hp, ih']
      | _ => simp [isRewrite] at hr

/-! ## the flow table, packet-out, frames from the wire -/

/-- flow entries are well-formed OpenFlow 1.0 entries: arguments in range, no output to TABLE -/
def RulesOk (t : List Rule) : Prop := ∀ r ∈ t, noTable r.acts ∧ ∀ a ∈ r.acts, ArgsOk a

theorem lookup_mem {t : List Rule} {inPort : Nat} {acts : List Action} (h : lookup t inPort = some acts) :
    ∃ r ∈ t, r.acts = acts := by
  simp only [lookup, Option.map_eq_some_iff] at h
  obtain ⟨r, hr, rfl⟩ := h
  exact ⟨r, List.mem_of_find?_eq_some hr, rfl⟩

def idealTable : TableK := fun sw f _ => .ok (sw, f, [])

theorem idealTable_spec (sw : Sw) (inPort : Nat) : TableSpec idealTable sw inPort (fun _ _ => []) (fun f _ => f) := by
  intro st f hw
  exact ⟨by simp [idealTable], hw⟩

theorem missOuts_spec (sw : Sw) (st : List Stat) (f : Frame) (hw : f.WF) (inPort : Nat) (pd : Option Bytes) :
    Actions.missOuts (sw.withStats st) f inPort pd = .ok (Spec.missOuts sw (pd.getD (serF f)) inPort) := by
  unfold Actions.missOuts Spec.missOuts noPin
  simp only [withStats_ports, withStats_missLen]
  rcases Option.eq_none_or_eq_some (findPort sw.ports inPort) with hf | ⟨p, hf⟩
  · simp only [hf]
    cases pd <;> simp [packFrame_ser f hw]
  · simp only [hf]
    by_cases hc : has p.config PC_NO_PACKET_IN = true
    · simp [hc]
    · cases pd <;> simp [hc, packFrame_ser f hw]

theorem spec_missOuts_noFrames (sw : Sw) (d : Bytes) (inPort : Nat) : noFrames (Spec.missOuts sw d inPort) := by
  intro p b hm
  unfold Spec.missOuts at hm
  split at hm
  · split at hm
    · simp at hm
    · simp only [List.mem_singleton] at hm; exact packetInOf_ne_frame _ _ _ _ _ _ hm.symm
  · simp only [List.mem_singleton] at hm; exact packetInOf_ne_frame _ _ _ _ _ _ hm.symm

/-- `_lookup_packet` on a well-formed frame, for an action loop with at least one level of nesting left -/
theorem lookupPacket_spec (fuel : Nat) (sw : Sw) (hr : RulesOk sw.table) (st : List Stat) (f : Frame) (hw : f.WF)
    (inPort : Nat) (pd : Option Bytes) :
    lookupPacket (run {} (fuel + 1)) (sw.withStats st) f inPort pd =
      .ok (sw.withStats (tally st (tableOuts sw f inPort pd)), tableRewrite sw f inPort, tableOuts sw f inPort pd) ∧
    (tableRewrite sw f inPort).WF := by
  unfold lookupPacket tableOuts tableRewrite
  simp only [withStats_table]
  cases hl : lookup sw.table inPort with
  | some acts =>
    obtain ⟨r, hrm, rfl⟩ := lookup_mem hl
    obtain ⟨hnt, hargs⟩ := hr r hrm
    simp only [run]
    rw [applyWith_congr {} _ idealTable r.acts _ _ _ hnt, emittedWith_eq_rec]
    exact applyWith_spec idealTable sw inPort _ _ (idealTable_spec sw inPort) r.acts st f hw hargs
  | none =>
    simp only [missOuts_spec sw st f hw inPort pd]
    rw [tally_noFrames _ _ (spec_missOuts_noFrames _ _ _)]
    exact ⟨rfl, hw⟩

/-- the repaired action loop with two or more levels of nesting allowance is `Spec.emitted` -/
theorem run_spec (fuel : Nat) (sw : Sw) (hr : RulesOk sw.table) (acts : List Action) (hargs : ∀ a ∈ acts, ArgsOk a)
    (st : List Stat) (f : Frame) (hw : f.WF) (inPort : Nat) :
    run {} (fuel + 2) (sw.withStats st) acts f inPort =
      .ok (sw.withStats (tally st (emitted sw acts f inPort)), rewrite (tableRewrite sw) inPort (effective acts) f,
           emitted sw acts f inPort) := by
  unfold emitted
  rw [emittedWith_eq_rec]
  simp only [run]
  refine (applyWith_spec _ sw inPort (fun f' p => tableOuts sw f' p none) (tableRewrite sw) ?_ acts st f hw hargs).1
  intro st1 f1 hw1
  simp only [Bool.false_eq_true, if_false]
  exact lookupPacket_spec fuel sw hr st1 f1 hw1 inPort none

theorem bumpRx_withStats (sw : Sw) (no len : Nat) :
    bumpRx sw no len = sw.withStats (sw.stats.map fun s => if s.no == no then { s with rxP := s.rxP + 1, rxB := s.rxB + len } else s) :=
  rfl

/-- a packet-out on a well-formed frame -/
theorem packetOutCore_spec (sw : Sw) (hr : RulesOk sw.table) (acts : List Action) (hargs : ∀ a ∈ acts, ArgsOk a) (f : Frame)
    (hw : f.WF) (inPort : Nat) :
    packetOutCore {} sw acts f inPort = .ok (sw.withStats (tally sw.stats (emitted sw acts f inPort)), emitted sw acts f inPort) := by
  have := run_spec 7 sw hr acts hargs sw.stats f hw inPort
  simp only [withStats_self] at this
  simp [packetOutCore, depth, this, dropFrame]

/-- a well-formed frame from the wire -/
theorem rxWireCore_spec (sw : Sw) (hr : RulesOk sw.table) (f : Frame) (hw : f.WF) (inPort : Nat) (wire : Bytes) :
    rxWireCore {} sw f inPort wire =
      .ok (if accepts sw f inPort then
             sw.withStats (tally (bumpRx sw inPort wire.length).stats (rxOuts sw f inPort wire))
           else sw, rxOuts sw f inPort wire) := by
  unfold rxWireCore rxThen accepts rxOuts accepts
  rcases Option.eq_none_or_eq_some (findPort sw.ports inPort) with hf | ⟨p, hf⟩
  · simp [hf, dropFrame]
  · simp only [hf]
    by_cases ha : rxAccepts sw p f = true
    · simp only [ha, Bool.not_true, Bool.false_eq_true, if_false, if_true]
      have := (lookupPacket_spec 7 sw hr (bumpRx sw inPort wire.length).stats f hw inPort (some wire)).1
      rw [bumpRx_withStats] at this ⊢
      simp only [withStats_stats] at this ⊢
      have e : run {} depth = run {} (7 + 1) := rfl
      rw [e, this]
      rfl
    · simp [ha, dropFrame]

/-- a well-formed packet object handed to `rx_packet` without its wire bytes: the byte counter moves by the length of its
wire form, a table miss sends that wire form -/
theorem rxObjCore_spec (sw : Sw) (hr : RulesOk sw.table) (f : Frame) (hw : f.WF) (inPort : Nat) :
    rxObjCore {} sw f inPort =
      .ok (if accepts sw f inPort then
             sw.withStats (tally (bumpRx sw inPort (serF f).length).stats (rxObjOuts sw f inPort))
           else sw, rxObjOuts sw f inPort) := by
  unfold rxObjCore rxThen accepts rxObjOuts accepts
  rcases Option.eq_none_or_eq_some (findPort sw.ports inPort) with hf | ⟨p, hf⟩
  · simp [hf, dropFrame]
  · simp only [hf]
    by_cases ha : rxAccepts sw p f = true
    · simp only [ha, Bool.not_true, Bool.false_eq_true, if_false, if_true, packFrame_ser f hw]
      have := (lookupPacket_spec 7 sw hr (bumpRx sw inPort (serF f).length).stats f hw inPort none).1
      rw [bumpRx_withStats] at this ⊢
      simp only [withStats_stats] at this ⊢
      have e : run {} depth = run {} (7 + 1) := rfl
      rw [e, this]
      rfl
    · simp [ha, dropFrame]

/-- the operations with the buffers settled: the log is `settle free` of the specification's, the free count drops by the
packet-ins that got a buffer -/
theorem packetOut_spec (sw : Sw) (hr : RulesOk sw.table) (acts : List Action) (hargs : ∀ a ∈ acts, ArgsOk a) (f : Frame)
    (hw : f.WF) (inPort : Nat) :
    packetOut {} sw acts f inPort =
      .ok ({ sw with stats := tally sw.stats (emitted sw acts f inPort),
                     bufFree := (settle sw.bufFree (emitted sw acts f inPort)).1 },
           (settle sw.bufFree (emitted sw acts f inPort)).2) := by
  unfold packetOut
  rw [packetOutCore_spec sw hr acts hargs f hw inPort]
  rfl

theorem rxWire_spec (sw : Sw) (hr : RulesOk sw.table) (f : Frame) (hw : f.WF) (inPort : Nat) (wire : Bytes) :
    rxWire {} sw f inPort wire =
      .ok ({ (if accepts sw f inPort then
                sw.withStats (tally (bumpRx sw inPort wire.length).stats (rxOuts sw f inPort wire))
              else sw) with bufFree := (settle sw.bufFree (rxOuts sw f inPort wire)).1 },
           (settle sw.bufFree (rxOuts sw f inPort wire)).2) := by
  unfold rxWire
  rw [rxWireCore_spec sw hr f hw inPort wire]
  rfl

theorem rxObj_spec (sw : Sw) (hr : RulesOk sw.table) (f : Frame) (hw : f.WF) (inPort : Nat) :
    rxObj {} sw f inPort =
      .ok ({ (if accepts sw f inPort then
                sw.withStats (tally (bumpRx sw inPort (serF f).length).stats (rxObjOuts sw f inPort))
              else sw) with bufFree := (settle sw.bufFree (rxObjOuts sw f inPort)).1 },
           (settle sw.bufFree (rxObjOuts sw f inPort)).2) := by
  unfold rxObj
  rw [rxObjCore_spec sw hr f hw inPort]
  rfl

def isPin : Out → Bool
  | .packetIn .. => true
  | _ => false

/-- the packet-ins of a log -/
def pins (outs : List Out) : Nat := (outs.filter isPin).length

def setBuffered (b : Bool) : Out → Out
  | .packetIn p r d dl _ => .packetIn p r d dl b
  | o => o

theorem pins_cons (x : Out) (rest : List Out) : pins (x :: rest) = (if isPin x then 1 else 0) + pins rest := by
  unfold pins
  cases h : isPin x <;> simp [List.filter_cons, h]; omega

/-- **what `settle` does, position by position**: a packet-in gets a buffer iff fewer packet-ins than free buffers precede
it in the log; everything else is untouched; the free count drops by the number of packet-ins (not below zero) -/
theorem settle_spec : ∀ (outs : List Out) (free : Nat),
    (settle free outs).1 = free - pins outs ∧ (settle free outs).2.length = outs.length ∧
    ∀ i : Nat, (settle free outs).2[i]? = (outs[i]?).map (setBuffered (decide (pins (outs.take i) < free))) := by
  intro outs
  induction outs with
  | nil => intro free; simp [settle, pins]
  | cons x rest ih =>
    intro free
    cases hx : isPin x with
    | true =>
      obtain ⟨p, r, d, dl, b, rfl⟩ : ∃ p r d dl b, x = Out.packetIn p r d dl b := by
        cases x <;> simp [isPin] at hx
        exact ⟨_, _, _, _, _, rfl⟩
      obtain ⟨h1, h2, h3⟩ := ih (free - 1)
      refine ⟨?_, ?_, ?_⟩
      · simp only [settle, h1, pins_cons, hx, if_true]; omega
      · simp [settle, h2]
      · intro i
        cases i with
        | zero =>
          simp [settle, pins, setBuffered]
          exact decide_eq_decide.mpr Iff.rfl
        | succ j =>
          simp only [settle, List.getElem?_cons_succ, h3 j, List.take_succ_cons, pins_cons, hx, if_true]
          have e : decide (pins (List.take j rest) < free - 1) = decide (1 + pins (List.take j rest) < free) := by
            apply decide_eq_decide.mpr; omega
          rw [e]
    | false =>
      have hs : settle free (x :: rest) = ((settle free rest).1, x :: (settle free rest).2) := by
        cases x <;> simp [isPin] at hx <;> rfl
      have hb : ∀ b, setBuffered b x = x := by
        intro b; cases x <;> simp [isPin] at hx <;> rfl
      obtain ⟨h1, h2, h3⟩ := ih free
      refine ⟨?_, ?_, ?_⟩
      · simp [hs, h1, pins_cons, hx]
      · simp [hs, h2]
      · intro i
        cases i with
        | zero => simp [hs, hb]
        | succ j => simp [hs, h3 j, pins_cons, hx]

/-! ## every emitted frame is the wire form of a well-formed frame (so its lengths and checksums are valid) -/

/-- the log's frames all carry `serF` of some well-formed frame -/
def FramesWF (outs : List Out) : Prop := ∀ p b, Out.frame p b ∈ outs → ∃ f' : Frame, f'.WF ∧ b = serF f'

theorem step1_wf (tr : Frame → Nat → Frame) (ingress : Nat) (htr : ∀ f, f.WF → (tr f ingress).WF) (a : Action) (f : Frame)
    (hw : f.WF) (ha : ArgsOk a) : (step1 tr ingress a f).WF := by
  cases hr : isRewrite a with
  | true =>
    rw [(rewrite_facts tr [] (fun _ _ => []) ingress a f hr).1]
    exact (handle1_ok a f hw ha).2
  | false =>
    cases a with
    | output port ml => simp only [step1]; split; exact htr f hw; exact hw
    | enqueue port q => simp only [step1]; split; exact htr f hw; exact hw
    | vendor v => exact hw
    | _ => simp [isRewrite] at hr

theorem emittedRec_framesWF (ps : List Port) (tk : Frame → Nat → List Out) (tr : Frame → Nat → Frame) (ingress : Nat)
    (htk : ∀ f, f.WF → FramesWF (tk f ingress)) (htr : ∀ f, f.WF → (tr f ingress).WF) :
    ∀ (acts : List Action) (f : Frame), f.WF → (∀ a ∈ acts, ArgsOk a) → FramesWF (emittedRec ps tk tr ingress acts f) := by
  intro acts
  induction acts with
  | nil => intro f _ _ p b hm; simp [emittedRec] at hm
  | cons a rest ih =>
    intro f hw hargs p b hm
    simp only [emittedRec] at hm
    split at hm
    · simp at hm
    · rcases List.mem_append.mp hm with hm | hm
      · have hout : ∀ port ml, Out.frame p b ∈ outOf ps tk port ml f ingress → ∃ f' : Frame, f'.WF ∧ b = serF f' := by
          intro port ml h
          unfold outOf at h
          split at h
          · simp only [List.mem_singleton] at h; exact absurd h.symm (packetInOf_ne_frame _ _ _ _ _ _)
          · split at h
            · exact htk f hw p b h
            · simp only [List.mem_map, Out.frame.injEq] at h
              obtain ⟨_, _, _, rfl⟩ := h
              exact ⟨f, hw, rfl⟩
        cases a with
        | output port ml => exact hout port (some ml) hm
        | enqueue port q => exact hout port none hm
        | _ => simp [actOuts] at hm
      · exact ih _ (step1_wf tr ingress htr a f hw (hargs a List.mem_cons_self))
          (fun a h => hargs a (List.mem_cons_of_mem _ h)) p b hm

theorem tableOuts_framesWF (sw : Sw) (hr : RulesOk sw.table) (f : Frame) (hw : f.WF) (ingress : Nat) (pd : Option Bytes) :
    FramesWF (tableOuts sw f ingress pd) := by
  unfold tableOuts
  split
  · rename_i acts hl
    obtain ⟨r, hrm, rfl⟩ := lookup_mem hl
    rw [emittedWith_eq_rec]
    exact emittedRec_framesWF _ _ _ _ (fun _ _ p b hm => by simp at hm) (fun _ h => h) r.acts f hw (hr r hrm).2
  · intro p b hm; exact absurd hm (spec_missOuts_noFrames _ _ _ p b)

theorem emitted_framesWF (sw : Sw) (hr : RulesOk sw.table) (acts : List Action) (hargs : ∀ a ∈ acts, ArgsOk a) (f : Frame)
    (hw : f.WF) (ingress : Nat) : FramesWF (emitted sw acts f ingress) := by
  unfold emitted
  rw [emittedWith_eq_rec]
  exact emittedRec_framesWF _ _ _ _ (fun f' hw' => tableOuts_framesWF sw hr f' hw' ingress none)
    (fun f' hw' => (lookupPacket_spec 0 sw hr sw.stats f' hw' ingress none).2) acts f hw hargs

/-! ## which packet each emitted frame is the wire form of -/

theorem mem_emittedWith {ps : List Port} {tk : Frame → Nat → List Out} {tr : Frame → Nat → Frame} {acts : List Action}
    {f : Frame} {ingress : Nat} {o : Out} (h : o ∈ emittedWith ps tk tr acts f ingress) :
    (∃ i a, i < (effective acts).length ∧ (effective acts)[i]? = some a ∧
        o ∈ actOuts ps tk a (rewrite tr ingress ((effective acts).take i) f) ingress) ∨ o = .error 2 0 := by
  unfold emittedWith at h
  rcases List.mem_append.mp h with h | h
  · left
    obtain ⟨i, hi, ho⟩ := List.mem_flatMap.mp h
    have hlt : i < (effective acts).length := List.mem_range.mp hi
    cases ha : (effective acts)[i]? with
    | none => simp [ha] at ho
    | some a => simp only [ha] at ho; exact ⟨i, a, hlt, ha, ho⟩
  · right
    split at h
    · simpa using h
    · simp at h

theorem frame_of_actOuts {ps : List Port} {tk : Frame → Nat → List Out} {a : Action} {f' : Frame} {ingress p : Nat} {b : Bytes}
    (h : Out.frame p b ∈ actOuts ps tk a f' ingress) : b = serF f' ∨ Out.frame p b ∈ tk f' ingress := by
  have hout : ∀ port ml, Out.frame p b ∈ outOf ps tk port ml f' ingress → b = serF f' ∨ Out.frame p b ∈ tk f' ingress := by
    intro port ml h
    unfold outOf at h
    split at h
    · simp only [List.mem_singleton] at h; exact absurd h.symm (packetInOf_ne_frame _ _ _ _ _ _)
    · split at h
      · exact .inr h
      · simp only [List.mem_map, Out.frame.injEq] at h
        obtain ⟨_, _, _, rfl⟩ := h
        exact .inl rfl
  cases a with
  | output port ml => exact hout port (some ml) h
  | enqueue port q => exact hout port none h
  | _ => simp [actOuts] at h

theorem effective_args {acts : List Action} (h : ∀ a ∈ acts, ArgsOk a) (i : Nat) : ∀ a ∈ (effective acts).take i, ArgsOk a :=
  fun a ha => h a ((List.takeWhile_sublist _).subset (List.mem_of_mem_take ha))

theorem rewrite_wf (tr : Frame → Nat → Frame) (ingress : Nat) (htr : ∀ f, f.WF → (tr f ingress).WF) :
    ∀ (l : List Action) (f : Frame), f.WF → (∀ a ∈ l, ArgsOk a) → (rewrite tr ingress l f).WF := by
  intro l
  induction l with
  | nil => intro f hw _; exact hw
  | cons a rest ih =>
    intro f hw ha
    exact ih _ (step1_wf tr ingress htr a f hw (ha a List.mem_cons_self)) (fun a h => ha a (List.mem_cons_of_mem _ h))

theorem tableRewrite_wf (sw : Sw) (hr : RulesOk sw.table) (ingress : Nat) (f : Frame) (hw : f.WF) : (tableRewrite sw f ingress).WF :=
  (lookupPacket_spec 0 sw hr sw.stats f hw ingress none).2

/-- every frame of `Spec.emitted` is the wire form of the packet as rewritten up to the output that emits it: output `i` of
the action list, or output `j` of the flow entry reached through an output `i` to TABLE -/
theorem emitted_frame_witness (sw : Sw) (acts : List Action) (f : Frame) (ingress : Nat) (p : Nat) (b : Bytes)
    (hm : Out.frame p b ∈ emitted sw acts f ingress) :
    ∃ i, i < (effective acts).length ∧
      (b = serF (rewrite (tableRewrite sw) ingress ((effective acts).take i) f) ∨
       ∃ racts j, lookup sw.table ingress = some racts ∧ j < (effective racts).length ∧
         b = serF (rewrite (fun f _ => f) ingress ((effective racts).take j)
                    (rewrite (tableRewrite sw) ingress ((effective acts).take i) f))) := by
  unfold emitted at hm
  rcases mem_emittedWith hm with ⟨i, a, hi, _, ho⟩ | h
  · refine ⟨i, hi, ?_⟩
    rcases frame_of_actOuts ho with h | h
    · exact .inl h
    · right
      unfold tableOuts at h
      split at h
      · rename_i racts hl
        rcases mem_emittedWith h with ⟨j, a', hj, _, ho'⟩ | h'
        · rcases frame_of_actOuts ho' with h'' | h''
          · exact ⟨racts, j, hl, hj, h''⟩
          · simp at h''
        · cases h'
      · exact absurd h (spec_missOuts_noFrames _ _ _ p b)
  · cases h

end Pox.Actions
