import PoxModel.Model.Revent
/-! Helper lemmas for C05 (revent).  Core only.

* `Before`/`Sorted`/`Uniq`, `ins`/`sortDesc` lemmas: append + stable descending sort of a sorted list is sorted by
  (priority desc, subscription id asc).
* `SrcInv`: invariant of one source state, closed under every action (`SrcClosed`: an action on the source, the
  dispatch loop's removal, the global id counter moved by another source; `step_src`).  `Sync`: all sources carry the
  same counter.
* `Step`: the step function as a relation, one constructor per branch (`step_rel`); every invariant is one `cases` on it.
* `WF`/`FrameOK`: how the frames on the stack relate to the log; `Done`: a finished delivery was exact; `Tracked`:
  a delivery is on the stack with its snapshot or `Done` — preserved by every step.
* `MInv`: everything that holds of reachable machine states.  `Absent`/`Later`: a removed subscription stays removed
  and is never invoked by a delivery on its source that starts afterwards.  `GoodLog`: error suppression.
* `drive_eq_run` (the driver's early exit), `inited_closed` (lazy initialisation is permanent). -/
namespace Pox.Revent

/-- `a` is delivered before `b`: higher priority, or equal priority and subscribed earlier -/
def Before (a b : Entry) : Prop := b.prio < a.prio ∨ (a.prio = b.prio ∧ a.eid < b.eid)

def Sorted (l : List Entry) : Prop := l.Pairwise Before

theorem mem_ins {x y : Entry} {l : List Entry} : y ∈ ins x l ↔ y = x ∨ y ∈ l := by
  induction l with
  | nil => simp [ins]
  | cons z zs ih =>
    simp only [ins]
    split
    · simp
    · simp only [List.mem_cons, ih]; exact or_left_comm

theorem sorted_ins (x : Entry) (l : List Entry) (hs : Sorted l)
    (hx : ∀ y ∈ l, y.prio = x.prio → x.eid < y.eid) : Sorted (ins x l) := by
  induction l with
  | nil => simp [ins, Sorted]
  | cons y ys ih =>
    have hs' := List.pairwise_cons.mp hs
    simp only [ins]
    split
    · rename_i hle
      refine List.pairwise_cons.mpr ⟨?_, hs⟩
      intro z hz
      rcases List.mem_cons.mp hz with rfl | hz
      · rcases Int.lt_or_eq_of_le hle with h | h
        · exact .inl h
        · exact .inr ⟨h.symm, hx _ (List.mem_cons_self) h⟩
      · have hyz := hs'.1 z hz
        have : z.prio ≤ x.prio := by
          rcases hyz with h | h <;> omega
        rcases Int.lt_or_eq_of_le this with h | h
        · exact .inl h
        · exact .inr ⟨h.symm, hx _ (List.mem_cons_of_mem _ hz) h⟩
    · rename_i hgt
      refine List.pairwise_cons.mpr ⟨?_, ih hs'.2 (fun y hy => hx y (List.mem_cons_of_mem _ hy))⟩
      intro z hz
      rcases mem_ins.mp hz with rfl | hz
      · exact .inl (by omega)
      · exact hs'.1 z hz

theorem mem_foldr_ins {y e : Entry} {l : List Entry} : y ∈ l.foldr ins [e] ↔ y = e ∨ y ∈ l := by
  induction l with
  | nil => simp
  | cons z zs ih => simp only [List.foldr_cons, mem_ins, ih, List.mem_cons]; exact or_left_comm

theorem sorted_foldr_ins (l : List Entry) (e : Entry) (hs : Sorted l) (he : ∀ y ∈ l, y.eid < e.eid) :
    Sorted (l.foldr ins [e]) := by
  induction l with
  | nil => simp [Sorted]
  | cons x xs ih =>
    have hs' := List.pairwise_cons.mp hs
    simp only [List.foldr_cons]
    apply sorted_ins _ _ (ih hs'.2 (fun y hy => he y (List.mem_cons_of_mem _ hy)))
    intro y hy hp
    rcases mem_foldr_ins.mp hy with rfl | hy
    · exact he x List.mem_cons_self
    · rcases hs'.1 y hy with h | h <;> omega

theorem sortDesc_snoc (l : List Entry) (e : Entry) : sortDesc (l ++ [e]) = l.foldr ins [e] := by
  simp [sortDesc, List.foldr_append, ins]


theorem ins_perm (x : Entry) (l : List Entry) : (ins x l).Perm (x :: l) := by
  induction l with
  | nil => simp [ins]
  | cons y ys ih =>
    simp only [ins]
    split
    · exact List.Perm.refl _
    · exact ((List.Perm.cons y ih).trans (List.Perm.swap x y ys))

theorem foldr_ins_perm (l : List Entry) (e : Entry) : (l.foldr ins [e]).Perm (l ++ [e]) := by
  induction l with
  | nil => simp
  | cons x xs ih => exact (ins_perm x _).trans (List.Perm.cons x ih)

/-- no two entries of the list carry the same subscription id -/
def Uniq (l : List Entry) : Prop := l.Pairwise (fun a b => a.eid ≠ b.eid)

theorem Uniq.perm {l l' : List Entry} (h : l.Perm l') (hu : Uniq l) : Uniq l' :=
  (List.Perm.pairwise_iff (R := fun a b : Entry => a.eid ≠ b.eid) (fun hab => Ne.symm hab) h).mp hu

theorem uniq_snoc {l : List Entry} {e : Entry} (hu : Uniq l) (he : ∀ y ∈ l, y.eid < e.eid) : Uniq (l ++ [e]) := by
  refine List.pairwise_append.mpr ⟨hu, by simp, ?_⟩
  intro a ha b hb
  have := he a ha
  simp at hb; subst hb; omega

/-- what every reachable source state satisfies -/
structure SrcInv (s : Src) : Prop where
  sorted : ∀ et l, s.handlers et = some l → Sorted l
  uniq : ∀ et l, s.handlers et = some l → Uniq l
  bound : ∀ et l, s.handlers et = some l → ∀ e ∈ l, e.eid ≤ s.nextEid
  plain : ∀ et l, s.handlers et = some l → s.prioritized.contains et = false → ∀ e ∈ l, e.prio = 0

theorem SrcInv.init (d : List Nat) (a lazy : Bool) : SrcInv (Src.init d a lazy) := by
  constructor <;> intro et l h <;> simp [Src.init] at h

theorem SrcInv.subs {s : Src} (h : SrcInv s) (et : Nat) :
    Sorted (s.subscribers et) ∧ Uniq (s.subscribers et) ∧ (∀ e ∈ s.subscribers et, e.eid ≤ s.nextEid) ∧
    (s.prioritized.contains et = false → ∀ e ∈ s.subscribers et, e.prio = 0) := by
  unfold Src.subscribers
  cases hh : s.handlers et with
  | none => simp [Sorted, Uniq]
  | some l => exact ⟨h.sorted et l hh, h.uniq et l hh, h.bound et l hh, h.plain et l hh⟩

theorem addCore_nextEid (s : Src) (et hid prio once weak) : (addCore s et hid prio once weak).1.nextEid = s.nextEid + 1 := rfl

theorem SrcInv.addCore {s : Src} (h : SrcInv s) (et hid : Nat) (prio : Int) (once : Bool) (weak : Option Nat) :
    SrcInv (addCore s et hid prio once weak).1 := by
  obtain ⟨hso, hun, hbo, hpl⟩ := h.subs et
  have hlt : ∀ y ∈ s.subscribers et, y.eid < (⟨prio, hid, once, s.nextEid + 1, weak⟩ : Entry).eid := by
    intro y hy; have := hbo y hy; simp; omega
  cases hpr : (prio != 0 || s.prioritized.contains et) with
  | true =>
    constructor
    · intro k l hk
      simp only [Pox.Revent.addCore, hpr, if_true] at hk
      split at hk
      · cases hk; rw [sortDesc_snoc]; exact sorted_foldr_ins _ _ hso hlt
      · exact h.sorted k l hk
    · intro k l hk
      simp only [Pox.Revent.addCore, hpr, if_true] at hk
      split at hk
      · cases hk; rw [sortDesc_snoc]; exact (uniq_snoc hun hlt).perm (foldr_ins_perm _ _).symm
      · exact h.uniq k l hk
    · intro k l hk e he
      simp only [Pox.Revent.addCore, hpr, if_true] at hk ⊢
      split at hk
      · cases hk; rw [sortDesc_snoc] at he
        rcases mem_foldr_ins.mp he with rfl | he
        · simp
        · have := hbo e he; omega
      · have := h.bound k l hk e he; omega
    · intro k l hk hc e he
      simp only [Pox.Revent.addCore, hpr, if_true] at hk hc
      split at hk
      · rename_i hke; subst hke
        exfalso
        simp only [Bool.true_and] at hc
        split at hc
        · simp at hc
        · rename_i hn; simp at hn; simp [hn] at hc
      · apply h.plain k l hk _ e he
        split at hc
        · simp at hc; simpa using hc.2
        · exact hc
  | false =>
    simp only [Bool.or_eq_false_iff, bne_eq_false_iff_eq] at hpr
    obtain ⟨hp0, hnc⟩ := hpr
    have hpr' : (prio != 0 || s.prioritized.contains et) = false := by rw [hnc]; simp [hp0]
    constructor
    · intro k l hk
      simp only [Pox.Revent.addCore, hpr'] at hk
      split at hk
      · cases hk
        refine List.pairwise_append.mpr ⟨hso, by simp, ?_⟩
        intro a ha b hb
        simp at hb; subst hb
        exact .inr ⟨by simp [hpl hnc a ha, hp0], hlt a ha⟩
      · exact h.sorted k l hk
    · intro k l hk
      simp only [Pox.Revent.addCore, hpr'] at hk
      split at hk
      · cases hk; exact uniq_snoc hun hlt
      · exact h.uniq k l hk
    · intro k l hk e he
      simp only [Pox.Revent.addCore, hpr'] at hk ⊢
      split at hk
      · cases hk
        rcases List.mem_append.mp he with he | he
        · have := hbo e he; omega
        · simp at he; subst he; simp
      · have := h.bound k l hk e he; omega
    · intro k l hk hc e he
      simp only [Pox.Revent.addCore, hpr'] at hk hc
      simp at hc
      split at hk
      · cases hk
        rcases List.mem_append.mp he with he | he
        · exact hpl hnc e he
        · simp at he; subst he; exact hp0
      · exact h.plain k l hk (by simpa using hc) e he


theorem removeWhere_fields (s : Src) (p : Entry → Bool) (et' : Option Nat) :
    (removeWhere s p et').1.nextEid = s.nextEid ∧ (removeWhere s p et').1.prioritized = s.prioritized ∧
    (removeWhere s p et').1.declared = s.declared ∧ (removeWhere s p et').1.acceptAll = s.acceptAll ∧
    (removeWhere s p et').1.inited = s.inited := by
  cases et' with
  | none => simp [removeWhere]
  | some et =>
    simp only [removeWhere]
    split <;> simp

/-- every list after a removal is a list from before, possibly filtered -/
theorem removeWhere_handlers (s : Src) (p : Entry → Bool) (et' : Option Nat) (k : Nat) (l' : List Entry)
    (h : (removeWhere s p et').1.handlers k = some l') :
    ∃ l, s.handlers k = some l ∧ (l' = l ∨ l' = dropMatching p l) := by
  cases et' with
  | none =>
    simp only [removeWhere, Option.map_eq_some_iff] at h
    obtain ⟨l, hl, rfl⟩ := h
    exact ⟨l, hl, .inr rfl⟩
  | some et =>
    simp only [removeWhere] at h
    split at h
    · exact ⟨l', h, .inl rfl⟩
    · rename_i l hl
      simp only at h
      split at h
      · rename_i hk; subst hk; cases h; exact ⟨l, hl, .inr rfl⟩
      · exact ⟨l', h, .inl rfl⟩

theorem SrcInv.removeWhere {s : Src} (h : SrcInv s) (p : Entry → Bool) (et' : Option Nat) :
    SrcInv (removeWhere s p et').1 := by
  obtain ⟨hn, hp, -, -, -⟩ := removeWhere_fields s p et'
  constructor
  · intro k l' hk
    obtain ⟨l, hl, rfl | rfl⟩ := removeWhere_handlers s p et' k l' hk
    · exact h.sorted k _ hl
    · exact List.Pairwise.filter _ (h.sorted k l hl)
  · intro k l' hk
    obtain ⟨l, hl, rfl | rfl⟩ := removeWhere_handlers s p et' k l' hk
    · exact h.uniq k _ hl
    · exact List.Pairwise.filter _ (h.uniq k l hl)
  · intro k l' hk e he
    rw [hn]
    obtain ⟨l, hl, rfl | rfl⟩ := removeWhere_handlers s p et' k l' hk
    · exact h.bound k _ hl e he
    · exact h.bound k l hl e (List.mem_filter.mp he).1
  · intro k l' hk hc e he
    rw [hp] at hc
    obtain ⟨l, hl, rfl | rfl⟩ := removeWhere_handlers s p et' k l' hk
    · exact h.plain k _ hl hc e he
    · exact h.plain k l hl hc e (List.mem_filter.mp he).1

theorem SrcInv.bindAll {s : Src} (h : SrcInv s) (hb : Nat) (prio : Int) (weak : Option Nat) (ets : List Nat) :
    SrcInv (bindAll s hb prio weak ets).1 := by
  induction ets generalizing s with
  | nil => exact h
  | cons et ets ih =>
    simp only [Pox.Revent.bindAll]
    split
    · exact ih (h.addCore et (hb + et) prio false weak)
    · exact ih h

theorem SrcInv.touch {s : Src} (h : SrcInv s) : SrcInv s.touch := ⟨h.sorted, h.uniq, h.bound, h.plain⟩

/-- `removeListeners` only ever filters lists: counter and priority marks untouched, every list afterwards is a sublist
    of the list that was there before, and the dictionary, once there, stays -/
theorem rmMany_sub (s : Src) (alt : Bool) (l : List (Nat × Nat)) :
    (rmMany s alt l).1.nextEid = s.nextEid ∧ (rmMany s alt l).1.prioritized = s.prioritized ∧
    (s.inited = true → (rmMany s alt l).1.inited = true) ∧
    ∀ k l', (rmMany s alt l).1.handlers k = some l' → ∃ l0, s.handlers k = some l0 ∧ l'.Sublist l0 := by
  induction l generalizing s alt with
  | nil => exact ⟨rfl, rfl, id, fun k l' h => ⟨l', h, List.Sublist.refl _⟩⟩
  | cons p rest ih =>
    obtain ⟨et, eid⟩ := p
    simp only [rmMany]
    split
    · exact ⟨rfl, rfl, fun _ => rfl, fun k l' h => ⟨l', h, List.Sublist.refl _⟩⟩
    · rename_i l0 hl0
      obtain ⟨h1, h2, h3, h4⟩ := ih (rmOne s et eid l0) (alt || l0.any (fun e => e.eid == eid))
      refine ⟨h1, h2, fun _ => h3 rfl, ?_⟩
      intro k l' hk
      obtain ⟨l1, hl1, hsub⟩ := h4 k l' hk
      simp only [rmOne] at hl1
      split at hl1
      · rename_i hke; subst hke; cases hl1
        exact ⟨l0, hl0, hsub.trans List.filter_sublist⟩
      · exact ⟨l1, hl1, hsub⟩

theorem SrcInv.rmMany {s : Src} (h : SrcInv s) (alt : Bool) (l : List (Nat × Nat)) : SrcInv (rmMany s alt l).1 := by
  obtain ⟨h1, h2, _, h4⟩ := rmMany_sub s alt l
  constructor
  · intro k l' hk; obtain ⟨l0, hl0, hsub⟩ := h4 k l' hk; exact List.Pairwise.sublist hsub (h.sorted k l0 hl0)
  · intro k l' hk; obtain ⟨l0, hl0, hsub⟩ := h4 k l' hk; exact List.Pairwise.sublist hsub (h.uniq k l0 hl0)
  · intro k l' hk e he; obtain ⟨l0, hl0, hsub⟩ := h4 k l' hk; rw [h1]; exact h.bound k l0 hl0 e (hsub.subset he)
  · intro k l' hk hc e he; obtain ⟨l0, hl0, hsub⟩ := h4 k l' hk; rw [h2] at hc; exact h.plain k l0 hl0 hc e (hsub.subset he)

theorem SrcInv.doAction {s : Src} (h : SrcInv s) (a : Action) : SrcInv (doAction s a).1 := by
  cases a with
  | add et hid prio once weak =>
    simp only [Pox.Revent.doAction]; split
    · exact h.addCore et hid prio once weak
    · exact h.touch
  | bind meths pfx hb prio weak =>
    simp only [Pox.Revent.doAction]; split
    · exact h
    · exact h.bindAll _ prio weak _
  | rmHandler hid et => exact h.touch.removeWhere _ _
  | rmEid eid et => exact h.touch.removeWhere _ _
  | rmPair et eid et' => exact h.touch.removeWhere _ _
  | rmMany l => exact h.rmMany false l
  | clear => constructor <;> intro k l hk <;> simp [Pox.Revent.doAction] at hk
  | dropOwner o => exact h.removeWhere _ _
  | count => simp only [Pox.Revent.doAction]; split <;> exact h
  | raise et form noErr => exact h.touch

theorem SrcInv.rmEidAll {s : Src} (h : SrcInv s) (x : Nat) : SrcInv (rmEidAll s x) := h.removeWhere _ _


/-! ### the step relation: one constructor per branch of `step` -/

@[simp] theorem touch_subscribers (s : Src) (et : Nat) : s.touch.subscribers et = s.subscribers et := rfl
@[simp] theorem touch_nextEid (s : Src) : s.touch.nextEid = s.nextEid := rfl
@[simp] theorem updSrc_self (srcs : Nat → Src) (i : Nat) (s : Src) : updSrc srcs i s i = s := by simp [updSrc]

/-- how source `j` can change when one action is performed somewhere: not at all, by an action on itself, or (an
    action on another source `i` moved the global event-id counter) in its counter only -/
inductive SrcStep (srcs : Nat → Src) (j : Nat) : Src → Prop
  | same : SrcStep srcs j (srcs j)
  | act (a : Action) : SrcStep srcs j (doAction (srcs j) a).1
  | bump (i : Nat) (a : Action) : SrcStep srcs j { srcs j with nextEid := (doAction (srcs i) a).1.nextEid }

/-- the two things `exec` can do: finish at once with a result (`quiet`), or enter a dispatch loop (`enter`) -/
inductive ExecR (m : M) (g : Bool) : M → Prop
  | quiet (srcs' : Nat → Src) (r : Res) (n : Nat) (gn : List (Nat × Bool)) (evOf' : Nat → Option (Nat × Nat)) (hn : m.nextFid ≤ n)
      (hs : ∀ j, SrcStep m.srcs j (srcs' j)) (hgn : ∃ d, gn = m.gone ++ d) :
      ExecR m g { m with srcs := srcs', pend := some (r, g), nextFid := n, gone := gn, evOf := evOf' }
  | enter (i et ev : Nat) (noErr : Bool) (evOf' : Nat → Option (Nat × Nat)) (hd : (m.srcs i).isDeclared et = true) :
      ExecR m g (push { m with nextFid := m.nextFid + 1, srcs := updSrc m.srcs i (m.srcs i).touch, evOf := evOf' }
                      m.nextFid i et ev noErr g)

theorem updSrc_touch_step (srcs : Nat → Src) (i j : Nat) : SrcStep srcs j (updSrc srcs i (srcs i).touch j) := by
  unfold updSrc
  split
  · rename_i h; subst h; exact .act (.raise 0 .inst false)
  · exact .same

theorem doActionM_step (srcs : Nat → Src) (i : Nat) (a : Action) (j : Nat) : SrcStep srcs j ((doActionM srcs i a).1 j) := by
  have hset : ∀ b : Action, SrcStep srcs j (setSrc srcs i (doAction (srcs i) b).1 j) := by
    intro b
    unfold setSrc
    split
    · rename_i h; subst h; exact .act b
    · exact .bump i b
  cases a with
  | dropOwner o => exact .act (.dropOwner o)
  | add et hid prio once weak => exact hset _
  | bind meths pfx hb prio weak => exact hset _
  | rmHandler hid et => exact hset _
  | rmEid eid et => exact hset _
  | rmPair et eid et' => exact hset _
  | rmMany l => exact hset _
  | clear => exact hset _
  | count => exact hset _
  | raise et form noErr => exact hset _

theorem exec_rel (m : M) (sa : SAct) (g : Bool) : ExecR m g (exec m sa g) := by
  obtain ⟨i, a⟩ := sa
  have hq : ∀ (srcs' : Nat → Src) (r : Res) (n : Nat) (gn : List (Nat × Bool)) (evOf' : Nat → Option (Nat × Nat)), m.nextFid ≤ n →
      (∀ j, SrcStep m.srcs j (srcs' j)) → (∃ d, gn = m.gone ++ d) →
      ExecR m g { m with srcs := srcs', pend := some (r, g), nextFid := n, gone := gn, evOf := evOf' } :=
    fun s r n gn ev h1 h2 h3 => .quiet s r n gn ev h1 h2 h3
  have hother : ExecR m g { m with srcs := (doActionM m.srcs i a).1, pend := some ((doActionM m.srcs i a).2, g) } :=
    hq _ _ m.nextFid m.gone m.evOf (Nat.le_refl _) (doActionM_step m.srcs i a) ⟨[], by simp⟩
  cases a with
  | raise et0 form noErr =>
    have hm1 : ∀ (r : Res) (evOf' : Nat → Option (Nat × Nat)),
        ExecR m g { m with nextFid := m.nextFid + 1, srcs := updSrc m.srcs i (m.srcs i).touch, evOf := evOf', pend := some (r, g) } :=
      fun r ev => hq _ r (m.nextFid + 1) m.gone ev (Nat.le_succ _) (updSrc_touch_step m.srcs i) ⟨[], by simp⟩
    have hstart : ∀ (ev et : Nat) (evOf' : Nat → Option (Nat × Nat)), ExecR m g (if (m.srcs i).isDeclared et then
          push { m with nextFid := m.nextFid + 1, srcs := updSrc m.srcs i (m.srcs i).touch, evOf := evOf' } m.nextFid i et ev noErr g
        else { m with nextFid := m.nextFid + 1, srcs := updSrc m.srcs i (m.srcs i).touch, evOf := evOf', pend := some (.exc .revent, g) }) := by
      intro ev et evOf'
      split
      · rename_i hd; exact .enter i et ev noErr evOf' hd
      · exact hm1 _ _
    simp only [exec]
    cases form with
    | junk isClass => exact hm1 _ _
    | inst => exact hstart _ _ _
    | again f0 => exact hstart _ _ _
    | fwd => exact hstart _ _ _
    | cls =>
      simp only
      split
      · exact hm1 _ _
      · exact hm1 _ _
      · exact hstart _ _ _
  | dropOwner o =>
    simp only [exec]
    split
    · exact hq m.srcs _ m.nextFid m.gone m.evOf (Nat.le_refl _) (fun _ => .same) ⟨[], by simp⟩
    · exact hq _ _ m.nextFid _ m.evOf (Nat.le_refl _) (doActionM_step m.srcs i (.dropOwner o)) ⟨_, rfl⟩
  | add et hid prio once weak => exact hother
  | bind meths pfx hb prio weak => exact hother
  | rmHandler hid et => exact hother
  | rmEid eid et => exact hother
  | rmPair et eid et' => exact hother
  | rmMany l => exact hother
  | clear => exact hother
  | count => exact hother

theorem exec_srcs {m m' : M} {g : Bool} (he : ExecR m g m') (j : Nat) : SrcStep m.srcs j (m'.srcs j) := by
  cases he with
  | quiet srcs' r n gn evOf' hn hs hgn => exact hs j
  | enter i et ev noErr evOf' hd => exact updSrc_touch_step m.srcs i j

inductive Step (β : Beh) (m : M) : M → Prop
  | deliverAbort (k : Exc) (fr : Frame) (st : List Frame) (hp : m.pend = some (.exc k, false)) (hs : m.stack = fr :: st) :
      Step β m (abort { m with pend := none, log := m.log ++ [.res (.exc k)] } fr st k)
  | deliver (r : Res) (g : Bool) (hp : m.pend = some (r, g)) :
      Step β m { m with pend := none, log := m.log ++ [.res r] }
  | idle : Step β m m
  | topExec (a : SAct) (as : List SAct) (m' : M) (hp : m.pend = none) (hs : m.stack = [])
      (he : ExecR { m with todo := as } true m') : Step β m m'
  | hExec (fr : Frame) (st : List Frame) (e : Entry) (a : SAct) (g : Bool) (acts : List (SAct × Bool)) (r : Ret) (m' : M)
      (hp : m.pend = none) (hs : m.stack = fr :: st) (hc : fr.cur = some (e, (a, g) :: acts, r))
      (he : ExecR { m with stack := { fr with cur := some (e, acts, r) } :: st } g m') : Step β m m'
  | hAbort (fr : Frame) (st : List Frame) (e : Entry) (k : Exc) (hp : m.pend = none) (hs : m.stack = fr :: st)
      (hc : fr.cur = some (e, [], .exc k)) : Step β m (abort m fr st k)
  | hRet (fr : Frame) (st : List Frame) (e : Entry) (r : Ret) (hp : m.pend = none) (hs : m.stack = fr :: st)
      (hc : fr.cur = some (e, [], r)) (hr : r.isExc = false) : Step β m (hret m fr st e r)
  | fFinish (fr : Frame) (st : List Frame) (hp : m.pend = none) (hs : m.stack = fr :: st) (hc : fr.cur = none)
      (hr : fr.rest = []) : Step β m (finish m fr st false)
  | fInvoke (fr : Frame) (st : List Frame) (e : Entry) (rest : List Entry) (live : Bool) (acts : List (SAct × Bool)) (ret : Ret)
      (halts' : Nat → Bool) (srcs' : Nat → Src) (hp : m.pend = none) (hs : m.stack = fr :: st) (hc : fr.cur = none) (hr : fr.rest = e :: rest)
      (hsrc : srcs' = m.srcs ∨ srcs' = updSrc m.srcs fr.src (rmEidAll (m.srcs fr.src) e.eid))
      (hlive : live = true → (∀ p ∈ m.gone, p.1 ≠ e.eid) ∧
          (m.v.oncePre = true → e.once = true →
            srcs' = updSrc m.srcs fr.src (rmEidAll (m.srcs fr.src) e.eid) ∧
            ∃ k, ((m.srcs fr.src).subscribers k).any (matchEid e.eid) = true))
      (hdead : live = false → (∃ p ∈ m.gone, p.1 = e.eid) ∨ (m.v.oncePre = true ∧ e.once = true)) :
      Step β m { m with srcs := srcs', log := m.log ++ [.call fr.fid fr.src e live], halts := halts',
                        stack := { fr with rest := rest, cur := some (e, acts, ret) } :: st }

theorem claim_none {v : Variant} {srcs : Nat → Src} {i : Nat} {e : Entry} (h : claim v srcs i e = none) :
    v.oncePre = true ∧ e.once = true := by
  unfold claim at h
  split at h
  · rename_i hc; simpa using hc
  · cases h

theorem claim_some {v : Variant} {srcs srcs' : Nat → Src} {i : Nat} {e : Entry} (h : claim v srcs i e = some srcs') :
    (srcs' = srcs ∨ srcs' = updSrc srcs i (rmEidAll (srcs i) e.eid)) ∧
    (v.oncePre = true → e.once = true →
      srcs' = updSrc srcs i (rmEidAll (srcs i) e.eid) ∧ ∃ k, ((srcs i).subscribers k).any (matchEid e.eid) = true) := by
  unfold claim at h
  split at h
  · split at h
    · rename_i s' heq
      cases h
      simp only [removeWhere, Prod.mk.injEq, Res.ok.injEq, Val.bool.injEq] at heq
      obtain ⟨h1, h2⟩ := heq
      have hs' : s' = rmEidAll (srcs i) e.eid := by rw [← h1]; rfl
      obtain ⟨k, _, hk⟩ := List.any_eq_true.mp h2
      exact ⟨.inr (by rw [hs']), fun _ _ => ⟨by rw [hs'], k, hk⟩⟩
    · cases h
  · rename_i hc
    cases h
    refine ⟨.inl rfl, fun h1 h2 => ?_⟩
    simp [h1, h2] at hc

theorem step_rel (β : Beh) (m : M) : Step β m (step β m) := by
  unfold step
  split
  · rename_i r g hp
    split
    · rename_i k fr st hst
      exact .deliverAbort k fr st hp hst
    · exact .deliver _ _ hp
  · rename_i hp
    split
    · rename_i hs
      split
      · exact .idle
      · rename_i a as ht
        exact .topExec a as _ hp hs (exec_rel _ _ _)
    · rename_i fr st hs
      split
      · rename_i e a g acts r hc
        exact .hExec fr st e a g acts r _ hp hs hc (exec_rel _ _ _)
      · rename_i e k hc
        exact .hAbort fr st e k hp hs hc
      · rename_i e r hne hc
        refine .hRet fr st e r hp hs hc ?_
        cases r <;> simp [Ret.isExc] at hne ⊢
      · rename_i hc
        split
        · rename_i hr; exact .fFinish fr st hp hs hc hr
        · rename_i e rest hr
          split
          · rename_i hcl
            exact .fInvoke fr st e rest false _ _ m.halts m.srcs hp hs hc hr (.inl rfl) (by intro h; cases h)
              (fun _ => .inr (claim_none hcl))
          · rename_i srcs' hcl
            obtain ⟨h1, h2⟩ := claim_some hcl
            split
            · rename_i x zombie hfind
              have hmem := List.mem_of_find?_eq_some hfind
              have hx : x = e.eid := by simpa using List.find?_some hfind
              exact .fInvoke fr st e rest false _ _ m.halts srcs' hp hs hc hr h1 (by intro h; cases h)
                (fun _ => .inl ⟨_, hmem, hx⟩)
            · rename_i hnone
              refine .fInvoke fr st e rest true _ _ _ srcs' hp hs hc hr h1 ?_ (by intro h; cases h)
              intro _
              refine ⟨?_, h2⟩
              intro p hp'
              have := List.find?_eq_none.mp hnone p hp'
              simpa using this

/-! ### the frame invariant -/

@[simp] theorem callsOf_append (f : Nat) (l d : List Ev) : callsOf f (l ++ d) = callsOf f l ++ callsOf f d := by
  induction l with
  | nil => rfl
  | cons ev l ih => cases ev <;> simp only [List.cons_append, callsOf, ih] <;> split <;> simp

@[simp] theorem retsOf_append (f : Nat) (l d : List Ev) : retsOf f (l ++ d) = retsOf f l ++ retsOf f d := by
  induction l with
  | nil => rfl
  | cons ev l ih => cases ev <;> simp only [List.cons_append, retsOf, ih] <;> split <;> simp

/-- the entry of the handler that is running in this frame, if any -/
def curEntry (fr : Frame) : List Entry :=
  match fr.cur with
  | some (e, _, _) => [e]
  | none => []

/-- how a frame on the stack relates to the log -/
structure FrameOK (log : List Ev) (fr : Frame) : Prop where
  calls : callsOf fr.fid log ++ fr.rest = fr.snap
  rets : callsOf fr.fid log = (retsOf fr.fid log).map (·.1) ++ curEntry fr
  nostop : ∀ p ∈ retsOf fr.fid log, stopsAt p.2.1 p.2.2 = false

theorem FrameOK.of_eq {log log' : List Ev} {fr : Frame} (h : FrameOK log fr)
    (hc : callsOf fr.fid log' = callsOf fr.fid log) (hr : retsOf fr.fid log' = retsOf fr.fid log) : FrameOK log' fr :=
  ⟨by rw [hc]; exact h.calls, by rw [hc, hr]; exact h.rets, by rw [hr]; exact h.nostop⟩

structure WF (m : M) : Prop where
  dec : m.stack.Pairwise (fun a b => b.fid < a.fid)
  lt : ∀ fr ∈ m.stack, fr.fid < m.nextFid
  ok : ∀ fr ∈ m.stack, FrameOK m.log fr
  fresh : ∀ f, m.nextFid ≤ f → callsOf f m.log = [] ∧ retsOf f m.log = []
  waiting : ∀ fr ∈ m.stack.tail, fr.cur.isSome = true
  pendcur : m.pend.isSome = true → ∀ fr ∈ m.stack.head?, fr.cur.isSome = true

theorem WF.init (v : Variant) (srcs : Nat → Src) (ops : List SAct) : WF (M.init v srcs ops) := by
  constructor <;> simp [M.init, callsOf, retsOf]

/-- the log grew by events that do not concern delivery `f` -/
def SameFor (f : Nat) (log log' : List Ev) : Prop :=
  callsOf f log' = callsOf f log ∧ retsOf f log' = retsOf f log

theorem WF.pop {m m' : M} (hw : WF m) {fr : Frame} {st : List Frame} (hs : m.stack = fr :: st)
    (hst : m'.stack = st) (hn : m'.nextFid = m.nextFid)
    (hlog : ∀ f, f ≠ fr.fid → SameFor f m.log m'.log) : WF m' := by
  have hdec := hw.dec; rw [hs] at hdec
  have hdec' := List.pairwise_cons.mp hdec
  have hwait := hw.waiting; rw [hs] at hwait; simp only [List.tail_cons] at hwait
  constructor
  · rw [hst]; exact hdec'.2
  · intro fr' hfr'; rw [hst] at hfr'; rw [hn]; exact hw.lt fr' (by rw [hs]; exact List.mem_cons_of_mem _ hfr')
  · intro fr' hfr'; rw [hst] at hfr'
    have hne : fr'.fid ≠ fr.fid := by have := hdec'.1 fr' hfr'; omega
    exact (hw.ok fr' (by rw [hs]; exact List.mem_cons_of_mem _ hfr')).of_eq (hlog _ hne).1 (hlog _ hne).2
  · intro f hf
    have hne : f ≠ fr.fid := by have := hw.lt fr (by rw [hs]; exact List.mem_cons_self); omega
    rw [(hlog f hne).1, (hlog f hne).2]; exact hw.fresh f (by omega)
  · intro fr' hfr'; rw [hst] at hfr'; exact hwait fr' (List.mem_of_mem_tail hfr')
  · intro _ fr' hfr'; rw [hst] at hfr'
    exact hwait fr' (List.mem_of_mem_head? hfr')

theorem WF.modTop {m m' : M} (hw : WF m) {fr fr' : Frame} {st : List Frame} (hs : m.stack = fr :: st)
    (hst : m'.stack = fr' :: st) (hfid : fr'.fid = fr.fid) (hn : m'.nextFid = m.nextFid)
    (hlog : ∀ f, f ≠ fr.fid → SameFor f m.log m'.log) (hok : FrameOK m'.log fr')
    (hpend : m'.pend.isSome = true → fr'.cur.isSome = true) : WF m' := by
  have hdec := hw.dec; rw [hs] at hdec
  have hdec' := List.pairwise_cons.mp hdec
  have hwait := hw.waiting; rw [hs] at hwait; simp only [List.tail_cons] at hwait
  constructor
  · rw [hst]; exact List.pairwise_cons.mpr ⟨by rw [hfid]; exact hdec'.1, hdec'.2⟩
  · intro x hx; rw [hst] at hx; rw [hn]
    rcases List.mem_cons.mp hx with rfl | hx
    · rw [hfid]; exact hw.lt fr (by rw [hs]; exact List.mem_cons_self)
    · exact hw.lt x (by rw [hs]; exact List.mem_cons_of_mem _ hx)
  · intro x hx; rw [hst] at hx
    rcases List.mem_cons.mp hx with rfl | hx
    · exact hok
    · have hne : x.fid ≠ fr.fid := by have := hdec'.1 x hx; omega
      exact (hw.ok x (by rw [hs]; exact List.mem_cons_of_mem _ hx)).of_eq (hlog _ hne).1 (hlog _ hne).2
  · intro f hf
    have hne : f ≠ fr.fid := by have := hw.lt fr (by rw [hs]; exact List.mem_cons_self); omega
    rw [(hlog f hne).1, (hlog f hne).2]; exact hw.fresh f (by omega)
  · rw [hst]; exact hwait
  · intro hp x hx; rw [hst] at hx; simp at hx; subst hx; exact hpend hp

theorem SameFor.refl (f : Nat) (log : List Ev) : SameFor f log log := ⟨rfl, rfl⟩


theorem WF.exec {m m' : M} {g : Bool} (hw : WF m) (hp : m.pend = none)
    (htop : ∀ fr ∈ m.stack.head?, fr.cur.isSome = true) (he : ExecR m g m') : WF m' := by
  cases he with
  | quiet srcs' r n gn evOf' hn hs hgn =>
    exact ⟨hw.dec, fun fr hfr => Nat.lt_of_lt_of_le (hw.lt fr hfr) hn, hw.ok,
           fun f hf => hw.fresh f (Nat.le_trans hn hf), hw.waiting, fun _ => htop⟩
  | enter i et ev noErr evOf' hd =>
    have hall : ∀ fr ∈ m.stack, fr.cur.isSome = true := by
      intro fr hfr
      cases hst : m.stack with
      | nil => rw [hst] at hfr; cases hfr
      | cons a as =>
        rw [hst] at hfr
        rcases List.mem_cons.mp hfr with rfl | h
        · exact htop fr (by rw [hst]; simp)
        · exact hw.waiting fr (by rw [hst]; exact h)
    have hf := hw.fresh m.nextFid (Nat.le_refl _)
    constructor
    · simp only [push]
      exact List.pairwise_cons.mpr ⟨fun fr hfr => hw.lt fr hfr, hw.dec⟩
    · intro fr hfr
      simp only [push, List.mem_cons] at hfr ⊢
      rcases hfr with rfl | hfr
      · exact Nat.lt_succ_self _
      · exact Nat.lt_succ_of_lt (hw.lt fr hfr)
    · intro fr hfr
      simp only [push, List.mem_cons] at hfr ⊢
      rcases hfr with rfl | hfr
      · constructor
        · simp [callsOf, hf.1]
        · simp [callsOf, retsOf, hf.1, hf.2, curEntry]
        · simp [retsOf, hf.2]
      · exact (hw.ok fr hfr).of_eq (by simp [callsOf]) (by simp [retsOf])
    · intro f hf'
      simp only [push] at hf' ⊢
      have := hw.fresh f (by omega)
      simp [callsOf, retsOf, this.1, this.2]
    · simpa [push] using hall
    · intro h; simp [push, hp] at h

theorem WF.step {β : Beh} {m m' : M} (hw : WF m) (h : Step β m m') : WF m' := by
  cases h with
  | deliverAbort k fr st hp hs =>
    refine hw.pop hs rfl rfl ?_
    intro f hf
    have hc : (fr.cur.isSome = true) := hw.pendcur (by simp [hp]) fr (by simp [hs])
    simp only [abort]
    cases hcur : fr.cur with
    | none => simp [hcur] at hc
    | some c => obtain ⟨e, acts, r⟩ := c; simp [SameFor, callsOf, retsOf, Ne.symm hf]
  | deliver r g hp =>
    exact ⟨hw.dec, hw.lt, fun fr hfr => (hw.ok fr hfr).of_eq (by simp [callsOf]) (by simp [retsOf]),
           fun f hf => by have := hw.fresh f hf; simp [callsOf, retsOf, this.1, this.2], hw.waiting, by simp⟩
  | idle => exact hw
  | topExec a as m' hp hs he =>
    have hw1 : WF { m with todo := as } := ⟨hw.dec, hw.lt, hw.ok, hw.fresh, hw.waiting, hw.pendcur⟩
    exact hw1.exec hp (by simp [hs]) he
  | hExec fr st e a g acts r m' hp hs hc he =>
    have hok := hw.ok fr (by rw [hs]; exact List.mem_cons_self)
    have hw1 : WF { m with stack := { fr with cur := some (e, acts, r) } :: st } := by
      refine hw.modTop (fr' := { fr with cur := some (e, acts, r) }) hs rfl rfl rfl (fun f _ => SameFor.refl _ _) ?_ (by simp)
      exact ⟨hok.calls, by have := hok.rets; simpa [curEntry, hc] using this, hok.nostop⟩
    exact hw1.exec hp (by simp) he
  | hAbort fr st e k hp hs hc =>
    refine hw.pop hs rfl rfl ?_
    intro f hf
    simp [abort, hc, SameFor, callsOf, retsOf, Ne.symm hf]
  | hRet fr st e r hp hs hc hr =>
    have hok := hw.ok fr (by rw [hs]; exact List.mem_cons_self)
    simp only [hret]
    split
    · refine hw.pop hs rfl rfl ?_
      intro f hf
      simp [finish, SameFor, callsOf, retsOf, Ne.symm hf]
    · rename_i hh
      refine hw.modTop (fr' := { fr with cur := none }) hs rfl rfl rfl ?_ ?_ (by simp [hp])
      · intro f hf; simp [SameFor, callsOf, retsOf, Ne.symm hf]
      · constructor
        · simpa [callsOf] using hok.calls
        · have := hok.rets; simp [curEntry, hc] at this; simp [callsOf, retsOf, curEntry, this]
        · intro p hp'
          simp [retsOf] at hp'
          rcases hp' with hp' | rfl
          · exact hok.nostop p hp'
          · simpa using hh
  | fFinish fr st hp hs hc hr =>
    refine hw.pop hs rfl rfl ?_
    intro f hf
    simp [finish, SameFor, callsOf, retsOf]
  | fInvoke fr st e rest live acts ret halts' srcs' hp hs hc hr hsrc hlive hdead =>
    have hok := hw.ok fr (by rw [hs]; exact List.mem_cons_self)
    refine hw.modTop (fr' := _) hs rfl rfl rfl ?_ ?_ (by simp)
    · intro f hf; simp [SameFor, callsOf, retsOf, Ne.symm hf]
    · constructor
      · have := hok.calls; rw [hr] at this; simpa [callsOf] using this
      · have := hok.rets; simp [curEntry, hc] at this; simp [callsOf, retsOf, curEntry, this]
      · simpa [retsOf] using hok.nostop

theorem WF.run {β : Beh} {m : M} (hw : WF m) (n : Nat) : WF (run β n m) := by
  induction n generalizing m with
  | zero => exact hw
  | succ n ih => exact ih (hw.step (step_rel β m))


/-! ### a finished delivery, read off the log -/

/-- Delivery `f`, which started with the handler list `L`, is over and was exact: the handlers invoked are a prefix of
    `L` in order (hence once each), each of them returned / raised, none but the last stopped the delivery, and the
    prefix is all of `L` unless the last one invoked stopped it (halting return value or exception). -/
def Done (f : Nat) (L : List Entry) (log : List Ev) : Prop :=
  callsOf f log <+: L ∧ (retsOf f log).map (·.1) = callsOf f log ∧
  (∀ p ∈ (retsOf f log).dropLast, stopsAt p.2.1 p.2.2 = false) ∧
  (callsOf f log = L ∨ ∃ p, (retsOf f log).getLast? = some p ∧ stopsAt p.2.1 p.2.2 = true)

theorem done_of_stop {log log' : List Ev} {fr : Frame} {e : Entry} {acts : List (SAct × Bool)} {r0 r : Ret} {h : Bool}
    (hok : FrameOK log fr) (hc : fr.cur = some (e, acts, r0)) (hstop : stopsAt r h = true)
    (hl : callsOf fr.fid log' = callsOf fr.fid log) (hr : retsOf fr.fid log' = retsOf fr.fid log ++ [(e, r, h)]) :
    Done fr.fid fr.snap log' := by
  have h2 := hok.rets; simp only [curEntry, hc] at h2
  refine ⟨?_, ?_, ?_, .inr ⟨(e, r, h), ?_, hstop⟩⟩
  · rw [hl]; exact ⟨fr.rest, hok.calls⟩
  · rw [hl, hr, h2]; simp
  · rw [hr]; simpa using hok.nostop
  · rw [hr]; simp

theorem done_of_exhausted {log log' : List Ev} {fr : Frame} (hok : FrameOK log fr) (hc : fr.cur = none) (hrest : fr.rest = [])
    (hl : callsOf fr.fid log' = callsOf fr.fid log) (hr : retsOf fr.fid log' = retsOf fr.fid log) :
    Done fr.fid fr.snap log' := by
  have h1 := hok.calls; rw [hrest, List.append_nil] at h1
  have h2 := hok.rets; simp only [curEntry, hc, List.append_nil] at h2
  refine ⟨?_, ?_, ?_, .inl (by rw [hl]; exact h1)⟩
  · rw [hl, h1]; exact List.prefix_refl _
  · rw [hl, hr]; exact h2.symm
  · rw [hr]; exact fun p hp => hok.nostop p (List.dropLast_subset _ hp)

/-- same delivery: identity, event type and snapshot never change while a frame is on the stack -/
def SameFrame (a b : Frame) : Prop := a.fid = b.fid ∧ a.snap = b.snap ∧ a.et = b.et ∧ a.src = b.src

theorem mem_stack_cases {m : M} {fr : Frame} {st : List Frame} (hs : m.stack = fr :: st) {x : Frame} (hx : x ∈ m.stack) :
    x = fr ∨ x ∈ st := by rw [hs] at hx; exact List.mem_cons.mp hx

/-- what a step does to a frame that was on the stack: it stays (same delivery), or it was the innermost one and its
    delivery is now over and was exact -/
theorem step_frame {β : Beh} {m m' : M} (hw : WF m) (h : Step β m m') (x : Frame) (hx : x ∈ m.stack) :
    (∃ x' ∈ m'.stack, SameFrame x x') ∨ ((∀ x' ∈ m'.stack, x'.fid ≠ x.fid) ∧ Done x.fid x.snap m'.log) := by
  have hpop : ∀ {fr : Frame} {st : List Frame}, m.stack = fr :: st → m'.stack = st → Done fr.fid fr.snap m'.log →
      (∃ x' ∈ m'.stack, SameFrame x x') ∨ ((∀ x' ∈ m'.stack, x'.fid ≠ x.fid) ∧ Done x.fid x.snap m'.log) := by
    intro fr st hs hst hd
    rcases mem_stack_cases hs hx with rfl | hx
    · right
      refine ⟨?_, hd⟩
      intro x' hx'
      have := hw.dec; rw [hs] at this
      have := (List.pairwise_cons.mp this).1 x' (by rw [← hst]; exact hx')
      omega
    · left; exact ⟨x, by rw [hst]; exact hx, rfl, rfl, rfl, rfl⟩
  have hmod : ∀ {fr fr' : Frame} {st : List Frame}, m.stack = fr :: st → (∃ l, m'.stack = l ++ fr' :: st) → SameFrame fr fr' →
      (∃ x' ∈ m'.stack, SameFrame x x') := by
    intro fr fr' st hs ⟨l, hst⟩ hsf
    rcases mem_stack_cases hs hx with rfl | hx
    · exact ⟨fr', by rw [hst]; simp, hsf⟩
    · exact ⟨x, by rw [hst]; simp [hx], rfl, rfl, rfl, rfl⟩
  have hexec : ∀ {m1 : M} {g : Bool}, ExecR m1 g m' → ∀ y ∈ m1.stack, ∃ x' ∈ m'.stack, SameFrame y x' := by
    intro m1 g he y hx1
    cases he with
    | quiet srcs' r n gn evOf' hn hs hgn => exact ⟨y, hx1, rfl, rfl, rfl, rfl⟩
    | enter i et ev noErr evOf' hd => exact ⟨y, by simp [push, hx1], rfl, rfl, rfl, rfl⟩
  cases h with
  | deliverAbort k fr st hp hs =>
    have hok := hw.ok fr (by rw [hs]; exact List.mem_cons_self)
    have hc : (fr.cur.isSome = true) := hw.pendcur (by simp [hp]) fr (by simp [hs])
    cases hcur : fr.cur with
    | none => simp [hcur] at hc
    | some c =>
      obtain ⟨e, acts, r⟩ := c
      exact hpop hs rfl (done_of_stop (r := .exc k) (h := (m.halts fr.ev)) hok hcur (by simp [stopsAt, Ret.isExc])
        (by simp [abort, hcur, callsOf]) (by simp [abort, hcur, retsOf]))
  | deliver r g hp => left; exact ⟨x, hx, rfl, rfl, rfl, rfl⟩
  | idle => left; exact ⟨x, hx, rfl, rfl, rfl, rfl⟩
  | topExec a as m' hp hs he => rw [hs] at hx; cases hx
  | hExec fr st e a g acts r m' hp hs hc he =>
    left
    rcases mem_stack_cases hs hx with rfl | hx
    · obtain ⟨x', hx', h1, h2, h3, h4⟩ := hexec he { x with cur := some (e, acts, r) } (by simp)
      exact ⟨x', hx', h1, h2, h3, h4⟩
    · exact hexec he x (by simp [hx])
  | hAbort fr st e k hp hs hc =>
    have hok := hw.ok fr (by rw [hs]; exact List.mem_cons_self)
    exact hpop hs rfl (done_of_stop (r := .exc k) (h := (m.halts fr.ev)) hok hc (by simp [stopsAt, Ret.isExc])
      (by simp [abort, hc, callsOf]) (by simp [abort, hc, retsOf]))
  | hRet fr st e r hp hs hc hr =>
    have hok := hw.ok fr (by rw [hs]; exact List.mem_cons_self)
    by_cases hh : stopsAt r (m.halts fr.ev) = true
    · exact hpop hs (by simp [hret, hh, finish]) (done_of_stop (r := r) (h := (m.halts fr.ev)) hok hc hh
        (by simp [hret, hh, finish, callsOf]) (by simp [hret, hh, finish, retsOf]))
    · left; exact hmod (fr' := { fr with cur := none }) hs ⟨[], by simp [hret, hh]⟩ ⟨rfl, rfl, rfl, rfl⟩
  | fFinish fr st hp hs hc hr =>
    have hok := hw.ok fr (by rw [hs]; exact List.mem_cons_self)
    exact hpop hs rfl (done_of_exhausted hok hc hr (by simp [finish, callsOf]) (by simp [finish, retsOf]))
  | fInvoke fr st e rest live acts ret halts' srcs' hp hs hc hr hsrc hlive hdead => left; exact hmod hs ⟨[], rfl⟩ ⟨rfl, rfl, rfl, rfl⟩


theorem exec_nextFid {m m' : M} {g : Bool} (he : ExecR m g m') : m.nextFid ≤ m'.nextFid := by
  cases he with
  | quiet srcs' r n gn evOf' hn hs hgn => exact hn
  | enter i et ev noErr evOf' hd => exact Nat.le_succ _

theorem step_nextFid {β : Beh} {m m' : M} (h : Step β m m') : m.nextFid ≤ m'.nextFid := by
  cases h with
  | topExec a as m' hp hs he => have := exec_nextFid he; simpa using this
  | hExec fr st e a g acts r m' hp hs hc he => have := exec_nextFid he; simpa using this
  | hRet fr st e r hp hs hc hr => simp only [hret]; split <;> simp [finish]
  | _ => simp [abort, finish]

/-- every frame on the stack after a step was there before (same delivery) or has just been pushed: then it carries the
    next id and its snapshot is the handler list of its event type at this very moment -/
theorem step_new_frame {β : Beh} {m m' : M} (h : Step β m m') (x' : Frame) (hx' : x' ∈ m'.stack) :
    (∃ x ∈ m.stack, SameFrame x x') ∨
    (x'.fid = m.nextFid ∧ x'.snap = (m.srcs x'.src).subscribers x'.et ∧ x'.rest = x'.snap ∧ m.nextFid < m'.nextFid) := by
  have hexec : ∀ {m1 : M} {g : Bool}, ExecR m1 g m' → m1.srcs = m.srcs → m1.nextFid = m.nextFid →
      (∀ y ∈ m1.stack, ∃ x ∈ m.stack, SameFrame x y) →
      (∃ x ∈ m.stack, SameFrame x x') ∨
      (x'.fid = m.nextFid ∧ x'.snap = (m.srcs x'.src).subscribers x'.et ∧ x'.rest = x'.snap ∧ m.nextFid < m'.nextFid) := by
    intro m1 g he hsrc hn hst
    cases he with
    | quiet srcs' r n gn evOf' hn' hs hgn => left; exact hst x' hx'
    | enter i et ev noErr evOf' hd =>
      simp only [push, List.mem_cons] at hx'
      rcases hx' with rfl | hx'
      · right; simp [push, hsrc, hn]
      · left; exact hst x' hx'
  have hsub : ∀ {fr : Frame} {st : List Frame} {y : Frame}, m.stack = fr :: st → y ∈ st → ∃ x ∈ m.stack, SameFrame x y :=
    fun {_ _ y} hs hx => ⟨y, by rw [hs]; exact List.mem_cons_of_mem _ hx, rfl, rfl, rfl, rfl⟩
  cases h with
  | deliverAbort k fr st hp hs => left; exact hsub hs hx'
  | deliver r g hp => left; exact ⟨x', hx', rfl, rfl, rfl, rfl⟩
  | idle => left; exact ⟨x', hx', rfl, rfl, rfl, rfl⟩
  | topExec a as m' hp hs he => exact hexec he rfl rfl (fun y hy => ⟨y, hy, rfl, rfl, rfl, rfl⟩)
  | hExec fr st e a g acts r m' hp hs hc he =>
    refine hexec he rfl rfl ?_
    intro y hy
    simp only [List.mem_cons] at hy
    rcases hy with rfl | hy
    · exact ⟨fr, by rw [hs]; exact List.mem_cons_self, rfl, rfl, rfl, rfl⟩
    · exact hsub hs hy
  | hAbort fr st e k hp hs hc => left; exact hsub hs hx'
  | hRet fr st e r hp hs hc hr =>
    left
    by_cases hh : stopsAt r (m.halts fr.ev) = true
    · simp [hret, hh, finish] at hx'; exact hsub hs hx'
    · simp [hret, hh] at hx'
      rcases hx' with rfl | hx'
      · exact ⟨fr, by rw [hs]; exact List.mem_cons_self, rfl, rfl, rfl, rfl⟩
      · exact hsub hs hx'
  | fFinish fr st hp hs hc hr => left; exact hsub hs hx'
  | fInvoke fr st e rest live acts ret halts' srcs' hp hs hc hr hsrc hlive hdead =>
    left
    simp only [List.mem_cons] at hx'
    rcases hx' with rfl | hx'
    · exact ⟨fr, by rw [hs]; exact List.mem_cons_self, rfl, rfl, rfl, rfl⟩
    · exact hsub hs hx'

/-- a step only logs handler calls / returns of the innermost delivery -/
theorem step_same_other {β : Beh} {m m' : M} (h : Step β m m') (f : Nat) (hf : ∀ fr ∈ m.stack.head?, fr.fid ≠ f) :
    SameFor f m.log m'.log := by
  have hexec : ∀ {m1 : M} {g : Bool}, ExecR m1 g m' → m1.log = m.log → SameFor f m.log m'.log := by
    intro m1 g he hl
    cases he with
    | quiet srcs' r n gn evOf' hn' hs hgn => rw [← hl]; exact SameFor.refl _ _
    | enter i et ev noErr evOf' hd => simp [push, SameFor, hl, callsOf, retsOf]
  cases h with
  | deliverAbort k fr st hp hs =>
    have hne : fr.fid ≠ f := hf fr (by simp [hs])
    simp only [abort]
    cases hcur : fr.cur with
    | none => simp [SameFor, callsOf, retsOf]
    | some c => obtain ⟨e, acts, r⟩ := c; simp [SameFor, callsOf, retsOf, hne]
  | deliver r g hp => simp [SameFor, callsOf, retsOf]
  | idle => exact SameFor.refl _ _
  | topExec a as m' hp hs he => exact hexec he rfl
  | hExec fr st e a g acts r m' hp hs hc he => exact hexec he rfl
  | hAbort fr st e k hp hs hc =>
    have hne : fr.fid ≠ f := hf fr (by simp [hs])
    simp [abort, hc, SameFor, callsOf, retsOf, hne]
  | hRet fr st e r hp hs hc hr =>
    have hne : fr.fid ≠ f := hf fr (by simp [hs])
    simp only [hret]; split <;> simp [finish, SameFor, callsOf, retsOf, hne]
  | fFinish fr st hp hs hc hr => simp [finish, SameFor, callsOf, retsOf]
  | fInvoke fr st e rest live acts ret halts' srcs' hp hs hc hr hsrc hlive hdead =>
    have hne : fr.fid ≠ f := hf fr (by simp [hs])
    simp [SameFor, callsOf, retsOf, hne]

/-- delivery `f`, which started with handler list `L`, is either still on the stack with that snapshot, or over and exact -/
def Tracked (f : Nat) (L : List Entry) (m : M) : Prop :=
  f < m.nextFid ∧ ((∃ fr ∈ m.stack, fr.fid = f ∧ fr.snap = L) ∨ ((∀ fr ∈ m.stack, fr.fid ≠ f) ∧ Done f L m.log))

theorem Tracked.step {β : Beh} {m m' : M} {f : Nat} {L : List Entry} (hw : WF m) (h : Step β m m')
    (ht : Tracked f L m) : Tracked f L m' := by
  obtain ⟨hlt, hcase⟩ := ht
  refine ⟨Nat.lt_of_lt_of_le hlt (step_nextFid h), ?_⟩
  rcases hcase with ⟨fr, hfr, rfl, rfl⟩ | ⟨hoff, hd⟩
  · rcases step_frame hw h fr hfr with ⟨x', hx', h1, h2, _⟩ | ⟨h1, h2⟩
    · exact .inl ⟨x', hx', h1.symm, h2.symm⟩
    · exact .inr ⟨h1, h2⟩
  · right
    constructor
    · intro x' hx'
      rcases step_new_frame h x' hx' with ⟨x, hx, h1, _, _⟩ | ⟨h1, _⟩
      · rw [← h1]; exact hoff x hx
      · omega
    · have hs := step_same_other h f (fun fr hfr => hoff fr (List.mem_of_mem_head? hfr))
      unfold Done at hd ⊢
      rw [hs.1, hs.2]; exact hd

theorem Tracked.run {β : Beh} {m : M} {f : Nat} {L : List Entry} (hw : WF m) (ht : Tracked f L m) (n : Nat) :
    Tracked f L (run β n m) := by
  induction n generalizing m with
  | zero => exact ht
  | succ n ih => exact ih (hw.step (step_rel β m)) (ht.step hw (step_rel β m))

/-- a step after which the stack is one frame deeper is the start of a delivery: the new innermost frame carries the
    next id and its snapshot is the handler list of its event type at this very moment -/
theorem step_push {β : Beh} {m m' : M} (h : Step β m m') (fr : Frame) (rest : List Frame) (hst : m'.stack = fr :: rest)
    (hrest : rest.length = m.stack.length) :
    fr.fid = m.nextFid ∧ fr.snap = (m.srcs fr.src).subscribers fr.et ∧ m.nextFid < m'.nextFid := by
  have hlen : m'.stack.length = m.stack.length + 1 := by rw [hst]; simp [hrest]
  have hexec : ∀ {m1 : M} {g : Bool}, ExecR m1 g m' → m1.stack.length = m.stack.length → m1.nextFid = m.nextFid →
      m1.srcs = m.srcs → fr.fid = m.nextFid ∧ fr.snap = (m.srcs fr.src).subscribers fr.et ∧ m.nextFid < m'.nextFid := by
    intro m1 g he hl hn hsrc
    cases he with
    | quiet srcs' r n gn evOf' hn' hs hgn => simp at hlen; omega
    | enter i et ev noErr evOf' hd =>
      simp only [push] at hst
      have := (List.cons.inj hst).1
      subst this
      simp [push, hn, hsrc]
  cases h with
  | deliverAbort k fr0 st hp hs => simp [abort, hs] at hlen; omega
  | deliver r g hp => simp at hlen
  | idle => simp at hlen
  | topExec a as m' hp hs he => exact hexec he rfl rfl rfl
  | hExec fr0 st e a g acts r m' hp hs hc he => exact hexec he (by simp [hs]) rfl rfl
  | hAbort fr0 st e k hp hs hc => simp [abort, hs] at hlen; omega
  | hRet fr0 st e r hp hs hc hr =>
    by_cases hh : stopsAt r (m.halts fr0.ev) = true
    · simp [hret, hh, finish, hs] at hlen; omega
    · simp [hret, hh, hs] at hlen
  | fFinish fr0 st hp hs hc hr => simp [finish, hs] at hlen; omega
  | fInvoke fr0 st e rest live acts ret halts' srcs' hp hs hc hr hsrc hlive hdead => simp [hs] at hlen



/-! ### the source states along a run -/

theorem bindAll_nextEid (s : Src) (hb : Nat) (prio : Int) (weak : Option Nat) (ets : List Nat) :
    s.nextEid ≤ (bindAll s hb prio weak ets).1.nextEid := by
  induction ets generalizing s with
  | nil => exact Nat.le_refl _
  | cons et ets ih =>
    simp only [bindAll]
    split
    · exact Nat.le_trans (Nat.le_succ _) (ih (addCore s et (hb + et) prio false weak).1)
    · exact ih s

theorem doAction_nextEid (s : Src) (a : Action) : s.nextEid ≤ (doAction s a).1.nextEid := by
  cases a with
  | add et hid prio once weak => simp only [doAction]; split; exact Nat.le_succ _; exact Nat.le_refl _
  | bind meths pfx hb prio weak => simp only [doAction]; split; exact Nat.le_refl _; exact bindAll_nextEid _ _ _ _ _
  | rmHandler hid et => simp only [doAction]; rw [(removeWhere_fields _ _ _).1]; exact Nat.le_refl _
  | rmEid eid et => simp only [doAction]; rw [(removeWhere_fields _ _ _).1]; exact Nat.le_refl _
  | rmPair et eid et' => simp only [doAction]; rw [(removeWhere_fields _ _ _).1]; exact Nat.le_refl _
  | rmMany l => simp only [doAction]; rw [(rmMany_sub _ _ _).1]; exact Nat.le_refl _
  | dropOwner o => simp only [doAction]; rw [(removeWhere_fields _ _ _).1]; exact Nat.le_refl _
  | count => simp only [doAction]; split <;> exact Nat.le_refl _
  | _ => exact Nat.le_refl _

theorem rmEidAll_nextEid (s : Src) (x : Nat) : (rmEidAll s x).nextEid = s.nextEid := (removeWhere_fields _ _ _).1

/-- the event-id counter is global: every source carries the same value -/
def Sync (srcs : Nat → Src) : Prop := ∀ i j, (srcs i).nextEid = (srcs j).nextEid

theorem doActionM_sync {srcs : Nat → Src} (h : Sync srcs) (k : Nat) (a : Action) : Sync (doActionM srcs k a).1 := by
  have hset : ∀ b : Action, Sync (setSrc srcs k (doAction (srcs k) b).1) := by
    intro b i j; unfold setSrc; split <;> split <;> rfl
  cases a with
  | dropOwner o =>
    intro i j
    simp only [doActionM, doAction]
    rw [(removeWhere_fields _ _ _).1, (removeWhere_fields _ _ _).1]; exact h i j
  | add et hid prio once weak => exact hset _
  | bind meths pfx hb prio weak => exact hset _
  | rmHandler hid et => exact hset _
  | rmEid eid et => exact hset _
  | rmPair et eid et' => exact hset _
  | rmMany l => exact hset _
  | clear => exact hset _
  | count => exact hset _
  | raise et form noErr => exact hset _

theorem updSrc_sync {srcs : Nat → Src} (h : Sync srcs) (k : Nat) (s : Src) (hs : s.nextEid = (srcs k).nextEid) :
    Sync (updSrc srcs k s) := by
  intro i j; unfold updSrc
  split <;> split
  · rfl
  · rw [hs]; exact h k j
  · rw [hs]; exact h i k
  · exact h i j

theorem exec_sync {m : M} (h : Sync m.srcs) (sa : SAct) (g : Bool) : Sync (exec m sa g).srcs := by
  obtain ⟨i, a⟩ := sa
  have ht : Sync (updSrc m.srcs i (m.srcs i).touch) := updSrc_sync h i _ rfl
  have hother : Sync ({ m with srcs := (doActionM m.srcs i a).1, pend := some ((doActionM m.srcs i a).2, g) } : M).srcs :=
    doActionM_sync h i a
  cases a with
  | raise et form noErr =>
    simp only [exec]
    cases form with
    | junk isClass => simpa using ht
    | again f0 => simp only; split <;> split <;> simpa [push] using ht
    | fwd => simp only; split <;> split <;> simpa [push] using ht
    | inst => simp only; split <;> simpa [push] using ht
    | cls => simp only; split <;> (try split) <;> simpa [push] using ht
  | add et hid prio once weak => exact hother
  | bind meths pfx hb prio weak => exact hother
  | rmHandler hid et => exact hother
  | rmEid eid et => exact hother
  | rmPair et eid et' => exact hother
  | rmMany l => exact hother
  | clear => exact hother
  | dropOwner o =>
    simp only [exec]; split
    · exact h
    · exact doActionM_sync h i (.dropOwner o)
  | count => exact hother

/-- what `abort` does to the sources: nothing, or (D60 repaired, one-shot handler raised) the loop's removal -/
theorem abort_srcs (m : M) (fr : Frame) (st : List Frame) (k : Exc) :
    (abort m fr st k).srcs = m.srcs ∨ ∃ x, (abort m fr st k).srcs = updSrc m.srcs fr.src (rmEidAll (m.srcs fr.src) x) := by
  simp only [abort]
  split
  · split
    · exact .inr ⟨_, rfl⟩
    · exact .inl rfl
  · exact .inl rfl

theorem abort_sync {m : M} (h : Sync m.srcs) (fr : Frame) (st : List Frame) (k : Exc) : Sync (abort m fr st k).srcs := by
  rcases abort_srcs m fr st k with h1 | ⟨x, h1⟩ <;> rw [h1]
  · exact h
  · exact updSrc_sync h _ _ (rmEidAll_nextEid _ _)

theorem hret_sync {m : M} (h : Sync m.srcs) (fr : Frame) (st : List Frame) (e : Entry) (r : Ret) : Sync (hret m fr st e r).srcs := by
  have : Sync (updSrc m.srcs fr.src
      (if r.removes then rmEidAll (if e.once then rmEidAll (m.srcs fr.src) e.eid else m.srcs fr.src) e.eid
       else (if e.once then rmEidAll (m.srcs fr.src) e.eid else m.srcs fr.src))) := by
    apply updSrc_sync h
    split <;> split <;> simp [rmEidAll_nextEid]
  simp only [hret]; split <;> simpa [finish] using this

theorem step_sync (β : Beh) {m : M} (h : Sync m.srcs) : Sync (step β m).srcs := by
  unfold step
  split
  · split
    · exact abort_sync (m := { m with pend := none, log := _ }) h _ _ _
    · exact h
  · split
    · split
      · exact h
      · refine exec_sync (m := _) ?_ _ _; exact h
    · rename_i fr st hs
      split
      · refine exec_sync (m := _) ?_ _ _; exact h
      · exact abort_sync h _ _ _
      · exact hret_sync h _ _ _ _
      · split
        · simpa [finish] using h
        · split
          · exact h
          · rename_i srcs' hcl
            have hs' : Sync srcs' := by
              rcases (claim_some hcl).1 with h1 | h1 <;> rw [h1]
              · exact h
              · exact updSrc_sync h _ _ (rmEidAll_nextEid _ _)
            split <;> exact hs'

theorem run_sync (β : Beh) {m : M} (h : Sync m.srcs) (n : Nat) : Sync (run β n m).srcs := by
  induction n generalizing m with
  | zero => exact h
  | succ n ih => exact ih (step_sync β h)

/-- a property of source states that every operation of the model preserves: an action on the source, the removal the
    dispatch loop performs, and the global event-id counter moving forward because of an action elsewhere -/
def SrcClosed (P : Src → Prop) : Prop :=
  (∀ s a, P s → P (doAction s a).1) ∧ (∀ s x, P s → P (rmEidAll s x)) ∧
  (∀ s n, s.nextEid ≤ n → P s → P { s with nextEid := n })

theorem srcStep_closed {P : Src → Prop} (hP : SrcClosed P) {srcs : Nat → Src} (hsync : Sync srcs) {j : Nat} {s' : Src}
    (hs : SrcStep srcs j s') (h : P (srcs j)) : P s' := by
  cases hs with
  | same => exact h
  | act a => exact hP.1 _ a h
  | bump i a => exact hP.2.2 _ _ (by rw [hsync j i]; exact doAction_nextEid _ _) h

theorem exec_src {P : Src → Prop} (hP : SrcClosed P) {m m' : M} {g : Bool} (hsync : Sync m.srcs) (he : ExecR m g m')
    (j : Nat) (h : P (m.srcs j)) : P (m'.srcs j) := srcStep_closed hP hsync (exec_srcs he j) h

theorem step_src {P : Src → Prop} (hP : SrcClosed P) {β : Beh} {m m' : M} (hsync : Sync m.srcs) (h : Step β m m')
    (j : Nat) (hs : P (m.srcs j)) : P (m'.srcs j) := by
  cases h with
  | topExec a as m' hp hs' he => exact exec_src hP (m := { m with todo := as }) hsync he j hs
  | hExec fr st e a g acts r m' hp hs' hc he =>
    exact exec_src hP (m := { m with stack := { fr with cur := some (e, acts, r) } :: st }) hsync he j hs
  | hRet fr st e r hp hs' hc hr =>
    have key : P ((hret m fr st e r).srcs j) := by
      have h0 : (hret m fr st e r).srcs = updSrc m.srcs fr.src
          (if r.removes then rmEidAll (if e.once then rmEidAll (m.srcs fr.src) e.eid else m.srcs fr.src) e.eid
           else (if e.once then rmEidAll (m.srcs fr.src) e.eid else m.srcs fr.src)) := by
        simp only [hret]; split <;> rfl
      rw [h0]; unfold updSrc
      split
      · rename_i hj; subst hj
        have h1 : P (if e.once then rmEidAll (m.srcs fr.src) e.eid else m.srcs fr.src) := by split; exact hP.2.1 _ _ hs; exact hs
        split; exact hP.2.1 _ _ h1; exact h1
      · exact hs
    exact key
  | deliverAbort k fr st hp hs' =>
    rcases abort_srcs { m with pend := none, log := m.log ++ [.res (.exc k)] } fr st k with h1 | ⟨x, h1⟩ <;> rw [h1]
    · exact hs
    · show P (updSrc m.srcs fr.src (rmEidAll (m.srcs fr.src) x) j)
      unfold updSrc; split
      · rename_i hj; subst hj; exact hP.2.1 _ _ hs
      · exact hs
  | hAbort fr st e k hp hs' hc =>
    rcases abort_srcs m fr st k with h1 | ⟨x, h1⟩ <;> rw [h1]
    · exact hs
    · unfold updSrc; split
      · rename_i hj; subst hj; exact hP.2.1 _ _ hs
      · exact hs
  | fInvoke fr st e rest live acts ret halts' srcs' hp hs' hc hr hsrc hlive hdead =>
    rcases hsrc with h1 | h1 <;> rw [h1]
    · exact hs
    · show P (updSrc m.srcs fr.src (rmEidAll (m.srcs fr.src) e.eid) j)
      unfold updSrc; split
      · rename_i hj; subst hj; exact hP.2.1 _ _ hs
      · exact hs
  | _ => simpa [finish] using hs

theorem srcInv_closed : SrcClosed SrcInv :=
  ⟨fun _ a h => h.doAction a, fun _ x h => h.rmEidAll x,
   fun _ _ hn h => ⟨h.sorted, h.uniq, fun et l hl e he => Nat.le_trans (h.bound et l hl e he) hn, h.plain⟩⟩

theorem nextEid_closed (n : Nat) : SrcClosed (fun s => n ≤ s.nextEid) :=
  ⟨fun s a h => Nat.le_trans h (doAction_nextEid s a),
   fun s x h => by show n ≤ (rmEidAll s x).nextEid; rw [rmEidAll_nextEid]; exact h,
   fun _ _ hn h => Nat.le_trans h hn⟩

/-- what holds of every reachable machine state -/
structure MInv (m : M) : Prop where
  wf : WF m
  sync : Sync m.srcs
  src : ∀ i, SrcInv (m.srcs i)
  snaps : ∀ fr ∈ m.stack, Sorted fr.snap ∧ Uniq fr.snap ∧ ∀ e ∈ fr.snap, e.eid ≤ (m.srcs fr.src).nextEid

theorem MInv.init (v : Variant) (srcs : Nat → Src) (hs : ∀ i, SrcInv (srcs i)) (hsync : Sync srcs) (ops : List SAct) :
    MInv (M.init v srcs ops) :=
  ⟨WF.init v srcs ops, hsync, hs, by simp [M.init]⟩

theorem MInv.step' {β : Beh} {m : M} (hi : MInv m) : MInv (step β m) := by
  have h := step_rel β m
  refine ⟨hi.wf.step h, step_sync β hi.sync, fun i => step_src srcInv_closed hi.sync h i (hi.src i), ?_⟩
  have hmono : ∀ j, (m.srcs j).nextEid ≤ ((step β m).srcs j).nextEid :=
    fun j => step_src (nextEid_closed _) hi.sync h j (Nat.le_refl _)
  intro x' hx'
  rcases step_new_frame h x' hx' with ⟨x, hx, _, h2, _, h4⟩ | ⟨_, h2, _⟩
  · obtain ⟨a, b, c⟩ := hi.snaps x hx
    rw [← h2, ← h4]; exact ⟨a, b, fun e he => Nat.le_trans (c e he) (hmono _)⟩
  · obtain ⟨a, b, c, _⟩ := (hi.src x'.src).subs x'.et
    rw [h2]; exact ⟨a, b, fun e he => Nat.le_trans (c e he) (hmono _)⟩

theorem MInv.run {β : Beh} {m : M} (hi : MInv m) (n : Nat) : MInv (run β n m) := by
  induction n generalizing m with
  | zero => exact hi
  | succ n ih => exact ih hi.step'

/-! ### removal is permanent -/

/-- subscription `x` has been handed out and is in no handler list -/
def Absent (x : Nat) (s : Src) : Prop :=
  x ≤ s.nextEid ∧ ∀ et l, s.handlers et = some l → ∀ e ∈ l, e.eid ≠ x

theorem addCore_mem (s : Src) (et hid : Nat) (prio : Int) (once : Bool) (weak : Option Nat) (k : Nat) (l' : List Entry)
    (h : (addCore s et hid prio once weak).1.handlers k = some l') (y : Entry) (hy : y ∈ l') :
    y.eid = s.nextEid + 1 ∨ ∃ l, s.handlers k = some l ∧ y ∈ l := by
  simp only [addCore] at h
  split at h
  · rename_i hk; subst hk
    cases h
    have hy' : y ∈ s.subscribers k ++ [⟨prio, hid, once, s.nextEid + 1, weak⟩] := by
      split at hy
      · rw [sortDesc_snoc] at hy
        rcases mem_foldr_ins.mp hy with rfl | hy
        · simp
        · simp [hy]
      · exact hy
    rcases List.mem_append.mp hy' with hy' | hy'
    · right
      unfold Src.subscribers at hy'
      cases hh : s.handlers k with
      | none => simp [hh] at hy'
      | some l => simp only [hh] at hy'; exact ⟨l, rfl, hy'⟩
    · left; simp at hy'; subst hy'; rfl
  · exact .inr ⟨l', h, hy⟩

theorem Absent.addCore {x : Nat} {s : Src} (h : Absent x s) (et hid : Nat) (prio : Int) (once : Bool) (weak : Option Nat) :
    Absent x (addCore s et hid prio once weak).1 := by
  refine ⟨Nat.le_trans h.1 (Nat.le_succ _), ?_⟩
  intro k l' hk y hy
  rcases addCore_mem s et hid prio once weak k l' hk y hy with h1 | ⟨l, hl, hyl⟩
  · have := h.1; omega
  · exact h.2 k l hl y hyl

theorem Absent.removeWhere {x : Nat} {s : Src} (h : Absent x s) (p : Entry → Bool) (et' : Option Nat) :
    Absent x (removeWhere s p et').1 := by
  refine ⟨by rw [(removeWhere_fields _ _ _).1]; exact h.1, ?_⟩
  intro k l' hk y hy
  obtain ⟨l, hl, rfl | rfl⟩ := removeWhere_handlers s p et' k l' hk
  · exact h.2 k _ hl y hy
  · exact h.2 k l hl y (List.mem_filter.mp hy).1

theorem Absent.bindAll {x : Nat} {s : Src} (h : Absent x s) (hb : Nat) (prio : Int) (weak : Option Nat) (ets : List Nat) :
    Absent x (bindAll s hb prio weak ets).1 := by
  induction ets generalizing s with
  | nil => exact h
  | cons et ets ih =>
    simp only [Pox.Revent.bindAll]
    split
    · exact ih (h.addCore et (hb + et) prio false weak)
    · exact ih h

theorem Absent.touch {x : Nat} {s : Src} (h : Absent x s) : Absent x s.touch := h

theorem absent_closed (x : Nat) : SrcClosed (Absent x) := by
  refine ⟨?_, ?_, ?_⟩
  · intro s a h
    cases a with
    | add et hid prio once weak => simp only [doAction]; split; exact h.addCore _ _ _ _ _; exact h.touch
    | bind meths pfx hb prio weak => simp only [doAction]; split; exact h; exact h.bindAll _ _ _ _
    | rmHandler hid et => exact h.touch.removeWhere _ _
    | rmEid eid et => exact h.touch.removeWhere _ _
    | rmPair et eid et' => exact h.touch.removeWhere _ _
    | rmMany l =>
      obtain ⟨h1, _, _, h4⟩ := rmMany_sub s false l
      refine ⟨by simp only [doAction]; rw [h1]; exact h.1, ?_⟩
      intro k l' hk y hy
      obtain ⟨l0, hl0, hsub⟩ := h4 k l' hk
      exact h.2 k l0 hl0 y (hsub.subset hy)
    | clear => exact ⟨h.1, by intro k l hk; simp [doAction] at hk⟩
    | dropOwner o => exact h.removeWhere _ _
    | count => simp only [doAction]; split <;> exact h
    | raise et form noErr => exact h.touch
  · intro s y h; exact h.removeWhere _ _
  · intro s n hn h; exact ⟨Nat.le_trans h.1 hn, h.2⟩

theorem rmEidAll_absent (s : Src) (x : Nat) (hx : x ≤ s.nextEid) : Absent x (rmEidAll s x) := by
  refine ⟨by show x ≤ (removeWhere s _ none).1.nextEid; rw [(removeWhere_fields _ _ _).1]; exact hx, ?_⟩
  intro k l' hk y hy
  simp only [rmEidAll, removeWhere, Option.map_eq_some_iff] at hk
  obtain ⟨l, _, rfl⟩ := hk
  have := (List.mem_filter.mp hy).2
  simpa [matchEid] using this



theorem mem_callsOf {f s : Nat} {e : Entry} {lv : Bool} {log : List Ev} (h : Ev.call f s e lv ∈ log) : e ∈ callsOf f log := by
  induction log with
  | nil => cases h
  | cons ev l ih =>
    rcases List.mem_cons.mp h with rfl | h
    · simp [callsOf]
    · have := ih h
      cases ev with
      | call f' s' e' lv' => simp only [callsOf]; split <;> simp [this]
      | _ => simpa only [callsOf] using this

/-- a handler call that a step logs is a call of an entry of the snapshot of a frame that was on the stack, tagged with
    that frame's source -/
theorem step_calls {β : Beh} {m m' : M} (hw : WF m) (h : Step β m m') (f s : Nat) (y : Entry) (lv : Bool) (hy : Ev.call f s y lv ∈ m'.log) :
    Ev.call f s y lv ∈ m.log ∨ ∃ fr ∈ m.stack, fr.fid = f ∧ fr.src = s ∧ y ∈ fr.snap := by
  have hexec : ∀ {m1 : M} {g : Bool}, ExecR m1 g m' → m1.log = m.log → Ev.call f s y lv ∈ m.log := by
    intro m1 g he hl
    cases he with
    | quiet srcs' r n gn evOf' hn' hs hgn => rw [← hl]; exact hy
    | enter i et ev noErr evOf' hd => simpa [push, hl] using hy
  cases h with
  | deliverAbort k fr st hp hs =>
    left
    simp only [abort] at hy
    cases hcur : fr.cur with
    | none => simpa [hcur] using hy
    | some c => obtain ⟨e, acts, r⟩ := c; simpa [hcur] using hy
  | deliver r g hp => left; simpa using hy
  | idle => exact .inl hy
  | topExec a as m' hp hs he => exact .inl (hexec he rfl)
  | hExec fr st e a g acts r m' hp hs hc he => exact .inl (hexec he rfl)
  | hAbort fr st e k hp hs hc => left; simpa [abort, hc] using hy
  | hRet fr st e r hp hs hc hr =>
    left
    by_cases hh : stopsAt r (m.halts fr.ev) = true
    · simpa [hret, hh, finish] using hy
    · simpa [hret, hh] using hy
  | fFinish fr st hp hs hc hr => left; simpa [finish] using hy
  | fInvoke fr st e rest live acts ret halts' srcs' hp hs hc hr hsrc hlive hdead =>
    simp only [List.mem_append, List.mem_singleton] at hy
    rcases hy with hy | hy
    · exact .inl hy
    · right
      injection hy with h1 h2 h3 h4
      have hok := hw.ok fr (by rw [hs]; exact List.mem_cons_self)
      refine ⟨fr, by rw [hs]; exact List.mem_cons_self, h1.symm, h2.symm, ?_⟩
      rw [← hok.calls, hr, h3]; simp

/-- subscription `x` of source `i` is gone for good: it is in no handler list of `i`, and no delivery on `i` numbered
    `f0` or later has it in its snapshot or has invoked it -/
structure Later (x i f0 : Nat) (m : M) : Prop where
  absent : Absent x (m.srcs i)
  le : f0 ≤ m.nextFid
  frames : ∀ fr ∈ m.stack, fr.src = i → f0 ≤ fr.fid → ∀ e ∈ fr.snap, e.eid ≠ x
  calls : ∀ f, f0 ≤ f → ∀ e lv, Ev.call f i e lv ∈ m.log → e.eid ≠ x

theorem Later.step {β : Beh} {m m' : M} {x i f0 : Nat} (hw : WF m) (hsync : Sync m.srcs) (h : Step β m m')
    (hl : Later x i f0 m) : Later x i f0 m' := by
  refine ⟨step_src (absent_closed x) hsync h i hl.absent, Nat.le_trans hl.le (step_nextFid h), ?_, ?_⟩
  · intro x' hx' hsrc hf e he
    rcases step_new_frame h x' hx' with ⟨y, hy, h1, h2, _, h4⟩ | ⟨_, h2, _⟩
    · exact hl.frames y hy (by rw [h4]; exact hsrc) (by omega) e (by rw [h2]; exact he)
    · rw [h2, hsrc] at he
      unfold Src.subscribers at he
      cases hh : (m.srcs i).handlers x'.et with
      | none => simp [hh] at he
      | some l => simp only [hh] at he; exact hl.absent.2 _ l hh e he
  · intro f hf e lv he
    rcases step_calls hw h f i e lv he with h1 | ⟨fr, hfr, hfid, hsrc, h2⟩
    · exact hl.calls f hf e lv h1
    · exact hl.frames fr hfr hsrc (by omega) e h2

theorem Later.run {β : Beh} {m : M} {x i f0 : Nat} (hi : MInv m) (hl : Later x i f0 m) (n : Nat) :
    Later x i f0 (run β n m) := by
  induction n generalizing m with
  | zero => exact hl
  | succ n ih => exact ih hi.step' (hl.step hi.wf hi.sync (step_rel β m))

theorem step_eq_hret (β : Beh) {m : M} {fr : Frame} {st : List Frame} {e : Entry} {r : Ret} (hp : m.pend = none)
    (hs : m.stack = fr :: st) (hc : fr.cur = some (e, [], r)) (hr : r.isExc = false) : step β m = hret m fr st e r := by
  unfold step
  simp only [hp, hs, hc]
  cases r <;> simp [Ret.isExc] at hr ⊢

/-- the moment a one-shot handler, or a handler that answers "remove me", returns -/
theorem later_of_return {β : Beh} {m : M} (hi : MInv m) {fr : Frame} {st : List Frame} {e : Entry} {r : Ret}
    (hp : m.pend = none) (hs : m.stack = fr :: st) (hc : fr.cur = some (e, [], r)) (hr : r.isExc = false)
    (hrem : e.once = true ∨ r.removes = true) : Later e.eid fr.src m.nextFid (step β m) := by
  rw [step_eq_hret β hp hs hc hr]
  have hfr : fr ∈ m.stack := by rw [hs]; exact List.mem_cons_self
  have hok := hi.wf.ok fr hfr
  have hmem : e ∈ fr.snap := by
    rw [← hok.calls, hok.rets]; simp [curEntry, hc]
  have hle : e.eid ≤ (m.srcs fr.src).nextEid := (hi.snaps fr hfr).2.2 e hmem
  have habs : Absent e.eid (if r.removes then rmEidAll (if e.once then rmEidAll (m.srcs fr.src) e.eid else m.srcs fr.src) e.eid
      else (if e.once then rmEidAll (m.srcs fr.src) e.eid else m.srcs fr.src)) := by
    by_cases ho : e.once = true
    · have h1 : Absent e.eid (rmEidAll (m.srcs fr.src) e.eid) := rmEidAll_absent _ _ hle
      simp only [ho, if_true]
      split
      · exact (absent_closed _).2.1 _ _ h1
      · exact h1
    · have hr' : r.removes = true := by rcases hrem with h | h; exact absurd h ho; exact h
      simp only [ho, hr', if_true]
      exact rmEidAll_absent _ _ hle
  have hfresh := hi.wf.fresh
  have hlt : ∀ x ∈ m.stack, x.fid < m.nextFid := hi.wf.lt
  have hnocall : ∀ f, m.nextFid ≤ f → ∀ y lv, Ev.call f fr.src y lv ∈ m.log → False := by
    intro f hf y lv hy
    have := mem_callsOf hy
    rw [(hfresh f hf).1] at this; cases this
  by_cases hh : stopsAt r (m.halts fr.ev) = true
  · refine ⟨by simpa [hret, hh, finish] using habs, by simp [hret, hh, finish], ?_, ?_⟩
    · intro x hx _ hf
      simp [hret, hh, finish] at hx
      have := hlt x (by rw [hs]; exact List.mem_cons_of_mem _ hx); omega
    · intro f hf y lv hy
      simp [hret, hh, finish] at hy
      exact (hnocall f hf y lv hy).elim
  · refine ⟨by simpa [hret, hh] using habs, by simp [hret, hh], ?_, ?_⟩
    · intro x hx _ hf
      simp [hret, hh] at hx
      rcases hx with rfl | hx
      · have := hlt fr hfr; simp at hf; omega
      · have := hlt x (by rw [hs]; exact List.mem_cons_of_mem _ hx); omega
    · intro f hf y lv hy
      simp [hret, hh] at hy
      exact (hnocall f hf y lv hy).elim

/-- in a well-formed state no delivery numbered `nextFid` or later exists yet, so an absent subscription is `Later` -/
theorem later_of_absent {m : M} {x i : Nat} (hw : WF m) (ha : Absent x (m.srcs i)) : Later x i m.nextFid m := by
  refine ⟨ha, Nat.le_refl _, ?_, ?_⟩
  · intro fr hfr _ hf; have := hw.lt fr hfr; omega
  · intro f hf e lv he
    have := mem_callsOf he
    rw [(hw.fresh f hf).1] at this; cases this

/-! ### error suppression -/

/-- a `raiseEventNoErrors` call that ended in an exception ended in a `ReventError` -/
def NoErrOK : Ev → Prop
  | .endf _ true (.exc k) => k = .revent
  | _ => True

def GoodLog (log : List Ev) : Prop := ∀ ev ∈ log, NoErrOK ev

theorem abort_good {m : M} {fr : Frame} {st : List Frame} {k : Exc} (h : GoodLog m.log) : GoodLog (abort m fr st k).log := by
  intro ev hev
  simp only [abort, List.mem_append, List.mem_singleton] at hev
  rcases hev with (hev | hev) | rfl
  · exact h ev hev
  · split at hev
    · simp at hev; subst hev; trivial
    · cases hev
  · cases hn : fr.noErr <;> cases k <;> cases m.v.noErrAll <;> simp [NoErrOK]

theorem GoodLog.snoc {log : List Ev} (h : GoodLog log) {ev : Ev} (hev : NoErrOK ev) : GoodLog (log ++ [ev]) := by
  intro x hx
  rcases List.mem_append.mp hx with hx | hx
  · exact h x hx
  · simp at hx; subst hx; exact hev

theorem GoodLog.step {β : Beh} {m m' : M} (h : Step β m m') (hg : GoodLog m.log) : GoodLog m'.log := by
  have hexec : ∀ {m1 : M} {g : Bool}, ExecR m1 g m' → m1.log = m.log → GoodLog m'.log := by
    intro m1 g he hl
    cases he with
    | quiet srcs' r n gn evOf' hn' hs hgn => rw [← hl] at hg; exact hg
    | enter i et ev noErr evOf' hd => simp only [push, hl]; exact hg.snoc trivial
  cases h with
  | deliverAbort k fr st hp hs => exact abort_good (m := { m with pend := none, log := m.log ++ [.res (.exc k)] }) (hg.snoc trivial)
  | deliver r g hp => exact hg.snoc trivial
  | idle => exact hg
  | topExec a as m' hp hs he => exact hexec he rfl
  | hExec fr st e a g acts r m' hp hs hc he => exact hexec he rfl
  | hAbort fr st e k hp hs hc => exact abort_good hg
  | hRet fr st e r hp hs hc hr =>
    simp only [hret]; split
    · exact (hg.snoc (ev := .ret fr.fid e r (m.halts fr.ev)) trivial).snoc (ev := .endf fr.fid fr.noErr (.ok (.event true))) (by cases fr.noErr <;> trivial)
    · exact hg.snoc trivial
  | fFinish fr st hp hs hc hr => exact hg.snoc (ev := .endf fr.fid fr.noErr (.ok (.event (m.halts fr.ev)))) (by cases fr.noErr <;> trivial)
  | fInvoke fr st e rest live acts ret halts' srcs' hp hs hc hr hsrc hlive hdead => exact hg.snoc trivial

theorem GoodLog.run {β : Beh} {m : M} (hg : GoodLog m.log) (n : Nat) : GoodLog (run β n m).log := by
  induction n generalizing m with
  | zero => exact hg
  | succ n ih => exact ih (hg.step (step_rel β m))

/-- the log only grows -/
theorem step_log {β : Beh} {m m' : M} (h : Step β m m') : ∃ d, m'.log = m.log ++ d := by
  have hexec : ∀ {m1 : M} {g : Bool}, ExecR m1 g m' → m1.log = m.log → ∃ d, m'.log = m.log ++ d := by
    intro m1 g he hl
    cases he with
    | quiet srcs' r n gn evOf' hn' hs hgn => exact ⟨[], by simp [← hl]⟩
    | enter i et ev noErr evOf' hd => exact ⟨_, by simp only [push, hl]; rfl⟩
  cases h with
  | deliverAbort k fr st hp hs => exact ⟨_, by simp only [abort, List.append_assoc]; rfl⟩
  | deliver r g hp => exact ⟨_, rfl⟩
  | idle => exact ⟨[], by simp⟩
  | topExec a as m' hp hs he => exact hexec he rfl
  | hExec fr st e a g acts r m' hp hs hc he => exact hexec he rfl
  | hAbort fr st e k hp hs hc => exact ⟨_, by simp only [abort, List.append_assoc]; rfl⟩
  | hRet fr st e r hp hs hc hr =>
    simp only [hret]; split
    · exact ⟨_, by simp only [finish, List.append_assoc]; rfl⟩
    · exact ⟨_, rfl⟩
  | fFinish fr st hp hs hc hr => exact ⟨_, rfl⟩
  | fInvoke fr st e rest live acts ret halts' srcs' hp hs hc hr hsrc hlive hdead => exact ⟨_, rfl⟩

theorem run_log (β : Beh) (m : M) (n : Nat) : ∃ d, (run β n m).log = m.log ++ d := by
  induction n generalizing m with
  | zero => exact ⟨[], by simp [run]⟩
  | succ n ih =>
    obtain ⟨d1, h1⟩ := step_log (step_rel β m)
    obtain ⟨d2, h2⟩ := ih (step β m)
    exact ⟨d1 ++ d2, by simp only [run, h2, h1, List.append_assoc]⟩


/-! ### the driver's loop, lazy initialisation -/

theorem step_finished (β : Beh) {m : M} (h : m.finished = true) : step β m = m := by
  simp only [M.finished, Bool.and_eq_true, Option.isNone_iff_eq_none, List.isEmpty_iff] at h
  obtain ⟨⟨hp, hs⟩, ht⟩ := h
  unfold step; simp [hp, hs, ht]

theorem run_finished (β : Beh) {m : M} (h : m.finished = true) (n : Nat) : run β n m = m := by
  induction n with
  | zero => rfl
  | succ n ih => rw [run, step_finished β h, ih]

/-- the compiled driver stops stepping as soon as nothing is left to do; that is the same machine state -/
theorem drive_eq_run (β : Beh) (n : Nat) (m : M) : drive β n m = run β n m := by
  induction n generalizing m with
  | zero => rfl
  | succ n ih =>
    simp only [drive]
    split
    · rename_i h; exact (run_finished β h (n + 1)).symm
    · rw [ih]; rfl

theorem bindAll_inited (s : Src) (hb : Nat) (prio : Int) (weak : Option Nat) (ets : List Nat) (h : s.inited = true) :
    (bindAll s hb prio weak ets).1.inited = true := by
  induction ets generalizing s with
  | nil => exact h
  | cons et ets ih =>
    simp only [bindAll]
    split
    · exact ih _ rfl
    · exact ih s h

/-- once the handler dictionary exists it exists for ever -/
theorem inited_closed : SrcClosed (fun s => s.inited = true) := by
  refine ⟨?_, ?_, fun _ _ _ h => h⟩
  · intro s a h
    cases a with
    | add et hid prio once weak => simp only [doAction]; split <;> rfl
    | bind meths pfx hb prio weak => simp only [doAction]; split; exact h; exact bindAll_inited _ _ _ _ _ h
    | rmHandler hid et => simp only [doAction]; rw [(removeWhere_fields _ _ _).2.2.2.2]; rfl
    | rmEid eid et => simp only [doAction]; rw [(removeWhere_fields _ _ _).2.2.2.2]; rfl
    | rmPair et eid et' => simp only [doAction]; rw [(removeWhere_fields _ _ _).2.2.2.2]; rfl
    | rmMany l => exact (rmMany_sub s false l).2.2.1 h
    | clear => rfl
    | dropOwner o => simp only [doAction]; rw [(removeWhere_fields _ _ _).2.2.2.2]; exact h
    | count => simp only [doAction]; split <;> exact h
    | raise et form noErr => rfl
  · intro s x h; show (removeWhere s _ none).1.inited = true; rw [(removeWhere_fields _ _ _).2.2.2.2]; exact h

/-! ### where a new subscription goes -/

/-- where a new subscription goes: behind every entry of the same or a higher priority, ahead of every lower one -/
theorem foldr_ins_split (l : List Entry) (e : Entry) (hs : Sorted l) :
    l.foldr ins [e] = l.takeWhile (fun x => decide (e.prio ≤ x.prio)) ++ e :: l.dropWhile (fun x => decide (e.prio ≤ x.prio)) := by
  induction l with
  | nil => rfl
  | cons x xs ih =>
    have hs' := List.pairwise_cons.mp hs
    rw [List.foldr_cons, ih hs'.2]
    by_cases hx : e.prio ≤ x.prio
    · simp only [List.takeWhile_cons, List.dropWhile_cons, hx, decide_true, if_true, List.cons_append]
      -- the head of what follows has priority ≤ x.prio
      cases htw : xs.takeWhile (fun x => decide (e.prio ≤ x.prio)) with
      | nil => simp [ins, hx]
      | cons y ys =>
        have hy : y ∈ xs := (List.takeWhile_sublist _).subset (by rw [htw]; exact List.mem_cons_self)
        have : y.prio ≤ x.prio := by rcases hs'.1 y hy with h | h <;> omega
        simp [ins, this]
    · have hall : ∀ y ∈ xs, ¬ e.prio ≤ y.prio := by
        intro y hy; rcases hs'.1 y hy with h | h <;> omega
      have htw : xs.takeWhile (fun x => decide (e.prio ≤ x.prio)) = [] := by
        cases xs with
        | nil => rfl
        | cons y ys => simp [hall y List.mem_cons_self]
      have hdw : xs.dropWhile (fun x => decide (e.prio ≤ x.prio)) = xs := by
        cases xs with
        | nil => rfl
        | cons y ys => simp [hall y List.mem_cons_self]
      simp only [List.takeWhile_cons, List.dropWhile_cons, hx, decide_false, htw, hdw, List.nil_append]
      simp only [Bool.false_eq_true, if_false, List.nil_append]
      have hex : ¬ e.prio ≤ x.prio := hx
      simp only [ins, hex, if_false]
      cases xs with
      | nil => simp [ins]
      | cons y ys =>
        have : y.prio ≤ x.prio := by rcases hs'.1 y List.mem_cons_self with h | h <;> omega
        simp [ins, this]

theorem takeWhile_all {p : Entry → Bool} {l : List Entry} (h : ∀ x ∈ l, p x = true) : l.takeWhile p = l ∧ l.dropWhile p = [] := by
  induction l with
  | nil => exact ⟨rfl, rfl⟩
  | cons x xs ih =>
    have := ih (fun y hy => h y (List.mem_cons_of_mem _ hy))
    simp [List.takeWhile_cons, List.dropWhile_cons, h x List.mem_cons_self, this.1, this.2]

theorem takeWhile_sat {p : Entry → Bool} {l : List Entry} : ∀ x ∈ l.takeWhile p, p x = true := by
  induction l with
  | nil => intro x hx; cases hx
  | cons y ys ih =>
    intro x hx
    by_cases hy : p y = true
    · simp only [List.takeWhile_cons, hy, if_true] at hx
      rcases List.mem_cons.mp hx with rfl | hx
      · exact hy
      · exact ih x hx
    · simp [List.takeWhile_cons, hy] at hx

/-- in a sorted list, what `dropWhile (prio ≤ ·)` leaves has strictly lower priority -/
theorem dropWhile_lower (l : List Entry) (p : Int) (hs : Sorted l) :
    ∀ x ∈ l.dropWhile (fun x => decide (p ≤ x.prio)), x.prio < p := by
  induction l with
  | nil => intro x hx; cases hx
  | cons y ys ih =>
    have hs' := List.pairwise_cons.mp hs
    intro x hx
    by_cases hy : p ≤ y.prio
    · simp only [List.dropWhile_cons, hy, decide_true, if_true] at hx; exact ih hs'.2 x hx
    · simp only [List.dropWhile_cons, hy, decide_false, Bool.false_eq_true, if_false] at hx
      rcases List.mem_cons.mp hx with rfl | hx
      · omega
      · rcases hs'.1 x hx with h | h <;> omega

/-- **where `addListener` puts the new entry**, at any state satisfying the source invariant (so also re-entrantly):
    behind every existing entry of the same or a higher priority, ahead of every entry of lower priority -/
theorem add_position {s : Src} (h : SrcInv s) (et hid : Nat) (prio : Int) (once : Bool) (weak : Option Nat) :
    let e : Entry := ⟨prio, hid, once, s.nextEid + 1, weak⟩
    let old := s.subscribers et
    (addCore s et hid prio once weak).1.handlers et =
      some (old.takeWhile (fun x => decide (prio ≤ x.prio)) ++ e :: old.dropWhile (fun x => decide (prio ≤ x.prio))) := by
  intro e old
  obtain ⟨hso, _, _, hpl⟩ := h.subs et
  cases hpr : (prio != 0 || s.prioritized.contains et) with
  | true =>
    simp only [addCore, hpr, if_true]
    rw [sortDesc_snoc, foldr_ins_split _ _ hso]
  | false =>
    simp only [Bool.or_eq_false_iff, bne_eq_false_iff_eq] at hpr
    obtain ⟨hp0, hnc⟩ := hpr
    have hpr' : (prio != 0 || s.prioritized.contains et) = false := by rw [hnc]; simp [hp0]
    have hall : ∀ x ∈ old, (fun x : Entry => decide (prio ≤ x.prio)) x = true := by
      intro x hx; simp [hpl hnc x hx, hp0]
    obtain ⟨h1, h2⟩ := takeWhile_all hall
    simp only [addCore, hpr', if_true]
    rw [h1, h2]; simp; exact ⟨rfl, rfl⟩

/-! ### autoBindEvents and removeListeners, exactly -/

theorem bindAll_pairs (s : Src) (hb : Nat) (prio : Int) (weak : Option Nat) (ets : List Nat) :
    (bindAll s hb prio weak ets).2.map (·.1) = ets.filter (fun et => s.declared.contains et) := by
  induction ets generalizing s with
  | nil => rfl
  | cons et ets ih =>
    simp only [bindAll]
    split
    · rename_i hd
      have := ih (addCore s et (hb + et) prio false weak).1
      simp only [List.map_cons, List.filter_cons, hd, if_true, this]
      rfl
    · rename_i hd
      simp only [List.filter_cons, hd, Bool.false_eq_true, if_false]
      exact ih s

/-- `removeListeners` with every named event type present: each list loses exactly the ids named for it -/
theorem rmMany_exact (s : Src) (alt : Bool) (l : List (Nat × Nat)) (hk : ∀ p ∈ l, (s.handlers p.1).isSome = true) (k : Nat) :
    (rmMany s alt l).1.handlers k =
      (s.handlers k).map (List.filter fun e => !(l.any fun p => p.1 == k && p.2 == e.eid)) := by
  induction l generalizing s alt with
  | nil =>
    cases h : s.handlers k with
    | none => simp [rmMany, h]
    | some v =>
      simp only [rmMany, h, Option.map_some, List.any_nil, Bool.not_false]
      congr 1
      exact (List.filter_eq_self.mpr (fun _ _ => rfl)).symm
  | cons p rest ih =>
    obtain ⟨et, eid⟩ := p
    have h0 := hk (et, eid) List.mem_cons_self
    simp only [rmMany]
    cases hl0 : s.handlers et with
    | none => simp [hl0] at h0
    | some l0 =>
      simp only
      have hk' : ∀ p ∈ rest, ((rmOne s et eid l0).handlers p.1).isSome = true := by
        intro p hp
        have := hk p (List.mem_cons_of_mem _ hp)
        simp only [rmOne]; split
        · rfl
        · exact this
      rw [ih (rmOne s et eid l0) _ hk']
      simp only [rmOne]
      by_cases hke : k = et
      · subst hke
        simp only [if_true, hl0, Option.map_some, dropMatching, List.filter_filter]
        congr 1
        apply List.filter_congr
        intro e _
        have : (eid == e.eid) = (e.eid == eid) := Bool.eq_iff_iff.mpr (by simp only [beq_iff_eq]; exact eq_comm)
        simp [List.any_cons, Bool.and_comm, this]
      · have : (et == k) = false := by simp [Ne.symm hke]
        simp only [hke, if_false]
        cases hh : s.handlers k with
        | none => rfl
        | some lk =>
          simp only [Option.map_some]
          congr 1
          apply List.filter_congr
          intro e _
          simp [List.any_cons, this]

/-! ### the two repair variants -/

theorem exec_v (m : M) (sa : SAct) (g : Bool) : (exec m sa g).v = m.v := by
  obtain ⟨i, a⟩ := sa
  cases a with
  | raise et form noErr =>
    simp only [exec]
    cases form with
    | junk isClass => rfl
    | again f0 => simp only; split <;> split <;> simp [push]
    | fwd => simp only; split <;> split <;> simp [push]
    | inst => simp only; split <;> simp [push]
    | cls => simp only; split <;> (try split) <;> simp [push]
  | dropOwner o => simp only [exec]; split <;> rfl
  | _ => rfl

theorem step_v (β : Beh) (m : M) : (step β m).v = m.v := by
  unfold step
  split
  · split <;> simp [abort]
  · split
    · split
      · rfl
      · rw [exec_v]
    · split
      · rw [exec_v]
      · simp [abort]
      · simp only [hret]; split <;> simp [finish]
      · split
        · simp [finish]
        · split
          · rfl
          · split <;> rfl

theorem run_v (β : Beh) (n : Nat) (m : M) : (run β n m).v = m.v := by
  induction n generalizing m with
  | zero => rfl
  | succ n ih => rw [run, ih, step_v]

/-- with D24 repaired: no `raiseEventNoErrors` delivery ends in an exception at all -/
def StrictOK : Ev → Prop
  | .endf _ true (.exc _) => False
  | _ => True

def StrictLog (log : List Ev) : Prop := ∀ ev ∈ log, StrictOK ev

theorem StrictLog.snoc {log : List Ev} (h : StrictLog log) {ev : Ev} (hev : StrictOK ev) : StrictLog (log ++ [ev]) := by
  intro x hx
  rcases List.mem_append.mp hx with hx | hx
  · exact h x hx
  · simp at hx; subst hx; exact hev

theorem abort_strict {m : M} {fr : Frame} {st : List Frame} {k : Exc} (hv : m.v.noErrAll = true) (h : StrictLog m.log) :
    StrictLog (abort m fr st k).log := by
  intro ev hev
  simp only [abort, List.mem_append, List.mem_singleton] at hev
  rcases hev with (hev | hev) | rfl
  · exact h ev hev
  · split at hev
    · simp at hev; subst hev; trivial
    · cases hev
  · cases hn : fr.noErr <;> simp [StrictOK, hv]

theorem StrictLog.step {β : Beh} {m m' : M} (hv : m.v.noErrAll = true) (h : Step β m m') (hg : StrictLog m.log) :
    StrictLog m'.log := by
  have hexec : ∀ {m1 : M} {g : Bool}, ExecR m1 g m' → m1.log = m.log → StrictLog m'.log := by
    intro m1 g he hl
    cases he with
    | quiet srcs' r n gn evOf' hn' hs hgn => rw [← hl] at hg; exact hg
    | enter i et ev noErr evOf' hd => simp only [push, hl]; exact hg.snoc trivial
  cases h with
  | deliverAbort k fr st hp hs =>
    exact abort_strict (m := { m with pend := none, log := m.log ++ [.res (.exc k)] }) hv (hg.snoc trivial)
  | deliver r g hp => exact hg.snoc trivial
  | idle => exact hg
  | topExec a as m' hp hs he => exact hexec he rfl
  | hExec fr st e a g acts r m' hp hs hc he => exact hexec he rfl
  | hAbort fr st e k hp hs hc => exact abort_strict hv hg
  | hRet fr st e r hp hs hc hr =>
    simp only [hret]; split
    · exact (hg.snoc (ev := .ret fr.fid e r (m.halts fr.ev)) trivial).snoc (ev := .endf fr.fid fr.noErr (.ok (.event true))) (by cases fr.noErr <;> trivial)
    · exact hg.snoc trivial
  | fFinish fr st hp hs hc hr => exact hg.snoc (ev := .endf fr.fid fr.noErr (.ok (.event (m.halts fr.ev)))) (by cases fr.noErr <;> trivial)
  | fInvoke fr st e rest live acts ret halts' srcs' hp hs hc hr hsrc hlive hdead => exact hg.snoc trivial

theorem StrictLog.run {β : Beh} {m : M} (hv : m.v.noErrAll = true) (hg : StrictLog m.log) (n : Nat) : StrictLog (run β n m).log := by
  induction n generalizing m with
  | zero => exact hg
  | succ n ih => exact ih (by rw [step_v]; exact hv) (hg.step hv (step_rel β m))

/-- with D60 repaired: the moment a one-shot handler raises, its subscription is gone for good -/
theorem later_of_abort {m : M} {fr : Frame} {st : List Frame} {e : Entry} {acts : List (SAct × Bool)} {r : Ret} {k : Exc}
    (hv : m.v.onceFinally = true) (hc : fr.cur = some (e, acts, r)) (ho : e.once = true)
    (hle : e.eid ≤ (m.srcs fr.src).nextEid) (hlt : ∀ x ∈ st, x.fid < m.nextFid)
    (hnocall : ∀ f, m.nextFid ≤ f → ∀ y lv, Ev.call f fr.src y lv ∈ m.log → False) :
    Later e.eid fr.src m.nextFid (abort m fr st k) := by
  refine ⟨?_, by simp [abort], ?_, ?_⟩
  · simp only [abort, hc, hv, ho, Bool.and_self, if_true, updSrc_self]
    exact rmEidAll_absent _ _ hle
  · intro x hx _ hf
    simp only [abort] at hx
    have := hlt x hx; omega
  · intro f hf y lv hy
    simp only [abort, hc, List.mem_append, List.mem_cons, List.not_mem_nil, or_false] at hy
    rcases hy with (hy | hy) | hy
    · exact (hnocall f hf y lv hy).elim
    · cases hy
    · cases hy

/-! ### weak handlers whose owner is collected while a delivery still has them in its snapshot -/

theorem step_gone {β : Beh} {m m' : M} (h : Step β m m') : ∃ d, m'.gone = m.gone ++ d := by
  have hexec : ∀ {m1 : M} {g : Bool}, ExecR m1 g m' → m1.gone = m.gone → ∃ d, m'.gone = m.gone ++ d := by
    intro m1 g he hl
    cases he with
    | quiet srcs' r n gn evOf' hn' hs hgn => obtain ⟨d, hd⟩ := hgn; exact ⟨d, by rw [← hl]; exact hd⟩
    | enter i et ev noErr evOf' hd => exact ⟨[], by simp [push, hl]⟩
  cases h with
  | topExec a as m' hp hs he => exact hexec he rfl
  | hExec fr st e a g acts r m' hp hs hc he => exact hexec he rfl
  | hRet fr st e r hp hs hc hr => simp only [hret]; split <;> exact ⟨[], by simp [finish]⟩
  | _ => exact ⟨[], by simp [abort, finish]⟩

/-- a step runs a handler's code (`live` call) only for a subscription that is not marked as gone -/
theorem step_live_call {β : Beh} {m m' : M} (h : Step β m m') (f s : Nat) (y : Entry) (hy : Ev.call f s y true ∈ m'.log) :
    Ev.call f s y true ∈ m.log ∨ ∀ p ∈ m.gone, p.1 ≠ y.eid := by
  have hexec : ∀ {m1 : M} {g : Bool}, ExecR m1 g m' → m1.log = m.log → Ev.call f s y true ∈ m.log := by
    intro m1 g he hl
    cases he with
    | quiet srcs' r n gn evOf' hn' hs hgn => rw [← hl]; exact hy
    | enter i et ev noErr evOf' hd => simpa [push, hl] using hy
  cases h with
  | deliverAbort k fr st hp hs =>
    left
    simp only [abort] at hy
    cases hcur : fr.cur with
    | none => simpa [hcur] using hy
    | some c => obtain ⟨e, acts, r⟩ := c; simpa [hcur] using hy
  | deliver r g hp => left; simpa using hy
  | idle => exact .inl hy
  | topExec a as m' hp hs he => exact .inl (hexec he rfl)
  | hExec fr st e a g acts r m' hp hs hc he => exact .inl (hexec he rfl)
  | hAbort fr st e k hp hs hc => left; simpa [abort, hc] using hy
  | hRet fr st e r hp hs hc hr =>
    left
    by_cases hh : stopsAt r (m.halts fr.ev) = true
    · simpa [hret, hh, finish] using hy
    · simpa [hret, hh] using hy
  | fFinish fr st hp hs hc hr => left; simpa [finish] using hy
  | fInvoke fr st e rest live acts ret halts' srcs' hp hs hc hr hsrc hlive hdead =>
    simp only [List.mem_append, List.mem_singleton] at hy
    rcases hy with hy | hy
    · exact .inl hy
    · right
      injection hy with h1 h2 h3 h4
      subst h3
      exact (hlive h4.symm).1

/-- once a subscription is marked gone (its owner was collected while it sat in an in-flight snapshot), its handler's
    code is never run again: every live call of it in any later log was already in the log -/
theorem gone_silent (β : Beh) (m : M) (x : Nat) (hx : ∃ p ∈ m.gone, p.1 = x) (n : Nat) (f s : Nat) (y : Entry)
    (hy : Ev.call f s y true ∈ (run β n m).log) (hxy : y.eid = x) : Ev.call f s y true ∈ m.log := by
  induction n generalizing m with
  | zero => exact hy
  | succ n ih =>
    obtain ⟨d, hd⟩ := step_gone (step_rel β m)
    obtain ⟨p, hp, hp1⟩ := hx
    have := ih (step β m) ⟨p, by rw [hd]; exact List.mem_append_left _ hp, hp1⟩ hy
    rcases step_live_call (step_rel β m) f s y this with h | h
    · exact h
    · exact absurd (hp1.trans hxy.symm) (h p hp)

/-- collecting an owner (none of whose methods is executing) marks every entry of it that an in-flight delivery has
    still to reach, with whether the proxy could remove itself from its source -/
theorem collect_mem (srcs : Nat → Src) (o : Nat) (stack : List Frame) (fr : Frame) (hfr : fr ∈ stack) (e : Entry)
    (he : e ∈ fr.rest) (hw : e.weak = some o) : (e.eid, ((srcs fr.src).handlers fr.et).isNone) ∈ collect srcs o stack := by
  simp only [collect, List.mem_flatMap, List.mem_map, List.mem_filter]
  exact ⟨fr, hfr, e, ⟨he, by simp [hw]⟩, rfl⟩

/-! ### a one-shot subscription fires at most once (`oncePre`); visits without a call have a reason -/


/-- how often the code of a one-shot subscription `x` of source `s` has been run -/
def liveOnce (s x : Nat) : List Ev → Nat
  | [] => 0
  | .call _ s' e live :: l => (if s' = s ∧ live = true ∧ e.once = true ∧ e.eid = x then 1 else 0) + liveOnce s x l
  | _ :: l => liveOnce s x l

theorem liveOnce_append (s x : Nat) (l d : List Ev) : liveOnce s x (l ++ d) = liveOnce s x l + liveOnce s x d := by
  induction l with
  | nil => simp [liveOnce]
  | cons ev l ih => cases ev <;> simp only [List.cons_append, liveOnce, ih] <;> omega

/-- a step runs the code of a one-shot subscription at most once more, and (with `oncePre`) only by claiming it: it was
    subscribed, and is unsubscribed by the same step -/
theorem step_liveOnce {β : Beh} {m m' : M} (h : Step β m m') (s x : Nat) :
    liveOnce s x m'.log = liveOnce s x m.log ∨
    (liveOnce s x m'.log = liveOnce s x m.log + 1 ∧
      (m.v.oncePre = true → m'.srcs s = rmEidAll (m.srcs s) x ∧ ∃ k, ((m.srcs s).subscribers k).any (matchEid x) = true)) := by
  have hexec : ∀ {m1 : M} {g : Bool}, ExecR m1 g m' → m1.log = m.log → liveOnce s x m'.log = liveOnce s x m.log := by
    intro m1 g he hl
    cases he with
    | quiet srcs' r n gn evOf' hn' hs hgn => rw [← hl]
    | enter i et ev noErr evOf' hd => simp [push, hl, liveOnce_append, liveOnce]
  cases h with
  | deliverAbort k fr st hp hs =>
    left
    simp only [abort]
    cases hcur : fr.cur with
    | none => simp [liveOnce_append, liveOnce]
    | some c => obtain ⟨e, acts, r⟩ := c; simp [liveOnce_append, liveOnce]
  | deliver r g hp => left; simp [liveOnce_append, liveOnce]
  | idle => exact .inl rfl
  | topExec a as m' hp hs he => exact .inl (hexec he rfl)
  | hExec fr st e a g acts r m' hp hs hc he => exact .inl (hexec he rfl)
  | hAbort fr st e k hp hs hc => left; simp [abort, hc, liveOnce_append, liveOnce]
  | hRet fr st e r hp hs hc hr =>
    left
    by_cases hh : stopsAt r (m.halts fr.ev) = true
    · simp [hret, hh, finish, liveOnce_append, liveOnce]
    · simp [hret, hh, liveOnce_append, liveOnce]
  | fFinish fr st hp hs hc hr => left; simp [finish, liveOnce_append, liveOnce]
  | fInvoke fr st e rest live acts ret halts' srcs' hp hs hc hr hsrc hlive hdead =>
    by_cases hcond : fr.src = s ∧ live = true ∧ e.once = true ∧ e.eid = x
    · right
      obtain ⟨h1, h2, h3, h4⟩ := hcond
      refine ⟨by simp [liveOnce_append, liveOnce, h1, h2, h3, h4], fun hv => ?_⟩
      obtain ⟨hs', k, hk⟩ := (hlive h2).2 hv h3
      subst h1; subst h4
      exact ⟨by simp [hs'], k, hk⟩
    · left; simp [liveOnce_append, liveOnce, hcond]

/-- with `oncePre`: the code of a one-shot subscription has run at most once, and once it has, the subscription is gone -/
def OnceInv (m : M) : Prop :=
  ∀ s x, liveOnce s x m.log ≤ 1 ∧ (1 ≤ liveOnce s x m.log → Absent x (m.srcs s))

theorem absent_not_subscribed {x : Nat} {s : Src} (h : Absent x s) (k : Nat) : (s.subscribers k).any (matchEid x) = false := by
  unfold Src.subscribers
  cases hh : s.handlers k with
  | none => rfl
  | some l =>
    simp only [List.any_eq_false, matchEid, beq_iff_eq]
    exact fun e he => h.2 k l hh e he

theorem OnceInv.step' {β : Beh} {m : M} (hi : MInv m) (hv : m.v.oncePre = true) (ho : OnceInv m) : OnceInv (step β m) := by
  intro s x
  obtain ⟨hle, habs⟩ := ho s x
  have hstep := step_rel β m
  have hpres : Absent x (m.srcs s) → Absent x ((step β m).srcs s) := step_src (absent_closed x) hi.sync hstep s
  rcases step_liveOnce hstep s x with heq | ⟨heq, hclaim⟩
  · rw [heq]; exact ⟨hle, fun h1 => hpres (habs h1)⟩
  · obtain ⟨hsrc, k, hk⟩ := hclaim hv
    have h0 : liveOnce s x m.log = 0 := by
      rcases Nat.eq_zero_or_pos (liveOnce s x m.log) with h | h
      · exact h
      · have := absent_not_subscribed (habs h) k; rw [this] at hk; cases hk
    rw [heq, h0]
    refine ⟨Nat.le_refl _, fun _ => ?_⟩
    rw [hsrc]
    apply rmEidAll_absent
    -- the entry is in a list of the source, so its id has been handed out
    unfold Src.subscribers at hk
    cases hh : (m.srcs s).handlers k with
    | none => simp [hh] at hk
    | some l =>
      simp only [hh, List.any_eq_true, matchEid, beq_iff_eq] at hk
      obtain ⟨e, he, rfl⟩ := hk
      exact (hi.src s).bound k l hh e he

theorem OnceInv.run {β : Beh} {m : M} (hi : MInv m) (hv : m.v.oncePre = true) (ho : OnceInv m) (n : Nat) : OnceInv (run β n m) := by
  induction n generalizing m with
  | zero => exact ho
  | succ n ih => exact ih hi.step' (by rw [step_v]; exact hv) (ho.step' hi hv)

/-- every entry a delivery has reached without running its handler's code had a reason: its owner had been collected, or
    (`oncePre`) it is a one-shot entry that was not subscribed any more -/
def DeadOK (m : M) : Prop :=
  ∀ f s e, Ev.call f s e false ∈ m.log → (∃ p ∈ m.gone, p.1 = e.eid) ∨ (m.v.oncePre = true ∧ e.once = true)

theorem DeadOK.step' {β : Beh} {m : M} (hd : DeadOK m) : DeadOK (step β m) := by
  intro f s y hy
  have hstep := step_rel β m
  obtain ⟨dg, hdg⟩ := step_gone hstep
  have hold : Ev.call f s y false ∈ m.log → (∃ p ∈ (step β m).gone, p.1 = y.eid) ∨ ((step β m).v.oncePre = true ∧ y.once = true) := by
    intro h
    rcases hd f s y h with ⟨p, hp, hp1⟩ | h2
    · exact .inl ⟨p, by rw [hdg]; exact List.mem_append_left _ hp, hp1⟩
    · right; rw [step_v]; exact h2
  have hexec : ∀ {m1 : M} {g : Bool}, ExecR m1 g (step β m) → m1.log = m.log → Ev.call f s y false ∈ m.log := by
    intro m1 g he hl
    generalize hm' : step β m = m' at he hy
    cases he with
    | quiet srcs' r n gn evOf' hn' hs hgn => rw [← hl]; exact hy
    | enter i et ev noErr evOf' hd => simpa [push, hl] using hy
  generalize hm' : step β m = m' at hstep hy hold hexec hdg
  cases hstep with
  | deliverAbort k fr st hp hs =>
    apply hold
    simp only [abort] at hy
    cases hcur : fr.cur with
    | none => simpa [hcur] using hy
    | some c => obtain ⟨e, acts, r⟩ := c; simpa [hcur] using hy
  | deliver r g hp => apply hold; simpa using hy
  | idle => exact hold hy
  | topExec a as m' hp hs he => exact hold (hexec he rfl)
  | hExec fr st e a g acts r m' hp hs hc he => exact hold (hexec he rfl)
  | hAbort fr st e k hp hs hc => apply hold; simpa [abort, hc] using hy
  | hRet fr st e r hp hs hc hr =>
    apply hold
    by_cases hh : stopsAt r (m.halts fr.ev) = true
    · simpa [hret, hh, finish] using hy
    · simpa [hret, hh] using hy
  | fFinish fr st hp hs hc hr => apply hold; simpa [finish] using hy
  | fInvoke fr st e rest live acts ret halts' srcs' hp hs hc hr hsrc hlive hdead =>
    simp only [List.mem_append, List.mem_singleton] at hy
    rcases hy with hy | hy
    · exact hold hy
    · injection hy with h1 h2 h3 h4
      subst h3
      rcases hdead h4.symm with ⟨p, hp', hp1⟩ | h2'
      · exact .inl ⟨p, by simpa using hp', hp1⟩
      · exact .inr (by simpa using h2')

theorem DeadOK.run {β : Beh} {m : M} (hd : DeadOK m) (n : Nat) : DeadOK (run β n m) := by
  induction n generalizing m with
  | zero => exact hd
  | succ n ih => exact ih hd.step'

theorem liveCallsOf_sublist (f : Nat) (log : List Ev) : (liveCallsOf f log).Sublist (callsOf f log) := by
  induction log with
  | nil => exact List.Sublist.refl _
  | cons ev l ih =>
    cases ev with
    | call f' s e live =>
      simp only [liveCallsOf, callsOf]
      by_cases hf : f' = f
      · by_cases hl : live = true
        · simp [hf, hl, ih]
        · simp [hf, hl]; exact List.Sublist.cons _ ih
      · simp [hf, ih]
    | _ => simpa only [liveCallsOf, callsOf] using ih

/-- an entry a delivery has reached either had its code run or was answered without -/
theorem calls_live_or_dead (f : Nat) (log : List Ev) (e : Entry) (he : e ∈ callsOf f log) :
    e ∈ liveCallsOf f log ∨ ∃ s, Ev.call f s e false ∈ log := by
  induction log with
  | nil => cases he
  | cons ev l ih =>
    cases ev with
    | call f' s y live =>
      simp only [callsOf] at he
      by_cases hf : f' = f
      · simp only [hf, if_true, List.mem_cons] at he
        rcases he with rfl | he
        · cases live
          · exact .inr ⟨s, by simp [hf]⟩
          · exact .inl (by simp [liveCallsOf, hf])
        · rcases ih he with h | ⟨s', h⟩
          · left; simp only [liveCallsOf]; split <;> simp [h]
          · exact .inr ⟨s', List.mem_cons_of_mem _ h⟩
      · simp only [hf, if_false] at he
        rcases ih he with h | ⟨s', h⟩
        · left; simp only [liveCallsOf]; split <;> simp [h]
        · exact .inr ⟨s', List.mem_cons_of_mem _ h⟩
    | _ =>
      simp only [callsOf] at he
      rcases ih he with h | ⟨s', h⟩
      · exact .inl (by simpa only [liveCallsOf] using h)
      · exact .inr ⟨s', List.mem_cons_of_mem _ h⟩

/-! ### what `autoBindEvents` subscribes -/


theorem addCore_list (s : Src) (et hid : Nat) (prio : Int) (once : Bool) (weak : Option Nat) :
    ∃ l', (addCore s et hid prio once weak).1.handlers et = some l' ∧
      ∀ y, y ∈ l' ↔ y = ⟨prio, hid, once, s.nextEid + 1, weak⟩ ∨ y ∈ s.subscribers et := by
  cases hpr : (prio != 0 || s.prioritized.contains et) with
  | true =>
    refine ⟨sortDesc (s.subscribers et ++ [⟨prio, hid, once, s.nextEid + 1, weak⟩]), by simp only [addCore, hpr, if_true], ?_⟩
    intro y; rw [sortDesc_snoc, mem_foldr_ins]
  | false =>
    refine ⟨s.subscribers et ++ [⟨prio, hid, once, s.nextEid + 1, weak⟩], by simp only [addCore, hpr]; simp, ?_⟩
    intro y; simp [List.mem_append, or_comm]

theorem addCore_keeps (s : Src) (et hid : Nat) (prio : Int) (once : Bool) (weak : Option Nat) (k : Nat) (l : List Entry)
    (hl : s.handlers k = some l) :
    ∃ l', (addCore s et hid prio once weak).1.handlers k = some l' ∧ ∀ y ∈ l, y ∈ l' := by
  by_cases hk : k = et
  · subst hk
    obtain ⟨l', h1, h2⟩ := addCore_list s k hid prio once weak
    refine ⟨l', h1, fun y hy => (h2 y).mpr (.inr ?_)⟩
    simp [Src.subscribers, hl, hy]
  · exact ⟨l, by simp [addCore, hk, hl], fun _ h => h⟩

theorem bindAll_keeps (s : Src) (hb : Nat) (prio : Int) (weak : Option Nat) (ets : List Nat) (k : Nat) (l : List Entry)
    (hl : s.handlers k = some l) :
    ∃ l', (bindAll s hb prio weak ets).1.handlers k = some l' ∧ ∀ y ∈ l, y ∈ l' := by
  induction ets generalizing s l with
  | nil => exact ⟨l, hl, fun _ h => h⟩
  | cons et ets ih =>
    simp only [bindAll]
    split
    · obtain ⟨l1, h1, h2⟩ := addCore_keeps s et (hb + et) prio false weak k l hl
      obtain ⟨l2, h3, h4⟩ := ih _ l1 h1
      exact ⟨l2, h3, fun y hy => h4 y (h2 y hy)⟩
    · exact ih s l hl

/-- every subscription `autoBindEvents` reports is in the list of its event type afterwards, and carries the sink's
    method for that event, the priority and the weak flag given, and is not one-shot -/
theorem bindAll_entries (s : Src) (hb : Nat) (prio : Int) (weak : Option Nat) (ets : List Nat) :
    ∀ p ∈ (bindAll s hb prio weak ets).2, ∃ l, (bindAll s hb prio weak ets).1.handlers p.1 = some l ∧
      (⟨prio, hb + p.1, false, p.2, weak⟩ : Entry) ∈ l := by
  induction ets generalizing s with
  | nil => intro p hp; cases hp
  | cons et ets ih =>
    simp only [bindAll]
    split
    · intro p hp
      rcases List.mem_cons.mp hp with rfl | hp
      · obtain ⟨l1, h1, h2⟩ := addCore_list s et (hb + et) prio false weak
        obtain ⟨l2, h3, h4⟩ := bindAll_keeps (addCore s et (hb + et) prio false weak).1 hb prio weak ets et l1 h1
        exact ⟨l2, h3, h4 _ ((h2 _).mpr (.inl rfl))⟩
      · exact ih _ p hp
    · exact ih s

/-! ### declarations never change; nobody is subscribed to an undeclared type; `removeListener` by form -/


theorem removeWhere_decl (s : Src) (p : Entry → Bool) (o : Option Nat) :
    (removeWhere s p o).1.declared = s.declared ∧ (removeWhere s p o).1.acceptAll = s.acceptAll :=
  ⟨(removeWhere_fields s p o).2.2.1, (removeWhere_fields s p o).2.2.2.1⟩

theorem bindAll_decl (ets : List Nat) (s : Src) (hb : Nat) (prio : Int) (weak : Option Nat) :
    (bindAll s hb prio weak ets).1.declared = s.declared ∧ (bindAll s hb prio weak ets).1.acceptAll = s.acceptAll := by
  induction ets generalizing s with
  | nil => exact ⟨rfl, rfl⟩
  | cons et ets ih =>
    simp only [bindAll]; split
    · exact ih _
    · exact ih s

theorem rmMany_decl (l : List (Nat × Nat)) (s : Src) (alt : Bool) :
    (rmMany s alt l).1.declared = s.declared ∧ (rmMany s alt l).1.acceptAll = s.acceptAll := by
  induction l generalizing s alt with
  | nil => exact ⟨rfl, rfl⟩
  | cons p rest ih =>
    obtain ⟨et, eid⟩ := p
    simp only [rmMany]; split
    · exact ⟨rfl, rfl⟩
    · exact ih _ _

/-- the declaration of a source never changes -/
theorem doAction_decl (s : Src) (a : Action) :
    (doAction s a).1.declared = s.declared ∧ (doAction s a).1.acceptAll = s.acceptAll := by
  cases a with
  | add et hid prio once weak => simp only [doAction]; split <;> exact ⟨rfl, rfl⟩
  | bind meths pfx hb prio weak => simp only [doAction]; split; exact ⟨rfl, rfl⟩; exact bindAll_decl _ _ _ _ _
  | rmHandler hid et => exact removeWhere_decl _ _ _
  | rmEid eid et => exact removeWhere_decl _ _ _
  | rmPair et eid et' => exact removeWhere_decl _ _ _
  | rmMany l => exact rmMany_decl l s false
  | clear => exact ⟨rfl, rfl⟩
  | dropOwner o => exact removeWhere_decl _ _ _
  | count => simp only [doAction]; split <;> exact ⟨rfl, rfl⟩
  | raise et form noErr => exact ⟨rfl, rfl⟩

theorem decl_closed (d : List Nat) (a : Bool) : SrcClosed (fun s => s.declared = d ∧ s.acceptAll = a) :=
  ⟨fun s act h => by obtain ⟨h1, h2⟩ := doAction_decl s act; rw [h1, h2]; exact h,
   fun s x h => by
     obtain ⟨h1, h2⟩ := removeWhere_decl s (matchEid x) none
     exact ⟨h1.trans h.1, h2.trans h.2⟩,
   fun _ _ _ h => h⟩

/-- nobody is ever subscribed to an event type the source does not declare: there is not even a list for it -/
def UndeclEmpty (s : Src) : Prop := ∀ et, s.isDeclared et = false → s.handlers et = none

theorem UndeclEmpty.of_sub {s s' : Src} (h : UndeclEmpty s) (hd : s'.declared = s.declared ∧ s'.acceptAll = s.acceptAll)
    (hsub : ∀ k l', s'.handlers k = some l' → ∃ l, s.handlers k = some l) : UndeclEmpty s' := by
  intro et hu
  have hu' : s.isDeclared et = false := by simpa [Src.isDeclared, hd.1, hd.2] using hu
  cases hh : s'.handlers et with
  | none => rfl
  | some l' => obtain ⟨l, hl⟩ := hsub et l' hh; rw [h et hu'] at hl; cases hl

theorem UndeclEmpty.addCore {s : Src} (h : UndeclEmpty s) (et hid : Nat) (prio : Int) (once : Bool) (weak : Option Nat)
    (hdecl : s.isDeclared et = true) : UndeclEmpty (addCore s et hid prio once weak).1 := by
  intro k hk
  have hk' : s.isDeclared k = false := hk
  have hne : k ≠ et := by intro he; rw [he, hdecl] at hk'; cases hk'
  simp only [Pox.Revent.addCore, hne, if_false]
  exact h k hk'

theorem UndeclEmpty.bindAll {s : Src} (h : UndeclEmpty s) (hb : Nat) (prio : Int) (weak : Option Nat) (ets : List Nat) :
    UndeclEmpty (bindAll s hb prio weak ets).1 := by
  induction ets generalizing s with
  | nil => exact h
  | cons et ets ih =>
    simp only [Pox.Revent.bindAll]; split
    · rename_i hd
      exact ih (h.addCore et _ prio false weak (by simp only [Src.isDeclared, hd, Bool.or_true]))
    · exact ih h

theorem undecl_closed : SrcClosed UndeclEmpty := by
  have hrw : ∀ (s : Src) (p : Entry → Bool) (o : Option Nat), UndeclEmpty s → UndeclEmpty (removeWhere s p o).1 :=
    fun s p o h => h.of_sub (removeWhere_decl s p o)
      (fun k l' hk => by obtain ⟨l, hl, _⟩ := removeWhere_handlers s p o k l' hk; exact ⟨l, hl⟩)
  refine ⟨?_, fun s x h => hrw s _ none h, fun _ _ _ h => h⟩
  intro s a h
  cases a with
  | add et hid prio once weak =>
    simp only [doAction]; split
    · rename_i hd; exact h.addCore et hid prio once weak hd
    · exact h
  | bind meths pfx hb prio weak => simp only [doAction]; split; exact h; exact h.bindAll _ _ _ _
  | rmHandler hid et => exact hrw _ _ _ h
  | rmEid eid et => exact hrw _ _ _ h
  | rmPair et eid et' => exact hrw _ _ _ h
  | rmMany l =>
    exact h.of_sub (rmMany_decl l s false)
      (fun k l' hk => by obtain ⟨l0, hl0, _⟩ := (rmMany_sub s false l).2.2.2 k l' hk; exact ⟨l0, hl0⟩)
  | clear => intro et _; rfl
  | dropOwner o => exact hrw _ _ _ h
  | count => simp only [doAction]; split <;> exact h
  | raise et form noErr => exact h

/-- what `removeListener` does, for a predicate and a scope: every form of the call is one of these -/
theorem removeWhere_spec (s : Src) (p : Entry → Bool) (scope : Option Nat) :
    match scope with
    | none =>
      (∀ k, (removeWhere s p none).1.handlers k = (s.handlers k).map (List.filter fun e => !p e)) ∧
      (∀ k l, (removeWhere s p none).1.handlers k = some l → ∀ e ∈ l, p e = false)
    | some et =>
      match s.handlers et with
      | none => removeWhere s p (some et) = (s, .exc .key)
      | some l =>
        (removeWhere s p (some et)).1.handlers et = some (l.filter fun e => !p e) ∧
        (∀ k, k ≠ et → (removeWhere s p (some et)).1.handlers k = s.handlers k) ∧
        (removeWhere s p (some et)).2 = .ok (.bool (l.any p)) := by
  cases scope with
  | none =>
    refine ⟨fun k => rfl, ?_⟩
    intro k l hl e he
    simp only [removeWhere, Option.map_eq_some_iff] at hl
    obtain ⟨l0, _, rfl⟩ := hl
    simpa [dropMatching] using (List.mem_filter.mp he).2
  | some et =>
    simp only
    cases hl : s.handlers et with
    | none => simp [removeWhere, hl]
    | some l =>
      simp only [removeWhere, hl]
      exact ⟨by simp [dropMatching], fun k hk => by simp [hk], by simp⟩

/-- every delivery that ever started was for an event type its source declares -/
def BeginOK (m : M) : Prop := ∀ f i et snap, Ev.begin f i et snap ∈ m.log → (m.srcs i).isDeclared et = true

theorem isDeclared_step {β : Beh} {m : M} (hsync : Sync m.srcs) (i et : Nat) :
    ((step β m).srcs i).isDeclared et = (m.srcs i).isDeclared et := by
  have := step_src (decl_closed (m.srcs i).declared (m.srcs i).acceptAll) hsync (step_rel β m) i ⟨rfl, rfl⟩
  simp [Src.isDeclared, this.1, this.2]

theorem BeginOK.step' {β : Beh} {m : M} (hsync : Sync m.srcs) (hb : BeginOK m) : BeginOK (step β m) := by
  intro f i et snap hy
  rw [isDeclared_step hsync]
  have hstep := step_rel β m
  have hexec : ∀ {m1 : M} {g : Bool}, ExecR m1 g (step β m) → m1.log = m.log → m1.srcs = m.srcs →
      Ev.begin f i et snap ∈ m.log ∨ (m.srcs i).isDeclared et = true := by
    intro m1 g he hl hs
    generalize hm' : step β m = m' at he hy
    cases he with
    | quiet srcs' r n gn hn' hs' hgn => left; rw [← hl]; exact hy
    | enter i' et' ev noErr evOf' hd =>
      simp only [push, hl, List.mem_append, List.mem_singleton] at hy
      rcases hy with hy | hy
      · exact .inl hy
      · right; injection hy with h1 h2 h3 h4; subst h2; subst h3; rw [← hs]; exact hd
  have fin : Ev.begin f i et snap ∈ m.log ∨ (m.srcs i).isDeclared et = true → (m.srcs i).isDeclared et = true := by
    intro h; rcases h with h | h; exact hb f i et snap h; exact h
  apply fin
  generalize hm' : step β m = m' at hstep hy hexec
  cases hstep with
  | deliverAbort k fr st hp hs =>
    left
    simp only [abort] at hy
    cases hcur : fr.cur with
    | none => simpa [hcur] using hy
    | some c => obtain ⟨e, acts, r⟩ := c; simpa [hcur] using hy
  | deliver r g hp => left; simpa using hy
  | idle => exact .inl hy
  | topExec a as m' hp hs he => exact hexec he rfl rfl
  | hExec fr st e a g acts r m' hp hs hc he => exact hexec he rfl rfl
  | hAbort fr st e k hp hs hc => left; simpa [abort, hc] using hy
  | hRet fr st e r hp hs hc hr =>
    left
    by_cases hh : stopsAt r (m.halts fr.ev) = true
    · simpa [hret, hh, finish] using hy
    · simpa [hret, hh] using hy
  | fFinish fr st hp hs hc hr => left; simpa [finish] using hy
  | fInvoke fr st e rest live acts ret halts' srcs' hp hs hc hr hsrc hlive hdead => left; simpa using hy

end Pox.Revent
