import PoxModel.Proofs.ActionsOutput
/-!
# C12, part 5: ingress exclusion, FLOOD's NO_FLOOD rule, receive guards and receive counters, operation histories —
for all frames (no well-formedness needed).  Core only.
-/
namespace Pox.Actions
open Pox Pox.Packet Pox.Actions.Spec

/-! ## the ingress port -/

/-- an action list that never asks for IN_PORT -/
def noInPortAct : Action → Prop
  | .output p _ => p ≠ P_IN_PORT
  | .enqueue p _ => p ≠ P_IN_PORT
  | _ => True

def NoInPort (acts : List Action) : Prop := ∀ a ∈ acts, noInPortAct a

/-- no frame of the log is on port `no` -/
def NotOn (no : Nat) (outs : List Out) : Prop := ∀ b, Out.frame no b ∉ outs

theorem NotOn.nil (no : Nat) : NotOn no [] := by intro b; simp

theorem NotOn.append {no : Nat} {a b : List Out} (ha : NotOn no a) (hb : NotOn no b) : NotOn no (a ++ b) := by
  intro x hm
  rcases List.mem_append.mp hm with h | h
  · exact ha x h
  · exact hb x h

theorem NotOn.of_noFrames {no : Nat} {o : List Out} (h : noFrames o) : NotOn no o := fun b => h no b

theorem realSend_notOn (sw : Sw) (f : Frame) (no inPort : Nat) (sw' : Sw) (outs : List Out)
    (h : realSend sw f no inPort false = .ok (sw', outs)) : NotOn inPort outs := by
  obtain ⟨_, hf, hn⟩ := realSend_sound sw f no inPort false sw' outs h
  intro b hm
  obtain ⟨b', hb⟩ := hf _ hm
  simp only [Out.frame.injEq] at hb
  rcases hn (List.ne_nil_of_mem hm) with hh | hh
  · exact hh hb.1.symm
  · cases hh

theorem sendMany_notOn (sw : Sw) (f : Frame) (inPort : Nat) (l : List Nat) (sw' : Sw) (outs : List Out)
    (h : sendMany sw f inPort l = .ok (sw', outs)) : NotOn inPort outs := by
  obtain ⟨_, hf⟩ := sendMany_sound f inPort l sw sw' outs h
  intro b hm
  obtain ⟨no, b', hb, _, hne⟩ := hf _ hm
  simp only [Out.frame.injEq] at hb
  exact hne hb.1.symm

/-- a table continuation that never emits on the ingress port -/
def TableNotOn (table : TableK) (P : Sw → Prop) : Prop :=
  ∀ sw f inPort sw' f' outs, P sw → table sw f inPort = .ok (sw', f', outs) → NotOn inPort outs

theorem outputPacket_notOn (table : TableK) (P : Sw → Prop) (ht : TableNotOn table P) (sw : Sw) (hP : P sw) (f : Frame)
    (port inPort : Nat) (hp : port ≠ P_IN_PORT) (ml : Option Nat) (sw' : Sw) (f' : Frame) (outs : List Out)
    (h : outputPacket table sw f port inPort ml = .ok (sw', f', outs)) : NotOn inPort outs := by
  unfold outputPacket at h
  split at h
  · exact realSend_notOn _ _ _ _ _ _ (keep_ok h).1
  · split at h
    · exact sendMany_notOn _ _ _ _ _ _ (keep_ok h).1
    · split at h
      · exact sendMany_notOn _ _ _ _ _ _ (keep_ok h).1
      · split at h
        · cases hpk : packFrame f with
          | error e => simp [hpk] at h
          | ok b =>
            simp only [hpk, Except.ok.injEq, Prod.mk.injEq] at h
            obtain ⟨rfl, rfl, rfl⟩ := h
            intro b' hm
            simp only [List.mem_singleton] at hm
            exact packetInOf_ne_frame' _ _ _ _ _ _ hm.symm
        · split at h
          · exact ht _ _ _ _ _ _ hP h
          · cases h; exact NotOn.nil _

/-- `P` is a property of the switch that the transmit counters do not affect (e.g. "no flow entry uses IN_PORT") -/
def StatsBlind (P : Sw → Prop) : Prop := ∀ sw st, P sw → P (sw.withStats st)

theorem applyWith_notOn (var : Variant) (table : TableK) (P : Sw → Prop) (hb : StatsBlind P) (hs : TableSound table)
    (ht : TableNotOn table P) :
    ∀ (acts : List Action) (sw : Sw) (f : Frame) (inPort : Nat) (sw' : Sw) (f' : Frame) (outs : List Out),
    P sw → NoInPort acts → applyWith var table sw acts f inPort = .ok (sw', f', outs) → NotOn inPort outs := by
  intro acts
  induction acts with
  | nil => intro sw f inPort sw' f' outs _ _ h; cases h; exact NotOn.nil _
  | cons a rest ih =>
    intro sw f inPort sw' f' outs hP hn h
    have hrest : NoInPort rest := fun a h => hn a (List.mem_cons_of_mem _ h)
    cases a with
    | vendor v =>
      simp only [applyWith, Except.ok.injEq, Prod.mk.injEq] at h
      obtain ⟨rfl, rfl, rfl⟩ := h
      intro b hm; simp at hm
    | output port ml =>
      have hp : port ≠ P_IN_PORT := hn _ List.mem_cons_self
      simp only [applyWith, bind, Except.bind] at h
      cases h1 : outputPacket table sw f port inPort (some ml) with
      | error e => simp [h1] at h
      | ok r1 =>
        obtain ⟨sw1, f1, o1⟩ := r1
        simp only [h1] at h
        cases h2 : applyWith var table sw1 rest f1 inPort with
        | error e => simp [h2] at h
        | ok r2 =>
          obtain ⟨sw2, f2, o2⟩ := r2
          simp only [h2, pure, Except.pure, Except.ok.injEq, Prod.mk.injEq] at h
          obtain ⟨rfl, rfl, rfl⟩ := h
          have hs1 := (outputPacket_sound table hs _ _ _ _ _ _ _ _ h1).state
          exact (outputPacket_notOn table P ht sw hP f port inPort hp _ _ _ _ h1).append
            (ih _ _ _ _ _ _ (by rw [hs1]; exact hb _ _ hP) hrest h2)
    | enqueue port q =>
      have hp : port ≠ P_IN_PORT := hn _ List.mem_cons_self
      simp only [applyWith] at h
      split at h
      · cases h
      · simp only [bind, Except.bind] at h
        cases h1 : outputPacket table sw f port inPort none with
        | error e => simp [h1] at h
        | ok r1 =>
          obtain ⟨sw1, f1, o1⟩ := r1
          simp only [h1] at h
          cases h2 : applyWith var table sw1 rest f1 inPort with
          | error e => simp [h2] at h
          | ok r2 =>
            obtain ⟨sw2, f2, o2⟩ := r2
            simp only [h2, pure, Except.pure, Except.ok.injEq, Prod.mk.injEq] at h
            obtain ⟨rfl, rfl, rfl⟩ := h
            have hs1 := (outputPacket_sound table hs _ _ _ _ _ _ _ _ h1).state
            exact (outputPacket_notOn table P ht sw hP f port inPort hp _ _ _ _ h1).append
              (ih _ _ _ _ _ _ (by rw [hs1]; exact hb _ _ hP) hrest h2)
    | _ =>
      simp only [applyWith, bind, Except.bind] at h
      split at h
      · cases h
      · exact ih _ _ _ _ _ _ hP hrest h

/-- no flow entry asks for IN_PORT -/
def RulesNoInPort (sw : Sw) : Prop := ∀ r ∈ sw.table, NoInPort r.acts

theorem rulesNoInPort_blind : StatsBlind RulesNoInPort := fun _ _ h => h

theorem lookup_mem' {t : List Rule} {inPort : Nat} {acts : List Action} (h : lookup t inPort = some acts) :
    ∃ r ∈ t, r.acts = acts := by
  simp only [lookup, Option.map_eq_some_iff] at h
  obtain ⟨r, hr, rfl⟩ := h
  exact ⟨r, List.mem_of_find?_eq_some hr, rfl⟩

/-- **FLOOD, ALL and explicit outputs never reach the ingress port**: if neither the action list nor any flow entry asks
for IN_PORT, no frame leaves through the ingress port — at every nesting depth, for every frame -/
theorem run_notOn (var : Variant) (hv : var.d8 = false) : ∀ (fuel : Nat) (sw : Sw) (acts : List Action) (f : Frame)
    (inPort : Nat) (sw' : Sw) (f' : Frame) (outs : List Out),
    RulesNoInPort sw → NoInPort acts → run var fuel sw acts f inPort = .ok (sw', f', outs) → NotOn inPort outs := by
  intro fuel
  induction fuel with
  | zero => intro sw acts f inPort sw' f' outs _ _ h; simp [run] at h
  | succ n ih =>
    intro sw acts f inPort sw' f' outs hP hn h
    simp only [run, hv] at h
    refine applyWith_notOn var _ RulesNoInPort rulesNoInPort_blind ?_ ?_ acts sw f inPort sw' f' outs hP hn h
    · intro sw1 f1 p1 sw2 f2 o2 h2
      simp only [Bool.false_eq_true, if_false] at h2
      exact lookupPacket_sound (run var n) (fun sw acts f inPort => run_sound var hv n sw acts f inPort) _ _ _ _ _ _ _ h2
    · intro sw1 f1 p1 sw2 f2 o2 hP1 h2
      simp only [Bool.false_eq_true, if_false] at h2
      unfold lookupPacket at h2
      split at h2
      · rename_i acts1 hl
        obtain ⟨r, hr, rfl⟩ := lookup_mem' hl
        exact ih _ _ _ _ _ _ _ hP1 (hP1 r hr) h2
      · cases hm : Actions.missOuts sw1 f1 p1 none with
        | error e => simp [hm] at h2
        | ok o =>
          simp only [hm, Except.ok.injEq, Prod.mk.injEq] at h2
          obtain ⟨rfl, rfl, rfl⟩ := h2
          exact NotOn.of_noFrames (missOuts_noFrames hm)

/-- an explicit output to the ingress port is dropped -/
theorem output_ingress_dropped (table : TableK) (sw : Sw) (f : Frame) (inPort : Nat) (h : inPort < P_MAX) (ml : Option Nat) :
    outputPacket table sw f inPort inPort ml = .ok (sw, f, []) := by
  simp [outputPacket, h, realSend, keep]

/-- FLOOD: only ports other than the ingress port that are not flood-disabled (and are up) -/
theorem flood_ports (table : TableK) (sw : Sw) (f : Frame) (inPort : Nat) (ml : Option Nat) (sw' : Sw) (f' : Frame)
    (outs : List Out) (h : outputPacket table sw f P_FLOOD inPort ml = .ok (sw', f', outs)) :
    ∀ p b, Out.frame p b ∈ outs →
      p ≠ inPort ∧ up sw.ports p = true ∧ ∃ port ∈ sw.ports, port.no = p ∧ has port.config PC_NO_FLOOD = false := by
  have e : outputPacket table sw f P_FLOOD inPort ml = keep f (sendMany sw f inPort (loopPorts sw inPort true)) := by
    simp [outputPacket, P_FLOOD, P_MAX, P_IN_PORT]
  rw [e] at h
  obtain ⟨hs, hf⟩ := sendMany_sound _ _ _ _ _ _ (keep_ok h).1
  intro p b hm
  obtain ⟨no, b', hb, hl, hne⟩ := hf _ hm
  simp only [Out.frame.injEq] at hb
  obtain ⟨rfl, rfl⟩ := hb
  obtain ⟨port, hp, hno, _, hfl⟩ := mem_loopPorts hl
  exact ⟨hne, hs.guard _ _ hm, port, hp, hno, hfl rfl⟩

/-- ALL: only ports other than the ingress port (that are up) -/
theorem all_ports (table : TableK) (sw : Sw) (f : Frame) (inPort : Nat) (ml : Option Nat) (sw' : Sw) (f' : Frame)
    (outs : List Out) (h : outputPacket table sw f P_ALL inPort ml = .ok (sw', f', outs)) :
    ∀ p b, Out.frame p b ∈ outs → p ≠ inPort ∧ up sw.ports p = true := by
  have e : outputPacket table sw f P_ALL inPort ml = keep f (sendMany sw f inPort (loopPorts sw inPort false)) := by
    simp [outputPacket, P_ALL, P_MAX, P_IN_PORT, P_FLOOD]
  rw [e] at h
  obtain ⟨hs, hf⟩ := sendMany_sound _ _ _ _ _ _ (keep_ok h).1
  intro p b hm
  obtain ⟨no, b', hb, hl, hne⟩ := hf _ hm
  simp only [Out.frame.injEq] at hb
  obtain ⟨rfl, rfl⟩ := hb
  exact ⟨hne, hs.guard _ _ hm⟩

/-! ## frames from the wire -/

theorem dropFrame_ok {r : M (Sw × Frame × List Out)} {sw' : Sw} {outs : List Out} (h : dropFrame r = .ok (sw', outs)) :
    ∃ f', r = .ok (sw', f', outs) := by
  cases r with
  | error e => simp [dropFrame] at h
  | ok v =>
    obtain ⟨a, b, c⟩ := v
    simp only [dropFrame, Except.ok.injEq, Prod.mk.injEq] at h
    obtain ⟨rfl, rfl⟩ := h
    exact ⟨b, rfl⟩

/-- **receive guards and receive counters**: a frame from the wire is either refused — the switch does not change and
nothing at all comes out — or accepted: then the receive counters of its port move by one frame and its wire length, and
whatever is emitted obeys the transmit contract -/
theorem rxWireCore_sound (var : Variant) (hv : var.d8 = false) (sw : Sw) (f : Frame) (inPort : Nat) (wire : Bytes) (sw' : Sw)
    (outs : List Out) (h : rxWireCore var sw f inPort wire = .ok (sw', outs)) :
    (accepts sw f inPort = false → sw' = sw ∧ outs = []) ∧
    (accepts sw f inPort = true → Sound (bumpRx sw inPort wire.length) sw' outs) := by
  unfold rxWireCore at h
  obtain ⟨f', h⟩ := dropFrame_ok h
  unfold rxThen at h
  unfold accepts
  cases hf : findPort sw.ports inPort with
  | none =>
    simp only [hf, Except.ok.injEq, Prod.mk.injEq] at h
    obtain ⟨rfl, _, rfl⟩ := h
    simp
  | some p =>
    simp only [hf] at h
    by_cases ha : rxAccepts sw p f = true
    · simp only [ha, Bool.not_true, Bool.false_eq_true, if_false] at h
      refine ⟨by simp [ha], fun _ => ?_⟩
      exact lookupPacket_sound (run var depth) (fun sw acts f inPort => run_sound var hv depth sw acts f inPort) _ _ _ _ _ _ _ h
    · simp only [ha, Bool.not_false, if_true, Except.ok.injEq, Prod.mk.injEq] at h
      obtain ⟨rfl, _, rfl⟩ := h
      simp [ha]

/-- the same for a packet object handed to `rx_packet` without wire bytes: the byte counter moves by the length of its
serialisation -/
theorem rxObjCore_sound (var : Variant) (hv : var.d8 = false) (sw : Sw) (f : Frame) (inPort : Nat) (sw' : Sw)
    (outs : List Out) (h : rxObjCore var sw f inPort = .ok (sw', outs)) :
    (accepts sw f inPort = false → sw' = sw ∧ outs = []) ∧
    (accepts sw f inPort = true → ∃ b, packFrame f = .ok b ∧ Sound (bumpRx sw inPort b.length) sw' outs) := by
  unfold rxObjCore at h
  obtain ⟨f', h⟩ := dropFrame_ok h
  unfold rxThen at h
  unfold accepts
  cases hf : findPort sw.ports inPort with
  | none =>
    simp only [hf, Except.ok.injEq, Prod.mk.injEq] at h
    obtain ⟨rfl, _, rfl⟩ := h
    simp
  | some p =>
    simp only [hf] at h
    by_cases ha : rxAccepts sw p f = true
    · simp only [ha, Bool.not_true, Bool.false_eq_true, if_false] at h
      refine ⟨by simp [ha], fun _ => ?_⟩
      cases hp : packFrame f with
      | error e => simp [hp] at h
      | ok b =>
        simp only [hp] at h
        exact ⟨b, rfl, lookupPacket_sound (run var depth)
          (fun sw acts f inPort => run_sound var hv depth sw acts f inPort) _ _ _ _ _ _ _ h⟩
    · simp only [ha, Bool.not_false, if_true, Except.ok.injEq, Prod.mk.injEq] at h
      obtain ⟨rfl, _, rfl⟩ := h
      simp [ha]

/-- what holds of an accepted frame's result once the buffers are settled: the counters moved from `st0` by the frames of
the log, the port table is the old one, every frame left through a port that is up -/
structure Sound' (sw : Sw) (st0 : List Stat) (sw' : Sw) (outs : List Out) : Prop where
  stats : sw'.stats = tally st0 outs
  ports : sw'.ports = sw.ports
  table : sw'.table = sw.table
  flags : sw'.flags = sw.flags
  guard : ∀ p b, Out.frame p b ∈ outs → up sw.ports p = true

theorem Sound'.of_finish {sw0 sw sw1 : Sw} {o1 : List Out} (n : Nat) (hp : sw0.ports = sw.ports) (ht : sw0.table = sw.table)
    (hfl : sw0.flags = sw.flags)
    (h : Sound sw0 sw1 o1) : Sound' sw sw0.stats { sw1 with bufFree := (settle n o1).1 } (settle n o1).2 := by
  obtain ⟨hs, hg⟩ := h
  subst hs
  refine ⟨by simp [tally_settle], hp, ht, hfl, ?_⟩
  intro p b hm
  rw [← hp]
  exact hg p b ((settle_frames p b o1 n).mp hm)

theorem rxWire_sound (var : Variant) (hv : var.d8 = false) (sw : Sw) (f : Frame) (inPort : Nat) (wire : Bytes) (sw' : Sw)
    (outs : List Out) (h : rxWire var sw f inPort wire = .ok (sw', outs)) :
    (accepts sw f inPort = false → sw' = sw ∧ outs = []) ∧
    (accepts sw f inPort = true → Sound' sw (bumpRx sw inPort wire.length).stats sw' outs) := by
  obtain ⟨sw1, o1, hc, rfl, rfl⟩ := finish_ok h
  obtain ⟨h1, h2⟩ := rxWireCore_sound var hv sw f inPort wire sw1 o1 hc
  refine ⟨fun ha => ?_, fun ha => Sound'.of_finish _ rfl rfl rfl (h2 ha)⟩
  obtain ⟨rfl, rfl⟩ := h1 ha
  exact ⟨rfl, rfl⟩

theorem rxObj_sound (var : Variant) (hv : var.d8 = false) (sw : Sw) (f : Frame) (inPort : Nat) (sw' : Sw)
    (outs : List Out) (h : rxObj var sw f inPort = .ok (sw', outs)) :
    (accepts sw f inPort = false → sw' = sw ∧ outs = []) ∧
    (accepts sw f inPort = true → ∃ b, packFrame f = .ok b ∧ Sound' sw (bumpRx sw inPort b.length).stats sw' outs) := by
  obtain ⟨sw1, o1, hc, rfl, rfl⟩ := finish_ok h
  obtain ⟨h1, h2⟩ := rxObjCore_sound var hv sw f inPort sw1 o1 hc
  refine ⟨fun ha => ?_, fun ha => ?_⟩
  · obtain ⟨rfl, rfl⟩ := h1 ha
    exact ⟨rfl, rfl⟩
  · obtain ⟨b, hb, hs⟩ := h2 ha
    exact ⟨b, hb, Sound'.of_finish _ rfl rfl rfl hs⟩

theorem packetOut_sound (var : Variant) (hv : var.d8 = false) (sw : Sw) (acts : List Action) (f : Frame) (inPort : Nat)
    (sw' : Sw) (outs : List Out) (h : packetOut var sw acts f inPort = .ok (sw', outs)) : Sound' sw sw.stats sw' outs := by
  obtain ⟨sw1, o1, hc, rfl, rfl⟩ := finish_ok h
  obtain ⟨f', hc⟩ := dropFrame_ok hc
  exact Sound'.of_finish _ rfl rfl rfl (run_sound var hv _ _ _ _ _ _ _ _ hc)

/-- nothing is accepted from a receive-disabled port (802.1D frames excepted), from a NO_RECV_STP port nothing that is
802.1D, from a port that does not exist nothing at all -/
theorem accepts_guards (sw : Sw) (f : Frame) (inPort : Nat) :
    (findPort sw.ports inPort = none → accepts sw f inPort = false) ∧
    (∀ p, findPort sw.ports inPort = some p → has p.config PC_NO_RECV = true → (f.eth.dst == stpMac) = false →
        accepts sw f inPort = false) ∧
    (∀ p, findPort sw.ports inPort = some p → has p.config PC_NO_RECV_STP = true → (f.eth.dst == stpMac) = true →
        accepts sw f inPort = false) := by
  refine ⟨fun h => by simp [accepts, h], fun p h h1 h2 => ?_, fun p h h1 h2 => ?_⟩
  · simp [accepts, h, rxAccepts, h1, h2]
  · simp [accepts, h, rxAccepts, h1, h2]

/-! ## operation histories -/

/-- the counters after one operation, from what was observable: the frame accepted from the wire (if the operation is
one), then every frame in the operation's output log -/
def countStep (sw : Sw) (op : Op) (outs : List Out) : List Stat :=
  match op with
  | .rx f inPort wire =>
    if accepts sw f inPort then tally (bumpRx sw inPort wire.length).stats outs else tally sw.stats outs
  | .rxObj f inPort =>
    match accepts sw f inPort, packFrame f with
    | true, .ok b => tally (bumpRx sw inPort b.length).stats outs
    | _, _ => tally sw.stats outs
  | _ => tally sw.stats outs

theorem portModBits_noFrames (config mask : Nat) : ∀ (l : List Nat) (p : Port), noFrames (portModBits config mask l p).2 := by
  intro l
  induction l with
  | nil => intro p q b hm; simp [portModBits] at hm
  | cons i rest ih =>
    intro p q b hm
    simp only [portModBits] at hm
    split at hm
    · simp only [List.mem_append] at hm
      rcases hm with hm | hm
      · split at hm <;> simp at hm
      · exact ih _ q b hm
    · exact ih _ q b hm

theorem portMod_stats (sw : Sw) (no : Nat) (hw : Bytes) (c m : Nat) :
    (portMod sw no hw c m).1.stats = sw.stats ∧ noFrames (portMod sw no hw c m).2 := by
  unfold portMod
  split
  · exact ⟨rfl, by intro p b hm; simp at hm⟩
  · split
    · exact ⟨rfl, by intro p b hm; simp at hm⟩
    · exact ⟨rfl, portModBits_noFrames _ _ _ _⟩

/-- **counters are exact, operation by operation**: after any operation of the repaired switch the port statistics are
the previous ones plus the frame accepted from the wire plus the frames transmitted -/
theorem step_counters (var : Variant) (hv : var.d8 = false) (sw : Sw) (op : Op) (sw' : Sw) (outs : List Out)
    (h : step var sw op = .ok (sw', outs)) : sw'.stats = countStep sw op outs := by
  cases op with
  | portMod no hw c m =>
    simp only [step, Except.ok.injEq] at h
    obtain ⟨h1, h2⟩ := portMod_stats sw no hw c m
    rw [h] at h1 h2
    simp only at h1 h2
    simp [countStep, h1, tally_noFrames _ _ h2]
  | setConfig fl ml =>
    simp only [step, Except.ok.injEq, Prod.mk.injEq] at h
    obtain ⟨rfl, rfl⟩ := h
    simp [countStep]
  | flowAdd r =>
    simp only [step] at h
    split at h <;> (simp only [Except.ok.injEq, Prod.mk.injEq] at h; obtain ⟨rfl, rfl⟩ := h)
    · simp only [countStep]; rw [tally_noFrames _ _ (by intro p b hm; simp at hm)]
    · simp [countStep]
  | link no down =>
    simp only [step, Except.ok.injEq, Prod.mk.injEq] at h
    obtain ⟨rfl, rfl⟩ := h
    simp [countStep]
  | packetOut acts f inPort =>
    simp only [step] at h
    simp [countStep, (packetOut_sound var hv sw acts f inPort sw' outs h).stats]
  | rx f inPort wire =>
    simp only [step] at h
    obtain ⟨h1, h2⟩ := rxWire_sound var hv sw f inPort wire sw' outs h
    cases ha : accepts sw f inPort with
    | true => simp [countStep, ha, (h2 ha).stats]
    | false => obtain ⟨rfl, rfl⟩ := h1 ha; simp [countStep, ha]
  | rxObj f inPort =>
    simp only [step] at h
    obtain ⟨h1, h2⟩ := rxObj_sound var hv sw f inPort sw' outs h
    cases ha : accepts sw f inPort with
    | true =>
      obtain ⟨b, hb, hs⟩ := h2 ha
      simp [countStep, ha, hb, hs.stats]
    | false => obtain ⟨rfl, rfl⟩ := h1 ha; simp [countStep, ha]

/-- the statistics a history must end with, replayed from its observable log -/
def countOps (var : Variant) : Sw → List Op → List (List Out) → List Stat
  | sw, op :: ops, o :: os =>
    match step var sw op with
    | .ok (sw1, _) => countOps var (sw1.withStats (countStep sw op o)) ops os
    | .error _ => sw.stats
  | sw, _, _ => sw.stats

theorem runOps_counters (var : Variant) (hv : var.d8 = false) : ∀ (ops : List Op) (sw sw' : Sw) (outss : List (List Out)),
    runOps var sw ops = .ok (sw', outss) → sw'.stats = countOps var sw ops outss := by
  intro ops
  induction ops with
  | nil => intro sw sw' outss h; simp only [runOps, Except.ok.injEq, Prod.mk.injEq] at h; obtain ⟨rfl, rfl⟩ := h; rfl
  | cons op rest ih =>
    intro sw sw' outss h
    simp only [runOps, bind, Except.bind] at h
    cases h1 : step var sw op with
    | error e => simp [h1] at h
    | ok r1 =>
      obtain ⟨sw1, o1⟩ := r1
      simp only [h1] at h
      cases h2 : runOps var sw1 rest with
      | error e => simp [h2] at h
      | ok r2 =>
        obtain ⟨sw2, os⟩ := r2
        simp only [h2, pure, Except.pure, Except.ok.injEq, Prod.mk.injEq] at h
        obtain ⟨rfl, rfl⟩ := h
        have hc := step_counters var hv sw op sw1 o1 h1
        simp only [countOps, h1]
        rw [← hc]
        exact ih sw1 sw2 os h2

/-! ## the counters in closed form -/

/-- what an operation does to the configuration (ports, flags, table); packets do not touch it -/
def cfgStep (sw : Sw) : Op → Sw
  | .portMod no hw c m => (portMod sw no hw c m).1
  | .setConfig fl ml => { sw with flags := fl, missLen := ml }
  | .flowAdd r => { sw with table := sw.table ++ [r] }
  | .link no down =>
    { sw with ports := mapPort sw.ports no fun p =>
        { p with state := if down then clearBits p.state PS_LINK_DOWN ||| PS_LINK_DOWN else clearBits p.state PS_LINK_DOWN } }
  | _ => sw

/-- the reception an operation adds to the receive counters: (port, bytes), if it is a frame that is accepted -/
def rxOf (sw : Sw) : Op → List (Nat × Nat)
  | .rx f p wire => if accepts sw f p then [(p, wire.length)] else []
  | .rxObj f p =>
    match accepts sw f p, packFrame f with
    | true, .ok b => [(p, b.length)]
    | _, _ => []
  | _ => []

/-- all accepted receptions of a history, the configuration evolving by `cfgStep` -/
def rxLog : Sw → List Op → List (Nat × Nat)
  | _, [] => []
  | sw, op :: ops => rxOf sw op ++ rxLog (cfgStep sw op) ops

def rxCount (rx : List (Nat × Nat)) (no : Nat) : Nat := (rx.filter fun e => e.1 == no).length

def rxBytes : List (Nat × Nat) → Nat → Nat
  | [], _ => 0
  | (p, n) :: r, no => (if p == no then n else 0) + rxBytes r no

/-- **closed form**: initial counters + accepted receptions + transmitted frames -/
def closed (st : List Stat) (rx : List (Nat × Nat)) (outs : List Out) : List Stat :=
  st.map fun s => { s with rxP := s.rxP + rxCount rx s.no, rxB := s.rxB + rxBytes rx s.no,
                           txP := s.txP + txCount outs s.no, txB := s.txB + txBytes outs s.no }

theorem rxCount_append (a b : List (Nat × Nat)) (no : Nat) : rxCount (a ++ b) no = rxCount a no + rxCount b no := by
  simp [rxCount, List.filter_append]

theorem rxBytes_append (a b : List (Nat × Nat)) (no : Nat) : rxBytes (a ++ b) no = rxBytes a no + rxBytes b no := by
  induction a with
  | nil => simp [rxBytes]
  | cons e r ih => obtain ⟨p, n⟩ := e; simp [rxBytes, ih]; omega

theorem closed_append (st : List Stat) (r1 r2 : List (Nat × Nat)) (o1 o2 : List Out) :
    closed (closed st r1 o1) r2 o2 = closed st (r1 ++ r2) (o1 ++ o2) := by
  simp only [closed, List.map_map]
  apply List.map_congr_left
  intro s _
  simp [rxCount_append, rxBytes_append, txCount_append, txBytes_append, Nat.add_assoc]

theorem closed_tally (st : List Stat) (outs : List Out) : tally st outs = closed st [] outs := by
  simp [tally, closed, rxCount, rxBytes]

theorem closed_bump (sw : Sw) (p len : Nat) (outs : List Out) :
    tally (bumpRx sw p len).stats outs = closed sw.stats [(p, len)] outs := by
  simp only [tally, closed, bumpRx, List.map_map]
  apply List.map_congr_left
  intro s _
  by_cases h : s.no = p
  · subst h; simp [rxCount, rxBytes]
  · have h' : ¬ p = s.no := fun e => h e.symm
    simp [rxCount, rxBytes, h, h']

theorem countStep_closed (sw : Sw) (op : Op) (outs : List Out) : countStep sw op outs = closed sw.stats (rxOf sw op) outs := by
  cases op with
  | rx f p wire =>
    simp only [countStep, rxOf]
    split
    · exact closed_bump sw p wire.length outs
    · exact closed_tally _ _
  | rxObj f p =>
    simp only [countStep, rxOf]
    split
    · exact closed_bump sw p _ outs
    · exact closed_tally _ _
  | _ => exact closed_tally _ _

theorem rxOf_congr {sw sw2 : Sw} (hp : sw.ports = sw2.ports) (hf : sw.flags = sw2.flags) (op : Op) : rxOf sw op = rxOf sw2 op := by
  have ha : ∀ f p, accepts sw f p = accepts sw2 f p := by
    intro f p; simp only [accepts, rxAccepts, hp, hf]
  cases op <;> simp [rxOf, ha]

theorem cfgStep_congr {sw sw2 : Sw} (hp : sw.ports = sw2.ports) (hf : sw.flags = sw2.flags) (op : Op) :
    (cfgStep sw op).ports = (cfgStep sw2 op).ports ∧ (cfgStep sw op).flags = (cfgStep sw2 op).flags := by
  cases op with
  | portMod no hw c m =>
    simp only [cfgStep, portMod, hp]
    split
    · exact ⟨hp, hf⟩
    · split
      · exact ⟨hp, hf⟩
      · exact ⟨rfl, hf⟩
  | link no down => simp [cfgStep, hp, hf]
  | _ => simp [cfgStep, hp, hf]

theorem rxLog_congr : ∀ (ops : List Op) (sw sw2 : Sw), sw.ports = sw2.ports → sw.flags = sw2.flags → rxLog sw ops = rxLog sw2 ops := by
  intro ops
  induction ops with
  | nil => intro _ _ _ _; rfl
  | cons op rest ih =>
    intro sw sw2 hp hf
    obtain ⟨c1, c2⟩ := cfgStep_congr hp hf op
    simp only [rxLog, rxOf_congr hp hf op, ih _ _ c1 c2]

/-- the configuration after an operation is what `cfgStep` says -/
theorem step_cfg (var : Variant) (hv : var.d8 = false) (sw : Sw) (op : Op) (sw' : Sw) (outs : List Out)
    (h : step var sw op = .ok (sw', outs)) : sw'.ports = (cfgStep sw op).ports ∧ sw'.flags = (cfgStep sw op).flags := by
  cases op with
  | portMod no hw c m =>
    simp only [step, Except.ok.injEq] at h
    have e : sw' = (portMod sw no hw c m).1 := by rw [h]
    subst e
    exact ⟨rfl, rfl⟩
  | setConfig fl ml => simp only [step, Except.ok.injEq, Prod.mk.injEq] at h; obtain ⟨rfl, _⟩ := h; exact ⟨rfl, rfl⟩
  | flowAdd r =>
    simp only [step] at h
    split at h <;> (simp only [Except.ok.injEq, Prod.mk.injEq] at h; obtain ⟨rfl, _⟩ := h; exact ⟨rfl, rfl⟩)
  | link no down => simp only [step, Except.ok.injEq, Prod.mk.injEq] at h; obtain ⟨rfl, _⟩ := h; exact ⟨rfl, rfl⟩
  | packetOut acts f inPort =>
    simp only [step] at h
    have := packetOut_sound var hv sw acts f inPort sw' outs h
    exact ⟨this.ports, this.flags⟩
  | rx f inPort wire =>
    simp only [step] at h
    obtain ⟨h1, h2⟩ := rxWire_sound var hv sw f inPort wire sw' outs h
    cases ha : accepts sw f inPort with
    | true => exact ⟨(h2 ha).ports, (h2 ha).flags⟩
    | false => obtain ⟨rfl, _⟩ := h1 ha; exact ⟨rfl, rfl⟩
  | rxObj f inPort =>
    simp only [step] at h
    obtain ⟨h1, h2⟩ := rxObj_sound var hv sw f inPort sw' outs h
    cases ha : accepts sw f inPort with
    | true => obtain ⟨b, _, hs⟩ := h2 ha; exact ⟨hs.ports, hs.flags⟩
    | false => obtain ⟨rfl, _⟩ := h1 ha; exact ⟨rfl, rfl⟩

/-- **counters of a whole history in closed form**: final = initial + the accepted receptions (acceptance judged against the
configuration as the port-mods, link changes and set-configs before it left it) + every frame in the output logs -/
theorem runOps_closed (var : Variant) (hv : var.d8 = false) : ∀ (ops : List Op) (sw sw' : Sw) (outss : List (List Out)),
    runOps var sw ops = .ok (sw', outss) → sw'.stats = closed sw.stats (rxLog sw ops) outss.flatten := by
  intro ops
  induction ops with
  | nil =>
    intro sw sw' outss h
    simp only [runOps, Except.ok.injEq, Prod.mk.injEq] at h
    obtain ⟨rfl, rfl⟩ := h
    simp [closed, rxLog, rxCount, rxBytes]
  | cons op rest ih =>
    intro sw sw' outss h
    simp only [runOps, bind, Except.bind] at h
    cases h1 : step var sw op with
    | error e => simp [h1] at h
    | ok r1 =>
      obtain ⟨sw1, o1⟩ := r1
      simp only [h1] at h
      cases h2 : runOps var sw1 rest with
      | error e => simp [h2] at h
      | ok r2 =>
        obtain ⟨sw2, os⟩ := r2
        simp only [h2, pure, Except.pure, Except.ok.injEq, Prod.mk.injEq] at h
        obtain ⟨rfl, rfl⟩ := h
        have hc := step_counters var hv sw op sw1 o1 h1
        obtain ⟨c1, c2⟩ := step_cfg var hv sw op sw1 o1 h1
        rw [ih sw1 sw2 os h2, hc, countStep_closed, closed_append, rxLog_congr rest sw1 (cfgStep sw op) c1 c2]
        simp [rxLog]

end Pox.Actions
