import PoxModel.Proofs.STree
/-! "Forest" in the path sense (C19): a list of edges built by attaching a fresh leaf each time (`LeafSeq`) has no cycle —
    every edge is a bridge: taking it out disconnects its two ends.  Core only. -/
namespace Pox.STree

/-- a vertex that no edge touches is connected only to itself -/
theorem Conn.isolated {es : List (Nat × Nat)} {x : Nat} (hx : ∀ e ∈ es, e.1 ≠ x ∧ e.2 ≠ x) {a b : Nat}
    (c : Conn es a b) : a = x ↔ b = x := by
  induction c with
  | refl a => exact Iff.rfl
  | edge h => have := hx _ h; simp only at this; constructor <;> intro e <;> simp_all
  | symm _ ih => exact ih.symm
  | trans _ _ i1 i2 => exact i1.trans i2

/-- contracting a leaf `w0` into its parent `v0` maps paths of `(v0,w0) :: es` to paths of `es` -/
theorem Conn.contract {es : List (Nat × Nat)} {v0 w0 : Nat} (hx : ∀ e ∈ es, e.1 ≠ w0 ∧ e.2 ≠ w0) {a b : Nat}
    (c : Conn ((v0, w0) :: es) a b) : Conn es (if a = w0 then v0 else a) (if b = w0 then v0 else b) := by
  induction c with
  | refl a => exact .refl _
  | edge h =>
    rename_i a b
    rcases List.mem_cons.mp h with e | e
    · cases e
      by_cases hv : v0 = w0
      · simp [hv]; exact .refl _
      · simp [hv]; exact .refl _
    · have := hx _ e; simp only at this
      simp only [this.1, this.2, if_false]
      exact .edge e
  | symm _ ih => exact .symm ih
  | trans _ _ i1 i2 => exact .trans i1 i2

theorem LeafSeq.bridge {es : List (Nat × Nat)} (h : LeafSeq es) :
    ∀ (es1 : List (Nat × Nat)) (v w : Nat) (es2 : List (Nat × Nat)), es = es1 ++ (v, w) :: es2 → ¬ Conn (es1 ++ es2) v w := by
  induction h with
  | nil => intro es1 v w es2 e; simp at e
  | cons hl hne hfresh ih =>
    rename_i v0 w0 es'
    intro es1 v w es2 e
    cases es1 with
    | nil =>
      simp only [List.nil_append, List.cons.injEq, Prod.mk.injEq] at e
      obtain ⟨⟨rfl, rfl⟩, rfl⟩ := e
      intro c
      have := (Conn.isolated hfresh c).mpr rfl
      exact hne this.symm
    | cons e1 es1' =>
      simp only [List.cons_append, List.cons.injEq] at e
      obtain ⟨rfl, e⟩ := e
      intro c
      have hf' : ∀ x ∈ es1' ++ es2, x.1 ≠ w0 ∧ x.2 ≠ w0 := by
        intro x hx
        apply hfresh x
        rw [e]
        rcases List.mem_append.mp hx with h1 | h1
        · exact List.mem_append_left _ h1
        · exact List.mem_append_right _ (List.mem_cons_of_mem _ h1)
      have hvw := hfresh (v, w) (by rw [e]; simp)
      simp only at hvw
      have c' := Conn.contract hf' c
      simp only [hvw.1, hvw.2, if_false] at c'
      exact ih es1' v w es2 e c'

end Pox.STree
