import PoxModel.Proofs.Addr.IP6RT
import PoxModel.Proofs.Addr.Dpid
import PoxModel.Proofs.Addr.Mask
/-! C16 helper lemmas, part 11: `parse_cidr("a.b.c.d/len")` and `"a.b.c.d/netmask"`.  Core only. -/
namespace Pox.Addr

theorem dv_slash : digitVal '/' = 99 := by decide

theorem dotted_no_slash (b : Bytes) : '/' ∉ dotted b := by
  intro hm
  rcases mem_joinWith hm with e | ⟨s, hs, hx⟩
  · exact absurd e (by decide)
  · obtain ⟨x, _, rfl⟩ := List.mem_map.mp hs
    exact dec_no (by rw [dv_slash]; decide) hx

theorem cidrCheck_eq (w a : Nat) (allowHost : Bool) (wild : Nat) :
    cidrCheck w a allowHost wild = if !allowHost && decide (a % 2 ^ wild ≠ 0) then .error .runtime else .ok (w - wild) := by
  unfold cidrCheck
  rw [Nat.one_shiftLeft, Nat.and_two_pow_sub_one_eq_mod]

/-- the IPAddr a dotted quad denotes -/
def ip4OfBytes (b0 b1 b2 b3 : UInt8) : IP4 := ⟨sign32 (leDec32 [b0, b1, b2, b3])⟩

theorem ip4OfBytes_text (b0 b1 b2 b3 : UInt8) : IP4.ofText (dotted [b0, b1, b2, b3]) = .ok (ip4OfBytes b0 b1 b2 b3) := by
  unfold IP4.ofText
  rw [inetAton_dotted]
  rfl

theorem ip4OfBytes_host (b0 b1 b2 b3 : UInt8) : (ip4OfBytes b0 b1 b2 b3).toUnsigned false = beDec [b0, b1, b2, b3] := by
  unfold ip4OfBytes IP4.toUnsigned
  simp only [Bool.false_eq_true, if_false]
  rw [u32_sign32 _ (leDec32_lt b0 b1 b2 b3), ← beDec_leEnc32, leEnc32_leDec32]

/-- `parse_cidr("a.b.c.d/len")`: for every address and every `len ≤ 32` the result is the address and `len` when the host
    bits are zero or `allow_host` is set, and RuntimeError otherwise; `len > 32` fails the assertion. -/
theorem parseCidr_prefix (b0 b1 b2 b3 : UInt8) (len : Nat) (infer allowHost : Bool) :
    parseCidr (dotted [b0, b1, b2, b3] ++ '/' :: fmtNat 10 len) infer allowHost =
      if len > 32 then .error .assertion
      else if !allowHost && decide (beDec [b0, b1, b2, b3] % 2 ^ (32 - len) ≠ 0) then .error .runtime
      else .ok (ip4OfBytes b0 b1 b2 b3, len) := by
  have hdec := allDig_fmtNat 10 (by decide) (by decide) len
  have hsplit : splitOnN '/' 2 (dotted [b0, b1, b2, b3] ++ '/' :: fmtNat 10 len) = [dotted [b0, b1, b2, b3], fmtNat 10 len] := by
    rw [splitOnN_append '/' 1 _ _ (dotted_no_slash _), splitOnN_none '/' 0 _ (hdec.not_mem (by rw [dv_slash]; decide))]
  unfold parseCidr cidrPlain cidrLen cidrMask
  rw [hsplit]
  simp only
  rw [pyInt_dig 10 (by decide) _ hdec (fmtNat_ne_nil _ _), foldDig_fmtNat 10 (by decide) (by decide)]
  simp only
  by_cases hl : len > 32
  · rw [if_pos hl, if_pos (by omega)]
  · rw [if_neg hl, if_neg (by omega), ip4OfBytes_text]
    simp only [bind, Except.bind]
    have hw : ((32 : Int) - (len : Int)).toNat = 32 - len := by omega
    rw [hw, cidrCheck_eq, ip4OfBytes_host]
    by_cases hc : (!allowHost && decide (beDec [b0, b1, b2, b3] % 2 ^ (32 - len) ≠ 0)) = true
    · rw [if_pos hc, if_pos hc]
    · rw [if_neg hc, if_neg hc]
      simp only [pure, Except.pure]
      have : 32 - (32 - len) = len := by omega
      rw [this]

end Pox.Addr

namespace Pox.Addr

theorem scanDigits_stop (base : Nat) (hb : base ≤ 36) (c : Char) (hc : base ≤ digitVal c) (hus : c ≠ '_') (r : Str) :
    ∀ (s : Str) (acc nd : Nat), AllDig base s → (0 < nd ∨ s ≠ []) →
    scanDigits base (s ++ c :: r) acc nd false = some (foldDig base acc s, c :: r) := by
  intro s
  induction s with
  | nil =>
    intro acc nd _ h
    have : 0 < nd := by rcases h with h | h; exact h; exact absurd rfl h
    simp only [List.nil_append, scanDigits, foldDig, List.foldl_nil, Bool.false_or]
    rw [if_neg hus, if_neg (by omega), if_neg]
    simp; omega
  | cons x xs ih =>
    intro acc nd hd _
    have hx : digitVal x < base := hd x (by simp)
    have hne : x ≠ '_' := ne_of_digitVal hx (by rw [dv_us]; omega)
    rw [List.cons_append, scanDigits, if_neg hne, if_pos hx, ih _ _ (fun y hy => hd y (by simp [hy])) (.inl (by omega))]
    simp [foldDig]

/-- a dotted quad is not an integer literal -/
theorem pyInt_dotted (b0 b1 b2 b3 : UInt8) : pyInt 10 (dotted [b0, b1, b2, b3]) = .error .value := by
  have hd := allDig_fmtNat 10 (by decide) (by decide) b0.toNat
  have hne := fmtNat_ne_nil 10 b0.toNat
  rw [dotted4]
  obtain ⟨c, r, hcr⟩ : ∃ c r, fmtNat 10 b0.toNat = c :: r := by
    cases h : fmtNat 10 b0.toNat with
    | nil => exact absurd h hne
    | cons c r => exact ⟨c, r, rfl⟩
  have hc : digitVal c < 10 := hd c (by rw [hcr]; simp)
  have hws : isWs c = false := not_isWs_of_dig (by decide) hc
  have hplus : c ≠ '+' := ne_of_digitVal hc (by rw [dv_plus]; decide)
  have hminus : c ≠ '-' := ne_of_digitVal hc (by rw [dv_minus]; decide)
  generalize hrest : fmtNat 10 b1.toNat ++ '.' :: (fmtNat 10 b2.toNat ++ '.' :: fmtNat 10 b3.toNat) = rest
  have hss : stripSign (c :: (r ++ '.' :: rest)) = (false, c :: (r ++ '.' :: rest)) := by
    simp only [stripSign]; rw [if_neg hplus, if_neg hminus]
  have hdw : (c :: (r ++ '.' :: rest)).dropWhile isWs = c :: (r ++ '.' :: rest) := by simp [hws]
  have hscan := scanDigits_stop 10 (by decide) '.' (by rw [dv_dot]; decide) (by decide) rest (c :: r) 0 0
    (by rw [← hcr]; exact hd) (.inr (by simp))
  have hscan' : scanDigits 10 (c :: (r ++ '.' :: rest)) 0 0 false = some (foldDig 10 0 (c :: r), '.' :: rest) := hscan
  have hnws : ('.' :: rest).all isWs = false := by simp [isWs]
  unfold pyInt
  rw [hcr, List.cons_append]
  simp only [hdw, hss, show ¬ ((10 : Nat) = 16) by decide, if_false, hscan', hnws, Bool.false_eq_true]

theorem ok_bind {ε α β : Type} (x : α) (f : α → Except ε β) : (Except.ok x >>= f) = f x := rfl
theorem err_bind {ε α β : Type} (e : ε) (f : α → Except ε β) : ((Except.error e : Except ε α) >>= f) = Except.error e := rfl

theorem parseCidr_mask_branch (s a0 a1 : Str) (M A : IP4) (len : Nat) (infer allowHost : Bool)
    (hs : splitOnN '/' 2 s = [a0, a1]) (h1 : pyInt 10 a1 = .error .value) (hM : IP4.ofText a1 = .ok M)
    (hb : maskBits 32 (M.toUnsigned false) = .ok len) (hA : IP4.ofText a0 = .ok A) :
    parseCidr s infer allowHost =
      match cidrCheck 32 (A.toUnsigned false) allowHost (32 - len) with
      | .ok n => .ok (A, n)
      | .error e => .error e := by
  unfold parseCidr cidrPlain cidrLen cidrMask
  rw [hs]
  simp only
  rw [h1]
  simp only
  rw [hM, ok_bind, hb, ok_bind, hA, ok_bind]
  cases cidrCheck 32 (A.toUnsigned false) allowHost (32 - len) <;> rfl

/-- `parse_cidr("a.b.c.d/m.m.m.m")` with the netmask of prefix length `len` behaves like `parse_cidr("a.b.c.d/len")` -/
theorem parseCidr_netmask (b0 b1 b2 b3 m0 m1 m2 m3 : UInt8) (len : Nat) (hlen : len ≤ 32)
    (hm : beDec [m0, m1, m2, m3] = 2 ^ 32 - 2 ^ (32 - len)) (infer allowHost : Bool) :
    parseCidr (dotted [b0, b1, b2, b3] ++ '/' :: dotted [m0, m1, m2, m3]) infer allowHost =
      if !allowHost && decide (beDec [b0, b1, b2, b3] % 2 ^ (32 - len) ≠ 0) then .error .runtime
      else .ok (ip4OfBytes b0 b1 b2 b3, len) := by
  have hsplit : splitOnN '/' 2 (dotted [b0, b1, b2, b3] ++ '/' :: dotted [m0, m1, m2, m3]) =
      [dotted [b0, b1, b2, b3], dotted [m0, m1, m2, m3]] := by
    rw [splitOnN_append '/' 1 _ _ (dotted_no_slash _), splitOnN_none '/' 0 _ (dotted_no_slash _)]
  have hmask : maskBits 32 ((ip4OfBytes m0 m1 m2 m3).toUnsigned false) = .ok len := by
    rw [ip4OfBytes_host, hm, maskBits_eq 32 (by decide) _ (mask_lt 32 len)]
    exact (netmaskToCidrN_spec 32 (by decide) _ (mask_lt 32 len) len).mpr ⟨hlen, rfl⟩
  rw [parseCidr_mask_branch _ _ _ _ _ len infer allowHost hsplit (pyInt_dotted m0 m1 m2 m3) (ip4OfBytes_text m0 m1 m2 m3) hmask
    (ip4OfBytes_text b0 b1 b2 b3), cidrCheck_eq, ip4OfBytes_host]
  by_cases hc : (!allowHost && decide (beDec [b0, b1, b2, b3] % 2 ^ (32 - len) ≠ 0)) = true
  · rw [if_pos hc, if_pos hc]
  · rw [if_neg hc, if_neg hc]
    have : 32 - (32 - len) = len := by omega
    simp only [this]
end Pox.Addr
