import PoxModel.Proofs.Addr.Eth
import PoxModel.Proofs.Addr.Parse6
/-! C16 helper lemmas, part 14: `EthAddr(text)` returns the bytes the reference definition `ethDenote` gives.  Core only. -/
namespace Pox.Addr

theorem list_len12 {α} (q : List α) (h : q.length = 12) : ∃ a b c d e f g i j k l m, q = [a, b, c, d, e, f, g, i, j, k, l, m] := by
  match q, h with
  | [a, b, c, d, e, f, g, i, j, k, l, m], _ => exact ⟨a, b, c, d, e, f, g, i, j, k, l, m, rfl⟩

theorem list_len17 {α} (q : List α) (h : q.length = 17) :
    ∃ a b c d e f g i j k l m n o p r t, q = [a, b, c, d, e, f, g, i, j, k, l, m, n, o, p, r, t] := by
  match q, h with
  | [a, b, c, d, e, f, g, i, j, k, l, m, n, o, p, r, t], _ => exact ⟨a, b, c, d, e, f, g, i, j, k, l, m, n, o, p, r, t, rfl⟩

theorem list_len6 {α} (q : List α) (h : q.length = 6) : ∃ a b c d e f, q = [a, b, c, d, e, f] := by
  match q, h with
  | [a, b, c, d, e, f], _ => exact ⟨a, b, c, d, e, f, rfl⟩

theorem pairVal_eq (h l : Char) : pairVal h l = hexByte h l := rfl

theorem loose_ok (s : Str) (b : Bytes) (h : ethDenote.looseDenote s = some b) (h12 : s.length ≠ 12) (h17 : s.length ≠ 17) :
    ethOfText s = .ok b := by
  unfold ethDenote.looseDenote at h
  simp only at h
  split at h
  · rename_i hc
    obtain ⟨hl, hall⟩ := hc
    simp only [Option.some.injEq] at h
    obtain ⟨g0, g1, g2, g3, g4, g5, hps⟩ := list_len6 _ hl
    have hj := joinWith_splitOn ':' s
    rw [hps] at hj hall h
    have hg : ∀ g ∈ [g0, g1, g2, g3, g4, g5], AllDig 16 g ∧ (g.length = 1 ∨ g.length = 2) := by
      intro g hg
      have := List.all_eq_true.mp hall g hg
      simp only [Bool.and_eq_true, Bool.or_eq_true, decide_eq_true_eq, List.all_eq_true, isHexDigit] at this
      exact ⟨fun c hc => this.2 c hc, this.1⟩
    rw [← hj] at h12 h17 ⊢
    rw [eth_loose_form g0 g1 g2 g3 g4 g5 hg h12 h17, ← h]
    rfl
  · simp at h

theorem ethOfText_denote (s : Str) (b : Bytes) (h : ethDenote s = some b) (hu : ethUnsupported s = false) :
    ethOfText s = .ok b := by
  by_cases h6 : s.length = 6
  · unfold ethDenote at h
    rw [if_pos h6] at h
    simp only [Option.some.injEq] at h
    rw [eth_raw_form s h6, h]
  · by_cases h12 : s.length = 12
    · obtain ⟨h0, l0, h1, l1, h2, l2, h3, l3, h4, l4, h5, l5, rfl⟩ := list_len12 s h12
      unfold ethDenote at h
      rw [if_neg h6] at h
      simp only at h
      by_cases hx : [h0, l0, h1, l1, h2, l2, h3, l3, h4, l4, h5, l5].all isHexDigit = true
      · rw [if_pos hx] at h
        simp only [Option.some.injEq] at h
        have d : ∀ c ∈ [h0, l0, h1, l1, h2, l2, h3, l3, h4, l4, h5, l5], digitVal c < 16 := by
          intro c hc
          have := List.all_eq_true.mp hx c hc
          simpa [isHexDigit] using this
        rw [eth_bare_form _ _ _ _ _ _ _ _ _ _ _ _ (d _ (by simp)) (d _ (by simp)) (d _ (by simp)) (d _ (by simp)) (d _ (by simp))
          (d _ (by simp)) (d _ (by simp)) (d _ (by simp)) (d _ (by simp)) (d _ (by simp)) (d _ (by simp)) (d _ (by simp)), ← h]
        rfl
      · rw [if_neg hx] at h
        -- a 12-character text without a colon is not a loose form
        exfalso
        have hnc : ':' ∉ [h0, l0, h1, l1, h2, l2, h3, l3, h4, l4, h5, l5] := by
          intro hm
          have : ethUnsupported [h0, l0, h1, l1, h2, l2, h3, l3, h4, l4, h5, l5] = true := by
            unfold ethUnsupported
            simp only [List.length_cons, List.length_nil, decide_true, Bool.true_and, List.any_eq_true, beq_iff_eq]
            exact ⟨':', hm, rfl⟩
          rw [this] at hu; cases hu
        unfold ethDenote.looseDenote at h
        simp only [splitOn_none ':' _ hnc] at h
        simp at h
    · by_cases h17 : s.length = 17
      · obtain ⟨h0, l0, s0, h1, l1, s1, h2, l2, s2, h3, l3, s3, h4, l4, s4, h5, l5, rfl⟩ := list_len17 s h17
        unfold ethDenote at h
        rw [if_neg h6] at h
        simp only at h
        split at h
        · rename_i hc
          obtain ⟨hx, hs⟩ := hc
          simp only [Option.some.injEq] at h
          have d : ∀ c ∈ [h0, l0, h1, l1, h2, l2, h3, l3, h4, l4, h5, l5], digitVal c < 16 := by
            intro c hc
            have := List.all_eq_true.mp hx c hc
            simpa [isHexDigit] using this
          have hsep : ∃ sep, (sep = ':' ∨ sep = '-') ∧ s0 = sep ∧ s1 = sep ∧ s2 = sep ∧ s3 = sep ∧ s4 = sep := by
            rcases hs with e | e
            · simp only [List.cons.injEq, and_true] at e; exact ⟨':', .inl rfl, e⟩
            · simp only [List.cons.injEq, and_true] at e; exact ⟨'-', .inr rfl, e⟩
          obtain ⟨sep, hsv, e0, e1, e2, e3, e4⟩ := hsep
          subst e0 e1 e2 e3 e4
          rw [eth_sep_form _ hsv _ _ _ _ _ _ _ _ _ _ _ _ (d _ (by simp)) (d _ (by simp)) (d _ (by simp)) (d _ (by simp))
            (d _ (by simp)) (d _ (by simp)) (d _ (by simp)) (d _ (by simp)) (d _ (by simp)) (d _ (by simp)) (d _ (by simp))
            (d _ (by simp)), ← h]
          rfl
        · simp at h
      · have hloose : ethDenote.looseDenote s = some b := by
          unfold ethDenote at h
          rw [if_neg h6] at h
          split at h
          · exfalso; apply h12; subst_vars; rfl
          · exfalso; apply h17; subst_vars; rfl
          · exact h
        exact loose_ok s b hloose h12 h17

end Pox.Addr
