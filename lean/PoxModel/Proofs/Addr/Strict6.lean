import PoxModel.Proofs.Addr.Parse6
/-! C16 helper lemmas, part 16: the repaired IPv6 text parser (`parse6S`, `fixes/C16_ip6_text.diff`) accepts exactly the
RFC 4291 texts and returns their denotation.  Core only. -/
namespace Pox.Addr

/-! ### every valid text is parsed to its denotation -/

theorem zero2_hex4 {ps : Segs} (h : ps.Hex4) : (ps ++ [(0, ['0']), (0, ['0'])]).Hex4 := h.append zeroSeg_hex4

theorem parse6S_full (s : Str) (gs : List Nat) (hs : Side s gs) (hl : gs.length = 8) : parse6S s = .ok (groupBytes gs) := by
  cases hs with
  | hex ps hg hx ht hv =>
    have hlen : ps.length = 8 := by rw [hv] at hl; simpa [Segs.vals] using hl
    unfold parse6S parse6With
    rw [if_neg (by rw [ht, (has_false_iff '.' _).mpr hg.no_dot]; simp), ht, parseGroupsS_plain ps hg hx hlen, hv]
  | quad ps q b0 b1 b2 b3 hg hx ht hq hdot hcol hv =>
    have hlen : ps.length = 6 := by rw [hv] at hl; simp [Segs.vals] at hl; omega
    have hne : ps.strs ≠ [] := by intro e; have : ps.strs.length = 0 := by rw [e]; rfl
                                  simp [Segs.strs, hlen] at this
    have ht' : s = joinWith ':' ps.strs ++ ':' :: q := by rw [ht]; unfold pre; rw [if_neg hne]; simp
    unfold parse6S
    rw [ht', parse6With_quad _ _ q b0 b1 b2 b3 hg.no_dot hq hdot hcol]
    have hp := parseGroupsS_plain _ (good_zero2 hg) (zero2_hex4 hx) (by simp [hlen])
    rw [zero2_strs, joinWith_two, zero2_vals] at hp
    unfold pre at hp; rw [if_neg hne] at hp
    simp only [List.append_assoc, List.cons_append, List.nil_append] at hp
    rw [hp]
    simp only
    rw [quad_bytes, hv]

theorem parse6S_dc (l r : Str) (a b : List Nat) (L : Segs) (hL : L.Good) (xL : L.Hex4) (hl : l = joinWith ':' L.strs)
    (ha : a = L.vals) (hr : Side r b) (hab : a.length + b.length ≤ 7) :
    parse6S (l ++ ':' :: ':' :: r) = .ok (groupBytes (a ++ List.replicate (8 - a.length - b.length) 0 ++ b)) := by
  have haL : a.length = L.length := by rw [ha]; simp [Segs.vals]
  cases hr with
  | hex R hg hxR ht hv =>
    have hbR : b.length = R.length := by rw [hv]; simp [Segs.vals]
    have hnd : '.' ∉ (l ++ ':' :: ':' :: r) := by
      intro hm
      rcases List.mem_append.mp hm with h | h
      · rw [hl] at h; exact hL.no_dot h
      · simp only [List.mem_cons] at h
        rcases h with h | h | h
        · exact absurd h (by decide)
        · exact absurd h (by decide)
        · rw [ht] at h; exact hg.no_dot h
    unfold parse6S parse6With
    rw [if_neg (by rw [(has_false_iff '.' _).mpr hnd]; simp), hl, ht,
      parseGroupsS_dc L R hL hg xL hxR (by omega), ← ha, ← hv, ← haL, ← hbR]
  | quad R q b0 b1 b2 b3 hg hxR ht hq hdot hcol hv =>
    have hbR : b.length = R.length + 2 := by rw [hv]; simp [Segs.vals]
    obtain ⟨Q, hQ, hQdot⟩ : ∃ Q, l ++ ':' :: ':' :: pre R.strs = Q ++ [':'] ∧ '.' ∉ Q := by
      unfold pre
      by_cases hs : R.strs = []
      · rw [if_pos hs]
        refine ⟨l ++ [':'], by simp, ?_⟩
        intro hm
        rcases List.mem_append.mp hm with h | h
        · rw [hl] at h; exact hL.no_dot h
        · simp at h
      · rw [if_neg hs]
        refine ⟨l ++ ':' :: ':' :: joinWith ':' R.strs, by simp, ?_⟩
        intro hm
        rcases List.mem_append.mp hm with h | h
        · rw [hl] at h; exact hL.no_dot h
        · simp only [List.mem_cons] at h
          rcases h with h | h | h
          · exact absurd h (by decide)
          · exact absurd h (by decide)
          · exact hg.no_dot h
    have htext : l ++ ':' :: ':' :: r = Q ++ ':' :: q := by
      rw [ht]
      have : l ++ ':' :: ':' :: (pre R.strs ++ q) = (l ++ ':' :: ':' :: pre R.strs) ++ q := by simp
      rw [this, hQ]; simp
    have hgroups : parseGroupsS (Q ++ [':', '0', ':', '0']) =
        .ok (groupBytes ((L.vals ++ List.replicate (8 - L.length - (R.length + 2)) 0 ++ R.vals) ++ [0, 0])) := by
      have := parseGroupsS_dc L (R ++ [(0, ['0']), (0, ['0'])]) hL (good_zero2 hg) xL (zero2_hex4 hxR) (by simp; omega)
      rw [zero2_strs, joinWith_two, zero2_vals, ← hl] at this
      have e2 : l ++ ':' :: ':' :: (pre R.strs ++ ['0'] ++ ':' :: ['0']) = (l ++ ':' :: ':' :: pre R.strs) ++ ['0', ':', '0'] := by
        simp
      rw [e2, hQ] at this
      have e3 : Q ++ [':'] ++ ['0', ':', '0'] = Q ++ [':', '0', ':', '0'] := by simp
      rw [e3] at this
      rw [this]
      simp only [List.length_append, List.length_cons, List.length_nil, List.append_assoc]
    unfold parse6S
    rw [htext, parse6With_quad _ Q q b0 b1 b2 b3 hQdot hq hdot hcol, hgroups]
    simp only
    rw [quad_bytes, haL, hbR, ha, hv]
    simp only [List.append_assoc]

/-- forward direction: every RFC 4291 text is accepted by the repaired parser with exactly its denotation -/
theorem parse6S_denote (s : Str) (bs : Bytes) (h : denote6 s = some bs) : parse6S s = .ok bs := by
  unfold denote6 at h
  cases hd : splitDC s with
  | none =>
    rw [hd] at h
    cases hv : listVals s true with
    | none => rw [hv] at h; simp at h
    | some gs =>
      rw [hv] at h
      simp only at h
      by_cases hl : gs.length = 8
      · rw [if_pos hl] at h
        simp only [Option.some.injEq] at h
        rw [← h]
        exact parse6S_full s gs (side_of_listVals s true gs hv).1 hl
      · rw [if_neg hl] at h; simp at h
  | some lr =>
    obtain ⟨l, r⟩ := lr
    rw [hd] at h
    simp only at h
    obtain ⟨a, b, hva, hvb, hab, hbs⟩ := denote6_dc_inv _ _ bs h
    obtain ⟨L, hL, xL, hl, ha⟩ := (side_of_listVals l false a hva).2 rfl
    rw [splitDC_eq s l r hd, hbs]
    exact parse6S_dc l r a b L hL xL hl ha (side_of_listVals r true b hvb).1 hab

end Pox.Addr

namespace Pox.Addr

/-! ### whatever the repaired parser accepts is an RFC 4291 text -/

theorem partitionDC_eq_splitDC : ∀ s : Str, partitionDC s = splitDC s := by
  intro s
  induction s with
  | nil => rfl
  | cons a t ih =>
    cases t with
    | nil => simp [partitionDC, splitDC]
    | cons b r =>
      rw [partitionDC_cons2]
      unfold splitDC
      simp only
      rw [ih]

theorem fieldVals_hex : ∀ (ps : List Str) (v4 : Bool), (∀ p ∈ ps, isHexGroup p = true) → fieldVals ps v4 = some (ps.map groupVal) := by
  intro ps
  induction ps with
  | nil => intro v4 _; rfl
  | cons p t ih =>
    intro v4 h
    have hp := h p (by simp)
    unfold fieldVals
    cases t with
    | nil => simp [hp]
    | cons q qs =>
      simp only
      rw [if_pos hp, ih v4 (fun x hx => h x (by simp [hx]))]
      rfl

theorem fieldVals_append_quad : ∀ (init : List Str) (q : Str) (g : List Nat), (∀ p ∈ init, isHexGroup p = true) →
    isHexGroup q = false → quadGroups q = some g → fieldVals (init ++ [q]) true = some (init.map groupVal ++ g) := by
  intro init
  induction init with
  | nil =>
    intro q g _ hq hg
    simp [fieldVals, hq, hg]
  | cons p t ih =>
    intro q g h hq hg
    have hp := h p (by simp)
    rw [List.cons_append]
    unfold fieldVals
    cases ht : t ++ [q] with
    | nil => simp at ht
    | cons x xs =>
      simp only
      rw [if_pos hp, ← ht, ih q g (fun y hy => h y (by simp [hy])) hq hg]
      rfl

theorem sideGroups_hex_iff (t : Str) : (sideGroups t).all (isHexStr 1 4) = true → ∀ v4, listVals t v4 = some ((sideGroups t).map groupVal) := by
  intro h v4
  unfold listVals sideGroups at *
  by_cases he : t.isEmpty = true
  · rw [if_pos he]; rw [if_pos he]; rfl
  · rw [if_neg he] at h ⊢
    rw [if_neg he]
    exact fieldVals_hex _ v4 (fun p hp => by rw [← isHexStr_eq]; exact List.all_eq_true.mp h p hp)

theorem splitOn_append_sep (c : Char) (A B : Str) : splitOn c (A ++ c :: B) = splitOn c A ++ splitOn c B := by
  induction A with
  | nil => simp [splitOn]
  | cons x xs ih =>
    rw [List.cons_append, splitOn, splitOn]
    by_cases hx : x = c
    · rw [if_pos hx, if_pos hx, ih]; rfl
    · rw [if_neg hx, if_neg hx, ih]
      cases hs : splitOn c xs with
      | nil => exact absurd hs (splitOn_ne_nil c xs)
      | cons h t => rfl

theorem partitionDC_tail (t : Str) (c : Char) (t' : Str) (ht : t = c :: t') (hc : c ≠ ':') (hn : partitionDC t = none) :
    ∀ X : Str, partitionDC (X ++ t) = (partitionDC X).map fun p => (p.1, p.2 ++ t) := by
  intro X
  induction X with
  | nil => simp [hn, partitionDC]
  | cons a X' ih =>
    cases X' with
    | nil =>
      rw [partitionDC_single]
      show partitionDC (a :: t) = none
      rw [ht, partitionDC_cons2, if_neg (fun h => hc h.2), ← ht, hn]; rfl
    | cons b r =>
      rw [List.cons_append, List.cons_append, partitionDC_cons2, partitionDC_cons2]
      by_cases hcond : a = ':' ∧ b = ':'
      · rw [if_pos hcond, if_pos hcond]; rfl
      · rw [if_neg hcond, if_neg hcond]
        have := ih
        rw [List.cons_append] at this
        rw [this]
        cases partitionDC (b :: r) <;> rfl

theorem span_spec (p : Char → Bool) : ∀ r : Str, r = r.takeWhile p ++ r.dropWhile p ∧ (∀ x ∈ r.takeWhile p, p x = true) ∧
    (∀ x h, r.dropWhile p = x :: h → p x = false) := by
  intro r
  induction r with
  | nil => simp
  | cons y ys ih =>
    by_cases hy : p y = true
    · simp only [List.takeWhile_cons, List.dropWhile_cons, hy, if_true]
      refine ⟨by rw [List.cons_append, ← ih.1], ?_, ih.2.2⟩
      intro x hx
      rcases List.mem_cons.mp hx with rfl | hx
      · exact hy
      · exact ih.2.1 x hx
    · have hy' : p y = false := by simpa using hy
      simp only [List.takeWhile_cons, List.dropWhile_cons, hy', Bool.false_eq_true, if_false]
      refine ⟨by simp, by simp, ?_⟩
      intro x h e
      injection e with e1 _
      rw [← e1]; exact hy'

theorem rsplit1_some (c : Char) (s A q : Str) (h : rsplit1 c s = some (A, q)) : s = A ++ c :: q ∧ c ∉ q := by
  unfold rsplit1 at h
  dsimp only at h
  obtain ⟨hsp, htw, hdw⟩ := span_spec (· != c) s.reverse
  cases hd : s.reverse.dropWhile (· != c) with
  | nil => rw [hd] at h; simp at h
  | cons x hh =>
    rw [hd] at h
    simp only [Option.some.injEq, Prod.mk.injEq] at h
    have hx : x = c := by
      have := hdw x hh hd
      simpa using this
    rw [hd, hx] at hsp
    have hs : s = (s.reverse).reverse := (List.reverse_reverse s).symm
    rw [hsp] at hs
    simp only [List.reverse_append, List.reverse_cons, List.append_assoc, List.cons_append, List.nil_append] at hs
    rw [h.1, h.2] at hs
    refine ⟨hs, ?_⟩
    rw [← h.2]
    intro hm
    have := htw c (List.mem_reverse.mp hm)
    simp at this

theorem not_hex_of_dot (q : Str) (h : '.' ∈ q) : isHexGroup q = false := by
  unfold isHexGroup
  rw [Bool.eq_false_iff]
  intro ht
  simp only [Bool.and_eq_true, decide_eq_true_eq, List.all_eq_true] at ht
  have := ht.2 '.' h
  rw [dv_dot] at this; omega

theorem ends_colon (A l r0 : Str) (h : A ++ [':'] = l ++ ':' :: ':' :: r0) : r0 = [] ∨ ∃ R0, r0 = R0 ++ [':'] := by
  cases hr : r0.reverse with
  | nil => left; simpa using hr
  | cons b R =>
    right
    have e : r0 = R.reverse ++ [b] := by
      have := congrArg List.reverse hr
      simpa using this
    refine ⟨R.reverse, ?_⟩
    rw [e] at h
    have h' : A ++ [':'] = (l ++ ':' :: ':' :: R.reverse) ++ [b] := by rw [h]; simp
    have := (List.append_inj' h' rfl).2
    injection this with hb _
    rw [e, ← hb]

theorem sideGroups_nonempty (t : Str) (h : t ≠ []) : sideGroups t = splitOn ':' t := by
  unfold sideGroups
  cases t with
  | nil => exact absurd rfl h
  | cons _ _ => rfl

/-- the validation alone (no dotted quad): what passes is an RFC 4291 text -/
theorem guard6_denote (s : Str) (h : guard6 s = true) : (denote6 s).isSome = true := by
  unfold guard6 at h
  unfold denote6
  rw [← partitionDC_eq_splitDC]
  cases hp : partitionDC s with
  | none =>
    rw [hp] at h
    simp only [Bool.and_eq_true, decide_eq_true_eq] at h
    simp only
    rw [sideGroups_hex_iff s h.2 true]
    simp [h.1]
  | some lr =>
    obtain ⟨l, r⟩ := lr
    rw [hp] at h
    simp only [Bool.and_eq_true, decide_eq_true_eq, List.all_append, List.length_append] at h
    simp only
    rw [sideGroups_hex_iff l h.2.1 false, sideGroups_hex_iff r h.2.2 true]
    simp only [List.length_map]
    rw [if_pos h.1.2]; rfl

end Pox.Addr

namespace Pox.Addr

theorem z_facts : partitionDC ['0', ':', '0'] = none ∧ splitOn ':' ['0', ':', '0'] = [['0'], ['0']] ∧
    isHexStr 1 4 ['0'] = true := by decide

theorem partitionDC_none_of_nocolon (q : Str) (h : ':' ∉ q) : partitionDC q = none := by
  have := partitionDC_nocolon q [] h
  rw [List.append_nil] at this
  rw [this]; rfl

/-- the text with a dotted-quad tail: from the validation of the rewritten group part (`… :0:0`) to the denotation -/
theorem guard6_quad_denote (A q : Str) (g : List Nat) (hq : quadGroups q = some g) (hdot : '.' ∈ q) (hcol : ':' ∉ q)
    (hg : guard6 (A ++ [':', '0', ':', '0']) = true) : (denote6 (A ++ ':' :: q)).isSome = true := by
  obtain ⟨zp, zs, zh⟩ := z_facts
  obtain ⟨b0, b1, b2, b3, _, hgv, _, _⟩ := quadGroups_some q g hq
  have hglen : g.length = 2 := by rw [hgv]; rfl
  obtain ⟨c, q', hqc⟩ : ∃ c q', q = c :: q' := by
    cases q with
    | nil => simp at hdot
    | cons c q' => exact ⟨c, q', rfl⟩
  have hc : c ≠ ':' := fun e => hcol (by rw [hqc]; simp [e])
  have hqn : partitionDC q = none := partitionDC_none_of_nocolon q hcol
  have hqh : isHexGroup q = false := not_hex_of_dot q hdot
  have hsq : splitOn ':' q = [q] := splitOn_none ':' q hcol
  -- both texts are X ++ tail with X = A ++ ":"
  have eA : A ++ [':', '0', ':', '0'] = (A ++ [':']) ++ ['0', ':', '0'] := by simp
  have eS : A ++ ':' :: q = (A ++ [':']) ++ q := by simp
  have tZ := partitionDC_tail ['0', ':', '0'] '0' [':', '0'] rfl (by decide) zp (A ++ [':'])
  have tQ := partitionDC_tail q c q' hqc hc hqn (A ++ [':'])
  unfold guard6 at hg
  unfold denote6
  rw [← partitionDC_eq_splitDC, eS, tQ]
  rw [eA, tZ] at hg
  cases hX : partitionDC (A ++ [':']) with
  | none =>
    rw [hX] at hg
    simp only [Option.map_none] at hg ⊢
    simp only [Bool.and_eq_true, decide_eq_true_eq] at hg
    have hne : (A ++ [':']) ++ ['0', ':', '0'] ≠ [] := by simp
    rw [sideGroups_nonempty _ hne, ← eA, splitOn_append_sep, zs] at hg
    have hlen : (splitOn ':' A).length = 6 := by simpa using hg.1
    have hall : ∀ p ∈ splitOn ':' A, isHexGroup p = true := by
      intro p hp
      rw [← isHexStr_eq]
      exact List.all_eq_true.mp hg.2 p (by simp [hp])
    have hlv : listVals (A ++ [':'] ++ q) true = some ((splitOn ':' A).map groupVal ++ g) := by
      unfold listVals
      have : (A ++ [':'] ++ q).isEmpty = false := by simp
      rw [this]
      simp only [Bool.false_eq_true, if_false]
      rw [← eS, splitOn_append_sep, hsq]
      exact fieldVals_append_quad _ q g hall hqh hq
    rw [hlv]
    simp [hlen, hglen]
  | some lr =>
    obtain ⟨l, r0⟩ := lr
    rw [hX] at hg
    simp only [Option.map_some] at hg ⊢
    simp only [Bool.and_eq_true, decide_eq_true_eq, List.all_append, List.length_append] at hg
    have hXeq : A ++ [':'] = l ++ ':' :: ':' :: r0 := by
      rw [partitionDC_eq_splitDC] at hX
      exact splitDC_eq _ l r0 hX
    -- the right-hand side is `init` fields followed by the tail
    obtain ⟨I, hIz, hIq⟩ : ∃ I : List Str, splitOn ':' (r0 ++ ['0', ':', '0']) = I ++ [['0'], ['0']] ∧ splitOn ':' (r0 ++ q) = I ++ [q] := by
      rcases ends_colon A l r0 hXeq with e | ⟨R0, e⟩
      · exact ⟨[], by rw [e]; simpa using zs, by rw [e]; simpa using hsq⟩
      · refine ⟨splitOn ':' R0, ?_, ?_⟩
        · rw [e, List.append_assoc, List.singleton_append, splitOn_append_sep, zs]
        · rw [e, List.append_assoc, List.singleton_append, splitOn_append_sep, hsq]
    have hne : r0 ++ ['0', ':', '0'] ≠ [] := by simp
    rw [sideGroups_nonempty _ hne, hIz] at hg
    have hall : ∀ p ∈ I, isHexGroup p = true := by
      intro p hp
      rw [← isHexStr_eq]
      exact List.all_eq_true.mp hg.2.2 p (by simp [hp])
    have hlv : listVals (r0 ++ q) true = some (I.map groupVal ++ g) := by
      unfold listVals
      have : (r0 ++ q).isEmpty = false := by rw [hqc]; simp
      rw [this]
      simp only [Bool.false_eq_true, if_false]
      rw [hIq]
      exact fieldVals_append_quad _ q g hall hqh hq
    rw [sideGroups_hex_iff l hg.2.1 false, hlv]
    simp only [List.length_map, List.length_append, hglen]
    have hcount : (sideGroups l).length + (I.length + 2) ≤ 7 := by simpa using hg.1.2
    rw [if_pos hcount]; rfl

/-- reverse direction: what the repaired parser accepts is an RFC 4291 text -/
theorem parse6S_wf (s : Str) (a : Bytes) (h : parse6S s = .ok a) : (denote6 s).isSome = true := by
  unfold parse6S parse6With at h
  by_cases hd : has '.' s = true
  · rw [if_pos hd] at h
    cases hr : rsplit1 ':' s with
    | none => rw [hr] at h; cases h
    | some Aq =>
      obtain ⟨A, q⟩ := Aq
      rw [hr] at h
      simp only at h
      obtain ⟨hs, hcol⟩ := rsplit1_some ':' s A q hr
      by_cases h1 : has '.' A = true
      · rw [if_pos h1] at h; cases h
      · rw [if_neg h1] at h
        by_cases h2 : has ':' q = true
        · rw [if_pos h2] at h; cases h
        · rw [if_neg h2] at h
          cases hpg : parseGroupsS (A ++ [':', '0', ':', '0']) with
          | error e => rw [hpg] at h; cases h
          | ok v =>
            rw [hpg] at h
            cases hip : IP4.ofText q with
            | error e => rw [hip] at h; cases h
            | ok ip =>
              have hguard : guard6 (A ++ [':', '0', ':', '0']) = true := by
                unfold parseGroupsS at hpg
                cases hgd : guard6 (A ++ [':', '0', ':', '0']) with
                | false => rw [hgd] at hpg; cases hpg
                | true => rfl
              unfold IP4.ofText at hip
              cases hat : inetAton q with
              | error e => rw [hat] at hip; cases hip
              | ok bsq =>
                obtain ⟨⟨b0, b1, b2, b3, rfl⟩, hdot, _⟩ := inetAton_ok q bsq hat
                have hqg : quadGroups q = some [b0.toNat * 256 + b1.toNat, b2.toNat * 256 + b3.toNat] := by
                  unfold quadGroups; rw [hat]
                rw [hs]
                exact guard6_quad_denote A q _ hqg hdot hcol hguard
  · rw [if_neg hd] at h
    have hguard : guard6 s = true := by
      unfold parseGroupsS at h
      cases hgd : guard6 s with
      | false => rw [hgd] at h; cases h
      | true => rfl
    exact guard6_denote s hguard

/-- **accept ⇔ well-formed**, with the right value: the repaired `IPAddr6(text)` returns `a` iff `a` is the address the
    text denotes under RFC 4291 §2.2 -/
theorem parse6S_iff (s : Str) (a : Bytes) : parse6S s = .ok a ↔ denote6 s = some a := by
  constructor
  · intro h
    have hw := parse6S_wf s a h
    cases hd : denote6 s with
    | none => rw [hd] at hw; cases hw
    | some bs =>
      have := parse6S_denote s bs hd
      rw [h] at this
      injection this with e
      rw [e]
  · exact parse6S_denote s a

/-- and everything else is refused: the repaired parser never returns an address for a text outside the grammar -/
theorem parse6S_reject (s : Str) (h : denote6 s = none) : ∃ e, parse6S s = .error e := by
  cases hp : parse6S s with
  | error e => exact ⟨e, rfl⟩
  | ok a => rw [(parse6S_iff s a).mp hp] at h; cases h

end Pox.Addr
