import PoxModel.Model.Addr
/-! C16 helper lemmas, part 3: characters, digits, `int()`, split / join / count.  Core only. -/
namespace Pox.Addr

/-! ### digits -/

theorem digitVal_hexChar : ∀ d, d < 16 → digitVal (hexChar d) = d := by decide

/-- every character of `s` is a digit below `base` -/
def AllDig (base : Nat) (s : Str) : Prop := ∀ c ∈ s, digitVal c < base

theorem AllDig.append {b s t} (hs : AllDig b s) (ht : AllDig b t) : AllDig b (s ++ t) := by
  intro c hc
  rcases List.mem_append.mp hc with h | h
  · exact hs c h
  · exact ht c h

theorem AllDig.mono {b b' s} (h : AllDig b s) (hb : b ≤ b') : AllDig b' s :=
  fun c hc => Nat.lt_of_lt_of_le (h c hc) hb

theorem allDig_natDigits (base : Nat) (hb1 : 1 ≤ base) (hb : base ≤ 16) : ∀ f n, AllDig base (natDigits base f n) := by
  intro f
  induction f with
  | zero => intro n c hc; simp [natDigits] at hc
  | succ f ih =>
    intro n
    unfold natDigits
    by_cases h : n < base
    · rw [if_pos h]
      intro c hc
      simp only [List.mem_singleton] at hc
      subst hc
      rw [digitVal_hexChar n (by omega)]; exact h
    · rw [if_neg h]
      apply AllDig.append (ih _)
      intro c hc
      simp only [List.mem_singleton] at hc
      subst hc
      have : n % base < base := Nat.mod_lt _ (by omega)
      rw [digitVal_hexChar _ (by omega)]; exact this

theorem natDigits_ne_nil (base f n : Nat) : natDigits base (f + 1) n ≠ [] := by
  unfold natDigits
  split <;> simp

/-- value of a digit string (no sign, no prefix, no underscore) -/
def foldDig (base acc : Nat) (s : Str) : Nat := s.foldl (fun a c => a * base + digitVal c) acc

theorem foldDig_append (base acc : Nat) (s t : Str) : foldDig base acc (s ++ t) = foldDig base (foldDig base acc s) t := by
  simp [foldDig, List.foldl_append]

theorem foldDig_natDigits (base : Nat) (hb2 : 2 ≤ base) (hb : base ≤ 16) :
    ∀ f n, n < f → foldDig base 0 (natDigits base f n) = n := by
  intro f
  induction f with
  | zero => intro n h; omega
  | succ f ih =>
    intro n hn
    unfold natDigits
    by_cases h : n < base
    · rw [if_pos h]
      simp [foldDig, digitVal_hexChar n (by omega)]
    · rw [if_neg h, foldDig_append]
      have hlt : n / base < f := by
        have : n / base < n := Nat.div_lt_self (by omega) (by omega)
        omega
      rw [ih _ hlt]
      have : n % base < base := Nat.mod_lt _ (by omega)
      simp only [foldDig, List.foldl_cons, List.foldl_nil]
      rw [digitVal_hexChar _ (by omega)]
      have := Nat.div_add_mod n base
      rw [Nat.mul_comm] at this
      exact this

theorem fmtNat_ne_nil (base n : Nat) : fmtNat base n ≠ [] := natDigits_ne_nil base n n
theorem allDig_fmtNat (base : Nat) (hb1 : 1 ≤ base) (hb : base ≤ 16) (n : Nat) : AllDig base (fmtNat base n) :=
  allDig_natDigits base hb1 hb _ _
theorem foldDig_fmtNat (base : Nat) (hb2 : 2 ≤ base) (hb : base ≤ 16) (n : Nat) : foldDig base 0 (fmtNat base n) = n :=
  foldDig_natDigits base hb2 hb _ _ (Nat.lt_succ_self n)

theorem foldDig_zeros (base k : Nat) : foldDig base 0 (List.replicate k '0') = 0 := by
  induction k with
  | zero => rfl
  | succ k ih =>
    rw [List.replicate_succ]
    simp only [foldDig, List.foldl_cons] at *
    have : digitVal '0' = 0 := by decide
    rw [this]; simpa using ih

theorem allDig_padZero {base w s} (hb : 1 ≤ base) (h : AllDig base s) : AllDig base (padZero w s) := by
  apply AllDig.append _ h
  intro c hc
  rw [List.mem_replicate] at hc
  rw [hc.2]
  have : digitVal '0' = 0 := by decide
  omega

theorem foldDig_padZero (base w : Nat) (s : Str) : foldDig base 0 (padZero w s) = foldDig base 0 s := by
  unfold padZero
  rw [foldDig_append, foldDig_zeros]

theorem padZero_ne_nil {w s} (h : s ≠ []) : padZero w s ≠ [] := by
  unfold padZero; simp [h]

/-- what a parsed group looks like: non-empty, hex digits only, denotes `g` -/
structure GoodHex (g : Nat) (s : Str) : Prop where
  ne : s ≠ []
  dig : AllDig 16 s
  val : foldDig 16 0 s = g

theorem goodHex_fmt (g : Nat) : GoodHex g (fmtNat 16 g) :=
  ⟨fmtNat_ne_nil _ _, allDig_fmtNat 16 (by decide) (by decide) g, foldDig_fmtNat 16 (by decide) (by decide) g⟩

theorem goodHex_pad (w g : Nat) : GoodHex g (padZero w (fmtNat 16 g)) :=
  ⟨padZero_ne_nil (fmtNat_ne_nil _ _), allDig_padZero (by decide) (allDig_fmtNat 16 (by decide) (by decide) g),
   by rw [foldDig_padZero]; exact foldDig_fmtNat 16 (by decide) (by decide) g⟩

/-! ### characters that are not digits -/

theorem dv_us : digitVal '_' = 99 := by decide
theorem dv_plus : digitVal '+' = 99 := by decide
theorem dv_minus : digitVal '-' = 99 := by decide
theorem dv_colon : digitVal ':' = 99 := by decide
theorem dv_dot : digitVal '.' = 99 := by decide
theorem dv_bar : digitVal '|' = 99 := by decide
theorem dv_x : digitVal 'x' = 33 := by decide
theorem dv_X : digitVal 'X' = 33 := by decide

theorem ne_of_digitVal {c d : Char} {b : Nat} (h : digitVal c < b) (hd : b ≤ digitVal d) : c ≠ d := by
  intro e; subst e; omega

theorem isWs_digitVal {c : Char} (h : isWs c = true) : digitVal c = 99 := by
  unfold isWs at h
  simp only [Bool.or_eq_true, decide_eq_true_eq] at h
  rcases h with ((((h | h) | h) | h) | h) | h <;> subst h <;> decide

theorem not_isWs_of_dig {c : Char} {b : Nat} (hb : b ≤ 36) (h : digitVal c < b) : isWs c = false := by
  cases hw : isWs c with
  | false => rfl
  | true => have := isWs_digitVal hw; omega

theorem AllDig.not_mem {b s} (h : AllDig b s) {d : Char} (hd : b ≤ digitVal d) : d ∉ s :=
  fun hm => by have := h d hm; omega

/-! ### `int()` on a plain digit string -/

theorem scanDigits_dig (base : Nat) (hb : base ≤ 36) : ∀ (s : Str) (acc nd : Nat), AllDig base s → (0 < nd ∨ s ≠ []) →
    scanDigits base s acc nd false = some (foldDig base acc s, []) := by
  intro s
  induction s with
  | nil =>
    intro acc nd _ h
    have : 0 < nd := by rcases h with h | h; exact h; exact absurd rfl h
    simp only [scanDigits, foldDig, List.foldl_nil, Bool.false_or]
    rw [if_neg]; simp; omega
  | cons c cs ih =>
    intro acc nd hd _
    have hc : digitVal c < base := hd c (by simp)
    have hne : c ≠ '_' := ne_of_digitVal hc (by rw [dv_us]; omega)
    unfold scanDigits
    rw [if_neg hne, if_pos hc, ih _ _ (fun x hx => hd x (by simp [hx])) (.inl (by omega))]
    simp [foldDig]

theorem pyInt_dig (base : Nat) (hb : base ≤ 16) (s : Str) (hd : AllDig base s) (hne : s ≠ []) :
    pyInt base s = .ok (foldDig base 0 s : Nat) := by
  obtain ⟨c, r, rfl⟩ : ∃ c r, s = c :: r := by
    cases s with
    | nil => exact absurd rfl hne
    | cons c r => exact ⟨c, r, rfl⟩
  have hc : digitVal c < base := hd c (by simp)
  have hws : isWs c = false := not_isWs_of_dig (by omega) hc
  have hplus : c ≠ '+' := ne_of_digitVal hc (by rw [dv_plus]; omega)
  have hminus : c ≠ '-' := ne_of_digitVal hc (by rw [dv_minus]; omega)
  have h0x : (if base = 16 then strip0x (c :: r) else c :: r) = c :: r := by
    split
    · unfold strip0x startsWith
      cases r with
      | nil => simp
      | cons c1 r' =>
        have hc1 : digitVal c1 < base := hd c1 (by simp)
        have hx : c1 ≠ 'x' := ne_of_digitVal hc1 (by rw [dv_x]; omega)
        have hX : c1 ≠ 'X' := ne_of_digitVal hc1 (by rw [dv_X]; omega)
        simp [hx, hX]
    · rfl
  have hss : stripSign (c :: r) = (false, c :: r) := by
    simp only [stripSign]; rw [if_neg hplus, if_neg hminus]
  have hdw : (c :: r).dropWhile isWs = c :: r := by simp [hws]
  unfold pyInt
  simp only [hdw, hss, h0x]
  rw [scanDigits_dig base (by omega) _ _ _ hd (.inr hne)]
  simp

theorem pyInt_goodHex {g : Nat} {s : Str} (h : GoodHex g s) : pyInt 16 s = .ok (g : Int) := by
  rw [pyInt_dig 16 (by decide) s h.dig h.ne, h.val]

/-! ### split / join -/

theorem splitOn_ne_nil (c : Char) (s : Str) : splitOn c s ≠ [] := by
  induction s with
  | nil => simp [splitOn]
  | cons x xs ih =>
    unfold splitOn
    split
    · simp
    · split <;> simp

theorem splitOn_append (c : Char) (a b : Str) (ha : c ∉ a) : splitOn c (a ++ c :: b) = a :: splitOn c b := by
  induction a with
  | nil => simp [splitOn]
  | cons x xs ih =>
    have hx : x ≠ c := fun e => ha (by simp [e])
    have hxs : c ∉ xs := fun h => ha (by simp [h])
    rw [List.cons_append, splitOn, if_neg hx, ih hxs]

theorem splitOn_none (c : Char) (a : Str) (ha : c ∉ a) : splitOn c a = [a] := by
  induction a with
  | nil => simp [splitOn]
  | cons x xs ih =>
    have hx : x ≠ c := fun e => ha (by simp [e])
    have hxs : c ∉ xs := fun h => ha (by simp [h])
    rw [splitOn, if_neg hx, ih hxs]

theorem joinWith_cons_cons (c : Char) (g g' : Str) (gs : List Str) :
    joinWith c (g :: g' :: gs) = g ++ c :: joinWith c (g' :: gs) := rfl

theorem joinWith_single (c : Char) (g : Str) : joinWith c [g] = g := rfl

/-- segments produced by splitting a joined list: Python's `''.split(c) == ['']` -/
def segsOf (gs : List Str) : List Str := if gs = [] then [[]] else gs

theorem splitOn_join_append (c : Char) : ∀ (gs : List Str) (rest : Str), (∀ g ∈ gs, c ∉ g) →
    splitOn c (joinWith c gs ++ c :: rest) = segsOf gs ++ splitOn c rest := by
  intro gs
  induction gs with
  | nil => intro rest _; simp [joinWith, segsOf, splitOn]
  | cons g gs ih =>
    intro rest h
    cases gs with
    | nil =>
      rw [joinWith_single, splitOn_append c g rest (h g (by simp))]
      simp [segsOf]
    | cons g' gs' =>
      rw [joinWith_cons_cons, List.append_assoc, List.cons_append, splitOn_append c g _ (h g (by simp)),
        ih rest (fun x hx => h x (by simp [hx]))]
      simp [segsOf]

theorem splitOn_join (c : Char) : ∀ (gs : List Str), (∀ g ∈ gs, c ∉ g) → splitOn c (joinWith c gs) = segsOf gs := by
  intro gs
  induction gs with
  | nil => intro _; simp [joinWith, segsOf, splitOn]
  | cons g gs ih =>
    intro h
    cases gs with
    | nil => rw [joinWith_single, splitOn_none c g (h g (by simp))]; simp [segsOf]
    | cons g' gs' =>
      rw [joinWith_cons_cons, splitOn_append c g _ (h g (by simp)), ih (fun x hx => h x (by simp [hx]))]
      simp [segsOf]

/-- membership in a joined string -/
theorem mem_joinWith {c : Char} {gs : List Str} {x : Char} (h : x ∈ joinWith c gs) : x = c ∨ ∃ g ∈ gs, x ∈ g := by
  induction gs with
  | nil => simp [joinWith] at h
  | cons g gs ih =>
    cases gs with
    | nil => rw [joinWith_single] at h; exact .inr ⟨g, by simp, h⟩
    | cons g' gs' =>
      rw [joinWith_cons_cons] at h
      rcases List.mem_append.mp h with h | h
      · exact .inr ⟨g, by simp, h⟩
      · rcases List.mem_cons.mp h with h | h
        · exact .inl h
        · rcases ih h with h | ⟨y, hy, hxy⟩
          · exact .inl h
          · exact .inr ⟨y, by simp [hy], hxy⟩

theorem has_false_iff (c : Char) (s : Str) : has c s = false ↔ c ∉ s := by
  unfold has
  rw [Bool.eq_false_iff]
  simp [List.any_eq_true]

theorem has_true_iff (c : Char) (s : Str) : has c s = true ↔ c ∈ s := by
  unfold has
  simp [List.any_eq_true]

/-! ### `count('::')` -/

theorem countDCaux_skip : ∀ (g : Str) (p : Bool) (rest : Str), g ≠ [] → ':' ∉ g →
    countDCaux p (g ++ rest) = countDCaux false rest := by
  intro g
  induction g with
  | nil => intro p rest h; exact absurd rfl h
  | cons x xs ih =>
    intro p rest _ hm
    have hx : x ≠ ':' := fun e => hm (by simp [e])
    rw [List.cons_append, countDCaux, if_neg hx]
    cases xs with
    | nil => rfl
    | cons y ys => exact ih false rest (by simp) (fun h => hm (by simp [h]))

theorem countDCaux_join : ∀ (gs : List Str) (p : Bool) (rest : Str), (∀ g ∈ gs, g ≠ [] ∧ ':' ∉ g) → gs ≠ [] →
    countDCaux p (joinWith ':' gs ++ rest) = countDCaux false rest := by
  intro gs
  induction gs with
  | nil => intro p rest _ h; exact absurd rfl h
  | cons g gs ih =>
    intro p rest h _
    have hg := h g (by simp)
    cases gs with
    | nil => rw [joinWith_single]; exact countDCaux_skip g p rest hg.1 hg.2
    | cons g' gs' =>
      rw [joinWith_cons_cons, List.append_assoc, countDCaux_skip g p _ hg.1 hg.2, List.cons_append, countDCaux]
      simp only [if_true, Bool.false_eq_true, if_false]
      exact ih true rest (fun x hx => h x (by simp [hx])) (by simp)

theorem countDC_join (gs : List Str) (h : ∀ g ∈ gs, g ≠ [] ∧ ':' ∉ g) : countDC (joinWith ':' gs) = 0 := by
  unfold countDC
  by_cases hn : gs = []
  · subst hn; rfl
  · have := countDCaux_join gs false [] h hn
    rw [List.append_nil] at this
    rw [this]; rfl

theorem countDC_join_dc (L R : List Str) (hL : ∀ g ∈ L, g ≠ [] ∧ ':' ∉ g) (hR : ∀ g ∈ R, g ≠ [] ∧ ':' ∉ g) :
    countDC (joinWith ':' L ++ ':' :: ':' :: joinWith ':' R) = 1 := by
  unfold countDC
  have hr : countDCaux false (joinWith ':' R) = 0 := countDC_join R hR
  have tail : countDCaux false (':' :: ':' :: joinWith ':' R) = 1 := by
    simp [countDCaux, hr]
  by_cases hn : L = []
  · subst hn; exact tail
  · rw [countDCaux_join L false _ hL hn]; exact tail

/-! ### `rsplit(c, 1)` -/

theorem rsplit1_append (c : Char) (a b : Str) (hb : c ∉ b) : rsplit1 c (a ++ c :: b) = some (a, b) := by
  unfold rsplit1
  have hr : (a ++ c :: b).reverse = b.reverse ++ c :: a.reverse := by simp
  have hall : ∀ x ∈ b.reverse, (x != c) = true := by
    intro x hx
    have : x ∈ b := List.mem_reverse.mp hx
    simp only [bne_iff_ne, ne_eq]
    intro e; subst e; exact hb this
  have hd : (b.reverse ++ c :: a.reverse).dropWhile (· != c) = c :: a.reverse := by
    rw [List.dropWhile_append_of_pos hall]
    simp
  have ht : (b.reverse ++ c :: a.reverse).takeWhile (· != c) = b.reverse := by
    rw [List.takeWhile_append_of_pos hall]
    simp
  simp only [hr, hd, ht, List.reverse_reverse]

theorem rsplit1_none (c : Char) (a : Str) (ha : c ∉ a) : rsplit1 c a = none := by
  unfold rsplit1
  have hall : ∀ x ∈ a.reverse, (x != c) = true := by
    intro x hx
    have : x ∈ a := List.mem_reverse.mp hx
    simp only [bne_iff_ne, ne_eq]
    intro e; subst e; exact ha this
  have : a.reverse.dropWhile (· != c) = [] := by
    have h := List.dropWhile_append_of_pos (l₂ := ([] : Str)) hall
    simpa using h
  simp only [this]

end Pox.Addr
