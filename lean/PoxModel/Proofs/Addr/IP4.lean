import PoxModel.Model.Addr
/-! C16 helper lemmas, part 2: IPAddr representations (byte orders, signed / unsigned views).  Core only. -/
namespace Pox.Addr

theorem u32_sign32 (n : Nat) (h : n < 2 ^ 32) : u32 (sign32 n) = n := by
  unfold u32 sign32
  split <;> omega

theorem sign32_u32 (v : Int) (h1 : -2 ^ 31 ≤ v) (h2 : v < 2 ^ 31) : sign32 (u32 v) = v := by
  unfold u32 sign32
  split <;> omega

theorem u32_lt (v : Int) : u32 v < 2 ^ 32 := by
  unfold u32; omega

theorem sign32_range (n : Nat) (h : n < 2 ^ 32) : -2 ^ 31 ≤ sign32 n ∧ sign32 n < 2 ^ 31 := by
  unfold sign32; split <;> omega

theorem u8 (x : Nat) (h : x < 256) : (UInt8.ofNat x).toNat = x := by
  simp [UInt8.toNat_ofNat, Nat.mod_eq_of_lt h]

theorem beDec4 (a b c d : UInt8) :
    beDec [a, b, c, d] = a.toNat * 16777216 + b.toNat * 65536 + c.toNat * 256 + d.toNat := by
  simp [beDec]; omega

theorem bswap32_eq (n : Nat) :
    bswap32 n = n % 256 * 16777216 + n / 256 % 256 * 65536 + n / 65536 % 256 * 256 + n / 16777216 % 256 := by
  unfold bswap32 leEnc32
  rw [beDec4, u8 _ (Nat.mod_lt _ (by decide)), u8 _ (Nat.mod_lt _ (by decide)), u8 _ (Nat.mod_lt _ (by decide)),
    u8 _ (Nat.mod_lt _ (by decide))]

theorem bswap32_lt (n : Nat) : bswap32 n < 2 ^ 32 := by
  rw [bswap32_eq]; omega

theorem bytes4 (b0 b1 b2 b3 : Nat) (h0 : b0 < 256) (h1 : b1 < 256) (h2 : b2 < 256) (h3 : b3 < 256) :
    (b0 + b1 * 256 + b2 * 65536 + b3 * 16777216) % 256 = b0 ∧
    (b0 + b1 * 256 + b2 * 65536 + b3 * 16777216) / 256 % 256 = b1 ∧
    (b0 + b1 * 256 + b2 * 65536 + b3 * 16777216) / 65536 % 256 = b2 ∧
    (b0 + b1 * 256 + b2 * 65536 + b3 * 16777216) / 16777216 % 256 = b3 := by
  refine ⟨by omega, by omega, by omega, by omega⟩

theorem bytes4_decomp (n : Nat) (h : n < 2 ^ 32) :
    n = n % 256 + n / 256 % 256 * 256 + n / 65536 % 256 * 65536 + n / 16777216 % 256 * 16777216 := by
  have h1 : n / 65536 = n / 256 / 256 := by rw [Nat.div_div_eq_div_mul]
  have h2 : n / 16777216 = n / 256 / 256 / 256 := by rw [Nat.div_div_eq_div_mul, Nat.div_div_eq_div_mul]
  rw [h1, h2]
  omega

theorem bswap32_bswap32 (n : Nat) (h : n < 2 ^ 32) : bswap32 (bswap32 n) = n := by
  have hd := bytes4_decomp n h
  have m0 : n % 256 < 256 := Nat.mod_lt _ (by decide)
  have m1 : n / 256 % 256 < 256 := Nat.mod_lt _ (by decide)
  have m2 : n / 65536 % 256 < 256 := Nat.mod_lt _ (by decide)
  have m3 : n / 16777216 % 256 < 256 := Nat.mod_lt _ (by decide)
  rw [bswap32_eq n]
  generalize n % 256 = b0 at *
  generalize n / 256 % 256 = b1 at *
  generalize n / 65536 % 256 = b2 at *
  generalize n / 16777216 % 256 = b3 at *
  have e : b0 * 16777216 + b1 * 65536 + b2 * 256 + b3 = b3 + b2 * 256 + b1 * 65536 + b0 * 16777216 := by omega
  rw [e, bswap32_eq]
  obtain ⟨e0, e1, e2, e3⟩ := bytes4 b3 b2 b1 b0 m3 m2 m1 m0
  rw [e0, e1, e2, e3]
  clear e0 e1 e2 e3 e
  omega

theorem u32_cast (n : Nat) (h : n < 2 ^ 32) : u32 (n : Int) = n := by
  unfold u32; omega

theorem leDec32_4 (a b c d : UInt8) :
    leDec32 [a, b, c, d] = a.toNat + b.toNat * 256 + c.toNat * 65536 + d.toNat * 16777216 := by
  unfold leDec32
  simp only [List.reverse_cons, List.reverse_nil, List.nil_append, List.cons_append]
  rw [beDec4]; omega

theorem leDec32_lt (a b c d : UInt8) : leDec32 [a, b, c, d] < 2 ^ 32 := by
  rw [leDec32_4]
  have := a.toNat_lt; have := b.toNat_lt; have := c.toNat_lt; have := d.toNat_lt
  omega

theorem leEnc32_leDec32 (a b c d : UInt8) : leEnc32 (leDec32 [a, b, c, d]) = [a, b, c, d] := by
  rw [leDec32_4]
  unfold leEnc32
  have ha := a.toNat_lt; have hb := b.toNat_lt; have hc := c.toNat_lt; have hd := d.toNat_lt
  obtain ⟨e0, e1, e2, e3⟩ := bytes4 a.toNat b.toNat c.toNat d.toNat ha hb hc hd
  rw [e0, e1, e2, e3]
  simp

theorem leDec32_leEnc32 (n : Nat) (h : n < 2 ^ 32) : leDec32 (leEnc32 n) = n := by
  unfold leEnc32
  rw [leDec32_4, u8 _ (Nat.mod_lt _ (by decide)), u8 _ (Nat.mod_lt _ (by decide)), u8 _ (Nat.mod_lt _ (by decide)),
    u8 _ (Nat.mod_lt _ (by decide))]
  exact (bytes4_decomp n h).symm

/-- big-endian (network order, "host view" of the API) reading of the raw bytes -/
theorem beDec_leEnc32 (n : Nat) : beDec (leEnc32 n) = bswap32 n := rfl

/-- the class invariant: `_value` is a signed 32-bit integer -/
def IP4.Valid (x : IP4) : Prop := -2 ^ 31 ≤ x.value ∧ x.value < 2 ^ 31

theorem IP4.ofInt_valid (a : Int) (o : Bool) : (IP4.ofInt a o).Valid := by
  unfold IP4.ofInt IP4.Valid
  cases o
  · exact sign32_range _ (bswap32_lt _)
  · exact sign32_range _ (u32_lt _)

theorem IP4.ext' {x y : IP4} (h : x.value = y.value) : x = y := by
  cases x; cases y; simp_all

theorem IP4.ofInt_toUnsigned (x : IP4) (hx : x.Valid) (o : Bool) : IP4.ofInt (x.toUnsigned o) o = x := by
  apply IP4.ext'
  unfold IP4.ofInt IP4.toUnsigned
  have hu : u32 x.value < 2 ^ 32 := u32_lt _
  cases o
  · have e : u32 ((bswap32 (u32 x.value) : Nat) : Int) = bswap32 (u32 x.value) := u32_cast _ (bswap32_lt _)
    simp only [Bool.false_eq_true, if_false, e]
    rw [bswap32_bswap32 _ hu]
    exact sign32_u32 _ hx.1 hx.2
  · have e : u32 ((u32 x.value : Nat) : Int) = u32 x.value := u32_cast _ hu
    simp only [if_true, e]
    exact sign32_u32 _ hx.1 hx.2

theorem IP4.ofInt_toSigned (x : IP4) (hx : x.Valid) (o : Bool) : IP4.ofInt (x.toSigned o) o = x := by
  apply IP4.ext'
  unfold IP4.ofInt IP4.toSigned
  have hu : u32 x.value < 2 ^ 32 := u32_lt _
  cases o
  · simp only [Bool.false_eq_true, if_false]
    rw [u32_sign32 _ (bswap32_lt _), bswap32_bswap32 _ hu]
    exact sign32_u32 _ hx.1 hx.2
  · simp only [if_true]
    exact sign32_u32 _ hx.1 hx.2

theorem IP4.toSigned_eq (x : IP4) (hx : x.Valid) (o : Bool) : x.toSigned o = sign32 (x.toUnsigned o) := by
  unfold IP4.toSigned IP4.toUnsigned
  cases o
  · simp
  · simp only [if_true]; exact (sign32_u32 _ hx.1 hx.2).symm

theorem IP4.toUnsigned_lt (x : IP4) (o : Bool) : x.toUnsigned o < 2 ^ 32 := by
  unfold IP4.toUnsigned
  cases o
  · exact bswap32_lt _
  · exact u32_lt _

theorem IP4.raw_length (x : IP4) : x.raw.length = 4 := rfl

theorem IP4.ofRaw_raw (x : IP4) (hx : x.Valid) : IP4.ofRaw x.raw = .ok x := by
  unfold IP4.ofRaw
  rw [if_pos (IP4.raw_length x)]
  unfold IP4.raw
  rw [leDec32_leEnc32 _ (u32_lt _), sign32_u32 _ hx.1 hx.2]

theorem IP4.raw_ofRaw (a b c d : UInt8) :
    ∃ x, IP4.ofRaw [a, b, c, d] = .ok x ∧ x.Valid ∧ x.raw = [a, b, c, d] := by
  refine ⟨⟨sign32 (leDec32 [a, b, c, d])⟩, by simp [IP4.ofRaw], sign32_range _ (leDec32_lt a b c d), ?_⟩
  unfold IP4.raw
  rw [u32_sign32 _ (leDec32_lt a b c d), leEnc32_leDec32]

/-- host-order view = big-endian number of the raw bytes; network-order view = little-endian number of them -/
theorem IP4.toUnsigned_raw (x : IP4) : x.toUnsigned false = beDec x.raw ∧ x.toUnsigned true = leDec32 x.raw := by
  unfold IP4.toUnsigned IP4.raw
  refine ⟨rfl, ?_⟩
  simp only [if_true]
  exact (leDec32_leEnc32 _ (u32_lt _)).symm

/-- `ofInt v false` then `toUnsigned false` is the identity on 32-bit values (what `cidr_to_netmask` → `netmask_to_cidr` does) -/
theorem IP4.toUnsigned_ofInt (v : Nat) (hv : v < 2 ^ 32) (o : Bool) : (IP4.ofInt v o).toUnsigned o = v := by
  unfold IP4.ofInt IP4.toUnsigned
  have e : u32 ((v : Nat) : Int) = v := u32_cast _ hv
  cases o
  · simp only [Bool.false_eq_true, if_false, e]
    rw [u32_sign32 _ (bswap32_lt _), bswap32_bswap32 _ hv]
  · simp only [if_true, e]
    rw [u32_sign32 _ hv]

end Pox.Addr
