import PoxModel.Model.Addr
/-! C16: RFC 4291 §2.2 text representation of IPv6 addresses, transcribed as a checker that shares nothing with the
parser of the model except `splitOn` and the canonical dotted-quad recogniser (`inetAton`).  Used only to *state*
"malformed input is rejected" (`ip6_rejects_full`) and its counterexamples.  Core only.

Forms: (1) `x:x:x:x:x:x:x:x`, each `x` one to four hex digits; (2) one `::` standing for one or more zero groups;
(3) the last 32 bits may be written `d.d.d.d`. -/
namespace Pox.Addr

def isHexGroup (s : Str) : Bool := decide (1 ≤ s.length) && decide (s.length ≤ 4) && s.all fun c => decide (digitVal c < 16)

def isQuad (s : Str) : Bool :=
  match inetAton s with
  | .ok _ => true
  | .error _ => false

/-- number of 16-bit groups a list of colon-separated fields denotes; with `v4` the last one may be a dotted quad -/
def groupsOf : List Str → Bool → Option Nat
  | [], _ => some 0
  | p :: ps, v4 =>
    match ps with
    | [] => if isHexGroup p then some 1 else if v4 && isQuad p then some 2 else none
    | _ :: _ => if isHexGroup p then (groupsOf ps v4).map (· + 1) else none

def countGroups (s : Str) (v4 : Bool) : Option Nat := if s.isEmpty then some 0 else groupsOf (splitOn ':' s) v4

/-- split at the first `::` -/
def splitDC : Str → Option (Str × Str)
  | [] => none
  | a :: t =>
    match t with
    | [] => none
    | b :: r => if a = ':' ∧ b = ':' then some ([], r) else (splitDC t).map fun p => (a :: p.1, p.2)

def rfc4291 (s : Str) : Bool :=
  match splitDC s with
  | none => countGroups s true == some 8
  | some (l, r) =>
    (splitDC r).isNone && !(r.head? == some ':') &&
    match countGroups l false, countGroups r true with
    | some a, some b => decide (a + b ≤ 7)
    | _, _ => false

end Pox.Addr
