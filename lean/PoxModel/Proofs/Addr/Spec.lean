import PoxModel.Model.Addr
/-! C16: RFC 4291 §2.2 text representation of IPv6 addresses, transcribed as a *denotation*: `denote6 s` is the 16 bytes
the text `s` stands for, `none` when `s` is not an address text.  It shares nothing with the parser of the model except
`splitOn`, the canonical dotted-quad recogniser (`inetAton`, itself a specification: libc is outside POX) and the
big-endian 16-bit split `groupBytes`.  Core only.

Forms: (1) `x:x:x:x:x:x:x:x`, each `x` one to four hex digits (either case, leading zeros allowed); (2) one `::` standing
for one or more zero groups, anywhere including the ends; (3) the last 32 bits may be written `d.d.d.d`. -/
namespace Pox.Addr

def isHexGroup (s : Str) : Bool := decide (1 ≤ s.length) && decide (s.length ≤ 4) && s.all fun c => decide (digitVal c < 16)

/-- value of a hex field -/
def groupVal (s : Str) : Nat := s.foldl (fun a c => a * 16 + digitVal c) 0

/-- the two 16-bit groups a canonical dotted quad denotes -/
def quadGroups (s : Str) : Option (List Nat) :=
  match inetAton s with
  | .ok [a, b, c, d] => some [a.toNat * 256 + b.toNat, c.toNat * 256 + d.toNat]
  | _ => none

/-- the 16-bit groups a list of colon-separated fields denotes; with `v4` the last field may be a dotted quad -/
def fieldVals : List Str → Bool → Option (List Nat)
  | [], _ => some []
  | p :: ps, v4 =>
    match ps with
    | [] => if isHexGroup p then some [groupVal p] else if v4 then quadGroups p else none
    | _ :: _ => if isHexGroup p then (fieldVals ps v4).map (groupVal p :: ·) else none

/-- groups of one side of `::` (or of the whole text): the empty text denotes no group -/
def listVals (s : Str) (v4 : Bool) : Option (List Nat) := if s.isEmpty then some [] else fieldVals (splitOn ':' s) v4

/-- split at the first `::` -/
def splitDC : Str → Option (Str × Str)
  | [] => none
  | a :: t =>
    match t with
    | [] => none
    | b :: r => if a = ':' ∧ b = ':' then some ([], r) else (splitDC t).map fun p => (a :: p.1, p.2)

/-- the address a text denotes -/
def denote6 (s : Str) : Option Bytes :=
  match splitDC s with
  | none =>
    match listVals s true with
    | some gs => if gs.length = 8 then some (groupBytes gs) else none
    | none => none
  | some (l, r) =>
    match listVals l false, listVals r true with
    | some a, some b =>
      if a.length + b.length ≤ 7 then some (groupBytes (a ++ List.replicate (8 - a.length - b.length) 0 ++ b)) else none
    | _, _ => none

def rfc4291 (s : Str) : Bool := (denote6 s).isSome

/-- the valid texts `IPAddr6` refuses (its `len(segs) > 8` test): `::` at the very start or the very end standing for a
    single group, i.e. seven explicit groups (a dotted quad counts for two) -/
def unsupported6 (s : Str) : Bool :=
  match splitDC s with
  | none => false
  | some (l, r) =>
    match listVals l false, listVals r true with
    | some a, some b => (l.isEmpty || r.isEmpty) && a.length + b.length == 7
    | _, _ => false

/-! ## Ethernet address texts (the forms the `EthAddr` docstring and comments name) -/

def isHexDigit (c : Char) : Bool := decide (digitVal c < 16)
def pairVal (h l : Char) : UInt8 := UInt8.ofNat (digitVal h * 16 + digitVal l)

/-- the six bytes an Ethernet address text denotes: six raw characters; twelve hex digits; `xx:xx:xx:xx:xx:xx` or
    `xx-xx-xx-xx-xx-xx`; `x:x:x:x:x:x` with one or two hex digits per field -/
def ethDenote (s : Str) : Option Bytes :=
  if s.length = 6 then some (s.map fun c => UInt8.ofNat c.toNat)
  else match s with
    | [h0, l0, h1, l1, h2, l2, h3, l3, h4, l4, h5, l5] =>
      if [h0, l0, h1, l1, h2, l2, h3, l3, h4, l4, h5, l5].all isHexDigit then
        some [pairVal h0 l0, pairVal h1 l1, pairVal h2 l2, pairVal h3 l3, pairVal h4 l4, pairVal h5 l5]
      else looseDenote s
    | [h0, l0, s0, h1, l1, s1, h2, l2, s2, h3, l3, s3, h4, l4, s4, h5, l5] =>
      if [h0, l0, h1, l1, h2, l2, h3, l3, h4, l4, h5, l5].all isHexDigit ∧
          ([s0, s1, s2, s3, s4] = [':', ':', ':', ':', ':'] ∨ [s0, s1, s2, s3, s4] = ['-', '-', '-', '-', '-']) then
        some [pairVal h0 l0, pairVal h1 l1, pairVal h2 l2, pairVal h3 l3, pairVal h4 l4, pairVal h5 l5]
      else none
    | _ => looseDenote s
where
  looseDenote (s : Str) : Option Bytes :=
    let ps := splitOn ':' s
    if ps.length = 6 ∧ ps.all (fun p => (decide (p.length = 1) || decide (p.length = 2)) && p.all isHexDigit) then
      some (ps.map fun p => UInt8.ofNat (groupVal p))
    else none

/-- the valid text `EthAddr` refuses: a loose form that is exactly twelve characters long -/
def ethUnsupported (s : Str) : Bool := decide (s.length = 12) && s.any (· == ':')

end Pox.Addr
