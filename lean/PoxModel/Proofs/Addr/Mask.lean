import PoxModel.Model.Addr
/-! C16 helper lemmas, part 1: the netmask loop (width-generic) and network membership.  Core only. -/
namespace Pox.Addr

/-! ### mask loop -/

theorem and_two_pow_ne_zero (v k : Nat) : (v &&& 2 ^ k ≠ 0) ↔ v.testBit k = true := by
  constructor
  · intro h
    apply Classical.byContradiction
    intro hb
    apply h
    apply Nat.eq_of_testBit_eq
    intro i
    simp only [Nat.testBit_and, Nat.testBit_two_pow, Nat.zero_testBit]
    have hb' : v.testBit k = false := by simpa using hb
    by_cases hki : k = i
    · subst hki; simp [hb']
    · simp [hki]
  · intro hb h0
    have : (v &&& 2 ^ k).testBit k = true := by
      simp [Nat.testBit_and, hb]
    rw [h0] at this
    simp at this

theorem testBit_top (v k : Nat) : v.testBit k = true ↔ 2 ^ k ≤ v % 2 ^ (k + 1) := by
  rw [Nat.testBit_eq_decide_div_mod_eq, decide_eq_true_iff, Nat.pow_succ, Nat.mod_mul]
  have h1 : v % 2 ^ k < 2 ^ k := Nat.mod_lt _ (Nat.pow_pos (by decide))
  have h2 : v / 2 ^ k % 2 < 2 := Nat.mod_lt _ (by decide)
  generalize v / 2 ^ k % 2 = q at *
  generalize v % 2 ^ k = r at *
  generalize 2 ^ k = p at *
  constructor
  · intro h; subst h; omega
  · intro h
    rcases Nat.lt_or_ge q 1 with hq | hq
    · have : q = 0 := by omega
      subst this; omega
    · omega

/-- the loop on the value truncated to `w` bits: `H = 2^(w-1)`, `2H = 2^w` -/
def tloop (H : Nat) : Nat → Nat → Nat → Option (Nat × Nat)
  | 0, _, _ => none
  | f+1, u, c => if H ≤ u then tloop H f (2 * u - 2 * H) (c + 1) else some (u, c)

theorem leadLoop_trunc (w : Nat) (hw : 1 ≤ w) : ∀ f v c,
    (leadLoop w f v c).map (fun p => (p.1 % 2 ^ w, p.2)) = tloop (2 ^ (w - 1)) f (v % 2 ^ w) c := by
  obtain ⟨k, rfl⟩ : ∃ k, w = k + 1 := ⟨w - 1, by omega⟩
  intro f
  induction f with
  | zero => intro v c; rfl
  | succ f ih =>
    intro v c
    simp only [leadLoop, tloop, Nat.add_sub_cancel, Nat.one_shiftLeft]
    have hb := and_two_pow_ne_zero v k
    have ht := testBit_top v k
    by_cases hc : v &&& 2 ^ k ≠ 0
    · have hle : 2 ^ k ≤ v % 2 ^ (k + 1) := ht.mp (hb.mp hc)
      rw [if_pos hc, if_pos hle, ih]
      congr 1
      have hlt : v % 2 ^ (k + 1) < 2 ^ (k + 1) := Nat.mod_lt _ (Nat.pow_pos (by decide))
      rw [Nat.shiftLeft_eq, Nat.pow_one, ← Nat.mod_mul_mod]
      rw [Nat.pow_succ] at *
      have hp : 0 < 2 ^ k := Nat.pow_pos (by decide)
      generalize v % (2 ^ k * 2) = r at *
      generalize 2 ^ k = p at *
      rw [Nat.mod_eq_sub_mod (by omega), Nat.mod_eq_of_lt (by omega)]
      omega
    · have hnle : ¬ 2 ^ k ≤ v % 2 ^ (k + 1) := fun h => hc (hb.mpr (ht.mpr h))
      rw [if_neg hc, if_neg hnle]
      rfl

theorem tloop_mask (w : Nat) (hw : 1 ≤ w) : ∀ b f c, b ≤ w → b + 1 ≤ f →
    tloop (2 ^ (w - 1)) f (2 ^ w - 2 ^ (w - b)) c = some (0, c + b) := by
  intro b
  induction b with
  | zero =>
    intro f c _ hf
    obtain ⟨f, rfl⟩ : ∃ f', f = f' + 1 := ⟨f - 1, by omega⟩
    have hp : 0 < 2 ^ (w - 1) := Nat.pow_pos (by decide)
    simp only [tloop, Nat.sub_zero, Nat.sub_self, Nat.add_zero]
    rw [if_neg (by omega)]
  | succ b ih =>
    intro f c hb hf
    obtain ⟨f, rfl⟩ : ∃ f', f = f' + 1 := ⟨f - 1, by omega⟩
    have e1 : 2 ^ (w - b) = 2 * 2 ^ (w - (b + 1)) := by
      have : w - b = (w - (b + 1)) + 1 := by omega
      rw [this, Nat.pow_succ, Nat.mul_comm]
    have e2 : 2 ^ w = 2 * 2 ^ (w - 1) := by
      have : w = (w - 1) + 1 := by omega
      rw [this, Nat.pow_succ, Nat.mul_comm]; simp
    have e3 : 2 ^ (w - (b + 1)) ≤ 2 ^ (w - 1) := Nat.pow_le_pow_right (by decide) (by omega)
    have hp : 0 < 2 ^ (w - (b + 1)) := Nat.pow_pos (by decide)
    simp only [tloop]
    rw [if_pos (by omega)]
    have : 2 * (2 ^ w - 2 ^ (w - (b + 1))) - 2 * 2 ^ (w - 1) = 2 ^ w - 2 ^ (w - b) := by omega
    rw [this, ih f (c + 1) (by omega) (by omega)]
    congr 2; omega

theorem tloop_zero_inv (w : Nat) (hw : 1 ≤ w) : ∀ f u c c', u < 2 ^ w →
    tloop (2 ^ (w - 1)) f u c = some (0, c') → ∃ b, b ≤ w ∧ c' = c + b ∧ u = 2 ^ w - 2 ^ (w - b) := by
  have e2 : 2 ^ w = 2 * 2 ^ (w - 1) := by
    have : w = (w - 1) + 1 := by omega
    rw [this, Nat.pow_succ, Nat.mul_comm]; simp
  intro f
  induction f with
  | zero => intro u c c' _ h; simp [tloop] at h
  | succ f ih =>
    intro u c c' hu h
    simp only [tloop] at h
    by_cases hc : 2 ^ (w - 1) ≤ u
    · rw [if_pos hc] at h
      obtain ⟨b, hb, hc', hu'⟩ := ih _ _ _ (by omega) h
      have hbw : b < w := by
        rcases Nat.lt_or_ge b w with h1 | h1
        · exact h1
        · have : w - b = 0 := by omega
          rw [this] at hu'
          omega
      refine ⟨b + 1, by omega, by omega, ?_⟩
      have e1 : 2 ^ (w - b) = 2 * 2 ^ (w - (b + 1)) := by
        have : w - b = (w - (b + 1)) + 1 := by omega
        rw [this, Nat.pow_succ, Nat.mul_comm]
      have e3 : 2 ^ (w - (b + 1)) ≤ 2 ^ (w - 1) := Nat.pow_le_pow_right (by decide) (by omega)
      omega
    · rw [if_neg hc] at h
      simp only [Option.some.injEq, Prod.mk.injEq] at h
      exact ⟨0, by omega, by omega, by simp [h.1]⟩

theorem tloop_fuel (w : Nat) (hw : 1 ≤ w) : ∀ f k u c, w + 1 ≤ k + f → k ≤ w → u < 2 ^ w → (∃ m, u = 2 ^ k * m) →
    tloop (2 ^ (w - 1)) f u c ≠ none := by
  have e2 : 2 ^ w = 2 * 2 ^ (w - 1) := by
    have : w = (w - 1) + 1 := by omega
    rw [this, Nat.pow_succ, Nat.mul_comm]; simp
  intro f
  induction f with
  | zero => intro k u c h1 h2; omega
  | succ f ih =>
    intro k u c h1 h2 hu ⟨m, hm⟩
    simp only [tloop]
    by_cases hc : 2 ^ (w - 1) ≤ u
    · rw [if_pos hc]
      have hp : 0 < 2 ^ (w - 1) := Nat.pow_pos (by decide)
      have hkw : k < w := by
        rcases Nat.lt_or_ge k w with h | h
        · exact h
        · have : k = w := by omega
          subst this
          have : m = 0 := by
            rcases Nat.eq_zero_or_pos m with h0 | h0
            · exact h0
            · have : 2 ^ k * 1 ≤ 2 ^ k * m := Nat.mul_le_mul_left _ h0
              omega
          subst this; omega
      apply ih (k + 1) _ _ (by omega) (by omega) (by omega)
      refine ⟨m - 2 ^ (w - (k + 1)), ?_⟩
      have : 2 ^ w = 2 ^ (k + 1) * 2 ^ (w - (k + 1)) := by
        rw [← Nat.pow_add]; congr 1; omega
      rw [Nat.mul_sub, ← this, Nat.pow_succ, hm]
      have : 2 ^ k * 2 * m = 2 * (2 ^ k * m) := by
        rw [Nat.mul_comm (2 ^ k) 2, Nat.mul_assoc]
      omega
    · rw [if_neg hc]; simp


theorem two_pow_split (w b : Nat) (hb : b ≤ w) : 2 ^ w = 2 ^ b * 2 ^ (w - b) := by
  rw [← Nat.pow_add]; congr 1; omega

theorem cidrMaskN_eq (w b : Nat) (hb : b ≤ w) : cidrMaskN w b = .ok (2 ^ w - 2 ^ (w - b)) := by
  unfold cidrMaskN
  rw [if_neg (by omega)]
  congr 1
  rw [Nat.shiftLeft_eq, Nat.one_shiftLeft, Nat.sub_mul, Nat.one_mul, ← two_pow_split w b hb]

theorem cidrMaskN_err (w b : Nat) (hb : w < b) : cidrMaskN w b = .error .value := by
  unfold cidrMaskN; rw [if_pos hb]

theorem mask_lt (w b : Nat) : 2 ^ w - 2 ^ (w - b) < 2 ^ w := by
  have h1 : 0 < 2 ^ (w - b) := Nat.pow_pos (by decide)
  have h2 : 0 < 2 ^ w := Nat.pow_pos (by decide)
  omega

theorem leadLoop_some (w : Nat) (hw : 1 ≤ w) (v : Nat) (hv : v < 2 ^ w) :
    ∃ v' c, leadLoop w (w + 1) v 0 = some (v', c) ∧ tloop (2 ^ (w - 1)) (w + 1) v 0 = some (v' % 2 ^ w, c) := by
  have h := leadLoop_trunc w hw (w + 1) v 0
  rw [Nat.mod_eq_of_lt hv] at h
  cases hl : leadLoop w (w + 1) v 0 with
  | none =>
    rw [hl] at h
    exact absurd h.symm (tloop_fuel w hw (w + 1) 0 v 0 (by omega) (by omega) hv ⟨v, by simp⟩)
  | some p =>
    rw [hl] at h
    exact ⟨p.1, p.2, rfl, h.symm⟩

theorem netmaskToCidrN_spec (w : Nat) (hw : 1 ≤ w) (v : Nat) (hv : v < 2 ^ w) (c : Nat) :
    netmaskToCidrN w v = .ok c ↔ c ≤ w ∧ v = 2 ^ w - 2 ^ (w - c) := by
  obtain ⟨v', c', hl, ht⟩ := leadLoop_some w hw v hv
  unfold netmaskToCidrN
  rw [hl]
  simp only [Nat.and_two_pow_sub_one_eq_mod]
  constructor
  · intro h
    by_cases hz : v' % 2 ^ w ≠ 0
    · rw [if_pos hz] at h; cases h
    · rw [if_neg hz] at h
      have hz' : v' % 2 ^ w = 0 := by omega
      rw [hz'] at ht
      obtain ⟨b, hb, hc, hvb⟩ := tloop_zero_inv w hw _ _ _ _ hv ht
      have : c' = c := by injection h
      subst this
      have : b = c' := by omega
      subst this
      exact ⟨hb, hvb⟩
  · intro ⟨hc, hvc⟩
    have := tloop_mask w hw c (w + 1) 0 hc (by omega)
    rw [← hvc, ht] at this
    simp only [Option.some.injEq, Prod.mk.injEq, Nat.zero_add] at this
    rw [if_neg (by omega), this.2]

theorem netmaskToCidrN_reject (w : Nat) (hw : 1 ≤ w) (v : Nat) (hv : v < 2 ^ w)
    (hn : ¬ ∃ b, b ≤ w ∧ v = 2 ^ w - 2 ^ (w - b)) : netmaskToCidrN w v = .error .runtime := by
  obtain ⟨v', c', hl, ht⟩ := leadLoop_some w hw v hv
  have hs := netmaskToCidrN_spec w hw v hv c'
  unfold netmaskToCidrN at hs ⊢
  rw [hl] at hs ⊢
  dsimp only at hs ⊢
  by_cases hz : v' &&& (2 ^ w - 1) ≠ 0
  · rw [if_pos hz]
  · rw [if_neg hz] at hs
    exact absurd ⟨c', hs.mp rfl⟩ hn

/-- the variant of the loop test used inside `parse_cidr` accepts exactly the same masks -/
theorem maskBits_eq (w : Nat) (hw : 1 ≤ w) (v : Nat) (hv : v < 2 ^ w) : maskBits w v = netmaskToCidrN w v := by
  obtain ⟨v', c', hl, ht⟩ := leadLoop_some w hw v hv
  unfold maskBits netmaskToCidrN
  rw [hl]
  simp only [Nat.and_two_pow_sub_one_eq_mod]
  -- after the loop the top bit of the truncated value is clear
  have hlt : v' % 2 ^ w < 2 ^ (w - 1) := by
    have : ∀ f u c u' c', tloop (2 ^ (w - 1)) f u c = some (u', c') → u' < 2 ^ (w - 1) := by
      intro f
      induction f with
      | zero => intro u c u' c' h; simp [tloop] at h
      | succ f ih =>
        intro u c u' c' h
        simp only [tloop] at h
        by_cases hc : 2 ^ (w - 1) ≤ u
        · rw [if_pos hc] at h; exact ih _ _ _ _ h
        · rw [if_neg hc] at h
          simp only [Option.some.injEq, Prod.mk.injEq] at h
          omega
    exact this _ _ _ _ _ ht
  have e2 : 2 ^ w = 2 ^ (w - 1) * 2 := by
    have : w = (w - 1) + 1 := by omega
    rw [this, Nat.pow_succ]; simp
  have : v' % 2 ^ (w - 1) = v' % 2 ^ w := by
    have h := Nat.mod_mul_left_mod v' 2 (2 ^ (w - 1))
    rw [Nat.mul_comm] at h
    rw [e2, ← h]
    rw [e2] at hlt
    exact Nat.mod_eq_of_lt hlt
  rw [this]

/-! ### membership -/

theorem inNetworkN_iff (w a n b : Nat) (hb : b ≤ w) :
    inNetworkN w a n b = .ok true ↔ a / 2 ^ (w - b) = n / 2 ^ (w - b) ∧ n % 2 ^ (w - b) = 0 := by
  unfold inNetworkN
  rw [if_neg (by omega)]
  have hp : 0 < 2 ^ (w - b) := Nat.pow_pos (by decide)
  generalize 2 ^ (w - b) = K at *
  have ha := Nat.div_add_mod a K
  have hn := Nat.div_add_mod n K
  have hr : n % K < K := Nat.mod_lt _ hp
  constructor
  · intro h
    have h' : a - a % K = n := by simpa using h
    have e : n = K * (a / K) := by omega
    rw [e, Nat.mul_div_cancel_left _ hp, Nat.mul_mod_right]
    exact ⟨rfl, rfl⟩
  · intro ⟨h1, h2⟩
    have : a - a % K = n := by
      rw [h2] at hn; rw [h1] at ha; omega
    simp [this]

theorem inNetworkN_total (w a n b : Nat) (hb : b ≤ w) : ∃ r, inNetworkN w a n b = .ok r := by
  unfold inNetworkN; rw [if_neg (by omega)]; exact ⟨_, rfl⟩

end Pox.Addr
