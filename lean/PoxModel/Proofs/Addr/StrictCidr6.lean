import PoxModel.Proofs.Addr.StrictCidr
import PoxModel.Proofs.Addr.Strict6
import PoxModel.Proofs.Addr.Canon
/-! C16 helper lemmas, part 19: `IPAddr6.parse_cidr` with both repairs (`fixes/C16_ip6_text.diff`, `fixes/C16_cidr.diff`)
accepts exactly `addr`, `addr/digits` (≤ 128) and `addr/contiguous-netmask`, `addr` and the netmask being RFC 4291 texts.  Core only. -/
namespace Pox.Addr

/-! ### characters of a well-formed IPv6 text -/

theorem side_no_slash {t : Str} {vs : List Nat} (h : Side t vs) : '/' ∉ t := by
  have seg : ∀ ps : Segs, ps.Good → '/' ∉ joinWith ':' ps.strs := by
    intro ps hg hm
    rcases mem_joinWith hm with e | ⟨s, hs, hx⟩
    · exact absurd e (by decide)
    · obtain ⟨p, hp, rfl⟩ := List.mem_map.mp hs
      exact goodHex_no (hg p hp).1 (by rw [dv_slash]; decide) hx
  cases h with
  | hex ps hg hx ht hv => rw [ht]; exact seg ps hg
  | quad ps q b0 b1 b2 b3 hg hx ht hq hdot hcol hv =>
    rw [ht]
    intro hm
    rcases List.mem_append.mp hm with h | h
    · unfold pre at h
      by_cases hn : ps.strs = []
      · rw [if_pos hn] at h; simp at h
      · rw [if_neg hn] at h
        rcases List.mem_append.mp h with h | h
        · exact seg ps hg h
        · simp at h
    · have := (inetAton_iff q _).mp hq
      rw [this.2] at h
      exact dotted_no_slash _ h

theorem denote6_no_slash (t : Str) (a : Bytes) (h : denote6 t = some a) : '/' ∉ t := by
  unfold denote6 at h
  cases hd : splitDC t with
  | none =>
    rw [hd] at h
    cases hv : listVals t true with
    | none => rw [hv] at h; simp at h
    | some gs => exact side_no_slash (side_of_listVals t true gs hv).1
  | some lr =>
    obtain ⟨l, r⟩ := lr
    rw [hd] at h
    simp only at h
    obtain ⟨x, y, hva, hvb, _, _⟩ := denote6_dc_inv _ _ a h
    rw [splitDC_eq t l r hd]
    intro hm
    rcases List.mem_append.mp hm with h | h
    · exact side_no_slash (side_of_listVals l false x hva).1 h
    · simp only [List.mem_cons] at h
      rcases h with h | h | h
      · exact absurd h (by decide)
      · exact absurd h (by decide)
      · exact side_no_slash (side_of_listVals r true y hvb).1 h

theorem groupBytes_length (gs : List Nat) : (groupBytes gs).length = 2 * gs.length := by
  induction gs with
  | nil => rfl
  | cons g t ih => simp [groupBytes] at ih ⊢; omega

theorem denote6_length (t : Str) (a : Bytes) (h : denote6 t = some a) : a.length = 16 := by
  unfold denote6 at h
  cases hd : splitDC t with
  | none =>
    rw [hd] at h
    cases hv : listVals t true with
    | none => rw [hv] at h; simp at h
    | some gs =>
      rw [hv] at h
      simp only at h
      by_cases hl : gs.length = 8
      · rw [if_pos hl] at h; simp only [Option.some.injEq] at h; rw [← h, groupBytes_length, hl]
      · rw [if_neg hl] at h; simp at h
  | some lr =>
    obtain ⟨l, r⟩ := lr
    rw [hd] at h
    simp only at h
    obtain ⟨x, y, _, _, hab, hbs⟩ := denote6_dc_inv _ _ a h
    rw [hbs, groupBytes_length]
    simp; omega

/-- a text of decimal digits only is not an IPv6 address -/
theorem denote6_dec_none (m : Str) (h : isDecStr m = true) : denote6 m = none := by
  obtain ⟨hne, hdig⟩ := isDecStr_spec m h
  have hnc : ':' ∉ m := hdig.not_mem (by rw [dv_colon]; decide)
  have hnd : '.' ∉ m := hdig.not_mem (by rw [dv_dot]; decide)
  unfold denote6
  rw [← partitionDC_eq_splitDC, partitionDC_none_of_nocolon m hnc]
  simp only
  unfold listVals
  have : m.isEmpty = false := by cases m with
    | nil => exact absurd rfl hne
    | cons _ _ => rfl
  rw [this, splitOn_none ':' m hnc]
  simp only [Bool.false_eq_true, if_false, fieldVals]
  by_cases hx : isHexGroup m = true
  · simp [hx]
  · rw [if_neg hx]
    simp only [if_true]
    cases hq : quadGroups m with
    | none => rfl
    | some g =>
      obtain ⟨_, _, _, _, _, _, hdot, _⟩ := quadGroups_some m g hq
      exact absurd hdot hnd

/-! ### the repaired `IPAddr6.parse_cidr` -/

inductive CidrWF6 (s : Str) : Prop
  | plain (a : Bytes) (ha : denote6 s = some a)
  | len (t D : Str) (a : Bytes) (hs : s = t ++ '/' :: D) (ht : denote6 t = some a) (hd : isDecStr D = true)
      (hle : foldDig 10 0 D ≤ 128)
  | mask (t m : Str) (a mb : Bytes) (len : Nat) (hs : s = t ++ '/' :: m) (ht : denote6 t = some a) (hm : denote6 m = some mb)
      (hle : len ≤ 128) (hnum : num6 mb = 2 ^ 128 - 2 ^ (128 - len))

theorem parseCidr6S_wf (s : Str) (allowHost : Bool) (r : Bytes × Nat) (h : parseCidr6SWith parse6S s allowHost = .ok r) : CidrWF6 s := by
  have hj := joinWith_splitOn '/' s
  unfold parseCidr6SWith at h
  split at h
  · rename_i a0 hsp
    rw [hsp, joinWith_single] at hj
    unfold cidr6Plain at h
    obtain ⟨a, ha, _⟩ := bind_ok_inv _ _ _ h
    exact .plain a (by rw [← hj]; exact (parse6S_iff a0 a).mp ha)
  · rename_i a0 a1 hsp
    rw [hsp] at hj
    have hs : s = a0 ++ '/' :: a1 := by rw [← hj]; rfl
    by_cases hd : isDecStr a1 = true
    · rw [if_pos hd] at h
      obtain ⟨hne, hdig⟩ := isDecStr_spec a1 hd
      rw [pyInt_dig 10 (by decide) a1 hdig hne] at h
      simp only at h
      unfold cidr6Len at h
      simp only at h
      by_cases hw : ((128 : Int) - ((foldDig 10 0 a1 : Nat) : Int) < 0 ∨ (128 : Int) - ((foldDig 10 0 a1 : Nat) : Int) > 128)
      · rw [if_pos hw] at h; cases h
      · rw [if_neg hw] at h
        obtain ⟨a, ha, _⟩ := bind_ok_inv _ _ _ h
        exact .len a0 a1 a hs ((parse6S_iff a0 a).mp ha) hd (by omega)
    · rw [if_neg hd] at h
      unfold cidr6Mask at h
      obtain ⟨mb, hm, h⟩ := bind_ok_inv _ _ _ h
      obtain ⟨len, hlen, h⟩ := bind_ok_inv _ _ _ h
      obtain ⟨a, ha, _⟩ := bind_ok_inv _ _ _ h
      have hmd := (parse6S_iff a1 mb).mp hm
      have hlt := num6_lt mb (denote6_length a1 mb hmd)
      rw [maskBits_eq 128 (by decide) _ hlt] at hlen
      have hspec := (netmaskToCidrN_spec 128 (by decide) _ hlt len).mp hlen
      exact .mask a0 a1 a mb len hs ((parse6S_iff a0 a).mp ha) hmd hspec.1 hspec.2
  · cases h

/-- every well-formed text is accepted (with `allow_host`), with the address its left part denotes and the prefix length it states -/
theorem parseCidr6S_accepts (s : Str) (h : CidrWF6 s) :
    (∃ a, denote6 s = some a ∧ parseCidr6SWith parse6S s true = .ok (a, 128)) ∨
    (∃ t D a, s = t ++ '/' :: D ∧ denote6 t = some a ∧ parseCidr6SWith parse6S s true = .ok (a, foldDig 10 0 D)) ∨
    (∃ t m a len, s = t ++ '/' :: m ∧ denote6 t = some a ∧ parseCidr6SWith parse6S s true = .ok (a, len)) := by
  cases h with
  | plain a ha =>
    left
    refine ⟨a, ha, ?_⟩
    unfold parseCidr6SWith cidr6Plain
    rw [splitOn_none '/' s (denote6_no_slash s a ha)]
    simp only
    rw [parse6S_denote s a ha, ok_bind, cidrCheck_eq]
    simp only [Bool.not_true, Bool.false_and, Bool.false_eq_true, if_false]
    rfl
  | len t D a hs ht hd hle =>
    right; left
    refine ⟨t, D, a, hs, ht, ?_⟩
    obtain ⟨hne, hdig⟩ := isDecStr_spec D hd
    unfold parseCidr6SWith cidr6Len
    rw [hs, splitOn_two _ _ (denote6_no_slash t a ht) (dec_no_slash D hdig)]
    simp only [hd, if_true]
    rw [pyInt_dig 10 (by decide) D hdig hne]
    simp only
    rw [if_neg (by omega), parse6S_denote t a ht, ok_bind, cidrCheck_eq]
    simp only [Bool.not_true, Bool.false_and, Bool.false_eq_true, if_false]
    have : 128 - ((128 : Int) - ((foldDig 10 0 D : Nat) : Int)).toNat = foldDig 10 0 D := by omega
    rw [ok_bind, this]; rfl
  | mask t m a mb len hs ht hm hle hnum =>
    right; right
    refine ⟨t, m, a, len, hs, ht, ?_⟩
    have hnd : isDecStr m = false := by
      cases hh : isDecStr m with
      | false => rfl
      | true => rw [denote6_dec_none m hh] at hm; cases hm
    have hlt := num6_lt mb (denote6_length m mb hm)
    have hmask : maskBits 128 (num6 mb) = .ok len := by
      rw [maskBits_eq 128 (by decide) _ hlt]
      exact (netmaskToCidrN_spec 128 (by decide) _ hlt len).mpr ⟨hle, hnum⟩
    unfold parseCidr6SWith cidr6Mask
    rw [hs, splitOn_two _ _ (denote6_no_slash t a ht) (denote6_no_slash m mb hm)]
    simp only [hnd, Bool.false_eq_true, if_false]
    rw [parse6S_denote m mb hm, ok_bind, hmask, ok_bind, parse6S_denote t a ht, ok_bind, cidrCheck_eq]
    simp only [Bool.not_true, Bool.false_and, Bool.false_eq_true, if_false]
    have : 128 - (128 - len) = len := by omega
    rw [ok_bind, this]; rfl

end Pox.Addr

namespace Pox.Addr

/-! ### exact results of the repaired `IPAddr6.parse_cidr`, for every flag value -/

theorem cidr6Len_eq (t : Str) (a : Bytes) (ht : denote6 t = some a) (len : Nat) (allowHost : Bool) :
    cidr6Len parse6S t (len : Int) allowHost = cidrLenResult 128 a (num6 a) len allowHost := by
  unfold cidr6Len cidrLenResult
  simp only
  by_cases hl : len > 128
  · rw [if_pos hl, if_pos (by omega)]
  · rw [if_neg hl, if_neg (by omega), parse6S_denote t a ht, ok_bind]
    have hw : ((128 : Int) - (len : Int)).toNat = 128 - len := by omega
    rw [hw, cidrCheck_eq]
    by_cases hc : (!allowHost && decide (num6 a % 2 ^ (128 - len) ≠ 0)) = true
    · rw [if_pos hc, if_pos hc]; rfl
    · rw [if_neg hc, if_neg hc, ok_bind]
      have : 128 - (128 - len) = len := by omega
      rw [this]; rfl

theorem parseCidr6S_prefixD (t D : Str) (a : Bytes) (ht : denote6 t = some a) (hd : isDecStr D = true) (allowHost : Bool) :
    parseCidr6SWith parse6S (t ++ '/' :: D) allowHost = cidrLenResult 128 a (num6 a) (foldDig 10 0 D) allowHost := by
  obtain ⟨hne, hdig⟩ := isDecStr_spec D hd
  unfold parseCidr6SWith
  rw [splitOn_two _ _ (denote6_no_slash t a ht) (dec_no_slash D hdig)]
  simp only [hd, if_true]
  rw [pyInt_dig 10 (by decide) D hdig hne]
  exact cidr6Len_eq t a ht _ allowHost

theorem parseCidr6S_netmask (t m : Str) (a mb : Bytes) (len : Nat) (ht : denote6 t = some a) (hm : denote6 m = some mb)
    (hle : len ≤ 128) (hnum : num6 mb = 2 ^ 128 - 2 ^ (128 - len)) (allowHost : Bool) :
    parseCidr6SWith parse6S (t ++ '/' :: m) allowHost = cidrLenResult 128 a (num6 a) len allowHost := by
  have hnd : isDecStr m = false := by
    cases hh : isDecStr m with
    | false => rfl
    | true => rw [denote6_dec_none m hh] at hm; cases hm
  have hlt := num6_lt mb (denote6_length m mb hm)
  have hmask : maskBits 128 (num6 mb) = .ok len := by
    rw [maskBits_eq 128 (by decide) _ hlt]
    exact (netmaskToCidrN_spec 128 (by decide) _ hlt len).mpr ⟨hle, hnum⟩
  unfold parseCidr6SWith cidr6Mask cidrLenResult
  rw [splitOn_two _ _ (denote6_no_slash t a ht) (denote6_no_slash m mb hm)]
  simp only [hnd, Bool.false_eq_true, if_false]
  rw [parse6S_denote m mb hm, ok_bind, hmask, ok_bind, parse6S_denote t a ht, ok_bind, cidrCheck_eq, if_neg (show ¬ len > 128 by omega)]
  by_cases hc : (!allowHost && decide (num6 a % 2 ^ (128 - len) ≠ 0)) = true
  · rw [if_pos hc, if_pos hc]; rfl
  · rw [if_neg hc, if_neg hc, ok_bind]
    have : 128 - (128 - len) = len := by omega
    rw [this]; rfl

theorem parseCidr6S_plain (s : Str) (a : Bytes) (ha : denote6 s = some a) (allowHost : Bool) :
    parseCidr6SWith parse6S s allowHost = .ok (a, 128) := by
  unfold parseCidr6SWith cidr6Plain
  rw [splitOn_none '/' s (denote6_no_slash s a ha)]
  simp only
  rw [parse6S_denote s a ha, ok_bind, cidrCheck_eq]
  have : ¬ ((!allowHost && decide (num6 a % 2 ^ 0 ≠ 0)) = true) := by simp [Nat.mod_one]
  rw [if_neg this]; rfl

theorem inNetwork6Text_spec (a : Bytes) (net : Str) (n : Bytes) (len : Nat)
    (hpc : parseCidr6SWith parse6S net false = cidrLenResult 128 n (num6 n) len false) :
    inNetwork6TextWith (parseCidr6SWith parse6S) a net = inNetResult 128 (num6 a) (num6 n) len := by
  unfold inNetwork6TextWith inNetResult
  rw [hpc]
  unfold cidrLenResult
  by_cases hl : len > 128
  · rw [if_pos hl, if_pos hl]; rfl
  · rw [if_neg hl, if_neg hl]
    by_cases hh : num6 n % 2 ^ (128 - len) ≠ 0
    · rw [if_pos (by simp [hh]), if_pos hh]; rfl
    · rw [if_neg (by simp [hh]), if_neg hh, ok_bind]
      unfold inNetwork6
      dsimp only
      exact inNetworkN_bool 128 _ _ len (by omega) (by omega)

/-! ### whatever is parsed is sixteen bytes -/

theorem parseSegs_len : ∀ (segs : List Str) (side : Bool) (p0 p1 q0 q1 : List Nat),
    parseSegs segs side p0 p1 = .ok (q0, q1) → q0.length + q1.length ≤ p0.length + p1.length + segs.length := by
  intro segs
  induction segs with
  | nil => intro side p0 p1 q0 q1 h; simp [parseSegs] at h; rw [← h.1, ← h.2]; simp
  | cons s rest ih =>
    intro side p0 p1 q0 q1 h
    unfold parseSegs at h
    by_cases he : s.isEmpty = true
    · rw [if_pos he] at h
      have := ih true p0 p1 q0 q1 h
      simp; omega
    · rw [if_neg he] at h
      cases hp : pyInt 16 s with
      | error e => rw [hp] at h; cases h
      | ok n =>
        rw [hp] at h
        simp only at h
        by_cases hr : n < 0 ∨ n > 0xffff
        · rw [if_pos hr] at h; cases h
        · rw [if_neg hr] at h
          cases side
          · simp only [Bool.false_eq_true, if_false] at h
            have := ih false _ _ q0 q1 h
            simp at this ⊢; omega
          · simp only [if_true] at h
            have := ih true _ _ q0 q1 h
            simp at this ⊢; omega

theorem parseGroups_length (addr : Str) (v : Bytes) (h : parseGroups addr = .ok v) : v.length = 16 := by
  unfold parseGroups at h
  by_cases h1 : countDC addr > 1
  · rw [if_pos h1] at h; cases h
  · rw [if_neg h1] at h
    by_cases h2 : (splitOn ':' addr).length < 3 ∨ (splitOn ':' addr).length > 8
    · rw [if_pos h2] at h; cases h
    · rw [if_neg h2] at h
      obtain ⟨pq, hpq, hv⟩ := bind_ok_inv _ _ _ h
      obtain ⟨q0, q1⟩ := pq
      have hl := parseSegs_len _ _ _ _ _ _ hpq
      simp only [pure, Except.pure, Except.ok.injEq] at hv
      rw [← hv, groupBytes_length]
      simp at hl ⊢; omega

theorem parse6_length (s : Str) (a : Bytes) (h : parse6 s = .ok a) : a.length = 16 := by
  unfold parse6 parse6With at h
  by_cases hd : has '.' s = true
  · rw [if_pos hd] at h
    cases hr : rsplit1 ':' s with
    | none => rw [hr] at h; cases h
    | some Aq =>
      obtain ⟨A, q⟩ := Aq
      rw [hr] at h
      simp only at h
      by_cases h1 : has '.' A = true
      · rw [if_pos h1] at h; cases h
      · rw [if_neg h1] at h
        by_cases h2 : has ':' q = true
        · rw [if_pos h2] at h; cases h
        · rw [if_neg h2] at h
          obtain ⟨v, hv, h⟩ := bind_ok_inv _ _ _ h
          obtain ⟨ip, hip, h⟩ := bind_ok_inv _ _ _ h
          simp only [pure, Except.pure, Except.ok.injEq] at h
          have hl := parseGroups_length _ v hv
          rw [← h]
          simp [hl, IP4.raw_length]
  · rw [if_neg hd] at h
    exact parseGroups_length s a h

theorem parse6S_length (s : Str) (a : Bytes) (h : parse6S s = .ok a) : a.length = 16 :=
  denote6_length s a ((parse6S_iff s a).mp h)

end Pox.Addr
