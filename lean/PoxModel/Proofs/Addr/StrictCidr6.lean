import PoxModel.Proofs.Addr.StrictCidr
import PoxModel.Proofs.Addr.Strict6
import PoxModel.Proofs.Addr.Canon
/-! C16 helper lemmas, part 19: `IPAddr6.parse_cidr` with both repairs (`fixes/C16_ip6_text.diff`, `fixes/C16_cidr.diff`)
accepts exactly `addr`, `addr/digits` (≤ 128) and `addr/contiguous-netmask`, `addr` and the netmask being RFC 4291 texts.  Core only. -/
namespace Pox.Addr

/-! ### characters of a well-formed IPv6 text -/

theorem side_no_slash {t : Str} {vs : List Nat} (h : Side t vs) : '/' ∉ t := by
  have seg : ∀ ps : Segs, ps.Good → '/' ∉ joinWith ':' ps.strs := by
    intro ps hg hm
    rcases mem_joinWith hm with e | ⟨s, hs, hx⟩
    · exact absurd e (by decide)
    · obtain ⟨p, hp, rfl⟩ := List.mem_map.mp hs
      exact goodHex_no (hg p hp).1 (by rw [dv_slash]; decide) hx
  cases h with
  | hex ps hg hx ht hv => rw [ht]; exact seg ps hg
  | quad ps q b0 b1 b2 b3 hg hx ht hq hdot hcol hv =>
    rw [ht]
    intro hm
    rcases List.mem_append.mp hm with h | h
    · unfold pre at h
      by_cases hn : ps.strs = []
      · rw [if_pos hn] at h; simp at h
      · rw [if_neg hn] at h
        rcases List.mem_append.mp h with h | h
        · exact seg ps hg h
        · simp at h
    · have := (inetAton_iff q _).mp hq
      rw [this.2] at h
      exact dotted_no_slash _ h

theorem denote6_no_slash (t : Str) (a : Bytes) (h : denote6 t = some a) : '/' ∉ t := by
  unfold denote6 at h
  cases hd : splitDC t with
  | none =>
    rw [hd] at h
    cases hv : listVals t true with
    | none => rw [hv] at h; simp at h
    | some gs => exact side_no_slash (side_of_listVals t true gs hv).1
  | some lr =>
    obtain ⟨l, r⟩ := lr
    rw [hd] at h
    simp only at h
    obtain ⟨x, y, hva, hvb, _, _⟩ := denote6_dc_inv _ _ a h
    rw [splitDC_eq t l r hd]
    intro hm
    rcases List.mem_append.mp hm with h | h
    · exact side_no_slash (side_of_listVals l false x hva).1 h
    · simp only [List.mem_cons] at h
      rcases h with h | h | h
      · exact absurd h (by decide)
      · exact absurd h (by decide)
      · exact side_no_slash (side_of_listVals r true y hvb).1 h

theorem groupBytes_length (gs : List Nat) : (groupBytes gs).length = 2 * gs.length := by
  induction gs with
  | nil => rfl
  | cons g t ih => simp [groupBytes] at ih ⊢; omega

theorem denote6_length (t : Str) (a : Bytes) (h : denote6 t = some a) : a.length = 16 := by
  unfold denote6 at h
  cases hd : splitDC t with
  | none =>
    rw [hd] at h
    cases hv : listVals t true with
    | none => rw [hv] at h; simp at h
    | some gs =>
      rw [hv] at h
      simp only at h
      by_cases hl : gs.length = 8
      · rw [if_pos hl] at h; simp only [Option.some.injEq] at h; rw [← h, groupBytes_length, hl]
      · rw [if_neg hl] at h; simp at h
  | some lr =>
    obtain ⟨l, r⟩ := lr
    rw [hd] at h
    simp only at h
    obtain ⟨x, y, _, _, hab, hbs⟩ := denote6_dc_inv _ _ a h
    rw [hbs, groupBytes_length]
    simp; omega

/-- a text of decimal digits only is not an IPv6 address -/
theorem denote6_dec_none (m : Str) (h : isDecStr m = true) : denote6 m = none := by
  obtain ⟨hne, hdig⟩ := isDecStr_spec m h
  have hnc : ':' ∉ m := hdig.not_mem (by rw [dv_colon]; decide)
  have hnd : '.' ∉ m := hdig.not_mem (by rw [dv_dot]; decide)
  unfold denote6
  rw [← partitionDC_eq_splitDC, partitionDC_none_of_nocolon m hnc]
  simp only
  unfold listVals
  have : m.isEmpty = false := by cases m with
    | nil => exact absurd rfl hne
    | cons _ _ => rfl
  rw [this, splitOn_none ':' m hnc]
  simp only [Bool.false_eq_true, if_false, fieldVals]
  by_cases hx : isHexGroup m = true
  · simp [hx]
  · rw [if_neg hx]
    simp only [if_true]
    cases hq : quadGroups m with
    | none => rfl
    | some g =>
      obtain ⟨_, _, _, _, _, _, hdot, _⟩ := quadGroups_some m g hq
      exact absurd hdot hnd

/-! ### the repaired `IPAddr6.parse_cidr` -/

inductive CidrWF6 (s : Str) : Prop
  | plain (a : Bytes) (ha : denote6 s = some a)
  | len (t D : Str) (a : Bytes) (hs : s = t ++ '/' :: D) (ht : denote6 t = some a) (hd : isDecStr D = true)
      (hle : foldDig 10 0 D ≤ 128)
  | mask (t m : Str) (a mb : Bytes) (len : Nat) (hs : s = t ++ '/' :: m) (ht : denote6 t = some a) (hm : denote6 m = some mb)
      (hle : len ≤ 128) (hnum : num6 mb = 2 ^ 128 - 2 ^ (128 - len))

theorem parseCidr6S_wf (s : Str) (allowHost : Bool) (r : Bytes × Nat) (h : parseCidr6SWith parse6S s allowHost = .ok r) : CidrWF6 s := by
  have hj := joinWith_splitOn '/' s
  unfold parseCidr6SWith at h
  split at h
  · rename_i a0 hsp
    rw [hsp, joinWith_single] at hj
    unfold cidr6Plain at h
    obtain ⟨a, ha, _⟩ := bind_ok_inv _ _ _ h
    exact .plain a (by rw [← hj]; exact (parse6S_iff a0 a).mp ha)
  · rename_i a0 a1 hsp
    rw [hsp] at hj
    have hs : s = a0 ++ '/' :: a1 := by rw [← hj]; rfl
    by_cases hd : isDecStr a1 = true
    · rw [if_pos hd] at h
      obtain ⟨hne, hdig⟩ := isDecStr_spec a1 hd
      rw [pyInt_dig 10 (by decide) a1 hdig hne] at h
      simp only at h
      unfold cidr6Len at h
      simp only at h
      by_cases hw : ((128 : Int) - ((foldDig 10 0 a1 : Nat) : Int) < 0 ∨ (128 : Int) - ((foldDig 10 0 a1 : Nat) : Int) > 128)
      · rw [if_pos hw] at h; cases h
      · rw [if_neg hw] at h
        obtain ⟨a, ha, _⟩ := bind_ok_inv _ _ _ h
        exact .len a0 a1 a hs ((parse6S_iff a0 a).mp ha) hd (by omega)
    · rw [if_neg hd] at h
      unfold cidr6Mask at h
      obtain ⟨mb, hm, h⟩ := bind_ok_inv _ _ _ h
      obtain ⟨len, hlen, h⟩ := bind_ok_inv _ _ _ h
      obtain ⟨a, ha, _⟩ := bind_ok_inv _ _ _ h
      have hmd := (parse6S_iff a1 mb).mp hm
      have hlt := num6_lt mb (denote6_length a1 mb hmd)
      rw [maskBits_eq 128 (by decide) _ hlt] at hlen
      have hspec := (netmaskToCidrN_spec 128 (by decide) _ hlt len).mp hlen
      exact .mask a0 a1 a mb len hs ((parse6S_iff a0 a).mp ha) hmd hspec.1 hspec.2
  · cases h

/-- every well-formed text is accepted (with `allow_host`), with the address its left part denotes and the prefix length it states -/
theorem parseCidr6S_accepts (s : Str) (h : CidrWF6 s) :
    (∃ a, denote6 s = some a ∧ parseCidr6SWith parse6S s true = .ok (a, 128)) ∨
    (∃ t D a, s = t ++ '/' :: D ∧ denote6 t = some a ∧ parseCidr6SWith parse6S s true = .ok (a, foldDig 10 0 D)) ∨
    (∃ t m a len, s = t ++ '/' :: m ∧ denote6 t = some a ∧ parseCidr6SWith parse6S s true = .ok (a, len)) := by
  cases h with
  | plain a ha =>
    left
    refine ⟨a, ha, ?_⟩
    unfold parseCidr6SWith cidr6Plain
    rw [splitOn_none '/' s (denote6_no_slash s a ha)]
    simp only
    rw [parse6S_denote s a ha, ok_bind, cidrCheck_eq]
    simp only [Bool.not_true, Bool.false_and, Bool.false_eq_true, if_false]
    rfl
  | len t D a hs ht hd hle =>
    right; left
    refine ⟨t, D, a, hs, ht, ?_⟩
    obtain ⟨hne, hdig⟩ := isDecStr_spec D hd
    unfold parseCidr6SWith cidr6Len
    rw [hs, splitOn_two _ _ (denote6_no_slash t a ht) (dec_no_slash D hdig)]
    simp only [hd, if_true]
    rw [pyInt_dig 10 (by decide) D hdig hne]
    simp only
    rw [if_neg (by omega), parse6S_denote t a ht, ok_bind, cidrCheck_eq]
    simp only [Bool.not_true, Bool.false_and, Bool.false_eq_true, if_false]
    have : 128 - ((128 : Int) - ((foldDig 10 0 D : Nat) : Int)).toNat = foldDig 10 0 D := by omega
    rw [ok_bind, this]; rfl
  | mask t m a mb len hs ht hm hle hnum =>
    right; right
    refine ⟨t, m, a, len, hs, ht, ?_⟩
    have hnd : isDecStr m = false := by
      cases hh : isDecStr m with
      | false => rfl
      | true => rw [denote6_dec_none m hh] at hm; cases hm
    have hlt := num6_lt mb (denote6_length m mb hm)
    have hmask : maskBits 128 (num6 mb) = .ok len := by
      rw [maskBits_eq 128 (by decide) _ hlt]
      exact (netmaskToCidrN_spec 128 (by decide) _ hlt len).mpr ⟨hle, hnum⟩
    unfold parseCidr6SWith cidr6Mask
    rw [hs, splitOn_two _ _ (denote6_no_slash t a ht) (denote6_no_slash m mb hm)]
    simp only [hnd, Bool.false_eq_true, if_false]
    rw [parse6S_denote m mb hm, ok_bind, hmask, ok_bind, parse6S_denote t a ht, ok_bind, cidrCheck_eq]
    simp only [Bool.not_true, Bool.false_and, Bool.false_eq_true, if_false]
    have : 128 - (128 - len) = len := by omega
    rw [ok_bind, this]; rfl

end Pox.Addr
