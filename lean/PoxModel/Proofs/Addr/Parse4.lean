import PoxModel.Proofs.Addr.Parse6
import PoxModel.Proofs.Addr.Cidr
/-! C16 helper lemmas, part 13: the canonical dotted-quad recogniser accepts exactly the `inet_ntoa` texts; classful
inference (`infer_netmask`, `parse_cidr` without a slash).  Core only. -/
namespace Pox.Addr

/-! ### decimal digit characters -/

theorem digit_char (c : Char) (h : digitVal c < 10) : c = hexChar (digitVal c) := by
  unfold digitVal at h ⊢
  by_cases h1 : '0' ≤ c ∧ c ≤ '9'
  · rw [if_pos h1] at h ⊢
    have hlo : 48 ≤ c.toNat := by
      have := h1.1; rw [Char.le_def] at this; exact UInt32.le_iff_toNat_le.mp this
    unfold hexChar
    rw [if_pos h]
    have : 48 + (c.toNat - 48) = c.toNat := by omega
    rw [this, Char.ofNat_toNat]
  · rw [if_neg h1] at h
    by_cases h2 : 'a' ≤ c ∧ c ≤ 'z'
    · rw [if_pos h2] at h
      have : 97 ≤ c.toNat := by
        have := h2.1; rw [Char.le_def] at this; exact UInt32.le_iff_toNat_le.mp this
      omega
    · rw [if_neg h2] at h
      by_cases h3 : 'A' ≤ c ∧ c ≤ 'Z'
      · rw [if_pos h3] at h
        have : 65 ≤ c.toNat := by
          have := h3.1; rw [Char.le_def] at this; exact UInt32.le_iff_toNat_le.mp this
        omega
      · rw [if_neg h3] at h; omega

theorem fmt10_1 : ∀ a, a < 10 → fmtNat 10 a = [hexChar a] := by decide +kernel
theorem fmt10_2 : ∀ a, a < 10 → ∀ b, b < 10 → 1 ≤ a → fmtNat 10 (a * 10 + b) = [hexChar a, hexChar b] := by decide +kernel
theorem fmt10_3 : ∀ a, a < 10 → ∀ b, b < 10 → ∀ c, c < 10 → 1 ≤ a →
    fmtNat 10 ((a * 10 + b) * 10 + c) = [hexChar a, hexChar b, hexChar c] := by decide +kernel
theorem hexChar_zero_iff : ∀ a, a < 10 → (hexChar a = '0' ↔ a = 0) := by decide

/-- an accepted component is the decimal print of its value -/
theorem inetPart_canon (p : Str) (n : Nat) (h : inetPart p = some n) : p = fmtNat 10 n ∧ n ≤ 255 := by
  have hdig := inetPart_digits p (by rw [h]; rfl)
  unfold inetPart at h
  by_cases h1 : (p.isEmpty || decide (p.length > 3)) = true
  · rw [if_pos h1] at h; simp at h
  · rw [if_neg h1] at h
    by_cases h2 : (!(p.all fun c => decide (digitVal c < 10))) = true
    · rw [if_pos h2] at h; simp at h
    · rw [if_neg h2] at h
      by_cases h3 : (decide (p.length > 1) && p.head? == some '0') = true
      · rw [if_pos h3] at h; simp at h
      · rw [if_neg h3] at h
        simp only at h
        by_cases h4 : p.foldl (fun a c => a * 10 + digitVal c) 0 ≤ 255
        · rw [if_pos h4] at h
          simp only [Option.some.injEq] at h
          subst h
          refine ⟨?_, h4⟩
          simp only [Bool.or_eq_true, List.isEmpty_iff, decide_eq_true_eq, not_or] at h1
          match p, h1, hdig, h3 with
          | [c1], _, hdig, _ =>
            have d1 := hdig c1 (by simp)
            simp only [List.foldl_cons, List.foldl_nil, Nat.zero_mul, Nat.zero_add]
            rw [fmt10_1 _ d1]; exact congrArg (· :: []) (digit_char c1 d1)
          | [c1, c2], _, hdig, h3 =>
            have d1 := hdig c1 (by simp); have d2 := hdig c2 (by simp)
            have hnz : 1 ≤ digitVal c1 := by
              simp only [List.length_cons, List.length_nil, List.head?_cons] at h3
              have : c1 ≠ '0' := by intro e; apply h3; simp [e]
              rcases Nat.eq_zero_or_pos (digitVal c1) with h0 | h0
              · exact absurd (by rw [digit_char c1 d1, h0]; rfl) this
              · exact h0
            simp only [List.foldl_cons, List.foldl_nil, Nat.zero_mul, Nat.zero_add]
            rw [fmt10_2 _ d1 _ d2 hnz]
            conv => lhs; rw [digit_char c1 d1, digit_char c2 d2]
          | [c1, c2, c3], _, hdig, h3 =>
            have d1 := hdig c1 (by simp); have d2 := hdig c2 (by simp); have d3 := hdig c3 (by simp)
            have hnz : 1 ≤ digitVal c1 := by
              simp only [List.length_cons, List.length_nil, List.head?_cons] at h3
              have : c1 ≠ '0' := by intro e; apply h3; simp [e]
              rcases Nat.eq_zero_or_pos (digitVal c1) with h0 | h0
              · exact absurd (by rw [digit_char c1 d1, h0]; rfl) this
              · exact h0
            simp only [List.foldl_cons, List.foldl_nil, Nat.zero_mul, Nat.zero_add]
            rw [fmt10_3 _ d1 _ d2 _ d3 hnz]
            conv => lhs; rw [digit_char c1 d1, digit_char c2 d2, digit_char c3 d3]
          | [], h1, _, _ => exact absurd rfl h1.1
          | _ :: _ :: _ :: _ :: _, h1, _, _ => exact absurd (by simp) h1.2
        · rw [if_neg h4] at h; simp at h

theorem mapM_cons_some {α β : Type} (f : α → Option β) (x : α) (t : List α) (r : List β) (h : (x :: t).mapM f = some r) :
    ∃ y ys, r = y :: ys ∧ f x = some y ∧ t.mapM f = some ys := by
  rw [List.mapM_cons] at h
  cases hfa : f x with
  | none => rw [hfa] at h; simp at h
  | some b =>
    rw [hfa] at h
    cases ht : t.mapM f with
    | none => rw [ht] at h; simp at h
    | some bs =>
      rw [ht] at h
      simp at h
      exact ⟨b, bs, h.symm, rfl, rfl⟩

theorem mapM_four {α β : Type} (f : α → Option β) (l : List α) (a b c d : β) (h : l.mapM f = some [a, b, c, d]) :
    ∃ p0 p1 p2 p3, l = [p0, p1, p2, p3] ∧ f p0 = some a ∧ f p1 = some b ∧ f p2 = some c ∧ f p3 = some d := by
  match l, h with
  | [], h => simp at h
  | p0 :: t0, h =>
    obtain ⟨y0, ys0, e0, f0, h0⟩ := mapM_cons_some f p0 t0 _ h
    injection e0 with e0 e0'
    subst e0; subst e0'
    match t0, h0 with
    | [], h0 => simp at h0
    | p1 :: t1, h0 =>
      obtain ⟨y1, ys1, e1, f1, h1⟩ := mapM_cons_some f p1 t1 _ h0
      injection e1 with e1 e1'
      subst e1; subst e1'
      match t1, h1 with
      | [], h1 => simp at h1
      | p2 :: t2, h1 =>
        obtain ⟨y2, ys2, e2, f2, h2⟩ := mapM_cons_some f p2 t2 _ h1
        injection e2 with e2 e2'
        subst e2; subst e2'
        match t2, h2 with
        | [], h2 => simp at h2
        | p3 :: t3, h2 =>
          obtain ⟨y3, ys3, e3, f3, h3⟩ := mapM_cons_some f p3 t3 _ h2
          injection e3 with e3 e3'
          subst e3; subst e3'
          match t3, h3 with
          | [], _ => exact ⟨p0, p1, p2, p3, rfl, f0, f1, f2, f3⟩
          | p4 :: t4, h3 =>
            obtain ⟨y4, ys4, e4, _, _⟩ := mapM_cons_some f p4 t4 _ h3
            cases e4

/-- `inetAton` accepts exactly the texts `inet_ntoa` produces, and returns the bytes they print -/
theorem inetAton_iff (s : Str) (bs : Bytes) : inetAton s = .ok bs ↔ bs.length = 4 ∧ s = dotted bs := by
  constructor
  · intro h
    have h' := h
    unfold inetAton at h
    cases hm : (splitOn '.' s).mapM inetPart with
    | none => rw [hm] at h; simp at h
    | some r =>
      rw [hm] at h
      match r, h, hm with
      | [a, b, c, d], h, hm =>
        simp only [Except.ok.injEq] at h
        obtain ⟨p0, p1, p2, p3, hl, e0, e1, e2, e3⟩ := mapM_four inetPart _ a b c d hm
        obtain ⟨f0, n0⟩ := inetPart_canon _ _ e0
        obtain ⟨f1, n1⟩ := inetPart_canon _ _ e1
        obtain ⟨f2, n2⟩ := inetPart_canon _ _ e2
        obtain ⟨f3, n3⟩ := inetPart_canon _ _ e3
        refine ⟨by rw [← h]; rfl, ?_⟩
        rw [← h]
        unfold dotted
        simp only [List.map_cons, List.map_nil, u8 _ (show a < 256 by omega), u8 _ (show b < 256 by omega),
          u8 _ (show c < 256 by omega), u8 _ (show d < 256 by omega), ← f0, ← f1, ← f2, ← f3]
        rw [← hl, joinWith_splitOn]
  · intro ⟨hl, hs⟩
    obtain ⟨b0, b1, b2, b3, rfl⟩ := list_len4 bs hl
    rw [hs]; exact inetAton_dotted b0 b1 b2 b3

end Pox.Addr

namespace Pox.Addr

/-! ### classful inference -/

theorem and_hi (t m r : Nat) (hr : r < 2 ^ 28) : (2 ^ 28 * t + r) &&& (2 ^ 28 * m) = 2 ^ 28 * (t &&& m) := by
  apply Nat.eq_of_testBit_eq
  intro j
  rw [Nat.testBit_and, Nat.testBit_two_pow_mul_add t hr j, Nat.testBit_two_pow_mul, Nat.testBit_two_pow_mul, Nat.testBit_and]
  by_cases hj : j < 28
  · have : ¬ j ≥ 28 := by omega
    simp [hj, this]
  · have : j ≥ 28 := by omega
    simp [hj, this]

theorem nibble_table : ∀ t, t < 16 →
    ((t &&& 8 = 0) ↔ t < 8) ∧ ((t &&& 12 = 8) ↔ (8 ≤ t ∧ t < 12)) ∧ ((t &&& 14 = 12) ↔ (12 ≤ t ∧ t < 14)) ∧
    ((t &&& 15 = 14) ↔ t = 14) := by decide

/-- the classful prefix length of a host-order address -/
def classful (h : Nat) : Nat :=
  if h = 0 then 0 else if h < 2 ^ 31 then 8 else if h < 3 * 2 ^ 30 then 16 else if h < 7 * 2 ^ 29 then 24 else 32

theorem inferNetmask_eq (a : IP4) : inferNetmask a = classful (a.toUnsigned false) := by
  have hlt := IP4.toUnsigned_lt a false
  unfold inferNetmask classful
  simp only
  generalize a.toUnsigned false = h at *
  have hd : h = 2 ^ 28 * (h / 2 ^ 28) + h % 2 ^ 28 := (Nat.div_add_mod h (2 ^ 28)).symm
  have hr : h % 2 ^ 28 < 2 ^ 28 := Nat.mod_lt _ (by decide)
  have ht : h / 2 ^ 28 < 16 := by omega
  obtain ⟨t1, t2, t3, t4⟩ := nibble_table _ ht
  have m1 : (1 : Nat) <<< 31 = 2 ^ 28 * 8 := by decide
  have m2 : (3 : Nat) <<< 30 = 2 ^ 28 * 12 := by decide
  have m3 : (2 : Nat) <<< 30 = 2 ^ 28 * 8 := by decide
  have m4 : (7 : Nat) <<< 29 = 2 ^ 28 * 14 := by decide
  have m5 : (6 : Nat) <<< 29 = 2 ^ 28 * 12 := by decide
  have m6 : (15 : Nat) <<< 28 = 2 ^ 28 * 15 := by decide
  have m7 : (14 : Nat) <<< 28 = 2 ^ 28 * 14 := by decide
  have a1 : h &&& (1 <<< 31) = 2 ^ 28 * (h / 2 ^ 28 &&& 8) := by rw [m1]; conv => lhs; rw [hd]
                                                                 exact and_hi _ _ _ hr
  have a2 : h &&& (3 <<< 30) = 2 ^ 28 * (h / 2 ^ 28 &&& 12) := by rw [m2]; conv => lhs; rw [hd]
                                                                  exact and_hi _ _ _ hr
  have a3 : h &&& (7 <<< 29) = 2 ^ 28 * (h / 2 ^ 28 &&& 14) := by rw [m4]; conv => lhs; rw [hd]
                                                                  exact and_hi _ _ _ hr
  have a4 : h &&& (15 <<< 28) = 2 ^ 28 * (h / 2 ^ 28 &&& 15) := by rw [m6]; conv => lhs; rw [hd]
                                                                   exact and_hi _ _ _ hr
  rw [a1, a2, a3, a4, m3, m5, m7]
  generalize h / 2 ^ 28 = t at *
  generalize h % 2 ^ 28 = r at *
  have c1 : (2 ^ 28 * (t &&& 8) = 0) ↔ t < 8 := by rw [← t1]; omega
  have c2 : (2 ^ 28 * (t &&& 12) = 2 ^ 28 * 8) ↔ (8 ≤ t ∧ t < 12) := by rw [← t2]; omega
  have c3 : (2 ^ 28 * (t &&& 14) = 2 ^ 28 * 12) ↔ (12 ≤ t ∧ t < 14) := by rw [← t3]; omega
  by_cases h0 : h = 0
  · rw [if_pos h0, if_pos h0]
  · rw [if_neg h0, if_neg h0]
    by_cases hA : t < 8
    · rw [if_pos (c1.mpr hA), if_pos (show h < 2 ^ 31 by omega)]
    · rw [if_neg (fun e => hA (c1.mp e)), if_neg (show ¬ h < 2 ^ 31 by omega)]
      by_cases hB : 8 ≤ t ∧ t < 12
      · rw [if_pos (c2.mpr hB), if_pos (show h < 3 * 2 ^ 30 by omega)]
      · rw [if_neg (fun e => hB (c2.mp e)), if_neg (show ¬ h < 3 * 2 ^ 30 by omega)]
        by_cases hC : 12 ≤ t ∧ t < 14
        · rw [if_pos (c3.mpr hC), if_pos (show h < 7 * 2 ^ 29 by omega)]
        · rw [if_neg (fun e => hC (c3.mp e)), if_neg (show ¬ h < 7 * 2 ^ 29 by omega)]
          split <;> rfl

theorem classful_le (h : Nat) : classful h ≤ 32 := by
  unfold classful; split; omega; split; omega; split; omega; split <;> omega

/-- `parse_cidr("a.b.c.d")`: with `infer` the classful length if the address has no bits beyond it, else 32; without, 32 -/
theorem parseCidr_plain (b0 b1 b2 b3 : UInt8) (infer allowHost : Bool) :
    parseCidr (dotted [b0, b1, b2, b3]) infer allowHost =
      .ok (ip4OfBytes b0 b1 b2 b3,
        if infer && decide (beDec [b0, b1, b2, b3] % 2 ^ (32 - classful (beDec [b0, b1, b2, b3])) = 0)
        then classful (beDec [b0, b1, b2, b3]) else 32) := by
  have hsplit : splitOnN '/' 2 (dotted [b0, b1, b2, b3]) = [dotted [b0, b1, b2, b3]] := splitOnN_none '/' 1 _ (dotted_no_slash _)
  have hcl := classful_le (beDec [b0, b1, b2, b3])
  unfold parseCidr cidrPlain cidrLen cidrMask
  rw [hsplit]
  simp only
  cases infer with
  | false =>
    rw [if_pos (show (!false) = true from rfl)]
    simp only [Bool.false_and, Bool.false_eq_true, if_false]
    rw [ip4OfBytes_text, ok_bind, cidrCheck_eq, ip4OfBytes_host]
    have : ¬ ((!allowHost && decide (beDec [b0, b1, b2, b3] % 2 ^ 0 ≠ 0)) = true) := by simp [Nat.mod_one]
    rw [if_neg this]; rfl
  | true =>
    rw [if_neg (show ¬ (!true) = true by decide)]
    rw [ip4OfBytes_text, ok_bind]
    rw [inferNetmask_eq, ip4OfBytes_host, Nat.one_shiftLeft, Nat.and_two_pow_sub_one_eq_mod]
    by_cases hz : beDec [b0, b1, b2, b3] % 2 ^ (32 - classful (beDec [b0, b1, b2, b3])) = 0
    · have hr : (true && decide (beDec [b0, b1, b2, b3] % 2 ^ (32 - classful (beDec [b0, b1, b2, b3])) = 0)) = true := by
        simp [hz]
      rw [if_pos hz, if_pos hr, cidrCheck_eq]
      have : ¬ ((!allowHost && decide (beDec [b0, b1, b2, b3] % 2 ^ (32 - classful (beDec [b0, b1, b2, b3])) ≠ 0)) = true) := by
        simp [hz]
      rw [if_neg this]
      have e : 32 - (32 - classful (beDec [b0, b1, b2, b3])) = classful (beDec [b0, b1, b2, b3]) := by omega
      rw [ok_bind, e]; rfl
    · have hr : ¬ (true && decide (beDec [b0, b1, b2, b3] % 2 ^ (32 - classful (beDec [b0, b1, b2, b3])) = 0)) = true := by
        simp [hz]
      rw [if_neg hz, if_neg hr, cidrCheck_eq]
      have : ¬ ((!allowHost && decide (beDec [b0, b1, b2, b3] % 2 ^ 0 ≠ 0)) = true) := by simp [Nat.mod_one]
      rw [if_neg this]; rfl

end Pox.Addr
