import PoxModel.Proofs.Addr.IP6
import PoxModel.Proofs.Addr.Guard6
/-! C16 helper lemmas, part 6: `IPAddr6(to_str(a)) = a` for every print option.  Core only. -/
namespace Pox.Addr

/-! ### dotted quads -/

theorem inetPart_fmt : ∀ n, n < 256 → inetPart (fmtNat 10 n) = some n := by decide +kernel

theorem dotted4 (b0 b1 b2 b3 : UInt8) :
    dotted [b0, b1, b2, b3] = fmtNat 10 b0.toNat ++ '.' :: (fmtNat 10 b1.toNat ++ '.' :: (fmtNat 10 b2.toNat ++ '.' :: fmtNat 10 b3.toNat)) := rfl

theorem dec_no {n : Nat} {d : Char} (hd : 10 ≤ digitVal d) : d ∉ fmtNat 10 n :=
  (allDig_fmtNat 10 (by decide) (by decide) n).not_mem hd

theorem dotted_no_colon (b : Bytes) : ':' ∉ dotted b := by
  intro hm
  rcases mem_joinWith hm with e | ⟨s, hs, hx⟩
  · exact absurd e (by decide)
  · obtain ⟨x, _, rfl⟩ := List.mem_map.mp hs
    exact dec_no (by rw [dv_colon]; decide) hx

theorem dotted4_has_dot (b0 b1 b2 b3 : UInt8) : '.' ∈ dotted [b0, b1, b2, b3] := by
  rw [dotted4]; simp

theorem inetAton_dotted (b0 b1 b2 b3 : UInt8) : inetAton (dotted [b0, b1, b2, b3]) = .ok [b0, b1, b2, b3] := by
  unfold inetAton dotted
  have hnd : ∀ g ∈ [b0, b1, b2, b3].map (fun x => fmtNat 10 x.toNat), '.' ∉ g := by
    intro g hg
    obtain ⟨x, _, rfl⟩ := List.mem_map.mp hg
    exact dec_no (by rw [dv_dot]; decide)
  rw [splitOn_join '.' _ hnd]
  simp only [segsOf, List.map_cons, List.map_nil, reduceCtorEq, if_false, List.mapM_cons, List.mapM_nil,
    inetPart_fmt _ b0.toNat_lt, inetPart_fmt _ b1.toNat_lt, inetPart_fmt _ b2.toNat_lt, inetPart_fmt _ b3.toNat_lt]
  simp

theorem ip4_text_raw (b0 b1 b2 b3 : UInt8) :
    ∃ ip, IP4.ofText (dotted [b0, b1, b2, b3]) = .ok ip ∧ ip.raw = [b0, b1, b2, b3] := by
  obtain ⟨x, hx, _, hr⟩ := IP4.raw_ofRaw b0 b1 b2 b3
  refine ⟨x, ?_, hr⟩
  unfold IP4.ofText
  rw [inetAton_dotted]
  simp only [IP4.ofRaw, List.length_cons, List.length_nil, if_true, Except.ok.injEq] at hx
  simp [Functor.map, Except.map, hx]

theorem Segs.vals_append (ps qs : Segs) : (ps ++ qs).vals = ps.vals ++ qs.vals := by simp [Segs.vals]

/-! ### joins -/

theorem joinWith_snoc (c : Char) : ∀ (ss : List Str) (x : Str), ss ≠ [] → joinWith c (ss ++ [x]) = joinWith c ss ++ c :: x := by
  intro ss
  induction ss with
  | nil => intro x h; exact absurd rfl h
  | cons s t ih =>
    intro x _
    cases t with
    | nil => rfl
    | cons s' t' =>
      rw [List.cons_append, List.cons_append, joinWith_cons_cons, ← List.cons_append, ih x (by simp), joinWith_cons_cons]
      simp

/-- text of all groups but the last two, including the separating colon -/
def pre (ss : List Str) : Str := if ss = [] then [] else joinWith ':' ss ++ [':']

theorem joinWith_two (ss : List Str) (x y : Str) : joinWith ':' (ss ++ [x, y]) = pre ss ++ x ++ ':' :: y := by
  have : ss ++ [x, y] = (ss ++ [x]) ++ [y] := by simp
  rw [this, joinWith_snoc ':' _ y (by simp)]
  unfold pre
  by_cases h : ss = []
  · subst h; simp [joinWith]
  · rw [if_neg h, joinWith_snoc ':' ss x h]; simp

theorem pre_snoc (ss : List Str) (h : ss ≠ []) : ∃ Q, pre ss = Q ++ [':'] ∧ Q = joinWith ':' ss := by
  unfold pre; rw [if_neg h]; exact ⟨_, rfl, rfl⟩

theorem zeroSeg_good : Segs.Good [(0, ['0']), (0, ['0'])] := by
  intro p hp
  have h0 : GoodHex 0 ['0'] := goodHex_fmt 0
  simp only [List.mem_cons, List.not_mem_nil, or_false, or_self] at hp
  subst hp; exact ⟨h0, by decide⟩

/-! ### the body of an address text -/

theorem body_parse (zd sd : Bool) (o : List Nat) (ho : o.length = 8) (hlt : ∀ g ∈ o, g < 65536) :
    parseGroups (body6 zd sd o) = .ok (groupBytes o) ∧ '.' ∉ body6 zd sd o ∧ guard6 (body6 zd sd o) = true := by
  have plain : parseGroups (fmtGroups zd o) = .ok (groupBytes o) ∧ '.' ∉ fmtGroups zd o ∧ guard6 (fmtGroups zd o) = true := by
    rw [fmtGroups_eq]
    have hg := printed_good zd o hlt
    refine ⟨?_, hg.no_dot, guard6_plain _ hg (printed_hex4 zd o hlt) (by rw [printed_length]; exact ho)⟩
    rw [parseGroups_plain _ hg (by rw [printed_length]; exact ho), printed_vals]
  unfold body6
  cases sd
  · exact plain
  · simp only [if_true]
    have hspec := findRun_spec o ho
    cases hr : findRun o with
    | none => exact plain
    | some pl =>
      obtain ⟨pos, len⟩ := pl
      rw [hr] at hspec
      obtain ⟨h2, hle, hz, _⟩ := hspec
      have hsplit := zeroRun_split o pos len hz hle
      have hL : ∀ g ∈ o.take pos, g < 65536 := fun g hg => hlt g (List.mem_of_mem_take hg)
      have hR : ∀ g ∈ o.drop (pos + len), g < 65536 := fun g hg => hlt g (List.mem_of_mem_drop hg)
      have gL := printed_good zd _ hL
      have gR := printed_good zd _ hR
      simp only [fmtGroups_eq]
      refine ⟨?_, ?_, guard6_dc _ _ gL gR (printed_hex4 zd _ hL) (printed_hex4 zd _ hR) (by simp [printed_length]; omega)⟩
      · rw [parseGroups_dc _ _ len h2 (by simp [printed_length]; omega) gL gR, printed_vals, printed_vals, ← hsplit]
      · intro hm
        rcases List.mem_append.mp hm with h | h
        · exact gL.no_dot h
        · simp only [List.mem_cons] at h
          rcases h with h | h | h
          · exact absurd h (by decide)
          · exact absurd h (by decide)
          · exact gR.no_dot h

theorem body_mixed (zd sd : Bool) (o6 : List Nat) (ho : o6.length = 6) (hlt : ∀ g ∈ o6, g < 65536) :
    ∃ Q, body6 zd sd (o6 ++ [1, 1]) = Q ++ ':' :: (fmtG zd 1 ++ ':' :: fmtG zd 1) ∧ '.' ∉ Q ∧
      parseGroups (Q ++ [':', '0', ':', '0']) = .ok (groupBytes (o6 ++ [0, 0])) ∧ guard6 (Q ++ [':', '0', ':', '0']) = true := by
  have hne6 : o6 ≠ [] := by intro h; rw [h] at ho; simp at ho
  -- the un-compressed form
  have plain : ∃ Q, fmtGroups zd (o6 ++ [1, 1]) = Q ++ ':' :: (fmtG zd 1 ++ ':' :: fmtG zd 1) ∧ '.' ∉ Q ∧
      parseGroups (Q ++ [':', '0', ':', '0']) = .ok (groupBytes (o6 ++ [0, 0])) ∧ guard6 (Q ++ [':', '0', ':', '0']) = true := by
    have hg := printed_good zd o6 hlt
    have hs : (printed zd o6).strs ≠ [] := by rw [printed_strs]; simpa using hne6
    refine ⟨joinWith ':' (printed zd o6).strs, ?_, hg.no_dot, ?_⟩
    · have : fmtGroups zd (o6 ++ [1, 1]) = joinWith ':' ((printed zd o6).strs ++ [fmtG zd 1, fmtG zd 1]) := by
        rw [fmtGroups_eq, printed_strs, printed_strs]; simp
      rw [this, joinWith_two]
      unfold pre; rw [if_neg hs]; simp
    · have hgood : (printed zd o6 ++ [(0, ['0']), (0, ['0'])]).Good := hg.append zeroSeg_good
      have hx4 : (printed zd o6 ++ [(0, ['0']), (0, ['0'])]).Hex4 := (printed_hex4 zd o6 hlt).append zeroSeg_hex4
      have := parseGroups_plain _ hgood (by simp [printed_length, ho])
      have hgd := guard6_plain _ hgood hx4 (by simp [printed_length, ho])
      have e : (printed zd o6 ++ [(0, ['0']), (0, ['0'])]).strs = (printed zd o6).strs ++ [['0'], ['0']] := by
        simp [Segs.strs]
      rw [e, joinWith_two] at this hgd
      unfold pre at this hgd; rw [if_neg hs] at this hgd
      simp only [List.append_assoc, List.cons_append, List.nil_append] at this hgd
      refine ⟨?_, hgd⟩
      rw [this, Segs.vals_append, printed_vals]
      rfl
  unfold body6
  cases sd
  · exact plain
  · simp only [if_true]
    have ho8 : (o6 ++ [1, 1]).length = 8 := by simp [ho]
    have hspec := findRun_spec (o6 ++ [1, 1]) ho8
    cases hr : findRun (o6 ++ [1, 1]) with
    | none => exact plain
    | some pl =>
      obtain ⟨pos, len⟩ := pl
      rw [hr] at hspec
      obtain ⟨h2, hle, hz, _⟩ := hspec
      rw [ho8] at hle
      -- the run cannot reach the two non-zero groups
      have h6 : pos + len ≤ 6 := by
        apply Classical.byContradiction
        intro hc
        have hp : pos ≤ 6 := by omega
        have := hz (6 - pos) (by omega)
        have e : pos + (6 - pos) = 6 := by omega
        rw [e, List.getElem?_append_right (by omega), ho] at this
        simp at this
      have eL : (o6 ++ [1, 1]).take pos = o6.take pos := List.take_append_of_le_length (by omega)
      have eR : (o6 ++ [1, 1]).drop (pos + len) = o6.drop (pos + len) ++ [1, 1] :=
        List.drop_append_of_le_length (by omega)
      dsimp only
      rw [eL, eR]
      have hL : ∀ g ∈ o6.take pos, g < 65536 := fun g hg => hlt g (List.mem_of_mem_take hg)
      have hR : ∀ g ∈ o6.drop (pos + len), g < 65536 := fun g hg => hlt g (List.mem_of_mem_drop hg)
      have gL := printed_good zd _ hL
      have gR := printed_good zd _ hR
      have eJ : fmtGroups zd (o6.drop (pos + len) ++ [1, 1]) =
          pre (printed zd (o6.drop (pos + len))).strs ++ fmtG zd 1 ++ ':' :: fmtG zd 1 := by
        rw [← joinWith_two, fmtGroups_eq, printed_strs, printed_strs]; simp
      -- the text before the last two fields always ends with a colon
      obtain ⟨Q, hQ, hQdot⟩ : ∃ Q, fmtGroups zd (o6.take pos) ++ ':' :: ':' :: pre (printed zd (o6.drop (pos + len))).strs = Q ++ [':'] ∧
          '.' ∉ Q := by
        unfold pre
        by_cases hs : (printed zd (o6.drop (pos + len))).strs = []
        · rw [if_pos hs]
          refine ⟨fmtGroups zd (o6.take pos) ++ [':'], by simp, ?_⟩
          intro hm
          rcases List.mem_append.mp hm with h | h
          · rw [fmtGroups_eq] at h; exact gL.no_dot h
          · simp at h
        · rw [if_neg hs]
          refine ⟨fmtGroups zd (o6.take pos) ++ ':' :: ':' :: joinWith ':' (printed zd (o6.drop (pos + len))).strs, by simp, ?_⟩
          intro hm
          rcases List.mem_append.mp hm with h | h
          · rw [fmtGroups_eq] at h; exact gL.no_dot h
          · simp only [List.mem_cons] at h
            rcases h with h | h | h
            · exact absurd h (by decide)
            · exact absurd h (by decide)
            · exact gR.no_dot h
      refine ⟨Q, ?_, hQdot, ?_⟩
      · rw [eJ]
        have : fmtGroups zd (o6.take pos) ++ ':' :: ':' :: (pre (printed zd (o6.drop (pos + len))).strs ++ fmtG zd 1 ++ ':' :: fmtG zd 1)
            = (fmtGroups zd (o6.take pos) ++ ':' :: ':' :: pre (printed zd (o6.drop (pos + len))).strs) ++ (fmtG zd 1 ++ ':' :: fmtG zd 1) := by
          simp
        rw [this, hQ]; simp
      · have hgood : (printed zd (o6.drop (pos + len)) ++ [(0, ['0']), (0, ['0'])]).Good := gR.append zeroSeg_good
        have hlen : (printed zd (o6.take pos)).length + len + (printed zd (o6.drop (pos + len)) ++ [(0, ['0']), (0, ['0'])]).length = 8 := by
          simp [printed_length, ho]; omega
        have := parseGroups_dc _ _ len h2 hlen gL hgood
        have hgd := guard6_dc _ _ gL hgood (printed_hex4 zd _ hL) ((printed_hex4 zd _ hR).append zeroSeg_hex4) (by omega)
        have e : (printed zd (o6.drop (pos + len)) ++ [(0, ['0']), (0, ['0'])]).strs =
            (printed zd (o6.drop (pos + len))).strs ++ [['0'], ['0']] := by simp [Segs.strs]
        rw [e, joinWith_two, ← fmtGroups_eq] at this hgd
        have e2 : fmtGroups zd (o6.take pos) ++ ':' :: ':' :: (pre (printed zd (o6.drop (pos + len))).strs ++ ['0'] ++ ':' :: ['0'])
            = (fmtGroups zd (o6.take pos) ++ ':' :: ':' :: pre (printed zd (o6.drop (pos + len))).strs) ++ ['0', ':', '0'] := by
          simp
        rw [e2, hQ] at this hgd
        have e3 : Q ++ [':'] ++ ['0', ':', '0'] = Q ++ [':', '0', ':', '0'] := by simp
        rw [e3] at this hgd
        refine ⟨?_, hgd⟩
        rw [this]
        have hv : (printed zd (o6.take pos)).vals ++ List.replicate len 0 ++ (printed zd (o6.drop (pos + len)) ++ [(0, ['0']), (0, ['0'])]).vals
            = (o6.take pos ++ List.replicate len 0 ++ o6.drop (pos + len)) ++ [0, 0] := by
          rw [Segs.vals_append, printed_vals, printed_vals]
          simp [Segs.vals]
        rw [hv]
        have hz6 : ZeroRun o6 pos len := by
          intro j hj
          have := hz j hj
          rwa [List.getElem?_append_left (by omega)] at this
        rw [← zeroRun_split o6 pos len hz6 (by omega)]

end Pox.Addr

namespace Pox.Addr

theorem groups6_append : ∀ (n : Nat) (p q : Bytes), p.length = 2 * n → groups6 (p ++ q) = groups6 p ++ groups6 q := by
  intro n
  induction n with
  | zero =>
    intro p q h
    have : p = [] := List.eq_nil_of_length_eq_zero (by omega)
    subst this; simp [groups6]
  | succ n ih =>
    intro p q h
    match p, h with
    | hi :: lo :: r, h =>
      have hr : r.length = 2 * n := by simp at h; omega
      simp only [List.cons_append, groups6, ih r q hr]

theorem groupBytes_append (x y : List Nat) : groupBytes (x ++ y) = groupBytes x ++ groupBytes y := by
  simp [groupBytes]

theorem list_len4 {α} (q : List α) (h : q.length = 4) : ∃ a b c d, q = [a, b, c, d] := by
  match q, h with
  | [a, b, c, d], _ => exact ⟨a, b, c, d, rfl⟩

theorem rsplit2head_two (Q x y : Str) (hx : ':' ∉ x) (hy : ':' ∉ y) : rsplit2head ':' (Q ++ ':' :: (x ++ ':' :: y)) = Q := by
  unfold rsplit2head
  have e : Q ++ ':' :: (x ++ ':' :: y) = (Q ++ ':' :: x) ++ ':' :: y := by simp
  rw [e, rsplit1_append ':' _ y hy]
  simp only
  rw [rsplit1_append ':' Q x hx]

/-- `toStr6` with the decision "mixed notation or not" already taken -/
def toStr6m (a : Bytes) (zd sd mixed : Bool) : Str :=
  if mixed then rsplit2head ':' (body6 zd sd ((groups6 a).take 6 ++ [1, 1])) ++ ':' :: dotted (a.drop 12)
  else body6 zd sd (groups6 a)

theorem toStr6_eq (a : Bytes) (zd sd : Bool) (v4 : Option Bool) :
    toStr6 a zd sd v4 = toStr6m a zd sd (match v4 with | none => isV4Mapped a | some b => b) := rfl

/-- a group parser that agrees with `parseGroups` wherever that succeeds on a text passing the strict validation: both
    `parseGroups` itself and the repaired `parseGroupsS` -/
def PGOK (pg : Str → Except Err Bytes) : Prop := ∀ X v, parseGroups X = .ok v → guard6 X = true → pg X = .ok v

theorem pgok_old : PGOK parseGroups := fun _ _ h _ => h
theorem pgok_strict : PGOK parseGroupsS := parseGroupsS_of_parseGroups

theorem parse6With_toStr6m (pg : Str → Except Err Bytes) (hpg : PGOK pg) (a : Bytes) (ha : a.length = 16) (zd sd mixed : Bool) :
    parse6With pg (toStr6m a zd sd mixed) = .ok a := by
  obtain ⟨hlen, hlt, hgb⟩ := groups6_spec 8 a (by omega)
  unfold toStr6m
  cases mixed
  case true =>
    -- mixed notation
    simp only [if_true]
    have hsplit : a = a.take 12 ++ a.drop 12 := (List.take_append_drop 12 a).symm
    have hp : (a.take 12).length = 12 := by simp [ha]
    have hq : (a.drop 12).length = 4 := by simp [ha]
    obtain ⟨b0, b1, b2, b3, hq4⟩ := list_len4 _ hq
    obtain ⟨hl6, hlt6, hgb6⟩ := groups6_spec 6 (a.take 12) (by omega)
    have ho6 : (groups6 a).take 6 = groups6 (a.take 12) := by
      conv => lhs; rw [hsplit, groups6_append 6 _ _ (by omega)]
      rw [List.take_left' hl6]
    rw [ho6, hq4]
    obtain ⟨Q, hbody, hQdot, hparse0, hguard⟩ := body_mixed zd sd (groups6 (a.take 12)) hl6 hlt6
    have hparse := hpg _ _ hparse0 hguard
    have hf1 : ':' ∉ fmtG zd 1 := goodHex_no (fmtG_good zd 1) (by rw [dv_colon]; decide)
    rw [hbody, rsplit2head_two Q _ _ hf1 hf1]
    unfold parse6With
    have hdot : has '.' (Q ++ ':' :: dotted [b0, b1, b2, b3]) = true := by
      rw [has_true_iff]; simp [dotted4_has_dot]
    rw [if_pos hdot, rsplit1_append ':' Q _ (dotted_no_colon _)]
    simp only
    rw [if_neg (by rw [(has_false_iff '.' Q).mpr hQdot]; simp),
      if_neg (by rw [(has_false_iff ':' _).mpr (dotted_no_colon _)]; simp), hparse]
    obtain ⟨ip, hip, hraw⟩ := ip4_text_raw b0 b1 b2 b3
    rw [hip]
    simp only [bind, Except.bind, pure, Except.pure, hraw]
    congr 1
    rw [groupBytes_append, hgb6]
    have : groupBytes [0, 0] = [0, 0, 0, 0] := by decide
    rw [this]
    conv => rhs; rw [hsplit, hq4]
    congr 1
    simp [hp]
  case false =>
    -- plain notation
    simp only [Bool.false_eq_true, if_false]
    obtain ⟨hparse0, hdot, hguard⟩ := body_parse zd sd (groups6 a) hlen hlt
    have hparse := hpg _ _ hparse0 hguard
    unfold parse6With
    rw [if_neg (by rw [(has_false_iff '.' _).mpr hdot]; simp), hparse, hgb]

/-- `IPAddr6(a.to_str(zero_drop, section_drop, ipv4)) == a` for every 16-byte address and every option -/
theorem parse6_toStr6 (a : Bytes) (ha : a.length = 16) (zd sd : Bool) (v4 : Option Bool) :
    parse6 (toStr6 a zd sd v4) = .ok a := by
  rw [toStr6_eq]; exact parse6With_toStr6m parseGroups pgok_old a ha zd sd _

/-- the same for the repaired parser (`fixes/C16_ip6_text.diff`) -/
theorem parse6S_toStr6 (a : Bytes) (ha : a.length = 16) (zd sd : Bool) (v4 : Option Bool) :
    parse6S (toStr6 a zd sd v4) = .ok a := by
  rw [toStr6_eq]; exact parse6With_toStr6m parseGroupsS pgok_strict a ha zd sd _

end Pox.Addr
