import PoxModel.Proofs.Addr.Parse4
/-! C16 helper lemmas, part 18: `parse_cidr` after `fixes/C16_cidr.diff` accepts exactly `a.b.c.d`, `a.b.c.d/digits` (≤ 32) and
`a.b.c.d/contiguous-netmask`.  Core only. -/
namespace Pox.Addr

/-- well-formed IPv4 CIDR text -/
inductive CidrWF4 (s : Str) : Prop
  | plain (b0 b1 b2 b3 : UInt8) (hs : s = dotted [b0, b1, b2, b3])
  | len (b0 b1 b2 b3 : UInt8) (D : Str) (hs : s = dotted [b0, b1, b2, b3] ++ '/' :: D) (hd : isDecStr D = true)
      (hle : foldDig 10 0 D ≤ 32)
  | mask (b0 b1 b2 b3 m0 m1 m2 m3 : UInt8) (len : Nat) (hs : s = dotted [b0, b1, b2, b3] ++ '/' :: dotted [m0, m1, m2, m3])
      (hle : len ≤ 32) (hm : beDec [m0, m1, m2, m3] = 2 ^ 32 - 2 ^ (32 - len))

theorem isDecStr_spec (D : Str) (h : isDecStr D = true) : D ≠ [] ∧ AllDig 10 D := by
  unfold isDecStr at h
  simp only [Bool.and_eq_true, Bool.not_eq_true', List.isEmpty_eq_false_iff, List.all_eq_true, decide_eq_true_eq] at h
  exact ⟨h.1, h.2⟩

theorem isDecStr_dotted (b0 b1 b2 b3 : UInt8) : isDecStr (dotted [b0, b1, b2, b3]) = false := by
  unfold isDecStr
  rw [Bool.eq_false_iff]
  intro h
  simp only [Bool.and_eq_true, List.all_eq_true, decide_eq_true_eq] at h
  have := h.2 '.' (dotted4_has_dot b0 b1 b2 b3)
  rw [dv_dot] at this; omega

theorem dec_no_slash (D : Str) (h : AllDig 10 D) : '/' ∉ D := h.not_mem (by rw [dv_slash]; decide)

theorem splitOn_two (a0 a1 : Str) (h0 : '/' ∉ a0) (h1 : '/' ∉ a1) : splitOn '/' (a0 ++ '/' :: a1) = [a0, a1] := by
  rw [splitOn_append '/' a0 a1 h0, splitOn_none '/' a1 h1]

theorem splitOnN_two (a0 a1 : Str) (h0 : '/' ∉ a0) (h1 : '/' ∉ a1) : splitOnN '/' 2 (a0 ++ '/' :: a1) = [a0, a1] := by
  rw [splitOnN_append '/' 1 a0 a1 h0, splitOnN_none '/' 0 a1 h1]

/-- on well-formed text the repaired function computes what the original does (so `cidr_text` / `classful_inference` carry over) -/
theorem parseCidrS_eq (s : Str) (h : CidrWF4 s) (infer allowHost : Bool) : parseCidrS s infer allowHost = parseCidr s infer allowHost := by
  cases h with
  | plain b0 b1 b2 b3 hs =>
    unfold parseCidrS parseCidr
    rw [hs, splitOn_none '/' _ (dotted_no_slash _), splitOnN_none '/' 1 _ (dotted_no_slash _)]
  | len b0 b1 b2 b3 D hs hd hle =>
    obtain ⟨hne, hdig⟩ := isDecStr_spec D hd
    unfold parseCidrS parseCidr
    rw [hs, splitOn_two _ _ (dotted_no_slash _) (dec_no_slash D hdig), splitOnN_two _ _ (dotted_no_slash _) (dec_no_slash D hdig)]
    simp only [hd, if_true]
    rw [pyInt_dig 10 (by decide) D hdig hne]
  | mask b0 b1 b2 b3 m0 m1 m2 m3 len hs hle hm =>
    unfold parseCidrS parseCidr
    rw [hs, splitOn_two _ _ (dotted_no_slash _) (dotted_no_slash _), splitOnN_two _ _ (dotted_no_slash _) (dotted_no_slash _)]
    simp only [isDecStr_dotted, Bool.false_eq_true, if_false, pyInt_dotted]

theorem ofText_dotted (a : Str) (x : IP4) (h : IP4.ofText a = .ok x) : ∃ b0 b1 b2 b3, a = dotted [b0, b1, b2, b3] ∧ x = ip4OfBytes b0 b1 b2 b3 := by
  unfold IP4.ofText at h
  cases ha : inetAton a with
  | error e => rw [ha] at h; cases h
  | ok bs =>
    obtain ⟨hl, hs⟩ := (inetAton_iff a bs).mp ha
    obtain ⟨b0, b1, b2, b3, rfl⟩ := list_len4 bs hl
    rw [ha] at h
    exact ⟨b0, b1, b2, b3, hs, by injection h with h; exact h.symm⟩

theorem bind_ok_inv {α β : Type} (x : Except Err α) (f : α → Except Err β) (r : β) (h : (x >>= f) = .ok r) :
    ∃ a, x = .ok a ∧ f a = .ok r := by
  cases x with
  | error e => cases h
  | ok a => exact ⟨a, rfl, h⟩

/-- whatever the repaired function accepts is well-formed CIDR text -/
theorem parseCidrS_wf (s : Str) (infer allowHost : Bool) (r : IP4 × Nat) (h : parseCidrS s infer allowHost = .ok r) : CidrWF4 s := by
  have hj := joinWith_splitOn '/' s
  unfold parseCidrS at h
  split at h
  · -- no slash
    rename_i a0 hsp
    rw [hsp, joinWith_single] at hj
    have : ∃ x, IP4.ofText a0 = .ok x := by
      unfold cidrPlain at h
      cases hx : IP4.ofText a0 with
      | ok x => exact ⟨x, rfl⟩
      | error e =>
        rw [hx] at h
        cases infer <;> simp [bind, Except.bind] at h
    obtain ⟨x, hx⟩ := this
    obtain ⟨b0, b1, b2, b3, ha, _⟩ := ofText_dotted a0 x hx
    exact .plain b0 b1 b2 b3 (by rw [← hj, ha])
  · rename_i a0 a1 hsp
    rw [hsp] at hj
    have hs : s = a0 ++ '/' :: a1 := by rw [← hj]; rfl
    by_cases hd : isDecStr a1 = true
    · rw [if_pos hd] at h
      obtain ⟨hne, hdig⟩ := isDecStr_spec a1 hd
      rw [pyInt_dig 10 (by decide) a1 hdig hne] at h
      simp only at h
      unfold cidrLen at h
      simp only at h
      by_cases hw : ((32 : Int) - ((foldDig 10 0 a1 : Nat) : Int) < 0 ∨ (32 : Int) - ((foldDig 10 0 a1 : Nat) : Int) > 32)
      · rw [if_pos hw] at h; cases h
      · rw [if_neg hw] at h
        obtain ⟨x, hx, _⟩ := bind_ok_inv _ _ _ h
        obtain ⟨b0, b1, b2, b3, ha, _⟩ := ofText_dotted a0 x hx
        exact .len b0 b1 b2 b3 a1 (by rw [hs, ha]) hd (by omega)
    · rw [if_neg hd] at h
      unfold cidrMask at h
      obtain ⟨m, hm, h⟩ := bind_ok_inv _ _ _ h
      obtain ⟨len, hlen, h⟩ := bind_ok_inv _ _ _ h
      obtain ⟨x, hx, _⟩ := bind_ok_inv _ _ _ h
      obtain ⟨m0, m1, m2, m3, hma, hmv⟩ := ofText_dotted a1 m hm
      obtain ⟨b0, b1, b2, b3, ha, _⟩ := ofText_dotted a0 x hx
      rw [hmv, ip4OfBytes_host, maskBits_eq 32 (by decide) _ (by have := beDec_lt [m0, m1, m2, m3]; simpa using this)] at hlen
      have hspec := (netmaskToCidrN_spec 32 (by decide) _ (by have := beDec_lt [m0, m1, m2, m3]; simpa using this) len).mp hlen
      exact .mask b0 b1 b2 b3 m0 m1 m2 m3 len (by rw [hs, ha, hma]) hspec.1 hspec.2
  · cases h

/-- **accept ⇔ well-formed** (with `allow_host`, which switches the host-bits test off): every well-formed text is accepted -/
theorem parseCidrS_accepts (s : Str) (h : CidrWF4 s) (infer : Bool) : ∃ r, parseCidrS s infer true = .ok r := by
  rw [parseCidrS_eq s h infer true]
  cases h with
  | plain b0 b1 b2 b3 hs => rw [hs, parseCidr_plain]; exact ⟨_, rfl⟩
  | len b0 b1 b2 b3 D hs hd hle =>
    obtain ⟨hne, hdig⟩ := isDecStr_spec D hd
    rw [hs]
    unfold parseCidr cidrLen
    rw [splitOnN_two _ _ (dotted_no_slash _) (dec_no_slash D hdig)]
    simp only
    rw [pyInt_dig 10 (by decide) D hdig hne]
    simp only
    rw [if_neg (by omega), ip4OfBytes_text, ok_bind, cidrCheck_eq]
    simp only [Bool.not_true, Bool.false_and, Bool.false_eq_true, if_false]
    exact ⟨_, rfl⟩
  | mask b0 b1 b2 b3 m0 m1 m2 m3 len hs hle hm =>
    rw [hs, parseCidr_netmask b0 b1 b2 b3 m0 m1 m2 m3 len hle hm]
    simp only [Bool.not_true, Bool.false_and, Bool.false_eq_true, if_false]
    exact ⟨_, rfl⟩

end Pox.Addr
