import PoxModel.Proofs.Addr.Parse4
/-! C16 helper lemmas, part 18: `parse_cidr` after `fixes/C16_cidr.diff` accepts exactly `a.b.c.d`, `a.b.c.d/digits` (≤ 32) and
`a.b.c.d/contiguous-netmask`.  Core only. -/
namespace Pox.Addr

/-- well-formed IPv4 CIDR text -/
inductive CidrWF4 (s : Str) : Prop
  | plain (b0 b1 b2 b3 : UInt8) (hs : s = dotted [b0, b1, b2, b3])
  | len (b0 b1 b2 b3 : UInt8) (D : Str) (hs : s = dotted [b0, b1, b2, b3] ++ '/' :: D) (hd : isDecStr D = true)
      (hle : foldDig 10 0 D ≤ 32)
  | mask (b0 b1 b2 b3 m0 m1 m2 m3 : UInt8) (len : Nat) (hs : s = dotted [b0, b1, b2, b3] ++ '/' :: dotted [m0, m1, m2, m3])
      (hle : len ≤ 32) (hm : beDec [m0, m1, m2, m3] = 2 ^ 32 - 2 ^ (32 - len))

theorem isDecStr_spec (D : Str) (h : isDecStr D = true) : D ≠ [] ∧ AllDig 10 D := by
  unfold isDecStr at h
  simp only [Bool.and_eq_true, Bool.not_eq_true', List.isEmpty_eq_false_iff, List.all_eq_true, decide_eq_true_eq] at h
  exact ⟨h.1, h.2⟩

theorem isDecStr_dotted (b0 b1 b2 b3 : UInt8) : isDecStr (dotted [b0, b1, b2, b3]) = false := by
  unfold isDecStr
  rw [Bool.eq_false_iff]
  intro h
  simp only [Bool.and_eq_true, List.all_eq_true, decide_eq_true_eq] at h
  have := h.2 '.' (dotted4_has_dot b0 b1 b2 b3)
  rw [dv_dot] at this; omega

theorem dec_no_slash (D : Str) (h : AllDig 10 D) : '/' ∉ D := h.not_mem (by rw [dv_slash]; decide)

theorem splitOn_two (a0 a1 : Str) (h0 : '/' ∉ a0) (h1 : '/' ∉ a1) : splitOn '/' (a0 ++ '/' :: a1) = [a0, a1] := by
  rw [splitOn_append '/' a0 a1 h0, splitOn_none '/' a1 h1]

theorem splitOnN_two (a0 a1 : Str) (h0 : '/' ∉ a0) (h1 : '/' ∉ a1) : splitOnN '/' 2 (a0 ++ '/' :: a1) = [a0, a1] := by
  rw [splitOnN_append '/' 1 a0 a1 h0, splitOnN_none '/' 0 a1 h1]

/-- on well-formed text the repaired function computes what the original does (so `cidr_text` / `classful_inference` carry over) -/
theorem parseCidrS_eq (s : Str) (h : CidrWF4 s) (infer allowHost : Bool) : parseCidrS s infer allowHost = parseCidr s infer allowHost := by
  cases h with
  | plain b0 b1 b2 b3 hs =>
    unfold parseCidrS parseCidr
    rw [hs, splitOn_none '/' _ (dotted_no_slash _), splitOnN_none '/' 1 _ (dotted_no_slash _)]
  | len b0 b1 b2 b3 D hs hd hle =>
    obtain ⟨hne, hdig⟩ := isDecStr_spec D hd
    unfold parseCidrS parseCidr
    rw [hs, splitOn_two _ _ (dotted_no_slash _) (dec_no_slash D hdig), splitOnN_two _ _ (dotted_no_slash _) (dec_no_slash D hdig)]
    simp only [hd, if_true]
    rw [pyInt_dig 10 (by decide) D hdig hne]
  | mask b0 b1 b2 b3 m0 m1 m2 m3 len hs hle hm =>
    unfold parseCidrS parseCidr
    rw [hs, splitOn_two _ _ (dotted_no_slash _) (dotted_no_slash _), splitOnN_two _ _ (dotted_no_slash _) (dotted_no_slash _)]
    simp only [isDecStr_dotted, Bool.false_eq_true, if_false, pyInt_dotted]

theorem ofText_dotted (a : Str) (x : IP4) (h : IP4.ofText a = .ok x) : ∃ b0 b1 b2 b3, a = dotted [b0, b1, b2, b3] ∧ x = ip4OfBytes b0 b1 b2 b3 := by
  unfold IP4.ofText at h
  cases ha : inetAton a with
  | error e => rw [ha] at h; cases h
  | ok bs =>
    obtain ⟨hl, hs⟩ := (inetAton_iff a bs).mp ha
    obtain ⟨b0, b1, b2, b3, rfl⟩ := list_len4 bs hl
    rw [ha] at h
    exact ⟨b0, b1, b2, b3, hs, by injection h with h; exact h.symm⟩

theorem bind_ok_inv {α β : Type} (x : Except Err α) (f : α → Except Err β) (r : β) (h : (x >>= f) = .ok r) :
    ∃ a, x = .ok a ∧ f a = .ok r := by
  cases x with
  | error e => cases h
  | ok a => exact ⟨a, rfl, h⟩

/-- whatever the repaired function accepts is well-formed CIDR text -/
theorem parseCidrS_wf (s : Str) (infer allowHost : Bool) (r : IP4 × Nat) (h : parseCidrS s infer allowHost = .ok r) : CidrWF4 s := by
  have hj := joinWith_splitOn '/' s
  unfold parseCidrS at h
  split at h
  · -- no slash
    rename_i a0 hsp
    rw [hsp, joinWith_single] at hj
    have : ∃ x, IP4.ofText a0 = .ok x := by
      unfold cidrPlain at h
      cases hx : IP4.ofText a0 with
      | ok x => exact ⟨x, rfl⟩
      | error e =>
        rw [hx] at h
        cases infer <;> simp [bind, Except.bind] at h
    obtain ⟨x, hx⟩ := this
    obtain ⟨b0, b1, b2, b3, ha, _⟩ := ofText_dotted a0 x hx
    exact .plain b0 b1 b2 b3 (by rw [← hj, ha])
  · rename_i a0 a1 hsp
    rw [hsp] at hj
    have hs : s = a0 ++ '/' :: a1 := by rw [← hj]; rfl
    by_cases hd : isDecStr a1 = true
    · rw [if_pos hd] at h
      obtain ⟨hne, hdig⟩ := isDecStr_spec a1 hd
      rw [pyInt_dig 10 (by decide) a1 hdig hne] at h
      simp only at h
      unfold cidrLen at h
      simp only at h
      by_cases hw : ((32 : Int) - ((foldDig 10 0 a1 : Nat) : Int) < 0 ∨ (32 : Int) - ((foldDig 10 0 a1 : Nat) : Int) > 32)
      · rw [if_pos hw] at h; cases h
      · rw [if_neg hw] at h
        obtain ⟨x, hx, _⟩ := bind_ok_inv _ _ _ h
        obtain ⟨b0, b1, b2, b3, ha, _⟩ := ofText_dotted a0 x hx
        exact .len b0 b1 b2 b3 a1 (by rw [hs, ha]) hd (by omega)
    · rw [if_neg hd] at h
      unfold cidrMask at h
      obtain ⟨m, hm, h⟩ := bind_ok_inv _ _ _ h
      obtain ⟨len, hlen, h⟩ := bind_ok_inv _ _ _ h
      obtain ⟨x, hx, _⟩ := bind_ok_inv _ _ _ h
      obtain ⟨m0, m1, m2, m3, hma, hmv⟩ := ofText_dotted a1 m hm
      obtain ⟨b0, b1, b2, b3, ha, _⟩ := ofText_dotted a0 x hx
      rw [hmv, ip4OfBytes_host, maskBits_eq 32 (by decide) _ (by have := beDec_lt [m0, m1, m2, m3]; simpa using this)] at hlen
      have hspec := (netmaskToCidrN_spec 32 (by decide) _ (by have := beDec_lt [m0, m1, m2, m3]; simpa using this) len).mp hlen
      exact .mask b0 b1 b2 b3 m0 m1 m2 m3 len (by rw [hs, ha, hma]) hspec.1 hspec.2
  · cases h

/-- **accept ⇔ well-formed** (with `allow_host`, which switches the host-bits test off): every well-formed text is accepted -/
theorem parseCidrS_accepts (s : Str) (h : CidrWF4 s) (infer : Bool) : ∃ r, parseCidrS s infer true = .ok r := by
  rw [parseCidrS_eq s h infer true]
  cases h with
  | plain b0 b1 b2 b3 hs => rw [hs, parseCidr_plain]; exact ⟨_, rfl⟩
  | len b0 b1 b2 b3 D hs hd hle =>
    obtain ⟨hne, hdig⟩ := isDecStr_spec D hd
    rw [hs]
    unfold parseCidr cidrLen
    rw [splitOnN_two _ _ (dotted_no_slash _) (dec_no_slash D hdig)]
    simp only
    rw [pyInt_dig 10 (by decide) D hdig hne]
    simp only
    rw [if_neg (by omega), ip4OfBytes_text, ok_bind, cidrCheck_eq]
    simp only [Bool.not_true, Bool.false_and, Bool.false_eq_true, if_false]
    exact ⟨_, rfl⟩
  | mask b0 b1 b2 b3 m0 m1 m2 m3 len hs hle hm =>
    rw [hs, parseCidr_netmask b0 b1 b2 b3 m0 m1 m2 m3 len hle hm]
    simp only [Bool.not_true, Bool.false_and, Bool.false_eq_true, if_false]
    exact ⟨_, rfl⟩

end Pox.Addr

namespace Pox.Addr

/-! ### exact results on well-formed text, for every flag value -/

/-- what `addr/len` gives, `len` the value of any string of decimal digits (leading zeros allowed: `"/08"`) -/
def cidrLenResult (w : Nat) {α : Type} (x : α) (num len : Nat) (allowHost : Bool) : Except Err (α × Nat) :=
  if len > w then .error .assertion
  else if !allowHost && decide (num % 2 ^ (w - len) ≠ 0) then .error .runtime
  else .ok (x, len)

theorem cidrLen_eq (b0 b1 b2 b3 : UInt8) (len : Nat) (allowHost : Bool) :
    cidrLen (dotted [b0, b1, b2, b3]) (len : Int) allowHost =
      cidrLenResult 32 (ip4OfBytes b0 b1 b2 b3) (beDec [b0, b1, b2, b3]) len allowHost := by
  unfold cidrLen cidrLenResult
  simp only
  by_cases hl : len > 32
  · rw [if_pos hl, if_pos (by omega)]
  · rw [if_neg hl, if_neg (by omega), ip4OfBytes_text, ok_bind]
    have hw : ((32 : Int) - (len : Int)).toNat = 32 - len := by omega
    rw [hw, cidrCheck_eq, ip4OfBytes_host]
    by_cases hc : (!allowHost && decide (beDec [b0, b1, b2, b3] % 2 ^ (32 - len) ≠ 0)) = true
    · rw [if_pos hc, if_pos hc]; rfl
    · rw [if_neg hc, if_neg hc, ok_bind]
      have : 32 - (32 - len) = len := by omega
      rw [this]; rfl

theorem parseCidr_prefixD (b0 b1 b2 b3 : UInt8) (D : Str) (hd : isDecStr D = true) (infer allowHost : Bool) :
    parseCidr (dotted [b0, b1, b2, b3] ++ '/' :: D) infer allowHost =
      cidrLenResult 32 (ip4OfBytes b0 b1 b2 b3) (beDec [b0, b1, b2, b3]) (foldDig 10 0 D) allowHost := by
  obtain ⟨hne, hdig⟩ := isDecStr_spec D hd
  unfold parseCidr
  rw [splitOnN_two _ _ (dotted_no_slash _) (dec_no_slash D hdig)]
  simp only
  rw [pyInt_dig 10 (by decide) D hdig hne]
  exact cidrLen_eq b0 b1 b2 b3 _ allowHost

theorem parseCidrS_prefixD (b0 b1 b2 b3 : UInt8) (D : Str) (hd : isDecStr D = true) (infer allowHost : Bool) :
    parseCidrS (dotted [b0, b1, b2, b3] ++ '/' :: D) infer allowHost =
      cidrLenResult 32 (ip4OfBytes b0 b1 b2 b3) (beDec [b0, b1, b2, b3]) (foldDig 10 0 D) allowHost := by
  obtain ⟨hne, hdig⟩ := isDecStr_spec D hd
  unfold parseCidrS
  rw [splitOn_two _ _ (dotted_no_slash _) (dec_no_slash D hdig)]
  simp only [hd, if_true]
  rw [pyInt_dig 10 (by decide) D hdig hne]
  exact cidrLen_eq b0 b1 b2 b3 _ allowHost

theorem parseCidrS_netmask (b0 b1 b2 b3 m0 m1 m2 m3 : UInt8) (len : Nat) (hlen : len ≤ 32)
    (hm : beDec [m0, m1, m2, m3] = 2 ^ 32 - 2 ^ (32 - len)) (infer allowHost : Bool) :
    parseCidrS (dotted [b0, b1, b2, b3] ++ '/' :: dotted [m0, m1, m2, m3]) infer allowHost =
      cidrLenResult 32 (ip4OfBytes b0 b1 b2 b3) (beDec [b0, b1, b2, b3]) len allowHost := by
  rw [parseCidrS_eq _ (.mask b0 b1 b2 b3 m0 m1 m2 m3 len rfl hlen hm), parseCidr_netmask b0 b1 b2 b3 m0 m1 m2 m3 len hlen hm]
  unfold cidrLenResult
  rw [if_neg (show ¬ len > 32 by omega)]

theorem parseCidrS_plain (b0 b1 b2 b3 : UInt8) (infer allowHost : Bool) :
    parseCidrS (dotted [b0, b1, b2, b3]) infer allowHost = parseCidr (dotted [b0, b1, b2, b3]) infer allowHost :=
  parseCidrS_eq _ (.plain b0 b1 b2 b3 rfl) infer allowHost

/-! ### `get_network` and `inNetwork("net/len")` -/

theorem and_shift (k t m r : Nat) (hr : r < 2 ^ k) : (2 ^ k * t + r) &&& (2 ^ k * m) = 2 ^ k * (t &&& m) := by
  apply Nat.eq_of_testBit_eq
  intro j
  rw [Nat.testBit_and, Nat.testBit_two_pow_mul_add t hr j, Nat.testBit_two_pow_mul, Nat.testBit_two_pow_mul, Nat.testBit_and]
  by_cases hj : j < k
  · have : ¬ j ≥ k := by omega
    simp [hj, this]
  · have : j ≥ k := by omega
    simp [hj, this]

/-- `h & netmask(len)` clears the host bits -/
theorem and_mask (h len : Nat) (hh : h < 2 ^ 32) (hl : len ≤ 32) : h &&& (2 ^ 32 - 2 ^ (32 - len)) = h - h % 2 ^ (32 - len) := by
  have hd : h = 2 ^ (32 - len) * (h / 2 ^ (32 - len)) + h % 2 ^ (32 - len) := (Nat.div_add_mod h _).symm
  have hr : h % 2 ^ (32 - len) < 2 ^ (32 - len) := Nat.mod_lt _ (Nat.pow_pos (by decide))
  have hsplit : 2 ^ 32 = 2 ^ (32 - len) * 2 ^ len := by rw [← Nat.pow_add]; congr 1; omega
  have hm : 2 ^ 32 - 2 ^ (32 - len) = 2 ^ (32 - len) * (2 ^ len - 1) := by
    rw [Nat.mul_sub, Nat.mul_one, ← hsplit]
  have hq : h / 2 ^ (32 - len) < 2 ^ len := by
    rw [Nat.div_lt_iff_lt_mul (Nat.pow_pos (by decide)), Nat.mul_comm, ← hsplit]; exact hh
  conv => lhs; rw [hd, hm]
  rw [and_shift _ _ _ _ hr, Nat.and_two_pow_sub_one_eq_mod, Nat.mod_eq_of_lt hq]
  omega

theorem mask_inverse_aux (b : Nat) (hb : b ≤ 32) :
    ∃ m, cidrToNetmask b = .ok m ∧ m.Valid ∧ m.toUnsigned false = 2 ^ 32 - 2 ^ (32 - b) ∧ netmaskToCidr m = .ok b := by
  have hlt := mask_lt 32 b
  refine ⟨IP4.ofInt ((2 ^ 32 - 2 ^ (32 - b) : Nat) : Int) false, ?_, IP4.ofInt_valid _ _, IP4.toUnsigned_ofInt _ hlt false, ?_⟩
  · unfold cidrToNetmask; rw [cidrMaskN_eq 32 b hb]; rfl
  · unfold netmaskToCidr
    rw [IP4.toUnsigned_ofInt _ hlt false]
    exact (netmaskToCidrN_spec 32 (by decide) _ hlt b).mpr ⟨hb, rfl⟩

theorem quad255 : "255.255.255.255/".toList = dotted [255, 255, 255, 255] ++ ['/'] := by decide

/-- `x.get_network(len)` for `len` given as decimal digits: the address with its host bits cleared, and `len` -/
theorem getNetwork_spec (pc : Str → Bool → Bool → Except Err (IP4 × Nat)) (a : IP4) (D : Str) (len : Nat) (hl : len ≤ 32)
    (hpc : ∀ x, pc (dotted [255, 255, 255, 255] ++ '/' :: D) true true = .ok x → x.2 = len)
    (hok : ∃ x, pc (dotted [255, 255, 255, 255] ++ '/' :: D) true true = .ok x) :
    ∃ y, getNetworkWith pc a D = .ok (y, len) ∧ y.Valid ∧
      y.toUnsigned false = a.toUnsigned false - a.toUnsigned false % 2 ^ (32 - len) := by
  obtain ⟨x, hx⟩ := hok
  have hxl := hpc x hx
  obtain ⟨m, hm, _, hmu, _⟩ := mask_inverse_aux len hl
  have hh := IP4.toUnsigned_lt a false
  have hval : a.toUnsigned false &&& m.toUnsigned false = a.toUnsigned false - a.toUnsigned false % 2 ^ (32 - len) := by
    rw [hmu]; exact and_mask _ len hh hl
  refine ⟨IP4.ofInt ((a.toUnsigned false &&& m.toUnsigned false : Nat) : Int) false, ?_, IP4.ofInt_valid _ _, ?_⟩
  · unfold getNetworkWith
    have e : "255.255.255.255/".toList ++ D = dotted [255, 255, 255, 255] ++ '/' :: D := by rw [quad255]; simp
    rw [e, hx]
    obtain ⟨x1, x2⟩ := x
    simp only at hxl
    subst hxl
    simp only [bind, Except.bind, hm, pure, Except.pure]
  · rw [IP4.toUnsigned_ofInt _ (by rw [hval]; omega) false, hval]

end Pox.Addr

namespace Pox.Addr

theorem inNetworkN_bool (w a n b : Nat) (hb : b ≤ w) (hn : n % 2 ^ (w - b) = 0) :
    inNetworkN w a n b = .ok (decide (a / 2 ^ (w - b) = n / 2 ^ (w - b))) := by
  obtain ⟨r, hr⟩ := inNetworkN_total w a n b hb
  have hi := inNetworkN_iff w a n b hb
  rw [hr]
  congr 1
  cases r with
  | true => have := hi.mp hr; simp [this.1]
  | false =>
    by_cases he : a / 2 ^ (w - b) = n / 2 ^ (w - b)
    · have := hi.mpr ⟨he, hn⟩
      rw [hr] at this; cases this
    · simp [he]

/-- the answer of `a.inNetwork("n/len")`: the text is refused when `len > 32` (AssertionError) or `n` has host bits
    (RuntimeError); otherwise membership is equality of the top `len` bits -/
def inNetResult (w num_a num_n len : Nat) : Except Err Bool :=
  if len > w then .error .assertion
  else if num_n % 2 ^ (w - len) ≠ 0 then .error .runtime
  else .ok (decide (num_a / 2 ^ (w - len) = num_n / 2 ^ (w - len)))

theorem inNetworkText_spec (pc : Str → Bool → Bool → Except Err (IP4 × Nat)) (a : IP4) (net : Str) (b0 b1 b2 b3 : UInt8) (len : Nat)
    (hpc : pc net true false = cidrLenResult 32 (ip4OfBytes b0 b1 b2 b3) (beDec [b0, b1, b2, b3]) len false) :
    inNetworkTextWith pc a net = inNetResult 32 (a.toUnsigned false) (beDec [b0, b1, b2, b3]) len := by
  unfold inNetworkTextWith inNetResult
  rw [hpc]
  unfold cidrLenResult
  by_cases hl : len > 32
  · rw [if_pos hl, if_pos hl]; rfl
  · rw [if_neg hl, if_neg hl]
    by_cases hh : beDec [b0, b1, b2, b3] % 2 ^ (32 - len) ≠ 0
    · rw [if_pos (by simp [hh]), if_pos hh]; rfl
    · rw [if_neg (by simp [hh]), if_neg hh, ok_bind]
      unfold inNetwork
      dsimp only
      rw [ip4OfBytes_host]
      exact inNetworkN_bool 32 _ _ len (by omega) (by omega)

end Pox.Addr
