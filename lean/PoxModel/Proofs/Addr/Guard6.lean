import PoxModel.Proofs.Addr.IP6
/-! C16 helper lemmas, part 15: the validation of the repaired IPv6 text parser (`guard6`, `parseGroupsS`) on texts of known
structure.  Core only. -/
namespace Pox.Addr

/-! ### `partition('::')` on joined groups -/

theorem partitionDC_cons2 (a b : Char) (r : Str) :
    partitionDC (a :: b :: r) = if a = ':' ∧ b = ':' then some ([], r) else (partitionDC (b :: r)).map fun p => (a :: p.1, p.2) := by
  simp [partitionDC]
theorem partitionDC_single (a : Char) : partitionDC [a] = none := by simp [partitionDC]

theorem partitionDC_nocolon (g t : Str) (hg : ':' ∉ g) :
    partitionDC (g ++ t) = (partitionDC t).map fun p => (g ++ p.1, p.2) := by
  induction g with
  | nil => simp
  | cons c g' ih =>
    have hc : c ≠ ':' := fun e => hg (by simp [e])
    have hg' : ':' ∉ g' := fun h => hg (by simp [h])
    rw [List.cons_append]
    cases hgt : g' ++ t with
    | nil =>
      have : t = [] := (List.append_eq_nil_iff.mp hgt).2
      rw [partitionDC_single, this]; rfl
    | cons b r =>
      rw [partitionDC_cons2, if_neg (fun h => hc h.1), ← hgt, ih hg']
      cases partitionDC t <;> simp

theorem partitionDC_dc (rest : Str) : partitionDC (':' :: ':' :: rest) = some ([], rest) := by
  rw [partitionDC_cons2]; simp

theorem partitionDC_colon (c : Char) (r : Str) (hc : c ≠ ':') :
    partitionDC (':' :: c :: r) = (partitionDC (c :: r)).map fun p => (':' :: p.1, p.2) := by
  rw [partitionDC_cons2, if_neg (fun h => hc h.2)]

/-- strings of a segment list: non-empty and colon-free -/
def Clean (ss : List Str) : Prop := ∀ g ∈ ss, g ≠ [] ∧ ':' ∉ g

theorem partitionDC_join_dc : ∀ (ss : List Str) (rest : Str), Clean ss →
    partitionDC (joinWith ':' ss ++ ':' :: ':' :: rest) = some (joinWith ':' ss, rest) := by
  intro ss
  induction ss with
  | nil => intro rest _; exact partitionDC_dc rest
  | cons g t ih =>
    intro rest h
    have hg := h g (by simp)
    cases t with
    | nil =>
      rw [joinWith_single, partitionDC_nocolon g _ hg.2, partitionDC_dc]; simp
    | cons g' t' =>
      have hg' := h g' (by simp)
      obtain ⟨c, r, hcr⟩ : ∃ c r, g' = c :: r := by
        cases hh : g' with
        | nil => exact absurd hh hg'.1
        | cons c r => exact ⟨c, r, rfl⟩
      have hc : c ≠ ':' := fun e => hg'.2 (by rw [hcr]; simp [e])
      have ht : Clean (g' :: t') := fun x hx => h x (by simp [hx])
      have e1 : joinWith ':' (g' :: t') ++ ':' :: ':' :: rest = c :: (r ++ (joinWith ':' (g' :: t')).drop g'.length ++ ':' :: ':' :: rest) := by
        cases t' with
        | nil => rw [joinWith_single, hcr]; simp
        | cons g'' t'' => rw [joinWith_cons_cons, hcr]; simp
      rw [joinWith_cons_cons, List.append_assoc, partitionDC_nocolon g _ hg.2, List.cons_append, e1, partitionDC_colon c _ hc, ← e1,
        ih rest ht]
      simp

theorem partitionDC_join_none : ∀ (ss : List Str), Clean ss → partitionDC (joinWith ':' ss) = none := by
  intro ss
  induction ss with
  | nil => intro _; rfl
  | cons g t ih =>
    intro h
    have hg := h g (by simp)
    cases t with
    | nil =>
      rw [joinWith_single]
      have := partitionDC_nocolon g [] hg.2
      rw [List.append_nil] at this
      rw [this]; rfl
    | cons g' t' =>
      have hg' := h g' (by simp)
      obtain ⟨c, r, hcr⟩ : ∃ c r, g' = c :: r := by
        cases hh : g' with
        | nil => exact absurd hh hg'.1
        | cons c r => exact ⟨c, r, rfl⟩
      have hc : c ≠ ':' := fun e => hg'.2 (by rw [hcr]; simp [e])
      have ht : Clean (g' :: t') := fun x hx => h x (by simp [hx])
      have e1 : joinWith ':' (g' :: t') = c :: (r ++ (joinWith ':' (g' :: t')).drop g'.length) := by
        cases t' with
        | nil => rw [joinWith_single, hcr]; simp
        | cons g'' t'' => rw [joinWith_cons_cons, hcr]; simp
      rw [joinWith_cons_cons, partitionDC_nocolon g _ hg.2, e1, partitionDC_colon c _ hc, ← e1, ih ht]
      rfl

theorem Segs.Good.join_nil {L : Segs} (h : L.Good) : joinWith ':' L.strs = [] ↔ L = [] := by
  constructor
  · intro hj
    cases L with
    | nil => rfl
    | cons p t =>
      exfalso
      have hp := (h p (by simp)).1.ne
      cases t with
      | nil => simp [Segs.strs, joinWith] at hj; exact hp hj
      | cons p' t' =>
        simp only [Segs.strs, List.map_cons] at hj
        rw [joinWith_cons_cons] at hj
        exact hp (List.append_eq_nil_iff.mp hj).1
  · intro e; subst e; rfl

theorem Segs.Good.clean {ps : Segs} (h : ps.Good) : Clean ps.strs := h.segs

/-! ### `guard6` on structured texts -/

/-- every text is one to four hex digits -/
def Segs.Hex4 (ps : Segs) : Prop := ∀ p ∈ ps, isHexStr 1 4 p.2 = true

theorem Segs.Hex4.append {ps qs : Segs} (hp : ps.Hex4) (hq : qs.Hex4) : (ps ++ qs).Hex4 := by
  intro p h
  rcases List.mem_append.mp h with h | h
  · exact hp p h
  · exact hq p h

theorem Segs.Hex4.all {ps : Segs} (h : ps.Hex4) : ps.strs.all (isHexStr 1 4) = true := by
  rw [List.all_eq_true]
  intro s hs
  obtain ⟨p, hp, rfl⟩ := List.mem_map.mp hs
  exact h p hp

theorem sideGroups_join {ps : Segs} (h : ps.Good) : sideGroups (joinWith ':' ps.strs) = ps.strs := by
  unfold sideGroups
  by_cases hn : ps = []
  · subst hn; rfl
  · have hne : joinWith ':' ps.strs ≠ [] := fun e => hn (h.join_nil.mp e)
    have : (joinWith ':' ps.strs).isEmpty = false := by
      cases hj : joinWith ':' ps.strs with
      | nil => exact absurd hj hne
      | cons _ _ => rfl
    rw [this]
    simp only [Bool.false_eq_true, if_false]
    rw [splitOn_join ':' _ (fun g hg => (h.segs g hg).2)]
    unfold segsOf
    rw [if_neg (by simpa [Segs.strs] using hn)]

theorem guard6_dc (L R : Segs) (hL : L.Good) (hR : R.Good) (xL : L.Hex4) (xR : R.Hex4) (hlen : L.length + R.length ≤ 7) :
    guard6 (joinWith ':' L.strs ++ ':' :: ':' :: joinWith ':' R.strs) = true := by
  unfold guard6
  rw [partitionDC_join_dc _ _ hL.clean]
  simp only
  rw [partitionDC_join_none _ hR.clean, sideGroups_join hL, sideGroups_join hR]
  simp only [Option.isSome_none, Bool.not_false, Bool.true_and, List.all_append, xL.all, xR.all, Bool.and_self, Bool.and_true,
    decide_eq_true_eq, List.length_append]
  simp [Segs.strs]; exact hlen

theorem guard6_plain (ps : Segs) (h : ps.Good) (hx : ps.Hex4) (hlen : ps.length = 8) : guard6 (joinWith ':' ps.strs) = true := by
  unfold guard6
  rw [partitionDC_join_none _ h.clean]
  simp only
  rw [sideGroups_join h, hx.all]
  simp [Segs.strs, hlen]

/-! ### the repaired group parser on structured texts -/

theorem parseGroupsS_of_guard (addr : Str) (hg : guard6 addr = true) :
    parseGroupsS addr = (do
      let (p0, p1) ← parseSegs (splitOn ':' addr) false [] []
      pure (groupBytes (p0 ++ List.replicate (8 - p0.length - p1.length) 0 ++ p1))) := by
  unfold parseGroupsS
  rw [hg]; rfl

theorem parseGroupsS_dc (L R : Segs) (hL : L.Good) (hR : R.Good) (xL : L.Hex4) (xR : R.Hex4) (hlen : L.length + R.length ≤ 7) :
    parseGroupsS (joinWith ':' L.strs ++ ':' :: ':' :: joinWith ':' R.strs) =
      .ok (groupBytes (L.vals ++ List.replicate (8 - L.length - R.length) 0 ++ R.vals)) := by
  have hsL := hL.segs
  have hsR := hR.segs
  have hsplit : splitOn ':' (joinWith ':' L.strs ++ ':' :: ':' :: joinWith ':' R.strs) =
      segsOf L.strs ++ [] :: segsOf R.strs := by
    rw [splitOn_join_append ':' _ _ (fun g hg => (hsL g hg).2)]
    congr 1
    rw [splitOn, if_pos rfl, splitOn_join ':' _ (fun g hg => (hsR g hg).2)]
  rw [parseGroupsS_of_guard _ (guard6_dc L R hL hR xL xR hlen), hsplit, parseSegs_segsOf_left L _ hL, parseSegs_segsOf_right R _ hR]
  simp [Segs.vals, bind, Except.bind, pure, Except.pure]

theorem parseGroupsS_plain (ps : Segs) (hg : ps.Good) (hx : ps.Hex4) (hl : ps.length = 8) :
    parseGroupsS (joinWith ':' ps.strs) = .ok (groupBytes ps.vals) := by
  have hsegs := hg.segs
  have hlen : ps.strs.length = 8 := by simpa [Segs.strs] using hl
  have hsplit : splitOn ':' (joinWith ':' ps.strs) = ps.strs := by
    rw [splitOn_join ':' _ (fun g hg => (hsegs g hg).2)]
    unfold segsOf
    rw [if_neg]
    intro h
    rw [h] at hlen; simp at hlen
  rw [parseGroupsS_of_guard _ (guard6_plain ps hg hx hl), hsplit]
  have := parseSegs_good ps [] false [] [] hg
  rw [List.append_nil] at this
  rw [this]
  have hv : ps.vals.length = 8 := by simpa [Segs.vals] using hl
  simp [parseSegs, hv, bind, Except.bind, pure, Except.pure]

/-- where the old parser succeeds and the validation passes, the repaired parser returns the same bytes -/
theorem parseGroupsS_of_parseGroups (addr : Str) (v : Bytes) (h : parseGroups addr = .ok v) (hg : guard6 addr = true) :
    parseGroupsS addr = .ok v := by
  rw [parseGroupsS_of_guard _ hg]
  unfold parseGroups at h
  by_cases h1 : countDC addr > 1
  · rw [if_pos h1] at h; cases h
  · rw [if_neg h1] at h
    by_cases h2 : (splitOn ':' addr).length < 3 ∨ (splitOn ':' addr).length > 8
    · rw [if_pos h2] at h; cases h
    · rw [if_neg h2] at h; exact h

/-! ### printed groups are one to four hex digits -/

theorem natDigits_len_le (base : Nat) (hb2 : 2 ≤ base) : ∀ f k n, 1 ≤ k → n < base ^ k → (natDigits base f n).length ≤ k := by
  intro f
  induction f with
  | zero => intro k n _ _; simp [natDigits]
  | succ f ih =>
    intro k n hk hn
    unfold natDigits
    by_cases h : n < base
    · rw [if_pos h]; simpa using hk
    · rw [if_neg h]
      obtain ⟨k', rfl⟩ : ∃ k', k = k' + 1 := ⟨k - 1, by omega⟩
      have hk' : 1 ≤ k' := by
        rcases Nat.eq_zero_or_pos k' with h0 | h0
        · subst h0; simp at hn; omega
        · exact h0
      have hdiv : n / base < base ^ k' := by
        rw [Nat.div_lt_iff_lt_mul (by omega)]
        rw [Nat.pow_succ] at hn; exact hn
      have := ih k' (n / base) hk' hdiv
      simp; omega

theorem isHexStr_of (lo hi : Nat) (s : Str) (h1 : lo ≤ s.length) (h2 : s.length ≤ hi) (hd : AllDig 16 s) : isHexStr lo hi s = true := by
  unfold isHexStr
  simp only [Bool.and_eq_true, decide_eq_true_eq, List.all_eq_true]
  exact ⟨⟨h1, h2⟩, hd⟩

theorem fmtG_hex4 (zd : Bool) (g : Nat) (hg : g < 65536) : isHexStr 1 4 (fmtG zd g) = true := by
  have good := fmtG_good zd g
  have hlen1 : 1 ≤ (fmtG zd g).length := by
    cases h : fmtG zd g with
    | nil => exact absurd h good.ne
    | cons _ _ => simp
  refine isHexStr_of 1 4 _ hlen1 ?_ good.dig
  have hl : (fmtNat 16 g).length ≤ 4 := natDigits_len_le 16 (by decide) _ 4 g (by decide) (by simpa using hg)
  unfold fmtG hex4 padZero
  cases zd
  · simp only [Bool.false_eq_true, if_false, List.length_append, List.length_replicate]; omega
  · simpa using hl

theorem printed_hex4 (zd : Bool) (gs : List Nat) (h : ∀ g ∈ gs, g < 65536) : (printed zd gs).Hex4 := by
  intro p hp
  obtain ⟨g, hg, rfl⟩ := List.mem_map.mp hp
  exact fmtG_hex4 zd g (h g hg)

theorem zeroSeg_hex4 : Segs.Hex4 [(0, ['0']), (0, ['0'])] := by
  intro p hp
  simp only [List.mem_cons, List.not_mem_nil, or_false, or_self] at hp
  subst hp; decide

end Pox.Addr
