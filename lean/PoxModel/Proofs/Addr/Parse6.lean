import PoxModel.Proofs.Addr.IP6RT
import PoxModel.Proofs.Addr.Spec
/-! C16 helper lemmas, part 12: the parser returns the denotation of every RFC 4291 text (`denote6`), except for the
explicitly characterised unsupported forms.  Core only. -/
namespace Pox.Addr

/-! ### split is inverted by join -/

theorem joinWith_cons_head (c x : Char) (h : Str) (t : List Str) : joinWith c ((x :: h) :: t) = x :: joinWith c (h :: t) := by
  cases t <;> rfl

theorem joinWith_splitOn (c : Char) : ∀ s : Str, joinWith c (splitOn c s) = s := by
  intro s
  induction s with
  | nil => rfl
  | cons x xs ih =>
    unfold splitOn
    by_cases hx : x = c
    · rw [if_pos hx]
      obtain ⟨h, t, ht⟩ : ∃ h t, splitOn c xs = h :: t := by
        cases hs : splitOn c xs with
        | nil => exact absurd hs (splitOn_ne_nil c xs)
        | cons h t => exact ⟨h, t, rfl⟩
      rw [ht, joinWith_cons_cons, ← ht, ih, hx]; rfl
    · rw [if_neg hx]
      cases hs : splitOn c xs with
      | nil => exact absurd hs (splitOn_ne_nil c xs)
      | cons h t =>
        simp only
        rw [joinWith_cons_head, ← hs, ih]

theorem splitOn_no_sep (c : Char) : ∀ (s : Str), ∀ p ∈ splitOn c s, c ∉ p := by
  intro s
  induction s with
  | nil => intro p hp; simp [splitOn] at hp; subst hp; simp
  | cons x xs ih =>
    intro p hp
    unfold splitOn at hp
    by_cases hx : x = c
    · rw [if_pos hx] at hp
      rcases List.mem_cons.mp hp with rfl | hp
      · simp
      · exact ih p hp
    · rw [if_neg hx] at hp
      cases hs : splitOn c xs with
      | nil => exact absurd hs (splitOn_ne_nil c xs)
      | cons h t =>
        rw [hs] at hp ih
        simp only at hp
        rcases List.mem_cons.mp hp with rfl | hp
        · intro hm
          rcases List.mem_cons.mp hm with e | hm
          · exact hx e.symm
          · exact ih h (by simp) hm
        · exact ih p (by simp [hp])

theorem splitDC_eq : ∀ (s l r : Str), splitDC s = some (l, r) → s = l ++ ':' :: ':' :: r := by
  intro s
  induction s with
  | nil => intro l r h; simp [splitDC] at h
  | cons a t ih =>
    intro l r h
    unfold splitDC at h
    cases t with
    | nil => simp at h
    | cons b r' =>
      simp only at h
      by_cases hc : a = ':' ∧ b = ':'
      · rw [if_pos hc] at h
        simp only [Option.some.injEq, Prod.mk.injEq] at h
        rw [← h.1, ← h.2, hc.1, hc.2]; rfl
      · rw [if_neg hc] at h
        cases hs : splitDC (b :: r') with
        | none => rw [hs] at h; simp at h
        | some p =>
          rw [hs] at h
          simp only [Option.map_some, Option.some.injEq, Prod.mk.injEq] at h
          have := ih p.1 p.2 (by rw [hs])
          rw [← h.1, ← h.2, this]; rfl

/-! ### hex fields -/

theorem foldDig_lt : ∀ (s : Str) (acc : Nat), AllDig 16 s → foldDig 16 acc s < (acc + 1) * 16 ^ s.length := by
  intro s
  induction s with
  | nil => intro acc _; simp [foldDig]
  | cons c cs ih =>
    intro acc h
    have hc : digitVal c < 16 := h c (by simp)
    have := ih (acc * 16 + digitVal c) (fun x hx => h x (by simp [hx]))
    simp only [foldDig, List.foldl_cons, List.length_cons, Nat.pow_succ] at this ⊢
    have hp : 0 < 16 ^ cs.length := Nat.pow_pos (by decide)
    have hle : (acc * 16 + digitVal c + 1) * 16 ^ cs.length ≤ ((acc + 1) * 16) * 16 ^ cs.length :=
      Nat.mul_le_mul_right _ (by omega)
    rw [Nat.mul_comm (16 ^ cs.length) 16, ← Nat.mul_assoc]
    omega

theorem hexGroup_good (p : Str) (h : isHexGroup p = true) : GoodHex (groupVal p) p ∧ groupVal p < 65536 := by
  unfold isHexGroup at h
  simp only [Bool.and_eq_true, decide_eq_true_eq, List.all_eq_true] at h
  obtain ⟨⟨h1, h4⟩, hd⟩ := h
  have hdig : AllDig 16 p := hd
  refine ⟨⟨by intro e; rw [e] at h1; simp at h1, hdig, rfl⟩, ?_⟩
  have := foldDig_lt p 0 hdig
  have hp : 16 ^ p.length ≤ 16 ^ 4 := Nat.pow_le_pow_right (by decide) h4
  have : groupVal p = foldDig 16 0 p := rfl
  omega

/-- (value, text) pairs of a list of hex fields -/
def hexSegs (ps : List Str) : Segs := ps.map fun p => (groupVal p, p)

theorem hexSegs_strs (ps : List Str) : (hexSegs ps).strs = ps := by simp [hexSegs, Segs.strs, Function.comp_def]
theorem hexSegs_vals (ps : List Str) : (hexSegs ps).vals = ps.map groupVal := by simp [hexSegs, Segs.vals, Function.comp_def]
theorem hexSegs_length (ps : List Str) : (hexSegs ps).length = ps.length := by simp [hexSegs]
theorem hexSegs_good (ps : List Str) (h : ∀ p ∈ ps, isHexGroup p = true) : (hexSegs ps).Good := by
  intro q hq
  obtain ⟨p, hp, rfl⟩ := List.mem_map.mp hq
  exact hexGroup_good p (h p hp)

theorem isHexStr_eq (p : Str) : isHexStr 1 4 p = isHexGroup p := rfl

theorem hexSegs_hex4 (ps : List Str) (h : ∀ p ∈ ps, isHexGroup p = true) : (hexSegs ps).Hex4 := by
  intro q hq
  obtain ⟨p, hp, rfl⟩ := List.mem_map.mp hq
  exact h p hp

theorem nil_hex4 : Segs.Hex4 [] := by intro p hp; simp at hp

/-! ### inversion of the field grammar -/

theorem fieldVals_false : ∀ (ps : List Str) (vs : List Nat), fieldVals ps false = some vs →
    (∀ p ∈ ps, isHexGroup p = true) ∧ vs = ps.map groupVal := by
  intro ps
  induction ps with
  | nil => intro vs h; simp [fieldVals] at h; simp [h]
  | cons p ps ih =>
    intro vs h
    unfold fieldVals at h
    cases ps with
    | nil =>
      simp only at h
      by_cases hp : isHexGroup p = true
      · rw [if_pos hp] at h; simp at h; simp [hp, ← h]
      · rw [if_neg hp] at h; simp at h
    | cons q qs =>
      simp only at h
      by_cases hp : isHexGroup p = true
      · rw [if_pos hp] at h
        cases hr : fieldVals (q :: qs) false with
        | none => rw [hr] at h; simp at h
        | some ws =>
          rw [hr] at h
          simp only [Option.map_some, Option.some.injEq] at h
          obtain ⟨h1, h2⟩ := ih ws hr
          refine ⟨?_, by rw [← h, h2]; rfl⟩
          intro x hx
          rcases List.mem_cons.mp hx with rfl | hx
          · exact hp
          · exact h1 x hx
      · rw [if_neg hp] at h; simp at h

theorem fieldVals_true : ∀ (ps : List Str) (vs : List Nat), fieldVals ps true = some vs →
    ((∀ p ∈ ps, isHexGroup p = true) ∧ vs = ps.map groupVal) ∨
    (∃ init q g, ps = init ++ [q] ∧ (∀ p ∈ init, isHexGroup p = true) ∧ quadGroups q = some g ∧ vs = init.map groupVal ++ g) := by
  intro ps
  induction ps with
  | nil => intro vs h; simp [fieldVals] at h; exact .inl (by simp [h])
  | cons p ps ih =>
    intro vs h
    unfold fieldVals at h
    cases ps with
    | nil =>
      simp only at h
      by_cases hp : isHexGroup p = true
      · rw [if_pos hp] at h; simp at h; exact .inl (by simp [hp, ← h])
      · rw [if_neg hp] at h
        simp only [if_true] at h
        exact .inr ⟨[], p, vs, by simp, by simp, h, by simp⟩
    | cons q qs =>
      simp only at h
      by_cases hp : isHexGroup p = true
      · rw [if_pos hp] at h
        cases hr : fieldVals (q :: qs) true with
        | none => rw [hr] at h; simp at h
        | some ws =>
          rw [hr] at h
          simp only [Option.map_some, Option.some.injEq] at h
          rcases ih ws hr with ⟨h1, h2⟩ | ⟨init, q', g, e, h1, hq, h2⟩
          · refine .inl ⟨?_, by rw [← h, h2]; rfl⟩
            intro x hx
            rcases List.mem_cons.mp hx with rfl | hx
            · exact hp
            · exact h1 x hx
          · refine .inr ⟨p :: init, q', g, by rw [e]; rfl, ?_, hq, by rw [← h, h2]; rfl⟩
            intro x hx
            rcases List.mem_cons.mp hx with rfl | hx
            · exact hp
            · exact h1 x hx
      · rw [if_neg hp] at h; simp at h

end Pox.Addr

namespace Pox.Addr

/-! ### dotted-quad tail -/

theorem mapM_some_all {α β : Type} (f : α → Option β) : ∀ (l : List α) (r : List β), l.mapM f = some r → ∀ x ∈ l, (f x).isSome = true := by
  intro l
  induction l with
  | nil => intro r _ x hx; simp at hx
  | cons a t ih =>
    intro r h x hx
    rw [List.mapM_cons] at h
    cases hfa : f a with
    | none => rw [hfa] at h; simp at h
    | some b =>
      rw [hfa] at h
      cases ht : t.mapM f with
      | none => rw [ht] at h; simp at h
      | some bs =>
        rcases List.mem_cons.mp hx with rfl | hx
        · simp [hfa]
        · exact ih bs ht x hx

theorem inetPart_digits (p : Str) (h : (inetPart p).isSome = true) : AllDig 10 p := by
  unfold inetPart at h
  by_cases h1 : (p.isEmpty || decide (p.length > 3)) = true
  · rw [if_pos h1] at h; simp at h
  · rw [if_neg h1] at h
    by_cases h2 : (!(p.all fun c => decide (digitVal c < 10))) = true
    · rw [if_pos h2] at h; simp at h
    · intro c hc
      simp only [Bool.not_eq_true', Bool.not_eq_false] at h2
      have := List.all_eq_true.mp h2 c hc
      simpa using this

theorem inetAton_ok (q : Str) (bs : Bytes) (h : inetAton q = .ok bs) :
    (∃ b0 b1 b2 b3, bs = [b0, b1, b2, b3]) ∧ '.' ∈ q ∧ ':' ∉ q := by
  unfold inetAton at h
  cases hm : (splitOn '.' q).mapM inetPart with
  | none => rw [hm] at h; simp at h
  | some r =>
    rw [hm] at h
    have hall := mapM_some_all inetPart _ r hm
    refine ⟨?_, ?_, ?_⟩
    · match r, h with
      | [a, b, c, d], h => simp only [Except.ok.injEq] at h; exact ⟨_, _, _, _, h.symm⟩
    · apply Classical.byContradiction
      intro hn
      rw [splitOn_none '.' q hn] at hm
      rw [List.mapM_cons, List.mapM_nil] at hm
      cases hp : inetPart q with
      | none => rw [hp] at hm; simp at hm
      | some n =>
        rw [hp] at hm
        simp only [Option.pure_def, Option.bind_eq_bind, Option.bind_some, Option.some.injEq] at hm
        rw [← hm] at h
        simp at h
    · intro hc
      rw [← joinWith_splitOn '.' q] at hc
      rcases mem_joinWith hc with e | ⟨p, hp, hx⟩
      · exact absurd e (by decide)
      · exact (inetPart_digits p (hall p hp)).not_mem (by rw [dv_colon]; decide) hx

theorem quadGroups_some (q : Str) (g : List Nat) (h : quadGroups q = some g) :
    ∃ b0 b1 b2 b3 : UInt8, inetAton q = .ok [b0, b1, b2, b3] ∧ g = [b0.toNat * 256 + b1.toNat, b2.toNat * 256 + b3.toNat] ∧
      '.' ∈ q ∧ ':' ∉ q := by
  unfold quadGroups at h
  cases ha : inetAton q with
  | error e => rw [ha] at h; simp at h
  | ok bs =>
    obtain ⟨⟨b0, b1, b2, b3, rfl⟩, hd, hc⟩ := inetAton_ok q bs ha
    rw [ha] at h
    simp only [Option.some.injEq] at h
    exact ⟨b0, b1, b2, b3, rfl, h.symm, hd, hc⟩

/-- `IPAddr(q).toRaw()` for an accepted quad is the four bytes -/
theorem ip4_of_quad (q : Str) (b0 b1 b2 b3 : UInt8) (h : inetAton q = .ok [b0, b1, b2, b3]) :
    ∃ ip, IP4.ofText q = .ok ip ∧ ip.raw = [b0, b1, b2, b3] := by
  obtain ⟨x, hx, _, hr⟩ := IP4.raw_ofRaw b0 b1 b2 b3
  refine ⟨x, ?_, hr⟩
  unfold IP4.ofText
  rw [h]
  simp only [IP4.ofRaw, List.length_cons, List.length_nil, if_true, Except.ok.injEq] at hx
  simp [Functor.map, Except.map, hx]

/-! ### the structure of one side of the text -/

/-- one side of `::` (or a whole text without `::`) that denotes `vs`: either hex fields only, or hex fields followed by
    a dotted quad -/
inductive Side (t : Str) (vs : List Nat) : Prop
  | hex (ps : Segs) (hg : ps.Good) (hx : ps.Hex4) (ht : t = joinWith ':' ps.strs) (hv : vs = ps.vals)
  | quad (ps : Segs) (q : Str) (b0 b1 b2 b3 : UInt8) (hg : ps.Good) (hx : ps.Hex4) (ht : t = pre ps.strs ++ q)
      (hq : inetAton q = .ok [b0, b1, b2, b3]) (hdot : '.' ∈ q) (hcol : ':' ∉ q)
      (hv : vs = ps.vals ++ [b0.toNat * 256 + b1.toNat, b2.toNat * 256 + b3.toNat])

theorem side_of_listVals (t : Str) (v4 : Bool) (vs : List Nat) (h : listVals t v4 = some vs) :
    Side t vs ∧ (v4 = false → ∃ ps : Segs, ps.Good ∧ ps.Hex4 ∧ t = joinWith ':' ps.strs ∧ vs = ps.vals) := by
  unfold listVals at h
  by_cases he : t.isEmpty = true
  · rw [if_pos he] at h
    have ht : t = [] := by simpa using he
    simp only [Option.some.injEq] at h
    have : Side t vs := .hex [] (by intro p hp; simp at hp) nil_hex4 (by rw [ht]; rfl) (by rw [← h]; rfl)
    exact ⟨this, fun _ => ⟨[], by intro p hp; simp at hp, nil_hex4, by rw [ht]; rfl, by rw [← h]; rfl⟩⟩
  · rw [if_neg he] at h
    have hj := joinWith_splitOn ':' t
    cases v4 with
    | false =>
      obtain ⟨h1, h2⟩ := fieldVals_false _ vs h
      have hs : ∃ ps : Segs, ps.Good ∧ ps.Hex4 ∧ t = joinWith ':' ps.strs ∧ vs = ps.vals :=
        ⟨hexSegs (splitOn ':' t), hexSegs_good _ h1, hexSegs_hex4 _ h1, by rw [hexSegs_strs, hj], by rw [hexSegs_vals, h2]⟩
      obtain ⟨ps, a, x, b, c⟩ := hs
      exact ⟨.hex ps a x b c, fun _ => ⟨ps, a, x, b, c⟩⟩
    | true =>
      refine ⟨?_, fun hf => by simp at hf⟩
      rcases fieldVals_true _ vs h with ⟨h1, h2⟩ | ⟨init, q, g, e, h1, hq, h2⟩
      · exact .hex (hexSegs (splitOn ':' t)) (hexSegs_good _ h1) (hexSegs_hex4 _ h1) (by rw [hexSegs_strs, hj]) (by rw [hexSegs_vals, h2])
      · obtain ⟨b0, b1, b2, b3, hq', hg, hdot, hcol⟩ := quadGroups_some q g hq
        refine .quad (hexSegs init) q b0 b1 b2 b3 (hexSegs_good _ h1) (hexSegs_hex4 _ h1) ?_ hq' hdot hcol (by rw [hexSegs_vals, h2, hg])
        rw [hexSegs_strs, ← hj, e]
        unfold pre
        by_cases hi : init = []
        · subst hi; simp [joinWith]
        · rw [if_neg hi, joinWith_snoc ':' init q hi]; simp

end Pox.Addr

namespace Pox.Addr

/-! ### parsing `L::R` for any number of groups -/

theorem parseGroups_dc' (L R : Segs) (hL : L.Good) (hR : R.Good) :
    parseGroups (joinWith ':' L.strs ++ ':' :: ':' :: joinWith ':' R.strs) =
      if max 1 L.length + 1 + max 1 R.length ≤ 8 then
        .ok (groupBytes (L.vals ++ List.replicate (8 - L.length - R.length) 0 ++ R.vals))
      else .error .runtime := by
  have hsL := hL.segs
  have hsR := hR.segs
  have hsplit : splitOn ':' (joinWith ':' L.strs ++ ':' :: ':' :: joinWith ':' R.strs) =
      segsOf L.strs ++ [] :: segsOf R.strs := by
    rw [splitOn_join_append ':' _ _ (fun g hg => (hsL g hg).2)]
    congr 1
    rw [splitOn, if_pos rfl, splitOn_join ':' _ (fun g hg => (hsR g hg).2)]
  unfold parseGroups
  rw [hsplit, countDC_join_dc _ _ hsL hsR]
  have hl : (segsOf L.strs ++ [] :: segsOf R.strs).length = max 1 L.length + 1 + max 1 R.length := by
    simp [segsOf_length, Segs.strs]; omega
  simp only [hl]
  rw [if_neg (by omega)]
  by_cases hc : max 1 L.length + 1 + max 1 R.length ≤ 8
  · rw [if_pos hc, if_neg (by omega), parseSegs_segsOf_left L _ hL, parseSegs_segsOf_right R _ hR]
    simp [Segs.vals, Functor.map, Except.map]
  · rw [if_neg hc, if_pos (by omega)]

/-! ### text with a dotted-quad tail -/

theorem parse6With_quad (pg : Str → Except Err Bytes) (Q q : Str) (b0 b1 b2 b3 : UInt8) (hQ : '.' ∉ Q)
    (hq : inetAton q = .ok [b0, b1, b2, b3]) (hdot : '.' ∈ q) (hcol : ':' ∉ q) :
    parse6With pg (Q ++ ':' :: q) =
      match pg (Q ++ [':', '0', ':', '0']) with
      | .ok v => .ok (v.take (v.length - 4) ++ [b0, b1, b2, b3])
      | .error e => .error e := by
  obtain ⟨ip, hip, hraw⟩ := ip4_of_quad q b0 b1 b2 b3 hq
  unfold parse6With
  have hd : has '.' (Q ++ ':' :: q) = true := by rw [has_true_iff]; simp [hdot]
  rw [if_pos hd, rsplit1_append ':' Q q hcol]
  simp only
  rw [if_neg (by rw [(has_false_iff '.' Q).mpr hQ]; simp), if_neg (by rw [(has_false_iff ':' q).mpr hcol]; simp)]
  cases pg (Q ++ [':', '0', ':', '0']) with
  | error e => rfl
  | ok v => simp only [bind, Except.bind, hip, pure, Except.pure, hraw]

theorem parse6_quad (Q q : Str) (b0 b1 b2 b3 : UInt8) (hQ : '.' ∉ Q) (hq : inetAton q = .ok [b0, b1, b2, b3])
    (hdot : '.' ∈ q) (hcol : ':' ∉ q) :
    parse6 (Q ++ ':' :: q) =
      match parseGroups (Q ++ [':', '0', ':', '0']) with
      | .ok v => .ok (v.take (v.length - 4) ++ [b0, b1, b2, b3])
      | .error e => .error e :=
  parse6With_quad parseGroups Q q b0 b1 b2 b3 hQ hq hdot hcol

theorem divmod256 (a b : Nat) (hb : b < 256) : (a * 256 + b) / 256 = a ∧ (a * 256 + b) % 256 = b := by omega

theorem groupBytes_two (b0 b1 b2 b3 : UInt8) :
    groupBytes [b0.toNat * 256 + b1.toNat, b2.toNat * 256 + b3.toNat] = [b0, b1, b2, b3] := by
  obtain ⟨e1, e2⟩ := divmod256 b0.toNat b1.toNat b1.toNat_lt
  obtain ⟨e3, e4⟩ := divmod256 b2.toNat b3.toNat b3.toNat_lt
  simp [groupBytes, e1, e2, e3, e4]

theorem quad_bytes (A : List Nat) (b0 b1 b2 b3 : UInt8) :
    (groupBytes (A ++ [0, 0])).take ((groupBytes (A ++ [0, 0])).length - 4) ++ [b0, b1, b2, b3] =
      groupBytes (A ++ [b0.toNat * 256 + b1.toNat, b2.toNat * 256 + b3.toNat]) := by
  rw [groupBytes_append, groupBytes_append, groupBytes_two]
  have : groupBytes [0, 0] = [0, 0, 0, 0] := by decide
  rw [this, List.length_append]
  simp

theorem no_dot_join {ps : Segs} (h : ps.Good) : '.' ∉ joinWith ':' ps.strs := h.no_dot

theorem zero2_strs (ps : Segs) : (ps ++ [(0, ['0']), (0, ['0'])]).strs = ps.strs ++ [['0'], ['0']] := by simp [Segs.strs]
theorem zero2_vals (ps : Segs) : (ps ++ [(0, ['0']), (0, ['0'])]).vals = ps.vals ++ [0, 0] := by simp [Segs.vals]

end Pox.Addr

namespace Pox.Addr

theorem good_zero2 {ps : Segs} (h : ps.Good) : (ps ++ [(0, ['0']), (0, ['0'])]).Good := h.append zeroSeg_good

/-- full form without `::` -/
theorem parse6_full (s : Str) (gs : List Nat) (hs : Side s gs) (hl : gs.length = 8) : parse6 s = .ok (groupBytes gs) := by
  cases hs with
  | hex ps hg hx ht hv =>
    have hlen : ps.length = 8 := by rw [hv] at hl; simpa [Segs.vals] using hl
    unfold parse6 parse6With
    rw [if_neg (by rw [ht, (has_false_iff '.' _).mpr hg.no_dot]; simp), ht, parseGroups_plain ps hg hlen, hv]
  | quad ps q b0 b1 b2 b3 hg hx ht hq hdot hcol hv =>
    have hlen : ps.length = 6 := by rw [hv] at hl; simp [Segs.vals] at hl; omega
    have hne : ps.strs ≠ [] := by intro e; have : ps.strs.length = 0 := by rw [e]; rfl
                                  simp [Segs.strs, hlen] at this
    have ht' : s = joinWith ':' ps.strs ++ ':' :: q := by rw [ht]; unfold pre; rw [if_neg hne]; simp
    rw [ht', parse6_quad _ q b0 b1 b2 b3 hg.no_dot hq hdot hcol]
    have hp := parseGroups_plain _ (good_zero2 hg) (by simp [hlen])
    rw [zero2_strs, joinWith_two, zero2_vals] at hp
    unfold pre at hp; rw [if_neg hne] at hp
    simp only [List.append_assoc, List.cons_append, List.nil_append] at hp
    rw [hp]
    simp only
    rw [quad_bytes, hv]

/-- compressed form `l::r` -/
theorem parse6_dc (l r : Str) (a b : List Nat) (L : Segs) (hL : L.Good) (hl : l = joinWith ':' L.strs) (ha : a = L.vals)
    (hr : Side r b) (hab : a.length + b.length ≤ 7) :
    parse6 (l ++ ':' :: ':' :: r) =
      if ((l.isEmpty || r.isEmpty) && a.length + b.length == 7) = true then .error .runtime
      else .ok (groupBytes (a ++ List.replicate (8 - a.length - b.length) 0 ++ b)) := by
  have haL : a.length = L.length := by rw [ha]; simp [Segs.vals]
  have hle : l.isEmpty = true ↔ L.length = 0 := by
    rw [hl, List.isEmpty_iff, hL.join_nil]; exact List.length_eq_zero_iff.symm
  cases hr with
  | hex R hg hxR ht hv =>
    have hbR : b.length = R.length := by rw [hv]; simp [Segs.vals]
    have hre : r.isEmpty = true ↔ R.length = 0 := by
      rw [ht, List.isEmpty_iff, hg.join_nil]; exact List.length_eq_zero_iff.symm
    have hnd : '.' ∉ (l ++ ':' :: ':' :: r) := by
      intro hm
      rcases List.mem_append.mp hm with h | h
      · rw [hl] at h; exact hL.no_dot h
      · simp only [List.mem_cons] at h
        rcases h with h | h | h
        · exact absurd h (by decide)
        · exact absurd h (by decide)
        · rw [ht] at h; exact hg.no_dot h
    unfold parse6 parse6With
    rw [if_neg (by rw [(has_false_iff '.' _).mpr hnd]; simp), hl, ht, parseGroups_dc' L R hL hg, ← hl, ← ht, ← ha, ← hv,
      ← haL, ← hbR]
    by_cases hu : ((l.isEmpty || r.isEmpty) && a.length + b.length == 7) = true
    · rw [if_pos hu]
      simp only [Bool.and_eq_true, Bool.or_eq_true, beq_iff_eq] at hu
      rw [hle, hre] at hu
      rw [if_neg (by omega)]
    · rw [if_neg hu]
      simp only [Bool.and_eq_true, Bool.or_eq_true, beq_iff_eq] at hu
      rw [hle, hre] at hu
      rw [if_pos (by omega)]
  | quad R q b0 b1 b2 b3 hg hxR ht hq hdot hcol hv =>
    have hbR : b.length = R.length + 2 := by rw [hv]; simp [Segs.vals]
    have hrne : r.isEmpty = false := by
      rw [ht]
      cases q with
      | nil => simp at hdot
      | cons c cs => simp
    -- the text before the quad always ends with a colon
    obtain ⟨Q, hQ, hQdot⟩ : ∃ Q, l ++ ':' :: ':' :: pre R.strs = Q ++ [':'] ∧ '.' ∉ Q := by
      unfold pre
      by_cases hs : R.strs = []
      · rw [if_pos hs]
        refine ⟨l ++ [':'], by simp, ?_⟩
        intro hm
        rcases List.mem_append.mp hm with h | h
        · rw [hl] at h; exact hL.no_dot h
        · simp at h
      · rw [if_neg hs]
        refine ⟨l ++ ':' :: ':' :: joinWith ':' R.strs, by simp, ?_⟩
        intro hm
        rcases List.mem_append.mp hm with h | h
        · rw [hl] at h; exact hL.no_dot h
        · simp only [List.mem_cons] at h
          rcases h with h | h | h
          · exact absurd h (by decide)
          · exact absurd h (by decide)
          · exact hg.no_dot h
    have htext : l ++ ':' :: ':' :: r = Q ++ ':' :: q := by
      rw [ht]
      have : l ++ ':' :: ':' :: (pre R.strs ++ q) = (l ++ ':' :: ':' :: pre R.strs) ++ q := by simp
      rw [this, hQ]; simp
    have hgroups : parseGroups (Q ++ [':', '0', ':', '0']) =
        if max 1 L.length + 1 + max 1 (R.length + 2) ≤ 8 then
          .ok (groupBytes ((L.vals ++ List.replicate (8 - L.length - (R.length + 2)) 0 ++ R.vals) ++ [0, 0]))
        else .error .runtime := by
      have := parseGroups_dc' L (R ++ [(0, ['0']), (0, ['0'])]) hL (good_zero2 hg)
      rw [zero2_strs, joinWith_two, zero2_vals, ← hl] at this
      have e2 : l ++ ':' :: ':' :: (pre R.strs ++ ['0'] ++ ':' :: ['0']) = (l ++ ':' :: ':' :: pre R.strs) ++ ['0', ':', '0'] := by
        simp
      rw [e2, hQ] at this
      have e3 : Q ++ [':'] ++ ['0', ':', '0'] = Q ++ [':', '0', ':', '0'] := by simp
      rw [e3] at this
      rw [this]
      simp only [List.length_append, List.length_cons, List.length_nil, List.append_assoc]
    rw [htext, parse6_quad Q q b0 b1 b2 b3 hQdot hq hdot hcol, hgroups]
    have hu : ((l.isEmpty || r.isEmpty) && a.length + b.length == 7) = true ↔ (L.length = 0 ∧ L.length + (R.length + 2) = 7) := by
      simp only [Bool.and_eq_true, Bool.or_eq_true, beq_iff_eq, hrne, Bool.false_eq_true, or_false]
      rw [hle, haL, hbR]
    by_cases hc : (L.length = 0 ∧ L.length + (R.length + 2) = 7)
    · rw [if_pos (hu.mpr hc), if_neg (by omega)]
    · rw [if_neg (fun h => hc (hu.mp h)), if_pos (by omega)]
      simp only
      rw [quad_bytes, haL, hbR, ha, hv]
      simp only [List.append_assoc]

theorem denote6_dc_inv (x y : Option (List Nat)) (bs : Bytes)
    (h : (match x, y with
      | some a, some b =>
        if a.length + b.length ≤ 7 then some (groupBytes (a ++ List.replicate (8 - a.length - b.length) 0 ++ b)) else none
      | _, _ => none) = some bs) :
    ∃ a b, x = some a ∧ y = some b ∧ a.length + b.length ≤ 7 ∧
      bs = groupBytes (a ++ List.replicate (8 - a.length - b.length) 0 ++ b) := by
  cases x with
  | none => simp at h
  | some a =>
    cases y with
    | none => simp at h
    | some b =>
      simp only at h
      by_cases hab : a.length + b.length ≤ 7
      · rw [if_pos hab] at h
        simp only [Option.some.injEq] at h
        exact ⟨a, b, rfl, rfl, hab, h.symm⟩
      · rw [if_neg hab] at h; simp at h

/-- **the parser returns the denotation of every RFC 4291 text**, except that it refuses (RuntimeError) the texts
    characterised by `unsupported6` -/
theorem parse6_denote (s : Str) (bs : Bytes) (h : denote6 s = some bs) :
    parse6 s = if unsupported6 s = true then .error .runtime else .ok bs := by
  unfold denote6 at h
  unfold unsupported6
  cases hd : splitDC s with
  | none =>
    rw [hd] at h
    simp only [Bool.false_eq_true, if_false]
    cases hv : listVals s true with
    | none => rw [hv] at h; simp at h
    | some gs =>
      rw [hv] at h
      simp only at h
      by_cases hl : gs.length = 8
      · rw [if_pos hl] at h
        simp only [Option.some.injEq] at h
        rw [← h]
        exact parse6_full s gs (side_of_listVals s true gs hv).1 hl
      · rw [if_neg hl] at h; simp at h
  | some lr =>
    obtain ⟨l, r⟩ := lr
    rw [hd] at h
    simp only at h ⊢
    obtain ⟨a, b, hva, hvb, hab, hbs⟩ := denote6_dc_inv _ _ bs h
    simp only [hva, hvb]
    obtain ⟨L, hL, _, hl, ha⟩ := (side_of_listVals l false a hva).2 rfl
    rw [splitDC_eq s l r hd, hbs]
    exact parse6_dc l r a b L hL hl ha (side_of_listVals r true b hvb).1 hab

end Pox.Addr
