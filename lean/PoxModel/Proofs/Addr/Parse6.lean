import PoxModel.Proofs.Addr.IP6RT
import PoxModel.Proofs.Addr.Spec
/-! C16 helper lemmas, part 12: the parser returns the denotation of every RFC 4291 text (`denote6`), except for the
explicitly characterised unsupported forms.  Core only. -/
namespace Pox.Addr

/-! ### split is inverted by join -/

theorem joinWith_cons_head (c x : Char) (h : Str) (t : List Str) : joinWith c ((x :: h) :: t) = x :: joinWith c (h :: t) := by
  cases t <;> rfl

theorem joinWith_splitOn (c : Char) : ∀ s : Str, joinWith c (splitOn c s) = s := by
  intro s
  induction s with
  | nil => rfl
  | cons x xs ih =>
    unfold splitOn
    by_cases hx : x = c
    · rw [if_pos hx]
      obtain ⟨h, t, ht⟩ : ∃ h t, splitOn c xs = h :: t := by
        cases hs : splitOn c xs with
        | nil => exact absurd hs (splitOn_ne_nil c xs)
        | cons h t => exact ⟨h, t, rfl⟩
      rw [ht, joinWith_cons_cons, ← ht, ih, hx]; rfl
    · rw [if_neg hx]
      cases hs : splitOn c xs with
      | nil => exact absurd hs (splitOn_ne_nil c xs)
      | cons h t =>
        simp only
        rw [joinWith_cons_head, ← hs, ih]

theorem splitOn_no_sep (c : Char) : ∀ (s : Str), ∀ p ∈ splitOn c s, c ∉ p := by
  intro s
  induction s with
  | nil => intro p hp; simp [splitOn] at hp; subst hp; simp
  | cons x xs ih =>
    intro p hp
    unfold splitOn at hp
    by_cases hx : x = c
    · rw [if_pos hx] at hp
      rcases List.mem_cons.mp hp with rfl | hp
      · simp
      · exact ih p hp
    · rw [if_neg hx] at hp
      cases hs : splitOn c xs with
      | nil => exact absurd hs (splitOn_ne_nil c xs)
      | cons h t =>
        rw [hs] at hp ih
        simp only at hp
        rcases List.mem_cons.mp hp with rfl | hp
        · intro hm
          rcases List.mem_cons.mp hm with e | hm
          · exact hx e.symm
          · exact ih h (by simp) hm
        · exact ih p (by simp [hp])

theorem splitDC_eq : ∀ (s l r : Str), splitDC s = some (l, r) → s = l ++ ':' :: ':' :: r := by
  intro s
  induction s with
  | nil => intro l r h; simp [splitDC] at h
  | cons a t ih =>
    intro l r h
    unfold splitDC at h
    cases t with
    | nil => simp at h
    | cons b r' =>
      simp only at h
      by_cases hc : a = ':' ∧ b = ':'
      · rw [if_pos hc] at h
        simp only [Option.some.injEq, Prod.mk.injEq] at h
        rw [← h.1, ← h.2, hc.1, hc.2]; rfl
      · rw [if_neg hc] at h
        cases hs : splitDC (b :: r') with
        | none => rw [hs] at h; simp at h
        | some p =>
          rw [hs] at h
          simp only [Option.map_some, Option.some.injEq, Prod.mk.injEq] at h
          have := ih p.1 p.2 (by rw [hs])
          rw [← h.1, ← h.2, this]; rfl

/-! ### hex fields -/

theorem foldDig_lt : ∀ (s : Str) (acc : Nat), AllDig 16 s → foldDig 16 acc s < (acc + 1) * 16 ^ s.length := by
  intro s
  induction s with
  | nil => intro acc _; simp [foldDig]
  | cons c cs ih =>
    intro acc h
    have hc : digitVal c < 16 := h c (by simp)
    have := ih (acc * 16 + digitVal c) (fun x hx => h x (by simp [hx]))
    simp only [foldDig, List.foldl_cons, List.length_cons, Nat.pow_succ] at this ⊢
    have hp : 0 < 16 ^ cs.length := Nat.pow_pos (by decide)
    have hle : (acc * 16 + digitVal c + 1) * 16 ^ cs.length ≤ ((acc + 1) * 16) * 16 ^ cs.length :=
      Nat.mul_le_mul_right _ (by omega)
    rw [Nat.mul_comm (16 ^ cs.length) 16, ← Nat.mul_assoc]
    omega

theorem hexGroup_good (p : Str) (h : isHexGroup p = true) : GoodHex (groupVal p) p ∧ groupVal p < 65536 := by
  unfold isHexGroup at h
  simp only [Bool.and_eq_true, decide_eq_true_eq, List.all_eq_true] at h
  obtain ⟨⟨h1, h4⟩, hd⟩ := h
  have hdig : AllDig 16 p := hd
  refine ⟨⟨by intro e; rw [e] at h1; simp at h1, hdig, rfl⟩, ?_⟩
  have := foldDig_lt p 0 hdig
  have hp : 16 ^ p.length ≤ 16 ^ 4 := Nat.pow_le_pow_right (by decide) h4
  have : groupVal p = foldDig 16 0 p := rfl
  omega

/-- (value, text) pairs of a list of hex fields -/
def hexSegs (ps : List Str) : Segs := ps.map fun p => (groupVal p, p)

theorem hexSegs_strs (ps : List Str) : (hexSegs ps).strs = ps := by simp [hexSegs, Segs.strs, Function.comp_def]
theorem hexSegs_vals (ps : List Str) : (hexSegs ps).vals = ps.map groupVal := by simp [hexSegs, Segs.vals, Function.comp_def]
theorem hexSegs_length (ps : List Str) : (hexSegs ps).length = ps.length := by simp [hexSegs]
theorem hexSegs_good (ps : List Str) (h : ∀ p ∈ ps, isHexGroup p = true) : (hexSegs ps).Good := by
  intro q hq
  obtain ⟨p, hp, rfl⟩ := List.mem_map.mp hq
  exact hexGroup_good p (h p hp)

/-! ### inversion of the field grammar -/

theorem fieldVals_false : ∀ (ps : List Str) (vs : List Nat), fieldVals ps false = some vs →
    (∀ p ∈ ps, isHexGroup p = true) ∧ vs = ps.map groupVal := by
  intro ps
  induction ps with
  | nil => intro vs h; simp [fieldVals] at h; simp [h]
  | cons p ps ih =>
    intro vs h
    unfold fieldVals at h
    cases ps with
    | nil =>
      simp only at h
      by_cases hp : isHexGroup p = true
      · rw [if_pos hp] at h; simp at h; simp [hp, ← h]
      · rw [if_neg hp] at h; simp at h
    | cons q qs =>
      simp only at h
      by_cases hp : isHexGroup p = true
      · rw [if_pos hp] at h
        cases hr : fieldVals (q :: qs) false with
        | none => rw [hr] at h; simp at h
        | some ws =>
          rw [hr] at h
          simp only [Option.map_some, Option.some.injEq] at h
          obtain ⟨h1, h2⟩ := ih ws hr
          refine ⟨?_, by rw [← h, h2]; rfl⟩
          intro x hx
          rcases List.mem_cons.mp hx with rfl | hx
          · exact hp
          · exact h1 x hx
      · rw [if_neg hp] at h; simp at h

theorem fieldVals_true : ∀ (ps : List Str) (vs : List Nat), fieldVals ps true = some vs →
    ((∀ p ∈ ps, isHexGroup p = true) ∧ vs = ps.map groupVal) ∨
    (∃ init q g, ps = init ++ [q] ∧ (∀ p ∈ init, isHexGroup p = true) ∧ quadGroups q = some g ∧ vs = init.map groupVal ++ g) := by
  intro ps
  induction ps with
  | nil => intro vs h; simp [fieldVals] at h; exact .inl (by simp [h])
  | cons p ps ih =>
    intro vs h
    unfold fieldVals at h
    cases ps with
    | nil =>
      simp only at h
      by_cases hp : isHexGroup p = true
      · rw [if_pos hp] at h; simp at h; exact .inl (by simp [hp, ← h])
      · rw [if_neg hp] at h
        simp only [if_true] at h
        exact .inr ⟨[], p, vs, by simp, by simp, h, by simp⟩
    | cons q qs =>
      simp only at h
      by_cases hp : isHexGroup p = true
      · rw [if_pos hp] at h
        cases hr : fieldVals (q :: qs) true with
        | none => rw [hr] at h; simp at h
        | some ws =>
          rw [hr] at h
          simp only [Option.map_some, Option.some.injEq] at h
          rcases ih ws hr with ⟨h1, h2⟩ | ⟨init, q', g, e, h1, hq, h2⟩
          · refine .inl ⟨?_, by rw [← h, h2]; rfl⟩
            intro x hx
            rcases List.mem_cons.mp hx with rfl | hx
            · exact hp
            · exact h1 x hx
          · refine .inr ⟨p :: init, q', g, by rw [e]; rfl, ?_, hq, by rw [← h, h2]; rfl⟩
            intro x hx
            rcases List.mem_cons.mp hx with rfl | hx
            · exact hp
            · exact h1 x hx
      · rw [if_neg hp] at h; simp at h

end Pox.Addr
