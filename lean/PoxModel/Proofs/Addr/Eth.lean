import PoxModel.Proofs.Addr.Dpid
/-! C16 helper lemmas, part 10: EthAddr text forms.  Core only. -/
namespace Pox.Addr

/-- the byte two hex digits denote -/
def hexByte (h l : Char) : UInt8 := UInt8.ofNat (digitVal h * 16 + digitVal l)

theorem pair_int (h l : Char) (hh : digitVal h < 16) (hl : digitVal l < 16) :
    pyInt 16 [h, l] = .ok ((digitVal h * 16 + digitVal l : Nat) : Int) := by
  have hd : AllDig 16 [h, l] := by
    intro c hc
    simp only [List.mem_cons, List.not_mem_nil, or_false] at hc
    rcases hc with rfl | rfl <;> assumption
  rw [pyInt_dig 16 (by decide) _ hd (by simp)]
  simp [foldDig]

theorem range6 : List.range 6 = [0, 1, 2, 3, 4, 5] := by decide

theorem ethBytesOfHex_12 (h0 l0 h1 l1 h2 l2 h3 l3 h4 l4 h5 l5 : Char)
    (H0 : digitVal h0 < 16) (L0 : digitVal l0 < 16) (H1 : digitVal h1 < 16) (L1 : digitVal l1 < 16)
    (H2 : digitVal h2 < 16) (L2 : digitVal l2 < 16) (H3 : digitVal h3 < 16) (L3 : digitVal l3 < 16)
    (H4 : digitVal h4 < 16) (L4 : digitVal l4 < 16) (H5 : digitVal h5 < 16) (L5 : digitVal l5 < 16) :
    ethBytesOfHex [h0, l0, h1, l1, h2, l2, h3, l3, h4, l4, h5, l5] =
      .ok [hexByte h0 l0, hexByte h1 l1, hexByte h2 l2, hexByte h3 l3, hexByte h4 l4, hexByte h5 l5] := by
  have step : ∀ (h l : Char), digitVal h < 16 → digitVal l < 16 → hexPairByte [h, l] = .ok (hexByte h l) := by
    intro h l hh hl
    unfold hexPairByte
    rw [pair_int h l hh hl]
    simp only
    rw [if_neg (by omega)]
    have : ((digitVal h * 16 + digitVal l : Nat) : Int).toNat = digitVal h * 16 + digitVal l := by omega
    rw [this]; rfl
  unfold ethBytesOfHex
  rw [range6]
  simp only [List.mapM_cons, List.mapM_nil, slice, List.drop_succ_cons, List.drop_zero, List.take_succ_cons, List.take_zero,
    Nat.zero_mul, Nat.zero_add, Nat.one_mul, Nat.reduceMul, Nat.reduceAdd, Nat.reduceSub, List.take_nil]
  simp only [step _ _ H0 L0, step _ _ H1 L1, step _ _ H2 L2, step _ _ H3 L3, step _ _ H4 L4, step _ _ H5 L5,
    bind, Except.bind, pure, Except.pure]

/-- `xx:xx:xx:xx:xx:xx` and `xx-xx-xx-xx-xx-xx`, any case -/
theorem eth_sep_form (sep : Char) (hs : sep = ':' ∨ sep = '-') (h0 l0 h1 l1 h2 l2 h3 l3 h4 l4 h5 l5 : Char)
    (H0 : digitVal h0 < 16) (L0 : digitVal l0 < 16) (H1 : digitVal h1 < 16) (L1 : digitVal l1 < 16)
    (H2 : digitVal h2 < 16) (L2 : digitVal l2 < 16) (H3 : digitVal h3 < 16) (L3 : digitVal l3 < 16)
    (H4 : digitVal h4 < 16) (L4 : digitVal l4 < 16) (H5 : digitVal h5 < 16) (L5 : digitVal l5 < 16) :
    ethOfText [h0, l0, sep, h1, l1, sep, h2, l2, sep, h3, l3, sep, h4, l4, sep, h5, l5] =
      .ok [hexByte h0 l0, hexByte h1 l1, hexByte h2 l2, hexByte h3 l3, hexByte h4 l4, hexByte h5 l5] := by
  unfold ethOfText
  simp only [List.length_cons, List.length_nil, Nat.reduceAdd, Nat.reduceEqDiff, if_false, true_or, if_true]
  have hseps : ([2, 5, 8, 11, 14].filterMap fun i =>
      [h0, l0, sep, h1, l1, sep, h2, l2, sep, h3, l3, sep, h4, l4, sep, h5, l5][i]?) = [sep, sep, sep, sep, sep] := by
    simp
  rw [hseps]
  have hok : ¬ ([sep, sep, sep, sep, sep] ≠ [':', ':', ':', ':', ':'] ∧ [sep, sep, sep, sep, sep] ≠ ['-', '-', '-', '-', '-']) := by
    rcases hs with rfl | rfl <;> simp
  rw [if_neg hok, range6]
  simp only [List.flatMap_cons, List.flatMap_nil, slice, List.drop_succ_cons, List.drop_zero, List.take_succ_cons, List.take_zero,
    Nat.zero_mul, Nat.zero_add, Nat.one_mul, Nat.reduceMul, Nat.reduceAdd, Nat.reduceSub, List.take_nil, List.cons_append,
    List.nil_append, List.append_nil]
  exact ethBytesOfHex_12 _ _ _ _ _ _ _ _ _ _ _ _ H0 L0 H1 L1 H2 L2 H3 L3 H4 L4 H5 L5

/-- twelve hex digits -/
theorem eth_bare_form (h0 l0 h1 l1 h2 l2 h3 l3 h4 l4 h5 l5 : Char)
    (H0 : digitVal h0 < 16) (L0 : digitVal l0 < 16) (H1 : digitVal h1 < 16) (L1 : digitVal l1 < 16)
    (H2 : digitVal h2 < 16) (L2 : digitVal l2 < 16) (H3 : digitVal h3 < 16) (L3 : digitVal l3 < 16)
    (H4 : digitVal h4 < 16) (L4 : digitVal l4 < 16) (H5 : digitVal h5 < 16) (L5 : digitVal l5 < 16) :
    ethOfText [h0, l0, h1, l1, h2, l2, h3, l3, h4, l4, h5, l5] =
      .ok [hexByte h0 l0, hexByte h1 l1, hexByte h2 l2, hexByte h3 l3, hexByte h4 l4, hexByte h5 l5] := by
  unfold ethOfText
  simp only [List.length_cons, List.length_nil, Nat.reduceAdd, Nat.reduceEqDiff, if_false, true_or, or_true, if_true]
  exact ethBytesOfHex_12 _ _ _ _ _ _ _ _ _ _ _ _ H0 L0 H1 L1 H2 L2 H3 L3 H4 L4 H5 L5

/-- six raw characters are taken as the six bytes -/
theorem eth_raw_form (s : Str) (h : s.length = 6) : ethOfText s = .ok (s.map fun c => UInt8.ofNat c.toNat) := by
  unfold ethOfText; simp [h]

theorem hexByte_hexChar (x : UInt8) : hexByte (hexChar (x.toNat / 16)) (hexChar (x.toNat % 16)) = x := by
  have := x.toNat_lt
  unfold hexByte
  rw [digitVal_hexChar _ (by omega), digitVal_hexChar _ (by omega)]
  have : x.toNat / 16 * 16 + x.toNat % 16 = x.toNat := by omega
  rw [this]; simp

theorem ethToStr6 (sep : Char) (x0 x1 x2 x3 x4 x5 : UInt8) :
    ethToStr sep [x0, x1, x2, x3, x4, x5] =
      [hexChar (x0.toNat / 16), hexChar (x0.toNat % 16), sep, hexChar (x1.toNat / 16), hexChar (x1.toNat % 16), sep,
       hexChar (x2.toNat / 16), hexChar (x2.toNat % 16), sep, hexChar (x3.toNat / 16), hexChar (x3.toNat % 16), sep,
       hexChar (x4.toNat / 16), hexChar (x4.toNat % 16), sep, hexChar (x5.toNat / 16), hexChar (x5.toNat % 16)] := by
  unfold ethToStr
  simp only [List.map_cons, List.map_nil, joinWith, hex2_eq _ (UInt8.toNat_lt _), List.cons_append, List.nil_append]

theorem hexdig (n : Nat) (h : n < 16) : digitVal (hexChar n) < 16 := by rw [digitVal_hexChar n h]; exact h

/-- `EthAddr(str(e)) == e` and `EthAddr(e.to_str('-')) == e` -/
theorem eth_roundtrip (sep : Char) (hs : sep = ':' ∨ sep = '-') (x0 x1 x2 x3 x4 x5 : UInt8) :
    ethOfText (ethToStr sep [x0, x1, x2, x3, x4, x5]) = .ok [x0, x1, x2, x3, x4, x5] := by
  have d : ∀ x : UInt8, x.toNat / 16 < 16 ∧ x.toNat % 16 < 16 := fun x => by have := x.toNat_lt; omega
  rw [ethToStr6, eth_sep_form sep hs _ _ _ _ _ _ _ _ _ _ _ _ (hexdig _ (d x0).1) (hexdig _ (d x0).2) (hexdig _ (d x1).1)
    (hexdig _ (d x1).2) (hexdig _ (d x2).1) (hexdig _ (d x2).2) (hexdig _ (d x3).1) (hexdig _ (d x3).2) (hexdig _ (d x4).1)
    (hexdig _ (d x4).2) (hexdig _ (d x5).1) (hexdig _ (d x5).2)]
  simp only [hexByte_hexChar]

end Pox.Addr

namespace Pox.Addr

theorem hexByte_of_val (v : Nat) (h : v < 256) : hexByte (hexChar (v / 16)) (hexChar (v % 16)) = UInt8.ofNat v := by
  unfold hexByte
  rw [digitVal_hexChar _ (by omega), digitVal_hexChar _ (by omega)]
  have : v / 16 * 16 + v % 16 = v := by omega
  rw [this]

theorem short_group_val (g : Str) (hd : AllDig 16 g) (hl : g.length = 1 ∨ g.length = 2) :
    g ≠ [] ∧ foldDig 16 0 g < 256 := by
  rcases hl with hl | hl
  · match g, hl with
    | [c], _ =>
      have := hd c (by simp)
      simp [foldDig]; omega
  · match g, hl with
    | [h, l], _ =>
      have := hd h (by simp); have := hd l (by simp)
      simp [foldDig]; omega

theorem loose_part (g : Str) (hd : AllDig 16 g) (hl : g.length = 1 ∨ g.length = 2) :
    (pyInt 16 g).map fmt02x = .ok (hex2 (foldDig 16 0 g)) := by
  rw [pyInt_dig 16 (by decide) g hd (short_group_val g hd hl).1]
  rfl

/-- `x:x:x:x:x:x` with one or two hex digits per group — accepted unless the text happens to be 12 characters long
    (then line 119 takes it for twelve bare hex digits; see `eth_loose12_rejected` in Properties/C16.lean) -/
theorem eth_loose_form (g0 g1 g2 g3 g4 g5 : Str)
    (hg : ∀ g ∈ [g0, g1, g2, g3, g4, g5], AllDig 16 g ∧ (g.length = 1 ∨ g.length = 2))
    (h12 : (joinWith ':' [g0, g1, g2, g3, g4, g5]).length ≠ 12) (h17 : (joinWith ':' [g0, g1, g2, g3, g4, g5]).length ≠ 17) :
    ethOfText (joinWith ':' [g0, g1, g2, g3, g4, g5]) =
      .ok ([g0, g1, g2, g3, g4, g5].map fun g => UInt8.ofNat (foldDig 16 0 g)) := by
  have G0 := hg g0 (by simp); have G1 := hg g1 (by simp); have G2 := hg g2 (by simp)
  have G3 := hg g3 (by simp); have G4 := hg g4 (by simp); have G5 := hg g5 (by simp)
  have hcol : ∀ g ∈ [g0, g1, g2, g3, g4, g5], ':' ∉ g := fun g h => (hg g h).1.not_mem (by rw [dv_colon]; decide)
  have hjoin : joinWith ':' [g0, g1, g2, g3, g4, g5] = g0 ++ ':' :: (g1 ++ ':' :: (g2 ++ ':' :: (g3 ++ ':' :: (g4 ++ ':' :: g5)))) := rfl
  have hlen : (joinWith ':' [g0, g1, g2, g3, g4, g5]).length = g0.length + g1.length + g2.length + g3.length + g4.length + g5.length + 5 := by
    rw [hjoin]; simp only [List.length_append, List.length_cons]; omega
  have hcount : (joinWith ':' [g0, g1, g2, g3, g4, g5]).count ':' = 5 := by
    have z : ∀ g ∈ [g0, g1, g2, g3, g4, g5], g.count ':' = 0 := fun g h => List.count_eq_zero.mpr (hcol g h)
    rw [hjoin]
    simp only [List.count_append, List.count_cons_self, z g0 (by simp), z g1 (by simp), z g2 (by simp), z g3 (by simp),
      z g4 (by simp), z g5 (by simp)]
  have hsplit : splitOn ':' (joinWith ':' [g0, g1, g2, g3, g4, g5]) = [g0, g1, g2, g3, g4, g5] := by
    rw [splitOn_join ':' _ hcol]; simp [segsOf]
  have hn6 : (joinWith ':' [g0, g1, g2, g3, g4, g5]).length ≠ 6 := by
    have := G0.2; have := G1.2; have := G2.2; have := G3.2; have := G4.2; have := G5.2
    omega
  unfold ethOfText
  simp only [hn6, h12, h17, hcount, if_false, false_or, if_true]
  rw [hsplit]
  simp only [List.mapM_cons, List.mapM_nil, loose_part _ G0.1 G0.2, loose_part _ G1.1 G1.2, loose_part _ G2.1 G2.2,
    loose_part _ G3.1 G3.2, loose_part _ G4.1 G4.2, loose_part _ G5.1 G5.2, bind, Except.bind, pure, Except.pure]
  have V0 := (short_group_val _ G0.1 G0.2).2; have V1 := (short_group_val _ G1.1 G1.2).2
  have V2 := (short_group_val _ G2.1 G2.2).2; have V3 := (short_group_val _ G3.1 G3.2).2
  have V4 := (short_group_val _ G4.1 G4.2).2; have V5 := (short_group_val _ G5.1 G5.2).2
  simp only [List.flatten_cons, List.flatten_nil, hex2_eq _ V0, hex2_eq _ V1, hex2_eq _ V2, hex2_eq _ V3, hex2_eq _ V4,
    hex2_eq _ V5, List.cons_append, List.nil_append, List.append_nil]
  have d : ∀ v, v < 256 → digitVal (hexChar (v / 16)) < 16 ∧ digitVal (hexChar (v % 16)) < 16 :=
    fun v hv => ⟨hexdig _ (by omega), hexdig _ (by omega)⟩
  rw [ethBytesOfHex_12 _ _ _ _ _ _ _ _ _ _ _ _ (d _ V0).1 (d _ V0).2 (d _ V1).1 (d _ V1).2 (d _ V2).1 (d _ V2).2
    (d _ V3).1 (d _ V3).2 (d _ V4).1 (d _ V4).2 (d _ V5).1 (d _ V5).2]
  simp only [hexByte_of_val _ V0, hexByte_of_val _ V1, hexByte_of_val _ V2, hexByte_of_val _ V3, hexByte_of_val _ V4,
    hexByte_of_val _ V5, List.map_cons, List.map_nil]

end Pox.Addr
