import PoxModel.Proofs.Addr.Text
import PoxModel.Proofs.Addr.Runs
import PoxModel.Proofs.Addr.IP4
/-! C16 helper lemmas, part 5: `IPAddr6` text round trip.  Core only. -/
namespace Pox.Addr

/-! ### groups ⇄ bytes -/

theorem groups6_spec : ∀ (n : Nat) (a : Bytes), a.length = 2 * n →
    (groups6 a).length = n ∧ (∀ g ∈ groups6 a, g < 65536) ∧ groupBytes (groups6 a) = a := by
  intro n
  induction n with
  | zero =>
    intro a h
    have : a = [] := List.eq_nil_of_length_eq_zero (by omega)
    subst this; simp [groups6, groupBytes]
  | succ n ih =>
    intro a h
    match a, h with
    | hi :: lo :: r, h =>
      have hr : r.length = 2 * n := by simp at h; omega
      obtain ⟨h1, h2, h3⟩ := ih r hr
      have hhi := hi.toNat_lt; have hlo := lo.toNat_lt
      refine ⟨by simp [groups6, h1], ?_, ?_⟩
      · intro g hg
        simp only [groups6, List.mem_cons] at hg
        rcases hg with rfl | hg
        · omega
        · exact h2 g hg
      · simp only [groups6, groupBytes, List.flatMap_cons] at h3 ⊢
        rw [h3]
        have e1 : (hi.toNat * 256 + lo.toNat) / 256 = hi.toNat := by omega
        have e2 : (hi.toNat * 256 + lo.toNat) % 256 = lo.toNat := by omega
        rw [e1, e2]; simp

/-! ### the segment loop

Printed groups are handled as lists of pairs (value, text) so that differently formatted groups (`%x`, `%04x`, the literal
`0` of the mixed-notation rewrite) can be mixed in one address text. -/

abbrev Segs := List (Nat × Str)
def Segs.Good (ps : Segs) : Prop := ∀ p ∈ ps, GoodHex p.1 p.2 ∧ p.1 < 65536
def Segs.vals (ps : Segs) : List Nat := ps.map (·.1)
def Segs.strs (ps : Segs) : List Str := ps.map (·.2)

theorem Segs.Good.append {ps qs : Segs} (hp : ps.Good) (hq : qs.Good) : (ps ++ qs).Good := by
  intro p h
  rcases List.mem_append.mp h with h | h
  · exact hp p h
  · exact hq p h

theorem Segs.Good.sub {ps qs : Segs} (hp : ps.Good) (h : ∀ p ∈ qs, p ∈ ps) : qs.Good := fun p hq => hp p (h p hq)

theorem parseSegs_good : ∀ (ps : Segs) (rest : List Str) (side : Bool) (p0 p1 : List Nat), ps.Good →
    parseSegs (ps.strs ++ rest) side p0 p1 =
      parseSegs rest side (if side then p0 else p0 ++ ps.vals) (if side then p1 ++ ps.vals else p1) := by
  intro ps
  induction ps with
  | nil => intro rest side p0 p1 _; cases side <;> simp [Segs.strs, Segs.vals]
  | cons p ps ih =>
    intro rest side p0 p1 h
    obtain ⟨hg, hlt⟩ := h p (by simp)
    have hne : p.2.isEmpty = false := by
      cases hs : p.2 with
      | nil => exact absurd hs hg.ne
      | cons _ _ => rfl
    have hps : Segs.Good ps := fun x hx => h x (by simp [hx])
    simp only [Segs.strs, Segs.vals, List.map_cons, List.cons_append] at ih ⊢
    rw [parseSegs]
    simp only [hne, Bool.false_eq_true, if_false, pyInt_goodHex hg]
    have hcond : ¬ ((p.1 : Int) < 0 ∨ (p.1 : Int) > 0xffff) := by omega
    rw [if_neg hcond]
    cases side
    · simp only [Bool.false_eq_true, if_false, Int.toNat_natCast]
      rw [ih rest false _ _ hps]
      simp
    · simp only [if_true, Int.toNat_natCast]
      rw [ih rest true _ _ hps]
      simp

theorem parseSegs_segsOf_left (ps : Segs) (rest : List Str) (h : ps.Good) :
    parseSegs (segsOf ps.strs ++ [] :: rest) false [] [] = parseSegs rest true ps.vals [] := by
  unfold segsOf
  by_cases hn : ps = []
  · subst hn; simp [parseSegs, Segs.strs, Segs.vals]
  · have : ps.strs ≠ [] := by simpa [Segs.strs] using hn
    rw [if_neg this, parseSegs_good ps _ false [] [] h]
    simp [parseSegs]

theorem parseSegs_segsOf_right (ps : Segs) (p0 : List Nat) (h : ps.Good) :
    parseSegs (segsOf ps.strs) true p0 [] = .ok (p0, ps.vals) := by
  unfold segsOf
  by_cases hn : ps = []
  · subst hn; simp [parseSegs, Segs.strs, Segs.vals]
  · have : ps.strs ≠ [] := by simpa [Segs.strs] using hn
    rw [if_neg this]
    have := parseSegs_good ps [] true p0 [] h
    rw [List.append_nil] at this
    rw [this]; simp [parseSegs]

theorem segsOf_length (gs : List Str) : (segsOf gs).length = max 1 gs.length := by
  unfold segsOf
  by_cases h : gs = []
  · subst h; rfl
  · rw [if_neg h]
    have : 0 < gs.length := List.length_pos_iff.mpr h
    omega

theorem goodHex_no {g : Nat} {s : Str} (h : GoodHex g s) {d : Char} (hd : 16 ≤ digitVal d) : d ∉ s :=
  h.dig.not_mem hd

theorem Segs.Good.segs {ps : Segs} (h : ps.Good) : ∀ s ∈ ps.strs, s ≠ [] ∧ ':' ∉ s := by
  intro s hs
  obtain ⟨p, hp, rfl⟩ := List.mem_map.mp hs
  exact ⟨(h p hp).1.ne, goodHex_no (h p hp).1 (by rw [dv_colon]; decide)⟩

theorem Segs.Good.no_dot {ps : Segs} (h : ps.Good) : '.' ∉ joinWith ':' ps.strs := by
  intro hm
  rcases mem_joinWith hm with e | ⟨s, hs, hx⟩
  · exact absurd e (by decide)
  · obtain ⟨p, hp, rfl⟩ := List.mem_map.mp hs
    exact goodHex_no (h p hp).1 (by rw [dv_dot]; decide) hx

/-! ### parsing a well-formed group text -/

theorem parseGroups_plain (ps : Segs) (hg : ps.Good) (hl : ps.length = 8) :
    parseGroups (joinWith ':' ps.strs) = .ok (groupBytes ps.vals) := by
  have hsegs := hg.segs
  have hlen : ps.strs.length = 8 := by simpa [Segs.strs] using hl
  have hsplit : splitOn ':' (joinWith ':' ps.strs) = ps.strs := by
    rw [splitOn_join ':' _ (fun g hg => (hsegs g hg).2)]
    unfold segsOf
    rw [if_neg]
    intro h
    rw [h] at hlen; simp at hlen
  unfold parseGroups
  rw [hsplit, countDC_join _ hsegs]
  simp only [Nat.not_lt_zero, if_false, hlen]
  rw [if_neg (by omega)]
  have := parseSegs_good ps [] false [] [] hg
  rw [List.append_nil] at this
  rw [this]
  have hv : ps.vals.length = 8 := by simpa [Segs.vals] using hl
  simp [parseSegs, hv, Functor.map, Except.map]

theorem parseGroups_dc (L R : Segs) (k : Nat) (hk : 2 ≤ k) (hlen : L.length + k + R.length = 8)
    (hL : L.Good) (hR : R.Good) :
    parseGroups (joinWith ':' L.strs ++ ':' :: ':' :: joinWith ':' R.strs) =
      .ok (groupBytes (L.vals ++ List.replicate k 0 ++ R.vals)) := by
  have hsL := hL.segs
  have hsR := hR.segs
  have hsplit : splitOn ':' (joinWith ':' L.strs ++ ':' :: ':' :: joinWith ':' R.strs) =
      segsOf L.strs ++ [] :: segsOf R.strs := by
    rw [splitOn_join_append ':' _ _ (fun g hg => (hsL g hg).2)]
    congr 1
    rw [splitOn, if_pos rfl, splitOn_join ':' _ (fun g hg => (hsR g hg).2)]
  unfold parseGroups
  rw [hsplit, countDC_join_dc _ _ hsL hsR]
  have hl : (segsOf L.strs ++ [] :: segsOf R.strs).length = max 1 L.length + 1 + max 1 R.length := by
    simp [segsOf_length, Segs.strs]; omega
  simp only [hl]
  rw [if_neg (by omega), if_neg (by omega), parseSegs_segsOf_left L _ hL, parseSegs_segsOf_right R _ hR]
  have : 8 - L.vals.length - R.vals.length = k := by simp [Segs.vals]; omega
  simp [this, Functor.map, Except.map]

/-! ### printed groups -/

def fmtG (zd : Bool) (g : Nat) : Str := if zd then fmtNat 16 g else hex4 g

theorem fmtG_good (zd : Bool) (g : Nat) : GoodHex g (fmtG zd g) := by
  unfold fmtG hex4
  cases zd
  · exact goodHex_pad 4 g
  · exact goodHex_fmt g

/-- the (value, text) pairs of groups printed with `fmt` -/
def printed (zd : Bool) (gs : List Nat) : Segs := gs.map fun g => (g, fmtG zd g)

theorem printed_vals (zd : Bool) (gs : List Nat) : (printed zd gs).vals = gs := by
  simp [printed, Segs.vals, Function.comp_def]
theorem printed_strs (zd : Bool) (gs : List Nat) : (printed zd gs).strs = gs.map (fmtG zd) := by
  simp [printed, Segs.strs, Function.comp_def]
theorem printed_length (zd : Bool) (gs : List Nat) : (printed zd gs).length = gs.length := by simp [printed]
theorem printed_good (zd : Bool) (gs : List Nat) (h : ∀ g ∈ gs, g < 65536) : (printed zd gs).Good := by
  intro p hp
  obtain ⟨g, hg, rfl⟩ := List.mem_map.mp hp
  exact ⟨fmtG_good zd g, h g hg⟩
theorem fmtGroups_eq (zd : Bool) (gs : List Nat) : fmtGroups zd gs = joinWith ':' (printed zd gs).strs := by
  rw [printed_strs]; rfl

end Pox.Addr
