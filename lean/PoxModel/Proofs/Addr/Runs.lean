import PoxModel.Model.Addr
/-! C16 helper lemmas, part 4: the zero-run selection of `IPAddr6.to_str` is the RFC 5952 one.
The selection only looks at which of the 8 groups are zero, so it is checked on all 2^8 zero patterns by kernel evaluation
(`decide`), then lifted to every address.  Core only. -/
namespace Pox.Addr

/-- all Boolean lists of length `n` -/
def allPats : Nat → List (List Bool)
  | 0 => [[]]
  | n+1 => (allPats n).flatMap fun p => [true :: p, false :: p]

theorem mem_allPats : ∀ (p : List Bool), p ∈ allPats p.length := by
  intro p
  induction p with
  | nil => simp [allPats]
  | cons b p ih =>
    simp only [List.length_cons, allPats, List.mem_flatMap]
    exact ⟨p, ih, by cases b <;> simp⟩

/-- `[i, i+n)` is a run of zeros of the pattern -/
def isRun (p : List Bool) (i n : Nat) : Bool := (List.range n).all fun j => p[i + j]? == some true

/-- specification of the selected run, as a Boolean so that it can be evaluated: the chosen `(pos, len)` is a zero run of
    length ≥ 2, no zero run is longer, and no zero run of the same length starts further left; `none` iff there is no
    zero run of length 2. -/
def runSpec (p : List Bool) : Option (Nat × Nat) → Bool
  | some (pos, len) =>
    decide (2 ≤ len) && decide (pos + len ≤ p.length) && isRun p pos len &&
    (List.range (p.length + 1)).all fun i => (List.range (p.length + 1)).all fun n =>
      !(decide (i + n ≤ p.length) && isRun p i n) || (decide (n ≤ len) && (!(n == len) || decide (pos ≤ i)))
  | none => (List.range p.length).all fun i => !(isRun p i 2 && decide (i + 2 ≤ p.length))

theorem runs_ok_all : (allPats 8).all (fun p => runSpec p (bestRun (scanRuns p 0 false []))) = true := by decide +kernel

theorem runs_ok (p : List Bool) (hp : p.length = 8) : runSpec p (bestRun (scanRuns p 0 false [])) = true := by
  have h := List.all_eq_true.mp runs_ok_all p (by rw [← hp]; exact mem_allPats p)
  exact h

end Pox.Addr

namespace Pox.Addr

/-- `[i, i+n)` is a run of zero groups of `o` -/
def ZeroRun (o : List Nat) (i n : Nat) : Prop := ∀ j, j < n → o[i + j]? = some 0

theorem isRun_iff (o : List Nat) (i n : Nat) : isRun (o.map (· == 0)) i n = true ↔ ZeroRun o i n := by
  unfold isRun ZeroRun
  rw [List.all_eq_true]
  constructor
  · intro h j hj
    have := h j (List.mem_range.mpr hj)
    rw [List.getElem?_map] at this
    cases ho : o[i + j]? with
    | none => rw [ho] at this; simp at this
    | some x => rw [ho] at this; simp at this; rw [this]
  · intro h j hj
    rw [List.getElem?_map, h j (List.mem_range.mp hj)]
    simp

/-- what `findRun` returns, in words (RFC 5952 §4.2.2, §4.2.3): a longest run of at least two zero groups, the leftmost
    such; nothing iff no two adjacent groups are zero -/
def RunChoice (o : List Nat) : Option (Nat × Nat) → Prop
  | some (pos, len) =>
    2 ≤ len ∧ pos + len ≤ o.length ∧ ZeroRun o pos len ∧
    ∀ i n, i + n ≤ o.length → ZeroRun o i n → n ≤ len ∧ (n = len → pos ≤ i)
  | none => ∀ i, i + 2 ≤ o.length → ¬ ZeroRun o i 2

theorem findRun_spec (o : List Nat) (ho : o.length = 8) : RunChoice o (findRun o) := by
  have h := runs_ok (o.map (· == 0)) (by simpa using ho)
  unfold findRun
  generalize bestRun (scanRuns (o.map (· == 0)) 0 false []) = r at h
  cases r with
  | none =>
    simp only [runSpec, List.all_eq_true, List.mem_range, List.length_map] at h
    intro i hi hz
    have := h i (by omega)
    rw [(isRun_iff o i 2).mpr hz] at this
    simp at this; omega
  | some pl =>
    obtain ⟨pos, len⟩ := pl
    simp only [runSpec, Bool.and_eq_true, decide_eq_true_eq, List.all_eq_true, List.mem_range, List.length_map] at h
    obtain ⟨⟨⟨h1, h2⟩, h3⟩, h4⟩ := h
    refine ⟨h1, h2, (isRun_iff o pos len).mp h3, ?_⟩
    intro i n hin hz
    have := h4 i (by omega) n (by omega)
    rw [(isRun_iff o i n).mpr hz] at this
    simp only [hin, decide_true, Bool.and_self, Bool.not_true, Bool.false_or, Bool.and_eq_true, decide_eq_true_eq,
      Bool.or_eq_true, Bool.not_eq_true', beq_eq_false_iff_ne, ne_eq] at this
    refine ⟨this.1, fun e => ?_⟩
    rcases this.2 with h | h
    · exact absurd e h
    · exact h

theorem zeroRun_split (o : List Nat) (pos len : Nat) (hz : ZeroRun o pos len) (hl : pos + len ≤ o.length) :
    o = o.take pos ++ List.replicate len 0 ++ o.drop (pos + len) := by
  have h1 : o = o.take pos ++ o.drop pos := (List.take_append_drop pos o).symm
  have h2 : o.drop pos = (o.drop pos).take len ++ (o.drop pos).drop len := (List.take_append_drop len _).symm
  have h3 : (o.drop pos).take len = List.replicate len 0 := by
    apply List.ext_getElem?
    intro j
    by_cases hj : j < len
    · rw [List.getElem?_take_of_lt hj, List.getElem?_drop, hz j hj]
      simp [List.getElem?_replicate, hj]
    · rw [List.getElem?_take_eq_none (by omega)]
      simp [List.getElem?_replicate, hj]
  rw [List.drop_drop] at h2
  rw [h3] at h2
  calc o = o.take pos ++ o.drop pos := h1
    _ = o.take pos ++ (List.replicate len 0 ++ o.drop (pos + len)) := by rw [← h2]
    _ = _ := by rw [List.append_assoc]

end Pox.Addr
