import PoxModel.Proofs.Addr.IP6RT
import PoxModel.Proofs.Addr.Mask
import PoxModel.Proofs.Addr.Dpid
/-! C16 helper lemmas, part 8: RFC 5952 shape of `str(IPAddr6)`; IPv6 masks; `is_ipv4_mapped`.  Core only. -/
namespace Pox.Addr

deriving instance DecidableEq for Except

/-! ### one printed group -/

def lowerHex : Str := "0123456789abcdef".toList

theorem hexChar_lower : ∀ d, d < 16 → hexChar d ∈ lowerHex ∧ (hexChar d = '0' → d = 0) := by decide

theorem natDigits_chars (base : Nat) (hb1 : 1 ≤ base) (hb : base ≤ 16) : ∀ f n, ∀ c ∈ natDigits base f n, ∃ d, d < 16 ∧ c = hexChar d := by
  intro f
  induction f with
  | zero => intro n c hc; simp [natDigits] at hc
  | succ f ih =>
    intro n c hc
    unfold natDigits at hc
    by_cases h : n < base
    · rw [if_pos h] at hc
      simp only [List.mem_singleton] at hc
      exact ⟨n, by omega, hc⟩
    · rw [if_neg h] at hc
      rcases List.mem_append.mp hc with hc | hc
      · exact ih _ c hc
      · simp only [List.mem_singleton] at hc
        have : n % base < base := Nat.mod_lt _ (by omega)
        exact ⟨n % base, by omega, hc⟩

theorem natDigits_length (base : Nat) (hb2 : 2 ≤ base) : ∀ f k n, 1 ≤ k → n < base ^ k → (natDigits base f n).length ≤ k := by
  intro f
  induction f with
  | zero => intro k n _ _; simp [natDigits]
  | succ f ih =>
    intro k n hk hn
    unfold natDigits
    by_cases h : n < base
    · rw [if_pos h]; simpa using hk
    · rw [if_neg h]
      obtain ⟨k', rfl⟩ : ∃ k', k = k' + 1 := ⟨k - 1, by omega⟩
      have hk' : 1 ≤ k' := by
        rcases Nat.eq_zero_or_pos k' with h0 | h0
        · subst h0; simp at hn; omega
        · exact h0
      have hdiv : n / base < base ^ k' := by
        rw [Nat.div_lt_iff_lt_mul (by omega)]
        rw [Nat.pow_succ] at hn; exact hn
      have := ih k' (n / base) hk' hdiv
      simp; omega

theorem natDigits_head (base : Nat) (hb2 : 2 ≤ base) (hb : base ≤ 16) : ∀ f n, 1 ≤ n → n < f →
    ∃ d r, natDigits base f n = hexChar d :: r ∧ 1 ≤ d ∧ d < 16 := by
  intro f
  induction f with
  | zero => intro n _ h; omega
  | succ f ih =>
    intro n h1 hf
    unfold natDigits
    by_cases h : n < base
    · rw [if_pos h]; exact ⟨n, [], rfl, h1, by omega⟩
    · rw [if_neg h]
      have hq1 : 1 ≤ n / base := (Nat.le_div_iff_mul_le (by omega)).mpr (by omega)
      have hqf : n / base < f := by
        have : n / base < n := Nat.div_lt_self (by omega) (by omega)
        omega
      obtain ⟨d, r, hr, hd1, hd⟩ := ih (n / base) hq1 hqf
      exact ⟨d, r ++ [hexChar (n % base)], by rw [hr]; rfl, hd1, hd⟩

/-- RFC 5952 §4.1 / §4.3 for one 16-bit field: 1–4 lower-case hex digits, no leading zero, denoting `g` -/
structure CanonGroup (g : Nat) (s : Str) : Prop where
  ne : s ≠ []
  len : s.length ≤ 4
  lower : ∀ c ∈ s, c ∈ lowerHex
  nolead : s.head? = some '0' → s = ['0']
  val : foldDig 16 0 s = g

theorem canonGroup_fmt (g : Nat) (hg : g < 65536) : CanonGroup g (fmtNat 16 g) := by
  refine ⟨fmtNat_ne_nil _ _, natDigits_length 16 (by decide) _ 4 g (by decide) (by simpa using hg), ?_, ?_,
    foldDig_fmtNat 16 (by decide) (by decide) g⟩
  · intro c hc
    obtain ⟨d, hd, rfl⟩ := natDigits_chars 16 (by decide) (by decide) _ _ c hc
    exact (hexChar_lower d hd).1
  · intro hh
    rcases Nat.eq_zero_or_pos g with h0 | h0
    · subst h0; rfl
    · obtain ⟨d, r, hr, hd1, hd⟩ := natDigits_head 16 (by decide) (by decide) (g + 1) g h0 (by omega)
      unfold fmtNat at hh
      rw [hr] at hh
      simp only [List.head?_cons, Option.some.injEq] at hh
      have := (hexChar_lower d hd).2 hh
      omega

/-! ### `is_ipv4_mapped` -/

def v4net : Bytes := [0, 0, 0, 0, 0, 0, 0, 0, 0, 0, 0xff, 0xff, 0, 0, 0, 0]
def v4prefix : Bytes := [0, 0, 0, 0, 0, 0, 0, 0, 0, 0, 0xff, 0xff]

theorem parseCidr6_mapped : parseCidr6 "::ffff:0:0/96".toList false = .ok (v4net, 96) := by decide +kernel

theorem beDec_append (x y : Bytes) : beDec (x ++ y) = beDec x * 256 ^ y.length + beDec y := by
  induction x with
  | nil => simp [beDec]
  | cons b bs ih =>
    simp only [List.cons_append, beDec, List.length_append, ih, Nat.pow_add]
    rw [Nat.add_mul, Nat.mul_assoc, Nat.add_assoc]

theorem beEnc_beDec : ∀ (b : Bytes), beEnc b.length (beDec b) = b := by
  intro b
  induction b with
  | nil => rfl
  | cons x xs ih =>
    have hlt := beDec_lt xs
    have hp : 0 < 256 ^ xs.length := Nat.pow_pos (by decide)
    simp only [List.length_cons, beEnc, beDec]
    have e1 : (x.toNat * 256 ^ xs.length + beDec xs) / 256 ^ xs.length = x.toNat := by
      rw [Nat.mul_comm, Nat.mul_add_div hp, Nat.div_eq_of_lt hlt, Nat.add_zero]
    have e2 : (x.toNat * 256 ^ xs.length + beDec xs) % 256 ^ xs.length = beDec xs := by
      rw [Nat.mul_comm, Nat.mul_add_mod, Nat.mod_eq_of_lt hlt]
    rw [e1, e2, ih]; simp

theorem isV4Mapped_iff (a : Bytes) (ha : a.length = 16) : isV4Mapped a = true ↔ a.take 12 = v4prefix := by
  have hsplit : a = a.take 12 ++ a.drop 12 := (List.take_append_drop 12 a).symm
  have hp : (a.take 12).length = 12 := by simp [ha]
  have hq : (a.drop 12).length = 4 := by simp [ha]
  have hnum : num6 a = beDec (a.take 12) * 2 ^ 32 + beDec (a.drop 12) := by
    unfold num6
    conv => lhs; rw [hsplit]
    rw [beDec_append, hq]
  have hlt : beDec (a.drop 12) < 2 ^ 32 := by have := beDec_lt (a.drop 12); rw [hq] at this; omega
  have hnet : num6 v4net = 0xffff * 2 ^ 32 := by decide
  unfold isV4Mapped inNetwork6Text inNetwork6TextWith
  rw [parseCidr6_mapped]
  simp only [bind, Except.bind, inNetwork6, inNetworkN]
  rw [if_neg (by omega), hnum, hnet]
  have e : (beDec (a.take 12) * 2 ^ 32 + beDec (a.drop 12)) % 2 ^ (128 - 96) = beDec (a.drop 12) := by
    rw [Nat.mul_comm, Nat.mul_add_mod, Nat.mod_eq_of_lt hlt]
  rw [e, Nat.add_sub_cancel]
  simp only [beq_iff_eq]
  constructor
  · intro h
    have hv : beDec (a.take 12) = 0xffff := by omega
    have := beEnc_beDec (a.take 12)
    rw [hp, hv] at this
    rw [← this]; decide
  · intro h
    rw [h]; decide

/-! ### IPv6 masks -/

theorem num6_lt (a : Bytes) (ha : a.length = 16) : num6 a < 2 ^ 128 := by
  have := beDec_lt a; rw [ha] at this; unfold num6; omega

theorem num6_fromNum6 (v : Nat) (hv : v < 2 ^ 128) : num6 (fromNum6 v) = v := by
  unfold num6 fromNum6; exact beDec_beEnc 16 v (by omega)

theorem fromNum6_num6 (a : Bytes) (ha : a.length = 16) : fromNum6 (num6 a) = a := by
  unfold num6 fromNum6; rw [← ha]; exact beEnc_beDec a

end Pox.Addr

namespace Pox.Addr

theorem fmtGroups_true (gs : List Nat) : fmtGroups true gs = joinWith ':' (gs.map (fmtNat 16)) := rfl

/-- the printed text of a non-mapped address, spelled out -/
theorem str6_plain (a : Bytes) (hm : isV4Mapped a = false) :
    str6 a = match findRun (groups6 a) with
      | some (pos, len) => joinWith ':' (((groups6 a).take pos).map (fmtNat 16)) ++ ':' :: ':' ::
                            joinWith ':' (((groups6 a).drop (pos + len)).map (fmtNat 16))
      | none => joinWith ':' ((groups6 a).map (fmtNat 16)) := by
  unfold str6 toStr6
  simp only [hm, Bool.false_eq_true, if_false, body6, if_true, fmtGroups_true]
  cases findRun (groups6 a) with
  | none => rfl
  | some p => rfl

theorem mapped_body : body6 true true [0, 0, 0, 0, 0, 0xffff, 1, 1] = "::ffff:1:1".toList := by decide +kernel
theorem mapped_head : rsplit2head ':' "::ffff:1:1".toList = "::ffff".toList := by decide +kernel

/-- the printed text of an IPv4-mapped address: `::ffff:` followed by the dotted quad (RFC 5952 §5) -/
theorem str6_mapped (a : Bytes) (ha : a.length = 16) (hm : isV4Mapped a = true) :
    str6 a = "::ffff:".toList ++ dotted (a.drop 12) := by
  have hp := (isV4Mapped_iff a ha).mp hm
  have hsplit : a = a.take 12 ++ a.drop 12 := (List.take_append_drop 12 a).symm
  obtain ⟨hl6, _, _⟩ := groups6_spec 6 (a.take 12) (by simp [ha])
  have ho6 : (groups6 a).take 6 = [0, 0, 0, 0, 0, 0xffff] := by
    conv => lhs; rw [hsplit, groups6_append 6 _ _ (by simp [ha])]
    rw [List.take_left' hl6, hp]; decide
  unfold str6 toStr6
  simp only [hm, if_true, ho6]
  have : ([0, 0, 0, 0, 0, 0xffff] : List Nat) ++ [1, 1] = [0, 0, 0, 0, 0, 0xffff, 1, 1] := rfl
  rw [this, mapped_body, mapped_head]
  rfl

end Pox.Addr
