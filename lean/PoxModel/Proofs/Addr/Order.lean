import PoxModel.Model.Addr
/-! C16 helper lemmas, part 9: the byte-wise order of IPAddr6 / EthAddr values.  Core only. -/
namespace Pox.Addr

theorem u8_lt_iff (x y : UInt8) : x < y ↔ x.toNat < y.toNat := UInt8.lt_iff_toNat_lt
theorem u8_eq_of (x y : UInt8) (h : x.toNat = y.toNat) : x = y := UInt8.toNat_inj.mp h

theorem bytesLt_irrefl : ∀ a : Bytes, bytesLt a a = false := by
  intro a
  induction a with
  | nil => rfl
  | cons x xs ih =>
    have : ¬ x < x := by rw [u8_lt_iff]; omega
    simp [bytesLt, this, ih]

/-- exactly one of `a < b`, `a == b`, `b < a` -/
theorem bytesLt_trichotomy : ∀ a b : Bytes,
    (bytesLt a b = true ∧ a ≠ b ∧ bytesLt b a = false) ∨
    (bytesLt a b = false ∧ a = b ∧ bytesLt b a = false) ∨
    (bytesLt a b = false ∧ a ≠ b ∧ bytesLt b a = true) := by
  intro a
  induction a with
  | nil =>
    intro b
    cases b with
    | nil => simp [bytesLt]
    | cons y ys => simp [bytesLt]
  | cons x xs ih =>
    intro b
    cases b with
    | nil => simp [bytesLt]
    | cons y ys =>
      by_cases h1 : x < y
      · have h2 : ¬ y < x := by rw [u8_lt_iff] at *; omega
        have hne : x ≠ y := by intro e; subst e; exact h2 h1
        simp [bytesLt, h1, h2, hne]
      · by_cases h2 : y < x
        · have hne : x ≠ y := by intro e; subst e; exact h1 h2
          simp [bytesLt, h1, h2, hne]
        · have he : x = y := by
            apply u8_eq_of; rw [u8_lt_iff] at *; omega
          subst he
          rcases ih ys with h | h | h <;> simp [bytesLt, h1, h, bytesLt_irrefl]

theorem bytesLt_trans : ∀ a b c : Bytes, bytesLt a b = true → bytesLt b c = true → bytesLt a c = true := by
  intro a
  induction a with
  | nil =>
    intro b c h1 h2
    cases b with
    | nil => simp [bytesLt] at h1
    | cons y ys =>
      cases c with
      | nil => simp [bytesLt] at h2
      | cons z zs => rfl
  | cons x xs ih =>
    intro b c h1 h2
    cases b with
    | nil => simp [bytesLt] at h1
    | cons y ys =>
      cases c with
      | nil => simp [bytesLt] at h2
      | cons z zs =>
        simp only [bytesLt] at h1 h2 ⊢
        by_cases hxy : x < y
        · by_cases hyz : y < z
          · have : x < z := by rw [u8_lt_iff] at *; omega
            simp [this]
          · rw [if_neg hyz] at h2
            by_cases hzy : z < y
            · simp [hzy] at h2
            · have : y = z := by apply u8_eq_of; rw [u8_lt_iff] at *; omega
              subst this; simp [hxy]
        · rw [if_neg hxy] at h1
          by_cases hyx : y < x
          · simp [hyx] at h1
          · have : x = y := by apply u8_eq_of; rw [u8_lt_iff] at *; omega
            subst this
            rw [if_neg hyx] at h1
            by_cases hxz : x < z
            · simp [hxz]
            · rw [if_neg hxz] at h2 ⊢
              by_cases hzx : z < x
              · simp [hzx] at h2
              · rw [if_neg hzx] at h2 ⊢
                exact ih ys zs h1 h2

end Pox.Addr
