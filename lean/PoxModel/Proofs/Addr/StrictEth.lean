import PoxModel.Proofs.Addr.EthSpec
/-! C16 helper lemmas, part 17: the repaired `EthAddr(text)` (`ethOfTextS`, `fixes/C16_eth_text.diff`) and sequence constructor
accept exactly what the reference definition `ethDenote` gives.  Core only. -/
namespace Pox.Addr

theorem ethFinishS_12 (h0 l0 h1 l1 h2 l2 h3 l3 h4 l4 h5 l5 : Char)
    (H0 : digitVal h0 < 16) (L0 : digitVal l0 < 16) (H1 : digitVal h1 < 16) (L1 : digitVal l1 < 16)
    (H2 : digitVal h2 < 16) (L2 : digitVal l2 < 16) (H3 : digitVal h3 < 16) (L3 : digitVal l3 < 16)
    (H4 : digitVal h4 < 16) (L4 : digitVal l4 < 16) (H5 : digitVal h5 < 16) (L5 : digitVal l5 < 16) :
    ethFinishS [h0, l0, h1, l1, h2, l2, h3, l3, h4, l4, h5, l5] =
      .ok [hexByte h0 l0, hexByte h1 l1, hexByte h2 l2, hexByte h3 l3, hexByte h4 l4, hexByte h5 l5] := by
  unfold ethFinishS
  have : [h0, l0, h1, l1, h2, l2, h3, l3, h4, l4, h5, l5].all (fun c => decide (digitVal c < 16)) = true := by
    simp [H0, L0, H1, L1, H2, L2, H3, L3, H4, L4, H5, L5]
  rw [if_pos this]
  exact ethBytesOfHex_12 _ _ _ _ _ _ _ _ _ _ _ _ H0 L0 H1 L1 H2 L2 H3 L3 H4 L4 H5 L5

theorem ethFinishS_bad (s : Str) (h : s.all (fun c => decide (digitVal c < 16)) = false) : ethFinishS s = .error .runtime := by
  unfold ethFinishS; rw [h]; rfl

theorem splitOn_length (c : Char) : ∀ s : Str, (splitOn c s).length = s.count c + 1 := by
  intro s
  induction s with
  | nil => rfl
  | cons x xs ih =>
    unfold splitOn
    by_cases hx : x = c
    · rw [if_pos hx]; simp [hx, ih]
    · rw [if_neg hx]
      cases hs : splitOn c xs with
      | nil => exact absurd hs (splitOn_ne_nil c xs)
      | cons h t =>
        rw [hs] at ih
        simp only [List.length_cons] at ih ⊢
        rw [ih, List.count_cons_of_ne (fun e => hx e)]

/-- condition of the loose form, as the repaired code tests it -/
def looseOK (ps : List Str) : Bool := decide (ps.length = 6) && ps.all (isHexStr 1 2)

theorem looseOK_spec (ps : List Str) :
    looseOK ps = (decide (ps.length = 6) && ps.all (fun p => (decide (p.length = 1) || decide (p.length = 2)) && p.all isHexDigit)) := by
  unfold looseOK
  congr 1
  congr 1
  funext p
  unfold isHexStr isHexDigit
  by_cases h1 : p.length = 1
  · simp [h1]
  · by_cases h2 : p.length = 2
    · simp [h2]
    · have : ¬ (1 ≤ p.length ∧ p.length ≤ 2) := by omega
      simp [h1, h2]
      intro a b; omega

theorem looseDenote_eq (s : Str) :
    ethDenote.looseDenote s = if looseOK (splitOn ':' s) = true then some ((splitOn ':' s).map fun p => UInt8.ofNat (groupVal p)) else none := by
  unfold ethDenote.looseDenote
  simp only
  rw [looseOK_spec]
  by_cases h : (splitOn ':' s).length = 6 ∧
      ((splitOn ':' s).all fun p => (decide (p.length = 1) || decide (p.length = 2)) && p.all isHexDigit) = true
  · rw [if_pos h, if_pos (by simp [h.1, h.2])]
  · rw [if_neg h, if_neg]
    intro hc
    simp only [Bool.and_eq_true, decide_eq_true_eq] at hc
    exact h hc

theorem loose_branch (s : Str) :
    (ethLooseHexS s >>= ethFinishS) =
      if looseOK (splitOn ':' s) = true then .ok ((splitOn ':' s).map fun p => UInt8.ofNat (groupVal p)) else .error .runtime := by
  unfold ethLooseHexS looseOK
  simp only
  by_cases hc : (splitOn ':' s).length = 6 ∧ (splitOn ':' s).all (isHexStr 1 2) = true
  · have hcond : ¬ ((splitOn ':' s).length ≠ 6 ∨ (splitOn ':' s).all (isHexStr 1 2) = false) := by
      intro h; rcases h with h | h
      · exact h hc.1
      · rw [hc.2] at h; cases h
    rw [if_neg hcond, if_pos (by simp [hc.1, hc.2])]
    obtain ⟨g0, g1, g2, g3, g4, g5, hps⟩ := list_len6 _ hc.1
    rw [hps] at hc ⊢
    have hg : ∀ g ∈ [g0, g1, g2, g3, g4, g5], AllDig 16 g ∧ (g.length = 1 ∨ g.length = 2) := by
      intro g hg
      have := List.all_eq_true.mp hc.2 g hg
      unfold isHexStr at this
      simp only [Bool.and_eq_true, decide_eq_true_eq, List.all_eq_true] at this
      exact ⟨this.2, by omega⟩
    have G0 := hg g0 (by simp); have G1 := hg g1 (by simp); have G2 := hg g2 (by simp)
    have G3 := hg g3 (by simp); have G4 := hg g4 (by simp); have G5 := hg g5 (by simp)
    simp only [List.mapM_cons, List.mapM_nil, loose_part _ G0.1 G0.2, loose_part _ G1.1 G1.2, loose_part _ G2.1 G2.2,
      loose_part _ G3.1 G3.2, loose_part _ G4.1 G4.2, loose_part _ G5.1 G5.2, bind, Except.bind, pure, Except.pure]
    have V0 := (short_group_val _ G0.1 G0.2).2; have V1 := (short_group_val _ G1.1 G1.2).2
    have V2 := (short_group_val _ G2.1 G2.2).2; have V3 := (short_group_val _ G3.1 G3.2).2
    have V4 := (short_group_val _ G4.1 G4.2).2; have V5 := (short_group_val _ G5.1 G5.2).2
    simp only [List.flatten_cons, List.flatten_nil, hex2_eq _ V0, hex2_eq _ V1, hex2_eq _ V2, hex2_eq _ V3, hex2_eq _ V4,
      hex2_eq _ V5, List.cons_append, List.nil_append, List.append_nil]
    have d : ∀ v, v < 256 → digitVal (hexChar (v / 16)) < 16 ∧ digitVal (hexChar (v % 16)) < 16 :=
      fun v hv => ⟨hexdig _ (by omega), hexdig _ (by omega)⟩
    rw [ethFinishS_12 _ _ _ _ _ _ _ _ _ _ _ _ (d _ V0).1 (d _ V0).2 (d _ V1).1 (d _ V1).2 (d _ V2).1 (d _ V2).2
      (d _ V3).1 (d _ V3).2 (d _ V4).1 (d _ V4).2 (d _ V5).1 (d _ V5).2]
    simp only [hexByte_of_val _ V0, hexByte_of_val _ V1, hexByte_of_val _ V2, hexByte_of_val _ V3, hexByte_of_val _ V4,
      hexByte_of_val _ V5, List.map_cons, List.map_nil]
    rfl
  · have hcond : (splitOn ':' s).length ≠ 6 ∨ (splitOn ':' s).all (isHexStr 1 2) = false := by
      by_cases h6 : (splitOn ':' s).length = 6
      · right
        cases hh : (splitOn ':' s).all (isHexStr 1 2) with
        | false => rfl
        | true => exact absurd ⟨h6, hh⟩ hc
      · left; exact h6
    rw [if_pos hcond, if_neg]
    · rfl
    · intro h
      simp only [Bool.and_eq_true, decide_eq_true_eq] at h
      exact hc h

/-- result of either side as an option -/
def okOpt {α} : Except Err α → Option α
  | .ok a => some a
  | .error _ => none

/-- **accept ⇔ well-formed, with the right bytes**: the repaired `EthAddr(text)` returns `b` iff the text denotes `b` -/
theorem ethOfTextS_iff (s : Str) : okOpt (ethOfTextS s) = ethDenote s := by
  by_cases h6 : s.length = 6
  · unfold ethOfTextS ethDenote
    simp only [h6, if_true]; rfl
  · by_cases h12 : s.length = 12
    · obtain ⟨h0, l0, h1, l1, h2, l2, h3, l3, h4, l4, h5, l5, rfl⟩ := list_len12 s h12
      unfold ethOfTextS ethDenote
      simp only [List.length_cons, List.length_nil, Nat.reduceAdd, Nat.reduceEqDiff, if_false, true_or, or_true, if_true, true_and]
      by_cases hx : [h0, l0, h1, l1, h2, l2, h3, l3, h4, l4, h5, l5].all isHexDigit = true
      · have d : ∀ c ∈ [h0, l0, h1, l1, h2, l2, h3, l3, h4, l4, h5, l5], digitVal c < 16 := by
          intro c hc
          have := List.all_eq_true.mp hx c hc
          simpa [isHexDigit] using this
        have hnc : has ':' [h0, l0, h1, l1, h2, l2, h3, l3, h4, l4, h5, l5] = false := by
          rw [has_false_iff]
          intro hm
          have := d ':' hm
          rw [dv_colon] at this; omega
        rw [if_pos hnc, if_pos hx, ethFinishS_12 _ _ _ _ _ _ _ _ _ _ _ _ (d _ (by simp)) (d _ (by simp)) (d _ (by simp)) (d _ (by simp))
          (d _ (by simp)) (d _ (by simp)) (d _ (by simp)) (d _ (by simp)) (d _ (by simp)) (d _ (by simp)) (d _ (by simp)) (d _ (by simp))]
        rfl
      · rw [if_neg hx, looseDenote_eq]
        by_cases hnc : has ':' [h0, l0, h1, l1, h2, l2, h3, l3, h4, l4, h5, l5] = false
        · rw [if_pos hnc]
          have hbad : [h0, l0, h1, l1, h2, l2, h3, l3, h4, l4, h5, l5].all (fun c => decide (digitVal c < 16)) = false := by
            cases hh : [h0, l0, h1, l1, h2, l2, h3, l3, h4, l4, h5, l5].all (fun c => decide (digitVal c < 16)) with
            | false => rfl
            | true => exact absurd hh hx
          rw [ethFinishS_bad _ hbad, splitOn_none ':' _ ((has_false_iff ':' _).mp hnc)]
          rfl
        · rw [if_neg hnc]
          have := loose_branch [h0, l0, h1, l1, h2, l2, h3, l3, h4, l4, h5, l5]
          simp only [bind, Except.bind] at this ⊢
          rw [this]
          split <;> rfl
    · by_cases h17 : s.length = 17
      · obtain ⟨h0, l0, s0, h1, l1, s1, h2, l2, s2, h3, l3, s3, h4, l4, s4, h5, l5, rfl⟩ := list_len17 s h17
        unfold ethOfTextS ethDenote
        simp only [List.length_cons, List.length_nil, Nat.reduceAdd, Nat.reduceEqDiff, if_false, true_or, if_true]
        have hseps : ([2, 5, 8, 11, 14].filterMap fun i =>
            [h0, l0, s0, h1, l1, s1, h2, l2, s2, h3, l3, s3, h4, l4, s4, h5, l5][i]?) = [s0, s1, s2, s3, s4] := by simp
        have hpairs : ((List.range 6).flatMap fun x => slice [h0, l0, s0, h1, l1, s1, h2, l2, s2, h3, l3, s3, h4, l4, s4, h5, l5] (x * 3) (x * 3 + 2))
            = [h0, l0, h1, l1, h2, l2, h3, l3, h4, l4, h5, l5] := by
          rw [range6]
          simp [slice]
        rw [hseps, hpairs]
        by_cases hs : [s0, s1, s2, s3, s4] = [':', ':', ':', ':', ':'] ∨ [s0, s1, s2, s3, s4] = ['-', '-', '-', '-', '-']
        · have hnot : ¬ ([s0, s1, s2, s3, s4] ≠ [':', ':', ':', ':', ':'] ∧ [s0, s1, s2, s3, s4] ≠ ['-', '-', '-', '-', '-']) := by
            intro h; rcases hs with e | e
            · exact h.1 e
            · exact h.2 e
          rw [if_neg hnot]
          by_cases hx : [h0, l0, h1, l1, h2, l2, h3, l3, h4, l4, h5, l5].all isHexDigit = true
          · have d : ∀ c ∈ [h0, l0, h1, l1, h2, l2, h3, l3, h4, l4, h5, l5], digitVal c < 16 := by
              intro c hc
              have := List.all_eq_true.mp hx c hc
              simpa [isHexDigit] using this
            rw [if_pos ⟨hx, hs⟩, ethFinishS_12 _ _ _ _ _ _ _ _ _ _ _ _ (d _ (by simp)) (d _ (by simp)) (d _ (by simp)) (d _ (by simp))
              (d _ (by simp)) (d _ (by simp)) (d _ (by simp)) (d _ (by simp)) (d _ (by simp)) (d _ (by simp)) (d _ (by simp)) (d _ (by simp))]
            rfl
          · rw [if_neg (fun h => hx h.1)]
            have hbad : [h0, l0, h1, l1, h2, l2, h3, l3, h4, l4, h5, l5].all (fun c => decide (digitVal c < 16)) = false := by
              cases hh : [h0, l0, h1, l1, h2, l2, h3, l3, h4, l4, h5, l5].all (fun c => decide (digitVal c < 16)) with
              | false => rfl
              | true => exact absurd hh hx
            rw [ethFinishS_bad _ hbad]; rfl
        · have hyes : [s0, s1, s2, s3, s4] ≠ [':', ':', ':', ':', ':'] ∧ [s0, s1, s2, s3, s4] ≠ ['-', '-', '-', '-', '-'] :=
            ⟨fun e => hs (.inl e), fun e => hs (.inr e)⟩
          rw [if_pos hyes, if_neg (fun h => hs h.2)]; rfl
      · -- any other length: the loose form, entered iff there are five colons
        have hden : ethDenote s = ethDenote.looseDenote s := by
          unfold ethDenote
          rw [if_neg h6]
          split
          · exfalso; apply h12; subst_vars; rfl
          · exfalso; apply h17; subst_vars; rfl
          · rfl
        rw [hden, looseDenote_eq]
        unfold ethOfTextS
        simp only [h6, h12, h17, if_false, false_or, false_and]
        by_cases hc : s.count ':' = 5
        · rw [if_pos hc]
          have := loose_branch s
          simp only [bind, Except.bind] at this ⊢
          rw [this]
          split <;> rfl
        · rw [if_neg hc]
          have : looseOK (splitOn ':' s) = false := by
            unfold looseOK
            rw [splitOn_length]
            have : ¬ (s.count ':' + 1 = 6) := by omega
            simp [this]
          rw [this]; rfl

/-- the sequence constructor after `fixes/C16_eth_seq.diff`: accepted iff exactly six items in `0..255`, which are returned -/
theorem ethOfSeqS_iff (l : List Int) (b : Bytes) :
    ethOfSeqS l = .ok b ↔ l.length = 6 ∧ l = b.map fun x => (x.toNat : Int) := by
  unfold ethOfSeqS
  constructor
  · intro h
    by_cases h6 : l.length ≠ 6
    · rw [if_pos h6] at h; cases h
    · rw [if_neg h6] at h
      refine ⟨by omega, ?_⟩
      clear h6
      induction l generalizing b with
      | nil => unfold ethOfSeq at h; simp at h; cases h; rfl
      | cons v vs ih =>
        unfold ethOfSeq at h ih
        rw [List.mapM_cons] at h
        by_cases hv : v < 0 ∨ v > 255
        · rw [if_pos hv] at h; cases h
        · rw [if_neg hv] at h
          cases hr : vs.mapM (fun v => if v < 0 ∨ v > 255 then (Except.error Err.value : Except Err UInt8) else .ok (UInt8.ofNat v.toNat)) with
          | error e => rw [hr] at h; cases h
          | ok bs =>
            rw [hr] at h
            simp only [bind, Except.bind, pure, Except.pure, Except.ok.injEq] at h
            rw [← h, List.map_cons, ← ih bs hr]
            congr 1
            have : (UInt8.ofNat v.toNat).toNat = v.toNat := by
              simp [UInt8.toNat_ofNat]; omega
            rw [this]; omega
  · intro ⟨h6, hl⟩
    rw [if_neg (by omega), hl]
    have := b.length
    clear h6 hl
    induction b with
    | nil => rfl
    | cons x xs ih =>
      have hx := x.toNat_lt
      unfold ethOfSeq at ih ⊢
      rw [List.map_cons, List.mapM_cons, ih]
      have : ¬ ((x.toNat : Int) < 0 ∨ (x.toNat : Int) > 255) := by omega
      rw [if_neg this]
      simp [bind, Except.bind, pure, Except.pure]

end Pox.Addr
