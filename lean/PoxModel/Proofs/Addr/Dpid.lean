import PoxModel.Proofs.Addr.Text
/-! C16 helper lemmas, part 7: datapath-id strings.  Core only. -/
namespace Pox.Addr

theorem hex2_eq : ∀ n, n < 256 → hex2 n = [hexChar (n / 16), hexChar (n % 16)] := by decide +kernel

theorem hexChar_facts : ∀ d, d < 16 → hexChar d ≠ '-' ∧ hexChar d ≠ '|' ∧ hexChar d ≠ 'x' ∧ Char.toLower (hexChar d) = hexChar d := by
  decide

theorem splitOnN_none (c : Char) (n : Nat) (a : Str) (ha : c ∉ a) : splitOnN c (n + 1) a = [a] := by
  induction a with
  | nil => simp [splitOnN]
  | cons x xs ih =>
    have hx : x ≠ c := fun e => ha (by simp [e])
    have hxs : c ∉ xs := fun h => ha (by simp [h])
    rw [splitOnN, if_neg hx, ih hxs]

theorem splitOnN_append (c : Char) (n : Nat) (a b : Str) (ha : c ∉ a) :
    splitOnN c (n + 1) (a ++ c :: b) = a :: splitOnN c n b := by
  induction a with
  | nil => simp [splitOnN]
  | cons x xs ih =>
    have hx : x ≠ c := fun e => ha (by simp [e])
    have hxs : c ∉ xs := fun h => ha (by simp [h])
    rw [List.cons_append, splitOnN, if_neg hx, ih hxs]

theorem filter_id_of_dig {b : Nat} {s : Str} (h : AllDig b s) (hb : b ≤ 36) : s.filter (· != '-') = s := by
  rw [List.filter_eq_self]
  intro c hc
  have := ne_of_digitVal (h c hc) (d := '-') (by rw [dv_minus]; omega)
  simpa using this

theorem list_len8 {α} (q : List α) (h : q.length = 8) : ∃ a b c d e f g i, q = [a, b, c, d, e, f, g, i] := by
  match q, h with
  | [a, b, c, d, e, f, g, i], _ => exact ⟨a, b, c, d, e, f, g, i, rfl⟩

/-- the 12 hex digits of the low six bytes -/
def low48 (x2 x3 x4 x5 x6 x7 : UInt8) : Str :=
  hex2 x2.toNat ++ hex2 x3.toNat ++ hex2 x4.toNat ++ hex2 x5.toNat ++ hex2 x6.toNat ++ hex2 x7.toNat

theorem hex2_good (n : Nat) : GoodHex n (hex2 n) := goodHex_pad 2 n

theorem foldDig_hex2 (acc n : Nat) (h : n < 256) : foldDig 16 acc (hex2 n) = acc * 256 + n := by
  rw [hex2_eq n h]
  simp only [foldDig, List.foldl_cons, List.foldl_nil]
  rw [digitVal_hexChar _ (by omega), digitVal_hexChar _ (by omega)]
  omega

theorem low48_val (x2 x3 x4 x5 x6 x7 : UInt8) :
    foldDig 16 0 (low48 x2 x3 x4 x5 x6 x7) = beDec [x2, x3, x4, x5, x6, x7] := by
  unfold low48
  simp only [foldDig_append, foldDig_hex2 _ _ (UInt8.toNat_lt _)]
  simp [beDec]
  omega

theorem low48_dig (x2 x3 x4 x5 x6 x7 : UInt8) : AllDig 16 (low48 x2 x3 x4 x5 x6 x7) := by
  unfold low48
  exact ((((((hex2_good _).dig.append (hex2_good _).dig).append (hex2_good _).dig).append (hex2_good _).dig).append
    (hex2_good _).dig).append (hex2_good _).dig)

theorem beDec_lt (b : Bytes) : beDec b < 256 ^ b.length := by
  induction b with
  | nil => simp [beDec]
  | cons x xs ih =>
    simp only [beDec, List.length_cons, Nat.pow_succ]
    have := x.toNat_lt
    have hp : 0 < 256 ^ xs.length := Nat.pow_pos (by decide)
    generalize 256 ^ xs.length = P at *
    have : x.toNat * P ≤ 255 * P := Nat.mul_le_mul_right _ (by omega)
    omega

end Pox.Addr

namespace Pox.Addr

theorem filter_joinWith (c : Char) : ∀ (gs : List Str), (∀ g ∈ gs, c ∉ g) → (joinWith c gs).filter (· != c) = gs.flatten := by
  intro gs
  induction gs with
  | nil => intro _; rfl
  | cons g gs ih =>
    intro h
    have hg : g.filter (· != c) = g := by
      rw [List.filter_eq_self]
      intro x hx
      have : x ≠ c := fun e => h g (by simp) (e ▸ hx)
      simpa using this
    cases gs with
    | nil => simp [joinWith, hg]
    | cons g' gs' =>
      rw [joinWith_cons_cons, List.filter_append, hg, List.filter_cons]
      simp only [bne_self_eq_false, Bool.false_eq_true, if_false]
      rw [ih (fun x hx => h x (by simp [hx]))]
      simp

theorem hex2_no (n : Nat) {d : Char} (hd : 16 ≤ digitVal d) : d ∉ hex2 n := (hex2_good n).dig.not_mem hd

theorem dpid_text_head (x2 : UInt8) (rest : Str) :
    startsWith ((hex2 x2.toNat ++ rest).map Char.toLower) ['0', 'x'] = false := by
  rw [hex2_eq _ x2.toNat_lt]
  have h := (hexChar_facts (x2.toNat % 16) (Nat.mod_lt _ (by decide)))
  simp only [startsWith, List.cons_append, List.nil_append, List.map_cons, List.length_cons, List.length_nil,
    List.take_succ_cons, List.take_zero, h.2.2.2]
  have := h.2.2.1
  simp [this]

theorem strToDpid_canonical (x0 x1 x2 x3 x4 x5 x6 x7 : UInt8) (long : Bool) :
    strToDpid (dpidBytesToStr [x0, x1, x2, x3, x4, x5, x6, x7] long) = .ok (beDec [x0, x1, x2, x3, x4, x5, x6, x7]) := by
  have hdash : ∀ g ∈ [hex2 x2.toNat, hex2 x3.toNat, hex2 x4.toNat, hex2 x5.toNat, hex2 x6.toNat, hex2 x7.toNat], '-' ∉ g := by
    intro g hg
    simp only [List.mem_cons, List.not_mem_nil, or_false] at hg
    rcases hg with rfl | rfl | rfl | rfl | rfl | rfl <;> exact hex2_no _ (by rw [dv_minus]; decide)
  have hflat : [hex2 x2.toNat, hex2 x3.toNat, hex2 x4.toNat, hex2 x5.toNat, hex2 x6.toNat, hex2 x7.toNat].flatten =
      low48 x2 x3 x4 x5 x6 x7 := by simp [low48]
  have hmap : ([x2, x3, x4, x5, x6, x7].map fun x => hex2 x.toNat) =
      [hex2 x2.toNat, hex2 x3.toNat, hex2 x4.toNat, hex2 x5.toNat, hex2 x6.toNat, hex2 x7.toNat] := rfl
  have hr : joinWith '-' [hex2 x2.toNat, hex2 x3.toNat, hex2 x4.toNat, hex2 x5.toNat, hex2 x6.toNat, hex2 x7.toNat] =
      hex2 x2.toNat ++ '-' :: joinWith '-' [hex2 x3.toNat, hex2 x4.toNat, hex2 x5.toNat, hex2 x6.toNat, hex2 x7.toNat] := rfl
  have hlow := low48_val x2 x3 x4 x5 x6 x7
  have hlt : beDec [x2, x3, x4, x5, x6, x7] < 256 ^ 6 := beDec_lt _
  have hne : low48 x2 x3 x4 x5 x6 x7 ≠ [] := by
    unfold low48; rw [hex2_eq _ x2.toNat_lt]; simp
  have hbar : '|' ∉ low48 x2 x3 x4 x5 x6 x7 := (low48_dig x2 x3 x4 x5 x6 x7).not_mem (by rw [dv_bar]; decide)
  have hpy : pyInt 16 (low48 x2 x3 x4 x5 x6 x7) = .ok ((beDec [x2, x3, x4, x5, x6, x7] : Nat) : Int) := by
    rw [pyInt_dig 16 (by decide) _ (low48_dig x2 x3 x4 x5 x6 x7) hne, hlow]
  have hfull : beDec [x0, x1, x2, x3, x4, x5, x6, x7] = beDec [x0, x1] * 2 ^ 48 + beDec [x2, x3, x4, x5, x6, x7] := by
    simp [beDec]; omega
  unfold dpidBytesToStr strToDpid
  simp only [List.drop_succ_cons, List.drop_zero, List.take_succ_cons, List.take_zero]
  rw [hmap, hr]
  by_cases hl : (long || [x0, x1] != [0, 0]) = true
  · rw [if_pos hl]
    have hdec := allDig_fmtNat 10 (by decide) (by decide) (beDec [x0, x1])
    rw [List.append_assoc, dpid_text_head]
    simp only [Bool.false_eq_true, if_false]
    rw [← List.append_assoc, ← hr, List.filter_append, filter_joinWith '-' _ hdash, hflat, List.filter_cons]
    simp only [show (('|' : Char) != '-') = true by decide, if_true]
    rw [filter_id_of_dig hdec (by decide), splitOnN_append '|' 1 _ _ hbar,
      splitOnN_none '|' 0 _ (hdec.not_mem (by rw [dv_bar]; decide))]
    simp only [hpy, bind, Except.bind]
    rw [pyInt_dig 10 (by decide) _ hdec (fmtNat_ne_nil _ _), foldDig_fmtNat 10 (by decide) (by decide)]
    have : ¬ beDec [x2, x3, x4, x5, x6, x7] > 0xffffffffffff := by omega
    simp only [this, if_false, pure, Except.pure]
    have hlt' : beDec [x2, x3, x4, x5, x6, x7] < 2 ^ 48 := by omega
    have key : beDec [x2, x3, x4, x5, x6, x7] ||| beDec [x0, x1] <<< 48 = beDec [x0, x1, x2, x3, x4, x5, x6, x7] := by
      rw [hfull, Nat.or_comm, ← Nat.shiftLeft_add_eq_or_of_lt hlt', Nat.shiftLeft_eq]
    rw [key]
  · rw [if_neg hl]
    have h01 : x0 = 0 ∧ x1 = 0 := by
      simp only [Bool.or_eq_true, bne_iff_ne, ne_eq, not_or, Decidable.not_not] at hl
      simpa using hl.2
    rw [dpid_text_head]
    simp only [Bool.false_eq_true, if_false]
    rw [← hr, filter_joinWith '-' _ hdash, hflat, splitOnN_none '|' 1 _ hbar]
    simp only [hpy, bind, Except.bind]
    have : ¬ beDec [x2, x3, x4, x5, x6, x7] > 0xffffffffffff := by omega
    simp only [this, if_false, pure, Except.pure]
    have hz : beDec [(0 : UInt8), 0] = 0 := by decide
    rw [hfull, h01.1, h01.2, hz, Nat.zero_shiftLeft, Nat.or_zero, Nat.zero_mul, Nat.zero_add]

/-- `str_to_dpid(dpid_to_str(d, alwaysLong)) == d` for every 64-bit `d` -/
theorem strToDpid_dpidToStr (d : Nat) (hd : d < 2 ^ 64) (long : Bool) :
    ∃ s, dpidToStr d long = .ok s ∧ strToDpid s = .ok d := by
  unfold dpidToStr
  rw [if_neg (by omega)]
  refine ⟨_, rfl, ?_⟩
  obtain ⟨x0, x1, x2, x3, x4, x5, x6, x7, hb⟩ := list_len8 (beEnc 8 d) (beEnc_length 8 d)
  rw [hb, strToDpid_canonical, ← hb, beDec_beEnc 8 d (by omega)]

end Pox.Addr
