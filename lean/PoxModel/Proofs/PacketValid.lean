import PoxModel.Proofs.PacketChain
import PoxModel.Proofs.Gre
/-!
# The wire form of a whole chain is valid for a receiver (C14 `chain_valid`; core only)

The per-header theorems (`udp_hdr`, `tcp_hdr`, …) take the pseudo-header context as a parameter.  Here the chain is packed
as a whole and validity is stated on the emitted bytes alone: the pseudo header a receiver builds comes from the
**emitted IPv4 header bytes** (`ctxOfWire`), not from the object.  So the theorem also covers that `pack` hands the
enclosing header's source, destination and protocol to `udp.checksum` / `tcp.checksum`.
-/
namespace Pox.Packet
open Pox Pox.PktLayout Pox.Checksum

/-- the closed form of `pack()` -/
def wire : Option IPCtx → Pkt → Bytes
  | _, .raw b => b
  | _, .eth h n => ethBytes h ++ wire none n
  | _, .vlan h n => vlanBytes h ++ wire none n
  | _, .arp h n => (match arpHdr h with | .ok b => b | .error _ => []) ++ wire none n
  | _, .ipv4 h n =>
    let rest := wire (some ⟨h.src, h.dst, h.proto⟩) n
    ipv4Bytes h rest.length ++ rest
  | some c, .udp h n => let rest := wire none n; udpBytes c h rest ++ rest
  | some c, .tcp h n => let rest := wire none n; tcpBytes c h (optsPadded h.opts) rest ++ rest
  | _, .icmp h n => let rest := wire none n; icmpBytes h rest ++ rest
  | _, .echo h n => echoBytes h ++ wire none n
  | _, .unreach h n => unreachBytes h ++ wire none n
  | _, .timeEx h n => timeExBytes h ++ wire none n
  | _, _ => []

/-- what a receiver reads out of an IPv4 header for the pseudo header: source, destination, protocol -/
def ctxOfWire (bs : Bytes) : IPCtx := ⟨beDec (sl bs 12 16), beDec (sl bs 16 20), beDec (sl bs 9 10)⟩
/-- header length from the IHL nibble -/
def ihlOfWire (bs : Bytes) : Nat := (beDec (sl bs 0 1) % 16) * 4

/-- receiver-side validity of the bytes `bs` of (a suffix of) a frame whose layers are those of `p`:
* IPv4: the header (IHL words) sums to zero under RFC 1071, the total-length field is the datagram's length;
* UDP: the length field is the segment's length; the checksum field is RFC 1071 over the pseudo header **read from the
  enclosing IPv4 header on the wire** and the segment with its checksum word zeroed (0 sent as 0xffff);
* TCP: the data offset counts header + padded options; checksum likewise (RFC 793);
* ICMP: the message sums to zero. -/
def Valid : Option IPCtx → Pkt → Bytes → Prop
  | _, .eth _ n, bs => Valid none n (bs.drop 14)
  | _, .vlan _ n, bs => Valid none n (bs.drop 4)
  | _, .ipv4 _ n, bs =>
    rfc1071 (bs.take (ihlOfWire bs)) = 0 ∧ beDec (sl bs 2 4) = bs.length ∧
    Valid (some (ctxOfWire bs)) n (bs.drop (ihlOfWire bs))
  | some c, .udp _ _, bs =>
    beDec (sl bs 4 6) = bs.length ∧
    beDec (sl bs 6 8) = (let r := rfc1071 (pseudo c bs.length ++ zeroWord 3 bs); if r = 0 then 65535 else r)
  | some c, .tcp h _, bs =>
    beDec (sl bs 12 13) / 16 * 4 = 20 + (optsPadded h.opts).length ∧
    beDec (sl bs 16 18) = rfc1071 (pseudo c bs.length ++ zeroWord 8 bs)
  | _, .icmp _ n, bs => rfc1071 bs = 0 ∧ Valid none n (bs.drop 4)
  | _, .unreach _ n, bs => Valid none n (bs.drop 4)
  | _, .timeEx _ n, bs => Valid none n (bs.drop 4)
  | _, _, _ => True

/-- `pack()` of a well-formed chain is its closed form, of the predicted length -/
theorem packU_wire (p : Pkt) : ∀ ctx, Good ctx p → ∃ p', packU ctx p = .ok (p', wire ctx p) ∧ (wire ctx p).length = plen p := by
  induction p with
  | raw b => intro ctx _; exact ⟨_, rfl, rfl⟩
  | nil => intro ctx hg; simp [Good] at hg
  | unparsed c r => intro ctx hg; simp [Good] at hg
  | unmodelled c r => intro ctx hg; simp [Good] at hg
  | eth h n ih =>
    intro ctx hg; simp only [Good] at hg
    obtain ⟨n', hn, hl⟩ := ih none hg.2.2
    exact ⟨_, by (simp [packU, hn, ethHdr_ok h hg.1, wire, bind, Except.bind, pure, Except.pure]; try rfl),
      by simp [wire, plen, ethBytes_length h hg.1, hl]⟩
  | vlan h n ih =>
    intro ctx hg; simp only [Good] at hg
    obtain ⟨n', hn, hl⟩ := ih none hg.2.2
    exact ⟨_, by (simp [packU, hn, vlanHdr_ok h hg.1, wire, bind, Except.bind, pure, Except.pure]; try rfl),
      by simp [wire, plen, vlanBytes, hl]; omega⟩
  | arp h n ih =>
    intro ctx hg; simp only [Good] at hg
    obtain ⟨b, rfl⟩ := isRaw_elim hg.2
    obtain ⟨bs, hh, hl, _⟩ := arp_parse h b hg.1
    exact ⟨_, by (simp [packU, hh, wire, bind, Except.bind, pure, Except.pure]; try rfl), by simp [wire, plen, hh, hl]⟩
  | ipv4 h n ih =>
    intro ctx hg; simp only [Good] at hg
    obtain ⟨hf, _, hgn, hsz⟩ := hg
    obtain ⟨n', hn, hl⟩ := ih _ hgn
    have hlen : h.hl * 4 + (wire (some ⟨h.src, h.dst, h.proto⟩) n).length < 65536 := by rw [hl]; omega
    exact ⟨_, by (simp [packU, hn, ipv4Hdr_ok h _ hf hlen, wire, bind, Except.bind, pure, Except.pure]; try rfl),
      by simp only [wire, plen, List.length_append, ipv4Bytes_length h _ hf, hl]⟩
  | udp h n ih =>
    intro ctx hg; simp only [Good] at hg
    obtain ⟨⟨c, rfl, hc⟩, hf, _, hr, hsz⟩ := hg
    obtain ⟨b, rfl⟩ := isRaw_elim hr
    simp only [plen] at hsz
    exact ⟨_, by (simp [packU, udpHdr_ok c h b hc hf hsz, wire, bind, Except.bind, pure, Except.pure]; try rfl),
      by simp [wire, plen, udpBytes_length]⟩
  | tcp h n ih =>
    intro ctx hg; simp only [Good] at hg
    obtain ⟨⟨c, rfl, hc⟩, hf, hok, hol, hr, hsz⟩ := hg
    obtain ⟨b, rfl⟩ := isRaw_elim hr
    simp only [plen] at hsz
    have hres := tcpHdr_ok c h (optsPadded h.opts) b hc hf (tcpOptsPadded_ok h.opts hok) hol hsz
    exact ⟨_, by (simp [packU, hres, wire, bind, Except.bind, pure, Except.pure]; try rfl), by simp [wire, plen, tcpBytes_length]⟩
  | icmp h n ih =>
    intro ctx hg; simp only [Good] at hg
    obtain ⟨hf, _, hgn, hsz⟩ := hg
    obtain ⟨n', hn, hl⟩ := ih none hgn
    have hb : (wire none n).length + 4 ≤ 131072 := by rw [hl]; exact hsz
    exact ⟨_, by (simp [packU, hn, icmpHdr_ok h _ hf hb, wire, bind, Except.bind, pure, Except.pure]; try rfl),
      by simp [wire, plen, icmpBytes, icmpPre, hl]; omega⟩
  | echo h n ih =>
    intro ctx hg; simp only [Good] at hg
    obtain ⟨b, rfl⟩ := isRaw_elim hg.2
    exact ⟨_, by (simp [packU, echoHdr_ok h hg.1, wire, bind, Except.bind, pure, Except.pure]; try rfl),
      by simp [wire, plen, echoBytes]; omega⟩
  | unreach h n ih =>
    intro ctx hg; simp only [Good] at hg
    obtain ⟨n', hn, hl⟩ := ih none hg.2.2
    exact ⟨_, by (simp [packU, hn, unreachHdr_ok h hg.1, wire, bind, Except.bind, pure, Except.pure]; try rfl),
      by simp [wire, plen, unreachBytes, hl]; omega⟩
  | timeEx h n ih =>
    intro ctx hg; simp only [Good] at hg
    obtain ⟨n', hn, hl⟩ := ih none hg.2.2
    exact ⟨_, by (simp [packU, hn, timeExHdr_ok h hg.1, wire, bind, Except.bind, pure, Except.pure]; try rfl),
      by simp [wire, plen, timeExBytes, hl]⟩

/-! ## what a receiver reads out of the emitted IPv4 header -/

theorem be8_ex (n : Nat) (h : n < 256) : ∃ a, beEnc 1 n = [a] ∧ beDec [a] = n := by
  refine ⟨UInt8.ofNat n, by simp [beEnc], ?_⟩
  simp [beDec, Nat.mod_eq_of_lt h]

theorem ipv4_wire_fields (h : IPv4) (n : Nat) (rest : Bytes) (hf : h.Fits) (hn : h.hl * 4 + n < 65536) :
    ctxOfWire (ipv4Bytes h n ++ rest) = ⟨h.src, h.dst, h.proto⟩ ∧ ihlOfWire (ipv4Bytes h n ++ rest) = 4 * h.hl := by
  have h1 : (h.v <<< 4) + h.hl < 256 := by rw [Nat.shiftLeft_eq, hf.v]; have := hf.hl; omega
  have h2 : (h.flags <<< 13) ||| h.frag < 65536 := by
    rw [shl_or _ _ 13 (by have := hf.frag; omega)]; have := hf.flags; have := hf.frag; omega
  obtain ⟨a0, e0, d0⟩ := be8_ex _ h1
  obtain ⟨a1, e1, _⟩ := be8_ex _ hf.tos
  obtain ⟨l1, l2, el, _⟩ := be16_ex _ hn
  obtain ⟨i1, i2, ei, _⟩ := be16_ex _ hf.id
  obtain ⟨f1, f2, ef, _⟩ := be16_ex _ h2
  obtain ⟨t1, et, _⟩ := be8_ex _ hf.ttl
  obtain ⟨p1, ep, dp⟩ := be8_ex _ hf.proto
  have hc : ipv4Csum h n < 65536 := by unfold ipv4Csum; exact rfc1071_lt _
  obtain ⟨c1, c2, ec, _⟩ := be16_ex _ hc
  obtain ⟨s1, s2, s3, s4, es, ds⟩ := be32_ex _ hf.src
  obtain ⟨q1, q2, q3, q4, eq, dq⟩ := be32_ex _ hf.dst
  have el' : beEnc 2 (h.hl * 4 + n) = [l1, l2] := el
  have ei' : beEnc 2 h.id = [i1, i2] := ei
  have ef' : beEnc 2 ((h.flags <<< 13) ||| h.frag) = [f1, f2] := ef
  have hv4 := shl4 h.v h.hl hf.hl
  unfold ctxOfWire ihlOfWire ipv4Bytes ipv4Pre ipv4Post
  simp only [e0, e1, el', ei', ef', et, ep, ec, es, eq]
  simp only [List.cons_append, List.nil_append, sl, List.take_succ_cons, List.take_zero, List.drop_succ_cons, List.drop_zero]
  rw [ds, dq, dp, d0, hv4.2]
  exact ⟨rfl, Nat.mul_comm _ _⟩

/-! ## validity of the wire form -/

theorem sl_left' (a b : Bytes) (i j : Nat) (hj : j ≤ a.length) : sl (a ++ b) i j = sl a i j := by
  unfold sl; rw [List.take_append_of_le_length hj]

theorem valid_wire (p : Pkt) : ∀ ctx, Good ctx p → Valid ctx p (wire ctx p) := by
  induction p with
  | eth h n ih =>
    intro ctx hg; simp only [Good] at hg
    simp only [Valid, wire]
    rw [drop_left _ _ 14 (ethBytes_length h hg.1).symm]
    exact ih none hg.2.2
  | vlan h n ih =>
    intro ctx hg; simp only [Good] at hg
    simp only [Valid, wire]
    rw [drop_left _ _ 4 (by simp [vlanBytes])]
    exact ih none hg.2.2
  | ipv4 h n ih =>
    intro ctx hg; simp only [Good] at hg
    obtain ⟨hf, _, hgn, hsz⟩ := hg
    obtain ⟨_, _, hl⟩ := packU_wire n _ hgn
    have hlen : h.hl * 4 + (wire (some ⟨h.src, h.dst, h.proto⟩) n).length < 65536 := by rw [hl]; omega
    have hbl := ipv4Bytes_length h (wire (some ⟨h.src, h.dst, h.proto⟩) n).length hf
    obtain ⟨hctx, hihl⟩ := ipv4_wire_fields h _ (wire (some ⟨h.src, h.dst, h.proto⟩) n) hf hlen
    have h5 := hf.hl5
    simp only [Valid, wire]
    rw [hctx, hihl]
    refine ⟨?_, ?_, ?_⟩
    · rw [take_left _ _ _ hbl.symm]; exact ipv4_verifies h _
    · rw [sl_left' _ _ 2 4 (by omega), ipv4_len_field h _ hlen, List.length_append, hbl]; omega
    · rw [drop_left _ _ _ hbl.symm]; exact ih _ hgn
  | udp h n ih =>
    intro ctx hg; simp only [Good] at hg
    obtain ⟨⟨c, rfl, hc⟩, hf, _, hr, hsz⟩ := hg
    obtain ⟨b, rfl⟩ := isRaw_elim hr
    simp only [plen] at hsz
    have hlen : (udpBytes c h b ++ b).length = b.length + 8 := by simp [udpBytes_length]; omega
    simp only [Valid, wire]
    refine ⟨?_, ?_⟩
    · rw [sl_left' _ _ 4 6 (by rw [udpBytes_length]; omega), udp_len_field c h b hsz, hlen]
    · have e1 := sl_left' (udpBytes c h b) b 6 8 (by rw [udpBytes_length]; omega)
      have hz : zeroWord 3 (udpBytes c h b ++ b) = udpPre h b.length ++ 0 :: 0 :: b := by
        unfold udpBytes
        rw [be16_eq _ (udpCsumSpec_lt c h b)]
        simp only [List.append_assoc, List.cons_append, List.nil_append]
        exact zeroWord_at 3 _ _ _ _ (by rw [udpPre_length])
      rw [e1, udp_csum_field]
      unfold udpCsumSpec
      simp only [hz, hlen]
  | tcp h n ih =>
    intro ctx hg; simp only [Good] at hg
    obtain ⟨⟨c, rfl, hc⟩, hf, hok, hol, hr, hsz⟩ := hg
    obtain ⟨b, rfl⟩ := isRaw_elim hr
    have h4 := tcpOptsPadded_mod4 h.opts _ (tcpOptsPadded_ok h.opts hok)
    have hlen : (tcpBytes c h (optsPadded h.opts) b ++ b).length = 20 + (optsPadded h.opts).length + b.length := by
      simp [tcpBytes_length]
    simp only [Valid, wire]
    refine ⟨?_, ?_⟩
    · rw [sl_left' _ _ 12 13 (by rw [tcpBytes_length]; omega), tcp_data_offset c h _ b hf hol h4, tcpBytes_length]
    · have e1 := sl_left' (tcpBytes c h (optsPadded h.opts) b) b 16 18 (by rw [tcpBytes_length]; omega)
      have hcs : tcpCsumSpec c h (optsPadded h.opts) b < 65536 := rfc1071_lt _
      have hz : zeroWord 8 (tcpBytes c h (optsPadded h.opts) b ++ b)
          = tcpPre h ((20 + (optsPadded h.opts).length) / 4) ++ 0 :: 0 :: (be16 h.urg ++ (optsPadded h.opts ++ b)) := by
        unfold tcpBytes
        rw [be16_eq _ hcs]
        simp only [List.append_assoc, List.cons_append, List.nil_append]
        exact zeroWord_at 8 _ _ _ _ (by rw [tcpPre_length])
      rw [e1, tcp_csum_field]
      unfold tcpCsumSpec
      simp only [hz, hlen]
  | icmp h n ih =>
    intro ctx hg; simp only [Good] at hg
    simp only [Valid, wire]
    refine ⟨icmp_verifies h _, ?_⟩
    rw [drop_left _ _ 4 (by simp [icmpBytes, icmpPre])]
    exact ih none hg.2.2.1
  | unreach h n ih =>
    intro ctx hg; simp only [Good] at hg
    simp only [Valid, wire]
    rw [drop_left _ _ 4 (by simp [unreachBytes])]
    exact ih none hg.2.2
  | timeEx h n ih =>
    intro ctx hg; simp only [Good] at hg
    simp only [Valid, wire]
    rw [drop_left _ _ 4 (by simp [timeExBytes])]
    exact ih none hg.2.2
  | raw b => intro ctx _; cases ctx <;> simp [Valid]
  | nil => intro ctx _; cases ctx <;> simp [Valid]
  | unparsed c r => intro ctx _; cases ctx <;> simp [Valid]
  | unmodelled c r => intro ctx _; cases ctx <;> simp [Valid]
  | arp h n ih => intro ctx _; cases ctx <;> simp [Valid]
  | echo h n ih => intro ctx _; cases ctx <;> simp [Valid]

/-- **whole-chain validity**: whatever `pack` emits for a well-formed chain is valid for a receiver -/
theorem chain_valid' (p : Pkt) (bs : Bytes) (hg : Good none p) (hp : pack none p = .ok bs) : Valid none p bs := by
  obtain ⟨p', hw, _⟩ := packU_wire p none hg
  have : bs = wire none p := by
    simp [pack, hw, bind, Except.bind, pure, Except.pure] at hp
    exact hp.symm
  rw [this]; exact valid_wire p none hg

end Pox.Packet
