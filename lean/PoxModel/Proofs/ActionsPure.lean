import PoxModel.Proofs.ActionsOutput
import PoxModel.Proofs.PacketChain
/-!
# C12, part 7: an action list that only outputs does not touch the packet — for **every** frame value (well-formed or not):
every emitted frame carries `packet.pack()` of the packet that came in, and that packet comes out of the loop unchanged.
With C14's round trip: for a frame that was parsed from the wire form of a well-formed chain these bytes are the wire bytes.
Core only.
-/
namespace Pox.Actions
open Pox Pox.Packet Pox.Actions.Spec

/-- outputs (and enqueues) to anything but TABLE -/
def pureOutput : Action → Prop
  | .output p _ => p ≠ P_TABLE
  | .enqueue p _ => p ≠ P_TABLE
  | _ => False

/-- every frame of the log carries the serialisation `b` of `f`, every packet-in a prefix of it -/
def Carries (f : Frame) (inPort : Nat) (outs : List Out) : Prop :=
  ∀ o ∈ outs, ∃ b, packFrame f = .ok b ∧ ((∃ p, o = Out.frame p b) ∨ (∃ r ml, o = packetInOf inPort r b ml))

theorem Carries.nil (f : Frame) (inPort : Nat) : Carries f inPort [] := by intro o h; simp at h

theorem Carries.append {f : Frame} {inPort : Nat} {a b : List Out} (ha : Carries f inPort a) (hb : Carries f inPort b) :
    Carries f inPort (a ++ b) := by
  intro o h
  rcases List.mem_append.mp h with h | h
  · exact ha o h
  · exact hb o h

theorem realSend_carries (sw : Sw) (f : Frame) (no inPort : Nat) (allow : Bool) (sw' : Sw) (outs : List Out)
    (h : realSend sw f no inPort allow = .ok (sw', outs)) : Carries f inPort outs := by
  unfold realSend at h
  split at h
  · cases h; exact Carries.nil _ _
  · split at h
    · cases h; exact Carries.nil _ _
    · split at h
      · cases h; exact Carries.nil _ _
      · split at h
        · cases h; exact Carries.nil _ _
        · split at h
          · cases h; exact Carries.nil _ _
          · cases hp : packFrame f with
            | error e => simp [hp, bind, Except.bind] at h
            | ok b =>
              simp only [hp, bind, Except.bind, pure, Except.pure, Except.ok.injEq, Prod.mk.injEq] at h
              obtain ⟨rfl, rfl⟩ := h
              intro o ho
              simp only [List.mem_singleton] at ho
              exact ⟨b, hp, .inl ⟨no, ho⟩⟩

theorem sendMany_carries (f : Frame) (inPort : Nat) : ∀ (l : List Nat) (sw sw' : Sw) (outs : List Out),
    sendMany sw f inPort l = .ok (sw', outs) → Carries f inPort outs := by
  intro l
  induction l with
  | nil => intro sw sw' outs h; cases h; exact Carries.nil _ _
  | cons no rest ih =>
    intro sw sw' outs h
    simp only [sendMany, bind, Except.bind] at h
    cases h1 : realSend sw f no inPort false with
    | error e => simp [h1] at h
    | ok r1 =>
      obtain ⟨sw1, o1⟩ := r1
      simp only [h1] at h
      cases h2 : sendMany sw1 f inPort rest with
      | error e => simp [h2] at h
      | ok r2 =>
        obtain ⟨sw2, o2⟩ := r2
        simp only [h2, pure, Except.pure, Except.ok.injEq, Prod.mk.injEq] at h
        obtain ⟨rfl, rfl⟩ := h
        exact (realSend_carries _ _ _ _ _ _ _ h1).append (ih _ _ _ h2)

theorem outputPacket_carries (table : TableK) (sw : Sw) (f : Frame) (port inPort : Nat) (hp : port ≠ P_TABLE) (ml : Option Nat)
    (sw' : Sw) (f' : Frame) (outs : List Out) (h : outputPacket table sw f port inPort ml = .ok (sw', f', outs)) :
    f' = f ∧ Carries f inPort outs := by
  unfold outputPacket at h
  split at h
  · exact ⟨(keep_ok h).2, realSend_carries _ _ _ _ _ _ _ (keep_ok h).1⟩
  · split at h
    · exact ⟨(keep_ok h).2, realSend_carries _ _ _ _ _ _ _ (keep_ok h).1⟩
    · split at h
      · exact ⟨(keep_ok h).2, sendMany_carries _ _ _ _ _ _ (keep_ok h).1⟩
      · split at h
        · exact ⟨(keep_ok h).2, sendMany_carries _ _ _ _ _ _ (keep_ok h).1⟩
        · split at h
          · cases hpk : packFrame f with
            | error e => simp [hpk] at h
            | ok b =>
              simp only [hpk, Except.ok.injEq, Prod.mk.injEq] at h
              obtain ⟨rfl, rfl, rfl⟩ := h
              refine ⟨rfl, ?_⟩
              intro o ho
              simp only [List.mem_singleton] at ho
              exact ⟨b, hpk, .inr ⟨R_ACTION, ml, ho⟩⟩
          · simp only [Except.ok.injEq, Prod.mk.injEq] at h
            obtain ⟨rfl, rfl, rfl⟩ := h
            exact ⟨rfl, Carries.nil _ _⟩

/-- **an action list that only outputs leaves the packet alone** — any frame value, any variant, any table continuation -/
theorem applyWith_outputs_only (var : Variant) (table : TableK) :
    ∀ (acts : List Action) (sw : Sw) (f : Frame) (inPort : Nat) (sw' : Sw) (f' : Frame) (outs : List Out),
    (∀ a ∈ acts, pureOutput a) → applyWith var table sw acts f inPort = .ok (sw', f', outs) → f' = f ∧ Carries f inPort outs := by
  intro acts
  induction acts with
  | nil => intro sw f inPort sw' f' outs _ h; cases h; exact ⟨rfl, Carries.nil _ _⟩
  | cons a rest ih =>
    intro sw f inPort sw' f' outs hp h
    have hrest : ∀ a ∈ rest, pureOutput a := fun a h => hp a (List.mem_cons_of_mem _ h)
    have ha := hp a List.mem_cons_self
    cases a with
    | output port ml =>
      simp only [applyWith, bind, Except.bind] at h
      cases h1 : outputPacket table sw f port inPort (some ml) with
      | error e => simp [h1] at h
      | ok r1 =>
        obtain ⟨sw1, f1, o1⟩ := r1
        simp only [h1] at h
        cases h2 : applyWith var table sw1 rest f1 inPort with
        | error e => simp [h2] at h
        | ok r2 =>
          obtain ⟨sw2, f2, o2⟩ := r2
          simp only [h2, pure, Except.pure, Except.ok.injEq, Prod.mk.injEq] at h
          obtain ⟨rfl, rfl, rfl⟩ := h
          obtain ⟨e1, c1⟩ := outputPacket_carries table sw f port inPort ha _ _ _ _ h1
          subst e1
          obtain ⟨e2, c2⟩ := ih _ _ _ _ _ _ hrest h2
          exact ⟨e2, c1.append c2⟩
    | enqueue port q =>
      simp only [applyWith] at h
      split at h
      · cases h
      · simp only [bind, Except.bind] at h
        cases h1 : outputPacket table sw f port inPort none with
        | error e => simp [h1] at h
        | ok r1 =>
          obtain ⟨sw1, f1, o1⟩ := r1
          simp only [h1] at h
          cases h2 : applyWith var table sw1 rest f1 inPort with
          | error e => simp [h2] at h
          | ok r2 =>
            obtain ⟨sw2, f2, o2⟩ := r2
            simp only [h2, pure, Except.pure, Except.ok.injEq, Prod.mk.injEq] at h
            obtain ⟨rfl, rfl, rfl⟩ := h
            obtain ⟨e1, c1⟩ := outputPacket_carries table sw f port inPort ha _ _ _ _ h1
            subst e1
            obtain ⟨e2, c2⟩ := ih _ _ _ _ _ _ hrest h2
            exact ⟨e2, c1.append c2⟩
    | _ => exact absurd ha (by simp [pureOutput])

theorem run_outputs_only (var : Variant) (fuel : Nat) (sw : Sw) (acts : List Action) (f : Frame) (inPort : Nat) (sw' : Sw)
    (f' : Frame) (outs : List Out) (hp : ∀ a ∈ acts, pureOutput a) (h : run var fuel sw acts f inPort = .ok (sw', f', outs)) :
    f' = f ∧ Carries f inPort outs := by
  cases fuel with
  | zero => simp [run] at h
  | succ n => exact applyWith_outputs_only var _ acts sw f inPort sw' f' outs hp h

/-- C14's round trip, as the switch uses it: the `ethernet` object parsed from the wire form of a well-formed chain packs
to exactly those bytes -/
theorem packFrame_wire (p : Pkt) (hk : kindOf p = some .eth) (hg : Good none p) (wire : Bytes) (hw : pack none p = .ok wire)
    (f : Frame) (hf : f.pkt = parseTop .eth wire) : packFrame f = .ok wire := by
  obtain ⟨p', bs, r⟩ := chain_rt p none hg
  have e : bs = wire := by
    have := r.packed
    simp only [pack, this, bind, Except.bind, pure, Except.pure, Except.ok.injEq] at hw
    exact hw
  subst e
  have hre : parseTop .eth bs = p' := r.reparse _ .eth hk (by have := r.dep; omega)
  unfold packFrame
  rw [hf, hre]
  simp [pack, r.idem, bind, Except.bind, pure, Except.pure]

end Pox.Actions
