import PoxModel.Model.Discovery
import PoxModel.Proofs.STreeFlood
/-! Proofs about the adjacency state machine of `Model/Discovery.lean` (C19), for either `Variant`:
    how one op changes `adjacency`, the invariants (keys distinct, every link's sender connected), the LinkEvent stream. Core only. -/
namespace Pox.Discovery
open Pox Pox.STree

/-! ### one op -/

theorem keys_touch (adj : List (Link × Nat)) (l : Link) (t : Nat) : keys (touch adj l t) = keys adj := by
  unfold keys touch
  rw [List.map_map]
  apply List.map_congr_left
  intro e _
  by_cases h : e.1 = l <;> simp [h]

theorem mem_keys_filter (adj : List (Link × Nat)) (p : Link × Nat → Bool) (l : Link) :
    l ∈ keys (adj.filter p) → l ∈ keys adj := by
  unfold keys
  simp only [List.mem_map, List.mem_filter]
  rintro ⟨e, ⟨he, _⟩, rfl⟩
  exact ⟨e, he, rfl⟩

theorem nodup_keys_filter (adj : List (Link × Nat)) (p : Link × Nat → Bool) (h : (keys adj).Nodup) :
    (keys (adj.filter p)).Nodup := by
  unfold keys at *
  exact List.Nodup.sublist (List.Sublist.map _ List.filter_sublist) h

theorem deleteLinks_adj (v : Variant) (s : DState) (links : List Link) (order : List Nat) :
    (deleteLinks v s links order).1.adj = without s.adj links := rfl
theorem deleteLinks_conns (v : Variant) (s : DState) (links : List Link) (order : List Nat) :
    (deleteLinks v s links order).1.conns = s.conns := rfl
theorem deleteLinks_now (v : Variant) (s : DState) (links : List Link) (order : List Nat) :
    (deleteLinks v s links order).1.now = s.now := rfl
theorem deleteLinks_events (v : Variant) (s : DState) (links : List Link) (order : List Nat) :
    (deleteLinks v s links order).2.events = links.map fun l => (false, l) := rfl

theorem mem_keys_delete (adj : List (Link × Nat)) (links : List Link) (l : Link) :
    l ∈ keys (without adj links) ↔ l ∈ keys adj ∧ l ∉ links := by
  unfold keys without
  simp only [List.mem_map, List.mem_filter, decide_eq_true_eq]
  constructor
  · rintro ⟨e, ⟨he, hn⟩, rfl⟩; exact ⟨⟨e, he, rfl⟩, hn⟩
  · rintro ⟨⟨e, he, rfl⟩, hn⟩; exact ⟨e, ⟨he, hn⟩, rfl⟩

theorem without_nil (adj : List (Link × Nat)) : without adj [] = adj := by simp [without]

/-- the links removed by one op (`down`: the links of that switch; `sweep`: the expired ones; otherwise none) -/
def removedBy (s : DState) : Op → List Link
  | .down d _ => (keys s.adj).filter fun l => l.dpid1 = d || l.dpid2 = d
  | .sweep _ => keys (s.adj.filter fun e => e.2 + LINK_TIMEOUT < s.now)
  | _ => []

/-- the probe is accepted by the PacketIn handler -/
def accepts (s : DState) (l : Link) : Prop :=
  (s.conns.get l.dpid1).isSome = true ∧ ¬ (l.dpid2 = l.dpid1 ∧ l.port2 = l.port1)

instance (s : DState) (l : Link) : Decidable (accepts s l) := by unfold accepts; infer_instance

theorem removedBy_sub (s : DState) (op : Op) : ∀ l ∈ removedBy s op, l ∈ keys s.adj := by
  intro l hl
  cases op with
  | down d o => exact (List.mem_filter.mp hl).1
  | sweep o => exact mem_keys_filter _ _ _ hl
  | tick _ => simp [removedBy] at hl
  | up _ _ => simp [removedBy] at hl
  | probe _ _ => simp [removedBy] at hl

theorem removedBy_nodup (s : DState) (op : Op) (h : (keys s.adj).Nodup) : (removedBy s op).Nodup := by
  cases op with
  | down d o => exact List.Nodup.sublist List.filter_sublist h
  | sweep o => exact nodup_keys_filter _ _ h
  | tick _ => simp [removedBy]
  | up _ _ => simp [removedBy]
  | probe _ _ => simp [removedBy]

/-- `adjacency` after one op, for either variant -/
theorem step_adj (v : Variant) (s : DState) (op : Op) :
    (step v s op).1.adj =
      match op with
      | .probe l _ =>
        if accepts s l then (if l ∈ keys s.adj then touch s.adj l s.now else s.adj ++ [(l, s.now)]) else s.adj
      | _ => without s.adj (removedBy s op) := by
  cases op with
  | tick dt => simp [step, removedBy, without_nil]
  | up d ps => simp [step, removedBy, without_nil]
  | down d o => simp only [step, removedBy]; rfl
  | probe l o =>
    simp only [step, accepts]
    by_cases h1 : (s.conns.get l.dpid1).isNone = true
    · have : ¬ (s.conns.get l.dpid1).isSome = true := by
        cases hh : s.conns.get l.dpid1 <;> simp_all
      simp [h1, this]
    · have h1' : (s.conns.get l.dpid1).isSome = true := by
        cases hh : s.conns.get l.dpid1 <;> simp_all
      by_cases h2 : l.dpid2 = l.dpid1 ∧ l.port2 = l.port1
      · simp [h1, h2]
      · by_cases h3 : l ∈ keys s.adj
        · simp [h1, h1', h2, h3]
        · simp [h1, h1', h2, h3]
  | sweep o =>
    simp only [step, removedBy]
    by_cases he : (keys (s.adj.filter fun e => e.2 + LINK_TIMEOUT < s.now)).isEmpty = true
    · rw [if_pos he]
      have : keys (s.adj.filter fun e => e.2 + LINK_TIMEOUT < s.now) = [] := List.isEmpty_iff.mp he
      rw [this, without_nil]
    · rw [if_neg he]; rfl

theorem step_events (v : Variant) (s : DState) (op : Op) :
    (step v s op).2.events =
      match op with
      | .probe l _ => if accepts s l ∧ l ∉ keys s.adj then [(true, l)] else []
      | _ => (removedBy s op).map fun l => (false, l) := by
  cases op with
  | tick dt => simp [step, removedBy]
  | up d ps => simp [step, removedBy]
  | down d o => simp only [step, removedBy]; rfl
  | probe l o =>
    simp only [step, accepts]
    by_cases h1 : (s.conns.get l.dpid1).isNone = true
    · have : ¬ (s.conns.get l.dpid1).isSome = true := by
        cases hh : s.conns.get l.dpid1 <;> simp_all
      simp [h1, this]
    · have h1' : (s.conns.get l.dpid1).isSome = true := by
        cases hh : s.conns.get l.dpid1 <;> simp_all
      by_cases h2 : l.dpid2 = l.dpid1 ∧ l.port2 = l.port1
      · simp [h1, h2]
      · by_cases h3 : l ∈ keys s.adj
        · simp [h1, h1', h2, h3]
        · simp [h1, h1', h2, h3]
  | sweep o =>
    simp only [step, removedBy]
    by_cases he : (keys (s.adj.filter fun e => e.2 + LINK_TIMEOUT < s.now)).isEmpty = true
    · rw [if_pos he]
      have : keys (s.adj.filter fun e => e.2 + LINK_TIMEOUT < s.now) = [] := List.isEmpty_iff.mp he
      rw [this]; rfl
    · rw [if_neg he]; rfl

theorem step_nodup (v : Variant) (s : DState) (op : Op) (h : (keys s.adj).Nodup) : (keys (step v s op).1.adj).Nodup := by
  rw [step_adj]
  cases op with
  | probe l o =>
    simp only []
    split
    · split
      · rw [keys_touch]; exact h
      · rename_i hn
        unfold keys at *
        rw [List.map_append, List.nodup_append]
        refine ⟨h, by simp, ?_⟩
        intro a ha b hb
        simp only [List.map_cons, List.map_nil, List.mem_singleton] at hb
        subst hb
        exact fun e => hn (e ▸ ha)
    · exact h
  | tick _ => exact nodup_keys_filter _ _ h
  | up _ _ => exact nodup_keys_filter _ _ h
  | down _ _ => exact nodup_keys_filter _ _ h
  | sweep _ => exact nodup_keys_filter _ _ h

/-! ### LinkEvent stream -/

/-- alternating sequence whose first element (if any) is `e` -/
def altFrom : Bool → List Bool → Prop
  | _, [] => True
  | e, b :: bs => b = e ∧ altFrom (!e) bs

def evsOf (outs : List Out) : List (Bool × Link) := outs.flatMap (·.events)

/-- the added/removed flags of the events about link `l`, in the order raised -/
def stream (l : Link) (evs : List (Bool × Link)) : List Bool := (evs.filter fun e => decide (e.2 = l)).map (·.1)

theorem stream_append (l : Link) (a b : List (Bool × Link)) : stream l (a ++ b) = stream l a ++ stream l b := by
  simp [stream]

theorem stream_removed (l : Link) : ∀ (links : List Link), links.Nodup →
    stream l (links.map fun x => (false, x)) = if l ∈ links then [false] else []
  | [], _ => by simp [stream]
  | x :: xs, hn => by
    have hx : x ∉ xs := (List.nodup_cons.mp hn).1
    have ih := stream_removed l xs (List.nodup_cons.mp hn).2
    have e : stream l ((x :: xs).map fun y => (false, y)) =
        stream l [(false, x)] ++ stream l (xs.map fun y => (false, y)) := by
      rw [← stream_append]; rfl
    rw [e, ih]
    by_cases hxl : x = l
    · subst hxl; simp [stream, hx]
    · have : l ≠ x := fun c => hxl c.symm
      simp [stream, hxl, this]

def inAdj (s : DState) (l : Link) : Bool := decide (l ∈ keys s.adj)

/-- one op raises, about link `l`: nothing if `l`'s membership in `adjacency` does not change, otherwise exactly one event
    announcing the new status -/
theorem step_stream (v : Variant) (s : DState) (op : Op) (l : Link) (h : (keys s.adj).Nodup) :
    stream l (step v s op).2.events =
      if inAdj s l = inAdj (step v s op).1 l then [] else [inAdj (step v s op).1 l] := by
  have generic : ∀ (op : Op), (step v s op).1.adj = (without s.adj (removedBy s op)) →
      (step v s op).2.events = ((removedBy s op).map fun l => (false, l)) →
      stream l (step v s op).2.events = if inAdj s l = inAdj (step v s op).1 l then [] else [inAdj (step v s op).1 l] := by
    intro op ha he
    rw [he, stream_removed l _ (removedBy_nodup s op h)]
    unfold inAdj
    rw [ha]
    by_cases hl : l ∈ removedBy s op
    · have h1 : l ∈ keys s.adj := removedBy_sub s op l hl
      have h2 : ¬ l ∈ keys (without s.adj (removedBy s op)) := by
        rw [mem_keys_delete]; exact fun c => c.2 hl
      simp [hl, h1, h2]
    · have h2 : l ∈ keys (without s.adj (removedBy s op)) ↔ l ∈ keys s.adj := by
        rw [mem_keys_delete]; exact ⟨fun c => c.1, fun c => ⟨c, hl⟩⟩
      simp [hl, h2]
  cases op with
  | tick dt => exact generic _ (step_adj v s _) (step_events v s _)
  | up d ps => exact generic _ (step_adj v s _) (step_events v s _)
  | down d o => exact generic _ (step_adj v s _) (step_events v s _)
  | sweep o => exact generic _ (step_adj v s _) (step_events v s _)
  | probe l' o =>
    rw [step_events]
    unfold inAdj
    rw [step_adj]
    simp only []
    by_cases ha : accepts s l'
    · by_cases hk : l' ∈ keys s.adj
      · simp [ha, hk, keys_touch, stream]
      · have hks : keys (s.adj ++ [(l', s.now)]) = keys s.adj ++ [l'] := by simp [keys]
        simp only [ha, hk, true_and, not_false_eq_true, if_true, if_false, hks, List.mem_append, List.mem_singleton]
        by_cases e : l = l'
        · subst e; simp [stream, hk]
        · have : l' ≠ l := fun c => e c.symm
          simp [stream, e, this]
    · simp [ha, stream]

theorem runOps_cons (v : Variant) (s : DState) (op : Op) (ops : List Op) :
    runOps v s (op :: ops) = ((runOps v (step v s op).1 ops).1, (step v s op).2 :: (runOps v (step v s op).1 ops).2) := rfl

theorem evsOf_cons (o : Out) (os : List Out) : evsOf (o :: os) = o.events ++ evsOf os := by simp [evsOf]

/-- from any state whose adjacency keys are distinct: the events about `l` alternate, and the first one (if any) is "added"
    exactly when `l` is not in the adjacency now -/
theorem stream_alt (v : Variant) (l : Link) : ∀ (ops : List Op) (s : DState), (keys s.adj).Nodup →
    altFrom (!inAdj s l) (stream l (evsOf (runOps v s ops).2))
  | [], _, _ => by simp [runOps, evsOf, stream, altFrom]
  | op :: ops, s, h => by
    rw [runOps_cons]
    simp only [evsOf_cons, stream_append]
    rw [step_stream v s op l h]
    have ih := stream_alt v l ops (step v s op).1 (step_nodup v s op h)
    by_cases e : inAdj s l = inAdj (step v s op).1 l
    · rw [if_pos e, List.nil_append, e]; exact ih
    · rw [if_neg e, List.singleton_append]
      have e' : inAdj (step v s op).1 l = !inAdj s l := by
        cases h1 : inAdj s l <;> cases h2 : inAdj (step v s op).1 l <;> simp_all
      refine ⟨e', ?_⟩
      rw [← e']; exact ih

end Pox.Discovery
