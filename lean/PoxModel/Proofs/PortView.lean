import PoxModel.Model.PortView
/-! Lemmas about the `PortCollection` model (used by Properties/C17.lean). Core Lean only. -/
set_option linter.unusedSimpArgs false
set_option linter.unnecessarySimpa false
namespace Pox.PortView
open Pox.Spec17 (Port PortMap Notif)

/-! ### `uniq` -/

theorem mem_uniq {k : Nat} {l : List Nat} : k ∈ uniq l ↔ k ∈ l := by
  induction l with
  | nil => simp [uniq]
  | cons a l ih =>
    simp only [uniq, List.mem_cons, List.mem_filter, bne_iff_ne, ne_eq, ih]
    constructor
    · rintro (h | ⟨h, _⟩)
      · exact .inl h
      · exact .inr h
    · rintro (h | h)
      · exact .inl h
      · by_cases hk : k = a
        · exact .inl hk
        · exact .inr ⟨h, hk⟩

theorem nodup_uniq (l : List Nat) : (uniq l).Nodup := by
  induction l with
  | nil => simp [uniq]
  | cons a l ih =>
    simp only [uniq, List.nodup_cons]
    exact ⟨by simp, ih.filter _⟩

theorem uniq_eq_nil {l : List Nat} : uniq l = [] ↔ l = [] := by
  cases l <;> simp [uniq]

/-! ### `find?` through `filter` / `append` -/

theorem find_filter_ne (l : List Port) (n k : Nat) :
    (l.filter (fun q => q.no != n)).find? (fun p => p.no == k) =
      if k = n then none else l.find? (fun p => p.no == k) := by
  induction l with
  | nil => simp
  | cons a l ih =>
    by_cases han : a.no = n
    · have : (a.no != n) = false := by simp [han]
      simp only [List.filter_cons, this, Bool.false_eq_true, ↓reduceIte, ih]
      by_cases hk : k = n
      · simp [hk]
      · have : (a.no == k) = false := by
          simp only [beq_eq_false_iff_ne, ne_eq]; intro h; exact hk (h ▸ han)
        simp [hk, this]
    · have : (a.no != n) = true := by simp [han]
      simp only [List.filter_cons, this, ↓reduceIte, List.find?_cons, ih]
      by_cases hk : k = n
      · subst hk
        have : (a.no == k) = false := by simp [han]
        simp [this]
      · simp [hk]

theorem find_no_some {l : List Port} {k : Nat} {p : Port} (h : l.find? (fun p => p.no == k) = some p) :
    p.no = k ∧ p ∈ l := by
  have h1 := List.find?_some h
  have h2 := List.mem_of_find?_eq_some h
  exact ⟨by simpa using h1, h2⟩

theorem find_no_isSome {l : List Port} {k : Nat} :
    (l.find? (fun p => p.no == k)).isSome ↔ k ∈ l.map (fun p => p.no) := by
  simp only [List.find?_isSome, beq_iff_eq, List.mem_map]

/-! ### keys and lookups by number, any chain depth -/

theorem mem_keysC_cons {c : PC} {chain : List PC} {k : Nat} :
    k ∈ keysC (c :: chain) ↔ (k ∈ keysC chain ∧ c.masks.contains k = false) ∨ k ∈ c.ports.map (fun p => p.no) := by
  simp only [keysC, mem_uniq, List.mem_append, List.mem_filter, Bool.not_eq_true']

theorem nodup_keysC (ch : List PC) : (keysC ch).Nodup := by
  cases ch with
  | nil => simp [keysC]
  | cons c chain => exact nodup_uniq _

/-- a number is a key exactly when the lookup by number succeeds (any chain) -/
theorem mem_keysC_iff (ch : List PC) (k : Nat) : k ∈ keysC ch ↔ (getNoC ch k).isSome := by
  induction ch with
  | nil => simp [keysC, getNoC]
  | cons c chain ih =>
    rw [mem_keysC_cons]
    simp only [getNoC]
    cases hf : c.ports.find? (fun p => p.no == k) with
    | some p =>
      have : k ∈ c.ports.map (fun p => p.no) := find_no_isSome.mp (by rw [hf]; rfl)
      simp [this]
    | none =>
      have hn : ¬ k ∈ c.ports.map (fun p => p.no) := by
        intro hm; have := find_no_isSome.mpr hm; rw [hf] at this; cases this
      simp only [hn, or_false]
      by_cases he : (keysC chain).isEmpty = true
      · have : keysC chain = [] := by simpa using he
        simp [this]
      · simp only [he, Bool.false_eq_true, ↓reduceIte]
        by_cases hm : c.masks.contains k = true
        · rw [hm]; simp
        · have hm' : c.masks.contains k = false := by simpa using hm
          rw [hm']; simp [ih]

theorem getNoC_no {ch : List PC} {k : Nat} {p : Port} (h : getNoC ch k = some p) : p.no = k := by
  induction ch with
  | nil => simp [getNoC] at h
  | cons c chain ih =>
    simp only [getNoC] at h
    cases hf : c.ports.find? (fun p => p.no == k) with
    | some q =>
      rw [hf] at h; cases h
      exact (find_no_some hf).1
    | none =>
      rw [hf] at h
      simp only at h
      split at h
      · cases h
      · split at h
        · cases h
        · exact ih h

/-! ### `values()` -/

theorem getAll_total (ch : List PC) (ks : List Nat) (h : ∀ k ∈ ks, (getNoC ch k).isSome) :
    ∃ vs, getAll ch ks = some vs ∧ vs.map (fun p => p.no) = ks ∧ ∀ p, p ∈ vs ↔ ∃ k ∈ ks, getNoC ch k = some p := by
  induction ks with
  | nil => exact ⟨[], rfl, rfl, by simp⟩
  | cons k ks ih =>
    obtain ⟨vs, h1, h2, h3⟩ := ih (fun j hj => h j (List.mem_cons_of_mem _ hj))
    have hk := h k List.mem_cons_self
    cases hg : getNoC ch k with
    | none => rw [hg] at hk; cases hk
    | some p =>
      refine ⟨p :: vs, by simp [getAll, hg, h1], by simp [h2, getNoC_no hg], ?_⟩
      intro q
      simp only [List.mem_cons, h3, exists_eq_or_imp, hg, Option.some.injEq]
      constructor
      · rintro (rfl | h); exact .inl rfl; exact .inr h
      · rintro (rfl | h); exact .inl rfl; exact .inr h

/-- `values()` never raises; it lists, in `keys()` order, the port found under each key -/
theorem valuesC_spec (ch : List PC) :
    ∃ vs, valuesC ch = some vs ∧ vs.map (fun p => p.no) = keysC ch ∧ ∀ p, p ∈ vs ↔ getNoC ch p.no = some p := by
  obtain ⟨vs, h1, h2, h3⟩ := getAll_total ch (keysC ch) (fun k hk => (mem_keysC_iff ch k).mp hk)
  refine ⟨vs, h1, h2, ?_⟩
  intro p
  rw [h3]
  constructor
  · rintro ⟨k, _, hk⟩
    have := getNoC_no hk
    rw [this]; exact hk
  · intro h
    exact ⟨p.no, (mem_keysC_iff ch p.no).mpr (by rw [h]; rfl), h⟩

/-! ### `copy()` -/

theorem find_unique {vs : List Port} (hn : (vs.map (fun p => p.no)).Nodup) {p : Port} (hp : p ∈ vs) :
    vs.find? (fun q => q.no == p.no) = some p := by
  induction vs with
  | nil => cases hp
  | cons a vs ih =>
    simp only [List.map_cons, List.nodup_cons] at hn
    rcases List.mem_cons.mp hp with rfl | hp'
    · simp
    · have hne : (a.no == p.no) = false := by
        simp only [beq_eq_false_iff_ne, ne_eq]
        intro e; exact hn.1 (e ▸ List.mem_map.mpr ⟨p, hp', rfl⟩)
      simp only [List.find?_cons, hne]
      exact ih hn.2 hp'

/-- `copy()` never raises and the copy (a collection without masks and without chain) answers every lookup by number as
the original does -/
theorem copyC_spec (ch : List PC) :
    ∃ c, copyC ch = some c ∧ c.masks = [] ∧ (∀ k, getNoC [c] k = getNoC ch k) ∧
      (∀ k, k ∈ keysC [c] ↔ k ∈ keysC ch) := by
  obtain ⟨vs, h1, h2, h3⟩ := valuesC_spec ch
  have hnd : (vs.map (fun p => p.no)).Nodup := by rw [h2]; exact nodup_keysC ch
  have hget : ∀ k, getNoC [(⟨vs, []⟩ : PC)] k = getNoC ch k := by
    intro k
    have : getNoC [(⟨vs, []⟩ : PC)] k = vs.find? (fun p => p.no == k) := by
      simp only [getNoC, keysC, List.isEmpty_nil, ↓reduceIte]
      cases vs.find? (fun p => p.no == k) <;> rfl
    rw [this]
    cases hg : getNoC ch k with
    | some p =>
      have hp : p ∈ vs := (h3 p).mpr (by rw [getNoC_no hg]; exact hg)
      have := find_unique hnd hp
      rw [getNoC_no hg] at this; exact this
    | none =>
      rw [List.find?_eq_none]
      intro q hq
      have := (h3 q).mp hq
      simp only [beq_iff_eq]
      intro e; rw [e, hg] at this; cases this
  refine ⟨⟨vs, []⟩, by simp [copyC, h1], rfl, hget, ?_⟩
  intro k
  rw [mem_keysC_iff, mem_keysC_iff, hget]

/-! ### the two-level chain of a connection -/

theorem getNoC_orig (o : PC) (k : Nat) : getNoC [o] k = o.ports.find? (fun p => p.no == k) := by
  simp only [getNoC, keysC, List.isEmpty_nil, ↓reduceIte]
  cases o.ports.find? (fun p => p.no == k) <;> rfl

theorem keysC_orig_empty (o : PC) : (keysC [o]).isEmpty = true ↔ o.ports = [] := by
  simp [keysC, uniq_eq_nil]

/-- lookup by number in `con.ports`: own entry, else (unless masked) the original one -/
theorem getNoC_view (v : View) (k : Nat) :
    getNoC v.chain k =
      match v.cur.ports.find? (fun p => p.no == k) with
      | some p => some p
      | none => if v.cur.masks.contains k then none else v.orig.ports.find? (fun p => p.no == k) := by
  have h := getNoC_orig v.orig k
  rw [show getNoC v.chain k = (match v.cur.ports.find? (fun p => p.no == k) with
      | some p => some p
      | none => if (keysC [v.orig]).isEmpty then none else if v.cur.masks.contains k then none
                else getNoC [v.orig] k) from rfl, h]
  cases v.cur.ports.find? (fun p => p.no == k) with
  | some p => rfl
  | none =>
    simp only
    by_cases he : (keysC [v.orig]).isEmpty = true
    · have := (keysC_orig_empty v.orig).mp he
      simp [he, this]
    · simp [he]

/-! ### refinement of the abstract port map -/

def _root_.Pox.Spec17.Notif.reason : Notif → Nat
  | .add _ => 0
  | .delete _ => 1
  | .modify _ => 2

def _root_.Pox.Spec17.Notif.port : Notif → Port
  | .add p => p
  | .delete p => p
  | .modify p => p

/-- deliver a list of port-status notifications to a connection, in order -/
def runNotifs (v : View) (h : List Notif) : View := h.foldl (fun v n => portStatus v n.reason n.port) v

/-- the model state represents the abstract map: lookup by number through the chain gives the map's entry -/
def Refines (v : View) (m : PortMap) : Prop := ∀ k, getNoC v.chain k = m k

theorem find_update (l : List Port) (p : Port) (k : Nat) :
    (l.filter (fun q => q.no != p.no) ++ [p]).find? (fun q => q.no == k) =
      if k = p.no then some p else l.find? (fun q => q.no == k) := by
  rw [List.find?_append, find_filter_ne]
  by_cases hk : k = p.no
  · subst hk; simp
  · have : (p.no == k) = false := by simp; exact fun h => hk h.symm
    simp [hk, this]

theorem contains_filter_ne (l : List Nat) (n k : Nat) :
    (l.filter (fun j => j != n)).contains k = if k = n then false else l.contains k := by
  by_cases hk : k = n
  · subst hk; simp
  · simp only [hk, ↓reduceIte]
    rw [Bool.eq_iff_iff]
    simp only [List.contains_iff_mem, List.mem_filter, bne_iff_ne, ne_eq]
    exact ⟨fun h => h.1, fun h => ⟨h, hk⟩⟩

theorem contains_cons_nat (l : List Nat) (n k : Nat) :
    (n :: l).contains k = if k = n then true else l.contains k := by
  by_cases hk : k = n <;> simp [hk]

theorem refines_features (v0 : View) (f : List Port) : Refines (featuresReply v0 f) (Spec17.init f) := by
  intro k
  rw [getNoC_view]
  simp [featuresReply, PC.reset, Spec17.init]

theorem refines_update (v : View) (m : PortMap) (p : Port) (h : Refines v m) :
    Refines { v with cur := v.cur.update p } (Spec17.set m p.no (some p)) := by
  intro k
  have hk := h k
  rw [getNoC_view] at hk ⊢
  simp only [PC.update, find_update, contains_filter_ne, Spec17.set]
  by_cases e : k = p.no
  · simp [e]
  · simp only [e, ↓reduceIte]
    exact hk

theorem refines_forget (v : View) (m : PortMap) (p : Port) (h : Refines v m) :
    Refines { v with cur := v.cur.forget p } (Spec17.set m p.no none) := by
  intro k
  have hk := h k
  rw [getNoC_view] at hk ⊢
  simp only [PC.forget, find_filter_ne, contains_cons_nat, Spec17.set]
  by_cases e : k = p.no
  · simp [e]
  · simp only [e, ↓reduceIte]
    exact hk

theorem refines_status (v : View) (m : PortMap) (n : Notif) (h : Refines v m) :
    Refines (portStatus v n.reason n.port) (Spec17.apply m n) := by
  cases n with
  | add p => exact refines_update v m p h
  | modify p => exact refines_update v m p h
  | delete p => exact refines_forget v m p h

theorem refines_run (v : View) (m : PortMap) (h : List Notif) (hr : Refines v m) :
    Refines (runNotifs v h) (h.foldl Spec17.apply m) := by
  induction h generalizing v m with
  | nil => exact hr
  | cons n h ih => exact ih _ _ (refines_status v m n hr)

/-! ### a variant of `_update` that does not clear the mask (it refines the same map: the mask of a number that has an own
entry is never consulted) -/

def _root_.Pox.PortView.PC.updateKeepMask (c : PC) (p : Port) : PC :=
  { masks := c.masks, ports := c.ports.filter (fun q => q.no != p.no) ++ [p] }

def portStatusKeepMask (v : View) (reason : Nat) (p : Port) : View :=
  if reason = OFPPR_DELETE then { v with cur := v.cur.forget p }
  else { v with cur := v.cur.updateKeepMask p }

def runNotifsKeepMask (v : View) (h : List Notif) : View :=
  h.foldl (fun v n => portStatusKeepMask v n.reason n.port) v

theorem refines_updateKeepMask (v : View) (m : PortMap) (p : Port) (h : Refines v m) :
    Refines { v with cur := v.cur.updateKeepMask p } (Spec17.set m p.no (some p)) := by
  intro k
  have hk := h k
  rw [getNoC_view] at hk ⊢
  simp only [PC.updateKeepMask, find_update, Spec17.set]
  by_cases e : k = p.no
  · simp [e]
  · simp only [e, ↓reduceIte]
    exact hk

theorem refines_runKeepMask (v : View) (m : PortMap) (h : List Notif) (hr : Refines v m) :
    Refines (runNotifsKeepMask v h) (h.foldl Spec17.apply m) := by
  induction h generalizing v m with
  | nil => exact hr
  | cons n h ih =>
    refine ih _ _ ?_
    cases n with
    | add p => exact refines_updateKeepMask v m p hr
    | modify p => exact refines_updateKeepMask v m p hr
    | delete p => exact refines_forget v m p hr

/-! ### the handshake phase defers port statuses and replays them in order -/

theorem hs_statuses (d : List (Nat × Port)) (v : View) (rs : List (Nat × Port)) :
    (rs.map (fun x => HMsg.status x.1 x.2)).foldl hsStep ⟨some d, v⟩ = ⟨some (d ++ rs), v⟩ := by
  induction rs generalizing d with
  | nil => simp
  | cons x rs ih =>
    simp only [List.map_cons, List.foldl_cons, hsStep]
    rw [ih]; simp

theorem hs_dropped_before_features (c : HConn) (hc : c.deferred = none) (rs : List (Nat × Port)) :
    (rs.map (fun x => HMsg.status x.1 x.2)).foldl hsStep c = c := by
  induction rs with
  | nil => rfl
  | cons x rs ih =>
    simp only [List.map_cons, List.foldl_cons]
    have : hsStep c (.status x.1 x.2) = c := by simp [hsStep, hc]
    rw [this]; exact ih

theorem scanStatus_eq (v : View) (xs : List (Nat × Port)) :
    scanStatus v xs = (List.range xs.length).map (fun i => (xs.take (i + 1)).foldl (fun v x => portStatus v x.1 x.2) v) := by
  induction xs generalizing v with
  | nil => rfl
  | cons x xs ih =>
    rw [scanStatus, ih, List.length_cons, List.range_succ_eq_map, List.map_cons, List.map_map]
    simp

/-! ### `original_ports` is written only by the features reply -/

theorem portStatus_orig (v : View) (r : Nat) (p : Port) : (portStatus v r p).orig = v.orig := by
  unfold portStatus; split <;> rfl

theorem runNotifs_orig (v : View) (h : List Notif) : (runNotifs v h).orig = v.orig := by
  induction h generalizing v with
  | nil => rfl
  | cons n h ih => simp only [runNotifs, List.foldl_cons] at ih ⊢; rw [ih, portStatus_orig]

/-! ### own entries of `con.ports` have distinct numbers (so the "first match" of the model is the only match) -/

def OwnUnique (v : View) : Prop := (v.cur.ports.map (fun p => p.no)).Nodup

theorem ownUnique_features (v0 : View) (f : List Port) : OwnUnique (featuresReply v0 f) := by
  simp [OwnUnique, featuresReply, PC.reset]

theorem ownUnique_status (v : View) (r : Nat) (p : Port) (h : OwnUnique v) : OwnUnique (portStatus v r p) := by
  unfold portStatus OwnUnique at *
  split
  · simp only [PC.forget]
    exact (List.filter_sublist.map _).nodup h
  · simp only [PC.update, List.map_append, List.map_cons, List.map_nil]
    refine List.nodup_append.mpr ⟨(List.filter_sublist.map _).nodup h, by simp, ?_⟩
    intro a ha b hb
    simp only [List.mem_singleton] at hb
    subst hb
    obtain ⟨q, hq, rfl⟩ := List.mem_map.mp ha
    simp only [List.mem_filter, bne_iff_ne, ne_eq] at hq
    exact hq.2

theorem ownUnique_run (v : View) (h : List Notif) (hv : OwnUnique v) : OwnUnique (runNotifs v h) := by
  induction h generalizing v with
  | nil => exact hv
  | cons n h ih => exact ih _ (ownUnique_status v _ _ hv)

/-! ### the abstract map is keyed by the ports' own numbers -/

theorem fold_keyed (f : List Port) (h : List Notif) (k : Nat) (p : Port) (hk : Spec17.fold f h k = some p) : p.no = k := by
  have gen : ∀ (h : List Notif) (m : PortMap), (∀ k p, m k = some p → p.no = k) →
      ∀ k p, h.foldl Spec17.apply m k = some p → p.no = k := by
    intro h
    induction h with
    | nil => intro m hm; exact hm
    | cons n h ih =>
      intro m hm
      apply ih
      intro k p
      cases n <;> simp only [Spec17.apply, Spec17.set] <;> split <;> intro hh
      all_goals first
        | (cases hh; rename_i e; exact e.symm)
        | exact hm _ _ hh
        | cases hh
  refine gen h (Spec17.init f) ?_ k p hk
  intro k p hh
  exact (find_no_some hh).1

end Pox.PortView
