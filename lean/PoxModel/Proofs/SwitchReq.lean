import PoxModel.Model.SwitchReq
/-! Helper lemmas for C13 (core Lean only): table lookups, totality and output shape of the action / buffer / flow-mod /
port-mod paths, sequence composition. -/
namespace Pox.SwitchReq
open Pox.Generated.SwitchDispatch

/-! ### lookups -/

theorem lookup_mem {α β} [BEq α] [LawfulBEq α] {l : List (α × β)} {a : α} {b : β} (h : l.lookup a = some b) : (a, b) ∈ l := by
  induction l with
  | nil => simp [List.lookup] at h
  | cons x r ih =>
    obtain ⟨k, v⟩ := x
    by_cases hk : a == k
    · rw [List.lookup_cons, hk] at h
      simp only [Option.some.injEq] at h
      have : a = k := by simpa using hk
      subst this; subst h; exact List.mem_cons_self
    · rw [List.lookup_cons] at h
      simp only [hk] at h
      exact List.mem_cons_of_mem _ (ih h)

theorem rxTable_lookup (k : Kind) : rxTable.lookup k.code = some k := by cases k <;> rfl

theorem ofpType_of_kind {m : Msg} {k : Kind} (h : m.kind = some k) : m.ofpType = k.code := by
  cases m <;> simp only [Msg.kind, Option.some.injEq, reduceCtorEq] at h <;> subst h <;> rfl

/-- dispatch of a message of one of the 13 kinds reaches the handler of that kind -/
theorem rxMessage_kind {m : Msg} {k : Kind} (h : m.kind = some k) (s : SwitchState) : rxMessage s m = runRx k s m := by
  unfold rxMessage
  rw [ofpType_of_kind h, rxTable_lookup]

theorem action_output_code {t : Nat} (h : actionTable.lookup t = some .output) : t = 0 := by
  have := lookup_mem h
  simp [actionTable] at this
  exact this

theorem action_enqueue_code {t : Nat} (h : actionTable.lookup t = some .enqueue) : t = 11 := by
  have := lookup_mem h
  simp [actionTable] at this
  exact this

theorem statsTable_none {t : Nat} (h : 6 ≤ t) : statsTable.lookup t = none := by
  cases hl : statsTable.lookup t with
  | none => rfl
  | some x =>
    have := lookup_mem hl
    simp [statsTable] at this
    omega

theorem flowModTable_none {c : Nat} (h : 5 ≤ c) : flowModTable.lookup c = none := by
  cases hl : flowModTable.lookup c with
  | none => rfl
  | some x =>
    have := lookup_mem hl
    simp [flowModTable] at this
    omega

theorem flowModTable_add_le {c : Nat} {h : FlowModH} (hl : flowModTable.lookup c = some h)
    (hh : h = .add ∨ h = .modify ∨ h = .modifyStrict) : c ≤ 2 := by
  have := lookup_mem hl
  simp [flowModTable] at this
  rcases hh with rfl | rfl | rfl <;> simp at this <;> omega

theorem flowModTable_some {c : Nat} (h : c ≤ 4) : ∃ hd, flowModTable.lookup c = some hd := by
  have : c = 0 ∨ c = 1 ∨ c = 2 ∨ c = 3 ∨ c = 4 := by omega
  rcases this with rfl | rfl | rfl | rfl | rfl <;> exact ⟨_, rfl⟩

/-! ### shape of what a handler may write for request `xid` -/

/-- an asynchronous notification, or an error carrying the request's xid -/
def ReplyOK (xid : Nat) (r : Reply) : Prop := r.isAsync = true ∨ ∃ t c, r = .error xid t c

theorem ReplyOK.of_async {xid r} (h : r.isAsync = true) : ReplyOK xid r := .inl h

theorem outputPacket_ok (s : SwitchState) (port : Nat) (h : port ≠ OFPP_TABLE) :
    ∃ s' o, outputPacket s port = .ok (s', o) ∧ ∀ r ∈ o, r.isAsync = true := by
  unfold outputPacket
  split
  · exact ⟨s, [], rfl, by simp⟩
  split
  · exact ⟨s, [], rfl, by simp⟩
  split
  · exact ⟨s, [], rfl, by simp⟩
  split
  · exact ⟨s, [], rfl, by simp⟩
  split
  · exact ⟨_, _, rfl, by simp [Reply.isAsync]⟩
  first
    | exact ⟨s, [], rfl, by simp⟩
    | (rw [if_neg h]; exact ⟨s, [], rfl, by simp⟩)

theorem outputAction_of_ne (s : SwitchState) (ip : Option Nat) {port : Nat} (h : port ≠ OFPP_TABLE) :
    outputAction s ip port = outputPacket s port := by
  unfold outputAction; rw [if_neg h]

/-- in scope, action processing never fails; it writes asynchronous messages and at most the BAD_ACTION/BAD_TYPE error
(only when some action type has no handler) -/
theorem processActions_ok (xid : Nat) (ip : Option Nat) (acts : List Act) (hs : actsInScope acts) (s : SwitchState) :
    ∃ s' o, processActions xid ip s acts = .ok (s', o) ∧
      ∀ r ∈ o, r.isAsync = true ∨ (r = .error xid OFPET_BAD_ACTION OFPBAC_BAD_TYPE ∧ ∃ a ∈ acts, actionTable.lookup a.ty = none) := by
  induction acts generalizing s with
  | nil => exact ⟨s, [], rfl, by simp⟩
  | cons a rest ih =>
    have hrest : actsInScope rest := fun b hb => hs b (List.mem_cons_of_mem _ hb)
    have ha := hs a List.mem_cons_self
    unfold processActions
    cases hl : actionTable.lookup a.ty with
    | none =>
      refine ⟨s, _, rfl, ?_⟩
      intro r hr
      simp only [List.mem_singleton] at hr
      exact .inr ⟨hr, a, List.mem_cons_self, hl⟩
    | some ah =>
      have lift : ∀ (s1 : SwitchState), ∃ s' o, processActions xid ip s1 rest = .ok (s', o) ∧
          ∀ r ∈ o, r.isAsync = true ∨ (r = .error xid OFPET_BAD_ACTION OFPBAC_BAD_TYPE ∧ ∃ b ∈ a :: rest, actionTable.lookup b.ty = none) := by
        intro s1
        obtain ⟨s', o, h1, h2⟩ := ih hrest s1
        refine ⟨s', o, h1, ?_⟩
        intro r hr
        rcases h2 r hr with h | ⟨h, b, hb, hb2⟩
        · exact .inl h
        · exact .inr ⟨h, b, List.mem_cons_of_mem _ hb, hb2⟩
      cases ah with
      | output =>
        have h0 := action_output_code hl
        obtain ⟨s1, o1, e1, a1⟩ := outputPacket_ok s a.port (fun hp => ha.2 ⟨h0, hp⟩)
        rw [← outputAction_of_ne s ip (fun hp => ha.2 ⟨h0, hp⟩)] at e1
        obtain ⟨s2, o2, e2, a2⟩ := lift s1
        simp only [e1, e2]
        refine ⟨s2, o1 ++ o2, rfl, ?_⟩
        intro r hr
        rcases List.mem_append.mp hr with h | h
        · exact .inl (a1 r h)
        · exact a2 r h
      | enqueue => exact absurd (action_enqueue_code hl) ha.1
      | setVlanVid => exact lift s
      | setVlanPcp => exact lift s
      | stripVlan => exact lift s
      | setDlSrc => exact lift s
      | setDlDst => exact lift s
      | setNwSrc => exact lift s
      | setNwDst => exact lift s
      | setNwTos => exact lift s
      | setTpSrc => exact lift s
      | setTpDst => exact lift s

/-- the two buffer errors of the standard: BAD_REQUEST/BUFFER_UNKNOWN and BAD_REQUEST/BUFFER_EMPTY -/
def IsBufferErr (xid : Nat) (r : Reply) : Prop :=
  r = .error xid OFPET_BAD_REQUEST OFPBRC_BUFFER_UNKNOWN ∨ r = .error xid OFPET_BAD_REQUEST OFPBRC_BUFFER_EMPTY

/-- what action processing (direct or from a buffer) may write for request `xid` -/
def ActOut (xid : Nat) (acts : List Act) (dead : Prop) (r : Reply) : Prop :=
  r.isAsync = true ∨ (r = .error xid OFPET_BAD_ACTION OFPBAC_BAD_TYPE ∧ ∃ a ∈ acts, actionTable.lookup a.ty = none) ∨
    (dead ∧ IsBufferErr xid r)

theorem processFromBuffer_ok (xid : Nat) (ip : Option Nat) (s : SwitchState) (acts : List Act) (id : Nat) (hs : actsInScope acts) :
    ∃ s' o, processFromBuffer xid ip s acts id = .ok (s', o) ∧ ∀ r ∈ o, ActOut xid acts (bufferLive s id = false) r := by
  unfold processFromBuffer
  by_cases h0 : id = 0
  · rw [if_pos h0]
    refine ⟨s, _, rfl, ?_⟩
    intro r hr
    simp only [List.mem_singleton] at hr
    exact .inr (.inr ⟨by simp [bufferLive, h0], .inl hr⟩)
  · rw [if_neg h0]
    by_cases h : id - 1 < s.buffers.length
    · rw [dif_pos h]
      by_cases hb : s.buffers[id - 1] = true
      · rw [if_pos hb]
        obtain ⟨s1, o, e, a⟩ := processActions_ok xid ip acts hs s
        simp only [e]
        refine ⟨_, o, rfl, ?_⟩
        intro r hr
        rcases a r hr with h1 | h1
        · exact .inl h1
        · exact .inr (.inl h1)
      · rw [if_neg hb]
        refine ⟨s, _, rfl, ?_⟩
        intro r hr
        simp only [List.mem_singleton] at hr
        have hf : s.buffers[id - 1] = false := by
          cases hh : s.buffers[id - 1] with
          | false => rfl
          | true => exact absurd hh hb
        refine .inr (.inr ⟨?_, .inr hr⟩)
        simp [bufferLive, List.getD_eq_getElem?_getD, List.getElem?_eq_getElem h, hf]
    · rw [dif_neg h]
      refine ⟨s, _, rfl, ?_⟩
      intro r hr
      simp only [List.mem_singleton] at hr
      refine .inr (.inr ⟨?_, .inl hr⟩)
      have : s.buffers[id - 1]? = none := List.getElem?_eq_none (by omega)
      simp [bufferLive, List.getD_eq_getElem?_getD, this]

theorem rxPacketOut_ok (s : SwitchState) (xid : Nat) (b : Option Nat) (d : Bool) (p : Nat) (acts : List Act) (hs : actsInScope acts) :
    ∃ s' o, rxPacketOut s xid b d p acts = .ok (s', o) ∧
      ∀ r ∈ o, ActOut xid acts (d = false ∧ ∃ id, b = some id ∧ bufferLive s id = false) r := by
  unfold rxPacketOut
  cases d with
  | true =>
    obtain ⟨s1, o, e, a⟩ := processActions_ok xid (some p) acts hs s
    refine ⟨s1, o, by simpa using e, ?_⟩
    intro r hr
    rcases a r hr with h1 | h1
    · exact .inl h1
    · exact .inr (.inl h1)
  | false =>
    rw [if_neg Bool.false_ne_true]
    cases b with
    | none => exact ⟨s, [], rfl, by simp⟩
    | some id =>
      obtain ⟨s1, o, e, a⟩ := processFromBuffer_ok xid (some p) s acts id hs
      refine ⟨s1, o, e, ?_⟩
      intro r hr
      rcases a r hr with h1 | h1 | ⟨h1, h2⟩
      · exact .inl h1
      · exact .inr (.inl h1)
      · exact .inr (.inr ⟨⟨rfl, id, rfl, h1⟩, h2⟩)

/-! ### flow-mod -/

/-- the errors `_flow_mod_add` can send, and when -/
theorem flowModAdd_out (s : SwitchState) (xid command : Nat) (mk : MKey) (prio cookie flags idle hard : Nat) (acts : List Act) :
    (flowModAdd s xid command mk prio cookie flags idle hard acts).2 = [] ∨
    ∃ c, (flowModAdd s xid command mk prio cookie flags idle hard acts).2 = [.error xid OFPET_FLOW_MOD_FAILED c] ∧
      (hasBit flags OFPFF_EMERG = true ∨ (hasBit flags OFPFF_CHECK_OVERLAP = true ∧ checkOverlap prio mk s.table = true) ∨
        s.maxEntries ≤ (flowModAdd s xid command mk prio cookie flags idle hard acts).1.table.length) := by
  unfold flowModAdd
  split
  · rename_i he
    split
    · exact .inr ⟨_, rfl, .inl he⟩
    · split
      · exact .inr ⟨_, rfl, .inl he⟩
      · exact .inr ⟨_, rfl, .inl he⟩
  · split
    · rename_i ho
      simp only [Bool.and_eq_true] at ho
      exact .inr ⟨_, rfl, .inr (.inl ho)⟩
    · simp only
      split
      · rename_i hf
        exact .inr ⟨_, rfl, .inr (.inr hf)⟩
      · exact .inl rfl

theorem flowModModify_out (strict : Bool) (s : SwitchState) (xid command : Nat) (mk : MKey) (prio cookie flags idle hard : Nat)
    (acts : List Act) :
    (flowModModify strict s xid command mk prio cookie flags idle hard acts).2 = [] ∨
    ∃ c, (flowModModify strict s xid command mk prio cookie flags idle hard acts).2 = [.error xid OFPET_FLOW_MOD_FAILED c] ∧
      (hasBit flags OFPFF_EMERG = true ∨ (hasBit flags OFPFF_CHECK_OVERLAP = true ∧ checkOverlap prio mk s.table = true) ∨
        s.maxEntries ≤ (flowModModify strict s xid command mk prio cookie flags idle hard acts).1.table.length) := by
  unfold flowModModify
  split
  · exact .inl rfl
  · exact flowModAdd_out s xid command mk prio cookie flags idle hard acts

theorem flowModDelete_out (strict : Bool) (s : SwitchState) (mk : MKey) (prio outPort : Nat) :
    ∀ r ∈ (flowModDelete strict s mk prio outPort).2, r.isAsync = true := by
  intro r hr
  simp only [flowModDelete, List.mem_map] at hr
  obtain ⟨e, _, rfl⟩ := hr
  rfl

/-- a flow-mod handler writes flow-removed notifications or one FLOW_MOD_FAILED error with the request's xid -/
theorem runFlowMod_out (h : FlowModH) (s : SwitchState) (xid command : Nat) (mk : MKey) (prio cookie flags idle hard outPort : Nat)
    (acts : List Act) :
    ∀ r ∈ (runFlowMod h s xid command mk prio cookie flags idle hard outPort acts).2,
      r.isAsync = true ∨ ∃ c, r = .error xid OFPET_FLOW_MOD_FAILED c := by
  intro r hr
  cases h with
  | add =>
    rcases flowModAdd_out s xid command mk prio cookie flags idle hard acts with h | ⟨c, h, _⟩
    · simp only [runFlowMod, h] at hr; simp at hr
    · simp only [runFlowMod, h, List.mem_singleton] at hr; exact .inr ⟨c, hr⟩
  | modify =>
    rcases flowModModify_out false s xid command mk prio cookie flags idle hard acts with h | ⟨c, h, _⟩
    · simp only [runFlowMod, h] at hr; simp at hr
    · simp only [runFlowMod, h, List.mem_singleton] at hr; exact .inr ⟨c, hr⟩
  | modifyStrict =>
    rcases flowModModify_out true s xid command mk prio cookie flags idle hard acts with h | ⟨c, h, _⟩
    · simp only [runFlowMod, h] at hr; simp at hr
    · simp only [runFlowMod, h, List.mem_singleton] at hr; exact .inr ⟨c, hr⟩
  | delete => exact .inl (flowModDelete_out false s mk prio outPort r hr)
  | deleteStrict => exact .inl (flowModDelete_out true s mk prio outPort r hr)

theorem runFlowMod_buffers (h : FlowModH) (s : SwitchState) (xid command : Nat) (mk : MKey) (prio cookie flags idle hard outPort : Nat)
    (acts : List Act) : (runFlowMod h s xid command mk prio cookie flags idle hard outPort acts).1.buffers = s.buffers := by
  have hadd : (flowModAdd s xid command mk prio cookie flags idle hard acts).1.buffers = s.buffers := by
    unfold flowModAdd
    repeat' (first | split | dsimp only)
    all_goals rfl
  have hmod : ∀ st, (flowModModify st s xid command mk prio cookie flags idle hard acts).1.buffers = s.buffers := by
    intro st
    unfold flowModModify
    split
    · rfl
    · exact hadd
  cases h with
  | add => exact hadd
  | modify => exact hmod false
  | modifyStrict => exact hmod true
  | delete => rfl
  | deleteStrict => rfl

theorem rxFlowModBody_ok (s : SwitchState) (xid command : Nat) (mk : MKey) (prio cookie flags idle hard outPort : Nat)
    (b : Option Nat) (acts : List Act) (hs : actsInScope acts) :
    ∃ s' o, rxFlowModBody s xid command mk prio cookie flags idle hard outPort b acts = .ok (s', o) ∧ ∀ r ∈ o, ReplyOK xid r := by
  unfold rxFlowModBody
  cases hl : flowModTable.lookup command with
  | none =>
    refine ⟨s, _, rfl, ?_⟩
    intro r hr
    simp only [List.mem_singleton] at hr
    exact .inr ⟨_, _, hr⟩
  | some h =>
    have hout := runFlowMod_out h s xid command mk prio cookie flags idle hard outPort acts
    have hok : ∀ r ∈ (runFlowMod h s xid command mk prio cookie flags idle hard outPort acts).2, ReplyOK xid r := by
      intro r hr
      rcases hout r hr with h1 | ⟨c, h1⟩
      · exact .inl h1
      · exact .inr ⟨_, c, h1⟩
    cases b with
    | none => exact ⟨_, _, rfl, hok⟩
    | some id =>
      obtain ⟨s2, o2, e2, a2⟩ := processFromBuffer_ok xid none (runFlowMod h s xid command mk prio cookie flags idle hard outPort acts).1 acts id hs
      simp only [e2]
      refine ⟨s2, _, rfl, ?_⟩
      intro r hr
      rcases List.mem_append.mp hr with h1 | h1
      · exact hok r h1
      · rcases a2 r h1 with h2 | ⟨h2, _⟩ | ⟨_, h2 | h2⟩
        · exact .inl h2
        · exact .inr ⟨_, _, h2⟩
        · exact .inr ⟨_, _, h2⟩
        · exact .inr ⟨_, _, h2⟩

/-! ### port-mod -/

theorem setPortConfigBit_out (p : Port) (bit value : Nat) :
    (setPortConfigBit p bit value).2 = [] ∨ ∃ q, (setPortConfigBit p bit value).2 = [.portStatus OFPPR_MODIFY q] := by
  unfold setPortConfigBit
  repeat' (first | split | dsimp only)
  all_goals first
    | exact .inl rfl
    | exact .inr ⟨_, rfl⟩

theorem setPortConfigBit_async (p : Port) (bit value : Nat) : ∀ r ∈ (setPortConfigBit p bit value).2, r.isAsync = true := by
  intro r hr
  rcases setPortConfigBit_out p bit value with h | ⟨q, h⟩
  · rw [h] at hr; simp at hr
  · rw [h] at hr; simp only [List.mem_singleton] at hr; subst hr; rfl

theorem portModBits_async (mask config : Nat) (bits : List Nat) (p : Port) :
    ∀ r ∈ (portModBits mask config bits p).2, r.isAsync = true := by
  induction bits generalizing p with
  | nil => intro r hr; simp [portModBits] at hr
  | cons i rest ih =>
    intro r hr
    unfold portModBits at hr
    split at hr
    · simp only [List.mem_append] at hr
      rcases hr with h | h
      · exact setPortConfigBit_async _ _ _ r h
      · exact ih _ r h
    · exact ih _ r hr

/-- `_rx_port_mod` writes one PORT_MOD_FAILED error or only port-status notifications -/
theorem rxPortMod_out (s : SwitchState) (xid portNo hw config mask : Nat) :
    ∀ r ∈ (rxPortMod s xid portNo hw config mask).2, ReplyOK xid r := by
  intro r hr
  unfold rxPortMod at hr
  split at hr
  · simp only [List.mem_singleton] at hr; exact .inr ⟨_, _, hr⟩
  · split at hr
    · simp only [List.mem_singleton] at hr; exact .inr ⟨_, _, hr⟩
    · exact .inl (portModBits_async _ _ _ _ r hr)

/-! ### statistics: multipart replies -/

/-- a complete multipart answer to request `x` of type `t` with bodies `bs`: at least one part, every part a stats reply
with the request's xid and type, OFPSF_REPLY_MORE on all parts but the last -/
inductive Multipart (x t : Nat) : List Reply → List StatsBody → Prop
  | last (b : StatsBody) : Multipart x t [.statsReply x t false b] [b]
  | more (b : StatsBody) {rs : List Reply} {bs : List StatsBody} :
      Multipart x t rs bs → Multipart x t (.statsReply x t true b :: rs) (b :: bs)

theorem markParts_multipart (x t : Nat) {bs : List StatsBody} (h : bs ≠ []) : Multipart x t (markParts x t bs) bs := by
  induction bs with
  | nil => exact absurd rfl h
  | cons b r ih =>
    cases r with
    | nil => exact .last b
    | cons c r' =>
      have : markParts x t (b :: c :: r') = .statsReply x t true b :: markParts x t (c :: r') := rfl
      rw [this]
      exact .more b (ih (by simp))

theorem Multipart.all {x t : Nat} {g : List Reply} {bs : List StatsBody} (h : Multipart x t g bs) :
    g ≠ [] ∧ ∀ r ∈ g, r.xid? = some x ∧ r.isAsync = false := by
  induction h with
  | last b => exact ⟨by simp, by intro r hr; simp only [List.mem_singleton] at hr; subst hr; exact ⟨rfl, rfl⟩⟩
  | more b _ ih =>
    refine ⟨by simp, ?_⟩
    intro r hr
    rcases List.mem_cons.mp hr with rfl | hr'
    · exact ⟨rfl, rfl⟩
    · exact ih.2 r hr'

theorem splitGo_flatten {α} (size : α → Nat) (l cur : List α) (sz : Nat) :
    (splitGo size l cur sz).flatten = cur.reverse ++ l := by
  induction l generalizing cur sz with
  | nil => simp [splitGo]
  | cons e r ih =>
    unfold splitGo
    split
    · simp [ih]
    · rw [ih]; simp

/-- the parts, put together again, are the list that was split -/
theorem splitParts_flatten {α} (size : α → Nat) (l : List α) : (splitParts size l).flatten = l := by
  simp [splitParts, splitGo_flatten]

theorem splitGo_ne {α} (size : α → Nat) (l cur : List α) (sz : Nat) : splitGo size l cur sz ≠ [] := by
  induction l generalizing cur sz with
  | nil => simp [splitGo]
  | cons e r ih =>
    unfold splitGo
    split
    · simp
    · exact ih _ _

theorem splitParts_ne {α} (size : α → Nat) (l : List α) : splitParts size l ≠ [] := splitGo_ne size l [] 0

theorem splitGo_fit {α} (size : α → Nat) (l cur : List α) (sz : Nat) (hsz : sz = (cur.map size).sum) (hcur : sz ≤ partLimit)
    (hl : ∀ e ∈ l, size e ≤ partLimit) : ∀ p ∈ splitGo size l cur sz, (p.map size).sum ≤ partLimit := by
  induction l generalizing cur sz with
  | nil =>
    intro p hp
    simp only [splitGo, List.mem_singleton] at hp
    subst hp
    rw [List.map_reverse, List.sum_reverse, ← hsz]; exact hcur
  | cons e r ih =>
    have he := hl e List.mem_cons_self
    have hr : ∀ x ∈ r, size x ≤ partLimit := fun x hx => hl x (List.mem_cons_of_mem _ hx)
    unfold splitGo
    split
    · intro p hp
      rcases List.mem_cons.mp hp with rfl | hp'
      · rw [List.map_reverse, List.sum_reverse, ← hsz]; exact hcur
      · exact ih [e] (size e) (by simp) he hr p hp'
    · rename_i hc
      refine ih (e :: cur) (sz + size e) (by simp [hsz]; omega) ?_ hr
      by_cases hgt : sz + size e > partLimit
      · have : cur = [] := by
          cases cur with
          | nil => rfl
          | cons a t => exact absurd ⟨hgt, by simp⟩ hc
        subst this
        simp at hsz; subst hsz; simpa using he
      · omega

theorem splitGo_nonempty {α} (size : α → Nat) (l cur : List α) (sz : Nat) (h : cur ≠ [] ∨ l ≠ []) :
    ∀ p ∈ splitGo size l cur sz, p ≠ [] := by
  induction l generalizing cur sz with
  | nil =>
    intro p hp
    simp only [splitGo, List.mem_singleton] at hp
    subst hp
    rcases h with h | h
    · simpa using h
    · exact absurd rfl h
  | cons e r ih =>
    unfold splitGo
    split
    · rename_i hc
      intro p hp
      rcases List.mem_cons.mp hp with rfl | hp'
      · simpa using hc.2
      · exact ih [e] (size e) (.inl (by simp)) p hp'
    · exact ih (e :: cur) (sz + size e) (.inl (by simp))

/-- no part of a non-empty list is empty -/
theorem splitParts_nonempty {α} (size : α → Nat) (l : List α) (h : l ≠ []) : ∀ p ∈ splitParts size l, p ≠ [] :=
  splitGo_nonempty size l [] 0 (.inr h)

/-- the parts are maximal: a part is closed only when the entry that opens the next part would not have fitted into it -/
def Greedy {α} (size : α → Nat) : List (List α) → Prop
  | p :: (e :: q) :: rest => (p.map size).sum + size e > partLimit ∧ Greedy size ((e :: q) :: rest)
  | _ :: [] :: rest => Greedy size ([] :: rest)
  | _ => True

theorem splitGo_head {α} (size : α → Nat) (l cur : List α) (sz : Nat) :
    ∃ t rest, splitGo size l cur sz = (cur.reverse ++ t) :: rest := by
  induction l generalizing cur sz with
  | nil => exact ⟨[], [], by simp [splitGo]⟩
  | cons e r ih =>
    unfold splitGo
    split
    · exact ⟨[], splitGo size r [e] (size e), by simp⟩
    · obtain ⟨t, rest, h⟩ := ih (e :: cur) (sz + size e)
      exact ⟨e :: t, rest, by rw [h]; simp⟩

theorem splitGo_greedy {α} (size : α → Nat) (l cur : List α) (sz : Nat) (hsz : sz = (cur.map size).sum) :
    Greedy size (splitGo size l cur sz) := by
  induction l generalizing cur sz with
  | nil => simp [splitGo, Greedy]
  | cons e r ih =>
    unfold splitGo
    split
    · rename_i hc
      obtain ⟨t, rest, h⟩ := splitGo_head size r [e] (size e)
      have ih' := ih [e] (size e) (by simp)
      rw [h] at ih' ⊢
      simp only [List.reverse_cons, List.reverse_nil, List.nil_append, List.singleton_append] at ih' ⊢
      refine ⟨?_, ih'⟩
      rw [List.map_reverse, List.sum_reverse, ← hsz]
      exact hc.1
    · exact ih (e :: cur) (sz + size e) (by simp [hsz]; omega)

theorem splitParts_greedy {α} (size : α → Nat) (l : List α) : Greedy size (splitParts size l) :=
  splitGo_greedy size l [] 0 rfl

/-- every part fits into one message when every single entry does -/
theorem splitParts_fit {α} (size : α → Nat) (l : List α) (hl : ∀ e ∈ l, size e ≤ partLimit) :
    ∀ p ∈ splitParts size l, (p.map size).sum ≤ partLimit :=
  splitGo_fit size l [] 0 rfl (Nat.zero_le _) hl

/-- a statistics request changes nothing -/
theorem rxStats_state {s s' : SwitchState} {xid : Nat} {req : StatsReq} {o : List Reply} (h : rxStats s xid req = .ok (s', o)) : s' = s := by
  unfold rxStats at h
  cases hl : statsTable.lookup req.stype with
  | none => rw [hl] at h; simp only at h; injection h with h; injection h with h1 _; exact h1.symm
  | some hd =>
    rw [hl] at h; simp only at h
    cases hr : runStats hd s xid req with
    | error e => rw [hr] at h; cases h
    | ok r =>
      obtain ⟨errs, body⟩ := r
      rw [hr] at h
      cases body with
      | none => simp only at h; injection h with h; injection h with h1 _; exact h1.symm
      | some bd =>
        simp only at h
        split at h
        · injection h with h; injection h with h1 _; exact h1.symm
        · cases h

/-! ### sequences -/

theorem run_append (s : SwitchState) (a b : List Msg) :
    run s (a ++ b) =
      match run s a with
      | .error e => .error e
      | .ok (s1, g1) =>
        match run s1 b with
        | .error e => .error e
        | .ok (s2, g2) => .ok (s2, g1 ++ g2) := by
  induction a generalizing s with
  | nil =>
    simp only [List.nil_append, run]
    cases run s b with
    | error e => rfl
    | ok r => rfl
  | cons m ms ih =>
    simp only [List.cons_append, run]
    cases hm : rxMessage s m with
    | error e => rfl
    | ok r =>
      obtain ⟨s1, o⟩ := r
      simp only
      rw [ih]
      cases run s1 ms with
      | error e => rfl
      | ok r2 =>
        obtain ⟨s2, g⟩ := r2
        simp only
        cases run s2 b with
        | error e => rfl
        | ok r3 => rfl

end Pox.SwitchReq

/-! ### frame lemmas: what a message can change (used for the theorems over whole request histories) -/
namespace Pox.SwitchReq
open Pox.Generated.SwitchDispatch

/-- everything of the switch state except the flow table, the packet buffers and the two table counters -/
structure Fixed where
  dpid : Nat
  maxBuffers : Nat
  maxEntries : Nat
  caps : Nat
  actionBits : Nat
  portStats : List PortCtr
  configFlags : Nat
  missSendLen : Nat
  hasSentHello : Bool
  ports : List Port
  deriving DecidableEq

def fixedOf (s : SwitchState) : Fixed :=
  { dpid := s.dpid, maxBuffers := s.maxBuffers, maxEntries := s.maxEntries, caps := s.caps, actionBits := s.actionBits,
    portStats := s.portStats, configFlags := s.configFlags,
    missSendLen := s.missSendLen, hasSentHello := s.hasSentHello, ports := s.ports }

theorem bufferPacket_fixed (s : SwitchState) : fixedOf (bufferPacket s).1 = fixedOf s := by
  unfold bufferPacket
  repeat' (first | split | dsimp only)
  all_goals rfl

theorem outputPacket_fixed {s s' : SwitchState} {port : Nat} {o : List Reply} (h : outputPacket s port = .ok (s', o)) :
    fixedOf s' = fixedOf s := by
  unfold outputPacket at h
  repeat' split at h
  all_goals first
    | (injection h with h; injection h with h1 _; subst h1; first | rfl | exact bufferPacket_fixed s)
    | (cases h)

theorem runOuts_fixed {outs : List Nat} {s s' : SwitchState} {o : List Reply} (h : runOuts s outs = .ok (s', o)) :
    fixedOf s' = fixedOf s := by
  induction outs generalizing s o with
  | nil => simp only [runOuts] at h; injection h with h; injection h with h1 _; subst h1; rfl
  | cons p r ih =>
    unfold runOuts at h
    cases ho : outputPacket s p with
    | error e => rw [ho] at h; cases h
    | ok r1 =>
      obtain ⟨s1, o1⟩ := r1
      rw [ho] at h; simp only at h
      cases hp : runOuts s1 r with
      | error e => rw [hp] at h; cases h
      | ok r2 =>
        obtain ⟨s2, o2⟩ := r2
        rw [hp] at h; simp only at h
        injection h with h; injection h with h1 _; subst h1
        rw [ih hp, outputPacket_fixed ho]

theorem lookupPacket_fixed {s s' : SwitchState} {p : Nat} {o : List Reply} (h : lookupPacket s p = .ok (s', o)) :
    fixedOf s' = fixedOf s := by
  unfold lookupPacket at h
  split at h
  · rw [runOuts_fixed h]; rfl
  · split at h
    · injection h with h; injection h with h1 _; subst h1; rfl
    · injection h with h; injection h with h1 _; subst h1
      rw [bufferPacket_fixed]; rfl

theorem outputAction_fixed {s s' : SwitchState} {ip : Option Nat} {port : Nat} {o : List Reply}
    (h : outputAction s ip port = .ok (s', o)) : fixedOf s' = fixedOf s := by
  unfold outputAction at h
  split at h
  · cases ip with
    | none => cases h
    | some p => exact lookupPacket_fixed h
  · exact outputPacket_fixed h

theorem processActions_fixed (xid : Nat) (ip : Option Nat) (acts : List Act) {s s' : SwitchState} {o : List Reply}
    (h : processActions xid ip s acts = .ok (s', o)) : fixedOf s' = fixedOf s := by
  induction acts generalizing s o with
  | nil =>
    simp only [processActions] at h
    injection h with h; injection h with h1 _; subst h1; rfl
  | cons a rest ih =>
    unfold processActions at h
    cases hl : actionTable.lookup a.ty with
    | none =>
      rw [hl] at h; simp only at h
      injection h with h; injection h with h1 _; subst h1; rfl
    | some ah =>
      rw [hl] at h
      cases ah with
      | output =>
        simp only at h
        cases ho : outputAction s ip a.port with
        | error e => rw [ho] at h; cases h
        | ok r1 =>
          obtain ⟨s1, o1⟩ := r1
          rw [ho] at h; simp only at h
          cases hp : processActions xid ip s1 rest with
          | error e => rw [hp] at h; cases h
          | ok r2 =>
            obtain ⟨s2, o2⟩ := r2
            rw [hp] at h; simp only at h
            injection h with h; injection h with h1 _; subst h1
            rw [ih hp, outputAction_fixed ho]
      | enqueue => simp only at h; cases h
      | setVlanVid => exact ih h
      | setVlanPcp => exact ih h
      | stripVlan => exact ih h
      | setDlSrc => exact ih h
      | setDlDst => exact ih h
      | setNwSrc => exact ih h
      | setNwDst => exact ih h
      | setNwTos => exact ih h
      | setTpSrc => exact ih h
      | setTpDst => exact ih h

theorem processFromBuffer_fixed (xid : Nat) (ip : Option Nat) (acts : List Act) (id : Nat) {s s' : SwitchState} {o : List Reply}
    (h : processFromBuffer xid ip s acts id = .ok (s', o)) : fixedOf s' = fixedOf s := by
  unfold processFromBuffer at h
  split at h
  · injection h with h; injection h with h1 _; subst h1; rfl
  split at h
  · split at h
    · cases hp : processActions xid ip s acts with
      | error e => rw [hp] at h; cases h
      | ok r =>
        obtain ⟨s1, o1⟩ := r
        rw [hp] at h; simp only at h
        injection h with h; injection h with h1 _; subst h1
        have h2 : fixedOf s1 = fixedOf s := processActions_fixed xid ip acts hp
        exact h2
    · injection h with h; injection h with h1 _; subst h1; rfl
  · injection h with h; injection h with h1 _; subst h1; rfl

theorem rxPacketOut_fixed {s s' : SwitchState} {xid : Nat} {b : Option Nat} {d : Bool} {p : Nat} {acts : List Act} {o : List Reply}
    (h : rxPacketOut s xid b d p acts = .ok (s', o)) : fixedOf s' = fixedOf s := by
  unfold rxPacketOut at h
  split at h
  · exact processActions_fixed xid (some p) acts h
  · cases b with
    | none => simp only at h; injection h with h; injection h with h1 _; subst h1; rfl
    | some id => exact processFromBuffer_fixed xid (some p) acts id h

theorem runFlowMod_fixed (h : FlowModH) (s : SwitchState) (xid command : Nat) (mk : MKey) (prio cookie flags idle hard outPort : Nat)
    (acts : List Act) : fixedOf (runFlowMod h s xid command mk prio cookie flags idle hard outPort acts).1 = fixedOf s := by
  have hadd : fixedOf (flowModAdd s xid command mk prio cookie flags idle hard acts).1 = fixedOf s := by
    unfold flowModAdd
    repeat' (first | split | dsimp only)
    all_goals rfl
  have hmod : ∀ st, fixedOf (flowModModify st s xid command mk prio cookie flags idle hard acts).1 = fixedOf s := by
    intro st
    unfold flowModModify
    split
    · rfl
    · exact hadd
  cases h with
  | add => exact hadd
  | modify => exact hmod false
  | modifyStrict => exact hmod true
  | delete => rfl
  | deleteStrict => rfl

theorem rxFlowModBody_fixed {s s' : SwitchState} {xid command : Nat} {mk : MKey} {prio cookie flags idle hard outPort : Nat}
    {b : Option Nat} {acts : List Act} {o : List Reply}
    (h : rxFlowModBody s xid command mk prio cookie flags idle hard outPort b acts = .ok (s', o)) : fixedOf s' = fixedOf s := by
  unfold rxFlowModBody at h
  cases hl : flowModTable.lookup command with
  | none => rw [hl] at h; simp only at h; injection h with h; injection h with h1 _; subst h1; rfl
  | some hd =>
    rw [hl] at h; simp only at h
    cases b with
    | none =>
      simp only at h
      injection h with h
      have h2 := runFlowMod_fixed hd s xid command mk prio cookie flags idle hard outPort acts
      rw [h] at h2
      exact h2
    | some id =>
      simp only at h
      cases hp : processFromBuffer xid none (runFlowMod hd s xid command mk prio cookie flags idle hard outPort acts).1 acts id with
      | error e => rw [hp] at h; cases h
      | ok r =>
        obtain ⟨s2, o2⟩ := r
        rw [hp] at h; simp only at h
        injection h with h; injection h with h1 _; subst h1
        rw [processFromBuffer_fixed xid none acts id hp]
        exact runFlowMod_fixed hd s xid command mk prio cookie flags idle hard outPort acts

/-- port number and hardware address of a port never change -/
theorem setPortConfigBit_key (p : Port) (bit value : Nat) :
    (setPortConfigBit p bit value).1.no = p.no ∧ (setPortConfigBit p bit value).1.hw = p.hw := by
  unfold setPortConfigBit
  repeat' (first | split | dsimp only)
  all_goals exact ⟨rfl, rfl⟩

theorem portModBits_key (mask config : Nat) (bits : List Nat) (p : Port) :
    (portModBits mask config bits p).1.no = p.no ∧ (portModBits mask config bits p).1.hw = p.hw := by
  induction bits generalizing p with
  | nil => exact ⟨rfl, rfl⟩
  | cons i rest ih =>
    unfold portModBits
    split
    · have h1 := setPortConfigBit_key p (1 <<< i) (config &&& (1 <<< i))
      have h2 := ih (setPortConfigBit p (1 <<< i) (config &&& (1 <<< i))).1
      exact ⟨h2.1.trans h1.1, h2.2.trans h1.2⟩
    · exact ih p

/-- the identity of a port: number and hardware address -/
def portKeys (s : SwitchState) : List (Nat × Nat) := s.ports.map fun p => (p.no, p.hw)

/-- `self.ports` is a dict keyed by port number -/
def PortsUnique (s : SwitchState) : Prop := (s.ports.map (·.no)).Nodup

theorem eq_of_nodup_map {α β} {f : α → β} {l : List α} (h : (l.map f).Nodup) {x y : α} (hx : x ∈ l) (hy : y ∈ l)
    (e : f x = f y) : x = y := by
  induction l with
  | nil => cases hx
  | cons a r ih =>
    rw [List.map_cons, List.nodup_cons] at h
    rcases List.mem_cons.mp hx with rfl | hx' <;> rcases List.mem_cons.mp hy with rfl | hy'
    · rfl
    · exact absurd (List.mem_map.mpr ⟨y, hy', e.symm⟩) h.1
    · exact absurd (List.mem_map.mpr ⟨x, hx', e⟩) h.1
    · exact ih h.2 hx' hy'

/-- `_rx_port_mod` touches only the config/state of ports: numbers, addresses, order and everything else stay -/
theorem rxPortMod_frame (s : SwitchState) (xid portNo hw config mask : Nat) (hu : PortsUnique s) :
    portKeys (rxPortMod s xid portNo hw config mask).1 = portKeys s ∧
    { fixedOf (rxPortMod s xid portNo hw config mask).1 with ports := [] } = { fixedOf s with ports := [] } ∧
    (rxPortMod s xid portNo hw config mask).1.table = s.table ∧ (rxPortMod s xid portNo hw config mask).1.buffers = s.buffers := by
  unfold rxPortMod
  cases hf : s.ports.find? (·.no == portNo) with
  | none => exact ⟨rfl, rfl, rfl, rfl⟩
  | some p =>
    simp only
    split
    · exact ⟨rfl, rfl, rfl, rfl⟩
    · refine ⟨?_, rfl, rfl, rfl⟩
      have hp : p.no = portNo := by
        have := List.find?_some hf
        simpa using this
      have hpm : p ∈ s.ports := List.mem_of_find?_eq_some hf
      have hk := portModBits_key mask config (List.range 32) p
      simp only [portKeys, List.map_map]
      apply List.map_congr_left
      intro q hq
      simp only [Function.comp]
      by_cases hqn : (q.no == portNo) = true
      · rw [if_pos hqn]
        have hqn' : q.no = portNo := by simpa using hqn
        have : q = p := eq_of_nodup_map hu hq hpm (hqn'.trans hp.symm)
        subst this
        rw [hk.1, hk.2]
      · rw [if_neg hqn]

theorem rxPortMod_cfg (s : SwitchState) (xid portNo hw config mask : Nat) :
    (rxPortMod s xid portNo hw config mask).1.configFlags = s.configFlags ∧
    (rxPortMod s xid portNo hw config mask).1.missSendLen = s.missSendLen := by
  unfold rxPortMod
  repeat' (first | split | dsimp only)
  all_goals exact ⟨rfl, rfl⟩

/-! #### the packet paths leave the flow table alone -/

theorem bufferPacket_table (s : SwitchState) : (bufferPacket s).1.table = s.table := by
  unfold bufferPacket
  repeat' (first | split | dsimp only)
  all_goals rfl

theorem outputPacket_table {s s' : SwitchState} {port : Nat} {o : List Reply} (h : outputPacket s port = .ok (s', o)) :
    s'.table = s.table := by
  unfold outputPacket at h
  repeat' split at h
  all_goals first
    | (injection h with h; injection h with h1 _; subst h1; first | rfl | exact bufferPacket_table s)
    | (cases h)

theorem runOuts_table {outs : List Nat} {s s' : SwitchState} {o : List Reply} (h : runOuts s outs = .ok (s', o)) :
    s'.table = s.table := by
  induction outs generalizing s o with
  | nil => simp only [runOuts] at h; injection h with h; injection h with h1 _; subst h1; rfl
  | cons p r ih =>
    unfold runOuts at h
    cases ho : outputPacket s p with
    | error e => rw [ho] at h; cases h
    | ok r1 =>
      obtain ⟨s1, o1⟩ := r1
      rw [ho] at h; simp only at h
      cases hp : runOuts s1 r with
      | error e => rw [hp] at h; cases h
      | ok r2 =>
        obtain ⟨s2, o2⟩ := r2
        rw [hp] at h; simp only at h
        injection h with h; injection h with h1 _; subst h1
        rw [ih hp, outputPacket_table ho]

theorem lookupPacket_table {s s' : SwitchState} {p : Nat} {o : List Reply} (h : lookupPacket s p = .ok (s', o)) :
    s'.table = s.table := by
  unfold lookupPacket at h
  split at h
  · rw [runOuts_table h]
  · split at h
    · injection h with h; injection h with h1 _; subst h1; rfl
    · injection h with h; injection h with h1 _; subst h1
      rw [bufferPacket_table]

theorem outputAction_table {s s' : SwitchState} {ip : Option Nat} {port : Nat} {o : List Reply}
    (h : outputAction s ip port = .ok (s', o)) : s'.table = s.table := by
  unfold outputAction at h
  split at h
  · cases ip with
    | none => cases h
    | some p => exact lookupPacket_table h
  · exact outputPacket_table h

theorem processActions_table (xid : Nat) (ip : Option Nat) (acts : List Act) {s s' : SwitchState} {o : List Reply}
    (h : processActions xid ip s acts = .ok (s', o)) : s'.table = s.table := by
  induction acts generalizing s o with
  | nil =>
    simp only [processActions] at h
    injection h with h; injection h with h1 _; subst h1; rfl
  | cons a rest ih =>
    unfold processActions at h
    cases hl : actionTable.lookup a.ty with
    | none =>
      rw [hl] at h; simp only at h
      injection h with h; injection h with h1 _; subst h1; rfl
    | some ah =>
      rw [hl] at h
      cases ah with
      | output =>
        simp only at h
        cases ho : outputAction s ip a.port with
        | error e => rw [ho] at h; cases h
        | ok r1 =>
          obtain ⟨s1, o1⟩ := r1
          rw [ho] at h; simp only at h
          cases hp : processActions xid ip s1 rest with
          | error e => rw [hp] at h; cases h
          | ok r2 =>
            obtain ⟨s2, o2⟩ := r2
            rw [hp] at h; simp only at h
            injection h with h; injection h with h1 _; subst h1
            rw [ih hp, outputAction_table ho]
      | enqueue => simp only at h; cases h
      | setVlanVid => exact ih h
      | setVlanPcp => exact ih h
      | stripVlan => exact ih h
      | setDlSrc => exact ih h
      | setDlDst => exact ih h
      | setNwSrc => exact ih h
      | setNwDst => exact ih h
      | setNwTos => exact ih h
      | setTpSrc => exact ih h
      | setTpDst => exact ih h

theorem processFromBuffer_table (xid : Nat) (ip : Option Nat) (acts : List Act) (id : Nat) {s s' : SwitchState} {o : List Reply}
    (h : processFromBuffer xid ip s acts id = .ok (s', o)) : s'.table = s.table := by
  unfold processFromBuffer at h
  split at h
  · injection h with h; injection h with h1 _; subst h1; rfl
  split at h
  · split at h
    · cases hp : processActions xid ip s acts with
      | error e => rw [hp] at h; cases h
      | ok r =>
        obtain ⟨s1, o1⟩ := r
        rw [hp] at h; simp only at h
        injection h with h; injection h with h1 _; subst h1
        have h2 : s1.table = s.table := processActions_table xid ip acts hp
        exact h2
    · injection h with h; injection h with h1 _; subst h1; rfl
  · injection h with h; injection h with h1 _; subst h1; rfl

theorem rxPacketOut_table {s s' : SwitchState} {xid : Nat} {b : Option Nat} {d : Bool} {p : Nat} {acts : List Act} {o : List Reply}
    (h : rxPacketOut s xid b d p acts = .ok (s', o)) : s'.table = s.table := by
  unfold rxPacketOut at h
  split at h
  · exact processActions_table xid (some p) acts h
  · cases b with
    | none => simp only at h; injection h with h; injection h with h1 _; subst h1; rfl
    | some id => exact processFromBuffer_table xid (some p) acts id h


/-! #### every table entry can be reported: its `ofp_flow_stats` encoding fits into one message part -/

def FlowsFit (s : SwitchState) : Prop := ∀ f ∈ s.table, flowEntryLen f ≤ partLimit

theorem mem_addEntry {e x : Flow} {t : List Flow} (h : x ∈ addEntry e t) : x = e ∨ x ∈ t := by
  induction t with
  | nil => simp only [addEntry, List.mem_singleton] at h; exact .inl h
  | cons y r ih =>
    unfold addEntry at h
    split at h
    · rcases List.mem_cons.mp h with h1 | h1
      · exact .inl h1
      · exact .inr h1
    · rcases List.mem_cons.mp h with h1 | h1
      · exact .inr (h1 ▸ List.mem_cons_self)
      · rcases ih h1 with h2 | h2
        · exact .inl h2
        · exact .inr (List.mem_cons_of_mem _ h2)

theorem runFlowMod_fit (h : FlowModH) (s : SwitchState) (xid command : Nat) (mk : MKey) (prio cookie flags idle hard outPort : Nat)
    (acts : List Act) (ha : 88 + actsLenOf acts ≤ partLimit) (hs : FlowsFit s) :
    FlowsFit (runFlowMod h s xid command mk prio cookie flags idle hard outPort acts).1 := by
  have htfa : ∀ x ∈ tableForAdd command s.table mk prio, flowEntryLen x ≤ partLimit := by
    intro x hx
    unfold tableForAdd at hx
    split at hx
    · exact hs x ((List.mem_filter.mp hx).1)
    · exact hs x hx
  have hadd : FlowsFit (flowModAdd s xid command mk prio cookie flags idle hard acts).1 := by
    unfold flowModAdd
    repeat' (first | split | dsimp only)
    all_goals first
      | exact hs
      | (intro x hx; exact htfa x hx)
      | (intro x hx
         rcases mem_addEntry hx with rfl | h2
         · exact ha
         · exact htfa x h2)
  have hmod : ∀ st, FlowsFit (flowModModify st s xid command mk prio cookie flags idle hard acts).1 := by
    intro st
    unfold flowModModify
    split
    · intro x hx
      simp only [List.mem_map] at hx
      obtain ⟨e, he, rfl⟩ := hx
      split
      · exact ha
      · exact hs e he
    · exact hadd
  have hdel : ∀ st, FlowsFit (flowModDelete st s mk prio outPort).1 := by
    intro st x hx
    simp only [flowModDelete] at hx
    exact hs x ((List.mem_filter.mp hx).1)
  cases h with
  | add => exact hadd
  | modify => exact hmod false
  | modifyStrict => exact hmod true
  | delete => exact hdel false
  | deleteStrict => exact hdel true

theorem rxFlowModBody_fit {s s' : SwitchState} {xid command : Nat} {mk : MKey} {prio cookie flags idle hard outPort : Nat}
    {b : Option Nat} {acts : List Act} {o : List Reply} (ha : 88 + actsLenOf acts ≤ partLimit) (hs : FlowsFit s)
    (h : rxFlowModBody s xid command mk prio cookie flags idle hard outPort b acts = .ok (s', o)) : FlowsFit s' := by
  unfold rxFlowModBody at h
  cases hl : flowModTable.lookup command with
  | none => rw [hl] at h; simp only at h; injection h with h; injection h with h1 _; subst h1; exact hs
  | some hd =>
    rw [hl] at h; simp only at h
    have hf := runFlowMod_fit hd s xid command mk prio cookie flags idle hard outPort acts ha hs
    cases b with
    | none =>
      simp only at h
      injection h with h
      rw [h] at hf
      exact hf
    | some id =>
      simp only at h
      cases hp : processFromBuffer xid none (runFlowMod hd s xid command mk prio cookie flags idle hard outPort acts).1 acts id with
      | error e => rw [hp] at h; cases h
      | ok r =>
        obtain ⟨s2, o2⟩ := r
        rw [hp] at h; simp only at h
        injection h with h; injection h with h1 _; subst h1
        intro x hx
        rw [processFromBuffer_table xid none acts id hp] at hx
        exact hf x hx

theorem rxPortMod_table (s : SwitchState) (xid portNo hw config mask : Nat) :
    (rxPortMod s xid portNo hw config mask).1.table = s.table := by
  unfold rxPortMod
  repeat' (first | split | dsimp only)
  all_goals rfl

theorem rxHello_table (s : SwitchState) : (rxHello s).1.table = s.table := by
  unfold rxHello; split <;> rfl

/-! #### the action pre-check in front of the flow-mod handlers -/

theorem rxFlowMod_ok (s : SwitchState) (xid command : Nat) (mk : MKey) (prio cookie flags idle hard outPort : Nat)
    (b : Option Nat) (acts : List Act) (hs : actsInScope acts) :
    ∃ s' o, rxFlowMod s xid command mk prio cookie flags idle hard outPort b acts = .ok (s', o) ∧ ∀ r ∈ o, ReplyOK xid r := by
  unfold rxFlowMod
  split
  · refine ⟨s, _, rfl, ?_⟩
    intro r hr
    simp only [List.mem_singleton] at hr
    exact .inr ⟨_, _, hr⟩
  split
  · refine ⟨s, _, rfl, ?_⟩
    intro r hr
    simp only [List.mem_singleton] at hr
    exact .inr ⟨_, _, hr⟩
  · exact rxFlowModBody_ok s xid command mk prio cookie flags idle hard outPort b acts hs

theorem rxFlowMod_fixed {s s' : SwitchState} {xid command : Nat} {mk : MKey} {prio cookie flags idle hard outPort : Nat}
    {b : Option Nat} {acts : List Act} {o : List Reply}
    (h : rxFlowMod s xid command mk prio cookie flags idle hard outPort b acts = .ok (s', o)) : fixedOf s' = fixedOf s := by
  unfold rxFlowMod at h
  split at h
  · injection h with h; injection h with h1 _; subst h1; rfl
  split at h
  · injection h with h; injection h with h1 _; subst h1; rfl
  · exact rxFlowModBody_fixed h

/-- the handlers that install or rewrite action lists are registered under the commands the pre-checks look at -/
theorem flowModTable_installing {c : Nat} {h : FlowModH} (hl : flowModTable.lookup c = some h) :
    h = .delete ∨ h = .deleteStrict ∨ (c == OFPFC_ADD || c == OFPFC_MODIFY || c == OFPFC_MODIFY_STRICT) = true := by
  have := lookup_mem hl
  simp [flowModTable] at this
  rcases this with ⟨rfl, rfl⟩ | ⟨rfl, rfl⟩ | ⟨rfl, rfl⟩ | ⟨rfl, rfl⟩ | ⟨rfl, rfl⟩
  · exact .inr (.inr rfl)
  · exact .inr (.inr rfl)
  · exact .inr (.inr rfl)
  · exact .inl rfl
  · exact .inr (.inl rfl)

/-- thanks to the TOO_MANY pre-check every table a flow_mod leaves behind can be reported, whatever the flow_mod -/
theorem rxFlowMod_fit {s s' : SwitchState} {xid command : Nat} {mk : MKey} {prio cookie flags idle hard outPort : Nat}
    {b : Option Nat} {acts : List Act} {o : List Reply} (hs : FlowsFit s)
    (h : rxFlowMod s xid command mk prio cookie flags idle hard outPort b acts = .ok (s', o)) : FlowsFit s' := by
  unfold rxFlowMod at h
  split at h
  · injection h with h; injection h with h1 _; subst h1; exact hs
  split at h
  · injection h with h; injection h with h1 _; subst h1; exact hs
  · rename_i _ htm
    -- either the command installs nothing, or the entry it installs fits
    unfold rxFlowModBody at h
    cases hl : flowModTable.lookup command with
    | none => rw [hl] at h; simp only at h; injection h with h; injection h with h1 _; subst h1; exact hs
    | some hd =>
      have hfit : FlowsFit (runFlowMod hd s xid command mk prio cookie flags idle hard outPort acts).1 := by
        rcases flowModTable_installing hl with hdel | hdel | hcmd
        · subst hdel; intro x hx; exact hs x (List.mem_filter.mp hx).1
        · subst hdel; intro x hx; exact hs x (List.mem_filter.mp hx).1
        · have ha : 88 + actsLenOf acts ≤ partLimit := by
            unfold tooManyActions at htm
            rw [hcmd] at htm
            simp only [Bool.true_and, decide_eq_true_eq] at htm
            omega
          exact runFlowMod_fit hd s xid command mk prio cookie flags idle hard outPort acts ha hs
      rw [hl] at h; simp only at h
      cases b with
      | none =>
        simp only at h
        injection h with h
        rw [h] at hfit
        exact hfit
      | some id =>
        simp only at h
        cases hp : processFromBuffer xid none (runFlowMod hd s xid command mk prio cookie flags idle hard outPort acts).1 acts id with
        | error e => rw [hp] at h; cases h
        | ok r =>
          obtain ⟨s2, o2⟩ := r
          rw [hp] at h; simp only at h
          injection h with h; injection h with h1 _; subst h1
          intro x hx
          rw [processFromBuffer_table xid none acts id hp] at hx
          exact hfit x hx

theorem tooMany_false {command : Nat} {acts : List Act} (h : 88 + actsLenOf acts ≤ 65523) : tooManyActions command acts = false := by
  unfold tooManyActions
  have : decide (88 + actsLenOf acts > partLimit) = false := by
    have e : partLimit = 65523 := rfl
    simp only [decide_eq_false_iff_not]; omega
  rw [this]; simp

/-- with every action type supported the pre-check passes -/
theorem badActions_false {command : Nat} {acts : List Act} (hk : ∀ a ∈ acts, (actionTable.lookup a.ty).isSome = true) :
    badActions command acts = false := by
  unfold badActions
  have : (acts.any fun a => (actionTable.lookup a.ty).isNone) = false := by
    rw [List.any_eq_false]
    intro a ha
    have := hk a ha
    cases hl : actionTable.lookup a.ty with
    | none => rw [hl] at this; cases this
    | some _ => simp
  rw [this]; simp

end Pox.SwitchReq

/-! ### the table counters: every packet that reaches the flow table is counted, whichever way it came -/
namespace Pox.SwitchReq
open Pox.Generated.SwitchDispatch

/-- the two counters an OFPST_TABLE reply reports are where they were -/
def CtrSame (s s' : SwitchState) : Prop := s'.lookupCount = s.lookupCount ∧ s'.matchedCount = s.matchedCount

theorem CtrSame.refl (s : SwitchState) : CtrSame s s := ⟨rfl, rfl⟩

theorem CtrSame.trans {a b c : SwitchState} (h1 : CtrSame a b) (h2 : CtrSame b c) : CtrSame a c :=
  ⟨h2.1.trans h1.1, h2.2.trans h1.2⟩

theorem bufferPacket_ctr (s : SwitchState) : CtrSame s (bufferPacket s).1 := by
  unfold bufferPacket
  repeat' (first | split | dsimp only)
  all_goals exact ⟨rfl, rfl⟩

theorem outputPacket_ctr {s s' : SwitchState} {port : Nat} {o : List Reply} (h : outputPacket s port = .ok (s', o)) :
    CtrSame s s' := by
  unfold outputPacket at h
  repeat' split at h
  all_goals first
    | (injection h with h; injection h with h1 _; subst h1; first | exact ⟨rfl, rfl⟩ | exact bufferPacket_ctr s)
    | (cases h)

theorem runOuts_ctr {outs : List Nat} {s s' : SwitchState} {o : List Reply} (h : runOuts s outs = .ok (s', o)) :
    CtrSame s s' := by
  induction outs generalizing s o with
  | nil => simp only [runOuts] at h; injection h with h; injection h with h1 _; subst h1; exact ⟨rfl, rfl⟩
  | cons p r ih =>
    unfold runOuts at h
    cases ho : outputPacket s p with
    | error e => rw [ho] at h; cases h
    | ok r1 =>
      obtain ⟨s1, o1⟩ := r1
      rw [ho] at h; simp only at h
      cases hp : runOuts s1 r with
      | error e => rw [hp] at h; cases h
      | ok r2 =>
        obtain ⟨s2, o2⟩ := r2
        rw [hp] at h; simp only at h
        injection h with h; injection h with h1 _; subst h1
        exact (outputPacket_ctr ho).trans (ih hp)

/-- a packet that came in on port `p` (`none`: in_port not known to the model) matches some entry -/
def hitOf (s : SwitchState) : Option Nat → Bool
  | some p => s.table.any (hitsPort p)
  | none => false

/-- one lookup: `lookup_count` moves by one, `matched_count` by one exactly when an entry matches -/
theorem lookupPacket_ctr {s s' : SwitchState} {p : Nat} {o : List Reply} (h : lookupPacket s p = .ok (s', o)) :
    s'.lookupCount = s.lookupCount + 1 ∧ s'.matchedCount = s.matchedCount + (if hitOf s (some p) = true then 1 else 0) := by
  unfold lookupPacket at h
  split at h
  · rename_i e he
    have hany : hitOf s (some p) = true :=
      List.any_eq_true.mpr ⟨e, List.mem_of_find?_eq_some he, List.find?_some he⟩
    obtain ⟨a1, a2⟩ := runOuts_ctr h
    rw [if_pos hany]; exact ⟨a1, a2⟩
  · rename_i he
    have hany : ¬ hitOf s (some p) = true := by
      intro hh
      obtain ⟨x, hx, hx2⟩ := List.any_eq_true.mp hh
      have := List.find?_eq_none.mp he x hx
      exact this hx2
    rw [if_neg hany]
    split at h
    · injection h with h; injection h with h1 _; subst h1; exact ⟨rfl, rfl⟩
    · injection h with h; injection h with h1 _; subst h1
      exact bufferPacket_ctr { s with lookupCount := s.lookupCount + 1 }

theorem outputAction_ctr {s s' : SwitchState} {ip : Option Nat} {port : Nat} {o : List Reply}
    (h : outputAction s ip port = .ok (s', o)) :
    s'.lookupCount = s.lookupCount + (if port = OFPP_TABLE then 1 else 0) ∧
    s'.matchedCount = s.matchedCount + (if port = OFPP_TABLE ∧ hitOf s ip = true then 1 else 0) := by
  unfold outputAction at h
  split at h
  · rename_i hp
    cases ip with
    | none => cases h
    | some p =>
      obtain ⟨a1, a2⟩ := lookupPacket_ctr h
      rw [if_pos hp]
      refine ⟨a1, ?_⟩
      by_cases hh : hitOf s (some p) = true
      · rw [if_pos ⟨hp, hh⟩]; rw [if_pos hh] at a2; exact a2
      · rw [if_neg (fun c => hh c.2)]; rw [if_neg hh] at a2; exact a2
  · rename_i hp
    obtain ⟨a1, a2⟩ := outputPacket_ctr h
    rw [if_neg hp, if_neg (fun c => hp c.1)]
    exact ⟨a1, a2⟩

/-- the packets an action list submits to the flow table: its `output:TABLE` actions in front of the first action whose
type has no handler (processing stops there) -/
def submits : List Act → Nat
  | [] => 0
  | a :: r =>
    match actionTable.lookup a.ty with
    | none => 0
    | some .output => (if a.port = OFPP_TABLE then 1 else 0) + submits r
    | some _ => submits r

/-- processing an action list moves the table counters by exactly the packets it submits to the table -/
theorem processActions_ctr (xid : Nat) (ip : Option Nat) (acts : List Act) {s s' : SwitchState} {o : List Reply}
    (h : processActions xid ip s acts = .ok (s', o)) :
    s'.lookupCount = s.lookupCount + submits acts ∧
    s'.matchedCount = s.matchedCount + (if hitOf s ip = true then submits acts else 0) := by
  induction acts generalizing s o with
  | nil =>
    simp only [processActions] at h
    injection h with h; injection h with h1 _; subst h1
    simp [submits]
  | cons a rest ih =>
    unfold processActions at h
    unfold submits
    cases hl : actionTable.lookup a.ty with
    | none =>
      rw [hl] at h; simp only at h
      injection h with h; injection h with h1 _; subst h1
      simp
    | some ah =>
      rw [hl] at h
      cases ah with
      | output =>
        simp only at h
        cases ho : outputAction s ip a.port with
        | error e => rw [ho] at h; cases h
        | ok r1 =>
          obtain ⟨s1, o1⟩ := r1
          rw [ho] at h; simp only at h
          cases hp : processActions xid ip s1 rest with
          | error e => rw [hp] at h; cases h
          | ok r2 =>
            obtain ⟨s2, o2⟩ := r2
            rw [hp] at h; simp only at h
            injection h with h; injection h with h1 _; subst h1
            obtain ⟨a1, a2⟩ := outputAction_ctr ho
            obtain ⟨b1, b2⟩ := ih hp
            have ht : hitOf s1 ip = hitOf s ip := by
              cases ip with
              | none => rfl
              | some p => simp only [hitOf, outputAction_table ho]
            rw [ht] at b2
            simp only
            by_cases hh : hitOf s ip = true
            · rw [if_pos hh] at b2 ⊢
              by_cases hp' : a.port = OFPP_TABLE
              · rw [if_pos hp'] at a1 ⊢; rw [if_pos ⟨hp', hh⟩] at a2; omega
              · rw [if_neg hp'] at a1 ⊢; rw [if_neg (fun c => hp' c.1)] at a2; omega
            · rw [if_neg hh] at b2 ⊢
              rw [if_neg (fun c => hh c.2)] at a2
              by_cases hp' : a.port = OFPP_TABLE
              · rw [if_pos hp'] at a1 ⊢; omega
              · rw [if_neg hp'] at a1 ⊢; omega
      | enqueue => simp only at h; cases h
      | setVlanVid => exact ih h
      | setVlanPcp => exact ih h
      | stripVlan => exact ih h
      | setDlSrc => exact ih h
      | setDlDst => exact ih h
      | setNwSrc => exact ih h
      | setNwDst => exact ih h
      | setNwTos => exact ih h
      | setTpSrc => exact ih h
      | setTpDst => exact ih h

/-- the actions of a packet_out are carried out: it brings the packet itself, or names a stored one -/
def executes (s : SwitchState) (b : Option Nat) (d : Bool) : Bool :=
  d || (match b with | some id => bufferLive s id | none => false)

theorem processFromBuffer_ctr (xid : Nat) (ip : Option Nat) (acts : List Act) (id : Nat) {s s' : SwitchState} {o : List Reply}
    (h : processFromBuffer xid ip s acts id = .ok (s', o)) :
    s'.lookupCount = s.lookupCount + (if bufferLive s id = true then submits acts else 0) ∧
    s'.matchedCount = s.matchedCount + (if bufferLive s id = true ∧ hitOf s ip = true then submits acts else 0) := by
  unfold processFromBuffer at h
  by_cases h0 : id = 0
  · rw [if_pos h0] at h
    injection h with h; injection h with h1 _; subst h1
    have hd : ¬ bufferLive s id = true := by simp [bufferLive, h0]
    rw [if_neg hd, if_neg (fun c => hd c.1)]; exact ⟨rfl, rfl⟩
  · rw [if_neg h0] at h
    by_cases hlt : id - 1 < s.buffers.length
    · rw [dif_pos hlt] at h
      by_cases hb : s.buffers[id - 1] = true
      · rw [if_pos hb] at h
        have hl : bufferLive s id = true := by
          simp [bufferLive, List.getD_eq_getElem?_getD, List.getElem?_eq_getElem hlt, hb, h0]
        cases hp : processActions xid ip s acts with
        | error e => rw [hp] at h; cases h
        | ok r =>
          obtain ⟨s1, o1⟩ := r
          rw [hp] at h; simp only at h
          injection h with h; injection h with h1 _; subst h1
          obtain ⟨a1, a2⟩ := processActions_ctr xid ip acts hp
          rw [if_pos hl]
          refine ⟨a1, ?_⟩
          by_cases hh : hitOf s ip = true
          · rw [if_pos ⟨hl, hh⟩]; rw [if_pos hh] at a2; exact a2
          · rw [if_neg (fun c => hh c.2)]; rw [if_neg hh] at a2; exact a2
      · rw [if_neg hb] at h
        injection h with h; injection h with h1 _; subst h1
        have hf : s.buffers[id - 1] = false := by
          cases hh : s.buffers[id - 1] with
          | false => rfl
          | true => exact absurd hh hb
        have hd : ¬ bufferLive s id = true := by
          simp [bufferLive, List.getD_eq_getElem?_getD, List.getElem?_eq_getElem hlt, hf]
        rw [if_neg hd, if_neg (fun c => hd c.1)]; exact ⟨rfl, rfl⟩
    · rw [dif_neg hlt] at h
      injection h with h; injection h with h1 _; subst h1
      have hn : s.buffers[id - 1]? = none := List.getElem?_eq_none (by omega)
      have hd : ¬ bufferLive s id = true := by
        simp [bufferLive, List.getD_eq_getElem?_getD, hn]
      rw [if_neg hd, if_neg (fun c => hd c.1)]; exact ⟨rfl, rfl⟩

/-- a packet_out moves the table counters by exactly the packets its action list submits to the table — when its actions
are carried out at all -/
theorem rxPacketOut_ctr {s s' : SwitchState} {xid : Nat} {b : Option Nat} {d : Bool} {p : Nat} {acts : List Act} {o : List Reply}
    (h : rxPacketOut s xid b d p acts = .ok (s', o)) :
    s'.lookupCount = s.lookupCount + (if executes s b d = true then submits acts else 0) ∧
    s'.matchedCount = s.matchedCount + (if executes s b d = true ∧ hitOf s (some p) = true then submits acts else 0) := by
  unfold rxPacketOut at h
  cases d with
  | true =>
    rw [if_pos rfl] at h
    obtain ⟨a1, a2⟩ := processActions_ctr xid (some p) acts h
    have he : executes s b true = true := rfl
    rw [if_pos he]
    refine ⟨a1, ?_⟩
    by_cases hh : hitOf s (some p) = true
    · rw [if_pos ⟨he, hh⟩]; rw [if_pos hh] at a2; exact a2
    · rw [if_neg (fun c => hh c.2)]; rw [if_neg hh] at a2; exact a2
  | false =>
    rw [if_neg Bool.false_ne_true] at h
    cases b with
    | none =>
      simp only at h; injection h with h; injection h with h1 _; subst h1
      have he : ¬ executes s none false = true := by simp [executes]
      rw [if_neg he, if_neg (fun c => he c.1)]; exact ⟨rfl, rfl⟩
    | some id =>
      have e : executes s (some id) false = bufferLive s id := by simp [executes]
      rw [e]
      exact processFromBuffer_ctr xid (some p) acts id h

/-- without an in_port (a flow_mod's action list) nothing is submitted to the table: `output:TABLE` fails there -/
theorem processActions_none_ctr (xid : Nat) (acts : List Act) {s s' : SwitchState} {o : List Reply}
    (h : processActions xid none s acts = .ok (s', o)) : CtrSame s s' := by
  induction acts generalizing s o with
  | nil =>
    simp only [processActions] at h
    injection h with h; injection h with h1 _; subst h1; exact ⟨rfl, rfl⟩
  | cons a rest ih =>
    unfold processActions at h
    cases hl : actionTable.lookup a.ty with
    | none =>
      rw [hl] at h; simp only at h
      injection h with h; injection h with h1 _; subst h1; exact ⟨rfl, rfl⟩
    | some ah =>
      rw [hl] at h
      cases ah with
      | output =>
        simp only at h
        cases ho : outputAction s none a.port with
        | error e => rw [ho] at h; cases h
        | ok r1 =>
          obtain ⟨s1, o1⟩ := r1
          rw [ho] at h; simp only at h
          cases hp : processActions xid none s1 rest with
          | error e => rw [hp] at h; cases h
          | ok r2 =>
            obtain ⟨s2, o2⟩ := r2
            rw [hp] at h; simp only at h
            injection h with h; injection h with h1 _; subst h1
            have c1 : CtrSame s s1 := by
              unfold outputAction at ho
              split at ho
              · cases ho
              · exact outputPacket_ctr ho
            exact c1.trans (ih hp)
      | enqueue => simp only at h; cases h
      | setVlanVid => exact ih h
      | setVlanPcp => exact ih h
      | stripVlan => exact ih h
      | setDlSrc => exact ih h
      | setDlDst => exact ih h
      | setNwSrc => exact ih h
      | setNwDst => exact ih h
      | setNwTos => exact ih h
      | setTpSrc => exact ih h
      | setTpDst => exact ih h

theorem processFromBuffer_none_ctr (xid : Nat) (acts : List Act) (id : Nat) {s s' : SwitchState} {o : List Reply}
    (h : processFromBuffer xid none s acts id = .ok (s', o)) : CtrSame s s' := by
  unfold processFromBuffer at h
  split at h
  · injection h with h; injection h with h1 _; subst h1; exact ⟨rfl, rfl⟩
  split at h
  · split at h
    · cases hp : processActions xid none s acts with
      | error e => rw [hp] at h; cases h
      | ok r =>
        obtain ⟨s1, o1⟩ := r
        rw [hp] at h; simp only at h
        injection h with h; injection h with h1 _; subst h1
        have c := processActions_none_ctr xid acts hp
        exact ⟨c.1, c.2⟩
    · injection h with h; injection h with h1 _; subst h1; exact ⟨rfl, rfl⟩
  · injection h with h; injection h with h1 _; subst h1; exact ⟨rfl, rfl⟩

theorem runFlowMod_ctr (h : FlowModH) (s : SwitchState) (xid command : Nat) (mk : MKey) (prio cookie flags idle hard outPort : Nat)
    (acts : List Act) : CtrSame s (runFlowMod h s xid command mk prio cookie flags idle hard outPort acts).1 := by
  have hadd : CtrSame s (flowModAdd s xid command mk prio cookie flags idle hard acts).1 := by
    unfold flowModAdd
    repeat' (first | split | dsimp only)
    all_goals exact ⟨rfl, rfl⟩
  have hmod : ∀ st, CtrSame s (flowModModify st s xid command mk prio cookie flags idle hard acts).1 := by
    intro st
    unfold flowModModify
    split
    · exact ⟨rfl, rfl⟩
    · exact hadd
  cases h with
  | add => exact hadd
  | modify => exact hmod false
  | modifyStrict => exact hmod true
  | delete => exact ⟨rfl, rfl⟩
  | deleteStrict => exact ⟨rfl, rfl⟩

/-- a flow_mod never moves the table counters: applying its actions to a buffered packet is no table lookup (and an
`output:TABLE` in its action list is outside the model) -/
theorem rxFlowMod_ctr {s s' : SwitchState} {xid command : Nat} {mk : MKey} {prio cookie flags idle hard outPort : Nat}
    {b : Option Nat} {acts : List Act} {o : List Reply}
    (h : rxFlowMod s xid command mk prio cookie flags idle hard outPort b acts = .ok (s', o)) : CtrSame s s' := by
  unfold rxFlowMod at h
  split at h
  · injection h with h; injection h with h1 _; subst h1; exact ⟨rfl, rfl⟩
  split at h
  · injection h with h; injection h with h1 _; subst h1; exact ⟨rfl, rfl⟩
  · unfold rxFlowModBody at h
    cases hl : flowModTable.lookup command with
    | none => rw [hl] at h; simp only at h; injection h with h; injection h with h1 _; subst h1; exact ⟨rfl, rfl⟩
    | some hd =>
      rw [hl] at h; simp only at h
      have h2 := runFlowMod_ctr hd s xid command mk prio cookie flags idle hard outPort acts
      cases b with
      | none =>
        simp only at h
        injection h with h
        rw [h] at h2
        exact h2
      | some id =>
        simp only at h
        cases hp : processFromBuffer xid none (runFlowMod hd s xid command mk prio cookie flags idle hard outPort acts).1 acts id with
        | error e => rw [hp] at h; cases h
        | ok r =>
          obtain ⟨s2, o2⟩ := r
          rw [hp] at h; simp only at h
          injection h with h; injection h with h1 _; subst h1
          exact h2.trans (processFromBuffer_none_ctr xid acts id hp)

theorem rxPortMod_ctr (s : SwitchState) (xid portNo hw config mask : Nat) : CtrSame s (rxPortMod s xid portNo hw config mask).1 := by
  unfold rxPortMod
  repeat' (first | split | dsimp only)
  all_goals exact ⟨rfl, rfl⟩

theorem rxHello_ctr (s : SwitchState) : CtrSame s (rxHello s).1 := by
  unfold rxHello; split <;> exact ⟨rfl, rfl⟩

/-! ### no table entry re-submits the packets it hits (`output:TABLE` among its actions): then a lookup always ends -/

def NoResubmit (s : SwitchState) : Prop := ∀ f ∈ s.table, OFPP_TABLE ∉ f.outs

theorem outsOf_inScope {acts : List Act} (h : actsInScope acts) : OFPP_TABLE ∉ outsOf acts := by
  intro hm
  unfold outsOf at hm
  obtain ⟨a, ha, e⟩ := List.mem_map.mp hm
  have ha' := List.mem_filter.mp ha
  have h0 : a.ty = 0 := by simpa using ha'.2
  exact (h a ha'.1).2 ⟨h0, e⟩

theorem runFlowMod_noresubmit (h : FlowModH) (s : SwitchState) (xid command : Nat) (mk : MKey) (prio cookie flags idle hard outPort : Nat)
    (acts : List Act) (ha : OFPP_TABLE ∉ outsOf acts) (hs : NoResubmit s) :
    NoResubmit (runFlowMod h s xid command mk prio cookie flags idle hard outPort acts).1 := by
  have htfa : ∀ x ∈ tableForAdd command s.table mk prio, OFPP_TABLE ∉ x.outs := by
    intro x hx
    unfold tableForAdd at hx
    split at hx
    · exact hs x ((List.mem_filter.mp hx).1)
    · exact hs x hx
  have hadd : NoResubmit (flowModAdd s xid command mk prio cookie flags idle hard acts).1 := by
    unfold flowModAdd
    repeat' (first | split | dsimp only)
    all_goals first
      | exact hs
      | (intro x hx; exact htfa x hx)
      | (intro x hx
         rcases mem_addEntry hx with rfl | h2
         · exact ha
         · exact htfa x h2)
  have hmod : ∀ st, NoResubmit (flowModModify st s xid command mk prio cookie flags idle hard acts).1 := by
    intro st
    unfold flowModModify
    split
    · intro x hx
      simp only [List.mem_map] at hx
      obtain ⟨e, he, rfl⟩ := hx
      split
      · exact ha
      · exact hs e he
    · exact hadd
  have hdel : ∀ st, NoResubmit (flowModDelete st s mk prio outPort).1 := by
    intro st x hx
    simp only [flowModDelete] at hx
    exact hs x ((List.mem_filter.mp hx).1)
  cases h with
  | add => exact hadd
  | modify => exact hmod false
  | modifyStrict => exact hmod true
  | delete => exact hdel false
  | deleteStrict => exact hdel true

theorem rxFlowMod_noresubmit {s s' : SwitchState} {xid command : Nat} {mk : MKey} {prio cookie flags idle hard outPort : Nat}
    {b : Option Nat} {acts : List Act} {o : List Reply} (hs : NoResubmit s) (hsc : actsInScope acts)
    (h : rxFlowMod s xid command mk prio cookie flags idle hard outPort b acts = .ok (s', o)) : NoResubmit s' := by
  unfold rxFlowMod at h
  split at h
  · injection h with h; injection h with h1 _; subst h1; exact hs
  split at h
  · injection h with h; injection h with h1 _; subst h1; exact hs
  · unfold rxFlowModBody at h
    cases hl : flowModTable.lookup command with
    | none => rw [hl] at h; simp only at h; injection h with h; injection h with h1 _; subst h1; exact hs
    | some hd =>
      have hf := runFlowMod_noresubmit hd s xid command mk prio cookie flags idle hard outPort acts (outsOf_inScope hsc) hs
      rw [hl] at h; simp only at h
      cases b with
      | none =>
        simp only at h
        injection h with h
        rw [h] at hf
        exact hf
      | some id =>
        simp only at h
        cases hp : processFromBuffer xid none (runFlowMod hd s xid command mk prio cookie flags idle hard outPort acts).1 acts id with
        | error e => rw [hp] at h; cases h
        | ok r =>
          obtain ⟨s2, o2⟩ := r
          rw [hp] at h; simp only at h
          injection h with h; injection h with h1 _; subst h1
          intro x hx
          rw [processFromBuffer_table xid none acts id hp] at hx
          exact hf x hx

theorem runOuts_ok (outs : List Nat) (h : OFPP_TABLE ∉ outs) (s : SwitchState) :
    ∃ s' o, runOuts s outs = .ok (s', o) ∧ ∀ r ∈ o, r.isAsync = true := by
  induction outs generalizing s with
  | nil => exact ⟨s, [], rfl, by simp⟩
  | cons p r ih =>
    obtain ⟨s1, o1, e1, a1⟩ := outputPacket_ok s p (fun hp => h (hp ▸ List.mem_cons_self))
    obtain ⟨s2, o2, e2, a2⟩ := ih (fun hm => h (List.mem_cons_of_mem _ hm)) s1
    refine ⟨s2, o1 ++ o2, by simp only [runOuts, e1, e2], ?_⟩
    intro x hx
    rcases List.mem_append.mp hx with h1 | h1
    · exact a1 x h1
    · exact a2 x h1

/-- with no re-submitting entry in the table a lookup never fails and writes only asynchronous messages (packet_in) -/
theorem lookupPacket_ok (s : SwitchState) (hs : NoResubmit s) (p : Nat) :
    ∃ s' o, lookupPacket s p = .ok (s', o) ∧ ∀ r ∈ o, r.isAsync = true := by
  unfold lookupPacket
  split
  · rename_i e he
    exact runOuts_ok e.outs (hs e (List.mem_of_find?_eq_some he)) _
  · split
    · exact ⟨_, [], rfl, by simp⟩
    · exact ⟨_, _, rfl, by simp [Reply.isAsync]⟩

theorem rxPacket_ok (s : SwitchState) (hs : NoResubmit s) (p : Nat) :
    ∃ s' o, rxPacket s p = .ok (s', o) ∧ ∀ r ∈ o, r.isAsync = true := by
  unfold rxPacket
  split
  · exact ⟨s, [], rfl, by simp⟩
  · split
    · exact ⟨s, [], rfl, by simp⟩
    · exact lookupPacket_ok s hs p

theorem rxPacket_table {s s' : SwitchState} {p : Nat} {o : List Reply} (h : rxPacket s p = .ok (s', o)) : s'.table = s.table := by
  unfold rxPacket at h
  split at h
  · injection h with h; injection h with h1 _; subst h1; rfl
  · split at h
    · injection h with h; injection h with h1 _; subst h1; rfl
    · exact lookupPacket_table h

/-- a frame from the data plane is looked up at most once, and counted as matched only if it was looked up -/
theorem rxPacket_ctr {s s' : SwitchState} {p : Nat} {o : List Reply} (h : rxPacket s p = .ok (s', o)) :
    CtrSame s s' ∨ (s'.lookupCount = s.lookupCount + 1 ∧ s'.matchedCount = s.matchedCount + (if hitOf s (some p) = true then 1 else 0)) := by
  unfold rxPacket at h
  split at h
  · injection h with h; injection h with h1 _; subst h1; exact .inl ⟨rfl, rfl⟩
  · split at h
    · injection h with h; injection h with h1 _; subst h1; exact .inl ⟨rfl, rfl⟩
    · exact .inr (lookupPacket_ctr h)

end Pox.SwitchReq
