import PoxModel.Proofs.MatchCanon
set_option linter.unusedSimpArgs false
/-! The match a flow-removed / flow-stats message carries: `match.pack()` of the un-wired match of a regular transmitted record
(`FlowMod.packPlain (ofWire e)`) denotes, for the standard, exactly the packets the record denotes (`packPlain_matchHdr`).  Core only. -/
namespace Pox.OF
open OfMatch Pox.FlowMod

theorem fok_congr {s s' : Bool} {a a' z : Nat} (h1 : s = s') (h2 : s' = true → a = a') : Spec.FOk s a z = Spec.FOk s' a' z := by
  subst h1; cases s
  · simp [Spec.FOk]
  · rw [h2 rfl]

theorem packPlain_wild (e : OfMatch) (hp : PrereqExact e) (f : Fld) :
    Spec.wild (packPlain (ofWire e)) f.bit = !Spec.significant e f.bit := by
  have := sig_agree e hp f
  show (ofWire e).wild f = _
  cases hw : (ofWire e).wild f <;> simp [hw] at this <;> simp [← this]

/-- the view of a field of the un-wired match -/
theorem view_getD (e : OfMatch) (hp : PrereqExact e) (f : Fld) :
    ((ofWire e).view f).getD 0 = if Spec.significant e f.bit = true then e.get f else 0 := by
  rw [ofWire_view e hp f]; split <;> rfl

theorem sig_dlType (e : OfMatch) : Spec.significant e 4 = !Spec.wild e 4 := by
  simp [Spec.significant, Spec.W_NW_TOS, Spec.W_NW_PROTO, Spec.W_TP_SRC, Spec.W_TP_DST]

theorem packPlain_dlType (e : OfMatch) (hp : PrereqExact e) :
    (packPlain (ofWire e)).dlType = if Spec.wild e 4 = true then 0 else e.dlType := by
  show ((ofWire e).view .dlType).getD 0 = _
  rw [view_getD e hp, show Fld.dlType.bit = 4 from rfl, sig_dlType]
  cases Spec.wild e 4 <;> rfl

theorem packPlain_dlTypeIs (e : OfMatch) (hp : PrereqExact e) (t : Nat) :
    Spec.dlTypeIs (packPlain (ofWire e)) t = Spec.dlTypeIs e t := by
  have hw := packPlain_wild e hp .dlType
  simp only [Fld.bit, sig_dlType, Bool.not_not] at hw
  unfold Spec.dlTypeIs
  rw [show Spec.W_DL_TYPE = 4 from rfl, hw, packPlain_dlType e hp]
  cases Spec.wild e 4 <;> simp

theorem packPlain_view_dlType (e : OfMatch) (hp : PrereqExact e) (t : Nat) :
    ((ofWire e).view .dlType == some t) = Spec.dlTypeIs e t := by
  rw [ofWire_view e hp, show Fld.dlType.bit = 4 from rfl, sig_dlType]
  unfold Spec.dlTypeIs
  rw [show Spec.W_DL_TYPE = 4 from rfl]
  cases Spec.wild e 4 <;> simp [OfMatch.get]

theorem sig_nwProto (e : OfMatch) : Spec.significant e 5 = (!Spec.wild e 5 && Spec.nwSpecified e) := by
  simp [Spec.significant, Spec.W_NW_TOS, Spec.W_NW_PROTO, Spec.W_TP_SRC, Spec.W_TP_DST]
theorem sig_tos (e : OfMatch) : Spec.significant e 21 = (!Spec.wild e 21 && Spec.ipSpecified e) := by
  simp [Spec.significant, Spec.W_NW_TOS, Spec.W_NW_PROTO, Spec.W_TP_SRC, Spec.W_TP_DST]
theorem sig_tp (e : OfMatch) (bit : Nat) (h : bit = 6 ∨ bit = 7) : Spec.significant e bit = (!Spec.wild e bit && Spec.tpSpecified e) := by
  rcases h with rfl | rfl <;> simp [Spec.significant, Spec.W_NW_TOS, Spec.W_NW_PROTO, Spec.W_TP_SRC, Spec.W_TP_DST]
theorem sig_plain (e : OfMatch) (bit : Nat) (h : bit ≠ 5 ∧ bit ≠ 21 ∧ bit ≠ 6 ∧ bit ≠ 7) : Spec.significant e bit = !Spec.wild e bit := by
  simp [Spec.significant, Spec.W_NW_TOS, Spec.W_NW_PROTO, Spec.W_TP_SRC, Spec.W_TP_DST, h.1, h.2.1, h.2.2.1, h.2.2.2]

/-- the three guards of `pack()` -/
theorem pack_ip (e : OfMatch) (hp : PrereqExact e) : ((ofWire e).view .dlType == some 0x0800) = Spec.ipSpecified e :=
  packPlain_view_dlType e hp _
theorem pack_ipArp (e : OfMatch) (hp : PrereqExact e) :
    ((ofWire e).view .dlType == some 0x0800 || (ofWire e).view .dlType == some 0x0806) = Spec.nwSpecified e := by
  rw [packPlain_view_dlType e hp, packPlain_view_dlType e hp]; rfl

theorem packPlain_nwProto (e : OfMatch) (hp : PrereqExact e) :
    (packPlain (ofWire e)).nwProto = if Spec.significant e 5 = true then e.nwProto else 0 := by
  show (if ((ofWire e).view .dlType == some 0x0800 || (ofWire e).view .dlType == some 0x0806) = true
        then ((ofWire e).view .nwProto).getD 0 else 0) = _
  rw [pack_ipArp e hp, view_getD e hp, show Fld.nwProto.bit = 5 from rfl, sig_nwProto]
  cases Spec.nwSpecified e <;> cases Spec.wild e 5 <;> rfl

theorem packPlain_ipSpecified (e : OfMatch) (hp : PrereqExact e) : Spec.ipSpecified (packPlain (ofWire e)) = Spec.ipSpecified e :=
  packPlain_dlTypeIs e hp _
theorem packPlain_nwSpecified (e : OfMatch) (hp : PrereqExact e) : Spec.nwSpecified (packPlain (ofWire e)) = Spec.nwSpecified e := by
  simp only [Spec.nwSpecified, packPlain_dlTypeIs e hp]

theorem nw_of_ip (e : OfMatch) (h : Spec.dlTypeIs e 0x0800 = true) : Spec.nwSpecified e = true := by
  simp [Spec.nwSpecified, h]

theorem packPlain_tpSpecified (e : OfMatch) (hp : PrereqExact e) : Spec.tpSpecified (packPlain (ofWire e)) = Spec.tpSpecified e := by
  have hw := packPlain_wild e hp .nwProto
  simp only [Fld.bit] at hw
  unfold Spec.tpSpecified
  rw [packPlain_dlTypeIs e hp, show Spec.W_NW_PROTO = 5 from rfl, hw, packPlain_nwProto e hp, sig_nwProto]
  cases hd : Spec.dlTypeIs e 0x0800
  · rfl
  · rw [nw_of_ip e hd]
    cases Spec.wild e 5 <;> simp


theorem packPlain_significant (e : OfMatch) (hp : PrereqExact e) (f : Fld) :
    Spec.significant (packPlain (ofWire e)) f.bit = Spec.significant e f.bit := by
  have hw := packPlain_wild e hp f
  have key : Spec.significant (packPlain (ofWire e)) f.bit =
      (!Spec.wild (packPlain (ofWire e)) f.bit &&
        (if f.bit = Spec.W_NW_TOS then Spec.ipSpecified e else if f.bit = Spec.W_NW_PROTO then Spec.nwSpecified e
         else if f.bit = Spec.W_TP_SRC ∨ f.bit = Spec.W_TP_DST then Spec.tpSpecified e else true)) := by
    unfold Spec.significant
    rw [packPlain_ipSpecified e hp, packPlain_nwSpecified e hp, packPlain_tpSpecified e hp]
  rw [key, hw]
  unfold Spec.significant
  cases Spec.wild e f.bit <;> simp

theorem packPlain_get (e : OfMatch) (hp : PrereqExact e) (f : Fld) (hs : Spec.significant e f.bit = true) :
    (packPlain (ofWire e)).get f = e.get f := by
  have hv := view_getD e hp
  have h5 : Spec.significant e 5 = true → ((ofWire e).view .nwProto) = some e.nwProto := by
    intro h; rw [ofWire_view e hp]; simp [Fld.bit, h, OfMatch.get]
  cases f
  case inPort => show ((ofWire e).view .inPort).getD 0 = _; rw [hv, if_pos hs]
  case dlVlan => show ((ofWire e).view .dlVlan).getD 0 = _; rw [hv, if_pos hs]
  case dlSrc => show ((ofWire e).view .dlSrc).getD 0 = _; rw [hv, if_pos hs]
  case dlDst => show ((ofWire e).view .dlDst).getD 0 = _; rw [hv, if_pos hs]
  case dlType => show ((ofWire e).view .dlType).getD 0 = _; rw [hv, if_pos hs]
  case dlVlanPcp => show ((ofWire e).view .dlVlanPcp).getD 0 = _; rw [hv, if_pos hs]
  case nwProto =>
    show (packPlain (ofWire e)).nwProto = _
    rw [packPlain_nwProto e hp, if_pos (show Spec.significant e 5 = true from hs)]; rfl
  case nwTos =>
    have hip : Spec.ipSpecified e = true := by
      have := hs; rw [show Fld.nwTos.bit = 21 from rfl, sig_tos] at this
      simp only [Bool.and_eq_true] at this; exact this.2
    show (if ((ofWire e).view .dlType == some 0x0800) = true then ((ofWire e).view .nwTos).getD 0 else 0) = _
    rw [pack_ip e hp, hip, if_pos rfl, hv, if_pos hs]
  case tpSrc =>
    have htp : Spec.tpSpecified e = true := by
      have := hs; rw [show Fld.tpSrc.bit = 6 from rfl, sig_tp e 6 (.inl rfl)] at this
      simp only [Bool.and_eq_true] at this; exact this.2
    have ⟨⟨hd, h5w⟩, hl⟩ : (Spec.dlTypeIs e 0x0800 = true ∧ Spec.wild e Spec.W_NW_PROTO = false) ∧ isL4Proto e.nwProto = true := by
      simpa [Spec.tpSpecified, isL4Proto] using htp
    have hs5 : Spec.significant e 5 = true := by rw [sig_nwProto, nw_of_ip e hd]; simpa [Spec.W_NW_PROTO] using h5w
    show (if (((ofWire e).view .dlType == some 0x0800) && (match (ofWire e).view .nwProto with | some p => isL4Proto p | none => false)) = true
          then ((ofWire e).view .tpSrc).getD 0 else 0) = _
    rw [pack_ip e hp, h5 hs5, show Spec.ipSpecified e = true from hd]
    simp only [hl, Bool.and_self, if_true]
    rw [hv, if_pos hs]
  case tpDst =>
    have htp : Spec.tpSpecified e = true := by
      have := hs; rw [show Fld.tpDst.bit = 7 from rfl, sig_tp e 7 (.inr rfl)] at this
      simp only [Bool.and_eq_true] at this; exact this.2
    have ⟨⟨hd, h5w⟩, hl⟩ : (Spec.dlTypeIs e 0x0800 = true ∧ Spec.wild e Spec.W_NW_PROTO = false) ∧ isL4Proto e.nwProto = true := by
      simpa [Spec.tpSpecified, isL4Proto] using htp
    have hs5 : Spec.significant e 5 = true := by rw [sig_nwProto, nw_of_ip e hd]; simpa [Spec.W_NW_PROTO] using h5w
    show (if (((ofWire e).view .dlType == some 0x0800) && (match (ofWire e).view .nwProto with | some p => isL4Proto p | none => false)) = true
          then ((ofWire e).view .tpDst).getD 0 else 0) = _
    rw [pack_ip e hp, h5 hs5, show Spec.ipSpecified e = true from hd]
    simp only [hl, Bool.and_self, if_true]
    rw [hv, if_pos hs]

theorem packPlain_srcIgn (e : OfMatch) (hp : PrereqExact e) : Spec.srcIgn (packPlain (ofWire e)) = Spec.srcIgn e := by
  have h1 : Spec.srcIgnored (packPlain (ofWire e)) = min 32 (Spec.srcIgn e) := by
    show min 32 ((ofWire e).wildcards / 2 ^ 8 % 64) = _
    rw [← srcCnt_div, srcIgn_agree e hp]
  unfold Spec.srcIgn at *
  rw [packPlain_nwSpecified e hp, h1]
  split
  · have := Spec.srcIgn_le e
    unfold Spec.srcIgn at this; simp only [*, if_true] at this ⊢; omega
  · rfl

theorem packPlain_dstIgn (e : OfMatch) (hp : PrereqExact e) : Spec.dstIgn (packPlain (ofWire e)) = Spec.dstIgn e := by
  have h1 : Spec.dstIgnored (packPlain (ofWire e)) = min 32 (Spec.dstIgn e) := by
    show min 32 ((ofWire e).wildcards / 2 ^ 14 % 64) = _
    rw [← dstCnt_div, dstIgn_agree e hp]
  unfold Spec.dstIgn at *
  rw [packPlain_nwSpecified e hp, h1]
  split
  · have := Spec.dstIgn_le e
    unfold Spec.dstIgn at this; simp only [*, if_true] at this ⊢; omega
  · rfl

theorem packPlain_nwSrc (e : OfMatch) (hp : PrereqExact e) (h : Spec.srcIgn e < 32) : (packPlain (ofWire e)).nwSrc = e.nwSrc := by
  have hnw : Spec.nwSpecified e = true := by
    cases hq : Spec.nwSpecified e
    · simp [Spec.srcIgn, hq] at h
    · rfl
  show (if ((ofWire e).view .dlType == some 0x0800 || (ofWire e).view .dlType == some 0x0806) = true
        then ((ofWire e).srcView.map (·.1)).getD 0 else 0) = _
  rw [pack_ipArp e hp, hnw, if_pos rfl]
  have : ¬ 32 ≤ Spec.srcIgn e := by omega
  simp only [srcView, srcIgn_agree e hp, nwView, this, if_false]
  rfl

theorem packPlain_nwDst (e : OfMatch) (hp : PrereqExact e) (h : Spec.dstIgn e < 32) : (packPlain (ofWire e)).nwDst = e.nwDst := by
  have hnw : Spec.nwSpecified e = true := by
    cases hq : Spec.nwSpecified e
    · simp [Spec.dstIgn, hq] at h
    · rfl
  show (if ((ofWire e).view .dlType == some 0x0800 || (ofWire e).view .dlType == some 0x0806) = true
        then ((ofWire e).dstView.map (·.1)).getD 0 else 0) = _
  rw [pack_ipArp e hp, hnw, if_pos rfl]
  have : ¬ 32 ≤ Spec.dstIgn e := by omega
  simp only [dstView, dstIgn_agree e hp, nwView, this, if_false]
  rfl

theorem prefixEq_congr {k a a' z : Nat} (h : k < 32 → a = a') : Spec.prefixEq k a z = Spec.prefixEq k a' z := by
  by_cases hk : k < 32
  · rw [h hk]
  · have : 32 ≤ k := by omega
    simp [Spec.prefixEq, this]

/-- **the match a message carries**: the 40 bytes `match.pack()` writes for the un-wired match of a regular record denote exactly
    the packets the record denotes -/
theorem packPlain_matchHdr (e : OfMatch) (hp : PrereqExact e) (h : Spec.Headers) :
    Spec.matchHdr (packPlain (ofWire e)) h = Spec.matchHdr e h := by
  rw [Spec.matchHdr_eq, Spec.matchHdr_eq, packPlain_srcIgn e hp, packPlain_dstIgn e hp]
  have S := packPlain_significant e hp
  have G := packPlain_get e hp
  have c0 : Spec.FOk (Spec.significant (packPlain (ofWire e)) Spec.W_IN_PORT) (packPlain (ofWire e)).inPort h.inPort = Spec.FOk (Spec.significant e Spec.W_IN_PORT) e.inPort h.inPort :=
    fok_congr (S .inPort) (G .inPort)
  have c1 : Spec.FOk (Spec.significant (packPlain (ofWire e)) Spec.W_DL_SRC) (packPlain (ofWire e)).dlSrc h.dlSrc = Spec.FOk (Spec.significant e Spec.W_DL_SRC) e.dlSrc h.dlSrc :=
    fok_congr (S .dlSrc) (G .dlSrc)
  have c2 : Spec.FOk (Spec.significant (packPlain (ofWire e)) Spec.W_DL_DST) (packPlain (ofWire e)).dlDst h.dlDst = Spec.FOk (Spec.significant e Spec.W_DL_DST) e.dlDst h.dlDst :=
    fok_congr (S .dlDst) (G .dlDst)
  have c3 : Spec.FOk (Spec.significant (packPlain (ofWire e)) Spec.W_DL_VLAN) (packPlain (ofWire e)).dlVlan h.dlVlan = Spec.FOk (Spec.significant e Spec.W_DL_VLAN) e.dlVlan h.dlVlan :=
    fok_congr (S .dlVlan) (G .dlVlan)
  have c4 : Spec.FOk (Spec.significant (packPlain (ofWire e)) Spec.W_DL_VLAN_PCP) (packPlain (ofWire e)).dlVlanPcp h.dlVlanPcp = Spec.FOk (Spec.significant e Spec.W_DL_VLAN_PCP) e.dlVlanPcp h.dlVlanPcp :=
    fok_congr (S .dlVlanPcp) (G .dlVlanPcp)
  have c5 : Spec.FOk (Spec.significant (packPlain (ofWire e)) Spec.W_DL_TYPE) (packPlain (ofWire e)).dlType h.dlType = Spec.FOk (Spec.significant e Spec.W_DL_TYPE) e.dlType h.dlType :=
    fok_congr (S .dlType) (G .dlType)
  have c6 : Spec.FOk (Spec.significant (packPlain (ofWire e)) Spec.W_NW_PROTO) (packPlain (ofWire e)).nwProto h.nwProto = Spec.FOk (Spec.significant e Spec.W_NW_PROTO) e.nwProto h.nwProto :=
    fok_congr (S .nwProto) (G .nwProto)
  have c7 : Spec.FOk (Spec.significant (packPlain (ofWire e)) Spec.W_TP_SRC) (packPlain (ofWire e)).tpSrc h.tpSrc = Spec.FOk (Spec.significant e Spec.W_TP_SRC) e.tpSrc h.tpSrc :=
    fok_congr (S .tpSrc) (G .tpSrc)
  have c8 : Spec.FOk (Spec.significant (packPlain (ofWire e)) Spec.W_TP_DST) (packPlain (ofWire e)).tpDst h.tpDst = Spec.FOk (Spec.significant e Spec.W_TP_DST) e.tpDst h.tpDst :=
    fok_congr (S .tpDst) (G .tpDst)
  have ct : Spec.FOk (Spec.significant (packPlain (ofWire e)) Spec.W_NW_TOS) ((packPlain (ofWire e)).nwTos / 4) (h.nwTos / 4) = Spec.FOk (Spec.significant e Spec.W_NW_TOS) (e.nwTos / 4) (h.nwTos / 4) :=
    fok_congr (S .nwTos) (fun hs => by rw [show (packPlain (ofWire e)).nwTos = e.nwTos from G .nwTos hs])
  rw [c0, c1, c2, c3, c4, c5, c6, c7, c8, ct, prefixEq_congr (packPlain_nwSrc e hp), prefixEq_congr (packPlain_nwDst e hp)]

/-- `pack()` reads a match through its views only -/
theorem SameViews.packPlain {a b : OfMatch} (h : SameViews a b) : packPlain a = packPlain b := by
  unfold FlowMod.packPlain
  simp only [h.w, h.view, h.srcView, h.dstView]

end Pox.OF
