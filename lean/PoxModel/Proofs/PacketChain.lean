import PoxModel.Proofs.TcpOpts
/-!
# Whole-chain round trip (C14 `roundtrip`, `repack_id`): for every well-formed header stack `p`
`parse (pack p)` is `p` with the computed fields filled in, and packing that again gives the same bytes.  Core only.
-/
namespace Pox.Packet
open Pox Pox.PktLayout Pox.Checksum

/-- which class a built object is (a bytes payload has none) -/
def kindOf : Pkt → Option Kind
  | .eth _ _ => some .eth | .vlan _ _ => some .vlan | .arp _ _ => some .arp | .ipv4 _ _ => some .ipv4
  | .udp _ _ => some .udp | .tcp _ _ => some .tcp | .icmp _ _ => some .icmp | .echo _ _ => some .echo
  | .unreach _ _ => some .unreach | .timeEx _ _ => some .timeEx
  | _ => none

/-- number of header objects in the chain -/
def depth : Pkt → Nat
  | .eth _ n | .vlan _ n | .arp _ n | .ipv4 _ n | .udp _ n | .tcp _ n | .icmp _ n | .echo _ n | .unreach _ n
  | .timeEx _ n => depth n + 1
  | _ => 0

/-- serialised length of a well-formed chain -/
def plen : Pkt → Nat
  | .raw b => b.length
  | .eth _ n => 14 + plen n
  | .vlan _ n => 4 + plen n
  | .arp _ n => 28 + plen n
  | .ipv4 h n => 4 * h.hl + plen n
  | .udp _ n => 8 + plen n
  | .tcp h n => 20 + (optsPadded h.opts).length + plen n
  | .icmp _ n => 4 + plen n
  | .echo _ n => 4 + plen n
  | .unreach _ n => 4 + plen n
  | .timeEx _ n => 4 + plen n
  | _ => 0

/-- the attributes `hdr` computes are forgotten (total length, checksums, UDP length, TCP data offset) -/
def strip : Pkt → Pkt
  | .eth h n => .eth h (strip n)
  | .vlan h n => .vlan h (strip n)
  | .arp h n => .arp h (strip n)
  | .ipv4 h n => .ipv4 { h with iplen := 0, csum := 0 } (strip n)
  | .udp h n => .udp { h with len := 0, csum := 0 } (strip n)
  | .tcp h n => .tcp { h with off := 0, csum := 0 } (strip n)
  | .icmp h n => .icmp { h with csum := 0 } (strip n)
  | .echo h n => .echo h (strip n)
  | .unreach h n => .unreach h (strip n)
  | .timeEx h n => .timeEx h (strip n)
  | p => p

/-- the EtherType / 802.1Q inner type selects the payload's class (ethernet.py:71-90, 123-130); an opaque payload
needs a type no parser is registered for and that is not an 802.3 length -/
def EthCompat (t : Nat) : Pkt → Prop
  | .vlan _ _ => t = 0x8100
  | .arp _ _ => t = 0x0806 ∨ t = 0x8035
  | .ipv4 _ _ => t = 0x0800
  | .raw _ => 1536 ≤ t ∧ t ≠ 0x8100 ∧ t ≠ 0x0806 ∧ t ≠ 0x8035 ∧ t ≠ 0x0800 ∧ t ≠ 0x86dd ∧ t ≠ 0x88cc ∧ t ≠ 0x888e ∧
              t ≠ 0x8847 ∧ t ≠ 0x8848
  | _ => False

/-- the IPv4 protocol field selects the payload's class; fragments and unknown protocols carry bytes -/
def IpCompat (frag proto : Nat) : Pkt → Prop
  | .udp _ _ => frag = 0 ∧ proto = 17
  | .tcp _ _ => frag = 0 ∧ proto = 6
  | .icmp _ _ => frag = 0 ∧ proto = 1
  | .raw _ => frag ≠ 0 ∨ (proto ≠ 17 ∧ proto ≠ 6 ∧ proto ≠ 1 ∧ proto ≠ 2 ∧ proto ≠ 47)
  | _ => False

def IcmpCompat (type : Nat) : Pkt → Prop
  | .echo _ _ => type = 8 ∨ type = 0
  | .unreach _ _ => type = 3
  | .timeEx _ _ => type = 11
  | .raw _ => type ≠ 8 ∧ type ≠ 0 ∧ type ≠ 3 ∧ type ≠ 11
  | _ => False

/-- what an ICMP error may quote: an IPv4 datagram of at least 24 bytes, or fewer than 24 opaque bytes -/
def QuoteCompat : Pkt → Prop
  | .ipv4 h n => 24 ≤ 4 * h.hl + plen n
  | .raw b => b.length < 24
  | _ => False

def isRaw : Pkt → Prop
  | .raw _ => True
  | _ => False

/-- well-formed built chains: every field in its wire range, payload classes consistent with the demultiplexing
fields, every IP datagram below 64 KiB.  `ctx` is the enclosing IPv4 header as `udp`/`tcp` see it through `prev`. -/
def Good : Option IPCtx → Pkt → Prop
  | _, .raw _ => True
  | _, .eth h n => h.Fits ∧ EthCompat h.type n ∧ Good none n
  | _, .vlan h n => h.Fits ∧ EthCompat h.ethType n ∧ Good none n
  | _, .arp h n => h.Fits ∧ isRaw n
  | _, .ipv4 h n => h.Fits ∧ IpCompat h.frag h.proto n ∧ Good (some ⟨h.src, h.dst, h.proto⟩) n ∧
                    4 * h.hl + plen n < 65536
  | ctx, .udp h n => (∃ c, ctx = some c ∧ c.Fits) ∧ h.Fits ∧ udpPlain h ∧ isRaw n ∧ plen n + 8 < 65536
  | ctx, .tcp h n => (∃ c, ctx = some c ∧ c.Fits) ∧ h.Fits ∧ (∀ o ∈ h.opts, o.OK) ∧ (optsPadded h.opts).length ≤ 40 ∧
                     isRaw n ∧ 20 + (optsPadded h.opts).length + plen n < 65536
  | _, .icmp h n => h.Fits ∧ IcmpCompat h.type n ∧ Good none n ∧ plen n + 4 ≤ 131072
  | _, .echo h n => h.Fits ∧ isRaw n
  | _, .unreach h n => h.Fits ∧ QuoteCompat n ∧ Good none n
  | _, .timeEx h n => h.Fits ∧ QuoteCompat n ∧ Good none n
  | _, _ => False

/-! ## the payload demultiplexers return the re-parsed child -/

theorem parseNext_rt (next : Kind → Bytes → Pkt) (t : Nat) (n n' : Pkt) (rest : Bytes) (hc : EthCompat t n)
    (hraw : ∀ b, n = .raw b → n' = .raw b ∧ rest = b) (hk : ∀ k, kindOf n = some k → next k rest = n') :
    parseNext next t rest = n' := by
  cases n with
  | raw b =>
    obtain ⟨h1, h2⟩ := hraw b rfl
    obtain ⟨c0, c1, c2, c3, c4, c5, c6, c7, c8, c9⟩ := hc
    have : ¬ (t < 1536) := by omega
    subst h2
    simp [parseNext, c1, c2, c3, c4, c5, c6, c7, c8, c9, this, h1]
  | vlan h m => have := hk .vlan rfl; simp only [EthCompat] at hc; simp [parseNext, hc, this]
  | arp h m =>
    have := hk .arp rfl
    simp only [EthCompat] at hc
    rcases hc with hc | hc <;> simp [parseNext, hc, this]
  | ipv4 h m => have := hk .ipv4 rfl; simp only [EthCompat] at hc; simp [parseNext, hc, this]
  | _ => simp [EthCompat] at hc

theorem ipv4Dispatch_rt (next : Kind → Bytes → Pkt) (frag proto : Nat) (n n' : Pkt) (rest : Bytes)
    (hc : IpCompat frag proto n) (hraw : ∀ b, n = .raw b → n' = .raw b ∧ rest = b)
    (hk : ∀ k, kindOf n = some k → next k rest = n') (hnu : isUnparsed n' = false) :
    ipv4Dispatch next frag proto rest false = n' := by
  cases n with
  | raw b =>
    obtain ⟨h1, h2⟩ := hraw b rfl
    subst h2; subst h1
    simp only [IpCompat] at hc
    rcases hc with hc | ⟨c1, c2, c3, c4, c5⟩
    · simp [ipv4Dispatch, hc, isUnparsed]
    · by_cases hf : frag = 0 <;> simp [ipv4Dispatch, hf, c1, c2, c3, c4, c5, isUnparsed]
  | udp h m =>
    have := hk .udp rfl; simp only [IpCompat] at hc
    simp [ipv4Dispatch, hc.1, hc.2, this, hnu]
  | tcp h m =>
    have := hk .tcp rfl; simp only [IpCompat] at hc
    simp [ipv4Dispatch, hc.1, hc.2, this, hnu]
  | icmp h m =>
    have := hk .icmp rfl; simp only [IpCompat] at hc
    simp [ipv4Dispatch, hc.1, hc.2, this, hnu]
  | _ => simp [IpCompat] at hc

theorem icmpDispatch_rt (next : Kind → Bytes → Pkt) (type : Nat) (n n' : Pkt) (rest : Bytes)
    (hc : IcmpCompat type n) (hraw : ∀ b, n = .raw b → n' = .raw b ∧ rest = b)
    (hk : ∀ k, kindOf n = some k → next k rest = n') : icmpDispatch next type rest = n' := by
  cases n with
  | raw b =>
    obtain ⟨h1, h2⟩ := hraw b rfl
    subst h2; subst h1
    obtain ⟨c1, c2, c3, c4⟩ := hc
    simp [icmpDispatch, c1, c2, c3, c4]
  | echo h m =>
    have := hk .echo rfl; simp only [IcmpCompat] at hc
    rcases hc with hc | hc <;> simp [icmpDispatch, hc, this]
  | unreach h m => have := hk .unreach rfl; simp only [IcmpCompat] at hc; simp [icmpDispatch, hc, this]
  | timeEx h m => have := hk .timeEx rfl; simp only [IcmpCompat] at hc; simp [icmpDispatch, hc, this]
  | _ => simp [IcmpCompat] at hc

theorem quoted_rt (next : Kind → Bytes → Pkt) (n n' : Pkt) (rest : Bytes) (hc : QuoteCompat n)
    (hlen : rest.length = plen n) (hraw : ∀ b, n = .raw b → n' = .raw b ∧ rest = b)
    (hk : ∀ k, kindOf n = some k → next k rest = n') : quoted next rest = n' := by
  cases n with
  | raw b =>
    obtain ⟨h1, h2⟩ := hraw b rfl
    subst h2; subst h1
    simp only [QuoteCompat] at hc
    have : ¬ (rest.length ≥ 24) := by omega
    simp [quoted, this]
  | ipv4 h m =>
    have := hk .ipv4 rfl
    simp only [QuoteCompat] at hc
    simp only [plen] at hlen
    have h24 : rest.length ≥ 24 := by omega
    simp [quoted, h24, this]
  | _ => simp [QuoteCompat] at hc

/-! ## the induction -/

/-- everything the round trip establishes about one chain -/
structure RT (ctx : Option IPCtx) (p p' : Pkt) (bs : Bytes) : Prop where
  packed : packU ctx p = .ok (p', bs)
  idem : packU ctx p' = .ok (p', bs)
  len : bs.length = plen p
  dep : depth p ≤ bs.length
  notUnp : isUnparsed p' = false
  stripEq : strip p' = strip p
  raw : ∀ b, p = .raw b → p' = .raw b ∧ bs = b
  reparse : ∀ fuel k, kindOf p = some k → depth p ≤ fuel → parse fuel k bs = p'

theorem isRaw_elim {n : Pkt} (h : isRaw n) : ∃ b, n = .raw b := by
  cases n <;> simp [isRaw] at h
  exact ⟨_, rfl⟩

theorem rt_raw (ctx : Option IPCtx) (b : Bytes) : RT ctx (.raw b) (.raw b) b where
  packed := rfl
  idem := rfl
  len := rfl
  dep := Nat.zero_le _
  notUnp := rfl
  stripEq := rfl
  raw := fun _ h => by cases h; exact ⟨rfl, rfl⟩
  reparse := fun _ _ h => by simp [kindOf] at h

theorem parse_eth (f : Nat) (raw : Bytes) : parse (f + 1) .eth raw = ethParse (parse f) raw := rfl
theorem parse_vlan (f : Nat) (raw : Bytes) : parse (f + 1) .vlan raw = vlanParse (parse f) raw := rfl
theorem parse_arp (f : Nat) (raw : Bytes) : parse (f + 1) .arp raw = arpParse raw := rfl
theorem parse_ipv4 (f : Nat) (raw : Bytes) : parse (f + 1) .ipv4 raw = ipv4Parse (parse f) raw := rfl
theorem parse_udp (f : Nat) (raw : Bytes) : parse (f + 1) .udp raw = udpParse raw := rfl
theorem parse_tcp (f : Nat) (raw : Bytes) : parse (f + 1) .tcp raw = tcpParse raw := rfl
theorem parse_icmp (f : Nat) (raw : Bytes) : parse (f + 1) .icmp raw = icmpParse (parse f) raw := rfl
theorem parse_echo (f : Nat) (raw : Bytes) : parse (f + 1) .echo raw = echoParse raw := rfl
theorem parse_unreach (f : Nat) (raw : Bytes) : parse (f + 1) .unreach raw = unreachParse (parse f) raw := rfl
theorem parse_timeEx (f : Nat) (raw : Bytes) : parse (f + 1) .timeEx raw = timeExParse (parse f) raw := rfl

theorem tcpOptsPadded_nil : tcpOptsPadded [] = .ok [] := by
  simp [tcpOptsPadded, tcpOptsPack, bind, Except.bind, pure, Except.pure]

theorem chain_rt (p : Pkt) : ∀ ctx, Good ctx p → ∃ p' bs, RT ctx p p' bs := by
  induction p with
  | raw b => intro ctx _; exact ⟨_, _, rt_raw ctx b⟩
  | nil => intro ctx hg; simp [Good] at hg
  | unparsed c r => intro ctx hg; simp [Good] at hg
  | unmodelled c r => intro ctx hg; simp [Good] at hg
  | eth h n ih =>
    intro ctx hg
    simp only [Good] at hg
    obtain ⟨hf, hc, hgn⟩ := hg
    obtain ⟨n', rest, r⟩ := ih none hgn
    refine ⟨.eth h n', ethBytes h ++ rest, ?_⟩
    exact {
      packed := by simp [packU, r.packed, ethHdr_ok h hf, bind, Except.bind, pure, Except.pure]
      idem := by simp [packU, r.idem, ethHdr_ok h hf, bind, Except.bind, pure, Except.pure]
      len := by simp [plen, ethBytes_length h hf, r.len]
      dep := by have := r.dep; simp [depth, ethBytes_length h hf]; omega
      notUnp := rfl
      stripEq := by simp [strip, r.stripEq]
      raw := fun b hb => by cases hb
      reparse := fun fuel k hk hd => by
        cases fuel with
        | zero => simp [depth] at hd
        | succ f =>
          simp only [kindOf, Option.some.injEq] at hk; subst hk
          rw [parse_eth, eth_parse _ h rest hf, parseNext_rt (parse f) h.type n n' rest hc r.raw
            (fun k hk => r.reparse f k hk (by simp [depth] at hd; omega))] }
  | vlan h n ih =>
    intro ctx hg
    simp only [Good] at hg
    obtain ⟨hf, hc, hgn⟩ := hg
    obtain ⟨n', rest, r⟩ := ih none hgn
    refine ⟨.vlan h n', vlanBytes h ++ rest, ?_⟩
    exact {
      packed := by simp [packU, r.packed, vlanHdr_ok h hf, bind, Except.bind, pure, Except.pure]
      idem := by simp [packU, r.idem, vlanHdr_ok h hf, bind, Except.bind, pure, Except.pure]
      len := by simp [plen, vlanBytes, r.len]; omega
      dep := by have := r.dep; simp [depth, vlanBytes]; omega
      notUnp := rfl
      stripEq := by simp [strip, r.stripEq]
      raw := fun b hb => by cases hb
      reparse := fun fuel k hk hd => by
        cases fuel with
        | zero => simp [depth] at hd
        | succ f =>
          simp only [kindOf, Option.some.injEq] at hk; subst hk
          rw [parse_vlan, vlan_parse _ h rest hf, parseNext_rt (parse f) h.ethType n n' rest hc r.raw
            (fun k hk => r.reparse f k hk (by simp [depth] at hd; omega))] }
  | arp h n ih =>
    intro ctx hg
    simp only [Good] at hg
    obtain ⟨hf, hr⟩ := hg
    obtain ⟨b, hb⟩ := isRaw_elim hr
    subst hb
    obtain ⟨bs, hh, hl, hp⟩ := arp_parse h b hf
    refine ⟨.arp h (.raw b), bs ++ b, ?_⟩
    exact {
      packed := by simp [packU, hh, bind, Except.bind, pure, Except.pure]
      idem := by simp [packU, hh, bind, Except.bind, pure, Except.pure]
      len := by simp [plen, hl]
      dep := by simp [depth, hl]; omega
      notUnp := rfl
      stripEq := rfl
      raw := fun b hb => by cases hb
      reparse := fun fuel k hk hd => by
        cases fuel with
        | zero => simp [depth] at hd
        | succ f =>
          simp only [kindOf, Option.some.injEq] at hk; subst hk
          rw [parse_arp]; exact hp }
  | ipv4 h n ih =>
    intro ctx hg
    simp only [Good] at hg
    obtain ⟨hf, hc, hgn, hsz⟩ := hg
    obtain ⟨n', rest, r⟩ := ih _ hgn
    have hn : h.hl * 4 + rest.length < 65536 := by rw [r.len]; omega
    refine ⟨.ipv4 (ipv4Upd h rest.length) n', ipv4Bytes h rest.length ++ rest, ?_⟩
    exact {
      packed := by simp [packU, r.packed, ipv4Hdr_ok h _ hf hn, bind, Except.bind, pure, Except.pure]
      idem := by
        have e : (ipv4Upd h rest.length).src = h.src ∧ (ipv4Upd h rest.length).dst = h.dst ∧
            (ipv4Upd h rest.length).proto = h.proto := ⟨rfl, rfl, rfl⟩
        simp [packU, e.1, e.2.1, e.2.2, r.idem, ipv4Hdr_idem, ipv4Hdr_ok h _ hf hn, bind, Except.bind, pure, Except.pure]
      len := by rw [List.length_append, ipv4Bytes_length h _ hf, r.len]; simp [plen]
      dep := by
        have := r.dep; have := hf.hl5
        rw [List.length_append, ipv4Bytes_length h _ hf]; simp [depth]; omega
      notUnp := rfl
      stripEq := by simp [strip, r.stripEq, ipv4Upd]
      raw := fun b hb => by cases hb
      reparse := fun fuel k hk hd => by
        cases fuel with
        | zero => simp [depth] at hd
        | succ f =>
          simp only [kindOf, Option.some.injEq] at hk; subst hk
          rw [parse_ipv4, ipv4_parse _ h rest hf hn, ipv4Dispatch_rt (parse f) h.frag h.proto n n' rest hc r.raw
            (fun k hk => r.reparse f k hk (by simp [depth] at hd; omega)) r.notUnp] }
  | udp h n ih =>
    intro ctx hg
    simp only [Good] at hg
    obtain ⟨⟨c, hctx, hcf⟩, hf, hpl, hr, hsz⟩ := hg
    obtain ⟨b, hb⟩ := isRaw_elim hr
    subst hb; subst hctx
    simp only [plen] at hsz
    refine ⟨.udp (udpUpd c h b) (.raw b), udpBytes c h b ++ b, ?_⟩
    exact {
      packed := by simp [packU, udpHdr_ok c h b hcf hf hsz, bind, Except.bind, pure, Except.pure]
      idem := by simp [packU, udpHdr_idem, udpHdr_ok c h b hcf hf hsz, bind, Except.bind, pure, Except.pure]
      len := by simp [plen, udpBytes_length]
      dep := by simp [depth, udpBytes_length]; omega
      notUnp := rfl
      stripEq := by simp [strip, udpUpd]
      raw := fun b hb => by cases hb
      reparse := fun fuel k hk hd => by
        cases fuel with
        | zero => simp [depth] at hd
        | succ f =>
          simp only [kindOf, Option.some.injEq] at hk; subst hk
          rw [parse_udp]; exact udp_parse c h b hf hpl hsz }
  | tcp h n ih =>
    intro ctx hg
    simp only [Good] at hg
    obtain ⟨⟨c, hctx, hcf⟩, hf, hok, hol, hr, hsz⟩ := hg
    obtain ⟨b, hb⟩ := isRaw_elim hr
    subst hb; subst hctx
    simp only [plen] at hsz
    have hop := tcpOptsPadded_ok h.opts hok
    have hres := tcpHdr_ok c h (optsPadded h.opts) b hcf hf hop hol hsz
    refine ⟨.tcp (tcpUpd c h (optsPadded h.opts) b) (.raw b), tcpBytes c h (optsPadded h.opts) b ++ b, ?_⟩
    exact {
      packed := by simp [packU, hres, bind, Except.bind, pure, Except.pure]
      idem := by simp [packU, tcpHdr_idem, hres, bind, Except.bind, pure, Except.pure]
      len := by simp [plen, tcpBytes_length]
      dep := by simp [depth, tcpBytes_length]; omega
      notUnp := rfl
      stripEq := by simp [strip, tcpUpd]
      raw := fun b hb => by cases hb
      reparse := fun fuel k hk hd => by
        cases fuel with
        | zero => simp [depth] at hd
        | succ f =>
          simp only [kindOf, Option.some.injEq] at hk; subst hk
          rw [parse_tcp]; exact tcp_parse c h b hf hok hol }
  | icmp h n ih =>
    intro ctx hg
    simp only [Good] at hg
    obtain ⟨hf, hc, hgn, hsz⟩ := hg
    obtain ⟨n', rest, r⟩ := ih none hgn
    have hn : rest.length + 4 ≤ 131072 := by rw [r.len]; exact hsz
    refine ⟨.icmp (icmpUpd h rest) n', icmpBytes h rest ++ rest, ?_⟩
    have hbl : (icmpBytes h rest).length = 4 := by simp [icmpBytes, icmpPre]
    exact {
      packed := by simp [packU, r.packed, icmpHdr_ok h rest hf hn, bind, Except.bind, pure, Except.pure]
      idem := by simp [packU, r.idem, icmpHdr_idem, icmpHdr_ok h rest hf hn, bind, Except.bind, pure, Except.pure]
      len := by simp [plen, hbl, r.len]
      dep := by have := r.dep; simp [depth, hbl]; omega
      notUnp := rfl
      stripEq := by simp [strip, r.stripEq, icmpUpd]
      raw := fun b hb => by cases hb
      reparse := fun fuel k hk hd => by
        cases fuel with
        | zero => simp [depth] at hd
        | succ f =>
          simp only [kindOf, Option.some.injEq] at hk; subst hk
          rw [parse_icmp, icmp_parse _ h rest hf]
          have e : (icmpUpd h rest).type = h.type := rfl
          rw [icmpDispatch_rt (parse f) h.type n n' rest hc r.raw
            (fun k hk => r.reparse f k hk (by simp [depth] at hd; omega))] }
  | echo h n ih =>
    intro ctx hg
    simp only [Good] at hg
    obtain ⟨hf, hr⟩ := hg
    obtain ⟨b, hb⟩ := isRaw_elim hr
    subst hb
    refine ⟨.echo h (.raw b), echoBytes h ++ b, ?_⟩
    exact {
      packed := by simp [packU, echoHdr_ok h hf, bind, Except.bind, pure, Except.pure]
      idem := by simp [packU, echoHdr_ok h hf, bind, Except.bind, pure, Except.pure]
      len := by simp [plen, echoBytes]; omega
      dep := by simp [depth, echoBytes]; omega
      notUnp := rfl
      stripEq := rfl
      raw := fun b hb => by cases hb
      reparse := fun fuel k hk hd => by
        cases fuel with
        | zero => simp [depth] at hd
        | succ f =>
          simp only [kindOf, Option.some.injEq] at hk; subst hk
          rw [parse_echo]; exact echo_parse h b hf }
  | unreach h n ih =>
    intro ctx hg
    simp only [Good] at hg
    obtain ⟨hf, hc, hgn⟩ := hg
    obtain ⟨n', rest, r⟩ := ih none hgn
    refine ⟨.unreach h n', unreachBytes h ++ rest, ?_⟩
    exact {
      packed := by simp [packU, r.packed, unreachHdr_ok h hf, bind, Except.bind, pure, Except.pure]
      idem := by simp [packU, r.idem, unreachHdr_ok h hf, bind, Except.bind, pure, Except.pure]
      len := by simp [plen, unreachBytes, r.len]; omega
      dep := by have := r.dep; simp [depth, unreachBytes]; omega
      notUnp := rfl
      stripEq := by simp [strip, r.stripEq]
      raw := fun b hb => by cases hb
      reparse := fun fuel k hk hd => by
        cases fuel with
        | zero => simp [depth] at hd
        | succ f =>
          simp only [kindOf, Option.some.injEq] at hk; subst hk
          rw [parse_unreach, unreach_parse _ h rest hf, quoted_rt (parse f) n n' rest hc r.len r.raw
            (fun k hk => r.reparse f k hk (by simp [depth] at hd; omega))] }
  | timeEx h n ih =>
    intro ctx hg
    simp only [Good] at hg
    obtain ⟨hf, hc, hgn⟩ := hg
    obtain ⟨n', rest, r⟩ := ih none hgn
    refine ⟨.timeEx h n', timeExBytes h ++ rest, ?_⟩
    exact {
      packed := by simp [packU, r.packed, timeExHdr_ok h hf, bind, Except.bind, pure, Except.pure]
      idem := by simp [packU, r.idem, timeExHdr_ok h hf, bind, Except.bind, pure, Except.pure]
      len := by simp [plen, timeExBytes, r.len]
      dep := by have := r.dep; simp [depth, timeExBytes]; omega
      notUnp := rfl
      stripEq := by simp [strip, r.stripEq]
      raw := fun b hb => by cases hb
      reparse := fun fuel k hk hd => by
        cases fuel with
        | zero => simp [depth] at hd
        | succ f =>
          simp only [kindOf, Option.some.injEq] at hk; subst hk
          rw [parse_timeEx, timeEx_parse _ h rest hf, quoted_rt (parse f) n n' rest hc r.len r.raw
            (fun k hk => r.reparse f k hk (by simp [depth] at hd; omega))] }

end Pox.Packet
