import PoxModel.Proofs.Contain
/-! the trace-keeping switch loop `swLoopT`: it is `swLoop` plus bookkeeping, its trace tiles the consumed bytes, and
every skipped window is a whole, well-framed message that was answered -/
namespace Pox.Framing
variable {Msg : Type}

def delivs (ev : List (SwEv Msg)) : List Msg := ev.filterMap SwEv.msg?

@[simp] theorem delivs_append (a b : List (SwEv Msg)) : delivs (a ++ b) = delivs a ++ delivs b := by
  simp [delivs, List.filterMap_append]

theorem delivs_snoc_skip (ev : List (SwEv Msg)) (w : Bytes) (c : Nat) : delivs (ev ++ [.skip w c]) = delivs ev := by
  simp [delivs, List.filterMap_append, List.filterMap_cons, SwEv.msg?]
theorem delivs_snoc_close (ev : List (SwEv Msg)) : delivs (ev ++ [.close]) = delivs ev := by
  simp [delivs, List.filterMap_append, List.filterMap_cons, SwEv.msg?]
theorem delivs_snoc_hello (ev : List (SwEv Msg)) (x : Nat) : delivs (ev ++ [.helloFailed x]) = delivs ev := by
  simp [delivs, List.filterMap_append, List.filterMap_cons, SwEv.msg?]
theorem delivs_snoc_deliver (ev : List (SwEv Msg)) (w : Bytes) (m : Msg) : delivs (ev ++ [.deliver w m]) = delivs ev ++ [m] := by
  simp [delivs, List.filterMap_append, List.filterMap_cons, SwEv.msg?]

/-- `swLoopT` projects onto `swLoop`: same remaining buffer, same delivered messages, same status -/
theorem swLoopT_proj (U : Unpack Msg) : ∀ (fuel : Nat) (starting : Bool) (buf : Bytes) (ev : List (SwEv Msg)),
    (swLoopT U fuel starting buf ev).1 = (swLoop U fuel buf (delivs ev)).1 ∧
    delivs (swLoopT U fuel starting buf ev).2.1 = (swLoop U fuel buf (delivs ev)).2.1 ∧
    (swLoopT U fuel starting buf ev).2.2.1 = (swLoop U fuel buf (delivs ev)).2.2 := by
  intro fuel
  induction fuel with
  | zero => intro s buf ev; simp [swLoopT, swLoop]
  | succ f ih =>
    intro s buf ev
    rw [swLoopT, swLoop]
    simp only []
    by_cases c1 : buf.length < 4
    · simp [if_pos c1]
    · by_cases c2 : byteAt buf 0 ≠ 1
      · simp only [if_neg c1, if_pos c2]
        cases s <;> simp [delivs, List.filterMap_cons, SwEv.msg?]
      · by_cases c3 : declLen buf 0 < 8
        · simp only [if_neg c1, if_neg c2, if_pos c3]
          simp [delivs, List.filterMap_cons, SwEv.msg?]
        · by_cases c4 : declLen buf 0 > buf.length
          · simp [if_neg c1, if_neg c2, if_neg c3, if_pos c4]
          · simp only [if_neg c1, if_neg c2, if_neg c3, if_neg c4]
            have skipcase : ∀ (s' : Bool) (code : Nat),
                (swLoopT U f s' (buf.drop (declLen buf 0)) (ev ++ [.skip (buf.take (declLen buf 0)) code])).1 =
                  (swLoop U f (buf.drop (declLen buf 0)) (delivs ev)).1 ∧
                delivs (swLoopT U f s' (buf.drop (declLen buf 0)) (ev ++ [.skip (buf.take (declLen buf 0)) code])).2.1 =
                  (swLoop U f (buf.drop (declLen buf 0)) (delivs ev)).2.1 ∧
                (swLoopT U f s' (buf.drop (declLen buf 0)) (ev ++ [.skip (buf.take (declLen buf 0)) code])).2.2.1 =
                  (swLoop U f (buf.drop (declLen buf 0)) (delivs ev)).2.2 := by
              intro s' code
              have := ih s' (buf.drop (declLen buf 0)) (ev ++ [.skip (buf.take (declLen buf 0)) code])
              rw [delivs_snoc_skip] at this; exact this
            cases hU : U (byteAt buf 1) buf 0 with
            | raise => exact skipcase s 6
            | none => exact skipcase s 1
            | ok p =>
              obtain ⟨off', m⟩ := p
              simp only []
              by_cases c5 : off' ≠ declLen buf 0
              · simp only [if_pos c5]; exact skipcase s 6
              · simp only [if_neg c5]
                have := ih false (buf.drop (declLen buf 0)) (ev ++ [.deliver (buf.take (declLen buf 0)) m])
                rw [delivs_snoc_deliver] at this; exact this

/-- a window the loop consumed: a whole message with version 1, a declared length of at least 8 that is exactly its size -/
def WellFramed (w : Bytes) : Prop := 8 ≤ w.length ∧ w.length = declLen w 0 ∧ byteAt w 0 = 1

theorem wellFramed_take (buf : Bytes) (c1 : ¬ buf.length < 4) (c2 : ¬ byteAt buf 0 ≠ 1) (c3 : ¬ declLen buf 0 < 8)
    (c4 : ¬ declLen buf 0 > buf.length) : WellFramed (buf.take (declLen buf 0)) := by
  generalize hn : declLen buf 0 = n at c3 c4 ⊢
  have hl : (buf.take n).length = n := by simp; omega
  have hb : ∀ i, i < 4 → byteAt (buf.take n) i = byteAt buf i := by
    intro i hi
    unfold byteAt
    simp only [List.getD_eq_getElem?_getD]
    rw [List.getElem?_take_of_lt (by omega)]
  have hd : declLen (buf.take n) 0 = declLen buf 0 := by
    unfold declLen; simp only [Nat.zero_add]; rw [hb 2 (by omega), hb 3 (by omega)]
  refine ⟨by omega, ?_, ?_⟩
  · rw [hl, hd, hn]
  · rw [hb 0 (by omega)]; simpa using c2

/-- **tiling**: the trace only grows; the windows of the new events, in order, followed by the remaining buffer, are
exactly the buffer the pass started with — every consumed byte belongs to exactly one delivered or skipped window; each
such window is well framed; a skip carries code 1 or 6; and when the pass closes the connection the last new event is the
closing one and the bytes it stopped at are kept -/
theorem swLoopT_tiling (U : Unpack Msg) : ∀ (fuel : Nat) (starting : Bool) (buf : Bytes) (ev : List (SwEv Msg)),
    ∃ new, (swLoopT U fuel starting buf ev).2.1 = ev ++ new ∧
      (new.map SwEv.win).flatten ++ (swLoopT U fuel starting buf ev).1 = buf ∧
      (∀ e ∈ new, (∀ w m, e = .deliver w m → WellFramed w) ∧ (∀ w c, e = .skip w c → WellFramed w ∧ (c = 1 ∨ c = 6))) ∧
      ((swLoopT U fuel starting buf ev).2.2.1 = .closed →
        (∃ pre last, new = pre ++ [last] ∧ (last = .close ∨ ∃ x, last = .helloFailed x) ∧
          (∀ e ∈ pre, e.reply = none ∨ ∃ w c, e = .skip w c) ∧ ∀ e ∈ pre, e ≠ .close ∧ ∀ x, e ≠ .helloFailed x)) ∧
      ((swLoopT U fuel starting buf ev).2.2.1 = .alive → ∀ e ∈ new, e ≠ .close ∧ ∀ x, e ≠ .helloFailed x) := by
  intro fuel
  induction fuel with
  | zero =>
    intro s buf ev
    refine ⟨[], by simp [swLoopT], by simp [swLoopT], by simp, ?_, by simp⟩
    intro h; simp [swLoopT] at h
  | succ f ih =>
    intro s buf ev
    rw [swLoopT]
    simp only []
    by_cases c1 : buf.length < 4
    · simp only [if_pos c1]
      exact ⟨[], by simp, by simp, by simp, (by intro h; cases h), by simp⟩
    · by_cases c2 : byteAt buf 0 ≠ 1
      · simp only [if_neg c1, if_pos c2]
        refine ⟨[if s then .helloFailed (xidOf buf) else .close], rfl, ?_, ?_, ?_, by intro h; cases h⟩
        · cases s <;> simp [SwEv.win]
        · intro e he
          cases s <;> simp at he <;> subst he <;> exact And.intro (by intro w m h; cases h) (by intro w c h; cases h)
        · intro _
          refine ⟨[], _, rfl, ?_, by simp, by simp⟩
          cases s
          · exact .inl (by simp)
          · exact .inr ⟨xidOf buf, by simp⟩
      · by_cases c3 : declLen buf 0 < 8
        · simp only [if_neg c1, if_neg c2, if_pos c3]
          refine ⟨[.close], rfl, by simp [SwEv.win], ?_, ?_, by intro h; cases h⟩
          · intro e he
            simp at he; subst he; exact And.intro (by intro w m h; cases h) (by intro w c h; cases h)
          · intro _; exact ⟨[], .close, rfl, .inl rfl, by simp, by simp⟩
        · by_cases c4 : declLen buf 0 > buf.length
          · simp only [if_neg c1, if_neg c2, if_neg c3, if_pos c4]
            exact ⟨[], by simp, by simp, by simp, (by intro h; cases h), by simp⟩
          · simp only [if_neg c1, if_neg c2, if_neg c3, if_neg c4]
            have hwf := wellFramed_take buf c1 c2 c3 c4
            -- one more event `e0` whose window is `buf.take n`, then the rest of the pass on `buf.drop n`
            have step : ∀ (s' : Bool) (e0 : SwEv Msg), e0.win = buf.take (declLen buf 0) →
                ((∀ w m, e0 = .deliver w m → WellFramed w) ∧ (∀ w c, e0 = .skip w c → WellFramed w ∧ (c = 1 ∨ c = 6))) →
                (e0.reply = none ∨ ∃ w c, e0 = .skip w c) → (e0 ≠ .close ∧ ∀ x, e0 ≠ .helloFailed x) →
                ∃ new, (swLoopT U f s' (buf.drop (declLen buf 0)) (ev ++ [e0])).2.1 = ev ++ new ∧
                  (new.map SwEv.win).flatten ++ (swLoopT U f s' (buf.drop (declLen buf 0)) (ev ++ [e0])).1 = buf ∧
                  (∀ e ∈ new, (∀ w m, e = .deliver w m → WellFramed w) ∧ (∀ w c, e = .skip w c → WellFramed w ∧ (c = 1 ∨ c = 6))) ∧
                  ((swLoopT U f s' (buf.drop (declLen buf 0)) (ev ++ [e0])).2.2.1 = .closed →
                    (∃ pre last, new = pre ++ [last] ∧ (last = .close ∨ ∃ x, last = .helloFailed x) ∧
                      (∀ e ∈ pre, e.reply = none ∨ ∃ w c, e = .skip w c) ∧ ∀ e ∈ pre, e ≠ .close ∧ ∀ x, e ≠ .helloFailed x)) ∧
                  ((swLoopT U f s' (buf.drop (declLen buf 0)) (ev ++ [e0])).2.2.1 = .alive →
                    ∀ e ∈ new, e ≠ .close ∧ ∀ x, e ≠ .helloFailed x) := by
              intro s' e0 hw hform hrep hne
              obtain ⟨new, h1, h2, h3, h4, h5⟩ := ih s' (buf.drop (declLen buf 0)) (ev ++ [e0])
              refine ⟨e0 :: new, by rw [h1]; simp, ?_, ?_, ?_, ?_⟩
              · simp only [List.map_cons, List.flatten_cons, hw, List.append_assoc]
                rw [h2, List.take_append_drop]
              · intro e he
                rcases List.mem_cons.mp he with rfl | he
                · exact hform
                · exact h3 e he
              · intro hc
                obtain ⟨pre, last, hp, hl, hr, hn⟩ := h4 hc
                refine ⟨e0 :: pre, last, by rw [hp]; simp, hl, ?_, ?_⟩
                · intro e he
                  rcases List.mem_cons.mp he with rfl | he
                  · exact hrep
                  · exact hr e he
                · intro e he
                  rcases List.mem_cons.mp he with rfl | he
                  · exact hne
                  · exact hn e he
              · intro ha e he
                rcases List.mem_cons.mp he with rfl | he
                · exact hne
                · exact h5 ha e he
            have skipstep : ∀ (code : Nat), (code = 1 ∨ code = 6) → _ := fun code hc =>
              step s (.skip (buf.take (declLen buf 0)) code) rfl
                (And.intro (by intro w m h; cases h) (by intro w c h; cases h; exact ⟨hwf, hc⟩)) (.inr ⟨_, _, rfl⟩)
                (And.intro (by intro h; cases h) (by intro x h; cases h))
            cases hU : U (byteAt buf 1) buf 0 with
            | raise => exact skipstep 6 (.inr rfl)
            | none => exact skipstep 1 (.inl rfl)
            | ok p =>
              obtain ⟨off', m⟩ := p
              simp only []
              by_cases c5 : off' ≠ declLen buf 0
              · simp only [if_pos c5]; exact skipstep 6 (.inr rfl)
              · simp only [if_neg c5]
                exact step false (.deliver (buf.take (declLen buf 0)) m) rfl
                  (And.intro (by intro w m' h; cases h; exact hwf) (by intro w c h; cases h)) (.inl rfl)
                  (And.intro (by intro h; cases h) (by intro x h; cases h))

end Pox.Framing

namespace Pox.Framing
variable {Msg : Type}

def SwEv.closing : SwEv Msg → Prop
  | .close => True
  | .helloFailed _ => True
  | _ => False

/-- everything a connection has received so far is accounted for: the windows of the trace, in order, then the bytes
still buffered, then — only once the connection is closed — the bytes that arrived afterwards and were ignored -/
structure Accounted (s : CST Msg) (inp : Bytes) : Prop where
  tiled : ∃ rest, inp = (s.trace.map SwEv.win).flatten ++ s.buf ++ rest ∧ (s.st = .alive → rest = [])
  framed : ∀ e ∈ s.trace, (∀ w m, e = .deliver w m → WellFramed w) ∧ (∀ w c, e = .skip w c → WellFramed w ∧ (c = 1 ∨ c = 6))
  notdead : s.st ≠ .dead
  open_ : s.st = .alive → ∀ e ∈ s.trace, e ≠ .close ∧ ∀ x, e ≠ .helloFailed x
  shut : s.st = .closed → ∃ pre last, s.trace = pre ++ [last] ∧ (last = .close ∨ ∃ x, last = .helloFailed x) ∧
            ∀ e ∈ pre, e ≠ .close ∧ ∀ x, e ≠ .helloFailed x

theorem accounted_init : Accounted (initT : CST Msg) [] :=
  ⟨⟨[], by simp [initT], fun _ => rfl⟩, by simp [initT], by simp [initT], by simp [initT], by simp [initT]⟩

theorem accounted_step (U : Unpack Msg) (s : CST Msg) (inp chunk : Bytes) (h : Accounted s inp) :
    Accounted (swFeedT U s chunk) (inp ++ chunk) := by
  obtain ⟨⟨rest, ht, hrest⟩, hf, hnd, ho, hs⟩ := h
  unfold swFeedT
  cases hst : s.st with
  | dead => exact absurd hst hnd
  | closed =>
    simp only []
    refine ⟨⟨rest ++ chunk, by rw [ht]; simp [List.append_assoc], ?_⟩, hf, hnd, ?_, hs⟩
    · intro ha; rw [hst] at ha; cases ha
    · intro ha; rw [hst] at ha; cases ha
  | alive =>
    simp only []
    have hr0 := hrest hst; subst hr0
    obtain ⟨new, h1, h2, h3, h4, h5⟩ := swLoopT_tiling U ((s.buf ++ chunk).length + 1) s.starting (s.buf ++ chunk) s.trace
    obtain ⟨-, -, p3⟩ := swLoopT_proj U ((s.buf ++ chunk).length + 1) s.starting (s.buf ++ chunk) s.trace
    have hnd' : (swLoopT U ((s.buf ++ chunk).length + 1) s.starting (s.buf ++ chunk) s.trace).2.2.1 ≠ .dead := by
      rw [p3]; exact swLoop_never_dead U _ _ _
    refine ⟨⟨[], ?_, fun _ => rfl⟩, ?_, hnd', ?_, ?_⟩
    · simp only [List.append_nil]
      rw [h1, ht]
      simp only [List.map_append, List.flatten_append, List.append_nil, List.append_assoc]
      rw [h2]
    · intro e he
      simp only [] at he
      rw [h1] at he
      rcases List.mem_append.mp he with he | he
      · exact hf e he
      · exact h3 e he
    · intro ha e he
      simp only [] at ha he
      rw [h1] at he
      rcases List.mem_append.mp he with he | he
      · exact ho hst e he
      · exact h5 ha e he
    · intro hc
      simp only [] at hc
      obtain ⟨pre, last, hp, hl, -, hn⟩ := h4 hc
      refine ⟨s.trace ++ pre, last, ?_, hl, ?_⟩
      · simp only []; rw [h1, hp]; simp
      · intro e he
        rcases List.mem_append.mp he with he | he
        · exact ho hst e he
        · exact hn e he

theorem accounted_run (U : Unpack Msg) (chunks : List Bytes) :
    Accounted (chunks.foldl (swFeedT U) initT) chunks.flatten := by
  have : ∀ (s : CST Msg) (inp : Bytes), Accounted s inp → Accounted (chunks.foldl (swFeedT U) s) (inp ++ chunks.flatten) := by
    induction chunks with
    | nil => intro s inp h; simpa using h
    | cons c cs ih =>
      intro s inp h
      simp only [List.foldl_cons, List.flatten_cons]
      rw [← List.append_assoc]
      exact ih _ _ (accounted_step U s inp c h)
  simpa using this initT [] accounted_init

/-- the trace-keeping feed is the plain feed plus bookkeeping, over any chunk sequence -/
theorem swFeedT_proj (U : Unpack Msg) (chunks : List Bytes) :
    (chunks.foldl (swFeedT U) initT).buf = (chunks.foldl (swFeed U) init).buf ∧
    delivs (chunks.foldl (swFeedT U) initT).trace = (chunks.foldl (swFeed U) init).delivered ∧
    (chunks.foldl (swFeedT U) initT).st = (chunks.foldl (swFeed U) init).st := by
  have : ∀ (t : CST Msg) (s : CS Msg), t.buf = s.buf → delivs t.trace = s.delivered → t.st = s.st →
      (chunks.foldl (swFeedT U) t).buf = (chunks.foldl (swFeed U) s).buf ∧
      delivs (chunks.foldl (swFeedT U) t).trace = (chunks.foldl (swFeed U) s).delivered ∧
      (chunks.foldl (swFeedT U) t).st = (chunks.foldl (swFeed U) s).st := by
    induction chunks with
    | nil => intro t s h1 h2 h3; exact ⟨h1, h2, h3⟩
    | cons c cs ih =>
      intro t s h1 h2 h3
      simp only [List.foldl_cons]
      apply ih
      all_goals
        unfold swFeedT swFeed
        rw [← h3]
        cases hst : t.st <;> simp only [] <;> (try assumption)
      · rw [← h1, ← h2]; exact (swLoopT_proj U _ t.starting _ t.trace).1
      · rw [← h1, ← h2]; exact (swLoopT_proj U _ t.starting _ t.trace).2.1
      · rw [← h1, ← h2]; exact (swLoopT_proj U _ t.starting _ t.trace).2.2
  exact this initT init rfl rfl rfl

end Pox.Framing
