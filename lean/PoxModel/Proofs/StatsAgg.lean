import PoxModel.Model.StatsAgg
/-! Lemmas about the statistics-reply assembly model and its specification (used by Properties/C17.lean). Core Lean only. -/
set_option linter.unusedSimpArgs false
set_option linter.unnecessarySimpa false
namespace Pox.StatsAgg
open Pox.Spec17

/-! ### the association list as a dict -/

theorem dget_derase (st : Pending) (r r' : Req) :
    dget (derase st r) r' = if r' = r then none else dget st r' := by
  unfold dget derase
  induction st with
  | nil => simp
  | cons e st ih =>
    by_cases h1 : e.1 = r
    · have : (e.1 != r) = false := by simp [h1]
      simp only [List.filter_cons, this, Bool.false_eq_true, ↓reduceIte, ih]
      by_cases h2 : r' = r
      · simp [h2]
      · have : (e.1 == r') = false := by
          simp only [beq_eq_false_iff_ne, ne_eq]; intro h; exact h2 (h ▸ h1)
        simp [h2, List.find?_cons, this]
    · have : (e.1 != r) = true := by simp [h1]
      simp only [List.filter_cons, this, ↓reduceIte, List.find?_cons]
      by_cases h2 : r' = r
      · subst h2
        have : (e.1 == r') = false := by simp [h1]
        simp only [this]
        simpa using ih
      · cases h3 : (e.1 == r')
        · simp only [h2, ↓reduceIte] at ih ⊢; exact ih
        · simp [h2]

theorem dget_dput (st : Pending) (r : Req) (v : List Part) (r' : Req) :
    dget (dput st r v) r' = if r' = r then some v else dget st r' := by
  by_cases h : r' = r
  · subst h; simp [dget, dput]
  · have h1 : ((r, v).1 == r') = false := by
      simp only [beq_eq_false_iff_ne, ne_eq]; exact fun e => h e.symm
    have := dget_derase st r r'
    simp only [h, ↓reduceIte] at this ⊢
    rw [← this]
    simp only [dget, dput, List.find?_cons, h1]

theorem dgetOrEmpty_derase (st : Pending) (r r' : Req) :
    dgetOrEmpty (derase st r) r' = if r' = r then [] else dgetOrEmpty st r' := by
  unfold dgetOrEmpty; rw [dget_derase]; by_cases h : r' = r <;> simp [h]

theorem dgetOrEmpty_dput (st : Pending) (r : Req) (v : List Part) (r' : Req) :
    dgetOrEmpty (dput st r v) r' = if r' = r then v else dgetOrEmpty st r' := by
  unfold dgetOrEmpty; rw [dget_dput]; by_cases h : r' = r <;> simp [h]

/-! ### `openParts` -/

theorem openParts_snoc (pre : List Part) (p : Part) (r : Req) :
    openParts (pre ++ [p]) r =
      if p.req = r then (if p.more then openParts pre r ++ [p] else []) else openParts pre r := by
  unfold openParts
  by_cases h : p.req = r
  · have : (p.req == r) = true := by simp [h]
    simp only [List.filter_append, List.filter_cons, this, ↓reduceIte, List.filter_nil, List.reverse_append,
      List.reverse_cons, List.reverse_nil, List.nil_append, List.singleton_append, h]
    cases hm : p.more <;> simp [List.takeWhile_cons, hm]
  · have : (p.req == r) = false := by simp [h]
    simp [List.filter_append, List.filter_cons, this, h]

theorem mem_takeWhile {α} (f : α → Bool) (l : List α) (a : α) (h : a ∈ l.takeWhile f) : a ∈ l ∧ f a = true := by
  induction l with
  | nil => simp at h
  | cons b l ih =>
    simp only [List.takeWhile_cons] at h
    split at h
    · rename_i hb
      rcases List.mem_cons.mp h with rfl | h'
      · exact ⟨List.mem_cons_self, hb⟩
      · exact ⟨List.mem_cons_of_mem _ (ih h').1, (ih h').2⟩
    · simp at h

theorem mem_openParts {pre : List Part} {r : Req} {q : Part} (h : q ∈ openParts pre r) :
    q ∈ pre ∧ q.req = r ∧ q.more = true := by
  unfold openParts at h
  rw [List.mem_reverse] at h
  obtain ⟨h1, h2⟩ := mem_takeWhile _ _ _ h
  rw [List.mem_reverse, List.mem_filter] at h1
  exact ⟨h1.1, by simpa using h1.2, h2⟩

theorem openParts_filter (pre : List Part) (r : Req) :
    openParts (pre.filter (fun q => q.req == r)) r = openParts pre r := by
  unfold openParts
  rw [List.filter_filter]
  simp

/-- once a reply is complete the request has no open part: its key can be used again from scratch -/
theorem openParts_after_reply (pre : List Part) (xid t : Nat) (init : List (List Nat)) (last : List Nat) :
    openParts (pre ++ mkReply xid t init last) (xid, t) = [] := by
  unfold mkReply
  rw [← List.append_assoc, openParts_snoc]
  simp [Part.req]

/-- parts of other requests do not change a request's open parts -/
theorem openParts_append_other (pre mid : List Part) (r : Req) (h : ∀ p ∈ mid, p.req ≠ r) :
    openParts (pre ++ mid) r = openParts pre r := by
  unfold openParts
  have : mid.filter (fun q => q.req == r) = [] := by
    rw [List.filter_eq_nil_iff]
    intro p hp; simpa using h p hp
  rw [List.filter_append, this, List.append_nil]

/-! ### the model tracks the specification -/

def Out.ofOption : Option Event → Out
  | none => .quiet
  | some e => .event e

/-- a part the property speaks about: only the four list-valued types are split, and the type has a handler -/
def WellTyped (p : Part) : Prop := (p.more = true → aggregatable p.type = true) ∧ (handlerOf p.type).isSome = true

instance (p : Part) : Decidable (WellTyped p) := by unfold WellTyped; infer_instance

/-- the dict holds, for every request, exactly its open parts -/
def Tracks (st : Pending) (pre : List Part) : Prop := ∀ r, dgetOrEmpty st r = openParts pre r

theorem tracks_nil : Tracks [] [] := by intro r; rfl

theorem handlerOf_agg {t : Nat} (h : aggregatable t = true) : handlerOf t = some .concat := by
  unfold handlerOf
  have : ¬ (t == 0 || t == 2) = true := by
    unfold aggregatable at h
    simp only [Bool.or_eq_true, beq_iff_eq] at h ⊢
    omega
  simp [this, h]

theorem incoming_tracks (st : Pending) (pre : List Part) (p : Part)
    (ht : Tracks st pre) (hp : WellTyped p) (hpre : ∀ q ∈ pre, q.more = true → aggregatable q.type = true) :
    Tracks (incoming st p).1 (pre ++ [p]) ∧ (incoming st p).2 = Out.ofOption (eventAt pre p) := by
  unfold incoming
  by_cases hm : p.more = true
  · have hagg := hp.1 hm
    simp only [hm, ↓reduceIte, hagg, Bool.not_true, Bool.false_eq_true]
    refine ⟨?_, by simp [eventAt, hm, Out.ofOption]⟩
    intro r
    rw [dgetOrEmpty_dput, openParts_snoc, ht p.req]
    by_cases h : r = p.req
    · subst h; simp [hm]
    · have h' : ¬ p.req = r := fun e => h e.symm
      simp [h, h', ht r]
  · have hm' : p.more = false := by simpa using hm
    simp only [hm', Bool.false_eq_true, ↓reduceIte]
    have htr : Tracks (derase st p.req) (pre ++ [p]) := by
      intro r
      rw [dgetOrEmpty_derase, openParts_snoc]
      by_cases h : r = p.req
      · subst h; simp [hm']
      · have h' : ¬ p.req = r := fun e => h e.symm
        simp [h, h', ht r]
    cases hh : handlerOf p.type with
    | none => have := hp.2; rw [hh] at this; cases this
    | some hd =>
      refine ⟨htr, ?_⟩
      simp only [eventAt, hm', Bool.false_eq_true, ↓reduceIte, Out.ofOption, ht p.req]
      cases hd with
      | concat => rfl
      | first =>
        -- DESC / AGGREGATE: no part of such a type is ever kept open, so the list is `[p]`
        have hempty : openParts pre p.req = [] := by
          cases ho : openParts pre p.req with
          | nil => rfl
          | cons q qs =>
            exfalso
            have hq : q ∈ openParts pre p.req := by rw [ho]; exact List.mem_cons_self
            obtain ⟨h1, h2, h3⟩ := mem_openParts hq
            have hqa := hpre q h1 h3
            have : q.type = p.type := by
              have := congrArg Prod.snd h2; simpa [Part.req] using this
            rw [this] at hqa
            rw [handlerOf_agg hqa] at hh; cases hh
        simp [hempty, runHandler]

theorem runStats_length (st : Pending) (s : List Part) : (runStats st s).2.length = s.length := by
  induction s generalizing st with
  | nil => rfl
  | cons p s ih => simp [runStats, ih]

theorem runStats_tracks (st : Pending) (pre s : List Part) (ht : Tracks st pre)
    (hpre : ∀ q ∈ pre, q.more = true → aggregatable q.type = true) (hs : ∀ p ∈ s, WellTyped p) :
    (runStats st s).2 = (eventsFrom pre s).map Out.ofOption ∧ Tracks (runStats st s).1 (pre ++ s) := by
  induction s generalizing st pre with
  | nil => exact ⟨rfl, by simp only [runStats, List.append_nil]; exact ht⟩
  | cons p s ih =>
    obtain ⟨h1, h2⟩ := incoming_tracks st pre p ht (hs p List.mem_cons_self) hpre
    have hpre' : ∀ q ∈ pre ++ [p], q.more = true → aggregatable q.type = true := by
      intro q hq
      rcases List.mem_append.mp hq with h | h
      · exact hpre q h
      · simp only [List.mem_singleton] at h; subst h; exact (hs q List.mem_cons_self).1
    obtain ⟨i1, i2⟩ := ih (incoming st p).1 (pre ++ [p]) h1 hpre' (fun q hq => hs q (List.mem_cons_of_mem _ hq))
    refine ⟨?_, ?_⟩
    · simp only [runStats, eventsFrom, List.map_cons, i1, h2]
    · simp only [runStats]
      rw [show pre ++ p :: s = pre ++ [p] ++ s by simp]
      exact i2

/-! ### the specification: one reply, and replies interleaved with other requests' parts -/

/-- a reply whose parts arrive after `pre`, the request having the open parts `o` at that point -/
theorem eventsFrom_reply (pre : List Part) (xid t : Nat) (init : List (List Nat)) (last : List Nat) :
    eventsFrom pre (mkReply xid t init last) =
      List.replicate init.length none ++
        [some ⟨t, (openParts pre (xid, t)).flatMap (fun q => q.body) ++ (init ++ [last]).flatten,
               (openParts pre (xid, t)).map (fun q => q.xid) ++ List.replicate (init.length + 1) xid⟩] := by
  induction init generalizing pre with
  | nil =>
    simp [mkReply, eventsFrom, eventAt, Part.req, List.flatMap_append]
  | cons b init ih =>
    have hm : mkReply xid t (b :: init) last = ⟨xid, t, true, b⟩ :: mkReply xid t init last := by
      simp [mkReply]
    rw [hm]
    simp only [eventsFrom, eventAt, ↓reduceIte, List.length_cons, List.replicate_succ, List.cons_append]
    rw [ih (pre ++ [(⟨xid, t, true, b⟩ : Part)]), openParts_snoc]
    simp [Part.req, List.flatMap_append, List.replicate_succ]

theorem eventAt_proj (pre : List Part) (p : Part) :
    eventAt (pre.filter (fun q => q.req == p.req)) p = eventAt pre p := by
  unfold eventAt
  rw [openParts_filter]

/-- the events of request `r` depend only on the parts of request `r`: whatever other requests' parts are in between -/
theorem events_proj (pre s : List Part) (r : Req) :
    (s.zip (eventsFrom pre s)).filter (fun x => x.1.req == r) =
      (s.filter (fun q => q.req == r)).zip
        (eventsFrom (pre.filter (fun q => q.req == r)) (s.filter (fun q => q.req == r))) := by
  induction s generalizing pre with
  | nil => simp [eventsFrom]
  | cons p s ih =>
    simp only [eventsFrom, List.zip_cons_cons, List.filter_cons]
    by_cases h : (p.req == r) = true
    · simp only [h, ↓reduceIte, eventsFrom, List.zip_cons_cons]
      have hr : p.req = r := by simpa using h
      rw [ih (pre ++ [p])]
      subst hr
      rw [eventAt_proj]
      simp [List.filter_append, List.filter_cons]
    · have h' : (p.req == r) = false := by simpa using h
      simp only [h', Bool.false_eq_true, ↓reduceIte]
      rw [ih (pre ++ [p])]
      simp [List.filter_append, List.filter_cons, h']

end Pox.StatsAgg
