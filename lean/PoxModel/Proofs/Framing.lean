import PoxModel.Model.Framing
/-! Helper lemmas for C02 (framing).  Core only. -/
namespace Pox.Framing
variable {Msg : Type}

/-- header conditions of a well-formed encoded message -/
structure Hdr (e : Bytes) : Prop where
  len8 : 8 ≤ e.length
  lt : e.length < 65536
  ver : byteAt e 0 = 1
  decl : declLen e 0 = e.length

/-- well-formed w.r.t. the controller-side decoder call `U ty buf offset` -/
structure WF (U : Unpack Msg) (e : Bytes) (m : Msg) : Prop extends Hdr e where
  dec : ∀ pre post, U (byteAt e 1) (pre ++ e ++ post) pre.length = .ok (pre.length + e.length, m)

/-- well-formed w.r.t. the switch-side decoder call `U ty buf 0` -/
structure SWF (U : Unpack Msg) (e : Bytes) (m : Msg) : Prop extends Hdr e where
  dec : ∀ post, U (byteAt e 1) (e ++ post) 0 = .ok (e.length, m)

theorem WF.toSWF {U : Unpack Msg} {e m} (h : WF U e m) : SWF U e m :=
  { toHdr := h.toHdr, dec := fun post => by simpa using h.dec [] post }

theorem byteAt_append_right (pre x : Bytes) (i : Nat) : byteAt (pre ++ x) (pre.length + i) = byteAt x i := by
  unfold byteAt
  simp [List.getD_eq_getElem?_getD, List.getElem?_append_right]

theorem byteAt_append_left (x y : Bytes) (i : Nat) (h : i < x.length) : byteAt (x ++ y) i = byteAt x i := by
  unfold byteAt
  simp [List.getD_eq_getElem?_getD, List.getElem?_append_left h]

/-- the tail left in a buffer: empty, or a strict prefix of a further well-formed message -/
def TailOK (W : Bytes → Msg → Prop) (tl : Bytes) : Prop :=
  tl = [] ∨ ∃ e m y, W e m ∧ e = tl ++ y ∧ y ≠ []

/-- what a correct `feed` does: if the enlarged buffer is `enc(done) ++ tl`, it delivers `done` and keeps `tl` -/
def FeedOK (W : Bytes → Msg → Prop) (feed : CS Msg → Bytes → CS Msg) : Prop :=
  ∀ (s : CS Msg) (c : Bytes) (done : List (Bytes × Msg)) (tl : Bytes),
    s.st = .alive → (∀ p ∈ done, W p.1 p.2) → TailOK W tl →
    s.buf ++ c = (done.map (·.1)).flatten ++ tl →
    feed s c = { buf := tl, delivered := s.delivered ++ done.map (·.2), st := .alive }

theorem prefix_split (encs : List Bytes) :
    ∀ (x rest : Bytes), x ++ rest = encs.flatten →
    ∃ done rem tl, encs = done ++ rem ∧ x = done.flatten ++ tl ∧
      (tl = [] ∨ ∃ e rem' y, rem = e :: rem' ∧ e = tl ++ y ∧ y ≠ []) := by
  induction encs with
  | nil =>
    intro x rest h
    simp at h
    exact ⟨[], [], [], rfl, by simp [h.1], .inl rfl⟩
  | cons e es ih =>
    intro x rest h
    simp only [List.flatten_cons] at h
    rcases List.append_eq_append_iff.mp h with ⟨a, he, hr⟩ | ⟨c, hx, hes⟩
    · by_cases ha : a = []
      · subst ha
        simp at he
        exact ⟨[e], es, [], rfl, by simp [he], .inl rfl⟩
      · by_cases hxn : x = []
        · exact ⟨[], e :: es, [], rfl, by simp [hxn], .inl rfl⟩
        · exact ⟨[], e :: es, x, rfl, by simp, .inr ⟨e, es, a, rfl, he, ha⟩⟩
    · obtain ⟨done, rem, tl, h1, h2, h3⟩ := ih c rest hes.symm
      exact ⟨e :: done, rem, tl, by simp [h1], by simp [hx, h2, List.append_assoc], h3⟩

theorem flatten_len_ge (l : List Bytes) (h : ∀ e ∈ l, 0 < e.length) : l.length ≤ l.flatten.length := by
  induction l with
  | nil => simp
  | cons a as ih =>
    have h1 := ih (fun e he => h e (by simp [he]))
    have h2 := h a (by simp)
    simp only [List.flatten_cons, List.length_append, List.length_cons]; omega

/-- Generic prefix theorem: after ANY prefix of the stream, cut into ANY chunks, exactly the complete messages have been
    delivered (in order, once each) and the buffer holds exactly the bytes of the incomplete tail. -/
theorem stream_prefix (W : Bytes → Msg → Prop) (feed : CS Msg → Bytes → CS Msg) (hf : FeedOK W feed) :
    ∀ (chunks : List Bytes) (rem : List (Bytes × Msg)) (s : CS Msg) (rest : Bytes),
      (∀ p ∈ rem, W p.1 p.2) → s.st = .alive →
      s.buf ++ chunks.flatten ++ rest = (rem.map (·.1)).flatten →
      (s.buf = [] ∨ ∃ e m rem' y, rem = (e, m) :: rem' ∧ e = s.buf ++ y ∧ y ≠ []) →
      ∃ done rem2 tl, rem = done ++ rem2 ∧
        (chunks.foldl feed s).delivered = s.delivered ++ done.map (·.2) ∧
        (chunks.foldl feed s).buf = tl ∧ (chunks.foldl feed s).st = .alive ∧
        s.buf ++ chunks.flatten = (done.map (·.1)).flatten ++ tl ∧
        (tl = [] ∨ ∃ e m rem' y, rem2 = (e, m) :: rem' ∧ e = tl ++ y ∧ y ≠ []) := by
  intro chunks
  induction chunks with
  | nil =>
    intro rem s rest hwf hal hb ht
    exact ⟨[], rem, s.buf, by simp, by simp, by simp, by simpa using hal, by simp, ht⟩
  | cons c cs ih =>
    intro rem s rest hwf hal hb ht
    simp only [List.foldl_cons]
    have hb' : (s.buf ++ c) ++ (cs.flatten ++ rest) = (rem.map (·.1)).flatten := by
      simpa [List.append_assoc] using hb
    obtain ⟨doneE, remE, tl, h1, h2, h3⟩ := prefix_split (rem.map (·.1)) (s.buf ++ c) (cs.flatten ++ rest) hb'
    obtain ⟨done, rem2, hrem, hd, hr2⟩ := List.map_eq_append_iff.mp h1
    subst hrem
    have hwfd : ∀ p ∈ done, W p.1 p.2 := fun p hp => hwf p (by simp [hp])
    have hwf2 : ∀ p ∈ rem2, W p.1 p.2 := fun p hp => hwf p (by simp [hp])
    have ht2 : tl = [] ∨ ∃ e m rem' y, rem2 = (e, m) :: rem' ∧ e = tl ++ y ∧ y ≠ [] := by
      rcases h3 with h | ⟨e, rem', y, hre, he, hy⟩
      · exact .inl h
      · right
        rw [← hr2] at hre
        cases rem2 with
        | nil => simp at hre
        | cons p ps =>
          simp at hre
          exact ⟨p.1, p.2, ps, y, rfl, by rw [hre.1]; exact he, hy⟩
    have htl : TailOK W tl := by
      rcases ht2 with h | ⟨e, m, rem', y, hre, he, hy⟩
      · exact .inl h
      · exact .inr ⟨e, m, y, hwf2 (e, m) (by simp [hre]), he, hy⟩
    have hbuf : s.buf ++ c = (done.map (·.1)).flatten ++ tl := by rw [h2, hd]
    have hfeed := hf s c done tl hal hwfd htl hbuf
    rw [hfeed]
    have hb2 : tl ++ cs.flatten ++ rest = (rem2.map (·.1)).flatten := by
      have : (done.map (·.1)).flatten ++ (tl ++ (cs.flatten ++ rest))
           = (done.map (·.1)).flatten ++ (rem2.map (·.1)).flatten := by
        have e := hb'
        rw [h2, ← hd] at e
        simpa [List.append_assoc] using e
      simpa [List.append_assoc] using List.append_cancel_left this
    obtain ⟨d3, r3, tl3, e1, e2, e3, e4, e5, e6⟩ :=
      ih rem2 { buf := tl, delivered := s.delivered ++ done.map (·.2), st := .alive } rest hwf2 rfl hb2 ht2
    refine ⟨done ++ d3, r3, tl3, by simp [e1, List.append_assoc], ?_, e3, e4, ?_, e6⟩
    · simpa [List.append_assoc] using e2
    · simp only [List.flatten_cons]
      have : s.buf ++ (c ++ cs.flatten) = (s.buf ++ c) ++ cs.flatten := by simp [List.append_assoc]
      rw [this, hbuf]
      simp only [] at e5
      simp [List.append_assoc, ← e5]

/-- Whole-stream corollary: when the chunks make up the entire stream nothing is left in the buffer. -/
theorem stream_whole (W : Bytes → Msg → Prop) (feed : CS Msg → Bytes → CS Msg) (hf : FeedOK W feed)
    (hpos : ∀ e m, W e m → 0 < e.length)
    (chunks : List Bytes) (ms : List (Bytes × Msg)) (hwf : ∀ p ∈ ms, W p.1 p.2)
    (hb : chunks.flatten = (ms.map (·.1)).flatten) :
    (chunks.foldl feed init).delivered = ms.map (·.2) ∧ (chunks.foldl feed init).buf = [] ∧
    (chunks.foldl feed init).st = .alive := by
  obtain ⟨done, rem2, tl, e1, e2, e3, e4, e5, e6⟩ :=
    stream_prefix W feed hf chunks ms init [] hwf rfl (by simpa [init] using hb) (.inl rfl)
  subst e1
  have hflat : tl = (rem2.map (·.1)).flatten := by
    have : (done.map (·.1)).flatten ++ tl = (done.map (·.1)).flatten ++ (rem2.map (·.1)).flatten := by
      have := e5; simp only [init, List.nil_append] at this
      rw [← this, hb]; simp
    exact List.append_cancel_left this
  have hposl : ∀ e ∈ rem2.map (·.1), 0 < e.length := by
    intro e he
    obtain ⟨p, hp, rfl⟩ := List.mem_map.mp he
    exact hpos p.1 p.2 (hwf p (by simp [hp]))
  have hrem : rem2 = [] := by
    rcases e6 with h0 | ⟨e, m, rem', y, hr, he, hy⟩
    · have : (rem2.map (·.1)).length ≤ 0 := by
        have := flatten_len_ge _ hposl; rw [← hflat, h0] at this; simpa using this
      cases rem2 with
      | nil => rfl
      | cons a as => simp at this
    · exfalso
      subst hr
      simp only [List.map_cons, List.flatten_cons] at hflat
      have h1 : tl.length = e.length + ((rem'.map (·.1)).flatten).length := by rw [hflat]; simp
      have h2 : e.length = tl.length + y.length := by rw [he]; simp
      have : 0 < y.length := List.length_pos_iff.mpr hy
      omega
  subst hrem
  simp at hflat
  refine ⟨?_, by rw [e3, hflat], e4⟩
  simpa [init] using e2

/-! ### controller side -/

theorem ctlLoop_stuck (U : Unpack Msg) (k fuel : Nat) (hk : k ≤ 8) (pre x : Bytes) (acc : List Msg)
    (e : Bytes) (hh : Hdr e) (y : Bytes) (hx : e = x ++ y) (hy : y ≠ []) :
    ctlLoop U k fuel (pre ++ x) pre.length acc = (pre.length, acc, .alive) := by
  cases fuel with
  | zero => rfl
  | succ f =>
    unfold ctlLoop
    have hlen : (pre ++ x).length - pre.length = x.length := by simp
    by_cases h8 : x.length < 8
    · simp [hlen, h8]
    · have h8' : 8 ≤ x.length := Nat.le_of_not_lt h8
      have b0 : byteAt (pre ++ x) pre.length = 1 := by
        have := byteAt_append_right pre x 0
        simp at this; rw [this]
        have := byteAt_append_left x y 0 (by omega)
        rw [← hx] at this; rw [← this]; exact hh.ver
      have dl : declLen (pre ++ x) pre.length = e.length := by
        unfold declLen
        rw [byteAt_append_right, byteAt_append_right]
        have h2 := byteAt_append_left x y 2 (by omega)
        have h3 := byteAt_append_left x y 3 (by omega)
        rw [← hx] at h2 h3
        rw [← h2, ← h3]
        have := hh.decl; unfold declLen at this; simpa using this
      have ylen : 0 < y.length := List.length_pos_iff.mpr hy
      have elen : e.length = x.length + y.length := by rw [hx]; simp
      have e8 := hh.len8
      have hk' : ¬ e.length < k := by omega
      simp [hlen, h8, b0, dl, hk']
      omega

theorem ctlLoop_batch (U : Unpack Msg) (k : Nat) (hk : k ≤ 8) (ms : List (Bytes × Msg))
    (hwf : ∀ p ∈ ms, WF U p.1 p.2) :
    ∀ (fuel : Nat) (pre tail : Bytes) (acc : List Msg),
      ms.length < fuel → TailOK (WF U) tail →
      ctlLoop U k fuel (pre ++ (ms.map (·.1)).flatten ++ tail) pre.length acc
        = (pre.length + (ms.map (·.1)).flatten.length, acc ++ ms.map (·.2), .alive) := by
  induction ms with
  | nil =>
    intro fuel pre tail acc hf ht
    simp only [List.map_nil, List.flatten_nil, List.append_nil, List.length_nil, Nat.add_zero]
    rcases ht with rfl | ⟨e, m, y, hw, he, hy⟩
    · cases fuel with
      | zero => rfl
      | succ f => unfold ctlLoop; simp
    · exact ctlLoop_stuck U k fuel hk pre tail acc e hw.toHdr y he hy
  | cons p ms ih =>
    intro fuel pre tail acc hf ht
    obtain ⟨e, m⟩ := p
    have hw : WF U e m := hwf (e, m) (by simp)
    cases fuel with
    | zero => simp at hf
    | succ f =>
      have hrest : ∀ q ∈ ms, WF U q.1 q.2 := fun q hq => hwf q (by simp [hq])
      simp only [List.map_cons, List.flatten_cons]
      have hbuf : pre ++ (e ++ (ms.map (·.1)).flatten) ++ tail = pre ++ e ++ ((ms.map (·.1)).flatten ++ tail) := by
        simp [List.append_assoc]
      rw [hbuf]
      unfold ctlLoop
      have hlen : (pre ++ e ++ ((ms.map (·.1)).flatten ++ tail)).length - pre.length
          = e.length + ((ms.map (·.1)).flatten ++ tail).length := by simp
      have b0 : byteAt (pre ++ e ++ ((ms.map (·.1)).flatten ++ tail)) pre.length = 1 := by
        rw [List.append_assoc]
        have := byteAt_append_right pre (e ++ ((ms.map (·.1)).flatten ++ tail)) 0
        simp only [Nat.add_zero] at this; rw [this]
        rw [byteAt_append_left _ _ 0 (by have := hw.len8; omega)]; exact hw.ver
      have b1 : byteAt (pre ++ e ++ ((ms.map (·.1)).flatten ++ tail)) (pre.length + 1) = byteAt e 1 := by
        rw [List.append_assoc, byteAt_append_right]
        exact byteAt_append_left _ _ 1 (by have := hw.len8; omega)
      have dl : declLen (pre ++ e ++ ((ms.map (·.1)).flatten ++ tail)) pre.length = e.length := by
        unfold declLen
        rw [List.append_assoc, byteAt_append_right, byteAt_append_right]
        rw [byteAt_append_left _ _ 2 (by have := hw.len8; omega), byteAt_append_left _ _ 3 (by have := hw.len8; omega)]
        have := hw.decl; unfold declLen at this; simpa using this
      have h8 : ¬ (e.length + ((ms.map (·.1)).flatten ++ tail).length < 8) := by have := hw.len8; omega
      have hk' : ¬ e.length < k := by have := hw.len8; omega
      simp only [hlen, h8, if_false, b0, b1, dl, hk']
      simp only [ne_eq, not_true_eq_false, false_and, if_false]
      have : ¬ (e.length + ((ms.map (·.1)).flatten ++ tail).length < e.length) := by omega
      simp only [this, if_false]
      rw [hw.dec pre ((ms.map (·.1)).flatten ++ tail)]
      simp only []
      have hok : ¬ (pre.length + e.length - pre.length ≠ e.length ∨ pre.length + e.length < pre.length) := by omega
      simp only [hok, if_false]
      have := ih hrest f (pre ++ e) tail (acc ++ [m]) (by simp at hf; omega) ht
      have hb2 : pre ++ e ++ ((ms.map (·.1)).flatten ++ tail) = (pre ++ e) ++ (ms.map (·.1)).flatten ++ tail := by
        simp [List.append_assoc]
      rw [hb2]
      have hl : (pre ++ e).length = pre.length + e.length := by simp
      rw [hl] at this
      rw [this]
      simp [List.append_assoc, Nat.add_assoc]

theorem ctlFeed_ok (U : Unpack Msg) (k : Nat) (hk : k ≤ 8) : FeedOK (WF U) (ctlFeed U k) := by
  intro s c done tl hal hwfd htl hbuf
  have hfuel : done.length < (s.buf ++ c).length + 1 := by
    have hpos : ∀ e ∈ done.map (·.1), 0 < e.length := by
      intro e he
      obtain ⟨p, hp, rfl⟩ := List.mem_map.mp he
      have := (hwfd p hp).len8; omega
    have := flatten_len_ge _ hpos
    have hl : (s.buf ++ c).length = ((done.map (·.1)).flatten).length + tl.length := by
      rw [hbuf, List.length_append]
    rw [List.length_map] at this; omega
  have hloop := ctlLoop_batch U k hk done hwfd ((s.buf ++ c).length + 1) [] tl s.delivered hfuel htl
  simp only [List.length_nil, Nat.zero_add, List.nil_append] at hloop
  unfold ctlFeed
  rw [hal]
  simp only []
  rw [hbuf] at hloop ⊢
  rw [hloop]
  simp

/-! ### switch side -/

theorem swLoop_stuck (U : Unpack Msg) (fuel : Nat) (x : Bytes) (acc : List Msg)
    (e : Bytes) (hh : Hdr e) (y : Bytes) (hx : e = x ++ y) (hy : y ≠ []) :
    swLoop U fuel x acc = (x, acc, .alive) := by
  cases fuel with
  | zero => rfl
  | succ f =>
    unfold swLoop
    by_cases h4 : x.length < 4
    · simp [h4]
    · have h4' : 4 ≤ x.length := Nat.le_of_not_lt h4
      have b0 : byteAt x 0 = 1 := by
        have := byteAt_append_left x y 0 (by omega)
        rw [← hx] at this; rw [← this]; exact hh.ver
      have dl : declLen x 0 = e.length := by
        unfold declLen
        have h2 := byteAt_append_left x y 2 (by omega)
        have h3 := byteAt_append_left x y 3 (by omega)
        rw [← hx] at h2 h3
        simp only [Nat.zero_add]
        rw [← h2, ← h3]
        have := hh.decl; unfold declLen at this; simpa using this
      have ylen : 0 < y.length := List.length_pos_iff.mpr hy
      have elen : e.length = x.length + y.length := by rw [hx]; simp
      have e8 := hh.len8
      have hn8 : ¬ e.length < 8 := by omega
      simp [h4, b0, dl, hn8]
      omega

theorem swLoop_batch (U : Unpack Msg) (ms : List (Bytes × Msg)) (hwf : ∀ p ∈ ms, SWF U p.1 p.2) :
    ∀ (fuel : Nat) (tail : Bytes) (acc : List Msg),
      ms.length < fuel → TailOK (SWF U) tail →
      swLoop U fuel ((ms.map (·.1)).flatten ++ tail) acc = (tail, acc ++ ms.map (·.2), .alive) := by
  induction ms with
  | nil =>
    intro fuel tail acc hf ht
    simp only [List.map_nil, List.flatten_nil, List.append_nil, List.nil_append]
    rcases ht with rfl | ⟨e, m, y, hw, he, hy⟩
    · cases fuel with
      | zero => rfl
      | succ f => unfold swLoop; simp
    · exact swLoop_stuck U fuel tail acc e hw.toHdr y he hy
  | cons p ms ih =>
    intro fuel tail acc hf ht
    obtain ⟨e, m⟩ := p
    have hw : SWF U e m := hwf (e, m) (by simp)
    cases fuel with
    | zero => simp at hf
    | succ f =>
      have hrest : ∀ q ∈ ms, SWF U q.1 q.2 := fun q hq => hwf q (by simp [hq])
      simp only [List.map_cons, List.flatten_cons]
      have hbuf : (e ++ (ms.map (·.1)).flatten) ++ tail = e ++ ((ms.map (·.1)).flatten ++ tail) := by
        simp [List.append_assoc]
      rw [hbuf]
      unfold swLoop
      have e8 := hw.len8
      have b0 : byteAt (e ++ ((ms.map (·.1)).flatten ++ tail)) 0 = 1 := by
        rw [byteAt_append_left _ _ 0 (by omega)]; exact hw.ver
      have b1 : byteAt (e ++ ((ms.map (·.1)).flatten ++ tail)) 1 = byteAt e 1 :=
        byteAt_append_left _ _ 1 (by omega)
      have dl : declLen (e ++ ((ms.map (·.1)).flatten ++ tail)) 0 = e.length := by
        unfold declLen
        simp only [Nat.zero_add]
        rw [byteAt_append_left _ _ 2 (by omega), byteAt_append_left _ _ 3 (by omega)]
        have := hw.decl; unfold declLen at this; simpa using this
      have h4 : ¬ ((e ++ ((ms.map (·.1)).flatten ++ tail)).length < 4) := by simp; omega
      have hgt : ¬ (e.length > (e ++ ((ms.map (·.1)).flatten ++ tail)).length) := by simp
      have hn8 : ¬ e.length < 8 := by omega
      simp only [h4, if_false, b0, b1, dl, hgt, hn8, ne_eq, not_true_eq_false]
      rw [hw.dec ((ms.map (·.1)).flatten ++ tail)]
      simp only [not_true_eq_false, if_false]
      have hd : (e ++ ((ms.map (·.1)).flatten ++ tail)).drop e.length = (ms.map (·.1)).flatten ++ tail := by simp
      rw [hd]
      have := ih hrest f tail (acc ++ [m]) (by simp at hf; omega) ht
      rw [this]
      simp [List.append_assoc]

theorem swFeed_ok (U : Unpack Msg) : FeedOK (SWF U) (swFeed U) := by
  intro s c done tl hal hwfd htl hbuf
  have hfuel : done.length < (s.buf ++ c).length + 1 := by
    have hpos : ∀ e ∈ done.map (·.1), 0 < e.length := by
      intro e he
      obtain ⟨p, hp, rfl⟩ := List.mem_map.mp he
      have := (hwfd p hp).len8; omega
    have := flatten_len_ge _ hpos
    have hl : (s.buf ++ c).length = ((done.map (·.1)).flatten).length + tl.length := by
      rw [hbuf, List.length_append]
    rw [List.length_map] at this; omega
  have hloop := swLoop_batch U done hwfd ((s.buf ++ c).length + 1) tl s.delivered hfuel htl
  unfold swFeed
  rw [hal]
  simp only []
  rw [hbuf] at hloop ⊢
  rw [hloop]

/-! ### the slice decoder of the driver satisfies the decoder hypothesis for every header-valid message -/

theorem sliceU_wf (e : Bytes) (hh : Hdr e) : WF sliceU e e := by
  refine { toHdr := hh, dec := ?_ }
  intro pre post
  unfold sliceU
  have e8 := hh.len8
  have dl : declLen (pre ++ e ++ post) pre.length = e.length := by
    unfold declLen
    rw [List.append_assoc, byteAt_append_right, byteAt_append_right]
    rw [byteAt_append_left _ _ 2 (by omega), byteAt_append_left _ _ 3 (by omega)]
    have := hh.decl; unfold declLen at this; simpa using this
  rw [dl]
  simp [List.append_assoc]


/-- the decomposition "complete messages ++ strict prefix of the next one" of a stream prefix is unique -/
theorem decomp_unique : ∀ (d1 d2 r1 r2 : List (Bytes × Msg)) (t1 t2 : Bytes),
    (∀ p ∈ d1 ++ r1, p.1 ≠ []) → d1 ++ r1 = d2 ++ r2 →
    (d1.map (·.1)).flatten ++ t1 = (d2.map (·.1)).flatten ++ t2 →
    (t1 = [] ∨ ∃ e m rem' y, r1 = (e, m) :: rem' ∧ e = t1 ++ y ∧ y ≠ []) →
    (t2 = [] ∨ ∃ e m rem' y, r2 = (e, m) :: rem' ∧ e = t2 ++ y ∧ y ≠ []) →
    d1 = d2 ∧ t1 = t2 := by
  intro d1
  induction d1 with
  | nil =>
    intro d2 r1 r2 t1 t2 hne he hs c1 c2
    cases d2 with
    | nil => exact ⟨rfl, by simpa using hs⟩
    | cons p d2' =>
      exfalso
      simp only [List.nil_append, List.map_nil, List.flatten_nil, List.map_cons, List.flatten_cons, List.cons_append,
        List.append_assoc] at he hs
      have hp : p.1 ≠ [] := hne p (by simp [he])
      have hl : p.1.length ≤ t1.length := by rw [hs]; simp
      rcases c1 with h | ⟨e, m, rem', y, hr, hey, hy⟩
      · subst h; simp at hl; exact hp hl
      · rw [hr] at he
        have : (e, m) = p := (List.cons.inj he).1
        subst this
        have hlen : e.length = t1.length + y.length := by rw [hey]; simp
        have : 0 < y.length := List.length_pos_iff.mpr hy
        simp only at hl; omega
  | cons p d1' ih =>
    intro d2 r1 r2 t1 t2 hne he hs c1 c2
    cases d2 with
    | nil =>
      exfalso
      simp only [List.nil_append, List.map_nil, List.flatten_nil, List.map_cons, List.flatten_cons, List.cons_append,
        List.append_assoc] at he hs
      have hp : p.1 ≠ [] := hne p (by simp)
      have hl : p.1.length ≤ t2.length := by rw [← hs]; simp
      rcases c2 with h | ⟨e, m, rem', y, hr, hey, hy⟩
      · subst h; simp at hl; exact hp hl
      · rw [hr] at he
        have : p = (e, m) := (List.cons.inj he).1
        subst this
        have hlen : e.length = t2.length + y.length := by rw [hey]; simp
        have : 0 < y.length := List.length_pos_iff.mpr hy
        simp only at hl; omega
    | cons q d2' =>
      simp only [List.cons_append, List.map_cons, List.flatten_cons, List.append_assoc] at he hs
      obtain ⟨hpq, he'⟩ := List.cons.inj he
      subst hpq
      have hs' := List.append_cancel_left hs
      obtain ⟨hd, ht⟩ := ih d2' r1 r2 t1 t2 (fun x hx => hne x (by simp only [List.cons_append, List.mem_cons]; exact .inr hx)) he' hs' c1 c2
      exact ⟨by rw [hd], ht⟩
end Pox.Framing
