import PoxModel.Proofs.Contain
/-! the window-keeping controller loop `ctlLoopT`: it is `ctlLoop` plus bookkeeping, and its windows tile the consumed
prefix of the buffer -/
namespace Pox.Framing
variable {Msg : Type}

theorem map_snd_snoc (ev : List (Bytes × Msg)) (w : Bytes) (m : Msg) : (ev ++ [(w, m)]).map (·.2) = ev.map (·.2) ++ [m] := by simp

theorem ctlLoopT_proj (U : Unpack Msg) (minLen : Nat) : ∀ (fuel : Nat) (buf : Bytes) (off : Nat) (ev : List (Bytes × Msg)),
    (ctlLoopT U minLen fuel buf off ev).1 = (ctlLoop U minLen fuel buf off (ev.map (·.2))).1 ∧
    (ctlLoopT U minLen fuel buf off ev).2.1.map (·.2) = (ctlLoop U minLen fuel buf off (ev.map (·.2))).2.1 ∧
    (ctlLoopT U minLen fuel buf off ev).2.2 = (ctlLoop U minLen fuel buf off (ev.map (·.2))).2.2 := by
  intro fuel
  induction fuel with
  | zero => intro buf off ev; simp [ctlLoopT, ctlLoop]
  | succ f ih =>
    intro buf off ev
    rw [ctlLoopT, ctlLoop]
    simp only []
    by_cases c1 : buf.length - off < 8
    · simp [if_pos c1]
    · by_cases c2 : byteAt buf off ≠ 1 ∧ byteAt buf (off+1) ≠ 0
      · simp [if_neg c1, if_pos c2]
      · by_cases c3 : declLen buf off < minLen
        · simp [if_neg c1, if_neg c2, if_pos c3]
        · by_cases c4 : buf.length - off < declLen buf off
          · simp [if_neg c1, if_neg c2, if_neg c3, if_pos c4]
          · simp only [if_neg c1, if_neg c2, if_neg c3, if_neg c4]
            cases hU : U (byteAt buf (off+1)) buf off with
            | raise => simp
            | none => simp
            | ok p =>
              obtain ⟨off', m⟩ := p
              simp only []
              by_cases c5 : off' - off ≠ declLen buf off ∨ off' < off
              · simp [if_pos c5]
              · simp only [if_neg c5]
                have := ih buf off' (ev ++ [((buf.drop off).take (declLen buf off), m)])
                rw [map_snd_snoc] at this
                exact this

/-- a window the controller loop consumed: a whole message whose declared length is its size, at least a header -/
def CtlFramed (w : Bytes) : Prop := 8 ≤ w.length ∧ w.length = declLen w 0

theorem ctlFramed_window (buf : Bytes) (off n : Nat) (hn : n = declLen buf off) (h8 : 8 ≤ n) (hle : off + n ≤ buf.length) :
    CtlFramed ((buf.drop off).take n) := by
  have hwlen : ((buf.drop off).take n).length = n := by simp; omega
  have hb : ∀ i, i < 4 → byteAt ((buf.drop off).take n) i = byteAt buf (off + i) := by
    intro i hi
    unfold byteAt
    simp only [List.getD_eq_getElem?_getD]
    rw [List.getElem?_take_of_lt (by omega), List.getElem?_drop]
  have hd : declLen ((buf.drop off).take n) 0 = declLen buf off := by
    unfold declLen; simp only [Nat.zero_add]; rw [hb 2 (by omega), hb 3 (by omega)]
  exact ⟨by omega, by rw [hwlen, hd]; exact hn⟩

theorem take_add_drop (l : Bytes) (a b : Nat) : l.take a ++ (l.drop a).take b = l.take (a + b) := by
  rw [List.take_add]

/-- **tiling** (controller): the new windows, in order, are exactly the bytes between the offset the pass started at and
the offset it stopped at; each is well framed and was decoded by `U` at a message boundary -/
theorem ctlLoopT_tiling (U : Unpack Msg) : ∀ (fuel : Nat) (buf : Bytes) (off : Nat) (ev : List (Bytes × Msg)), off ≤ buf.length →
    ∃ new, (ctlLoopT U 8 fuel buf off ev).2.1 = ev ++ new ∧
      off ≤ (ctlLoopT U 8 fuel buf off ev).1 ∧ (ctlLoopT U 8 fuel buf off ev).1 ≤ buf.length ∧
      (new.map (·.1)).flatten = (buf.drop off).take ((ctlLoopT U 8 fuel buf off ev).1 - off) ∧
      ∀ e ∈ new, CtlFramed e.1 := by
  intro fuel
  induction fuel with
  | zero =>
    intro buf off ev ho
    exact ⟨[], by simp [ctlLoopT], by simp [ctlLoopT], by simpa [ctlLoopT] using ho, by simp [ctlLoopT], by simp⟩
  | succ f ih =>
    intro buf off ev ho
    rw [ctlLoopT]
    simp only []
    have triv : ∃ new, ev = ev ++ new ∧ off ≤ off ∧ off ≤ buf.length ∧
        (new.map (·.1)).flatten = (buf.drop off).take (off - off) ∧ ∀ e ∈ new, CtlFramed e.1 :=
      ⟨[], by simp, Nat.le_refl _, ho, by simp, by simp⟩
    by_cases c1 : buf.length - off < 8
    · simp only [if_pos c1]; exact triv
    · by_cases c2 : byteAt buf off ≠ 1 ∧ byteAt buf (off+1) ≠ 0
      · simp only [if_neg c1, if_pos c2]; exact triv
      · by_cases c3 : declLen buf off < 8
        · simp only [if_neg c1, if_neg c2, if_pos c3]; exact triv
        · by_cases c4 : buf.length - off < declLen buf off
          · simp only [if_neg c1, if_neg c2, if_neg c3, if_pos c4]; exact triv
          · simp only [if_neg c1, if_neg c2, if_neg c3, if_neg c4]
            cases hU : U (byteAt buf (off+1)) buf off with
            | raise => exact triv
            | none => exact triv
            | ok p =>
              obtain ⟨off', m⟩ := p
              simp only []
              by_cases c5 : off' - off ≠ declLen buf off ∨ off' < off
              · simp only [if_pos c5]; exact triv
              · simp only [if_neg c5]
                have hoff : off' = off + declLen buf off := by omega
                have hle : off' ≤ buf.length := by omega
                obtain ⟨new, h1, h2, h3, h4, h5⟩ := ih buf off' (ev ++ [((buf.drop off).take (declLen buf off), m)]) hle
                have hframed := ctlFramed_window buf off (declLen buf off) rfl (by omega) (by omega)
                refine ⟨((buf.drop off).take (declLen buf off), m) :: new, by rw [h1]; simp, by omega, h3, ?_, ?_⟩
                · simp only [List.map_cons, List.flatten_cons]
                  rw [h4, hoff]
                  have : (buf.drop off).drop (declLen buf off) = buf.drop (off + declLen buf off) := by
                    rw [List.drop_drop]
                  rw [← this, take_add_drop]
                  congr 1
                  rw [hoff] at h2
                  omega
                · intro e he
                  rcases List.mem_cons.mp he with rfl | he
                  · exact hframed
                  · exact h5 e he

/-- everything a controller connection has received is accounted for: dispatched windows in order, then the bytes still
buffered, then — once the connection is no longer alive — the bytes that arrived afterwards and were ignored -/
structure CtlAccounted (s : CCT Msg) (inp : Bytes) : Prop where
  tiled : ∃ rest, inp = (s.trace.map (·.1)).flatten ++ s.buf ++ rest ∧ (s.st = .alive → rest = [])
  framed : ∀ e ∈ s.trace, CtlFramed e.1

theorem ctlAccounted_step (U : Unpack Msg) (s : CCT Msg) (inp chunk : Bytes) (h : CtlAccounted s inp) :
    CtlAccounted (ctlFeedT U 8 s chunk) (inp ++ chunk) := by
  obtain ⟨⟨rest, ht, hrest⟩, hf⟩ := h
  unfold ctlFeedT
  cases hst : s.st with
  | dead =>
    simp only []
    exact ⟨⟨rest ++ chunk, by rw [ht]; simp [List.append_assoc], by intro ha; rw [hst] at ha; cases ha⟩, hf⟩
  | closed =>
    simp only []
    exact ⟨⟨rest ++ chunk, by rw [ht]; simp [List.append_assoc], by intro ha; rw [hst] at ha; cases ha⟩, hf⟩
  | alive =>
    simp only []
    have hr0 := hrest hst; subst hr0
    obtain ⟨new, h1, -, h3, h4, h5⟩ := ctlLoopT_tiling U ((s.buf ++ chunk).length + 1) (s.buf ++ chunk) 0 s.trace (Nat.zero_le _)
    refine ⟨⟨[], ?_, fun _ => rfl⟩, ?_⟩
    · simp only [List.append_nil]
      rw [h1, ht]
      simp only [List.map_append, List.flatten_append, List.append_nil, List.append_assoc]
      rw [h4]
      simp only [List.drop_zero, Nat.sub_zero]
      rw [List.take_append_drop]
    · intro e he
      simp only [] at he
      rw [h1] at he
      rcases List.mem_append.mp he with he | he
      · exact hf e he
      · exact h5 e he

theorem ctlAccounted_run (U : Unpack Msg) (chunks : List Bytes) :
    CtlAccounted (chunks.foldl (ctlFeedT U 8) initCT) chunks.flatten := by
  have : ∀ (s : CCT Msg) (inp : Bytes), CtlAccounted s inp → CtlAccounted (chunks.foldl (ctlFeedT U 8) s) (inp ++ chunks.flatten) := by
    induction chunks with
    | nil => intro s inp h; simpa using h
    | cons c cs ih =>
      intro s inp h
      simp only [List.foldl_cons, List.flatten_cons]
      rw [← List.append_assoc]
      exact ih _ _ (ctlAccounted_step U s inp c h)
  simpa using this initCT [] ⟨⟨[], by simp [initCT], fun _ => rfl⟩, by simp [initCT]⟩

theorem ctlFeedT_proj (U : Unpack Msg) (chunks : List Bytes) :
    (chunks.foldl (ctlFeedT U 8) initCT).buf = (chunks.foldl (ctlFeed U 8) init).buf ∧
    (chunks.foldl (ctlFeedT U 8) initCT).trace.map (·.2) = (chunks.foldl (ctlFeed U 8) init).delivered ∧
    (chunks.foldl (ctlFeedT U 8) initCT).st = (chunks.foldl (ctlFeed U 8) init).st := by
  have : ∀ (t : CCT Msg) (s : CS Msg), t.buf = s.buf → t.trace.map (·.2) = s.delivered → t.st = s.st →
      (chunks.foldl (ctlFeedT U 8) t).buf = (chunks.foldl (ctlFeed U 8) s).buf ∧
      (chunks.foldl (ctlFeedT U 8) t).trace.map (·.2) = (chunks.foldl (ctlFeed U 8) s).delivered ∧
      (chunks.foldl (ctlFeedT U 8) t).st = (chunks.foldl (ctlFeed U 8) s).st := by
    induction chunks with
    | nil => intro t s h1 h2 h3; exact ⟨h1, h2, h3⟩
    | cons c cs ih =>
      intro t s h1 h2 h3
      simp only [List.foldl_cons]
      apply ih
      all_goals
        unfold ctlFeedT ctlFeed
        rw [← h3]
        cases hst : t.st <;> simp only [] <;> (try assumption)
      · rw [← h1, ← h2, (ctlLoopT_proj U 8 _ _ 0 t.trace).1]
      · rw [← h1, ← h2]; exact (ctlLoopT_proj U 8 _ _ 0 t.trace).2.1
      · rw [← h1, ← h2]; exact (ctlLoopT_proj U 8 _ _ 0 t.trace).2.2
  exact this initCT init rfl rfl rfl

end Pox.Framing
