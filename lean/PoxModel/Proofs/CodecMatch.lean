import PoxModel.Proofs.Layout
import PoxModel.Model.CodecMatch
/-! Lemmas for the `ofp_match` hand model: the wildcard word survives the wire (`ofNat_toNat`), the 40 bytes decode to
    the values that were packed (`unpack_pack`), and the case analysis over the prerequisite lattice. Core only. -/
set_option linter.unusedSimpArgs false
namespace Pox.CodecMatch
open Pox Pox.Layout

theorem b2n_le (b : Bool) : b2n b ≤ 1 := by cases b <;> simp [b2n]
theorem b2n_eq_one (b : Bool) : decide (b2n b = 1) = b := by cases b <;> simp [b2n]

theorem ofNat_toNat (w : W) (hs : w.nw_src < 64) (hd : w.nw_dst < 64) : W.ofNat (W.toNat w) = w := by
  obtain ⟨b0, b1, b2, b3, b4, b5, b6, b7, s, d, p, t, h⟩ := w
  simp only at hs hd
  have key : ∀ (x0 x1 x2 x3 x4 x5 x6 x7 xp xt : Nat), x0 ≤ 1 → x1 ≤ 1 → x2 ≤ 1 → x3 ≤ 1 → x4 ≤ 1 → x5 ≤ 1 → x6 ≤ 1 →
      x7 ≤ 1 → xp ≤ 1 → xt ≤ 1 →
      ∀ n, n = x0 + 2 * x1 + 4 * x2 + 8 * x3 + 16 * x4 + 32 * x5 + 64 * x6 + 128 * x7 + 256 * s + 16384 * d +
        1048576 * xp + 2097152 * xt + 4194304 * h →
      n / 1 % 2 = x0 ∧ n / 2 % 2 = x1 ∧ n / 4 % 2 = x2 ∧ n / 8 % 2 = x3 ∧ n / 16 % 2 = x4 ∧ n / 32 % 2 = x5 ∧
      n / 64 % 2 = x6 ∧ n / 128 % 2 = x7 ∧ n / 256 % 64 = s ∧ n / 16384 % 64 = d ∧ n / 1048576 % 2 = xp ∧
      n / 2097152 % 2 = xt ∧ n / 4194304 = h := by
    intro x0 x1 x2 x3 x4 x5 x6 x7 xp xt h0 h1 h2 h3 h4 h5 h6 h7 hp ht n hn
    refine ⟨by omega, by omega, by omega, by omega, by omega, by omega, by omega, by omega, by omega, by omega,
      by omega, by omega, by omega⟩
  obtain ⟨e0, e1, e2, e3, e4, e5, e6, e7, es, ed, ep, et, eh⟩ :=
    key (b2n b0) (b2n b1) (b2n b2) (b2n b3) (b2n b4) (b2n b5) (b2n b6) (b2n b7) (b2n p) (b2n t)
      (b2n_le _) (b2n_le _) (b2n_le _) (b2n_le _) (b2n_le _) (b2n_le _) (b2n_le _) (b2n_le _) (b2n_le _) (b2n_le _)
      _ rfl
  simp only [W.ofNat, W.toNat, bit, e0, e1, e2, e3, e4, e5, e6, e7, es, ed, ep, et, eh, b2n_eq_one]

theorem toNat_lt (w : W) (hs : w.nw_src < 64) (hd : w.nw_dst < 64) (hh : w.hi < 1024) : w.toNat < 256 ^ 4 := by
  obtain ⟨b0, b1, b2, b3, b4, b5, b6, b7, s, d, p, t, h⟩ := w
  simp only at hs hd hh
  have := b2n_le b0; have := b2n_le b1; have := b2n_le b2; have := b2n_le b3; have := b2n_le b4
  have := b2n_le b5; have := b2n_le b6; have := b2n_le b7; have := b2n_le p; have := b2n_le t
  simp only [W.toNat]
  omega

theorem vis_orZero (b : Bool) (v : Nat) : vis b (orZero (vis b v)) = vis b v := by cases b <;> rfl

theorem orZero_vis_lt (b : Bool) (v n : Nat) (h : v < n) (hn : 0 < n) : orZero (vis b v) < n := by
  cases b <;> simp [vis, orZero, h, hn]

/-- what `unpack` makes of the thirteen packed values -/
def fromVals (fm : Bool) (wc inp s d vl pcp ty tos pr ns nd ts td : Nat) : M :=
  ⟨normalize (if fm then unwire ty pr (W.ofNat wc) else W.ofNat wc), inp, s, d, vl, pcp, ty, tos, pr, ns, nd, ts, td⟩

/-- the wildcard word `pack` writes -/
def wcOf (fm : Bool) (m : M) : W := if fm then wire m else m.w

theorem wire_bounds (m : M) (hs : m.w.nw_src ≤ 32) (hd : m.w.nw_dst ≤ 32) (hh : m.w.hi < 1024) :
    (wire m).nw_src < 64 ∧ (wire m).nw_dst < 64 ∧ (wire m).hi < 1024 := by
  unfold wire
  repeat' split
  all_goals (refine ⟨?_, ?_, ?_⟩ <;> (try dsimp only) <;> omega)

/-- **bytes level**: `pack` succeeds with 40 bytes and `unpack` of them (followed by anything) recovers exactly the
    packed values -/
theorem unpack_pack (fm : Bool) (m : M) (hr : InRange m) (tl : Bytes) :
    ∃ bs, pack fm m = some bs ∧ bs.length = 40 ∧
      unpack fm (bs ++ tl) = some (
        fromVals fm (wcOf fm m).toNat (orZero m.vInPort) (orZero m.vDlSrc) (orZero m.vDlDst) (orZero m.vDlVlan)
          (orZero m.vPcp) (orZero m.vDlType)
          (if isIP m.vDlType then orZero m.vTos else 0)
          (if isIP m.vDlType || isARP m.vDlType then orZero m.vProto else 0)
          (if isIP m.vDlType || isARP m.vDlType then orZero m.vNwSrc else 0)
          (if isIP m.vDlType || isARP m.vDlType then orZero m.vNwDst else 0)
          (if isIP m.vDlType && isTP m.vProto then orZero m.vTpSrc else 0)
          (if isIP m.vDlType && isTP m.vProto then orZero m.vTpDst else 0), tl) := by
  obtain ⟨h1, h2, h3, h4, h5, h6, h7, h8, h9, h10, h11, h12, h13, h14, h15⟩ := hr
  have hwc : (wcOf fm m).toNat < 256 ^ 4 := by
    unfold wcOf
    cases fm
    · exact toNat_lt _ (by simp; omega) (by simp; omega) (by simpa using h3)
    · obtain ⟨a, b, c⟩ := wire_bounds m h1 h2 h3
      exact toNat_lt _ (by simpa using a) (by simpa using b) (by simpa using c)
  have hsrc : orZero m.vDlSrc < 256 ^ 6 := orZero_vis_lt _ _ _ h5 (by decide)
  have hdst : orZero m.vDlDst < 256 ^ 6 := orZero_vis_lt _ _ _ h6 (by decide)
  have hfit : fitsFixed Spec.OF10.ofp_match (vals fm m) = true := by
    have e1 : orZero m.vInPort < 256 ^ 2 := orZero_vis_lt _ _ _ h4 (by decide)
    have e2 : orZero m.vDlVlan < 256 ^ 2 := orZero_vis_lt _ _ _ h7 (by decide)
    have e3 : orZero m.vPcp < 256 ^ 1 := orZero_vis_lt _ _ _ h8 (by decide)
    have e4 : orZero m.vDlType < 256 ^ 2 := orZero_vis_lt _ _ _ h9 (by decide)
    have e5 : (if isIP m.vDlType then orZero m.vTos else 0) < 256 ^ 1 := by
      split
      · exact orZero_vis_lt _ _ _ h10 (by decide)
      · decide
    have e6 : (if isIP m.vDlType || isARP m.vDlType then orZero m.vProto else 0) < 256 ^ 1 := by
      split
      · exact orZero_vis_lt _ _ _ h11 (by decide)
      · decide
    have e7 : (if isIP m.vDlType || isARP m.vDlType then orZero m.vNwSrc else 0) < 256 ^ 4 := by
      split
      · exact orZero_vis_lt _ _ _ (by simpa using h12) (by decide)
      · decide
    have e8 : (if isIP m.vDlType || isARP m.vDlType then orZero m.vNwDst else 0) < 256 ^ 4 := by
      split
      · exact orZero_vis_lt _ _ _ (by simpa using h13) (by decide)
      · decide
    have e9 : (if isIP m.vDlType && isTP m.vProto then orZero m.vTpSrc else 0) < 256 ^ 2 := by
      split
      · exact orZero_vis_lt _ _ _ h14 (by decide)
      · decide
    have e10 : (if isIP m.vDlType && isTP m.vProto then orZero m.vTpDst else 0) < 256 ^ 2 := by
      split
      · exact orZero_vis_lt _ _ _ h15 (by decide)
      · decide
    have hwc' : (if fm = true then wire m else m.w).toNat < 256 ^ 4 := by simpa [wcOf] using hwc
    simp only [vals, Spec.OF10.ofp_match, fitsFixed, beEnc_length, hwc', e1, e2, e3, e4, e5, e6, e7, e8, e9, e10,
      decide_true, Bool.and_self, Bool.and_true]
  obtain ⟨bs, he, hd⟩ := decFixed_encFixed 0 Spec.OF10.ofp_match (vals fm m) hfit (by decide)
  have hlen := encFixed_length _ _ _ _ he
  refine ⟨bs, by simp [pack, hsrc, hdst, he], by rw [hlen]; decide, ?_⟩
  simp only [unpack, hd tl, vals, fromVals, wcOf, beDec_beEnc 6 _ hsrc, beDec_beEnc 6 _ hdst]

/-! ## value level -/

theorem isIP_orZero (t : Option Nat) (h : isIP t = true) : t = some 0x800 := by
  cases t with
  | none => simp [isIP] at h
  | some x => simpa [isIP] using h

theorem isARP_orZero (t : Option Nat) (h : isARP t = true) : t = some 0x806 := by
  cases t with
  | none => simp [isARP] at h
  | some x => simpa [isARP] using h

theorem other_orZero (t : Option Nat) (h1 : isIP t = false) (h2 : isARP t = false) :
    orZero t ≠ 0x800 ∧ orZero t ≠ 0x806 := by
  cases t with
  | none => simp [orZero]
  | some x => simp [isIP, isARP] at h1 h2; simp [orZero, h1, h2]

theorem isTP_orZero (p : Option Nat) : isTP (some (orZero p)) = isTP p := by
  cases p with
  | none => rfl
  | some x => rfl

/-- what `Normal` says about the wildcard word: every field whose prerequisite is absent is wildcarded -/
theorem normal_facts (m : M) (hn : Normal m) :
    (isIP m.vDlType = false → m.w.nw_tos = true ∧ m.w.tp_src = true ∧ m.w.tp_dst = true) ∧
    (isIP m.vDlType = false → isARP m.vDlType = false → m.w.nw_proto = true ∧ m.w.nw_src = 32 ∧ m.w.nw_dst = 32) ∧
    (isIP m.vDlType = true → isTP m.vProto = false → m.w.tp_src = true ∧ m.w.tp_dst = true) := by
  have h := hn.1
  unfold fix at h
  refine ⟨?_, ?_, ?_⟩
  · intro h1
    simp only [h1, Bool.false_eq_true, ↓reduceIte] at h
    split at h
    · exact ⟨(congrArg W.nw_tos h).symm, (congrArg W.tp_src h).symm, (congrArg W.tp_dst h).symm⟩
    · exact ⟨(congrArg W.nw_tos h).symm, (congrArg W.tp_src h).symm, (congrArg W.tp_dst h).symm⟩
  · intro h1 h2
    simp only [h1, h2, Bool.false_eq_true, ↓reduceIte] at h
    exact ⟨(congrArg W.nw_proto h).symm, (congrArg W.nw_src h).symm, (congrArg W.nw_dst h).symm⟩
  · intro h1 h2
    simp only [h1, h2, Bool.false_eq_true, ↓reduceIte] at h
    exact ⟨(congrArg W.tp_src h).symm, (congrArg W.tp_dst h).symm⟩

/-- the object `unpack(pack(m))` yields -/
def reread (fm : Bool) (m : M) : M :=
  fromVals fm (wcOf fm m).toNat (orZero m.vInPort) (orZero m.vDlSrc) (orZero m.vDlDst) (orZero m.vDlVlan)
    (orZero m.vPcp) (orZero m.vDlType)
    (if isIP m.vDlType then orZero m.vTos else 0)
    (if isIP m.vDlType || isARP m.vDlType then orZero m.vProto else 0)
    (if isIP m.vDlType || isARP m.vDlType then orZero m.vNwSrc else 0)
    (if isIP m.vDlType || isARP m.vDlType then orZero m.vNwDst else 0)
    (if isIP m.vDlType && isTP m.vProto then orZero m.vTpSrc else 0)
    (if isIP m.vDlType && isTP m.vProto then orZero m.vTpDst else 0)

theorem W.ext' (a b : W) (h0 : a.in_port = b.in_port) (h1 : a.dl_vlan = b.dl_vlan) (h2 : a.dl_src = b.dl_src)
    (h3 : a.dl_dst = b.dl_dst) (h4 : a.dl_type = b.dl_type) (h5 : a.nw_proto = b.nw_proto) (h6 : a.tp_src = b.tp_src)
    (h7 : a.tp_dst = b.tp_dst) (h8 : a.nw_src = b.nw_src) (h9 : a.nw_dst = b.nw_dst) (h10 : a.dl_vlan_pcp = b.dl_vlan_pcp)
    (h11 : a.nw_tos = b.nw_tos) (h12 : a.hi = b.hi) : a = b := by
  cases a; cases b; simp_all

/-- the wildcard word of a normal match survives `pack`/`unpack`, in both modes -/
theorem reread_w (fm : Bool) (m : M) (hr : InRange m) (hn : Normal m) : (reread fm m).w = m.w := by
  obtain ⟨hs, hd, hh, _⟩ := hr
  obtain ⟨n1, n2, n3⟩ := normal_facts m hn
  have hnorm : ∀ w : W, w.nw_src ≤ 32 → w.nw_dst ≤ 32 → normalize w = w := by
    intro w a b
    apply W.ext' <;> simp [normalize] <;> omega
  cases fm with
  | false =>
    simp only [reread, fromVals, wcOf, Bool.false_eq_true, ↓reduceIte]
    rw [ofNat_toNat m.w (by omega) (by omega)]
    exact hnorm _ hs hd
  | true =>
    obtain ⟨a, b, _⟩ := wire_bounds m hs hd hh
    simp only [reread, fromVals, wcOf, ↓reduceIte]
    rw [ofNat_toNat (wire m) a b]
    by_cases hip : isIP m.vDlType = true
    · have ho : orZero m.vDlType = 0x800 := by rw [isIP_orZero _ hip]; rfl
      by_cases htp : isTP m.vProto = true
      · simp only [wire, unwire, hip, htp, ho, Bool.true_or, ↓reduceIte, isTP_orZero]
        exact hnorm _ hs hd
      · have htp' : isTP m.vProto = false := by simpa using htp
        obtain ⟨x1, x2⟩ := n3 hip htp'
        simp only [wire, unwire, hip, htp', ho, Bool.true_or, ↓reduceIte, isTP_orZero, Bool.false_eq_true]
        apply W.ext' <;> simp [normalize, x1, x2] <;> omega
    · have hip' : isIP m.vDlType = false := by simpa using hip
      obtain ⟨x1, x2, x3⟩ := n1 hip'
      by_cases harp : isARP m.vDlType = true
      · have ho : orZero m.vDlType = 0x806 := by rw [isARP_orZero _ harp]; rfl
        simp only [wire, unwire, hip', harp, ho, Bool.false_eq_true, ↓reduceIte]
        apply W.ext' <;> simp [normalize, x1, x2, x3] <;> omega
      · have harp' : isARP m.vDlType = false := by simpa using harp
        obtain ⟨y1, y2, y3⟩ := n2 hip' harp'
        obtain ⟨o1, o2⟩ := other_orZero _ hip' harp'
        simp only [wire, unwire, hip', harp', Bool.false_eq_true, ↓reduceIte, o1, o2]
        split <;> (apply W.ext' <;> simp [normalize, x1, x2, x3, y1, y2, y3])

theorem vis_true (v : Nat) : vis true v = none := rfl

/-- a normal match in range is `==` to what `unpack(pack(m))` yields -/
theorem reread_eqv (fm : Bool) (m : M) (hr : InRange m) (hn : Normal m) : Eqv (reread fm m) m := by
  have hw := reread_w fm m hr hn
  obtain ⟨n1, n2, n3⟩ := normal_facts m hn
  refine ⟨hw, ?_, ?_, ?_, ?_, ?_, ?_, ?_, ?_, ?_, ?_, ?_, ?_⟩
  · show vis (reread fm m).w.in_port _ = _
    rw [hw]; exact vis_orZero _ _
  · show vis (reread fm m).w.dl_src _ = _
    rw [hw]; exact vis_orZero _ _
  · show vis (reread fm m).w.dl_dst _ = _
    rw [hw]; exact vis_orZero _ _
  · show vis (reread fm m).w.dl_vlan _ = _
    rw [hw]; exact vis_orZero _ _
  · show vis (reread fm m).w.dl_vlan_pcp _ = _
    rw [hw]; exact vis_orZero _ _
  · show vis (reread fm m).w.dl_type _ = _
    rw [hw]; exact vis_orZero _ _
  · show vis (reread fm m).w.nw_tos (if isIP m.vDlType then orZero m.vTos else 0) = _
    rw [hw]
    by_cases h : isIP m.vDlType = true
    · simp only [h, ↓reduceIte]; exact vis_orZero _ _
    · have h' : isIP m.vDlType = false := by simpa using h
      simp only [M.vTos, (n1 h').1, vis_true]
  · show vis (reread fm m).w.nw_proto (if isIP m.vDlType || isARP m.vDlType then orZero m.vProto else 0) = _
    rw [hw]
    by_cases h : (isIP m.vDlType || isARP m.vDlType) = true
    · simp only [h, ↓reduceIte]; exact vis_orZero _ _
    · have h' : isIP m.vDlType = false ∧ isARP m.vDlType = false := by simpa using h
      simp only [M.vProto, (n2 h'.1 h'.2).1, vis_true]
  · show vis (decide (32 ≤ (reread fm m).w.nw_src)) (if isIP m.vDlType || isARP m.vDlType then orZero m.vNwSrc else 0) = _
    rw [hw]
    by_cases h : (isIP m.vDlType || isARP m.vDlType) = true
    · simp only [h, ↓reduceIte]; exact vis_orZero _ _
    · have h' : isIP m.vDlType = false ∧ isARP m.vDlType = false := by simpa using h
      simp [M.vNwSrc, (n2 h'.1 h'.2).2.1, vis]
  · show vis (decide (32 ≤ (reread fm m).w.nw_dst)) (if isIP m.vDlType || isARP m.vDlType then orZero m.vNwDst else 0) = _
    rw [hw]
    by_cases h : (isIP m.vDlType || isARP m.vDlType) = true
    · simp only [h, ↓reduceIte]; exact vis_orZero _ _
    · have h' : isIP m.vDlType = false ∧ isARP m.vDlType = false := by simpa using h
      simp [M.vNwDst, (n2 h'.1 h'.2).2.2, vis]
  · show vis (reread fm m).w.tp_src (if isIP m.vDlType && isTP m.vProto then orZero m.vTpSrc else 0) = _
    rw [hw]
    by_cases h : (isIP m.vDlType && isTP m.vProto) = true
    · simp only [h, ↓reduceIte]; exact vis_orZero _ _
    · have hts : m.w.tp_src = true := by
        by_cases hip : isIP m.vDlType = true
        · exact (n3 hip (by simpa [hip] using h)).1
        · exact (n1 (by simpa using hip)).2.1
      simp only [M.vTpSrc, hts, vis_true]
  · show vis (reread fm m).w.tp_dst (if isIP m.vDlType && isTP m.vProto then orZero m.vTpDst else 0) = _
    rw [hw]
    by_cases h : (isIP m.vDlType && isTP m.vProto) = true
    · simp only [h, ↓reduceIte]; exact vis_orZero _ _
    · have hts : m.w.tp_dst = true := by
        by_cases hip : isIP m.vDlType = true
        · exact (n3 hip (by simpa [hip] using h)).2
        · exact (n1 (by simpa using hip)).2.2
      simp only [M.vTpDst, hts, vis_true]

/-! ### `flow_mod=True` for every match: the decoded object is `fix m` -/

/-- what `fix` leaves alone -/
theorem fix_keeps (m : M) :
    (fix m).w.in_port = m.w.in_port ∧ (fix m).w.dl_vlan = m.w.dl_vlan ∧ (fix m).w.dl_src = m.w.dl_src ∧
    (fix m).w.dl_dst = m.w.dl_dst ∧ (fix m).w.dl_type = m.w.dl_type ∧ (fix m).w.dl_vlan_pcp = m.w.dl_vlan_pcp ∧
    (fix m).w.hi = m.w.hi ∧ (fix m).in_port = m.in_port ∧ (fix m).dl_src = m.dl_src ∧ (fix m).dl_dst = m.dl_dst ∧
    (fix m).dl_vlan = m.dl_vlan ∧ (fix m).dl_vlan_pcp = m.dl_vlan_pcp ∧ (fix m).dl_type = m.dl_type := by
  unfold fix
  split
  · split <;> simp
  · split <;> simp

/-- what `fix` does to the conditional fields, by prerequisite case -/
theorem fix_facts (m : M) :
    (isIP m.vDlType = false → (fix m).w.nw_tos = true ∧ (fix m).w.tp_src = true ∧ (fix m).w.tp_dst = true) ∧
    (isIP m.vDlType = false → isARP m.vDlType = false →
      (fix m).w.nw_proto = true ∧ (fix m).w.nw_src = 32 ∧ (fix m).w.nw_dst = 32) ∧
    (isIP m.vDlType = true → isTP m.vProto = false → (fix m).w.tp_src = true ∧ (fix m).w.tp_dst = true) ∧
    (isIP m.vDlType = true → (fix m).w.nw_tos = m.w.nw_tos ∧ (fix m).nw_tos = m.nw_tos) ∧
    ((isIP m.vDlType || isARP m.vDlType) = true →
      (fix m).w.nw_proto = m.w.nw_proto ∧ (fix m).nw_proto = m.nw_proto ∧ (fix m).w.nw_src = m.w.nw_src ∧
      (fix m).nw_src = m.nw_src ∧ (fix m).w.nw_dst = m.w.nw_dst ∧ (fix m).nw_dst = m.nw_dst) ∧
    ((isIP m.vDlType && isTP m.vProto) = true →
      (fix m).w.tp_src = m.w.tp_src ∧ (fix m).tp_src = m.tp_src ∧ (fix m).w.tp_dst = m.w.tp_dst ∧
      (fix m).tp_dst = m.tp_dst) := by
  unfold fix
  by_cases hip : isIP m.vDlType = true
  · by_cases htp : isTP m.vProto = true
    · simp [hip, htp]
    · have htp' : isTP m.vProto = false := by simpa using htp
      simp [hip, htp']
  · have hip' : isIP m.vDlType = false := by simpa using hip
    by_cases harp : isARP m.vDlType = true
    · simp [hip', harp]
    · have harp' : isARP m.vDlType = false := by simpa using harp
      simp [hip', harp']

/-- the wildcard word decoded in `flow_mod` mode is that of `fix m`, for every in-range match -/
theorem reread_w_fm (m : M) (hr : InRange m) : (reread true m).w = (fix m).w := by
  obtain ⟨hs, hd, hh, _⟩ := hr
  have hnorm : ∀ w : W, w.nw_src ≤ 32 → w.nw_dst ≤ 32 → normalize w = w := by
    intro w a b
    apply W.ext' <;> simp [normalize] <;> omega
  obtain ⟨a, b, _⟩ := wire_bounds m hs hd hh
  simp only [reread, fromVals, wcOf, ↓reduceIte]
  rw [ofNat_toNat (wire m) a b]
  by_cases hip : isIP m.vDlType = true
  · have ho : orZero m.vDlType = 0x800 := by rw [isIP_orZero _ hip]; rfl
    by_cases htp : isTP m.vProto = true
    · simp only [wire, unwire, fix, hip, htp, ho, Bool.true_or, ↓reduceIte, isTP_orZero]
      exact hnorm _ hs hd
    · have htp' : isTP m.vProto = false := by simpa using htp
      simp only [wire, unwire, fix, hip, htp', ho, Bool.true_or, ↓reduceIte, isTP_orZero, Bool.false_eq_true]
      apply W.ext' <;> simp [normalize] <;> omega
  · have hip' : isIP m.vDlType = false := by simpa using hip
    by_cases harp : isARP m.vDlType = true
    · have ho : orZero m.vDlType = 0x806 := by rw [isARP_orZero _ harp]; rfl
      simp only [wire, unwire, fix, hip', harp, ho, Bool.false_eq_true, ↓reduceIte]
      apply W.ext' <;> simp [normalize] <;> omega
    · have harp' : isARP m.vDlType = false := by simpa using harp
      obtain ⟨o1, o2⟩ := other_orZero _ hip' harp'
      simp only [wire, unwire, fix, hip', harp', Bool.false_eq_true, ↓reduceIte, o1, o2]
      split <;> (apply W.ext' <;> simp [normalize])

/-- **flow_mod mode, every match**: `unpack(pack(m, flow_mod=True), flow_mod=True) == fix(m)` -/
theorem reread_eqv_fm (m : M) (hr : InRange m) : Eqv (reread true m) (fix m) := by
  have hw := reread_w_fm m hr
  obtain ⟨k0, k1, k2, k3, k4, k5, _, v0, v1, v2, v3, v4, v5⟩ := fix_keeps m
  obtain ⟨f1, f2, f3, f4, f5, f6⟩ := fix_facts m
  refine ⟨hw, ?_, ?_, ?_, ?_, ?_, ?_, ?_, ?_, ?_, ?_, ?_, ?_⟩
  · show vis (reread true m).w.in_port (orZero m.vInPort) = vis (fix m).w.in_port (fix m).in_port
    rw [hw, k0, v0]; exact vis_orZero _ _
  · show vis (reread true m).w.dl_src (orZero m.vDlSrc) = vis (fix m).w.dl_src (fix m).dl_src
    rw [hw, k2, v1]; exact vis_orZero _ _
  · show vis (reread true m).w.dl_dst (orZero m.vDlDst) = vis (fix m).w.dl_dst (fix m).dl_dst
    rw [hw, k3, v2]; exact vis_orZero _ _
  · show vis (reread true m).w.dl_vlan (orZero m.vDlVlan) = vis (fix m).w.dl_vlan (fix m).dl_vlan
    rw [hw, k1, v3]; exact vis_orZero _ _
  · show vis (reread true m).w.dl_vlan_pcp (orZero m.vPcp) = vis (fix m).w.dl_vlan_pcp (fix m).dl_vlan_pcp
    rw [hw, k5, v4]; exact vis_orZero _ _
  · show vis (reread true m).w.dl_type (orZero m.vDlType) = vis (fix m).w.dl_type (fix m).dl_type
    rw [hw, k4, v5]; exact vis_orZero _ _
  · show vis (reread true m).w.nw_tos (if isIP m.vDlType then orZero m.vTos else 0) = vis (fix m).w.nw_tos (fix m).nw_tos
    rw [hw]
    by_cases h : isIP m.vDlType = true
    · obtain ⟨a, b⟩ := f4 h
      simp only [h, ↓reduceIte, a, b]; exact vis_orZero _ _
    · have h' : isIP m.vDlType = false := by simpa using h
      simp only [(f1 h').1, vis_true]
  · show vis (reread true m).w.nw_proto (if isIP m.vDlType || isARP m.vDlType then orZero m.vProto else 0)
      = vis (fix m).w.nw_proto (fix m).nw_proto
    rw [hw]
    by_cases h : (isIP m.vDlType || isARP m.vDlType) = true
    · obtain ⟨a, b, _⟩ := f5 h
      simp only [h, ↓reduceIte, a, b]; exact vis_orZero _ _
    · have h' : isIP m.vDlType = false ∧ isARP m.vDlType = false := by simpa using h
      simp only [(f2 h'.1 h'.2).1, vis_true]
  · show vis (decide (32 ≤ (reread true m).w.nw_src)) (if isIP m.vDlType || isARP m.vDlType then orZero m.vNwSrc else 0)
      = vis (decide (32 ≤ (fix m).w.nw_src)) (fix m).nw_src
    rw [hw]
    by_cases h : (isIP m.vDlType || isARP m.vDlType) = true
    · obtain ⟨_, _, a, b, _, _⟩ := f5 h
      simp only [h, ↓reduceIte, a, b]; exact vis_orZero _ _
    · have h' : isIP m.vDlType = false ∧ isARP m.vDlType = false := by simpa using h
      simp [(f2 h'.1 h'.2).2.1, vis]
  · show vis (decide (32 ≤ (reread true m).w.nw_dst)) (if isIP m.vDlType || isARP m.vDlType then orZero m.vNwDst else 0)
      = vis (decide (32 ≤ (fix m).w.nw_dst)) (fix m).nw_dst
    rw [hw]
    by_cases h : (isIP m.vDlType || isARP m.vDlType) = true
    · obtain ⟨_, _, _, _, a, b⟩ := f5 h
      simp only [h, ↓reduceIte, a, b]; exact vis_orZero _ _
    · have h' : isIP m.vDlType = false ∧ isARP m.vDlType = false := by simpa using h
      simp [(f2 h'.1 h'.2).2.2, vis]
  · show vis (reread true m).w.tp_src (if isIP m.vDlType && isTP m.vProto then orZero m.vTpSrc else 0)
      = vis (fix m).w.tp_src (fix m).tp_src
    rw [hw]
    by_cases h : (isIP m.vDlType && isTP m.vProto) = true
    · obtain ⟨a, b, _, _⟩ := f6 h
      simp only [h, ↓reduceIte, a, b]; exact vis_orZero _ _
    · have hts : (fix m).w.tp_src = true := by
        by_cases hip : isIP m.vDlType = true
        · exact (f3 hip (by simpa [hip] using h)).1
        · exact (f1 (by simpa using hip)).2.1
      simp only [hts, vis_true]
  · show vis (reread true m).w.tp_dst (if isIP m.vDlType && isTP m.vProto then orZero m.vTpDst else 0)
      = vis (fix m).w.tp_dst (fix m).tp_dst
    rw [hw]
    by_cases h : (isIP m.vDlType && isTP m.vProto) = true
    · obtain ⟨_, _, a, b⟩ := f6 h
      simp only [h, ↓reduceIte, a, b]; exact vis_orZero _ _
    · have hts : (fix m).w.tp_dst = true := by
        by_cases hip : isIP m.vDlType = true
        · exact (f3 hip (by simpa [hip] using h)).2
        · exact (f1 (by simpa using hip)).2.2
      simp only [hts, vis_true]

/-- `pack` looks at an object only through its wildcards and visible values: `==` objects pack to the same bytes -/
theorem pack_congr (fm : Bool) (a b : M) (h : Eqv a b) : pack fm a = pack fm b := by
  obtain ⟨h0, h1, h2, h3, h4, h5, h6, h7, h8, h9, h10, h11, h12⟩ := h
  simp only [pack, vals, wire, h0, h1, h2, h3, h4, h5, h6, h7, h8, h9, h10, h11, h12]

end Pox.CodecMatch
