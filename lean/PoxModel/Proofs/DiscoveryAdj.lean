import PoxModel.Proofs.Discovery
/-! `adjacency_exact` (C19): which (link, time stamp) pairs are in `Discovery.adjacency` after an arbitrary history, stated
    without reference to the model state: the last probe of the link was accepted, neither end has disconnected since, and no
    expiry sweep since found it older than the timeout.  Core only. -/
namespace Pox.Discovery
open Pox Pox.STree

/-- the virtual clock after a history -/
def clock (ops : List Op) : Nat :=
  ops.foldl (fun t op => match op with | .tick dt => t + dt | _ => t) init.now

/-- is switch `d` connected after a history (last ConnectionUp / ConnectionDown of `d` wins) -/
def isUp (ops : List Op) (d : Nat) : Bool :=
  ops.foldl (fun b op => match op with
    | .up d' _ => if d' = d then true else b
    | .down d' _ => if d' = d then false else b
    | _ => b) false

def isProbeOf (l : Link) (o : Op) : Prop := ∃ ord, o = .probe l ord
def isDownOf (l : Link) (o : Op) : Prop := ∃ ord, o = .down l.dpid1 ord ∨ o = .down l.dpid2 ord
def selfPort (l : Link) : Prop := l.dpid2 = l.dpid1 ∧ l.port2 = l.port1

/-- the declarative content of `adjacency[l] = t` -/
def Spec (ops : List Op) (l : Link) (t : Nat) : Prop :=
  ∃ pre order post, ops = pre ++ Op.probe l order :: post ∧
    isUp pre l.dpid1 = true ∧ ¬ selfPort l ∧                        -- that probe was accepted: sender connected, not its own port
    t = clock pre ∧                                                 -- the time stamp is its arrival time
    (∀ o ∈ post, ¬ isProbeOf l o) ∧                                 -- it is the last probe of this link
    (∀ o ∈ post, ¬ isDownOf l o) ∧                                  -- neither end has disconnected since
    (∀ p1 ord p2, post = p1 ++ Op.sweep ord :: p2 →                 -- every expiry sweep since ran no later than t + timeout
        clock (pre ++ Op.probe l order :: p1) ≤ t + LINK_TIMEOUT)

theorem snoc_ind {α : Type} {P : List α → Prop} (h0 : P []) (hs : ∀ l a, P l → P (l ++ [a])) : ∀ l, P l := by
  intro l
  have : ∀ r : List α, P r.reverse := by
    intro r
    induction r with
    | nil => exact h0
    | cons a r ih => rw [List.reverse_cons]; exact hs _ _ ih
  simpa using this l.reverse

theorem eq_nil_or_snoc {α : Type} : ∀ (l : List α), l = [] ∨ ∃ L b, l = L ++ [b]
  | [] => .inl rfl
  | a :: l => by
    rcases eq_nil_or_snoc l with h | ⟨L, b, h⟩
    · exact .inr ⟨[], a, by rw [h]; rfl⟩
    · exact .inr ⟨a :: L, b, by rw [h]; rfl⟩

theorem clock_snoc (ops : List Op) (op : Op) :
    clock (ops ++ [op]) = match op with | .tick dt => clock ops + dt | _ => clock ops := by
  unfold clock; rw [List.foldl_append]; rfl

theorem clock_snoc_sweep (ops : List Op) (o : List Nat) : clock (ops ++ [Op.sweep o]) = clock ops := by
  rw [clock_snoc]

theorem isUp_snoc (ops : List Op) (op : Op) (d : Nat) :
    isUp (ops ++ [op]) d = match op with
      | .up d' _ => if d' = d then true else isUp ops d
      | .down d' _ => if d' = d then false else isUp ops d
      | _ => isUp ops d := by
  unfold isUp; rw [List.foldl_append]; rfl

theorem Spec_snoc (ops : List Op) (op : Op) (l : Link) (t : Nat) :
    Spec (ops ++ [op]) l t ↔
      (isProbeOf l op ∧ isUp ops l.dpid1 = true ∧ ¬ selfPort l ∧ t = clock ops) ∨
      (Spec ops l t ∧ ¬ isProbeOf l op ∧ ¬ isDownOf l op ∧ (∀ ord, op = Op.sweep ord → clock ops ≤ t + LINK_TIMEOUT)) := by
  constructor
  · rintro ⟨pre, order, post, hs, hu, hsp, ht, hnp, hnd, hne⟩
    rcases eq_nil_or_snoc post with hp | ⟨L, b, hp⟩
    · subst hp
      have := List.append_inj' hs (by simp)
      obtain ⟨e1, e2⟩ := this
      simp only [List.cons.injEq, and_true] at e2
      subst e1
      exact .inl ⟨⟨order, e2⟩, hu, hsp, ht⟩
    · subst hp
      have hs' : ops ++ [op] = (pre ++ Op.probe l order :: L) ++ [b] := by rw [hs]; simp
      obtain ⟨e1, e2⟩ := List.append_inj' hs' (by simp)
      simp only [List.cons.injEq, and_true] at e2
      subst e2
      refine .inr ⟨⟨pre, order, L, e1, hu, hsp, ht, fun o ho => hnp o (by simp [ho]), fun o ho => hnd o (by simp [ho]), ?_⟩,
        hnp op (by simp), hnd op (by simp), ?_⟩
      · intro p1 ord p2 hL
        exact hne p1 ord (p2 ++ [op]) (by rw [hL]; simp)
      · intro ord ho
        have := hne L ord [] (by rw [ho])
        rw [e1]; exact this
  · rintro (⟨⟨ord, ho⟩, hu, hsp, ht⟩ | ⟨⟨pre, order, post, hs, hu, hsp, ht, hnp, hnd, hne⟩, h1, h2, h3⟩)
    · refine ⟨ops, ord, [], by rw [ho], hu, hsp, ht, by simp, by simp, ?_⟩
      intro p1 ord' p2 h; cases p1 <;> simp at h
    · refine ⟨pre, order, post ++ [op], by rw [hs]; simp, hu, hsp, ht, ?_, ?_, ?_⟩
      · intro o ho
        rcases List.mem_append.mp ho with c | c
        · exact hnp o c
        · simp only [List.mem_singleton] at c; subst c; exact h1
      · intro o ho
        rcases List.mem_append.mp ho with c | c
        · exact hnd o c
        · simp only [List.mem_singleton] at c; subst c; exact h2
      · intro p1 ord p2 h
        rcases eq_nil_or_snoc p2 with hp | ⟨L, b, hp⟩
        · subst hp
          obtain ⟨e1, e2⟩ := List.append_inj' h (by simp)
          simp only [List.cons.injEq, and_true] at e2
          subst e1
          rw [← hs]; exact h3 ord e2
        · subst hp
          have h' : post ++ [op] = (p1 ++ Op.sweep ord :: L) ++ [b] := by rw [h]; simp
          obtain ⟨e1, _⟩ := List.append_inj' h' (by simp)
          exact hne p1 ord L e1

/-! ### the model side -/

theorem runOps_snoc (v : Variant) : ∀ (ops : List Op) (s : DState) (op : Op),
    (runOps v s (ops ++ [op])).1 = (step v (runOps v s ops).1 op).1
  | [], _, _ => rfl
  | o :: ops, s, op => by
    rw [List.cons_append, runOps_cons, runOps_cons]
    exact runOps_snoc v ops _ op

theorem run_nodup (v : Variant) : ∀ (ops : List Op) (s : DState), (keys s.adj).Nodup → (keys (runOps v s ops).1.adj).Nodup
  | [], _, h => h
  | o :: ops, s, h => by rw [runOps_cons]; exact run_nodup v ops _ (step_nodup v s o h)

theorem step_now (v : Variant) (s : DState) (op : Op) :
    (step v s op).1.now = match op with | .tick dt => s.now + dt | _ => s.now := by
  cases op with
  | tick dt => rfl
  | up d ps => rfl
  | down d o => rfl
  | probe l o => simp only [step]; split <;> (try split) <;> (try split) <;> rfl
  | sweep o => simp only [step]; split <;> rfl

theorem Conns.get_erase (d : Nat) : ∀ (c : Conns) (k : Nat), Conns.get (Conns.erase c d) k = if k = d then none else Conns.get c k
  | [], k => by simp [Conns.erase, Conns.get]
  | (d0, ps) :: r, k => by
    have ih := Conns.get_erase d r k
    unfold Conns.erase at ih ⊢
    by_cases h0 : d0 = d
    · subst h0
      simp only [List.filter_cons, ne_eq, not_true_eq_false, decide_false, Bool.false_eq_true, if_false]
      rw [ih]
      by_cases hk : k = d0
      · simp [hk]
      · have : d0 ≠ k := fun e => hk e.symm
        simp [hk, Conns.get, this]
    · simp only [List.filter_cons, ne_eq, h0, not_false_eq_true, decide_true, if_true, Conns.get]
      rw [ih]
      by_cases hk : k = d
      · subst hk; simp [h0]
      · simp [hk]

theorem Conns.get_append (c : Conns) (d : Nat) (ps : List Nat) (k : Nat) :
    Conns.get (c ++ [(d, ps)]) k = match Conns.get c k with
      | some x => some x
      | none => if d = k then some ps else none := by
  induction c with
  | nil => simp [Conns.get]
  | cons a r ih =>
    obtain ⟨d0, p0⟩ := a
    simp only [List.cons_append, Conns.get]
    by_cases h : d0 = k
    · simp [h]
    · simp only [h, if_false]; exact ih

theorem step_conns (v : Variant) (s : DState) (op : Op) (k : Nat) :
    ((step v s op).1.conns.get k).isSome = match op with
      | .up d _ => if d = k then true else (s.conns.get k).isSome
      | .down d _ => if d = k then false else (s.conns.get k).isSome
      | _ => (s.conns.get k).isSome := by
  cases op with
  | tick dt => rfl
  | up d ps =>
    simp only [step, Conns.get_append, Conns.get_erase]
    by_cases h : d = k
    · subst h; simp
    · have : k ≠ d := fun e => h e.symm
      simp only [this, if_false, h]
      cases Conns.get s.conns k <;> simp
  | down d o =>
    simp only [step, deleteLinks_conns, Conns.get_erase]
    by_cases h : d = k
    · simp [h]
    · have : k ≠ d := fun e => h e.symm
      simp [h, this]
  | probe l o => simp only [step]; split <;> (try split) <;> (try split) <;> rfl
  | sweep o => simp only [step]; split <;> rfl

theorem run_now (v : Variant) (ops : List Op) : (runOps v init ops).1.now = clock ops := by
  induction ops using snoc_ind with
  | h0 => rfl
  | hs ops op ih => rw [runOps_snoc, step_now, clock_snoc, ih]

theorem run_conns (v : Variant) (ops : List Op) (k : Nat) : ((runOps v init ops).1.conns.get k).isSome = isUp ops k := by
  induction ops using snoc_ind with
  | h0 => rfl
  | hs ops op ih => rw [runOps_snoc, step_conns, isUp_snoc, ih]

theorem mem_touch (adj : List (Link × Nat)) (l : Link) (t : Nat) (l' : Link) (t' : Nat) :
    (l', t') ∈ touch adj l t ↔ (l' = l ∧ t' = t ∧ l ∈ keys adj) ∨ (l' ≠ l ∧ (l', t') ∈ adj) := by
  unfold touch keys
  simp only [List.mem_map]
  constructor
  · rintro ⟨e, he, hf⟩
    by_cases h : e.1 = l
    · simp only [h, if_true, Prod.mk.injEq] at hf
      exact .inl ⟨hf.1.symm, hf.2.symm, e, he, h⟩
    · simp only [h, if_false] at hf
      subst hf
      exact .inr ⟨h, he⟩
  · rintro (⟨rfl, rfl, e, he, h⟩ | ⟨hne, he⟩)
    · exact ⟨e, he, by simp [h]⟩
    · exact ⟨(l', t'), he, by simp [hne]⟩

theorem mem_without (adj : List (Link × Nat)) (links : List Link) (l : Link) (t : Nat) :
    (l, t) ∈ without adj links ↔ (l, t) ∈ adj ∧ l ∉ links := by
  unfold without; simp [List.mem_filter]

theorem keys_unique : ∀ (adj : List (Link × Nat)), (keys adj).Nodup → ∀ l t t', (l, t) ∈ adj → (l, t') ∈ adj → t = t'
  | [], _, _, _, _, h, _ => by simp at h
  | e :: r, hn, l, t, t', h1, h2 => by
    have hn' : e.1 ∉ keys r ∧ (keys r).Nodup := by simpa [keys] using hn
    have inr : ∀ x, (l, x) ∈ r → l ∈ keys r := fun x hx => by
      unfold keys; exact List.mem_map.mpr ⟨(l, x), hx, rfl⟩
    rcases List.mem_cons.mp h1 with a | a <;> rcases List.mem_cons.mp h2 with b | b
    · rw [← a] at b; exact (Prod.mk.inj b).2.symm
    · exact absurd (inr t' b) (by rw [← a] at hn'; exact hn'.1)
    · exact absurd (inr t a) (by rw [← b] at hn'; exact hn'.1)
    · exact keys_unique r hn'.2 l t t' a b

theorem mem_keys_iff (adj : List (Link × Nat)) (l : Link) : l ∈ keys adj ↔ ∃ t, (l, t) ∈ adj := by
  unfold keys
  simp only [List.mem_map]
  constructor
  · rintro ⟨e, he, rfl⟩; exact ⟨e.2, he⟩
  · rintro ⟨t, ht⟩; exact ⟨(l, t), ht, rfl⟩

/-- a connected switch stays connected over ops that contain no ConnectionDown for it -/
theorem isUp_stays (d : Nat) (pre : List Op) (l : Link) (order : List Nat) (hu : isUp pre d = true) :
    ∀ (post : List Op), (∀ o ∈ post, ∀ ord, o ≠ Op.down d ord) → isUp (pre ++ Op.probe l order :: post) d = true := by
  intro post
  induction post using snoc_ind with
  | h0 =>
    intro _
    have : pre ++ [Op.probe l order] = pre ++ [Op.probe l order] := rfl
    rw [isUp_snoc]; exact hu
  | hs post op ih =>
    intro hnd
    have e : pre ++ Op.probe l order :: (post ++ [op]) = (pre ++ Op.probe l order :: post) ++ [op] := by simp
    rw [e, isUp_snoc]
    have ih' := ih (fun o ho => hnd o (by simp [ho]))
    have hop := hnd op (by simp)
    cases op with
    | tick _ => exact ih'
    | probe _ _ => exact ih'
    | sweep _ => exact ih'
    | up d' ps => simp only []; split <;> simp [ih']
    | down d' o =>
      simp only []
      have : d' ≠ d := fun c => hop o (by rw [c])
      simp [this, ih']

/-- if `Spec` holds the sender is still connected and the link does not join a port to itself -/
theorem Spec_accepts (ops : List Op) (l : Link) (t : Nat) (h : Spec ops l t) : isUp ops l.dpid1 = true ∧ ¬ selfPort l := by
  obtain ⟨pre, order, post, hs, hu, hsp, _, _, hnd, _⟩ := h
  refine ⟨?_, hsp⟩
  subst hs
  exact isUp_stays l.dpid1 pre l order hu post (fun o ho ord c => hnd o ho ⟨ord, .inl c⟩)

/-- ADJACENCY_EXACT, both variants: after every history the adjacency holds exactly the pairs described by `Spec` -/
theorem adjacency_spec (v : Variant) (ops : List Op) (l : Link) (t : Nat) :
    (l, t) ∈ (runOps v init ops).1.adj ↔ Spec ops l t := by
  induction ops using snoc_ind generalizing l t with
  | h0 =>
    constructor
    · intro h; simp [runOps, init] at h
    · rintro ⟨pre, order, post, hs, _⟩; cases pre <;> simp at hs
  | hs ops op ih =>
    have hn : (keys (runOps v init ops).1.adj).Nodup := run_nodup v ops init (by simp [init, keys])
    rw [runOps_snoc, Spec_snoc, step_adj]
    generalize hS : (runOps v init ops).1 = s at *
    have hnow : s.now = clock ops := by rw [← hS]; exact run_now v ops
    have hacc : ∀ l', accepts s l' ↔ (isUp ops l'.dpid1 = true ∧ ¬ selfPort l') := by
      intro l'; unfold accepts selfPort; rw [← hS, run_conns]
    have generic : ∀ op : Op, (∀ l' ord, op ≠ Op.probe l' ord) →
        ((l, t) ∈ without s.adj (removedBy s op) ↔
          (isProbeOf l op ∧ isUp ops l.dpid1 = true ∧ ¬ selfPort l ∧ t = clock ops) ∨
          (Spec ops l t ∧ ¬ isProbeOf l op ∧ ¬ isDownOf l op ∧ (∀ ord, op = Op.sweep ord → clock ops ≤ t + LINK_TIMEOUT))) := by
      intro op hnp
      have np : ¬ isProbeOf l op := fun ⟨ord, h⟩ => hnp l ord h
      rw [mem_without, ih]
      constructor
      · rintro ⟨hsp, hrm⟩
        refine .inr ⟨hsp, np, ?_, ?_⟩
        · rintro ⟨ord, hd | hd⟩
          · subst hd
            apply hrm
            simp only [removedBy, List.mem_filter]
            exact ⟨(mem_keys_iff _ _).mpr ⟨t, (ih l t).mpr hsp⟩, by simp⟩
          · subst hd
            apply hrm
            simp only [removedBy, List.mem_filter]
            exact ⟨(mem_keys_iff _ _).mpr ⟨t, (ih l t).mpr hsp⟩, by simp⟩
        · intro ord ho
          subst ho
          rw [← hnow]
          apply Nat.le_of_not_lt
          intro hlt
          apply hrm
          simp only [removedBy]
          unfold keys
          exact List.mem_map.mpr ⟨(l, t), List.mem_filter.mpr ⟨(ih l t).mpr hsp, by simpa using hlt⟩, rfl⟩
      · rintro (⟨hp, _⟩ | ⟨hsp, _, hnd, hsw⟩)
        · exact absurd hp np
        · refine ⟨hsp, ?_⟩
          intro hrm
          cases op with
          | tick _ => simp [removedBy] at hrm
          | up _ _ => simp [removedBy] at hrm
          | probe l' ord => exact hnp l' ord rfl
          | down d ord =>
            simp only [removedBy, List.mem_filter, Bool.or_eq_true, decide_eq_true_eq] at hrm
            rcases hrm.2 with c | c
            · exact hnd ⟨ord, .inl (by rw [c])⟩
            · exact hnd ⟨ord, .inr (by rw [c])⟩
          | sweep ord =>
            simp only [removedBy] at hrm
            obtain ⟨t', ht'⟩ := (mem_keys_iff _ _).mp hrm
            obtain ⟨h1, h2⟩ := List.mem_filter.mp ht'
            have : t = t' := keys_unique s.adj hn l t t' ((ih l t).mpr hsp) h1
            subst this
            have := hsw ord rfl
            simp only [decide_eq_true_eq] at h2
            omega
    cases op with
    | tick dt => exact generic _ (fun _ _ h => by cases h)
    | up d ps => exact generic _ (fun _ _ h => by cases h)
    | down d o => exact generic _ (fun _ _ h => by cases h)
    | sweep o => exact generic _ (fun _ _ h => by cases h)
    | probe l' ord =>
      simp only []
      have nd : ¬ isDownOf l (Op.probe l' ord) := by rintro ⟨o, h | h⟩ <;> cases h
      have nsw : ∀ o, Op.probe l' ord = Op.sweep o → clock ops ≤ t + LINK_TIMEOUT := fun o h => by cases h
      by_cases hll : l' = l
      · subst hll
        have ip : isProbeOf l' (Op.probe l' ord) := ⟨ord, rfl⟩
        by_cases ha : accepts s l'
        · have ha' := (hacc l').mp ha
          rw [if_pos ha]
          constructor
          · intro hm
            refine .inl ⟨ip, ha'.1, ha'.2, ?_⟩
            rw [← hnow]
            split at hm
            · rcases (mem_touch _ _ _ _ _).mp hm with ⟨_, e, _⟩ | ⟨e, _⟩
              · exact e
              · exact absurd rfl e
            · rename_i hk
              rcases List.mem_append.mp hm with c | c
              · exact absurd ((mem_keys_iff _ _).mpr ⟨t, c⟩) hk
              · simpa using c
          · rintro (⟨_, _, _, e⟩ | ⟨_, c, _⟩)
            · rw [← hnow] at e; subst e
              split
              · rename_i hk; exact (mem_touch _ _ _ _ _).mpr (.inl ⟨rfl, rfl, hk⟩)
              · simp
            · exact absurd ip c
        · rw [if_neg ha]
          have ha' : ¬ (isUp ops l'.dpid1 = true ∧ ¬ selfPort l') := fun c => ha ((hacc l').mpr c)
          constructor
          · intro hm
            exact absurd (Spec_accepts ops l' t ((ih l' t).mp hm)) ha'
          · rintro (⟨_, a, b, _⟩ | ⟨_, c, _⟩)
            · exact absurd ⟨a, b⟩ ha'
            · exact absurd ip c
      · have np : ¬ isProbeOf l (Op.probe l' ord) := by
          rintro ⟨o, h⟩; cases h; exact hll rfl
        have same : (l, t) ∈ (if accepts s l' then (if l' ∈ keys s.adj then touch s.adj l' s.now else s.adj ++ [(l', s.now)])
            else s.adj) ↔ (l, t) ∈ s.adj := by
          split
          · split
            · rw [mem_touch]
              constructor
              · rintro (⟨e, _⟩ | ⟨_, h⟩)
                · exact absurd e.symm hll
                · exact h
              · intro h; exact .inr ⟨fun e => hll e.symm, h⟩
            · rw [List.mem_append]
              constructor
              · rintro (h | h)
                · exact h
                · simp only [List.mem_singleton, Prod.mk.injEq] at h; exact absurd h.1.symm hll
              · exact .inl
          · exact Iff.rfl
        rw [same, ih]
        constructor
        · intro h; exact .inr ⟨h, np, nd, nsw⟩
        · rintro (⟨c, _⟩ | ⟨h, _⟩)
          · exact absurd c np
          · exact h

end Pox.Discovery
