import PoxModel.Proofs.Framing
import PoxModel.Proofs.Layout
import PoxModel.Model.CodecOF
/-! Link between the codec model (C01) and the framing model (C02/C10): the decoder that the generated layouts define is
a decoder in the sense of `Framing.Unpack`, and every message it encodes is well-formed for the framing theorems. -/
namespace Pox.FramingCodec
open Pox Pox.Layout Pox.Framing

/-- the decoder table `unpackers[ofp_type](buf, offset)` as defined by the generated layouts: class by type code from
    the generated message registry, then the generic `decode` of that class's `unpack` layout -/
def codecU (n : Nat) : Unpack (String × Rec (Elem n)) := fun ty buf off =>
  match Generated.messages.lookup ty with
  | none => .none
  | some name =>
    match CodecOF.cls name with
    | none => .none
    | some c =>
      match decode (codecAt CodecOF.env n) c.unpackL none (buf.drop off) with
      | none => .raise
      | some (r, rest) => .ok (off + ((buf.drop off).length - rest.length), (name, r))

theorem decFixed_hdr (F : List Field) (nm1 nm2 : String) (bs : Bytes) (vs : List Val) (l : Option Nat) (rest : Bytes)
    (h : decFixed (.uint nm1 1 :: .uint nm2 1 :: .lenSelf 2 :: F) bs = some (vs, l, rest)) (h4 : 4 ≤ bs.length) :
    ∃ vs', vs = .num (byteAt bs 0) :: .num (byteAt bs 1) :: vs' ∧ l = some (declLen bs 0) := by
  match bs, h4 with
  | a :: b :: c :: d :: tl, _ =>
    simp only [decFixed, List.length_cons, List.drop_succ_cons, List.drop_zero, List.take_succ_cons, List.take_zero] at h
    have e1 : ¬ (tl.length + 1 + 1 + 1 + 1 < 1) := by omega
    have e2 : ¬ (tl.length + 1 + 1 + 1 < 1) := by omega
    have e3 : ¬ (tl.length + 1 + 1 < 2) := by omega
    simp only [e1, e2, e3, if_false, Option.map_map, Option.map_eq_some_iff] at h
    obtain ⟨⟨vs0, l0, r0⟩, _, hh⟩ := h
    simp only [Function.comp, Prod.mk.injEq] at hh
    obtain ⟨hv, hl, _⟩ := hh
    refine ⟨vs0, ?_, ?_⟩
    · rw [← hv]; simp [byteAt, beDec]
    · rw [← hl]; simp [declLen, byteAt, beDec]

/-- a message encoded by a layout with the OpenFlow header shape is well-formed for the framing theorems -/
theorem wf_of_roundtrip (n : Nat) (c : ClassInfo) (t : Nat) (r : Rec (Elem n)) (bs : Bytes) (vs : List Val)
    (F : List Field) (nm1 nm2 : String)
    (hreg : Generated.messages.lookup t = some c.name) (hcls : CodecOF.cls c.name = some c)
    (hshape : c.unpackL.fixed = .uint nm1 1 :: .uint nm2 1 :: .lenSelf 2 :: F)
    (hvals : r.vals = .num 1 :: .num t :: vs) (ht : t < 256)
    (h8 : 8 ≤ bs.length) (h64 : bs.length < 65536)
    (hdec : ∀ tl, decode (codecAt CodecOF.env n) c.unpackL none (bs ++ tl) = some (r, tl))
    (hlen : hdrLen c.unpackL bs = some bs.length) :
    WF (codecU n) bs (c.name, r) := by
  -- header bytes from the decoder's view of `bs`
  have hd0 := hdec []
  simp only [List.append_nil] at hd0
  have hfx : ∃ vs' l rest, decFixed c.unpackL.fixed bs = some (vs', l, rest) ∧ vs' = r.vals := by
    unfold decode at hd0
    cases hdf : decFixed c.unpackL.fixed bs with
    | none => rw [hdf] at hd0; cases hd0
    | some p =>
      obtain ⟨vs', l, rest⟩ := p
      rw [hdf] at hd0
      refine ⟨vs', l, rest, rfl, ?_⟩
      simp only [] at hd0
      split at hd0
      · cases hd0; rfl
      · split at hd0
        · cases hd0
        · split at hd0
          · cases hd0
          · split at hd0
            · cases hd0
            · simp only [Option.map_eq_some_iff, Prod.mk.injEq] at hd0
              obtain ⟨tv, _, he, _⟩ := hd0
              rw [← he]
  obtain ⟨vs', l, rest, hdf, hv⟩ := hfx
  rw [hshape] at hdf
  obtain ⟨vs'', hvv, hll⟩ := decFixed_hdr F nm1 nm2 bs vs' l rest hdf (by omega)
  have hb0 : byteAt bs 0 = 1 ∧ byteAt bs 1 = t := by
    rw [hv, hvals] at hvv
    simp only [List.cons.injEq, Val.num.injEq] at hvv
    exact ⟨hvv.1.symm, hvv.2.1.symm⟩
  have hdl : declLen bs 0 = bs.length := by
    unfold hdrLen at hlen
    rw [hshape, hdf] at hlen
    simp only [] at hlen
    rw [hll] at hlen
    exact Option.some.inj hlen
  refine { toHdr := ⟨h8, h64, hb0.1, hdl⟩, dec := ?_ }
  intro pre post
  unfold codecU
  rw [hb0.2, hreg]
  simp only [hcls]
  have hdrop : (pre ++ bs ++ post).drop pre.length = bs ++ post := by simp [List.append_assoc]
  rw [hdrop, hdec post]
  simp only [List.length_append]
  congr 2
  omega

/-! ## Hand-modelled messages (packet-out, statistics, Nicira): the same link for an arbitrary message decoder -/

/-- header bytes of anything that a header-shaped layout decodes: version, type and declared length are what the decoded
    record and the length field say -/
theorem hdr_of_decode {E : Type} (C : Codec E) (L : Layout) (nm1 nm2 : String) (F : List Field)
    (hshape : L.fixed = .uint nm1 1 :: .uint nm2 1 :: .lenSelf 2 :: F) (bs tl0 : Bytes) (r : Rec E) (t : Nat) (vs : List Val)
    (hvals : r.vals = .num 1 :: .num t :: vs) (h4 : 4 ≤ bs.length)
    (hd0 : decode C L none bs = some (r, tl0)) (hlen : hdrLen L bs = some bs.length) :
    byteAt bs 0 = 1 ∧ byteAt bs 1 = t ∧ declLen bs 0 = bs.length := by
  have hfx : ∃ vs' l rest, decFixed L.fixed bs = some (vs', l, rest) ∧ vs' = r.vals := by
    unfold decode at hd0
    cases hdf : decFixed L.fixed bs with
    | none => rw [hdf] at hd0; cases hd0
    | some p =>
      obtain ⟨vs', l, rest⟩ := p
      rw [hdf] at hd0
      refine ⟨vs', l, rest, rfl, ?_⟩
      simp only [] at hd0
      split at hd0
      · cases hd0; rfl
      · split at hd0
        · cases hd0
        · split at hd0
          · cases hd0
          · split at hd0
            · cases hd0
            · simp only [Option.map_eq_some_iff, Prod.mk.injEq] at hd0
              obtain ⟨tv, _, he, _⟩ := hd0
              rw [← he]
  obtain ⟨vs', l, rest, hdf, hv⟩ := hfx
  rw [hshape] at hdf
  obtain ⟨vs'', hvv, hll⟩ := decFixed_hdr F nm1 nm2 bs vs' l rest hdf h4
  have hb0 : byteAt bs 0 = 1 ∧ byteAt bs 1 = t := by
    rw [hv, hvals] at hvv
    simp only [List.cons.injEq, Val.num.injEq] at hvv
    exact ⟨hvv.1.symm, hvv.2.1.symm⟩
  have hdl : declLen bs 0 = bs.length := by
    unfold hdrLen at hlen
    rw [hshape, hdf] at hlen
    simp only [] at hlen
    rw [hll] at hlen
    exact Option.some.inj hlen
  exact ⟨hb0.1, hb0.2, hdl⟩

/-- a table entry `unpackers[t]` that is "run this message decoder on the buffer from the offset" -/
def viaDecoder {M : Type} (D : Bytes → Option (M × Bytes)) (buf : Bytes) (off : Nat) : Res (Nat × M) :=
  match D (buf.drop off) with
  | none => .raise
  | some (m, rest) => .ok (off + ((buf.drop off).length - rest.length), m)

/-- **wf_via**: for every decoder table whose entry for type `t` runs the message decoder `D`, a byte string with a valid
    header of type `t` that `D` decodes — in front of anything — to `m`, consuming exactly it, is well-formed for the
    framing theorems -/
theorem wf_via {M : Type} (U : Unpack M) (t : Nat) (D : Bytes → Option (M × Bytes))
    (hU : ∀ buf off, U t buf off = viaDecoder D buf off) (bs : Bytes) (m : M) (hh : Hdr bs) (ht : byteAt bs 1 = t)
    (hdec : ∀ tl, D (bs ++ tl) = some (m, tl)) : WF U bs m := by
  refine { toHdr := hh, dec := ?_ }
  intro pre post
  rw [ht, hU]
  unfold viaDecoder
  have hdrop : (pre ++ bs ++ post).drop pre.length = bs ++ post := by simp [List.append_assoc]
  rw [hdrop, hdec post]
  simp only [List.length_append]
  congr 2
  omega

end Pox.FramingCodec
