import PoxModel.Proofs.PacketExt
/-!
# GRE (RFC 2784/2890 header without routing): checksum and round trip (C14 phase 2; core only)
-/
namespace Pox.Packet
open Pox Pox.PktLayout Pox.Checksum

theorem be16_ex (n : Nat) (h : n < 65536) : ∃ a b, be16 n = [a, b] ∧ beDec [a, b] = n := by
  refine ⟨UInt8.ofNat (n / 256), UInt8.ofNat (n % 256), be16_eq n h, ?_⟩
  rw [← be16_eq n h, be16, beDec_beEnc 2 n (by simpa using h)]

theorem be32_ex (n : Nat) (h : n < 4294967296) : ∃ a b c d, beEnc 4 n = [a, b, c, d] ∧ beDec [a, b, c, d] = n := by
  have e : beEnc 4 n = [UInt8.ofNat (n / 16777216), UInt8.ofNat (n % 16777216 / 65536),
      UInt8.ofNat (n % 16777216 % 65536 / 256), UInt8.ofNat (n % 16777216 % 65536 % 256)] := by simp [beEnc]
  refine ⟨_, _, _, _, e, ?_⟩
  rw [← e, beDec_beEnc 4 n (by simpa using h)]

structure Gre.Fits (h : Gre) : Prop where
  type : h.type < 65536
  ver : h.ver = 0
  recursion : h.recursion = 0
  routeOffset : h.routeOffset < 65536
  roAbsent : h.csum = .absent → h.routeOffset = 0
  key : ∀ k, h.key = some k → k < 4294967296
  seq : ∀ s, h.seq = some s → s < 4294967296
  csum : h.csum = .absent ∨ h.csum = .compute

/-- the flag word: C (checksum present), K (key), S (sequence number), s (strict source route) -/
def greFlags (h : Gre) : Nat :=
  (if h.csum = .absent then 0 else 0x8000) + (if h.key.isSome then 0x2000 else 0) + (if h.seq.isSome then 0x1000 else 0) +
  (if h.ssr then 0x800 else 0)

def greOpt : Option Nat → Bytes
  | some v => beEnc 4 v
  | none => []

/-- everything after the checksum word: reserved/offset, key, sequence number -/
def greTail (h : Gre) : Bytes := be16 h.routeOffset ++ (greOpt h.key ++ greOpt h.seq)

/-- RFC 2784 §2.3: RFC 1071 over the GRE header (checksum word zero) and the payload packet -/
def greCsumSpec (h : Gre) (payload : Bytes) : Nat :=
  rfc1071 ((be16 (greFlags h) ++ be16 h.type) ++ 0 :: 0 :: (greTail h ++ payload))

def greBytes (h : Gre) (payload : Bytes) : Bytes :=
  match h.csum with
  | .absent => (be16 (greFlags h) ++ be16 h.type) ++ (greOpt h.key ++ greOpt h.seq)
  | _ => (be16 (greFlags h) ++ be16 h.type) ++ (be16 (greCsumSpec h payload) ++ greTail h)

theorem greFlags_lt (h : Gre) : greFlags h < 65536 := by
  unfold greFlags; split <;> split <;> split <;> split <;> omega

theorem optU32_ok (o : Option Nat) (h : ∀ v, o = some v → v < 4294967296) : optU32 o = .ok (greOpt o) := by
  cases o with
  | none => rfl
  | some v => simp [optU32, greOpt, pk, encode, h v rfl]

theorem greOpt_length (o : Option Nat) : (greOpt o).length = if o.isSome then 4 else 0 := by
  cases o <;> simp [greOpt]

/-- `gre.hdr(payload)` with `csum = True`: the checksum word is RFC 1071 over header (with that word zero) and payload,
the packet as emitted verifies, and the object keeps the computed value; with `csum = None` no checksum word is sent -/
theorem greHdr_ok (h : Gre) (payload : Bytes) (hf : h.Fits) (hn : payload.length + 16 ≤ 131072) :
    greHdr h payload = .ok ({ h with csum := if h.csum = .absent then .absent else .val (greCsumSpec h payload) },
                            greBytes h payload) := by
  have hfl := greFlags_lt h
  have hk := optU32_ok h.key hf.key
  have hs := optU32_ok h.seq hf.seq
  have hflags : (if h.csum = .absent then 0 else 0x8000) + (if h.key.isSome then 0x2000 else 0) +
      (if h.seq.isSome then 0x1000 else 0) + (if h.ssr then 0x800 else 0) + ((h.recursion / 256) % 8) * 65536 = greFlags h := by
    rw [hf.recursion]; simp [greFlags]
  have ea : pk [.uint 2, .uint 2] [.num (greFlags h), .num h.type] = .ok (be16 (greFlags h) ++ be16 h.type) := by
    simp [pk, encode, be16, hfl, hf.type]
  unfold greHdr
  simp only [hflags, ea, hk, hs, bind, Except.bind, pure, Except.pure]
  rcases hf.csum with hc | hc
  · simp [hc, greBytes]
    cases h; simp_all
  · have ec : pk [.uint 2, .uint 2] [.num 0, .num h.routeOffset] = .ok (be16 0 ++ be16 h.routeOffset) := by
      simp [pk, encode, be16, hf.routeOffset]
    simp only [hc, ec]
    have hdata : (be16 (greFlags h) ++ be16 h.type ++ (be16 0 ++ be16 h.routeOffset ++ (greOpt h.key ++ greOpt h.seq))) ++ payload
        = (be16 (greFlags h) ++ be16 h.type) ++ 0 :: 0 :: (greTail h ++ payload) := by
      simp [be16_zero, greTail, List.append_assoc]
    have hlen : ((be16 (greFlags h) ++ be16 h.type) ++ 0 :: 0 :: (greTail h ++ payload)).length ≤ 131072 := by
      simp [greTail, greOpt_length]; split <;> split <;> omega
    have ht : (be16 (greFlags h) ++ be16 h.type ++ (be16 0 ++ be16 h.routeOffset ++ (greOpt h.key ++ greOpt h.seq))).take 4
        = be16 (greFlags h) ++ be16 h.type := take_left _ _ 4 (by simp)
    have hdr : (be16 (greFlags h) ++ be16 h.type ++ (be16 0 ++ be16 h.routeOffset ++ (greOpt h.key ++ greOpt h.seq))).drop 6
        = greTail h := by
      have := drop_left ((be16 (greFlags h) ++ be16 h.type) ++ be16 0) (greTail h) 6 (by simp)
      simpa [greTail, List.append_assoc] using this
    rw [hdata, checksum_eq _ hlen, ht, hdr]
    simp [greBytes, hc, greCsumSpec]

/-- the packet as emitted verifies at a receiver -/
theorem gre_verifies (h : Gre) (payload : Bytes) (hc : h.csum = .compute) : rfc1071 (greBytes h payload ++ payload) = 0 := by
  unfold greBytes greCsumSpec
  simp only [hc]
  have := rfc1071_verifies (be16 (greFlags h) ++ be16 h.type) (greTail h ++ payload) (by simp)
  simpa [List.append_assoc] using this

/-- where `gre.parse` sends the payload -/
def greNext (next : XNext) (h : Gre) (payload : Bytes) : XPkt :=
  if h.type = 0x0800 then next none (.core .ipv4) payload
  else if h.type = 0x6558 then next none (.core .eth) payload
  else .raw payload

/-- `gre(raw = hdr(payload) + payload)`: flags, protocol type, key, sequence number and the emitted checksum come back -/
theorem gre_parse (next : XNext) (h : Gre) (payload : Bytes) (hf : h.Fits) :
    greParse next (greBytes h payload ++ payload)
      = .gre { h with csum := if h.csum = .absent then .absent else .val (greCsumSpec h payload) }
          (greNext next h payload) := by
  obtain ⟨t1, t2, et, dt⟩ := be16_ex h.type hf.type
  obtain ⟨c1, c2, ec, dc⟩ := be16_ex (greCsumSpec h payload) (rfc1071_lt _)
  obtain ⟨r1, r2, er, dr⟩ := be16_ex h.routeOffset hf.routeOffset
  have hv := hf.ver; have hrec := hf.recursion; have hro := hf.roAbsent
  obtain ⟨type, ver, ssr, recursion, routeOffset, key, seq, csum⟩ := h
  simp only at hv hrec hro et dt er dr
  subst hv; subst hrec
  have hcs := hf.csum
  simp only at hcs
  rcases hcs with hc | hc <;> subst hc <;> cases key with
  | none =>
    cases seq with
    | none =>
      cases ssr <;>
        simp [greBytes, greFlags, greOpt, greTail, greParse, greNext, be16_eq, et, ec, er, sl, getU8, beDec] <;>
        simp_all [beDec] <;> (repeat rw [if_neg (by omega)])
    | some s =>
      obtain ⟨s1, s2, s3, s4, es, ds⟩ := be32_ex s (hf.seq s rfl)
      cases ssr <;>
        simp [greBytes, greFlags, greOpt, greTail, greParse, greNext, be16_eq, et, ec, er, es, sl, getU8, beDec] <;>
        simp_all [beDec] <;> (repeat rw [if_neg (by omega)])
  | some k =>
    obtain ⟨k1, k2, k3, k4, ek, dk⟩ := be32_ex k (hf.key k rfl)
    cases seq with
    | none =>
      cases ssr <;>
        simp [greBytes, greFlags, greOpt, greTail, greParse, greNext, be16_eq, et, ec, er, ek, sl, getU8, beDec] <;>
        simp_all [beDec] <;> (repeat rw [if_neg (by omega)])
    | some s =>
      obtain ⟨s1, s2, s3, s4, es, ds⟩ := be32_ex s (hf.seq s rfl)
      cases ssr <;>
        simp [greBytes, greFlags, greOpt, greTail, greParse, greNext, be16_eq, et, ec, er, ek, es, sl, getU8, beDec] <;>
        simp_all [beDec] <;> (repeat rw [if_neg (by omega)])

end Pox.Packet
