import PoxModel.Proofs.Contain
/-! One select round serves several connections (C10): the outcome does not depend on the order of service, and what
happens to one connection depends on its own bytes only.  Core only. -/
namespace Pox.Framing
variable {Msg : Type}

/-- one select round: the readable connections, each with the bytes its socket holds, served in list order -/
def serveRound (feed : CS Msg → Bytes → CS Msg) (net : List (CS Msg)) (items : List (Nat × Bytes)) : List (CS Msg) :=
  items.foldl (fun n e => feedAt feed n e.1 e.2) net

theorem feedAt_length (feed : CS Msg → Bytes → CS Msg) (net : List (CS Msg)) (i : Nat) (c : Bytes) :
    (feedAt feed net i c).length = net.length := by
  unfold feedAt
  cases net[i]? with
  | none => rfl
  | some x => simp

theorem feedAt_self (feed : CS Msg → Bytes → CS Msg) (net : List (CS Msg)) (i : Nat) (c : Bytes) :
    (feedAt feed net i c)[i]? = (net[i]?).map (fun x => feed x c) := by
  unfold feedAt
  cases hi : net[i]? with
  | none => simp [hi]
  | some x =>
    have hlt : i < net.length := by
      rcases List.getElem?_eq_some_iff.mp hi with ⟨h, _⟩; exact h
    simp [List.getElem?_set, hlt]

/-- serving two different connections commutes -/
theorem feedAt_comm (feed : CS Msg → Bytes → CS Msg) (net : List (CS Msg)) (i j : Nat) (a b : Bytes) (h : i ≠ j) :
    feedAt feed (feedAt feed net i a) j b = feedAt feed (feedAt feed net j b) i a := by
  apply List.ext_getElem?
  intro k
  by_cases hkj : k = j
  · subst hkj
    rw [feedAt_self, feedAt_others feed net i k a (Ne.symm h), feedAt_others feed _ i k a (Ne.symm h), feedAt_self]
  · by_cases hki : k = i
    · subst hki
      rw [feedAt_others feed _ j k b hkj, feedAt_self, feedAt_self, feedAt_others feed net j k b hkj]
    · rw [feedAt_others feed _ j k b hkj, feedAt_others feed net i k a hki, feedAt_others feed _ i k a hki,
        feedAt_others feed net j k b hkj]


/-- a connection that is not readable in the round is exactly as before -/
theorem serveRound_others (feed : CS Msg → Bytes → CS Msg) (items : List (Nat × Bytes)) :
    ∀ (net : List (CS Msg)) (j : Nat), (∀ e ∈ items, e.1 ≠ j) → (serveRound feed net items)[j]? = net[j]? := by
  induction items with
  | nil => intro net j _; rfl
  | cons e rest ih =>
    intro net j h
    have h1 : e.1 ≠ j := h e (List.mem_cons_self ..)
    have h2 : ∀ x ∈ rest, x.1 ≠ j := fun x hx => h x (List.mem_cons_of_mem _ hx)
    show (serveRound feed (feedAt feed net e.1 e.2) rest)[j]? = net[j]?
    rw [ih _ j h2, feedAt_others feed net e.1 j e.2 (Ne.symm h1)]

/-- a connection readable in the round (once) ends up as if it alone had been served with its own bytes -/
theorem serveRound_at (feed : CS Msg → Bytes → CS Msg) (items : List (Nat × Bytes)) :
    ∀ (net : List (CS Msg)) (i : Nat) (c : Bytes), (items.map (·.1)).Nodup → (i, c) ∈ items →
      (serveRound feed net items)[i]? = (net[i]?).map (fun x => feed x c) := by
  induction items with
  | nil => intro net i c _ hm; cases hm
  | cons e rest ih =>
    intro net i c hn hm
    have hn' : e.1 ∉ rest.map (·.1) ∧ (rest.map (·.1)).Nodup := by
      simpa [List.nodup_cons] using hn
    show (serveRound feed (feedAt feed net e.1 e.2) rest)[i]? = _
    rcases List.mem_cons.mp hm with he | hr
    · subst he
      have hno : ∀ x ∈ rest, x.1 ≠ i := by
        intro x hx hxi
        exact hn'.1 (List.mem_map.mpr ⟨x, hx, hxi⟩)
      rw [serveRound_others feed rest _ i hno, feedAt_self]
    · have hne : i ≠ e.1 := by
        intro h
        exact hn'.1 (List.mem_map.mpr ⟨(i, c), hr, h⟩)
      rw [ih _ i c hn'.2 hr, feedAt_others feed net e.1 i e.2 hne]

theorem eq_of_nodup_map_fst {α β : Type} : ∀ (l : List (α × β)), (l.map (·.1)).Nodup →
    ∀ x ∈ l, ∀ y ∈ l, x.1 = y.1 → x = y := by
  intro l
  induction l with
  | nil => intro _ x hx; cases hx
  | cons e rest ih =>
    intro hn x hx y hy h
    have hn' : e.1 ∉ rest.map (·.1) ∧ (rest.map (·.1)).Nodup := by
      simpa [List.nodup_cons] using hn
    rcases List.mem_cons.mp hx with hxe | hxr
    · rcases List.mem_cons.mp hy with hye | hyr
      · rw [hxe, hye]
      · exact absurd (List.mem_map.mpr ⟨y, hyr, by rw [← h, hxe]⟩) hn'.1
    · rcases List.mem_cons.mp hy with hye | hyr
      · exact absurd (List.mem_map.mpr ⟨x, hxr, by rw [h, hye]⟩) hn'.1
      · exact ih hn'.2 x hxr y hyr h

/-- the outcome of a round does not depend on the order in which the readable connections are served -/
theorem serveRound_perm (feed : CS Msg → Bytes → CS Msg) (net : List (CS Msg)) (l₁ l₂ : List (Nat × Bytes))
    (hn : (l₁.map (·.1)).Nodup) (hp : l₁.Perm l₂) : serveRound feed net l₁ = serveRound feed net l₂ := by
  unfold serveRound
  apply List.Perm.foldl_eq' hp
  intro x hx y hy z
  by_cases hxy : x = y
  · subst hxy; rfl
  · have hne : x.1 ≠ y.1 := by
      intro h
      exact hxy (eq_of_nodup_map_fst l₁ hn x hx y hy h)
    exact feedAt_comm feed z x.1 y.1 x.2 y.2 hne


/-! ### the controller's round as the code runs it: a raising read abandons the rest of the round -/

/-- the per-connection step of `OpenFlow_01_Task.run` (= the function `ctlServe` applies at index `i`) -/
def ctlStep (U : Unpack Msg) (c : CS Msg) (ch : Bytes) : CS Msg :=
  let r := ctlFeed U 8 c ch
  if r.st = .dead then { r with st := .closed } else r

/-- `con.read()` raised for connection `i` on these bytes (decoder exception, consumed-length assertion, missing decoder) -/
def ctlRaises (U : Unpack Msg) (net : List (CS Msg)) (i : Nat) (ch : Bytes) : Bool :=
  match net[i]? with
  | some c => decide ((ctlFeed U 8 c ch).st = .dead)
  | none => false

/-- one pass of `for con in rlist:` inside the `try`: connections are served in order; when a read raises, the `except:`
    closes that connection and the REST of the list is not served in this pass — it is returned, still unread -/
def ctlRound (U : Unpack Msg) : List (CS Msg) → List (Nat × Bytes) → List (CS Msg) × List (Nat × Bytes)
  | net, [] => (net, [])
  | net, e :: r =>
    if ctlRaises U net e.1 e.2 then (feedAt (ctlStep U) net e.1 e.2, r)
    else ctlRound U (feedAt (ctlStep U) net e.1 e.2) r

/-- select is level-triggered: what a pass left unread is reported again; `fuel` passes -/
def ctlRounds (U : Unpack Msg) : Nat → List (CS Msg) → List (Nat × Bytes) → List (CS Msg) × List (Nat × Bytes)
  | 0, net, items => (net, items)
  | fuel + 1, net, items =>
    match items with
    | [] => (net, [])
    | _ :: _ => let r := ctlRound U net items
                ctlRounds U fuel r.1 r.2

theorem ctlRound_completes (U : Unpack Msg) (items : List (Nat × Bytes)) : ∀ (net : List (CS Msg)),
    serveRound (ctlStep U) (ctlRound U net items).1 (ctlRound U net items).2 = serveRound (ctlStep U) net items := by
  induction items with
  | nil => intro net; rfl
  | cons e r ih =>
    intro net
    by_cases h : ctlRaises U net e.1 e.2 = true
    · simp only [ctlRound, if_pos h]; rfl
    · simp only [ctlRound, if_neg h]
      rw [ih]; rfl

theorem ctlRound_shorter (U : Unpack Msg) (items : List (Nat × Bytes)) : ∀ (net : List (CS Msg)),
    (ctlRound U net items).2.length ≤ items.length - 1 := by
  induction items with
  | nil => intro net; simp [ctlRound]
  | cons e r ih =>
    intro net
    by_cases h : ctlRaises U net e.1 e.2 = true
    · simp only [ctlRound, if_pos h]; simp
    · simp only [ctlRound, if_neg h]
      have := ih (feedAt (ctlStep U) net e.1 e.2)
      simp only [List.length_cons, Nat.add_sub_cancel]
      omega

theorem ctlRounds_completes (U : Unpack Msg) : ∀ (fuel : Nat) (net : List (CS Msg)) (items : List (Nat × Bytes)),
    items.length ≤ fuel →
    ctlRounds U fuel net items = (serveRound (ctlStep U) net items, []) := by
  intro fuel
  induction fuel with
  | zero =>
    intro net items h
    have : items = [] := List.eq_nil_of_length_eq_zero (Nat.le_zero.mp h)
    subst this; rfl
  | succ fuel ih =>
    intro net items h
    cases items with
    | nil => rfl
    | cons e r =>
      simp only [ctlRounds]
      have hs := ctlRound_shorter U (e :: r) net
      have hc := ctlRound_completes U (e :: r) net
      rw [ih _ _ (by simp only [List.length_cons, Nat.add_sub_cancel] at hs h ⊢; omega), hc]

end Pox.Framing
