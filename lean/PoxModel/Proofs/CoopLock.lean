import PoxModel.Model.CoopLock
/-! Invariants of the cooperative lock used by several tasks (C07 `lock_excl`). -/
namespace Pox.CoopLock

/-- the task the lock object points to -/
def holderList : Option Holder → List Task
  | some (.task t) => [t]
  | _ => []

structure Inv (s : Sys) : Prop where
  /-- the tasks that were told they own the lock are exactly the task `_locked` refers to -/
  excl : s.believers = holderList s.lock.locked
  /-- nobody waits on a free lock -/
  noIdle : s.lock.locked = none → s.lock.waiting = []
  nodup : s.lock.waiting.Nodup

theorem applyRelease_inv {s s' : Sys} {who : Option Task} {choice : Task} (h : Inv s)
    (hwho : ∀ t, who = some t → s.lock.locked = some (.task t))
    (hflag : who = none → s.lock.locked = some .flag)
    (hs : applyRelease s who choice = some s') : Inv s' := by
  obtain ⟨h1, h2, h3⟩ := h
  have hb : remaining s who = [] := by
    cases who with
    | some t => simp [remaining, h1, hwho t rfl, holderList]
    | none => simp [remaining, h1, hflag rfl, holderList]
  cases hl : s.lock.locked with
  | none => cases who with
    | some t => rw [hwho t rfl] at hl; cases hl
    | none => rw [hflag rfl] at hl; cases hl
  | some hd =>
    cases hw : s.lock.waiting with
    | nil =>
      simp only [applyRelease, release, hl, hw, hb] at hs
      cases hs
      exact ⟨by simp [holderList], fun _ => by simpa using hw, by simp [hw]⟩
    | cons a as =>
      by_cases hc : choice ∈ a :: as
      · simp only [applyRelease, release, hl, hw, hc, if_true, hb] at hs
        cases hs
        refine ⟨by simp [holderList], by simp, ?_⟩
        show (List.erase (a :: as) choice).Nodup
        rw [← hw]; exact h3.erase _
      · simp only [applyRelease, release, hl, hw, hc, if_false] at hs
        cases hs

theorem sstep_inv {s s' : Sys} {o : Op} (h : Inv s) (hd : o.disciplined = true) (hs : sstep s o = some s') : Inv s' := by
  cases o with
  | relAny t c => cases hd
  | acq t b =>
    obtain ⟨h1, h2, h3⟩ := h
    simp only [sstep, acquire] at hs
    split at hs
    · cases hs
    · rename_i hnw
      cases hl : s.lock.locked with
      | none =>
        simp only [hl] at hs
        cases hs
        refine ⟨by simp [h1, hl, holderList], by simp, h3⟩
      | some hd' =>
        simp only [hl] at hs
        cases b with
        | true =>
          simp only [if_true, hnw, if_false] at hs
          cases hs
          refine ⟨by simpa [hl] using h1, by simp [hl], ?_⟩
          show (s.lock.waiting ++ [t]).Nodup
          exact List.nodup_append.mpr ⟨h3, by simp, by
            intro a ha b hb; simp at hb; subst hb; intro hab; subst hab; exact hnw ha⟩
        | false =>
          simp only [Bool.false_eq_true, if_false] at hs
          cases hs
          exact ⟨h1, h2, h3⟩
  | rel t c =>
    simp only [sstep] at hs
    split at hs
    · cases hs
    · rename_i hc
      have hc' : t ∈ s.believers := by
        by_cases hm : t ∈ s.believers
        · exact hm
        · exact absurd (Or.inr hm) hc
      refine applyRelease_inv h ?_ (by intro hn; cases hn) hs
      intro t' ht'; cases ht'
      rw [h.excl] at hc'
      cases hl : s.lock.locked with
      | none => simp [hl, holderList] at hc'
      | some hd' => cases hd' with
        | flag => simp [hl, holderList] at hc'
        | task u => simp [hl, holderList] at hc'; subst hc'; rfl
  | relFlag c =>
    simp only [sstep] at hs
    split at hs
    · rename_i hf
      exact applyRelease_inv h (by intro t ht; cases ht) (fun _ => hf) hs
    · cases hs

theorem srun_inv (ops : List Op) : ∀ (s : Sys), Inv s → (∀ o ∈ ops, o.disciplined = true) → Inv (srun s ops) := by
  induction ops with
  | nil => intro s h _; exact h
  | cons o os ih =>
    intro s h hd
    simp only [srun]
    cases hs : sstep s o with
    | none => simpa using ih s h (fun o' ho' => hd o' (List.mem_cons_of_mem _ ho'))
    | some s' =>
      exact ih s' (sstep_inv h (hd o List.mem_cons_self) hs) (fun o' ho' => hd o' (List.mem_cons_of_mem _ ho'))

theorem init_inv (flag : Bool) : Inv { lock := { locked := if flag then some .flag else none } } := by
  cases flag <;> exact ⟨by simp [holderList], by simp, by simp⟩

/-! ## any number of locks -/

def MInv (s : MSys) : Prop := ∀ j v, s.proj j = some v → Inv v

theorem filter_eq_after {bs : List (Task × Nat)} {j : Nat} {ts : List Task} :
    ((bs.filter (·.2 ≠ j) ++ ts.map (·, j)).filter (·.2 = j)).map (·.1) = ts := by
  rw [List.filter_append]
  have h1 : (bs.filter (·.2 ≠ j)).filter (·.2 = j) = [] := by
    rw [List.filter_filter]; apply List.filter_eq_nil_iff.mpr; intro a _; simp
  have h2 : (ts.map (·, j)).filter (·.2 = j) = ts.map (·, j) := by
    apply List.filter_eq_self.mpr; intro a ha; obtain ⟨t, _, rfl⟩ := List.mem_map.mp ha; simp
  rw [h1, h2]; simp [List.map_map, Function.comp_def]

theorem filter_ne_after {bs : List (Task × Nat)} {j k : Nat} {ts : List Task} (hk : k ≠ j) :
    (bs.filter (·.2 ≠ j) ++ ts.map (·, j)).filter (·.2 = k) = bs.filter (·.2 = k) := by
  rw [List.filter_append]
  have h2 : (ts.map (·, j)).filter (·.2 = k) = [] := by
    apply List.filter_eq_nil_iff.mpr; intro a ha; obtain ⟨t, _, rfl⟩ := List.mem_map.mp ha; simp; exact fun e => hk e.symm
  rw [h2, List.append_nil, List.filter_filter]
  apply List.filter_congr; intro a _; simp; intro h; rw [h]; exact hk

theorem mstep_inv {s s' : MSys} {j : Nat} {o : Op} (h : MInv s) (hd : o.disciplined = true)
    (hs : mstep s j o = some s') : MInv s' := by
  have hgo : mstep.go s j o = some s' := by
    simp only [mstep] at hs
    split at hs
    · split at hs
      · cases hs
      · exact hs
    · exact hs
  simp only [mstep.go] at hgo
  cases hp : s.proj j with
  | none => simp [hp] at hgo
  | some v =>
    simp only [hp] at hgo
    cases hv : sstep v o with
    | none => simp [hv] at hgo
    | some v' =>
      simp only [hv] at hgo
      cases hgo
      have hinv' : Inv v' := sstep_inv (h j v hp) hd hv
      have hlt : j < s.locks.length := by
        simp only [MSys.proj] at hp
        rcases hl : s.locks[j]? with _ | l
        · simp [hl] at hp
        · rcases Nat.lt_or_ge j s.locks.length with h' | h'
          · exact h'
          · rw [List.getElem?_eq_none h'] at hl; cases hl
      intro k w hw
      simp only [MSys.proj] at hw
      by_cases hk : k = j
      · subst hk
        simp only [List.getElem?_set, hlt, if_true, Option.map_some] at hw
        cases hw
        rw [filter_eq_after]
        exact hinv'
      · have hne : j ≠ k := fun e => hk e.symm
        rw [List.getElem?_set] at hw
        simp only [hne, if_false] at hw
        rw [filter_ne_after hk] at hw
        exact h k w (by simpa [MSys.proj] using hw)

theorem mrun_inv (ops : List (Nat × Op)) : ∀ (s : MSys), MInv s → (∀ p ∈ ops, p.2.disciplined = true) →
    MInv (mrun s ops) := by
  induction ops with
  | nil => intro s h _; exact h
  | cons p os ih =>
    intro s h hd
    obtain ⟨j, o⟩ := p
    simp only [mrun]
    cases hs : mstep s j o with
    | none => simpa using ih s h (fun p' hp' => hd p' (List.mem_cons_of_mem _ hp'))
    | some s' =>
      exact ih s' (mstep_inv h (hd (j, o) List.mem_cons_self) hs) (fun p' hp' => hd p' (List.mem_cons_of_mem _ hp'))

theorem minit_inv (flags : List Bool) : MInv (minit flags) := by
  intro j v hv
  simp only [MSys.proj, minit, List.getElem?_map] at hv
  rcases hf : flags[j]? with _ | f
  · simp [hf] at hv
  · simp [hf] at hv; subst hv; exact init_inv f

end Pox.CoopLock
