import PoxModel.Proofs.Discovery
/-! `flood_ports` (C19) for the repaired handlers (`fixed`): every op that raises a LinkEvent ends with `_update_tree()` run on
    the adjacency as it is after the op, so its post-condition holds in the resulting state.  Core only. -/
namespace Pox.Discovery
open Pox Pox.STree

/-- the set-iteration order an op carries for `_calc_spanning_tree` -/
def orderOf : Op → List Nat
  | .down _ o => o
  | .probe _ o => o
  | .sweep o => o
  | _ => []

/-- the flood bits are right for every switch `_update_tree` goes through (`va = false`: the switches of the tree, `va = true`: every
    connected switch): the post-condition of `_update_tree` w.r.t. `adj` -/
def FloodOKv (va : Bool) (adj : List Link) (order : List Nat) (conns : Conns) (pv : Prev) : Prop :=
  ∃ t, calcTreeL adj order = .ok t ∧ ∀ sw ∈ visited va t conns, Good adj t conns pv sw

/-- the flood bits are right for every tree switch -/
def FloodOK (adj : List Link) (order : List Nat) (conns : Conns) (pv : Prev) : Prop := FloodOKv false adj order conns pv

/-- executable form of `FloodOKv` (used for the `decide`d defect witnesses) -/
def floodOkBv (va : Bool) (adj : List Link) (order : List Nat) (conns : Conns) (pv : Prev) : Bool :=
  match calcTreeL adj order with
  | .error _ => false
  | .ok t => (visited va t conns).all fun sw =>
      match conns.get sw with
      | none => true
      | some ports => ports.all fun p => !(decide (p < OFPP_MAX)) || (pv.get (sw, p) == some (floodOf adj (treePorts t sw) sw p))

def floodOkB (adj : List Link) (order : List Nat) (conns : Conns) (pv : Prev) : Bool := floodOkBv false adj order conns pv

theorem floodOkBv_of_FloodOKv (va : Bool) (adj : List Link) (order : List Nat) (conns : Conns) (pv : Prev)
    (h : FloodOKv va adj order conns pv) : floodOkBv va adj order conns pv = true := by
  obtain ⟨t, ht, hg⟩ := h
  unfold floodOkBv
  rw [ht]
  simp only [List.all_eq_true]
  intro sw hsw
  cases hc : conns.get sw with
  | none => rfl
  | some ports =>
    simp only [List.all_eq_true]
    intro p hp
    by_cases hlt : p < OFPP_MAX
    · have := hg sw hsw ports hc p hp hlt
      simp [hlt, this]
    · simp [hlt]

theorem floodOkB_of_FloodOK (adj : List Link) (order : List Nat) (conns : Conns) (pv : Prev)
    (h : FloodOK adj order conns pv) : floodOkB adj order conns pv = true :=
  floodOkBv_of_FloodOKv false adj order conns pv h

theorem handle_rep_post (v : Variant) (hs : v.skip = false) (adjNow : List Link) (order : List Nat) (conns : Conns) (link : Link)
    (acc : Prev × List PortMod × Nat) (t : List TEdge) (ht : calcTreeL adjNow order = .ok t) :
    ∀ sw ∈ visited v.visitAll t conns, Good adjNow t conns (handleLinkEvent v adjNow order conns link acc).1 sw := by
  obtain ⟨pv', mods, hu⟩ := updateTree_ok v.visitAll adjNow order conns acc.1 t ht
  have : (handleLinkEvent v adjNow order conns link acc).1 = pv' := by
    unfold handleLinkEvent
    simp [hs, hu]
  rw [this]
  exact updateTree_post v.visitAll adjNow order conns acc.1 pv' mods t ht hu

theorem handleAll_rep_post (v : Variant) (hs : v.skip = false) (adjNow : List Link) (order : List Nat) (conns : Conns)
    (t : List TEdge) (ht : calcTreeL adjNow order = .ok t) :
    ∀ (links : List Link) (acc : Prev × List PortMod × Nat), links ≠ [] →
      ∀ sw ∈ visited v.visitAll t conns, Good adjNow t conns (handleAll v adjNow order conns links acc).1 sw
  | [], _, h => absurd rfl h
  | [l], acc, _ => by
    simp only [handleAll]
    exact handle_rep_post v hs adjNow order conns l acc t ht
  | l :: l2 :: ls, acc, _ => by
    rw [handleAll]
    exact handleAll_rep_post v hs adjNow order conns t ht (l2 :: ls) _ (by simp)

theorem deleteLinks_rep_prev (v : Variant) (hp : v.popFirst = true) (s : DState) (links : List Link) (order : List Nat) :
    (deleteLinks v s links order).1.prev =
      (handleAll v (keys (without s.adj links)) order s.conns links (s.prev, [], 0)).1 := by
  unfold deleteLinks; simp [hp]

theorem deleteLinks_rep_flood (v : Variant) (hp : v.popFirst = true) (hs : v.skip = false) (s : DState) (links : List Link)
    (order : List Nat) (hne : links ≠ []) (t : List TEdge)
    (ht : calcTreeL (keys (deleteLinks v s links order).1.adj) order = .ok t) :
    ∀ sw ∈ visited v.visitAll t (deleteLinks v s links order).1.conns,
      Good (keys (deleteLinks v s links order).1.adj) t (deleteLinks v s links order).1.conns
        (deleteLinks v s links order).1.prev sw := by
  rw [deleteLinks_rep_prev v hp, deleteLinks_conns]
  rw [deleteLinks_adj] at ht ⊢
  exact handleAll_rep_post v hs _ order s.conns t ht links _ hne

/-- FLOOD_PORTS, one op from ANY state of the repaired components (`popFirst`, no `skip`): if the op raised a LinkEvent (the adjacency
    changed) and `_calc_spanning_tree` returns `t` on the new adjacency, then in the new state every port below `OFPP_MAX` of every
    switch `_update_tree` goes through has flooding on iff it is a tree port or an edge port. -/
theorem step_rep_flood (v : Variant) (hp : v.popFirst = true) (hs : v.skip = false) (s : DState) (op : Op)
    (hev : (step v s op).2.events ≠ []) (t : List TEdge)
    (ht : calcTreeL (keys (step v s op).1.adj) (orderOf op) = .ok t) :
    ∀ sw ∈ visited v.visitAll t (step v s op).1.conns,
      Good (keys (step v s op).1.adj) t (step v s op).1.conns (step v s op).1.prev sw := by
  cases op with
  | tick dt => simp [step] at hev
  | up d ps => simp [step] at hev
  | down d o =>
    simp only [step, orderOf] at hev ht ⊢
    apply deleteLinks_rep_flood v hp hs _ _ _ _ t ht
    intro hnil
    rw [deleteLinks_events, hnil] at hev
    exact hev rfl
  | sweep o =>
    simp only [step, orderOf] at hev ht ⊢
    split at hev
    · simp at hev
    · rename_i hne
      rw [if_neg hne] at ht ⊢
      apply deleteLinks_rep_flood v hp hs _ _ _ _ t ht
      intro hnil
      rw [deleteLinks_events, hnil] at hev
      exact hev rfl
  | probe l o =>
    simp only [step, orderOf] at hev ht ⊢
    split at hev
    · simp at hev
    · split at hev
      · simp at hev
      · split at hev
        · simp at hev
        · rename_i h1 h2 h3
          rw [if_neg h1, if_neg h2, if_neg h3] at ht ⊢
          exact handle_rep_post v hs _ o s.conns l _ t ht

theorem step_fixed_flood (s : DState) (op : Op) (hev : (step fixed s op).2.events ≠ []) (t : List TEdge)
    (ht : calcTreeL (keys (step fixed s op).1.adj) (orderOf op) = .ok t) :
    ∀ sw ∈ treeKeys t, Good (keys (step fixed s op).1.adj) t (step fixed s op).1.conns (step fixed s op).1.prev sw :=
  step_rep_flood fixed rfl rfl s op hev t ht

end Pox.Discovery
