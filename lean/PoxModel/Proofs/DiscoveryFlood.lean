import PoxModel.Proofs.Discovery
/-! `flood_ports` (C19) for the repaired handlers (`fixed`): every op that raises a LinkEvent ends with `_update_tree()` run on
    the adjacency as it is after the op, so its post-condition holds in the resulting state.  Core only. -/
namespace Pox.Discovery
open Pox Pox.STree

/-- the set-iteration order an op carries for `_calc_spanning_tree` -/
def orderOf : Op → List Nat
  | .down _ o => o
  | .probe _ o => o
  | .sweep o => o
  | _ => []

/-- the flood bits are right for every tree switch: the post-condition of `_update_tree` w.r.t. `adj` -/
def FloodOK (adj : List Link) (order : List Nat) (conns : Conns) (pv : Prev) : Prop :=
  ∃ t, calcTreeL adj order = .ok t ∧ ∀ sw ∈ treeKeys t, Good adj t conns pv sw

/-- executable form of `FloodOK` (used for the `decide`d defect witnesses) -/
def floodOkB (adj : List Link) (order : List Nat) (conns : Conns) (pv : Prev) : Bool :=
  match calcTreeL adj order with
  | .error _ => false
  | .ok t => (treeKeys t).all fun sw =>
      match conns.get sw with
      | none => true
      | some ports => ports.all fun p => !(decide (p < OFPP_MAX)) || (pv.get (sw, p) == some (floodOf adj (treePorts t sw) sw p))

theorem floodOkB_of_FloodOK (adj : List Link) (order : List Nat) (conns : Conns) (pv : Prev)
    (h : FloodOK adj order conns pv) : floodOkB adj order conns pv = true := by
  obtain ⟨t, ht, hg⟩ := h
  unfold floodOkB
  rw [ht]
  simp only [List.all_eq_true]
  intro sw hsw
  cases hc : conns.get sw with
  | none => rfl
  | some ports =>
    simp only [List.all_eq_true]
    intro p hp
    by_cases hlt : p < OFPP_MAX
    · have := hg sw hsw ports hc p hp hlt
      simp [hlt, this]
    · simp [hlt]

theorem handle_fixed_post (adjNow : List Link) (order : List Nat) (conns : Conns) (link : Link)
    (acc : Prev × List PortMod × Nat) (t : List TEdge) (ht : calcTreeL adjNow order = .ok t) :
    ∀ sw ∈ treeKeys t, Good adjNow t conns (handleLinkEvent fixed adjNow order conns link acc).1 sw := by
  obtain ⟨pv', mods, hu⟩ := updateTree_ok adjNow order conns acc.1 t ht
  have : (handleLinkEvent fixed adjNow order conns link acc).1 = pv' := by
    unfold handleLinkEvent
    simp [fixed, hu]
  rw [this]
  exact updateTree_post adjNow order conns acc.1 pv' mods t ht hu

theorem handleAll_fixed_post (adjNow : List Link) (order : List Nat) (conns : Conns) (t : List TEdge)
    (ht : calcTreeL adjNow order = .ok t) :
    ∀ (links : List Link) (acc : Prev × List PortMod × Nat), links ≠ [] →
      ∀ sw ∈ treeKeys t, Good adjNow t conns (handleAll fixed adjNow order conns links acc).1 sw
  | [], _, h => absurd rfl h
  | [l], acc, _ => by
    simp only [handleAll]
    exact handle_fixed_post adjNow order conns l acc t ht
  | l :: l2 :: ls, acc, _ => by
    rw [handleAll]
    exact handleAll_fixed_post adjNow order conns t ht (l2 :: ls) _ (by simp)

theorem deleteLinks_fixed_prev (s : DState) (links : List Link) (order : List Nat) :
    (deleteLinks fixed s links order).1.prev =
      (handleAll fixed (keys (without s.adj links)) order s.conns links (s.prev, [], 0)).1 := rfl

theorem deleteLinks_fixed_flood (s : DState) (links : List Link) (order : List Nat) (hne : links ≠ []) (t : List TEdge)
    (ht : calcTreeL (keys (deleteLinks fixed s links order).1.adj) order = .ok t) :
    ∀ sw ∈ treeKeys t, Good (keys (deleteLinks fixed s links order).1.adj) t (deleteLinks fixed s links order).1.conns
      (deleteLinks fixed s links order).1.prev sw := by
  rw [deleteLinks_fixed_prev, deleteLinks_conns]
  rw [deleteLinks_adj] at ht ⊢
  exact handleAll_fixed_post _ order s.conns t ht links _ hne

/-- FLOOD_PORTS, one op from ANY state of the repaired components: if the op raised a LinkEvent (the adjacency changed) and
    `_calc_spanning_tree` returns `t` on the new adjacency, then in the new state every port below `OFPP_MAX` of every connected
    switch of the tree has flooding on iff it is a tree port or an edge port. -/
theorem step_fixed_flood (s : DState) (op : Op) (hev : (step fixed s op).2.events ≠ []) (t : List TEdge)
    (ht : calcTreeL (keys (step fixed s op).1.adj) (orderOf op) = .ok t) :
    ∀ sw ∈ treeKeys t, Good (keys (step fixed s op).1.adj) t (step fixed s op).1.conns (step fixed s op).1.prev sw := by
  cases op with
  | tick dt => simp [step] at hev
  | up d ps => simp [step] at hev
  | down d o =>
    simp only [step, orderOf] at hev ht ⊢
    apply deleteLinks_fixed_flood _ _ _ _ t ht
    intro hnil
    rw [deleteLinks_events, hnil] at hev
    exact hev rfl
  | sweep o =>
    simp only [step, orderOf] at hev ht ⊢
    split at hev
    · simp at hev
    · rename_i hne
      rw [if_neg hne] at ht ⊢
      apply deleteLinks_fixed_flood _ _ _ _ t ht
      intro hnil
      rw [deleteLinks_events, hnil] at hev
      exact hev rfl
  | probe l o =>
    simp only [step, orderOf] at hev ht ⊢
    split at hev
    · simp at hev
    · split at hev
      · simp at hev
      · split at hev
        · simp at hev
        · rename_i h1 h2 h3
          rw [if_neg h1, if_neg h2, if_neg h3] at ht ⊢
          exact handle_fixed_post _ o s.conns l _ t ht

end Pox.Discovery
