import PoxModel.Model.FlowTable
/-! Lemmas for `Model/FlowTable.lean`: loop invariant of the insert binary search, sortedness after `add_entry`,
first-match lookup in a sorted table.  Core only. -/
namespace Pox.OF

/-- descending order of a list of effective priorities -/
def Desc (t : List Nat) : Prop := t.Pairwise (· ≥ ·)

/-- a table sorted by descending effective priority -/
def Sorted {α : Type} (tbl : Table α) : Prop := tbl.Pairwise (fun a b => a.effectivePriority ≥ b.effectivePriority)

theorem sorted_iff_desc {α : Type} (tbl : Table α) : Sorted tbl ↔ Desc (tbl.map Entry.effectivePriority) := by
  unfold Sorted Desc
  rw [List.pairwise_map]

theorem desc_get (t : List Nat) (h : Desc t) (i j : Nat) (hij : i ≤ j) (hj : j < t.length) :
    t[j] ≤ t[i]'(by omega) := by
  rcases Nat.lt_or_eq_of_le hij with h' | h'
  · exact List.pairwise_iff_getElem.mp h i j (by omega) hj h'
  · subst h'; exact Nat.le_refl _

/-- loop invariant of the binary search: it never indexes out of range, and returns the first position whose
    priority is `≤ p` -/
theorem bs_spec (p : Nat) (t : List Nat) (hs : Desc t) :
    ∀ (f lo hi : Nat), hi - lo < f → lo ≤ hi → hi ≤ t.length →
      (∀ i (h : i < t.length), i < lo → p < t[i]) → (∀ i (h : i < t.length), hi ≤ i → t[i] ≤ p) →
      ∃ k, bsLoop p t f lo hi = some k ∧ k ≤ t.length ∧
        (∀ i (h : i < t.length), i < k → p < t[i]) ∧ (∀ i (h : i < t.length), k ≤ i → t[i] ≤ p) := by
  intro f
  induction f with
  | zero => intro lo hi hf; omega
  | succ f ih =>
    intro lo hi hf hle hhi hlo hup
    unfold bsLoop
    by_cases hlt : lo < hi
    · simp only [hlt, if_true]
      have hm : (lo + hi) / 2 < t.length := by omega
      rw [List.getElem?_eq_getElem hm]
      simp only
      by_cases hp : p ≥ t[(lo + hi) / 2]
      · simp only [hp, if_true]
        apply ih lo ((lo + hi) / 2) (by omega) (by omega) (by omega) hlo
        intro i hi1 hi2
        exact Nat.le_trans (desc_get t hs ((lo + hi) / 2) i hi2 hi1) hp
      · simp only [hp, if_false]
        apply ih ((lo + hi) / 2 + 1) hi (by omega) (by omega) hhi _ hup
        intro i hi0 hi1
        have : t[(lo + hi) / 2] ≤ t[i] := desc_get t hs i ((lo + hi) / 2) (by omega) hm
        omega
    · simp only [hlt, if_false]
      have : lo = hi := by omega
      subst this
      exact ⟨lo, rfl, hhi, hlo, hup⟩

/-- the search never raises, whatever the table (sorted or not): `middle` is always a valid index -/
theorem bs_total (p : Nat) (t : List Nat) :
    ∀ (f lo hi : Nat), hi ≤ t.length → ∃ k, bsLoop p t f lo hi = some k ∧ k ≤ max lo hi := by
  intro f
  induction f with
  | zero => intro lo hi _; exact ⟨lo, rfl, by omega⟩
  | succ f ih =>
    intro lo hi hhi
    unfold bsLoop
    by_cases hlt : lo < hi
    · simp only [hlt, if_true]
      have hm : (lo + hi) / 2 < t.length := by omega
      rw [List.getElem?_eq_getElem hm]
      simp only
      by_cases hp : p ≥ t[(lo + hi) / 2]
      · simp only [hp, if_true]
        obtain ⟨k, hk, hb⟩ := ih lo ((lo + hi) / 2) (by omega)
        exact ⟨k, hk, by omega⟩
      · simp only [hp, if_false]
        obtain ⟨k, hk, hb⟩ := ih ((lo + hi) / 2 + 1) hi hhi
        exact ⟨k, hk, by omega⟩
    · simp only [hlt, if_false]
      exact ⟨lo, rfl, by omega⟩

theorem insertPos?_total (p : Nat) (t : List Nat) : ∃ k, insertPos? p t = some k ∧ k ≤ t.length := by
  obtain ⟨k, hk, hb⟩ := bs_total p t (t.length + 1) 0 t.length (Nat.le_refl _)
  exact ⟨k, hk, by omega⟩

theorem insertPos?_spec (p : Nat) (t : List Nat) (hs : Desc t) :
    ∃ k, insertPos? p t = some k ∧ k ≤ t.length ∧
      (∀ i (h : i < t.length), i < k → p < t[i]) ∧ (∀ i (h : i < t.length), k ≤ i → t[i] ≤ p) :=
  bs_spec p t hs (t.length + 1) 0 t.length (by omega) (by omega) (Nat.le_refl _)
    (by intro i _ hi; omega) (by intro i h1 h2; omega)

variable {α : Type}

theorem addEntry?_eq_some (e : Entry α) (tbl : Table α) : addEntry? e tbl = some (addEntry e tbl) := by
  obtain ⟨k, hk, _⟩ := insertPos?_total e.effectivePriority (tbl.map Entry.effectivePriority)
  unfold addEntry
  simp [addEntry?, hk]

theorem addEntry_eq (e : Entry α) (tbl : Table α) :
    ∃ k, k ≤ tbl.length ∧ addEntry e tbl = insertAt k e tbl ∧
      insertPos? e.effectivePriority (tbl.map Entry.effectivePriority) = some k := by
  obtain ⟨k, hk, hle⟩ := insertPos?_total e.effectivePriority (tbl.map Entry.effectivePriority)
  refine ⟨k, by simpa using hle, ?_, hk⟩
  unfold addEntry
  simp [addEntry?, hk]

/-- inserting at a position `k` with everything before strictly above `p` and everything from `k` on at most `p`
    keeps a descending list descending -/
theorem desc_insert (p : Nat) (t : List Nat) (hs : Desc t) (k : Nat) (hk : k ≤ t.length)
    (hlo : ∀ i (h : i < t.length), i < k → p < t[i]) (hup : ∀ i (h : i < t.length), k ≤ i → t[i] ≤ p) :
    Desc (t.take k ++ p :: t.drop k) := by
  unfold Desc
  rw [List.pairwise_append]
  refine ⟨hs.sublist (List.take_sublist _ _), ?_, ?_⟩
  · rw [List.pairwise_cons]
    refine ⟨?_, hs.sublist (List.drop_sublist _ _)⟩
    intro x hx
    obtain ⟨i, hi, rfl⟩ := List.getElem_of_mem hx
    have hi' : k + i < t.length := by simp at hi; omega
    have := hup (k + i) hi' (by omega)
    simpa [List.getElem_drop] using this
  · intro a ha b hb
    obtain ⟨i, hi, rfl⟩ := List.getElem_of_mem ha
    have hik : i < k := by simp at hi; omega
    have h1 := hlo i (by omega) hik
    have ha' : (t.take k)[i] = t[i]'(by omega) := by simp
    rw [ha']
    rcases List.mem_cons.mp hb with rfl | hb
    · omega
    · obtain ⟨j, hj, rfl⟩ := List.getElem_of_mem hb
      have hj' : k + j < t.length := by simp at hj; omega
      have := hup (k + j) hj' (by omega)
      have hb' : (t.drop k)[j] = t[k + j]'hj' := by simp [List.getElem_drop]
      rw [hb']; omega

/-- one `add_entry` keeps the table sorted -/
theorem addEntry_sorted (e : Entry α) (tbl : Table α) (hs : Sorted tbl) : Sorted (addEntry e tbl) := by
  obtain ⟨k, hle, heq, hpos⟩ := addEntry_eq e tbl
  obtain ⟨k', hk', hk'le, hlo, hup⟩ := insertPos?_spec e.effectivePriority (tbl.map Entry.effectivePriority)
    ((sorted_iff_desc tbl).mp hs)
  rw [hpos] at hk'
  cases hk'
  rw [heq, sorted_iff_desc]
  have := desc_insert e.effectivePriority (tbl.map Entry.effectivePriority) ((sorted_iff_desc tbl).mp hs) k hk'le hlo hup
  simpa [insertAt, List.map_append, List.map_take, List.map_drop] using this

theorem addEntry_perm (e : Entry α) (tbl : Table α) : (addEntry e tbl).Perm (e :: tbl) := by
  obtain ⟨k, _, heq, _⟩ := addEntry_eq e tbl
  rw [heq]
  unfold insertAt
  have h1 : (List.take k tbl ++ e :: List.drop k tbl).Perm (e :: (List.take k tbl ++ List.drop k tbl)) :=
    List.perm_middle
  simpa [List.take_append_drop] using h1

theorem mem_addEntry (e x : Entry α) (tbl : Table α) : x ∈ addEntry e tbl ↔ x = e ∨ x ∈ tbl := by
  rw [(addEntry_perm e tbl).mem_iff]; simp

theorem build_sorted (es : List (Entry α)) : Sorted (build es) := by
  unfold build
  suffices h : ∀ (t : Table α), Sorted t → Sorted (es.foldl (fun t e => addEntry e t) t) from
    h [] List.Pairwise.nil
  induction es with
  | nil => intro t ht; exact ht
  | cons e es ih => intro t ht; exact ih _ (addEntry_sorted e t ht)

theorem mem_build (es : List (Entry α)) (x : Entry α) : x ∈ build es ↔ x ∈ es := by
  unfold build
  suffices h : ∀ (t : Table α), x ∈ es.foldl (fun t e => addEntry e t) t ↔ x ∈ es ∨ x ∈ t by
    simpa using h []
  induction es with
  | nil => intro t; simp
  | cons e es ih =>
    intro t
    simp only [List.foldl_cons, ih, mem_addEntry, List.mem_cons]
    constructor
    · rintro (h | h | h)
      · exact .inl (.inr h)
      · exact .inl (.inl h)
      · exact .inr h
    · rintro ((h | h) | h)
      · exact .inr (.inl h)
      · exact .inl h
      · exact .inr (.inr h)

/-- removing entries keeps the table sorted (`remove_entry`, `_remove_specific_entries`: used by C04) -/
theorem sorted_sublist {t t' : Table α} (h : t'.Sublist t) (hs : Sorted t) : Sorted t' := hs.sublist h

/-- in a table sorted by descending effective priority the first accepted entry has the highest priority among all
    accepted entries, and a miss means nothing is accepted -/
theorem first_match_max {β : Type} (prio : β → Nat) (m : β → Bool) (tbl : List β)
    (hs : tbl.Pairwise (fun a b => prio a ≥ prio b)) :
    (∀ e, tbl.find? m = some e → m e = true ∧ e ∈ tbl ∧ ∀ e' ∈ tbl, m e' = true → prio e' ≤ prio e) ∧
    (tbl.find? m = none ↔ ∀ e ∈ tbl, m e = false) := by
  induction tbl with
  | nil => simp
  | cons a as ih =>
    rw [List.pairwise_cons] at hs
    obtain ⟨ih1, ih2⟩ := ih hs.2
    by_cases ha : m a = true
    · simp only [List.find?_cons, ha]
      refine ⟨?_, by simp [ha]⟩
      intro e he; cases he
      refine ⟨ha, by simp, ?_⟩
      intro e' he' _
      rcases List.mem_cons.mp he' with rfl | h
      · exact Nat.le_refl _
      · exact hs.1 e' h
    · have ha' : m a = false := by simpa using ha
      simp only [List.find?_cons, ha']
      refine ⟨?_, by simp [ih2, ha']⟩
      intro e he
      obtain ⟨h1, h2, h3⟩ := ih1 e he
      refine ⟨h1, by simp [h2], ?_⟩
      intro e' he' hm
      rcases List.mem_cons.mp he' with rfl | h
      · rw [ha'] at hm; cases hm
      · exact h3 e' h hm

/-! ### the same for any sort key -/

/-- a table sorted by descending `key` -/
def SortedBy (key : Entry α → Nat) (tbl : Table α) : Prop := tbl.Pairwise (fun a b => key a ≥ key b)

theorem sortedBy_eff (tbl : Table α) : SortedBy Entry.effectivePriority tbl ↔ Sorted tbl := Iff.rfl

theorem sortedBy_iff_desc (key : Entry α → Nat) (tbl : Table α) : SortedBy key tbl ↔ Desc (tbl.map key) := by
  unfold SortedBy Desc
  rw [List.pairwise_map]

theorem addEntryBy?_eq_some (key : Entry α → Nat) (e : Entry α) (tbl : Table α) :
    addEntryBy? key e tbl = some (addEntryBy key e tbl) := by
  obtain ⟨k, hk, _⟩ := insertPos?_total (key e) (tbl.map key)
  unfold addEntryBy
  simp [addEntryBy?, hk]

theorem addEntryBy_eq (key : Entry α → Nat) (e : Entry α) (tbl : Table α) :
    ∃ k, k ≤ tbl.length ∧ addEntryBy key e tbl = insertAt k e tbl ∧ insertPos? (key e) (tbl.map key) = some k := by
  obtain ⟨k, hk, hle⟩ := insertPos?_total (key e) (tbl.map key)
  refine ⟨k, by simpa using hle, ?_, hk⟩
  unfold addEntryBy
  simp [addEntryBy?, hk]

theorem addEntryBy_sorted (key : Entry α → Nat) (e : Entry α) (tbl : Table α) (hs : SortedBy key tbl) :
    SortedBy key (addEntryBy key e tbl) := by
  obtain ⟨k, hle, heq, hpos⟩ := addEntryBy_eq key e tbl
  obtain ⟨k', hk', hk'le, hlo, hup⟩ := insertPos?_spec (key e) (tbl.map key) ((sortedBy_iff_desc key tbl).mp hs)
  rw [hpos] at hk'
  cases hk'
  rw [heq, sortedBy_iff_desc]
  have := desc_insert (key e) (tbl.map key) ((sortedBy_iff_desc key tbl).mp hs) k hk'le hlo hup
  simpa [insertAt, List.map_append, List.map_take, List.map_drop] using this

theorem addEntryBy_perm (key : Entry α → Nat) (e : Entry α) (tbl : Table α) : (addEntryBy key e tbl).Perm (e :: tbl) := by
  obtain ⟨k, _, heq, _⟩ := addEntryBy_eq key e tbl
  rw [heq]
  unfold insertAt
  have h1 : (List.take k tbl ++ e :: List.drop k tbl).Perm (e :: (List.take k tbl ++ List.drop k tbl)) :=
    List.perm_middle
  simpa [List.take_append_drop] using h1

theorem mem_addEntryBy (key : Entry α → Nat) (e x : Entry α) (tbl : Table α) : x ∈ addEntryBy key e tbl ↔ x = e ∨ x ∈ tbl := by
  rw [(addEntryBy_perm key e tbl).mem_iff]; simp

/-- `add_entry` puts the new entry behind every entry of strictly higher key and in front of every entry of equal or lower key
    (so, in a sorted table, in front of its equals: newest first) -/
theorem addEntryBy_position (key : Entry α → Nat) (e : Entry α) (tbl : Table α) (hs : SortedBy key tbl) :
    ∃ l r, tbl = l ++ r ∧ addEntryBy key e tbl = l ++ e :: r ∧ (∀ x ∈ l, key x > key e) ∧ (∀ x ∈ r, key x ≤ key e) := by
  obtain ⟨k, hle, heq, hpos⟩ := addEntryBy_eq key e tbl
  obtain ⟨k', hk', _, hlo, hup⟩ := insertPos?_spec (key e) (tbl.map key) ((sortedBy_iff_desc key tbl).mp hs)
  rw [hpos] at hk'
  cases hk'
  refine ⟨tbl.take k, tbl.drop k, (List.take_append_drop k tbl).symm, heq, ?_, ?_⟩
  · intro x hx
    obtain ⟨i, hi, rfl⟩ := List.getElem_of_mem hx
    have hik : i < k := by simp at hi; omega
    have := hlo i (by simp; omega) hik
    simpa using this
  · intro x hx
    obtain ⟨j, hj, rfl⟩ := List.getElem_of_mem hx
    have hj' : k + j < tbl.length := by simp at hj; omega
    have := hup (k + j) (by simpa using hj') (by omega)
    simpa [List.getElem_drop] using this

theorem addEntry_position (e : Entry α) (tbl : Table α) (hs : Sorted tbl) :
    ∃ l r, tbl = l ++ r ∧ addEntry e tbl = l ++ e :: r ∧
      (∀ x ∈ l, x.effectivePriority > e.effectivePriority) ∧ (∀ x ∈ r, x.effectivePriority ≤ e.effectivePriority) :=
  addEntryBy_position Entry.effectivePriority e tbl hs

/-! ### histories of table operations -/
namespace TableOps

variable (key : Entry α → Nat) (mw : Bool → OfMatch → OfMatch → Bool) (bothWays : Bool)

theorem step_add (tbl : Table α) (e : Entry α) : step key mw bothWays tbl (.add e) = (addEntryBy key e tbl, false) := by
  simp [step, addEntryBy?_eq_some]

/-- only `remove_entry` of an absent object raises -/
theorem step_raises_iff (tbl : Table α) (op : Op α) : (step key mw bothWays tbl op).2 = true ↔ ∃ i, op = .removeAt i ∧ tbl.length ≤ i := by
  cases op with
  | add e => simp [step_add]
  | removeAt i =>
    by_cases h : i < tbl.length
    · simp [step, h]
    · simp [step, h]; omega
  | removeMatching m pr s po => simp [step]
  | expire d => simp [step]

/-- every operation other than `add` leaves a sub-list (same relative order) -/
theorem step_sublist (tbl : Table α) (op : Op α) (h : ∀ e, op ≠ .add e) : (step key mw bothWays tbl op).1.Sublist tbl := by
  cases op with
  | add e => exact absurd rfl (h e)
  | removeAt i =>
    simp only [step]
    split
    · exact List.eraseIdx_sublist _ _
    · exact List.Sublist.refl _
  | removeMatching m pr s po => exact List.filter_sublist
  | expire d => exact List.filter_sublist

theorem step_sorted (tbl : Table α) (op : Op α) (hs : SortedBy key tbl) : SortedBy key (step key mw bothWays tbl op).1 := by
  cases op with
  | add e => rw [step_add]; exact addEntryBy_sorted key e tbl hs
  | removeAt i => exact hs.sublist (step_sublist key mw bothWays tbl _ (by intro e h; cases h))
  | removeMatching m pr s po => exact hs.sublist (step_sublist key mw bothWays tbl _ (by intro e h; cases h))
  | expire d => exact hs.sublist (step_sublist key mw bothWays tbl _ (by intro e h; cases h))

theorem runFrom_sorted (ops : List (Op α)) (tbl : Table α) (hs : SortedBy key tbl) : SortedBy key (runFrom key mw bothWays tbl ops) := by
  induction ops generalizing tbl with
  | nil => exact hs
  | cons op ops ih => exact ih _ (step_sorted key mw bothWays tbl op hs)

theorem run_sorted (ops : List (Op α)) : SortedBy key (run key mw bothWays ops) := runFrom_sorted key mw bothWays ops [] List.Pairwise.nil

theorem mem_step (tbl : Table α) (op : Op α) (x : Entry α) (hx : x ∈ (step key mw bothWays tbl op).1) : x ∈ tbl ∨ op = .add x := by
  cases op with
  | add e =>
    rw [step_add] at hx
    rcases (mem_addEntryBy key e x tbl).mp hx with rfl | h
    · exact .inr rfl
    · exact .inl h
  | removeAt i => exact .inl ((step_sublist key mw bothWays tbl _ (by intro e h; cases h)).subset hx)
  | removeMatching m pr s po => exact .inl ((step_sublist key mw bothWays tbl _ (by intro e h; cases h)).subset hx)
  | expire d => exact .inl ((step_sublist key mw bothWays tbl _ (by intro e h; cases h)).subset hx)

theorem mem_added_cons (op : Op α) (ops : List (Op α)) (x : Entry α) :
    x ∈ added (op :: ops) ↔ op = .add x ∨ x ∈ added ops := by
  cases op with
  | add e =>
    simp only [added, List.mem_cons, Op.add.injEq]
    constructor
    · rintro (h | h); exact .inl h.symm; exact .inr h
    · rintro (h | h); exact .inl h.symm; exact .inr h
  | removeAt i => simp [added]
  | removeMatching m pr s po => simp [added]
  | expire d => simp [added]

theorem mem_runFrom (ops : List (Op α)) (tbl : Table α) (x : Entry α) (hx : x ∈ runFrom key mw bothWays tbl ops) :
    x ∈ tbl ∨ x ∈ added ops := by
  induction ops generalizing tbl with
  | nil => exact .inl hx
  | cons op ops ih =>
    rcases ih _ hx with h | h
    · rcases mem_step key mw bothWays tbl op x h with h' | h'
      · exact .inl h'
      · exact .inr ((mem_added_cons op ops x).mpr (.inl h'))
    · exact .inr ((mem_added_cons op ops x).mpr (.inr h))

/-- everything in the table was handed to `add_entry` at some point of the history -/
theorem mem_run (ops : List (Op α)) (x : Entry α) (hx : x ∈ run key mw bothWays ops) : x ∈ added ops := by
  rcases mem_runFrom key mw bothWays ops [] x hx with h | h
  · cases h
  · exact h

/-- a history of adds only: the table holds exactly what was added -/
theorem mem_runFrom_adds (es : List (Entry α)) (tbl : Table α) (x : Entry α) :
    x ∈ runFrom key mw bothWays tbl (es.map Op.add) ↔ x ∈ tbl ∨ x ∈ es := by
  induction es generalizing tbl with
  | nil => simp [runFrom]
  | cons e es ih =>
    have : runFrom key mw bothWays tbl ((e :: es).map Op.add) = runFrom key mw bothWays (addEntryBy key e tbl) (es.map Op.add) := by
      simp [runFrom, step_add]
    rw [this, ih, mem_addEntryBy]
    simp only [List.mem_cons]
    constructor
    · rintro ((h | h) | h)
      · exact .inr (.inl h)
      · exact .inl h
      · exact .inr (.inr h)
    · rintro (h | h | h)
      · exact .inl (.inr h)
      · exact .inl (.inl h)
      · exact .inr h

end TableOps

end Pox.OF
