import PoxModel.Proofs.FlowModRefine
/-! # C04 — the undefined wildcard bits 22..31 of a flow-mod's match are absent for every later use

Helper for `Pox.C04.undefined_bits_absent`: with repair C04-2 the match object handed to the flow-mod handlers (`rxMatch`: what is
stored by ADD and what every strict / non-strict / overlap comparison reads) is a function of the record with bits 22..31 cleared. -/
namespace Pox.FlowMod
open Pox.OF Pox.OF.OfMatch

theorem pre_maskUndef (v : Variant) (r : OfMatch) : v.pre (maskUndef r) = maskUndef (v.pre r) := by
  have h4 : (r.wildcards % 2 ^ 22).testBit Fld.dlType.bit = r.wildcards.testBit Fld.dlType.bit := by
    rw [Nat.testBit_mod_two_pow]; simp [show Fld.dlType.bit < 22 by decide]
  have h5 : (r.wildcards % 2 ^ 22).testBit Fld.nwProto.bit = r.wildcards.testBit Fld.nwProto.bit := by
    rw [Nat.testBit_mod_two_pow]; simp [show Fld.nwProto.bit < 22 by decide]
  simp only [Variant.pre, maskUndef, Variant.effDlType, Variant.effNwProto, h4, h5]

theorem maskUndef_idem (r : OfMatch) : maskUndef (maskUndef r) = maskUndef r := by
  simp only [maskUndef, Nat.mod_mod]

theorem rxMatch_maskUndef (cfg : Cfg) (h : cfg.maskUndefined = true) (r : OfMatch) :
    rxMatch cfg (maskUndef r) = rxMatch cfg r := by
  have e1 := ofWire_masked (cfg.mv.pre r)
  have e2 := ofWire_masked (cfg.mv.pre (maskUndef r))
  rw [pre_maskUndef, maskUndef_idem] at e2
  have hw : (cfg.mv.ofWire (maskUndef r)).wildcards &&& FW_ALL = (cfg.mv.ofWire r).wildcards &&& FW_ALL := by
    have a : (ofWire (cfg.mv.pre r)).wildcards &&& FW_ALL = (ofWire (maskUndef (cfg.mv.pre r))).wildcards := congrArg OfMatch.wildcards e1
    have b : (ofWire (maskUndef (cfg.mv.pre r))).wildcards &&& FW_ALL = (ofWire (maskUndef (cfg.mv.pre r))).wildcards := congrArg OfMatch.wildcards e2
    show (ofWire (cfg.mv.pre (maskUndef r))).wildcards &&& FW_ALL = (ofWire (cfg.mv.pre r)).wildcards &&& FW_ALL
    rw [pre_maskUndef, b, a]
  unfold rxMatch
  simp only [h, if_true]
  rw [hw]
  rfl

end Pox.FlowMod
